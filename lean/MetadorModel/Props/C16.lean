import MetadorModel.Proofs.Plugin
/-!
# C16 — Plugin references order, match and resolve by semantic version

Property theorems about `MetadorModel.Plugin` (model of `PluginRef`, the operators
`functools.total_ordering` derives from `__ge__`, `PluginGroup._add_ep/versions/resolve`,
`to_ep_name/from_ep_name`). Helper lemmas live in `Proofs/Plugin.lean`.

The specification order is `keyLt`: strict lexicographic order on `(group, name, version)`
with Python string order on the two names and numeric order on the version triple.
-/
namespace MetadorModel.C16
open MetadorModel.Plugin

/-! ## Total order consistent with equality and hashing -/

/-- `==` is structural equality of `(group, name, version)`. -/
theorem eq_iff_same (a b : Ref) : eq a b = true ↔ a = b := Plugin.eq_iff a b

/-- equal references hash alike (and conversely: the hash key is the whole triple). -/
theorem hash_consistent (a b : Ref) : eq a b = true ↔ hashKey a = hashKey b := by
  rw [Plugin.eq_iff]
  obtain ⟨ag, an, av⟩ := a
  obtain ⟨bg, bn, bv⟩ := b
  simp [hashKey]

/-- all four comparison operators are the lexicographic order on `(group, name, version)`. -/
theorem operators_are_lex (a b : Ref) :
    (lt a b = true ↔ keyLt a b) ∧ (le a b = true ↔ ¬ keyLt b a) ∧
    (gt a b = true ↔ keyLt b a) ∧ (ge a b = true ↔ ¬ keyLt a b) :=
  ⟨lt_iff a b, le_iff a b, gt_iff a b, ge_iff a b⟩

theorem le_refl (a : Ref) : le a a = true := (le_iff a a).mpr (leP_refl a)

theorem le_antisymm (a b : Ref) (h1 : le a b = true) (h2 : le b a = true) : eq a b = true :=
  (Plugin.eq_iff a b).mpr (leP_antisymm ((le_iff a b).mp h1) ((le_iff b a).mp h2))

theorem le_trans (a b c : Ref) (h1 : le a b = true) (h2 : le b c = true) : le a c = true :=
  (le_iff a c).mpr (leP_trans ((le_iff a b).mp h1) ((le_iff b c).mp h2))

theorem le_total (a b : Ref) : le a b = true ∨ le b a = true := by
  rcases leP_total a b with h | h
  · exact Or.inl ((le_iff a b).mpr h)
  · exact Or.inr ((le_iff b a).mpr h)

theorem lt_irrefl (a : Ref) : lt a a = false := by
  cases h : lt a a
  · rfl
  · exact absurd ((lt_iff a a).mp h) (keyLt_irrefl a)

theorem lt_iff_le_not_eq (a b : Ref) : lt a b = true ↔ (le a b = true ∧ eq a b = false) := by
  rw [lt_iff, le_iff]
  constructor
  · intro h
    refine ⟨leP_of_keyLt h, ?_⟩
    cases he : eq a b
    · rfl
    · rw [(Plugin.eq_iff a b).mp he] at h; exact absurd h (keyLt_irrefl b)
  · rintro ⟨h1, h2⟩
    rcases keyLt_trichotomy a b with h | h | h
    · exact h
    · rw [(Plugin.eq_iff a b).mpr h] at h2; cases h2
    · exact absurd h h1

theorem gt_iff_lt_swap (a b : Ref) : gt a b = lt b a := by
  have h1 := gt_iff a b
  have h2 := lt_iff b a
  cases hg : gt a b <;> cases hl : lt b a <;> simp_all

theorem ge_iff_le_swap (a b : Ref) : ge a b = le b a := by
  have h1 := ge_iff a b
  have h2 := le_iff b a
  unfold leP at h2
  cases hg : ge a b <;> cases hl : le b a <;> simp_all

/-- exactly one of `a < b`, `a == b`, `a > b`. -/
theorem trichotomy (a b : Ref) :
    (lt a b = true ∧ eq a b = false ∧ gt a b = false) ∨
    (lt a b = false ∧ eq a b = true ∧ gt a b = false) ∨
    (lt a b = false ∧ eq a b = false ∧ gt a b = true) := by
  have hl := lt_iff a b
  have hg := gt_iff a b
  have he := Plugin.eq_iff a b
  rcases keyLt_trichotomy a b with h | h | h
  · left
    refine ⟨hl.mpr h, ?_, ?_⟩
    · cases hx : eq a b
      · rfl
      · rw [he.mp hx] at h; exact absurd h (keyLt_irrefl b)
    · cases hx : gt a b
      · rfl
      · exact absurd (hg.mp hx) (keyLt_asymm h)
  · right; left
    subst h
    refine ⟨lt_irrefl a, he.mpr rfl, ?_⟩
    cases hx : gt a a
    · rfl
    · exact absurd ((gt_iff a a).mp hx) (keyLt_irrefl a)
  · right; right
    refine ⟨?_, ?_, hg.mpr h⟩
    · cases hx : lt a b
      · rfl
      · exact absurd (hl.mp hx) (keyLt_asymm h)
    · cases hx : eq a b
      · rfl
      · rw [he.mp hx] at h; exact absurd h (keyLt_irrefl b)

/-! ## supports -/

theorem supports_iff (a b : Ref) : supports a b = true ↔
    a.group = b.group ∧ a.name = b.name ∧ a.ver.1 = b.ver.1 ∧ b.ver.2.1 ≤ a.ver.2.1 :=
  Plugin.supports_iff a b

/-! ## version tables -/

/-- Whatever the registration order (and whichever of the two registration paths is used —
both append and sort), the version list of a plugin name is the ascending list of all
registered references of that name. -/
theorem versions_sorted_all (rs : List Ref) (n : String) :
    let l := (rs.foldl register []).get n
    l.Pairwise (fun a b => le a b = true) ∧ l.Perm (rs.filter (fun r => r.name = n)) := by
  simp only [registerAll_get]
  refine ⟨?_, sortRefs_perm _⟩
  exact (sortRefs_sorted _).imp (fun {a b} h => (le_iff a b).mpr h)

/-- the version table does not depend on the registration order -/
theorem versions_order_independent (rs₁ rs₂ : List Ref) (h : rs₁.Perm rs₂) (n : String) :
    (rs₁.foldl register []).get n = (rs₂.foldl register []).get n := by
  simp only [registerAll_get]
  exact sortRefs_congr (h.filter _)

/-- `resolve` returns the newest registered version that supports the request … -/
theorem resolve_spec (grp : String) (rs : List Ref) (n : String) (v : Ver) (r : Ref)
    (h : resolve grp (rs.foldl register []) n (some v) = some r) :
    r ∈ rs ∧ r.name = n ∧ supports r ⟨grp, n, v⟩ = true ∧
    ∀ r' ∈ rs, r'.name = n → supports r' ⟨grp, n, v⟩ = true → le r' r = true := by
  simp only [resolve, versions, registerAll_get] at h
  have hs : (List.filter (fun r => supports r ⟨grp, n, v⟩)
      (sortRefs (rs.filter (fun r => r.name = n)))).Pairwise leP :=
    (sortRefs_sorted _).filter _
  obtain ⟨hmem, hmax⟩ := getLast?_max hs h
  simp only [List.mem_filter] at hmem
  have hr := (sortRefs_perm _).subset hmem.1
  simp only [List.mem_filter, decide_eq_true_eq] at hr
  refine ⟨hr.1, hr.2, hmem.2, ?_⟩
  intro r' hr' hn' hs'
  apply (le_iff r' r).mpr
  apply hmax
  simp only [List.mem_filter]
  refine ⟨(sortRefs_perm _).symm.subset ?_, hs'⟩
  simp [hr', hn']

/-- … and `None` exactly when no registered version supports it. -/
theorem resolve_none_iff (grp : String) (rs : List Ref) (n : String) (v : Ver) :
    resolve grp (rs.foldl register []) n (some v) = none ↔
    ∀ r' ∈ rs, r'.name = n → supports r' ⟨grp, n, v⟩ = false := by
  simp only [resolve, versions, registerAll_get, List.getLast?_eq_none_iff,
    List.filter_eq_nil_iff]
  constructor
  · intro h r' hr' hn'
    have : r' ∈ sortRefs (rs.filter (fun r => r.name = n)) :=
      (sortRefs_perm _).symm.subset (by simp [hr', hn'])
    simpa using h r' this
  · intro h r' hr'
    have := (sortRefs_perm _).subset hr'
    simp only [List.mem_filter, decide_eq_true_eq] at this
    simp [h r' this.1 this.2]

/-- without a version constraint `resolve` is the newest registered version of that name -/
theorem resolve_latest (grp : String) (rs : List Ref) (n : String) (r : Ref)
    (h : resolve grp (rs.foldl register []) n none = some r) :
    r ∈ rs ∧ r.name = n ∧ ∀ r' ∈ rs, r'.name = n → le r' r = true := by
  simp only [resolve, versions, registerAll_get] at h
  obtain ⟨hmem, hmax⟩ := getLast?_max (sortRefs_sorted _) h
  have hr := (sortRefs_perm _).subset hmem
  simp only [List.mem_filter, decide_eq_true_eq] at hr
  refine ⟨hr.1, hr.2, ?_⟩
  intro r' hr' hn'
  apply (le_iff r' r).mpr
  apply hmax
  exact (sortRefs_perm _).symm.subset (by simp [hr', hn'])

/-- the answer of `resolve` (with or without a version) does not depend on the order in which
the installed versions were registered -/
theorem resolve_order_independent (grp : String) (rs₁ rs₂ : List Ref) (h : rs₁.Perm rs₂)
    (n : String) (v : Option Ver) :
    resolve grp (rs₁.foldl register []) n v = resolve grp (rs₂.foldl register []) n v := by
  have hv := versions_order_independent rs₁ rs₂ h n
  cases v <;> simp only [resolve, versions, hv]

/-- compatibility is a preorder on references: every reference supports itself, and support
composes (same group, name and major version; minor versions only grow) -/
theorem supports_refl (a : Ref) : supports a a = true :=
  (supports_iff a a).mpr ⟨rfl, rfl, rfl, Nat.le_refl _⟩

theorem supports_trans (a b c : Ref) (h1 : supports a b = true) (h2 : supports b c = true) :
    supports a c = true := by
  obtain ⟨g1, n1, m1, l1⟩ := (supports_iff a b).mp h1
  obtain ⟨g2, n2, m2, l2⟩ := (supports_iff b c).mp h2
  exact (supports_iff a c).mpr ⟨g1.trans g2, n1.trans n2, m1.trans m2, Nat.le_trans l2 l1⟩

/-- what `resolve` returns for a request also serves every request that the REQUEST supports:
resolving never returns something weaker than what was asked for -/
theorem resolve_serves_weaker (grp : String) (rs : List Ref) (n : String) (v w : Ver) (r : Ref)
    (h : resolve grp (rs.foldl register []) n (some v) = some r)
    (hw : supports ⟨grp, n, v⟩ ⟨grp, n, w⟩ = true) : supports r ⟨grp, n, w⟩ = true :=
  supports_trans r ⟨grp, n, v⟩ ⟨grp, n, w⟩ (resolve_spec grp rs n v r h).2.2.1 hw

/-- `keys()` yields every registered reference, exactly as often as it was registered … -/
theorem keys_lists_registered (rs : List Ref) : (rs.foldl register []).keys.Perm rs :=
  registerAll_keys_perm rs

/-- … and the references of one name appear in it as the (ascending, complete) version list of
that name (`versions_sorted_all`), whatever the registration order. -/
theorem keys_of_name (rs : List Ref) (n : String) :
    (rs.foldl register []).keys.filter (fun r => r.name = n) = (rs.foldl register []).get n :=
  Table.keys_filter_name _ (registerAll_WF rs) n

/-- `name in group` holds exactly when some version of that name was registered,
`(name, version) in group` exactly when that version was registered -/
theorem contains_iff (grp : String) (rs : List Ref) (n : String) :
    (contains grp (rs.foldl register []) n none = true ↔ ∃ r ∈ rs, r.name = n) ∧
    ∀ v, (contains grp (rs.foldl register []) n (some v) = true ↔ (⟨grp, n, v⟩ : Ref) ∈ rs) :=
  ⟨contains_none_iff grp rs n, contains_some_iff grp rs n⟩

/-- `group.get(name, version)` is the plugin `resolve` picks (so `resolve_spec`, `resolve_none_iff`,
`resolve_latest` describe it); `group[key]` is the same for keys that are `in` the group and
`KeyError` otherwise. Queries read the table only: interleaving them with registrations cannot
change any later answer (they are functions of the registrations made so far). -/
theorem get_is_resolve (grp : String) (t : Table) (n : String) (v : Option Ver) :
    getPlugin grp t n v = resolve grp t n v ∧
    getItem grp t n v = (if contains grp t n v then some (resolve grp t n v) else none) :=
  ⟨rfl, rfl⟩

/-! ## entry point names -/

/-- `from_ep_name(to_ep_name(name, version)) == (name, version)` for every valid qualified
name and every version triple, and the produced string is a valid entry-point name. -/
theorem epname_roundtrip (n : List Char) (v : Ver) (hn : isQualName n = true) :
    isEpName (toEpName n v) = true ∧ fromEpName (toEpName n v) = some (n, v) := by
  have hsplit : splitUU (toEpName n v) [] = [n, semverStr v] := by
    have := splitUU_append n (semverStr v) [] (isQualName_noUU n hn) (semverStr_noUnderscore v)
    simpa [toEpName] using this
  constructor
  · simp [isEpName, hsplit, hn, isSemVer_semverStr]
  · simp [fromEpName, hsplit, parseSemVer_semverStr]

/-- valid names never contain the separator `__` (so the split is unambiguous) -/
theorem qualname_has_no_separator (n : List Char) (hn : isQualName n = true) : NoUU n :=
  isQualName_noUU n hn

/-! ## a class obtained without a version cannot be subclassed -/

/-- class creation is refused exactly when some base class — at any position, with any other
bases — is a version-less (marked) handle -/
theorem marked_base_refused (bases : List Bool) :
    newRaises bases = true ↔ ∃ b ∈ bases, b = true := by
  simp [newRaises]

/-! ## the pinned code violated the order axioms (negative results, concrete witnesses) -/

/-- With the pinned `__ge__` (falls through to `None` on equal references) `a < a` holds. -/
theorem legacy_lt_not_irreflexive : Legacy.lt ⟨"g", "aa", (1, 0, 0)⟩ ⟨"g", "aa", (1, 0, 0)⟩ = true := by
  decide

/-! ## non-vacuity: the hypotheses are satisfiable on non-trivial data -/

example : isQualName "vt.aa-b_c".toList = true := by decide
example : fromEpName (toEpName "vt.aa-b_c".toList (1, 20, 3)) = some ("vt.aa-b_c".toList, (1, 20, 3)) :=
  (epname_roundtrip _ _ (by decide)).2
example : resolve "schema" ([⟨"schema", "vt.aa", (1, 2, 0)⟩, ⟨"schema", "vt.aa", (1, 0, 5)⟩,
    ⟨"schema", "vt.aa", (2, 0, 0)⟩, ⟨"schema", "vt.aa", (1, 10, 0)⟩].foldl register [])
    "vt.aa" (some (1, 1, 0)) = some ⟨"schema", "vt.aa", (1, 10, 0)⟩ := by decide
example : lt ⟨"g", "aa", (1, 9, 0)⟩ ⟨"g", "aa", (1, 10, 0)⟩ = true := by decide
example : ([⟨"schema", "vt.aa", (1, 2, 0)⟩, ⟨"schema", "vt.ab", (1, 0, 5)⟩,
    ⟨"schema", "vt.aa", (1, 0, 0)⟩].foldl register []).keys =
    [⟨"schema", "vt.aa", (1, 0, 0)⟩, ⟨"schema", "vt.aa", (1, 2, 0)⟩, ⟨"schema", "vt.ab", (1, 0, 5)⟩] := by decide
example : getItem "schema" ([⟨"schema", "vt.aa", (1, 2, 0)⟩, ⟨"schema", "vt.aa", (1, 0, 0)⟩].foldl register [])
    "vt.aa" (some (1, 0, 0)) = some (some ⟨"schema", "vt.aa", (1, 2, 0)⟩) := by decide
example : getItem "schema" ([⟨"schema", "vt.aa", (1, 2, 0)⟩].foldl register [])
    "vt.aa" (some (1, 0, 0)) = none := by decide

end MetadorModel.C16
