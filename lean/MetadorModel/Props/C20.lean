import MetadorModel.Proofs.ContainerReload
import MetadorModel.Props.C06
/-!
# C20 — Containers are self-describing

Property theorems on the container model (`Model/Container.lean`): for every stored metadata
object the raw tree holds the JSON Schema of its schema, the chain of parent schemas and the
record of the providing package, these equal what the plugin system (`Env`) reports, and the
caches of a freshly opened container (`reload`) report exactly that. The invariant `Inv e s` is
established by C06 (`sync_init`, `sync_step`, `sync_run`). The conformance of stored objects to the embedded
JSON Schema is the `Codec` part of C20 (`jsonschema_conforms`, C12 model) and not in this file.
-/
namespace MetadorModel.C20
open MetadorModel.Container

variable {e : Env} {s : St}

/-- *"For every metadata object stored in a container, the container also stores the JSON Schema of
the object's schema, the chain of its parent schemas, and name, version and plugin list of a package
providing it"*, and *"the embedded parent chain and provider equal what the plugin system reports
for that schema"* (`i.parents`, `i.pkg` of the environment's entry `e.info r`). -/
def SelfDescribing (e : Env) (s : St) : Prop :=
  ∀ p r u, ObjAt s.raw p r u →
    ∃ i, e.info r = some i ∧
      get? s.raw (schemaDir r ++ [.jsonschema]) = some (.ds (.jsonschema r)) ∧
      get? s.raw (schemaDir r ++ [.compat]) = some (.ds (.compat i.parents)) ∧
      get? s.raw (pkgPath i.pkg) = some (.ds (.pkginfo i.pkg (e.pkgPlugins i.pkg))) ∧
      r ∈ e.pkgPlugins i.pkg

/-- the invariant implies self-description -/
theorem self_describing (he : WFEnv e) (hi : Inv e s) : SelfDescribing e s := by
  intro p r u ho
  obtain ⟨i, hinfo⟩ := hi.mok.objenv p r u ho
  have hu : UsedIn s.raw r := ⟨p, u, ho⟩
  refine ⟨i, hinfo, (hi.toc.json r).1 hu, ?_, (hi.toc.pkg i.pkg).1 ⟨r, i, hu, hinfo, rfl⟩, he.prov r i hinfo⟩
  rw [(hi.toc.compat r).1 hu, ppath_eq hinfo]

/-- conversely nothing else is embedded: schema and package records exist only for schemas in use -/
theorem only_used_embedded (hi : Inv e s) :
    (∀ r, get? s.raw (schemaDir r) ≠ none → UsedIn s.raw r) ∧
    (∀ pk, get? s.raw (pkgPath pk) ≠ none → ∃ r i, UsedIn s.raw r ∧ e.info r = some i ∧ i.pkg = pk) := by
  refine ⟨fun r h => ?_, fun pk h => ?_⟩
  · by_contra hn; exact h ((hi.toc.sdir r).2 hn)
  · by_contra hn; exact h ((hi.toc.pkg pk).2 hn)

/-- what a `MetadorContainerTOC` with caches `c` reports about the schema `r`
(`schemas.keys()`, `schemas.parent_path(r)`, `schemas.provider(r)`, `packages[provider]`) -/
def Reports (e : Env) (c : Caches) (r : SRef) : Prop :=
  ∃ i, e.info r = some i ∧ r ∈ c.schemas ∧ alGet c.parents r = some i.parents ∧
    alGet c.providers r = some [i.pkg] ∧ alGet c.pkginfos i.pkg = some (e.pkgPlugins i.pkg)

theorem reports_of_cache (he : WFEnv e) {U : SRef → Prop} {c : Caches} (hc : SchemaCache e U c) {r : SRef}
    {i : SInfo} (hinfo : e.info r = some i) (hu : U r) : Reports e c r := by
  have hreg : RegP e U i.pkg := ⟨r, i, hu, hinfo, rfl⟩
  refine ⟨i, hinfo, (hc.schemas r).mpr hu, ?_, (hc.providers r _).mpr ⟨i.pkg, rfl, hreg, he.prov r i hinfo⟩,
    (hc.pkginfos i.pkg _).mpr ⟨hreg, rfl⟩⟩
  have hsome : (alGet c.parents r).isSome :=
    (hc.index.domp r).mpr ((hc.index.dom r).mpr ⟨r, hu, mem_ppath_self he hinfo⟩)
  obtain ⟨l, hl⟩ := alGet_some_of_isSome hsome
  rw [hl, hc.index.par_val r l hl, ppath_eq hinfo]

/-- the live container reports the embedded description for every stored object -/
theorem self_describing_live (he : WFEnv e) (hi : Inv e s) {p : Path} {r : SRef} {u : Nat}
    (ho : ObjAt s.raw p r u) : Reports e s.c r := by
  obtain ⟨i, hinfo⟩ := hi.mok.objenv p r u ho
  exact reports_of_cache he hi.scache hinfo ⟨p, u, ho⟩

/-- *"… and this description is what a freshly opened container reports"* -/
theorem self_describing_after_reload (he : WFEnv e) (hi : Inv e s) {p : Path} {r : SRef} {u : Nat}
    (ho : ObjAt s.raw p r u) : Reports e (reload s.raw) r := by
  obtain ⟨i, hinfo⟩ := hi.mok.objenv p r u ho
  exact reports_of_cache he (reload_inv he hi).scache hinfo ⟨p, u, ho⟩

/-- reopening does not change the raw tree, so the reopened container is self-describing as well -/
theorem self_describing_reopen (he : WFEnv e) (hi : Inv e s) : SelfDescribing e (opReopen s).2 :=
  self_describing he (opReopen_inv he hi)

/-- a freshly opened container reports a schema only if it is embedded for an object in use -/
theorem reload_reports_only_used (he : WFEnv e) (hi : Inv e s) {r : SRef}
    (h : r ∈ (reload s.raw).schemas) : UsedIn s.raw r :=
  ((reload_inv he hi).scache.schemas r).mp h

/-- every state reachable from a fresh container is self-describing, and so is the reopened one -/
theorem self_describing_reachable (he : WFEnv e) (ops : List Op) (h : ∀ op ∈ ops, OpOK op) :
    SelfDescribing e (run e initSt ops) ∧ SelfDescribing e (opReopen (run e initSt ops)).2 :=
  have hi := MetadorModel.C06.sync_run he ops initSt (MetadorModel.C06.sync_init e) h
  ⟨self_describing he hi, self_describing_reopen he hi⟩

/-! ## Non-vacuity -/

open MetadorModel.C06 in
/-- the state after `C06.hist1` (one `vt.cc` object, three-level family `aa ← bb ← cc`) embeds the
chain `[aa, bb, cc]` and the package record, and a reopened container reports them -/
example : Reports env3 (reload (run env3 initSt hist1).raw) cc :=
  self_describing_after_reload env3_wf
    (sync_run env3_wf hist1 initSt (sync_init env3) (by decide)) hist1_obj

open MetadorModel.C06 in
example : alGet (reload (run env3 initSt hist1).raw).parents cc = some [aa, bb, cc] ∧
    alGet (reload (run env3 initSt hist1).raw).providers cc = some [pk1] := by decide +kernel

end MetadorModel.C20
