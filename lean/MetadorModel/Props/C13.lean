import MetadorModel.Proofs.Subtype
/-!
# C13 — Every child-schema instance is a valid parent-schema instance

`Sub env a b` ("whatever `a` holds serialises to something `b` accepts") is the semantic
relation the property is about. Theorems:

* `isSubtype_sound` — the override test of `check_types` (`util/typing.is_subtype`, modelled by
  `isSubtype` on runtype's canonical types) only answers "yes" for pairs in `Sub`, provided
  the nominal class table is sound (`ClassTableSound`: each phantom-string subclass edge is an
  inclusion of patterns, each schema subclass edge is already known to be in `Sub`) and the
  library parsers refuse by validation errors only (`NoCrash`, true since
  `fix: pint parsers turn every parsing failure into a validation error`).
* `child_valid_in_parent` — a child schema whose fields are the base's fields, unchanged or
  overridden by checked subtypes (`Extends`: what the class-construction rules of
  `SchemaMagic.__new__` / the decorators and `check_overrides` establish), is in `Sub` with its
  base: every valid child instance is parsed by the base.
* `undeclared_widening_refused` — an overridden field whose type is not a subtype of the
  inherited one makes `checkOverrides` fail unless it is listed in `__overrides__`.
* `checkTypes_visits_ancestors` — if `checkTypes` passes for a class, `checkOverrides` passed for
  every class up its inheritance chain (plugins and plain intermediate classes alike);
  `intermediate_widening_refused`, `declaration_not_inherited` (an ancestor's `@override`
  declaration does not cover a descendant), `new_field_below_forbidding_parent_refused`
  (required, `Optional` or defaulted: no new field below a parent that forbids extras).
* `loads_examine_every_ancestor` — load order and earlier refusals do not matter: after any sequence
  of plugin loads (`loadPlugin`/`loadAll`: `check_types` *without* `recheck`, the `__types_checked__`
  marks of the earlier loads kept, refused loads among them, dependency cycles allowed), a load
  that passes means that the loaded class and every class up its inheritance chain has passed
  `check_allowed_types` and `check_overrides` (invariant `MarksOk`: `checkTypesF_marksOk` for a walk
  that passes, `refused_load_restores_marks` for one that does not). `refused_stays_refused` /
  `refused_at_every_load`: a class that fails its examination is refused at every load, after any
  history, and so is every class that has it on its inheritance chain. No hypothesis on the
  table, no bound on loads or classes. `load_examines_unmarked` (a mark is per class: a class
  without a mark of its own is examined whatever else is marked), `child_refused_whatever_is_marked`;
  `legacy_refused_class_passes_next_load` (pinned behaviour before F31: the mark survived a
  refusal), `legacy_nested_descendant_keeps_mark_of_refused_walk` (the first repair cleared the
  marks on the stack only, which a dependency cycle defeated).
* `const_over_container_refused` — `add_const_fields` over a collection-valued field (`List`/`Set`,
  also below `Optional`/`Annotated`) is refused without `override=True` whatever the item type is;
  `legacy_const_over_container_accepted` (pinned behaviour before F30).
* `Extends` / `child_valid_in_parent` also cover the "marked subclass" pattern: a field of the base
  pinned by a constant of the child (`add_const_fields` over a Literal field).
* `installedStrings_sound_except`, `qualhashsum_not_subtype` — the class table of the installed
  phantom string types is sound except for the edge `QualHashsumStr < HashsumStr` (known
  finding F12: the subclass *replaces* the pattern).
-/
namespace MetadorModel.C13
open MetadorModel.Codec MetadorModel.Subtype

/-! ## `is_subtype` -/

theorem isSubtype_le (T : Table) : ∀ a b, isSubtype T a b = true → le T (canon a) (canon b) = true := by
  intro a b h
  fun_induction isSubtype T a b with
  | case1 a b ih => simpa [canon] using ih h
  | case2 a b hnot hc => cases h
  | case3 a b hnot hc hl => cases h
  | case4 a b hnot hc hl => exact h

/-- **Soundness of the override test.** Induction on the pair of canonical types
(`Proofs/Subtype.lean`: `valid_denL`, `le_sound`, `denR_accepts`). `Coherent` says that the
schema nodes of the two types are the registered classes, `SetsScalar` that sets hold hashable
item types (the grammar's "Set of hashables"). -/
theorem isSubtype_sound (env : Env) (T : Table) (R : Reg) (hn : NoCrash env)
    (hT : ClassTableSound env T R) (a b : Ty) (ha : Coherent R a) (hb : Coherent R b)
    (hs : SetsScalar b = true) (h : isSubtype T a b = true) :
    ∀ v, Valid env a v → accepts env b (encode v) = true :=
  le_canon_sound env T R hn hT a b ha hb hs (isSubtype_le T a b h)

/-- a type is in `Sub` with itself (the C12 round trip) -/
theorem Sub_refl (env : Env) (t : Ty) : Sub env t t := by
  intro v hv
  rw [accepts_iff]
  exact ⟨v, roundtrip_core env t v hv⟩

/-! ## the phantom string types -/

theorem splitOn_two_mem (sep : Char) (s : Str) (a b : Str) (h : splitOn sep s = [a, b]) : sep ∈ s := by
  induction s generalizing a b with
  | nil => simp [splitOn] at h
  | cons c r ih =>
    simp only [splitOn] at h
    split at h
    · simp at h
    · rename_i hd tl heq
      by_cases hc : (c == sep) = true
      · simp at hc; simp [hc]
      · simp [hc] at h
        obtain ⟨rfl, rfl⟩ := h
        have := ih _ _ heq
        simp [this]

theorem isHex_not_space (c : Char) (h : isHex c = true) : isSpace c = false := by
  simp only [isHex, Bool.or_eq_true, Bool.and_eq_true, decide_eq_true_eq, Char.le_def, UInt32.le_iff_toNat_le] at h
  simp only [isSpace, Char.toNat, Bool.or_eq_false_iff, Bool.and_eq_false_iff, decide_eq_false_iff_not, beq_eq_false_iff_ne, ne_eq]
  have e0 : ('0' : Char).val.toNat = 48 := by decide
  have e9 : ('9' : Char).val.toNat = 57 := by decide
  have ea : ('a' : Char).val.toNat = 97 := by decide
  have ef : ('f' : Char).val.toNat = 102 := by decide
  have eA : ('A' : Char).val.toNat = 65 := by decide
  have eF : ('F' : Char).val.toNat = 70 := by decide
  rw [e0, e9, ea, ef, eA, eF] at h
  refine ⟨⟨?_, ?_⟩, ?_⟩
  · intro e
    subst e
    have : (' ' : Char).val.toNat = 32 := by decide
    omega
  · omega
  · omega

theorem mime_nes (s : Str) (h : recMime s = true) : recNes s = true := by
  unfold recMime at h
  split at h
  · rename_i a b heq
    have hm := splitOn_two_mem '/' s a b heq
    simp only [recNes, List.any_eq_true]
    exact ⟨'/', hm, by decide⟩
  · cases h

theorem hash_nes (s : Str) (h : recHash s = true) : recNes s = true := by
  cases s with
  | nil => simp [recHash] at h
  | cons c r =>
    simp only [recHash, List.isEmpty_cons, Bool.not_false, List.all_cons, Bool.true_and, Bool.and_eq_true] at h
    simp only [recNes, List.any_cons, Bool.or_eq_true]
    left
    simp [isHex_not_space c h.1]

theorem dropPrefix_cons (p : Char) (ps s h : Str) (e : dropPrefix? (p :: ps) s = some h) :
    ∃ r, s = p :: r := by
  cases s with
  | nil => simp [dropPrefix?] at e
  | cons c cs =>
    simp only [dropPrefix?] at e
    split at e
    · rename_i hpc
      simp at hpc
      exact ⟨cs, by rw [hpc]⟩
    · cases e

theorem qhash_nes (s : Str) (h : recQHash s = true) : recNes s = true := by
  unfold recQHash at h
  have key : ∃ r, s = 's' :: r := by
    split at h
    · rename_i hh heq
      exact dropPrefix_cons 's' _ s hh heq
    · split at h
      · rename_i hh heq
        exact dropPrefix_cons 's' _ s hh heq
      · cases h
  obtain ⟨r, rfl⟩ := key
  simp only [recNes, List.any_cons, Bool.or_eq_true]
  left
  decide

/-- **The installed phantom string types**: every nominal edge except `QualHashsumStr <
HashsumStr` is an inclusion of the accepted strings … -/
theorem installedStrings_sound_except (k k' : CStr) (h : cstrSub k k' = true)
    (hne : ¬ (k = .qhash ∧ k' = .hash)) : ∀ s, recog k s = true → recog k' s = true := by
  intro s hs
  match k, k', h, hne, hs with
  | .nes, .nes, _, _, hs => exact hs
  | .mime, .mime, _, _, hs => exact hs
  | .hash, .hash, _, _, hs => exact hs
  | .qhash, .qhash, _, _, hs => exact hs
  | .mime, .nes, _, _, hs => exact mime_nes s hs
  | .hash, .nes, _, _, hs => exact hash_nes s hs
  | .qhash, .nes, _, _, hs => exact qhash_nes s hs
  | .qhash, .hash, _, hne, _ => exact absurd ⟨rfl, rfl⟩ hne
  | .nes, .mime, h, _, _ => exact absurd h (by decide)
  | .nes, .hash, h, _, _ => exact absurd h (by decide)
  | .nes, .qhash, h, _, _ => exact absurd h (by decide)
  | .mime, .hash, h, _, _ => exact absurd h (by decide)
  | .mime, .qhash, h, _, _ => exact absurd h (by decide)
  | .hash, .mime, h, _, _ => exact absurd h (by decide)
  | .hash, .qhash, h, _, _ => exact absurd h (by decide)
  | .qhash, .mime, h, _, _ => exact absurd h (by decide)

/-- … and that one is not (known finding F12): the witness the real code shows too. -/
theorem qualhashsum_not_subtype :
    recog .qhash "sha256:ab".toList = true ∧ recog .hash "sha256:ab".toList = false ∧
    cstrSub .qhash .hash = true ∧
    (∀ env T, isSubtype T (.cstr .qhash) (.cstr .hash) = true ∧
      accepts env (.cstr .qhash) (.str "sha256:ab".toList) = true ∧
      accepts env (.cstr .hash) (.str "sha256:ab".toList) = false) := by
  refine ⟨by decide, by decide, by decide, ?_⟩
  intro env T
  exact ⟨by rfl, by rfl, by rfl⟩

/-- hence no class table containing both is sound -/
theorem classTable_unsound_with_qualhashsum (env : Env) (T : Table) (R : Reg) :
    ¬ ClassTableSound env T R := by
  intro h
  have := h.1 .qhash .hash (by decide) "sha256:ab".toList (by decide)
  revert this
  decide

/-! ## characterisations used as regression anchors -/

/-- `Optional[X]` is never a subtype of a plain atom -/
theorem optional_not_subtype (T : Table) (k : Ty) (hk : k = .bool ∨ k = .int ∨ k = .float ∨ k = .str) :
    isSubtype T (.opt k) k = false := by
  rcases hk with rfl | rfl | rfl | rfl <;> rfl

/-- between Literals the test is exactly inclusion of the value sets (Python `==`) -/
theorem literal_subtype_iff (T : Table) (vs ws : List Lit) :
    isSubtype T (.lit vs) (.lit ws) = vs.all (fun v => ws.any (fun w => litNEq (some v) (some w))) := by
  simp [isSubtype, isAnn, isLit, canon, le, List.all_map, List.any_map, Function.comp_def]

/-- a Literal nested below a non-literal type is refused when the base type has no Literal at all
(`fix: is_subtype refuses literals nested below a non-literal type`): runtype would compare the
literal values by `isinstance` only, ignoring e.g. the length limits of plain `str` fields -/
theorem nested_literal_refused (T : Table) (a b : Ty) (hna : isAnn a = false) (hla : isLit a = false)
    (ha : hasLit a = true) (hb : hasLit b = false) : isSubtype T a b = false := by
  cases a <;> simp_all [isSubtype, isAnn, isLit]

theorem literal_superset_not_subtype (T : Table) :
    isSubtype T (.lit [.str "a".toList, .str "b".toList]) (.lit [.str "a".toList]) = false := by
  rw [literal_subtype_iff]; decide

/-! ## child schema vs. base schema -/

/-- What class construction (`SchemaMagic.__new__`, `add_const_fields`, `make_mandatory`) and
`check_overrides` establish between the effective schema of a class and that of its base:
* every field of the base is a field of the class, with a type in `Sub` with the inherited one
  (unchanged, or overridden and accepted by `is_subtype`), and where the class allows the
  field to be absent the base does too;
  or the class pins the field with a constant (`add_const_fields` over a Literal field: the
  "marked subclass" pattern) whose value the inherited type accepts;
* the constants of the base are constants of the class;
* if the base forbids extra fields, so does the class, and it adds neither fields nor constants
  (a constant that pins an inherited field is not new). -/
def Extends (env : Env) (ec ep : Extra) (fsc fsp : List Field) (csc csp : List (Str × Json)) : Prop :=
  (∀ n tg reqg dg, Field.mk n tg reqg dg ∈ fsp →
      (∃ t' req' d', Field.mk n t' req' d' ∈ fsc ∧ Sub env t' tg ∧
        ((req' = false ∧ d' = none) →
          (reqg = false ∧ (dg = none ∨ ∃ dj w, dg = some dj ∧ decode env tg dj = .ok w)))) ∨
      -- the "marked subclass" pattern: `add_const_fields` turned the field into a constant whose
      -- value the inherited type accepts (`decorators.py:96-110`)
      ((∀ f ∈ fsc, fieldName f ≠ n) ∧ ∃ j, lookup n csc = some j ∧ accepts env tg j = true)) ∧
  (∀ k, hasKey k csp = true → hasKey k csc = true) ∧
  (ep = .forbid → ec = .forbid ∧ (∀ f ∈ fsc, ∃ g ∈ fsp, fieldName g = fieldName f) ∧
      (∀ k, hasKey k csc = true → hasKey k csp = true ∨ ∃ g ∈ fsp, fieldName g = k))

theorem hasKey_of_mem (p : Str × Json) (l : List (Str × Json)) (h : p ∈ l) : hasKey p.1 l = true :=
  List.any_eq_true.mpr ⟨p, h, by simp⟩

/-- **Every valid instance of the child is accepted by the base.** -/
theorem child_valid_in_parent (env : Env) (nc np : Str) (ec ep : Extra) (fsc fsp : List Field)
    (csc csp : List (Str × Json)) (hE : Extends env ec ep fsc fsp csc csp) :
    ∀ v, Valid env (.model nc ec fsc csc) v → accepts env (.model np ep fsp csp) (encode v) = true := by
  intro v hv
  obtain ⟨fvs, xs, rfl, hfs, hxs, hnd, hdisj, _⟩ := valid_model_inv env nc ec fsc csc v hv
  obtain ⟨hF, hC, hX⟩ := hE
  have hxs' := extras_filter_self ec fsc csc xs hxs
  have hlook := dump_lookup env ec fsc csc xs fvs hfs hxs hnd hdisj
  simp only [List.append_assoc] at hlook
  have hkeys := ValidFs_keys env fsc fvs hfs
  rw [accepts_iff]
  -- every field of the base validates
  have hall : ∀ g ∈ fsp, ∃ r, decodeField env g (encodeFields fvs ++ (csc ++ xs)) = .ok r := by
    intro g hg
    obtain ⟨n, tg, reqg, dg⟩ := g
    rcases hF n tg reqg dg hg with ⟨t', req', d', hmem, hsub, hopt⟩ | ⟨hnf, j, hj, hacc⟩
    · obtain ⟨w, hw, hvw⟩ := ValidFs_mem env fsc fvs hfs _ hmem
      have hl := hlook _ hw
      simp only [fieldName] at hl hw
      simp only [ValidF] at hvw
      rcases hvw with ⟨rfl, hr, hd⟩ | ⟨hne, hval⟩
      · obtain ⟨hreq, hdg⟩ := hopt ⟨hr, hd⟩
        simp only [encOpt] at hl
        rcases hdg with rfl | ⟨dj, x, rfl, hx⟩
        · exact ⟨(n, .none), by simp [decodeField, hl, hreq]⟩
        · exact ⟨(n, x), by simp [decodeField, hl, hreq, hx, mapOk]⟩
      · rw [encOpt_of_ne_none w hne] at hl
        obtain ⟨x, hx⟩ := (accepts_iff env tg _).mp (hsub w hval)
        exact ⟨(n, x), by simp [decodeField, hl, hx, mapOk]⟩
    · -- the field is a constant of the child: the dump carries the constant
      have h1 : lookup n (encodeFields fvs) = none := by
        apply lookup_none_of_notin
        intro p hp e
        obtain ⟨q, hq, e'⟩ := encodeFields_keys fvs p hp
        have hmem : q.1 ∈ fsc.map fieldName := by
          rw [← hkeys]; exact List.mem_map.mpr ⟨q, hq, rfl⟩
        obtain ⟨f, hf, hfn⟩ := List.mem_map.mp hmem
        exact hnf f hf (by rw [hfn, e', e])
      have hl : lookup n (encodeFields fvs ++ (csc ++ xs)) = some j := by
        rw [lookup_append, h1]
        simp only
        rw [lookup_append, hj]
      obtain ⟨x, hx⟩ := (accepts_iff env tg j).mp hacc
      exact ⟨(n, x), by simp [decodeField, hl, hx, mapOk]⟩
  obtain ⟨pf, hpf⟩ := decodeFields_ok_of_all env fsp _ hall
  simp only [encode, hxs', decode, asDict, List.append_assoc, hpf]
  cases ep with
  | allow => exact ⟨_, rfl⟩
  | ignore => exact ⟨_, rfl⟩
  | forbid =>
    obtain ⟨rfl, hsubF, hsubC⟩ := hX rfl
    simp only [ExtrasOk] at hxs
    subst hxs
    have hempty : (encodeFields fvs ++ (csc ++ [])).filter
        (fun (p : Str × Json) => !(fsp.any (fun f => fieldName f == p.1)) && !hasKey p.1 csp) = [] := by
      apply List.filter_eq_nil_iff.mpr
      intro p hp
      simp only [List.append_nil, List.mem_append] at hp
      rcases hp with hp | hp
      · obtain ⟨q, hq, e⟩ := encodeFields_keys fvs p hp
        have hmem : p.1 ∈ fsc.map fieldName := by
          rw [← hkeys, ← e]; exact List.mem_map.mpr ⟨q, hq, rfl⟩
        obtain ⟨f, hf, hfn⟩ := List.mem_map.mp hmem
        obtain ⟨g, hg, hgn⟩ := hsubF f hf
        have : fsp.any (fun f => fieldName f == p.1) = true :=
          List.any_eq_true.mpr ⟨g, hg, by simp [hgn, hfn]⟩
        simp [this]
      · rcases hsubC p.1 (hasKey_of_mem p csc hp) with h | ⟨g, hg, hgn⟩
        · simp [h]
        · have : fsp.any (fun f => fieldName f == p.1) = true :=
            List.any_eq_true.mpr ⟨g, hg, by simp [hgn]⟩
          simp [this]
    rw [hempty]
    exact ⟨_, rfl⟩

/-- in the form of the design: the child's validated value, serialised, is accepted by the
parent (`Sub` between the two schema types) -/
theorem child_in_Sub_parent (env : Env) (nc np : Str) (ec ep : Extra) (fsc fsp : List Field)
    (csc csp : List (Str × Json)) (hE : Extends env ec ep fsc fsp csc csp) :
    Sub env (.model nc ec fsc csc) (.model np ep fsp csp) :=
  child_valid_in_parent env nc np ec ep fsc fsp csc csp hE

/-! ## `check_overrides` refuses undeclared widenings -/

theorem firstErr_error_of_mem (l : List (Except Refusal Unit)) (e : Refusal)
    (h : .error e ∈ l) : ∃ e', firstErr l = .error e' := by
  induction l with
  | nil => simp at h
  | cons r l ih =>
    cases r with
    | error e'' => exact ⟨e'', by simp [firstErr]⟩
    | ok u =>
      cases u
      simp only [List.mem_cons] at h
      rcases h with h | h
      · cases h
      · obtain ⟨e', he'⟩ := ih h
        exact ⟨e', by simp [firstErr, he']⟩

/-- **An undeclared override that is not a subtype is refused**: if class `c` re-annotates an
inherited (non-constant) field `f` with a type for which `is_subtype` says no, and `f` is not
listed in `__overrides__`, then `check_overrides` raises. -/
theorem undeclared_widening_refused (T : Table) (c : ClassDef) (f : Str) (h ph : Ty)
    (hover : f ∈ detectOverrides T c) (hdecl : f ∉ c.overrides)
    (hh : getHint f (typeHints T c.name) = some h) (hp : getHint f (baseHints T c) = some ph)
    (hns : isSubtype T h ph = false) :
    ∃ e, checkOverrides T c = .error e := by
  unfold checkOverrides
  simp only
  split
  · exact ⟨_, rfl⟩
  · split
    · exact ⟨_, rfl⟩
    · apply firstErr_error_of_mem _ .typeError
      apply List.mem_map.mpr
      refine ⟨f, List.mem_filter.mpr ⟨hover, by simpa using hdecl⟩, ?_⟩
      simp [hh, hp, hns]

/-- conversely, when `check_overrides` passes, every undeclared override is a subtype -/
theorem checked_overrides_are_subtypes (T : Table) (c : ClassDef)
    (hok : checkOverrides T c = .ok ()) (f : Str) (h ph : Ty)
    (hover : f ∈ detectOverrides T c) (hdecl : f ∉ c.overrides)
    (hh : getHint f (typeHints T c.name) = some h) (hp : getHint f (baseHints T c) = some ph) :
    isSubtype T h ph = true := by
  cases hs : isSubtype T h ph with
  | true => rfl
  | false =>
    obtain ⟨e, he⟩ := undeclared_widening_refused T c f h ph hover hdecl hh hp hs
    rw [he] at hok
    cases hok

/-! ## the legacy behaviour of the pint parsers (before F27) broke the Union rule -/

/-- a library parser that *raises* (pint: `AttributeError` on `"="`) aborts the whole Union, so
`NonEmptyStr <= Union[PintQuantity, NonEmptyStr]` (which `is_subtype` grants) was unsound -/
theorem legacy_crash_breaks_union_subtype :
    let env : Env := { norm := fun _ _ => none, normFloat := fun t => some t,
                       crash := fun _ s => s = ['='] }
    isSubtype [] (.cstr .nes) (.union [.opq .qty, .cstr .nes]) = true ∧
    Valid env (.cstr .nes) (.str ['=']) ∧
    accepts env (.union [.opq .qty, .cstr .nes]) (encode (.str ['='])) = false := by
  refine ⟨by decide, ?_, by decide⟩
  simp only [Valid]
  exact ⟨['='], rfl, by decide⟩

/-! ## `check_types` walks the whole inheritance chain -/

/-- one step of the dependency loop of `checkTypesF` -/
def ctStep (T : Table) (fuel : Nat) (acc : List Str × Except Refusal Unit) (d : Str) :
    List Str × Except Refusal Unit :=
  match acc.2 with
  | .error e => (acc.1, .error e)
  | .ok () => checkTypesF T fuel acc.1 d

theorem foldl_ctStep_error (T : Table) (fuel : Nat) (ds : List Str) (s : List Str) (e : Refusal) :
    List.foldl (ctStep T fuel) (s, .error e) ds = (s, .error e) := by
  induction ds with
  | nil => rfl
  | cons d ds ih => simpa [List.foldl, ctStep] using ih

theorem foldl_ctStep_head (T : Table) (fuel : Nat) (s0 : List Str) (d : Str) (ds : List Str)
    (h : (List.foldl (ctStep T fuel) (s0, .ok ()) (d :: ds)).2 = .ok ()) :
    (checkTypesF T fuel s0 d).2 = .ok () := by
  simp only [List.foldl, ctStep] at h
  cases hr : checkTypesF T fuel s0 d with
  | mk s1 r =>
    cases r with
    | error e => rw [hr, foldl_ctStep_error] at h; cases h
    | ok u => rfl

/-- the k-th class up the inheritance chain (`0` = the class itself) -/
def nthAnc (T : Table) : Nat → Str → Option Str
  | 0, n => some n
  | k + 1, n =>
    match find T n with
    | some c =>
      match c.parent with
      | some p => nthAnc T k p
      | none => none
    | none => none

/-- the dependencies `check_types` descends into: the base class, then the nested schemas -/
def ctDeps (T : Table) (c : ClassDef) (n : Str) : List Str :=
  (match c.parent with
    | some p => [p]
    | none => []) ++ (fieldSchemasF T (T.length + 1) n).filter (fun s => s != n)

theorem checkTypesF_succ (T : Table) (fuel : Nat) (seen : List Str) (n : Str) (c : ClassDef)
    (hn : seen.contains n = false) (hf : find T n = some c) :
    checkTypesF T (fuel + 1) seen n =
      (match (List.foldl (ctStep T fuel) (n :: seen, .ok ()) (ctDeps T c n)).2 with
       | .error e => ((List.foldl (ctStep T fuel) (n :: seen, .ok ()) (ctDeps T c n)).1, .error e)
       | .ok () =>
         match checkAllowed T c with
         | .error e => ((List.foldl (ctStep T fuel) (n :: seen, .ok ()) (ctDeps T c n)).1, .error e)
         | .ok () => ((List.foldl (ctStep T fuel) (n :: seen, .ok ()) (ctDeps T c n)).1, checkOverrides T c)) := by
  rw [checkTypesF]
  simp only [hn, hf, Bool.false_eq_true, if_false]
  rfl

theorem checkTypesF_succ_ok (T : Table) (fuel : Nat) (seen : List Str) (n : Str) (c : ClassDef)
    (hn : n ∉ seen) (hf : find T n = some c)
    (h : (checkTypesF T (fuel + 1) seen n).2 = .ok ()) :
    checkOverrides T c = .ok () ∧
    ∀ p, c.parent = some p → (checkTypesF T fuel (n :: seen) p).2 = .ok () := by
  have hc : seen.contains n = false := by simpa using hn
  rw [checkTypesF_succ T fuel seen n c hc hf] at h
  generalize hR : List.foldl (ctStep T fuel) (n :: seen, Except.ok ()) (ctDeps T c n) = R at h
  cases hR2 : R.2 with
  | error e => simp [hR2] at h
  | ok u =>
    cases u
    simp only [hR2] at h
    constructor
    · cases hA : checkAllowed T c with
      | error e => simp [hA] at h
      | ok u => cases u; simpa [hA] using h
    · intro p hp
      simp only [ctDeps, hp, List.singleton_append] at hR
      apply foldl_ctStep_head T fuel (n :: seen) p _
      rw [hR]; exact hR2

/-- **`check_types` examines every class up the inheritance chain.** If the check of `n` passes,
`check_overrides` passed for the `k`-th class above `n`, for every `k`, whether or not the
classes in between are plugins. Hypotheses: the chain `n = a₀, a₁ … a_k` has no repetition (no
inheritance cycle) and `k` is within the fuel of the walk (`k < T.length` for every chain without
repetition). -/
theorem checkTypesF_visits (T : Table) : ∀ (k fuel : Nat) (seen : List Str) (n a : Str) (ca : ClassDef),
    nthAnc T k n = some a → find T a = some ca →
    (∀ j, j ≤ k → ∀ b, nthAnc T j n = some b → b ∉ seen) →
    (∀ i j, i < j → j ≤ k → nthAnc T i n ≠ nthAnc T j n) →
    (checkTypesF T (fuel + k + 1) seen n).2 = .ok () → checkOverrides T ca = .ok () := by
  intro k
  induction k with
  | zero =>
    intro fuel seen n a ca ha hfa hseen _ h
    simp only [nthAnc, Option.some.injEq] at ha
    subst ha
    exact (checkTypesF_succ_ok T fuel seen n ca (hseen 0 (Nat.le_refl 0) n rfl) hfa h).1
  | succ k ih =>
    intro fuel seen n a ca ha hfa hseen hdist h
    -- the chain continues through the parent of `n`
    simp only [nthAnc] at ha
    cases hfn : find T n with
    | none => simp [hfn] at ha
    | some c =>
      simp only [hfn] at ha
      cases hp : c.parent with
      | none => simp [hp] at ha
      | some p =>
        simp only [hp] at ha
        have hn : n ∉ seen := hseen 0 (Nat.zero_le _) n rfl
        have h' : (checkTypesF T (fuel + k + 1 + 1) seen n).2 = .ok () := by
          have : fuel + (k + 1) + 1 = fuel + k + 1 + 1 := by omega
          rw [← this]; exact h
        have hpar := (checkTypesF_succ_ok T (fuel + k + 1) seen n c hn hfn h').2 p hp
        have shift : ∀ j, nthAnc T (j + 1) n = nthAnc T j p := by
          intro j; simp [nthAnc, hfn, hp]
        apply ih fuel (n :: seen) p a ca ha hfa
        · intro j hj b hb
          have hb' : nthAnc T (j + 1) n = some b := by rw [shift]; exact hb
          have h1 : b ∉ seen := hseen (j + 1) (by omega) b hb'
          have h2 : b ≠ n := by
            intro e
            have := hdist 0 (j + 1) (by omega) (by omega)
            apply this
            rw [hb', e]; rfl
          simp [h1, h2]
        · intro i j hij hj
          rw [← shift i, ← shift j]
          exact hdist (i + 1) (j + 1) (by omega) (by omega)
        · exact hpar

theorem checkTypes_visits_ancestors (T : Table) (k : Nat) (n a : Str) (ca : ClassDef)
    (ha : nthAnc T k n = some a) (hfa : find T a = some ca)
    (hdist : ∀ i j, i < j → j ≤ k → nthAnc T i n ≠ nthAnc T j n) (hk : k ≤ 2 * T.length + 1)
    (h : checkTypes T n = .ok ()) : checkOverrides T ca = .ok () := by
  unfold checkTypes at h
  obtain ⟨fuel, hfuel⟩ : ∃ fuel, 2 * T.length + 2 = fuel + k + 1 := ⟨2 * T.length + 1 - k, by omega⟩
  rw [hfuel] at h
  exact checkTypesF_visits T k fuel [] n a ca ha hfa (fun _ _ _ _ => by simp) hdist h

/-! ## regression anchors: intermediate classes, per-class declarations, forbidding parents -/

/-- **No new field below a parent that forbids extras** — required, `Optional` or defaulted alike
(`SchemaMagic.__new__`, `core.py:167-172`: the test is on the *names* of the new fields; an
`Optional`/defaulted field is dumped whenever it is set, and the parent rejects the key). -/
theorem new_field_below_forbidding_parent_refused (T : Table) (c p : ClassDef) (pn : Str)
    (hp : c.parent = some pn) (hf : find T pn = some p) (hforb : effExtra T p = .forbid)
    (f : Str × Ty × Option Json) (hmem : f ∈ c.fields) (hnew : getHint f.1 (baseHints T c) = none) :
    ∃ e, defineOk T c = .error e := by
  have hany : (c.fields.map (fun f => f.1)).any (fun n => (getHint n (baseHints T c)).isNone) = true := by
    rw [List.any_eq_true]
    exact ⟨f.1, List.mem_map.mpr ⟨f, hmem, rfl⟩, by simp [hnew]⟩
  unfold defineOk
  simp only [hp, Option.bind_some, hf, hforb]
  split
  · exact ⟨_, rfl⟩
  · split
    · exact ⟨_, rfl⟩
    · split
      · exact ⟨_, rfl⟩
      · rename_i h
        simp [hany] at h

/-- `Ga.f : Int  <-  Pa.f : Optional[Int] (a plain intermediate class)  <-  Ch` (field untouched) -/
def tblMid : Table :=
  [{ name := "Ga".toList, fields := [("f".toList, .int, none)] },
   { name := "Pa".toList, parent := some "Ga".toList, fields := [("f".toList, .opt .int, none)] },
   { name := "Ch".toList, parent := some "Pa".toList }]

/-- the widening sits in the intermediate class; all three classes can be defined, the
intermediate class fails `check_overrides`, hence the check of the leaf class does not pass -/
theorem intermediate_widening_refused :
    build tblMid = .ok () ∧ checkTypes tblMid "Ch".toList ≠ .ok () := by
  refine ⟨rfl, fun h => ?_⟩
  have := checkTypes_visits_ancestors tblMid 1 "Ch".toList "Pa".toList
    { name := "Pa".toList, parent := some "Ga".toList, fields := [("f".toList, .opt .int, none)] }
    rfl rfl (by
      intro i j hij hj
      have hi : i = 0 := by omega
      have hj' : j = 1 := by omega
      subst hi; subst hj'
      decide) (by decide) h
  have he : checkOverrides tblMid { name := "Pa".toList, parent := some "Ga".toList, fields := [("f".toList, .opt .int, none)] } = .error .typeError := rfl
  rw [he] at this
  cases this

/-- `Ga.f : Int  <-  @override("f") Pa.f : Str  <-  Ch.f : Optional[Str]` (nothing declared) -/
def tblDecl : Table :=
  [{ name := "Ga".toList, fields := [("f".toList, .int, none)] },
   { name := "Pa".toList, parent := some "Ga".toList, fields := [("f".toList, .str, none)], overrides := ["f".toList] },
   { name := "Ch".toList, parent := some "Pa".toList, fields := [("f".toList, .opt .str, none)] }]

/-- the declaration of an ancestor (`__overrides__` is reset per class, `core.py:186`) does not
cover a descendant that widens the field again -/
theorem declaration_not_inherited :
    build tblDecl = .ok () ∧
    checkOverrides tblDecl { name := "Pa".toList, parent := some "Ga".toList, fields := [("f".toList, .str, none)], overrides := ["f".toList] } = .ok () ∧
    checkOverrides tblDecl { name := "Ch".toList, parent := some "Pa".toList, fields := [("f".toList, .opt .str, none)] } = .error .typeError ∧
    checkTypes tblDecl "Ch".toList ≠ .ok () := by
  refine ⟨rfl, rfl, rfl, fun h => ?_⟩
  have := checkTypes_visits_ancestors tblDecl 0 "Ch".toList "Ch".toList
    { name := "Ch".toList, parent := some "Pa".toList, fields := [("f".toList, .opt .str, none)] }
    rfl rfl (by intro i j hij hj; omega) (by decide) h
  have he : checkOverrides tblDecl { name := "Ch".toList, parent := some "Pa".toList, fields := [("f".toList, .opt .str, none)] } = .error .typeError := rfl
  rw [he] at this
  cases this

/-! ## non-vacuity -/

def envEx : Env := { norm := fun _ s => some s, normFloat := fun t => some t }

/-- a registry with one base class and one child (field narrowed, one field added) -/
def baseTy : Ty := .model "Base".toList .allow
  [.mk "f".toList (.opt (.cstr .nes)) false none, .mk "g".toList .int true none] [("@type".toList, .str "B".toList)]
def childTy : Ty := .model "Child".toList .ignore
  [.mk "f".toList (.cstr .mime) true none, .mk "g".toList .int true none, .mk "h".toList (.opt .bool) false none]
  [("@type".toList, .str "C".toList)]

def regEx : Reg := fun n => if n = "Base".toList then some baseTy else if n = "Child".toList then some childTy else none

def tblEx : Table := [{ name := "Base".toList }, { name := "Child".toList, parent := some "Base".toList }]

/-- the hypotheses of `isSubtype_sound` hold for a concrete pair (no schema classes involved,
so only the string part of `ClassTableSound` matters; the edge QualHashsumStr<HashsumStr is
avoided by stating the hypothesis for the pairs used) … -/
example : isSubtype tblEx (.list (.union [.cstr .mime, .lit [.str "x".toList]]))
    (.opt (.list (.union [.cstr .nes, .lit [.str "y".toList, .str "x".toList]]))) = true := by decide
example : isSubtype tblEx (.list (.cstr .mime)) (.opt (.list (.cstr .nes))) = true := by decide
example : NoCrash envEx := fun _ _ => rfl
example : Coherent regEx (.opt (.list childTy)) := by simp [Coherent, regEx, childTy]
example : SetsScalar (.opt (.set (.union [.int, .cstr .hash]))) = true := by decide

/-- … and `Extends` holds for the concrete child/base pair: the child narrows `f` from
`Optional[NonEmptyStr]` to `MimeTypeStr` (in `Sub` by `mime_nes`), keeps `g`, adds `h` -/
example : Extends envEx .ignore .allow
    [.mk "f".toList (.cstr .mime) true none, .mk "g".toList .int true none, .mk "h".toList (.opt .bool) false none]
    [.mk "f".toList (.opt (.cstr .nes)) false none, .mk "g".toList .int true none]
    [("@type".toList, .str "C".toList)] [("@type".toList, .str "B".toList)] := by
  refine ⟨?_, ?_, ?_⟩
  · intro n tg reqg dg hmem
    simp only [List.mem_cons, Field.mk.injEq, List.not_mem_nil, or_false] at hmem
    rcases hmem with ⟨rfl, rfl, rfl, rfl⟩ | ⟨rfl, rfl, rfl, rfl⟩
    · refine Or.inl ⟨.cstr .mime, true, none, by simp, ?_, by simp⟩
      intro v hv
      simp only [Valid] at hv
      obtain ⟨s, rfl, hs⟩ := hv
      have := mime_nes s hs
      simp [accepts, encode, decode, recog, this]
    · exact Or.inl ⟨.int, true, none, by simp, Sub_refl envEx .int, by simp⟩
  · intro k hk
    simpa [hasKey] using hk
  · intro h; cases h

example : decode envEx baseTy (encode (.obj "Child".toList
    [("f".toList, .str "a/b".toList), ("g".toList, .int 0), ("h".toList, .none)]
    [("@type".toList, .str "C".toList)] [])) =
    .ok (.obj "Base".toList [("f".toList, .str "a/b".toList), ("g".toList, .int 0)]
      [("@type".toList, .str "B".toList)] []) := by rfl

/-- … and for the "marked subclass" pattern: the base has the discriminator
`kind : Literal["circle", "square"]`, the child pins it with `add_const_fields({"kind": "circle"})`
below a base that forbids extra fields -/
example : Extends envEx .forbid .forbid
    [.mk "size".toList .int true none]
    [.mk "kind".toList (.lit [.str "circle".toList, .str "square".toList]) true none, .mk "size".toList .int true none]
    [("kind".toList, .str "circle".toList)] [] := by
  refine ⟨?_, ?_, ?_⟩
  · intro n tg reqg dg hmem
    simp only [List.mem_cons, Field.mk.injEq, List.not_mem_nil, or_false] at hmem
    rcases hmem with ⟨rfl, rfl, rfl, rfl⟩ | ⟨rfl, rfl, rfl, rfl⟩
    · refine Or.inr ⟨?_, .str "circle".toList, rfl, rfl⟩
      intro f hf
      simp only [List.mem_cons, List.not_mem_nil, or_false] at hf
      subst hf
      decide
    · exact Or.inl ⟨.int, true, none, by simp, Sub_refl envEx .int, by simp⟩
  · intro k hk
    simp [hasKey] at hk
  · intro _
    refine ⟨rfl, ?_, ?_⟩
    · intro f hf
      simp only [List.mem_cons, List.not_mem_nil, or_false] at hf
      subst hf
      exact ⟨_, by simp, rfl⟩
    · intro k hk
      right
      simp only [hasKey, List.any_cons, List.any_nil, Bool.or_false, beq_iff_eq] at hk
      exact ⟨_, List.mem_cons_self .., by simpa [fieldName] using hk⟩

/-- whatever the input carries in the constant field (`override_consts`: "ignored on load"), the
child instance holds the constant, and its dump is accepted by the base -/
example : decode envEx (.model "Circle".toList .forbid [.mk "size".toList .int true none] [("kind".toList, .str "circle".toList)])
      (.obj [("size".toList, .int 4), ("kind".toList, .str "triangle".toList)]) =
    .ok (.obj "Circle".toList [("size".toList, .int 4)] [("kind".toList, .str "circle".toList)] []) := by rfl

/-! ## load order: `check_types` without `recheck`, marks of earlier loads -/

theorem checkTypesF_succ_fst (T : Table) (fuel : Nat) (marks : List Str) (n : Str) (c : ClassDef)
    (hn : marks.contains n = false) (hf : find T n = some c) :
    (checkTypesF T (fuel + 1) marks n).1 =
      (List.foldl (ctStep T fuel) (n :: marks, .ok ()) (ctDeps T c n)).1 := by
  rw [checkTypesF_succ T fuel marks n c hn hf]
  split
  · rfl
  · split <;> rfl

theorem checkTypesF_succ_snd_ok (T : Table) (fuel : Nat) (marks : List Str) (n : Str) (c : ClassDef)
    (hn : marks.contains n = false) (hf : find T n = some c)
    (h : (checkTypesF T (fuel + 1) marks n).2 = .ok ()) :
    (List.foldl (ctStep T fuel) (n :: marks, .ok ()) (ctDeps T c n)).2 = .ok () ∧
      checkAllowed T c = .ok () ∧ checkOverrides T c = .ok () := by
  rw [checkTypesF_succ T fuel marks n c hn hf] at h
  generalize List.foldl (ctStep T fuel) (n :: marks, Except.ok ()) (ctDeps T c n) = R at h
  cases hR2 : R.2 with
  | error e => simp [hR2] at h
  | ok u =>
    cases u
    simp only [hR2] at h
    cases hA : checkAllowed T c with
    | error e => simp [hA] at h
    | ok u => cases u; exact ⟨rfl, rfl, by simpa [hA] using h⟩

theorem checkTypesF_seen (T : Table) (fuel : Nat) (marks : List Str) (n : Str)
    (hc : marks.contains n = true) : checkTypesF T (fuel + 1) marks n = (marks, .ok ()) := by
  rw [checkTypesF]
  simp only [hc, if_true]

theorem checkTypesF_unknown (T : Table) (fuel : Nat) (marks : List Str) (n : Str)
    (hc : marks.contains n = false) (hf : find T n = none) :
    checkTypesF T (fuel + 1) marks n = (marks, .ok ()) := by
  rw [checkTypesF]
  simp only [hc, hf, Bool.false_eq_true, if_false]

theorem foldl_ctStep_mono (T : Table) (fuel : Nat)
    (ih : ∀ (marks : List Str) (n : Str), ∀ b ∈ marks, b ∈ (checkTypesF T fuel marks n).1) :
    ∀ (ds : List Str) (acc : List Str × Except Refusal Unit), ∀ b ∈ acc.1,
      b ∈ (List.foldl (ctStep T fuel) acc ds).1 := by
  intro ds
  induction ds with
  | nil => intro acc b hb; exact hb
  | cons d ds ihd =>
    intro acc b hb
    simp only [List.foldl]
    apply ihd
    unfold ctStep
    split
    · exact hb
    · exact ih _ _ b hb

/-- marks are never taken away -/
theorem checkTypesF_mono (T : Table) : ∀ (fuel : Nat) (marks : List Str) (n : Str),
    ∀ b ∈ marks, b ∈ (checkTypesF T fuel marks n).1 := by
  intro fuel
  induction fuel with
  | zero => intro marks n b hb; simpa [checkTypesF] using hb
  | succ fuel ih =>
    intro marks n b hb
    cases hc : marks.contains n with
    | true => rw [checkTypesF_seen T fuel marks n hc]; exact hb
    | false =>
      cases hf : find T n with
      | none => rw [checkTypesF_unknown T fuel marks n hc hf]; exact hb
      | some c =>
        rw [checkTypesF_succ_fst T fuel marks n c hc hf]
        exact foldl_ctStep_mono T fuel ih _ _ b (List.mem_cons_of_mem _ hb)

/-- a class of the table is marked once `check_types` has been called on it -/
theorem checkTypesF_marks_self (T : Table) (fuel : Nat) (marks : List Str) (n : Str) :
    find T n = none ∨ n ∈ (checkTypesF T (fuel + 1) marks n).1 := by
  cases hc : marks.contains n with
  | true =>
    right
    rw [checkTypesF_seen T fuel marks n hc]
    simpa using hc
  | false =>
    cases hf : find T n with
    | none => left; rfl
    | some c =>
      right
      rw [checkTypesF_succ_fst T fuel marks n c hc hf]
      exact foldl_ctStep_mono T fuel (checkTypesF_mono T fuel) _ _ n (List.mem_cons_self ..)

/-- classes of the table that carry no mark yet (the measure that bounds the depth of the walk) -/
def unexamined (T : Table) (marks : List Str) : Nat :=
  (T.filter (fun c => !marks.contains c.name)).length

theorem unexamined_le (T : Table) (marks : List Str) : unexamined T marks ≤ T.length :=
  List.length_filter_le _ _

theorem length_filter_le_of_imp {α : Type} (p q : α → Bool) (h : ∀ a, p a = true → q a = true) :
    ∀ l : List α, (l.filter p).length ≤ (l.filter q).length := by
  intro l
  induction l with
  | nil => simp
  | cons a l ih =>
    cases hp : p a with
    | true => simp only [List.filter_cons, hp, h a hp, if_true, List.length_cons]; omega
    | false =>
      cases hq : q a <;> simp only [List.filter_cons, hp, hq, if_true, Bool.false_eq_true, if_false, List.length_cons] <;> omega

theorem length_filter_lt_of_imp {α : Type} (p q : α → Bool) (h : ∀ a, p a = true → q a = true) :
    ∀ l : List α, (∃ a ∈ l, p a = false ∧ q a = true) → (l.filter p).length < (l.filter q).length := by
  intro l
  induction l with
  | nil => rintro ⟨a, ha, _⟩; cases ha
  | cons a l ih =>
    rintro ⟨b, hb, hpb, hqb⟩
    rcases List.mem_cons.mp hb with e | hb'
    · subst e
      have := length_filter_le_of_imp p q h l
      simp only [List.filter_cons, hpb, hqb, if_true, Bool.false_eq_true, if_false, List.length_cons]
      omega
    · have := ih ⟨b, hb', hpb, hqb⟩
      cases hp : p a with
      | true => simp only [List.filter_cons, hp, h a hp, if_true, List.length_cons]; omega
      | false =>
        cases hq : q a <;> simp only [List.filter_cons, hp, hq, if_true, Bool.false_eq_true, if_false, List.length_cons] <;> omega

theorem unexamined_mono (T : Table) (marks marks' : List Str) (h : ∀ b ∈ marks, b ∈ marks') :
    unexamined T marks' ≤ unexamined T marks := by
  unfold unexamined
  apply length_filter_le_of_imp
  intro c hc
  simp only [Bool.not_eq_true', List.contains_eq_mem, decide_eq_false_iff_not] at hc ⊢
  exact fun hm => hc (h _ hm)

theorem find_name (T : Table) (n : Str) (c : ClassDef) (h : find T n = some c) : c.name = n := by
  have := List.find?_some h
  simpa using this

theorem unexamined_lt (T : Table) (marks : List Str) (n : Str) (c : ClassDef)
    (hn : n ∉ marks) (hf : find T n = some c) : unexamined T (n :: marks) < unexamined T marks := by
  unfold unexamined
  apply length_filter_lt_of_imp
  · intro a ha
    simp only [Bool.not_eq_true', List.contains_eq_mem, decide_eq_false_iff_not, List.mem_cons, not_or] at ha ⊢
    exact ha.2
  · refine ⟨c, List.mem_of_find?_eq_some hf, ?_, ?_⟩
    · simp [find_name T n c hf]
    · simp [find_name T n c hf, hn]

/-- **What a mark stands for.** Every marked class that is not still under examination
(`pending`: the classes on the stack of the walk) passed `check_allowed_types` and
`check_overrides`, and its base class is marked as well. -/
def MarksOk (T : Table) (pending marks : List Str) : Prop :=
  ∀ b ∈ marks, b ∉ pending → ∀ cb, find T b = some cb →
    checkAllowed T cb = .ok () ∧ checkOverrides T cb = .ok () ∧
    ∀ p, cb.parent = some p → p ∈ marks ∨ find T p = none

theorem foldl_ctStep_marksOk (T : Table) (fuel : Nat) (pending : List Str)
    (ih : ∀ (marks : List Str) (n : Str), unexamined T marks < fuel → MarksOk T pending marks →
      (checkTypesF T fuel marks n).2 = .ok () → MarksOk T pending (checkTypesF T fuel marks n).1) :
    ∀ (ds : List Str) (acc : List Str × Except Refusal Unit), unexamined T acc.1 < fuel →
      MarksOk T pending acc.1 → (List.foldl (ctStep T fuel) acc ds).2 = .ok () →
      MarksOk T pending (List.foldl (ctStep T fuel) acc ds).1 := by
  intro ds
  induction ds with
  | nil => intro acc _ h _; exact h
  | cons d ds ihd =>
    intro acc hm h hok
    obtain ⟨s, r⟩ := acc
    cases r with
    | error e => rw [foldl_ctStep_error] at hok; cases hok
    | ok u =>
      cases u
      simp only [List.foldl] at hok ⊢
      have hstep : ctStep T fuel (s, .ok ()) d = checkTypesF T fuel s d := rfl
      rw [hstep] at hok ⊢
      cases hr : (checkTypesF T fuel s d).2 with
      | error e =>
        have : checkTypesF T fuel s d = ((checkTypesF T fuel s d).1, .error e) := by rw [← hr]
        rw [this, foldl_ctStep_error] at hok
        cases hok
      | ok u =>
        cases u
        apply ihd _ _ _ hok
        · exact Nat.lt_of_le_of_lt (unexamined_mono T s _ (checkTypesF_mono T fuel s d)) hm
        · exact ih s d hm h hr

/-- the walk keeps the meaning of the marks, as long as it ends without a refusal -/
theorem checkTypesF_marksOk (T : Table) : ∀ (fuel : Nat) (pending marks : List Str) (n : Str),
    unexamined T marks < fuel → MarksOk T pending marks → (checkTypesF T fuel marks n).2 = .ok () →
    MarksOk T pending (checkTypesF T fuel marks n).1 := by
  intro fuel
  induction fuel with
  | zero => intro _ _ _ h; omega
  | succ fuel ih =>
    intro pending marks n hm h hok
    cases hc : marks.contains n with
    | true => rw [checkTypesF_seen T fuel marks n hc]; exact h
    | false =>
      cases hf : find T n with
      | none => rw [checkTypesF_unknown T fuel marks n hc hf]; exact h
      | some c =>
        have hn : n ∉ marks := by simpa using hc
        obtain ⟨hfold, hA, hO⟩ := checkTypesF_succ_snd_ok T fuel marks n c hc hf hok
        rw [checkTypesF_succ_fst T fuel marks n c hc hf]
        have hlt := unexamined_lt T marks n c hn hf
        have hm' : unexamined T (n :: marks) < fuel := by omega
        have h0 : MarksOk T (n :: pending) (n :: marks) := by
          intro b hb hbp cb hcb
          have hbn : b ≠ n := fun e => hbp (e ▸ List.mem_cons_self ..)
          have hbm : b ∈ marks := by
            rcases List.mem_cons.mp hb with e | hb'
            · exact absurd e hbn
            · exact hb'
          obtain ⟨a1, a2, a3⟩ := h b hbm (fun hp => hbp (List.mem_cons_of_mem _ hp)) cb hcb
          refine ⟨a1, a2, fun p hp => ?_⟩
          rcases a3 p hp with hpm | hpn
          · exact Or.inl (List.mem_cons_of_mem _ hpm)
          · exact Or.inr hpn
        have hR := foldl_ctStep_marksOk T fuel (n :: pending) (fun m d => ih (n :: pending) m d)
          (ctDeps T c n) (n :: marks, .ok ()) hm' h0 hfold
        intro b hb hbp cb hcb
        by_cases hbn : b = n
        · subst hbn
          rw [hf] at hcb
          cases hcb
          refine ⟨hA, hO, fun p hp => ?_⟩
          -- the base class is the first dependency the walk descends into
          have hfuel : ∃ f', fuel = f' + 1 := ⟨fuel - 1, by omega⟩
          obtain ⟨f', rfl⟩ := hfuel
          rcases checkTypesF_marks_self T f' (b :: marks) p with hnone | hmem
          · exact Or.inr hnone
          · left
            simp only [ctDeps, hp, List.singleton_append, List.foldl]
            apply foldl_ctStep_mono T (f' + 1) (checkTypesF_mono T (f' + 1))
            exact hmem
        · exact hR b hb (fun hp => by
            rcases List.mem_cons.mp hp with e | hp'
            · exact hbn e
            · exact hbp hp') cb hcb

theorem loadPlugin_of_ok (T : Table) (marks : List Str) (n : Str)
    (h : (checkTypesF T (2 * T.length + 2) marks n).2 = .ok ()) :
    loadPlugin T marks n = ((checkTypesF T (2 * T.length + 2) marks n).1, .ok ()) := by
  unfold loadPlugin
  simp only [h]

theorem loadPlugin_of_error (T : Table) (marks : List Str) (n : Str) (e : Refusal)
    (h : (checkTypesF T (2 * T.length + 2) marks n).2 = .error e) :
    loadPlugin T marks n = (marks, .error e) := by
  unfold loadPlugin
  simp only [h]

/-- the outcome of a load is the outcome of the walk -/
theorem loadPlugin_snd (T : Table) (marks : List Str) (n : Str) :
    (loadPlugin T marks n).2 = (checkTypesF T (2 * T.length + 2) marks n).2 := by
  cases h : (checkTypesF T (2 * T.length + 2) marks n).2 with
  | error e => rw [loadPlugin_of_error T marks n e h]
  | ok u => cases u; rw [loadPlugin_of_ok T marks n h]

/-- **A refused load leaves no trace**: the marks afterwards are the marks from before
(`core.py:390-395`: the top-level call clears every mark it has set). -/
theorem refused_load_restores_marks (T : Table) (marks : List Str) (n : Str)
    (h : (loadPlugin T marks n).2 ≠ .ok ()) : (loadPlugin T marks n).1 = marks := by
  cases hr : (checkTypesF T (2 * T.length + 2) marks n).2 with
  | error e => rw [loadPlugin_of_error T marks n e hr]
  | ok u =>
    cases u
    rw [loadPlugin_snd, hr] at h
    exact absurd rfl h

/-- one plugin load keeps the meaning of the marks, refused or not -/
theorem loadPlugin_marksOk (T : Table) (marks : List Str) (n : Str) (h : MarksOk T [] marks) :
    MarksOk T [] (loadPlugin T marks n).1 := by
  cases hr : (checkTypesF T (2 * T.length + 2) marks n).2 with
  | error e => rw [loadPlugin_of_error T marks n e hr]; exact h
  | ok u =>
    cases u
    rw [loadPlugin_of_ok T marks n hr]
    apply checkTypesF_marksOk T _ [] marks n _ h hr
    have := unexamined_le T marks
    omega

/-- … and so does any sequence of loads, whatever their outcomes -/
theorem loadAll_marksOk (T : Table) : ∀ (loads marks : List Str), MarksOk T [] marks →
    MarksOk T [] (loadAll T marks loads).1 := by
  intro loads
  induction loads with
  | nil => intro marks h; exact h
  | cons n ns ih =>
    intro marks h
    simp only [loadAll]
    exact ih _ (loadPlugin_marksOk T marks n h)

theorem loadAll_append (T : Table) : ∀ (xs ys marks : List Str),
    loadAll T marks (xs ++ ys) =
      ((loadAll T (loadAll T marks xs).1 ys).1, (loadAll T marks xs).2 ++ (loadAll T (loadAll T marks xs).1 ys).2) := by
  intro xs
  induction xs with
  | nil => intro ys marks; rfl
  | cons x xs ih =>
    intro ys marks
    simp only [List.cons_append, loadAll, ih, List.cons_append]

theorem loadAll_length (T : Table) : ∀ (xs marks : List Str), (loadAll T marks xs).2.length = xs.length := by
  intro xs
  induction xs with
  | nil => intro _; rfl
  | cons x xs ih => intro marks; simp [loadAll, ih]

/-- the outcome of the load at position `pre.length` of a sequence is the outcome of `loadPlugin`
on the marks the loads before it left behind -/
theorem loadAll_outcome_at (T : Table) (pre post : List Str) (n : Str) :
    (loadAll T [] (pre ++ n :: post)).2[pre.length]? = some (loadPlugin T (loadAll T [] pre).1 n).2 := by
  rw [loadAll_append]
  simp only [loadAll]
  rw [List.getElem?_append_right (by rw [loadAll_length]; exact Nat.le_refl _)]
  simp [loadAll_length]

/-- with marks that mean what they should, the whole inheritance chain of a marked class is marked -/
theorem marksOk_chain (T : Table) (marks : List Str) (h : MarksOk T [] marks) :
    ∀ (k : Nat) (b a : Str) (ca : ClassDef), b ∈ marks → nthAnc T k b = some a → find T a = some ca →
      a ∈ marks := by
  intro k
  induction k with
  | zero =>
    intro b a ca hb ha _
    simp only [nthAnc, Option.some.injEq] at ha
    exact ha ▸ hb
  | succ k ih =>
    intro b a ca hb ha hfa
    simp only [nthAnc] at ha
    cases hfb : find T b with
    | none => simp [hfb] at ha
    | some cb =>
      simp only [hfb] at ha
      cases hp : cb.parent with
      | none => simp [hp] at ha
      | some p =>
        simp only [hp] at ha
        rcases (h b hb (by simp) cb hfb).2.2 p hp with hpm | hpn
        · exact ih p a ca hpm ha hfa
        · -- a dangling base name: the chain ends there
          cases k with
          | zero =>
            simp only [nthAnc, Option.some.injEq] at ha
            rw [← ha, hpn] at hfa
            cases hfa
          | succ k => simp [nthAnc, hpn] at ha

/-- **Load order and earlier refusals do not matter.** After any sequence of plugin loads
(`check_types` without `recheck`, in any order, with repetitions, parents before or after their
children, *any of them refused*; dependency cycles allowed), a load that passes means: the loaded
class and every class up its inheritance chain — plugin or plain intermediate class, marked by this
load or by an earlier one — has passed `check_allowed_types` and `check_overrides`. No bound on the
number of loads or classes, no hypothesis on the table. (For the pinned code this needed the
hypothesis that no earlier load of the process was refused: `legacy_refused_class_passes_next_load`.) -/
theorem loads_examine_every_ancestor (T : Table) (pre : List Str) (n : Str)
    (hok : (loadPlugin T (loadAll T [] pre).1 n).2 = .ok ())
    (k : Nat) (a : Str) (ca : ClassDef) (ha : nthAnc T k n = some a) (hfa : find T a = some ca) :
    checkAllowed T ca = .ok () ∧ checkOverrides T ca = .ok () := by
  have hM0 := loadAll_marksOk T pre [] (by intro b hb; cases hb)
  have hM := loadPlugin_marksOk T _ n hM0
  have hok' : (checkTypesF T (2 * T.length + 2) (loadAll T [] pre).1 n).2 = .ok () := by
    rw [← loadPlugin_snd]; exact hok
  have hnm : n ∈ (loadPlugin T (loadAll T [] pre).1 n).1 := by
    rw [loadPlugin_of_ok T _ n hok']
    rcases checkTypesF_marks_self T (2 * T.length + 1) (loadAll T [] pre).1 n with hnone | hmem
    · cases k with
      | zero =>
        simp only [nthAnc, Option.some.injEq] at ha
        rw [← ha, hnone] at hfa
        cases hfa
      | succ k => simp [nthAnc, hnone] at ha
    · exact hmem
  have ham := marksOk_chain T _ hM k n a ca hnm ha hfa
  obtain ⟨h1, h2, _⟩ := hM a ham (by simp) ca hfa
  exact ⟨h1, h2⟩

/-- the same for a whole sequence: wherever in a sequence of loads a load passes -/
theorem loads_examine_every_ancestor_at (T : Table) (pre post : List Str) (n : Str)
    (hok : (loadAll T [] (pre ++ n :: post)).2[pre.length]? = some (.ok ()))
    (k : Nat) (a : Str) (ca : ClassDef) (ha : nthAnc T k n = some a) (hfa : find T a = some ca) :
    checkAllowed T ca = .ok () ∧ checkOverrides T ca = .ok () := by
  rw [loadAll_outcome_at] at hok
  exact loads_examine_every_ancestor T pre n (Option.some.inj hok) k a ca ha hfa

/-- **A refused class stays refused, and so does everything below it.** Whatever was loaded
before (any sequence, any outcomes): if a class `a` on the inheritance chain of `n` (`k = 0`: `n`
itself) fails `check_allowed_types` or `check_overrides`, the load of `n` is refused. -/
theorem refused_stays_refused (T : Table) (pre : List Str) (n : Str) (k : Nat) (a : Str) (ca : ClassDef)
    (ha : nthAnc T k n = some a) (hfa : find T a = some ca)
    (hbad : checkAllowed T ca ≠ .ok () ∨ checkOverrides T ca ≠ .ok ()) :
    (loadPlugin T (loadAll T [] pre).1 n).2 ≠ .ok () := by
  intro hok
  obtain ⟨h1, h2⟩ := loads_examine_every_ancestor T pre n hok k a ca ha hfa
  rcases hbad with h | h
  · exact h h1
  · exact h h2

/-- the same about the list of outcomes of a whole sequence: at *every* position where `n` is
loaded — the first time, again after it was refused, after a sibling, after its parent — the
outcome is a refusal -/
theorem refused_at_every_load (T : Table) (pre post : List Str) (n : Str) (k : Nat) (a : Str) (ca : ClassDef)
    (ha : nthAnc T k n = some a) (hfa : find T a = some ca)
    (hbad : checkAllowed T ca ≠ .ok () ∨ checkOverrides T ca ≠ .ok ()) :
    ∃ r, (loadAll T [] (pre ++ n :: post)).2[pre.length]? = some r ∧ r ≠ .ok () :=
  ⟨_, loadAll_outcome_at T pre post n, refused_stays_refused T pre n k a ca ha hfa hbad⟩

/-- a class that carries no mark of its own is examined by its load, whatever else is marked
(in particular its base class): the mark is per class, it is not inherited -/
theorem load_examines_unmarked (T : Table) (marks : List Str) (n : Str) (c : ClassDef)
    (hn : n ∉ marks) (hf : find T n = some c) (h : (loadPlugin T marks n).2 = .ok ()) :
    checkAllowed T c = .ok () ∧ checkOverrides T c = .ok () :=
  (checkTypesF_succ_snd_ok T (2 * T.length + 1) marks n c (by simpa using hn) hf
    (by rw [← loadPlugin_snd]; exact h)).2

/-- `Ga.f : Int` with two children that widen `f` without declaring it, and a class below one of them -/
def tblSibs : Table :=
  [{ name := "Ga".toList, fields := [("f".toList, .int, none)] },
   { name := "Ch".toList, parent := some "Ga".toList, fields := [("f".toList, .opt .int, none)] },
   { name := "Cb".toList, parent := some "Ga".toList, fields := [("f".toList, .union [.int, .str], none)] },
   { name := "Le".toList, parent := some "Ch".toList }]

theorem tblSibs_Ch : find tblSibs "Ch".toList =
    some { name := "Ch".toList, parent := some "Ga".toList, fields := [("f".toList, .opt .int, none)] } := rfl

theorem tblSibs_Ch_bad : checkOverrides tblSibs
    { name := "Ch".toList, parent := some "Ga".toList, fields := [("f".toList, .opt .int, none)] } ≠ .ok () := by
  rw [show checkOverrides tblSibs _ = .error .typeError from rfl]
  exact fun h => by cases h

/-- the widening child is refused whatever else is marked — its parent loaded before it, a
sibling, nothing at all — as long as it was not itself checked before -/
theorem child_refused_whatever_is_marked (marks : List Str) (h : "Ch".toList ∉ marks) :
    (loadPlugin tblSibs marks "Ch".toList).2 ≠ .ok () := by
  intro hok
  exact tblSibs_Ch_bad (load_examines_unmarked tblSibs marks _ _ h tblSibs_Ch hok).2

/-- non-vacuity of `refused_stays_refused`: after any loads whatsoever the widening child `Ch` and
the class `Le` below it are refused -/
example (pre : List Str) :
    (loadPlugin tblSibs (loadAll tblSibs [] pre).1 "Ch".toList).2 ≠ .ok () ∧
    (loadPlugin tblSibs (loadAll tblSibs [] pre).1 "Le".toList).2 ≠ .ok () :=
  ⟨refused_stays_refused tblSibs pre "Ch".toList 0 "Ch".toList _ rfl tblSibs_Ch (Or.inr tblSibs_Ch_bad),
   refused_stays_refused tblSibs pre "Le".toList 1 "Ch".toList _ rfl tblSibs_Ch (Or.inr tblSibs_Ch_bad)⟩

/-- the concrete sequence of the report (F31): `Ch` refused, `Ch` again refused, `Le` refused, the
sound part (`Ga`) passes, and only `Ga` is marked in the end -/
example : loadAll tblSibs [] ["Ch".toList, "Ch".toList, "Le".toList, "Ga".toList] =
    (["Ga".toList], [.error .typeError, .error .typeError, .error .typeError, .ok ()]) := by rfl

/-- `Ga.f : Int  <-  Mi (f : Optional[Int], undeclared; h : Optional[De])  <-  De`: the class `Mi`
names its own subclass `De` in a field (a dependency cycle) -/
def tblCyc : Table :=
  [{ name := "Ga".toList, fields := [("f".toList, .int, none)] },
   { name := "Mi".toList, parent := some "Ga".toList,
     fields := [("f".toList, .opt .int, none), ("h".toList, .opt (.model "De".toList .allow [] []), none)] },
   { name := "De".toList, parent := some "Mi".toList }]

/-- non-vacuity with a dependency cycle: `De` is examined *inside* the walk of `Mi` while `Mi`
carries its mark, and passes there; the walk of `Mi` is refused, every mark it set is cleared, and
`De` is refused whenever it is loaded -/
example : build tblCyc = .ok () ∧
    loadAll tblCyc [] ["Mi".toList, "De".toList, "Mi".toList, "De".toList, "Ga".toList] =
      (["Ga".toList], [.error .typeError, .error .typeError, .error .typeError, .error .typeError, .ok ()]) := by
  refine ⟨rfl, rfl⟩

/-! ## the behaviour of `check_types` before the two repairs (F31) -/

namespace Legacy

/-- a plugin load as pinned (`core.py:367-389` before `fix: check_types forgets the 'checked' mark
of a schema it refuses`): the mark is set before the examination and nothing ever clears it -/
def loadPlugin (T : Table) (marks : List Str) (n : Str) : List Str × Except Refusal Unit :=
  checkTypesF T (2 * T.length + 2) marks n

def loadAll (T : Table) : List Str → List Str → List Str × List (Except Refusal Unit)
  | marks, [] => (marks, [])
  | marks, n :: ns =>
    let r := loadPlugin T marks n
    let rest := loadAll T r.1 ns
    (rest.1, r.2 :: rest.2)

/-- `schema.__types_checked__ = False` -/
def unmark (n : Str) (marks : List Str) : List Str := marks.filter (fun m => m != n)

/-- the walk of the first repair (`fix: check_types forgets the 'checked' mark of a schema it
refuses`): every level clears the mark of *its own* class when it raises, i.e. the classes on the
stack lose their marks, a class that the walk finished before keeps its mark -/
def checkTypesFStack (T : Table) : Nat → List Str → Str → List Str × Except Refusal Unit
  | 0, seen, _ => (seen, .ok ())
  | fuel + 1, seen, n =>
    if seen.contains n then (seen, .ok ())
    else
      match find T n with
      | none => (seen, .ok ())
      | some c =>
        let seen := n :: seen
        let deps := (match c.parent with
          | some p => [p]
          | none => []) ++ (fieldSchemasF T (T.length + 1) n).filter (fun s => s != n)
        let r := deps.foldl (fun (acc : List Str × Except Refusal Unit) d =>
          match acc.2 with
          | .error e => (acc.1, .error e)
          | .ok () => checkTypesFStack T fuel acc.1 d) (seen, .ok ())
        match r.2 with
        | .error e => (unmark n r.1, .error e)
        | .ok () =>
          match checkAllowed T c with
          | .error e => (unmark n r.1, .error e)
          | .ok () =>
            match checkOverrides T c with
            | .error e => (unmark n r.1, .error e)
            | .ok () => (r.1, .ok ())

def loadAllStack (T : Table) : List Str → List Str → List Str × List (Except Refusal Unit)
  | marks, [] => (marks, [])
  | marks, n :: ns =>
    let r := checkTypesFStack T (2 * T.length + 2) marks n
    let rest := loadAllStack T r.1 ns
    (rest.1, r.2 :: rest.2)

end Legacy

/-- The pinned behaviour after a refusal (F31): the refused class `Ch` passed its next load
unexamined, and so did the class `Le` below it — where the repaired code refuses all three loads
(`refused_stays_refused`). -/
theorem legacy_refused_class_passes_next_load :
    (Legacy.loadAll tblSibs [] ["Ch".toList, "Ch".toList, "Le".toList]).2 = [.error .typeError, .ok (), .ok ()] ∧
    (loadAll tblSibs [] ["Ch".toList, "Ch".toList, "Le".toList]).2 =
      [.error .typeError, .error .typeError, .error .typeError] := by
  refine ⟨rfl, rfl⟩

/-- The first repair (marks cleared level by level, on the stack only) was not enough with a
dependency cycle: `De` was examined inside the walk of `Mi`, passed, and kept its mark when `Mi` was
refused afterwards; from then on `De` passed every load although `Mi` on its chain is refused every
time (reproduced on the real classes at that commit). The final code refuses all four loads. -/
theorem legacy_nested_descendant_keeps_mark_of_refused_walk :
    Legacy.loadAllStack tblCyc [] ["Mi".toList, "De".toList, "Mi".toList, "De".toList] =
      (["De".toList, "Ga".toList], [.error .typeError, .ok (), .error .typeError, .ok ()]) ∧
    (loadAll tblCyc [] ["Mi".toList, "De".toList, "Mi".toList, "De".toList]).2 =
      [.error .typeError, .error .typeError, .error .typeError, .error .typeError] := by
  refine ⟨rfl, rfl⟩

/-! ## constants over collection-valued fields (F30) -/

namespace Legacy

/-- pydantic's `ModelField.type_`: the innermost item type -/
def innerTy : Ty → Ty
  | .opt t => innerTy t
  | .list t => innerTy t
  | .set t => innerTy t
  | .ann t => innerTy t
  | t => t

/-- `add_const_fields` as pinned (before `fix: add_const_fields does not treat collection-valued
fields as enum/literal specialisation`): the test looked at `field_def.type_` only -/
def constOk (T : Table) (c : ClassDef) (hints : List (Str × Ty)) (bconsts : List (Str × Json))
    (parentForbids : Bool) (kv : Str × Json) : Except Refusal Unit :=
  let k := kv.1
  match getHint k hints with
  | some t =>
    match innerTy t with
    | .lit vs =>
      match jsonLit? kv.2 with
      | some l => if le T (.oneOf [some l]) (.oneOf (vs.map some)) then .ok () else .error .typeError
      | none => .error .typeError
    | _ => if c.constOverride then .ok () else .error .valueError
  | none =>
    if hasKey k bconsts then (if c.constOverride then .ok () else .error .valueError)
    else if parentForbids then .error .typeError
    else .ok ()

end Legacy

/-- the fields of a class as `add_const_fields` sees them (before any of them becomes a constant) -/
def decoratorHints (T : Table) (c : ClassDef) : List (Str × Ty) :=
  (ownHints (baseHints T c) c).foldl (fun acc (p : Str × Ty) => setHint p.1 p.2 acc) (baseHints T c)

/-- **A constant over a collection-valued field is refused** unless the replacement is declared
with `override=True`: whatever the item type of the `List` / `Set` (also below `Optional` /
`Annotated`) is — a `Literal` or `Enum` containing the constant included — the class definition
raises. (The "marked subclass" shortcut is for plain fields only: the constant is a valid *item*,
not a valid value of the collection the parent expects.) -/
theorem const_over_container_refused (T : Table) (c : ClassDef) (kv : Str × Json) (t : Ty)
    (hmem : kv ∈ c.consts) (hno : c.constOverride = false)
    (hhint : getHint kv.1 (decoratorHints T c) = some t) (hcoll : singletonTy t = none) :
    ∃ e, defineOk T c = .error e := by
  have key : ∀ pf : Bool, Except.error Refusal.valueError ∈
      c.consts.map (constOk T c (decoratorHints T c) (baseConsts T c) pf) := by
    intro pf
    apply List.mem_map.mpr
    refine ⟨kv, hmem, ?_⟩
    simp [constOk, hhint, hcoll, hno]
  unfold defineOk
  cases c.parent.bind (find T) <;> simp only <;>
    (split
     · exact ⟨_, rfl⟩
     · split
       · exact ⟨_, rfl⟩
       · split
         · exact ⟨_, rfl⟩
         · split
           · exact ⟨_, rfl⟩
           · exact firstErr_error_of_mem _ _ (key _))

/-- `Ga (k : List[Literal["a","b"]], f : Int)  <-  Ch = add_const_fields({"k": "a"})` -/
def tblColl (t : Ty) (ovr : Bool) (v : Json) : Table :=
  [{ name := "Ga".toList, fields := [("k".toList, t, none), ("f".toList, .int, none)] },
   { name := "Ch".toList, parent := some "Ga".toList, consts := [("k".toList, v)], constOverride := ovr }]

def litAB : Ty := .lit [.str "a".toList, .str "b".toList]

/-- non-vacuity of `const_over_container_refused` and the other branches: a member of the Literal
over `List` / `Set` / `Optional[List]` is refused, with `override=True` (scalar or list constant) it
is an ordinary declared override, over the plain (also `Optional` / `Annotated`) field it is the
"marked subclass" pattern, a foreign value is refused there -/
example : build (tblColl (.list litAB) false (.str "a".toList)) = .error .valueError ∧
    build (tblColl (.set litAB) false (.str "a".toList)) = .error .valueError ∧
    build (tblColl (.opt (.list litAB)) false (.str "a".toList)) = .error .valueError ∧
    build (tblColl (.ann (.list litAB)) false (.arr [.str "a".toList])) = .error .valueError ∧
    build (tblColl (.list litAB) true (.str "a".toList)) = .ok () ∧
    build (tblColl (.list litAB) true (.arr [.str "a".toList])) = .ok () ∧
    build (tblColl litAB false (.str "a".toList)) = .ok () ∧
    build (tblColl (.opt (.ann litAB)) false (.str "a".toList)) = .ok () ∧
    build (tblColl litAB true (.str "zz".toList)) = .error .typeError := by
  refine ⟨rfl, rfl, rfl, rfl, rfl, rfl, rfl, rfl, rfl⟩

/-- The pinned decorator (F30) let the scalar through: the class was defined, `check_types`
passed (the constant is no override of an annotation), the child's dump carries the scalar, and
the parent — which expects a list — rejects it. -/
theorem legacy_const_over_container_accepted :
    Legacy.constOk (tblColl (.list litAB) false (.str "a".toList))
        { name := "Ch".toList, parent := some "Ga".toList, consts := [("k".toList, .str "a".toList)] }
        [("k".toList, .list litAB), ("f".toList, .int)] [] false ("k".toList, .str "a".toList) = .ok () ∧
    constOk (tblColl (.list litAB) false (.str "a".toList))
        { name := "Ch".toList, parent := some "Ga".toList, consts := [("k".toList, .str "a".toList)] }
        [("k".toList, .list litAB), ("f".toList, .int)] [] false ("k".toList, .str "a".toList) = .error .valueError ∧
    checkTypes (tblColl (.list litAB) false (.str "a".toList)) "Ch".toList = .ok () ∧
    (∀ env, decode env (.model "Ch".toList .allow [.mk "f".toList .int true none] [("k".toList, .str "a".toList)])
        (.obj [("f".toList, .int 1)]) =
      .ok (.obj "Ch".toList [("f".toList, .int 1)] [("k".toList, .str "a".toList)] [])) ∧
    (∀ env, accepts env (.model "Ga".toList .allow [.mk "k".toList (.list litAB) true none, .mk "f".toList .int true none] [])
        (encode (.obj "Ch".toList [("f".toList, .int 1)] [("k".toList, .str "a".toList)] [])) = false) := by
  refine ⟨rfl, rfl, rfl, fun _ => rfl, fun _ => rfl⟩

end MetadorModel.C13
