import MetadorModel.Proofs.Codec
/-!
# C12 — Schema instances survive serialisation unchanged

Theorems about `MetadorModel.Codec` (model of pydantic validation / `BaseModelPlus.json()`
for the field-type grammar). Hypotheses about the libraries are explicit:

* float `repr` round-trips: a valid float value is a token `t` with `env.normFloat t = some t`
  (reading the token that `float.__repr__` printed and printing it again gives the same token);
* the string codecs of `Duration` / `PintUnit` / `PintQuantity` are inverse on their normal
  forms: a valid opaque value is a string `s` with `env.norm k s = some s` and no crash.

Both are part of `Valid` (they are what the correspondence checks on the real libraries:
`normal-form-not-fixed`). No bound on the nesting depth, the number of fields or values.
-/
namespace MetadorModel.C12
open MetadorModel.Codec

/-- `S.parse_raw(o.json()) == o`: every valid instance value of every type of the grammar
(hence of every schema built from it: nested, inherited, with constants and extras) is read
back unchanged. Induction over the type syntax (`Proofs/Codec.lean`). -/
theorem roundtrip (env : Env) (t : Ty) (v : PyVal) (h : Valid env t v) :
    decode env t (encode v) = .ok v :=
  roundtrip_core env t v h

/-- … in particular the type-indexed spelling of the design -/
theorem roundtrip_at (env : Env) (t : Ty) (v : PyVal) (h : Valid env t v) :
    decode env t (encodeAt t v) = .ok v :=
  roundtrip_core env t v h

/-- a second trip produces the identical serialisation (and the identical value again) -/
theorem roundtrip_idempotent (env : Env) (t : Ty) (v : PyVal) (h : Valid env t v) :
    ∃ v', decode env t (encode v) = .ok v' ∧ encode v' = encode v ∧
      decode env t (encode v') = .ok v' := by
  refine ⟨v, roundtrip_core env t v h, rfl, roundtrip_core env t v h⟩

/-- the serialised form of a validated schema instance -/
def dumped : PyVal → List (Str × Json)
  | .obj _ fs cs xs => encodeFields fs ++ cs ++ xs.filter (fun p => !isNull p.2)
  | _ => []

theorem encode_obj (n : Str) (fs : List (Str × PyVal)) (cs xs : List (Str × Json)) :
    encode (.obj n fs cs xs) = .obj (dumped (.obj n fs cs xs)) := by
  simp [encode, dumped]

/-- what `decode` of a schema type returns is an object carrying the constants of the class -/
theorem decode_model_shape (env : Env) (n : Str) (ex : Extra) (fs : List Field)
    (cs : List (Str × Json)) (j : Json) (v : PyVal)
    (h : decode env (.model n ex fs cs) j = .ok v) :
    ∃ kvs fvs xs, asDict j = some kvs ∧ decodeFields env fs kvs = .ok fvs ∧ v = .obj n fvs cs xs := by
  simp only [decode] at h
  cases hd : asDict j with
  | none => simp [hd] at h
  | some kvs =>
    simp only [hd] at h
    cases hf : decodeFields env fs kvs with
    | error e => simp [hf] at h
    | ok fvs =>
      simp only [hf] at h
      cases ex with
      | allow => simp at h; exact ⟨kvs, fvs, _, rfl, hf, h.symm⟩
      | ignore => simp at h; exact ⟨kvs, fvs, _, rfl, hf, h.symm⟩
      | forbid =>
        simp only at h
        split at h
        · simp at h; exact ⟨kvs, fvs, _, rfl, hf, h.symm⟩
        · cases h

/-- **Constants are forced on output**: whatever was parsed (whatever the input said about
the constant keys), the dump has every declared constant with its constant value. -/
theorem constants_forced (env : Env) (n : Str) (ex : Extra) (fs : List Field)
    (cs : List (Str × Json)) (j : Json) (v : PyVal)
    (hdisj : ∀ f ∈ fs, hasKey (fieldName f) cs = false)
    (h : decode env (.model n ex fs cs) j = .ok v) :
    ∀ k, hasKey k cs = true → lookup k (dumped v) = lookup k cs := by
  obtain ⟨kvs, fvs, xs, _, hf, rfl⟩ := decode_model_shape env n ex fs cs j v h
  intro k hk
  have hkeys := decodeFields_keys env fs kvs fvs hf
  have h1 : lookup k (encodeFields fvs) = none := by
    apply lookup_none_of_notin
    intro p hp e
    obtain ⟨q, hq, e2⟩ := encodeFields_keys fvs p hp
    have hmem : p.1 ∈ fs.map fieldName := by
      rw [← hkeys, ← e2]; exact List.mem_map.mpr ⟨q, hq, rfl⟩
    obtain ⟨f, hf', hfn⟩ := List.mem_map.mp hmem
    have := hdisj f hf'
    rw [hfn, e, hk] at this
    cases this
  have h2 : ∃ c, lookup k cs = some c := by
    clear h1 hkeys hf h
    induction cs with
    | nil => simp [hasKey] at hk
    | cons p cs ih =>
      obtain ⟨k', c⟩ := p
      by_cases e : k = k'
      · exact ⟨c, by simp [lookup, e]⟩
      · have : hasKey k cs = true := by
          simp only [hasKey, List.any_cons, Bool.or_eq_true] at hk
          rcases hk with hk | hk
          · simp at hk; exact absurd hk.symm e
          · exact hk
        obtain ⟨c', hc'⟩ := ih (fun f hf => by
          have := hdisj f hf
          simp only [hasKey, List.any_cons, Bool.or_eq_false_iff] at this
          exact this.2) this
        exact ⟨c', by simp [lookup, e, hc']⟩
  obtain ⟨c, hc⟩ := h2
  simp [dumped, List.append_assoc, lookup_append, h1, hc]

/-- **Constants are ignored on input**: supplying any value under a constant key changes
nothing. -/
theorem constants_ignored (env : Env) (n : Str) (ex : Extra) (fs : List Field)
    (cs : List (Str × Json)) (kvs : List (Str × Json)) (k : Str) (x : Json)
    (hk : hasKey k cs = true) (hdisj : ∀ f ∈ fs, hasKey (fieldName f) cs = false) :
    decode env (.model n ex fs cs) (.obj (setKey k x kvs)) = decode env (.model n ex fs cs) (.obj kvs) := by
  have hne : ∀ f ∈ fs, fieldName f ≠ k := by
    intro f hf e
    have := hdisj f hf
    rw [e, hk] at this
    cases this
  have h1 : decodeFields env fs (setKey k x kvs) = decodeFields env fs kvs :=
    decodeFields_congr env fs _ _ (fun f hf => lookup_setKey_ne k (fieldName f) x kvs (hne f hf))
  have h2 : (setKey k x kvs).filter (fun p => !(fs.any (fun f => fieldName f == p.1)) && !hasKey p.1 cs)
      = kvs.filter (fun p => !(fs.any (fun f => fieldName f == p.1)) && !hasKey p.1 cs) :=
    filter_setKey _ k x kvs (fun y => by simp [hk])
  simp only [decode, asDict, h1, h2]

/-- **An omitted optional stays omitted**: a field without default that the input does not
mention is `none` in the instance, absent from the dump, and `none` again after re-parsing. -/
theorem omitted_optional_stable (env : Env) (f : Str) (t : Ty) (kvs : List (Str × Json))
    (h : lookup f kvs = none) :
    decodeField env (.mk f t false none) kvs = .ok (f, .none) ∧
      encodeFields [(f, PyVal.none)] = [] ∧
      decodeField env (.mk f t false none) (encodeFields [(f, PyVal.none)]) = .ok (f, .none) := by
  simp [decodeField, h, encodeFields, lookup]

/-! ## non-vacuity: a concrete schema with every ingredient -/

/-- a toy library environment: every string is its own normal form, `"?"` is refused -/
def envEx : Env where
  norm := fun _ s => if s = ['?'] then none else some s
  normFloat := fun t => some t

/-- nested schema (forbids extras) -/
def refTy : Ty := .model "Ref".toList .forbid [.mk "id".toList (.cstr .nes) true none] []

/-- a schema with strict primitives incl. falsy values, constrained string, Literal,
Optional, Union, List, Set, nested schema, opaque values, a default, two constants -/
def thingTy : Ty :=
  .model "Thing".toList .allow
    [ .mk "b".toList .bool true none,
      .mk "i".toList .int true none,
      .mk "x".toList .float true none,
      .mk "s".toList (.opt .str) false none,
      .mk "m".toList (.opt (.cstr .mime)) false none,
      .mk "l".toList (.lit [.str "a".toList, .int 1]) true none,
      .mk "u".toList (.opt (.union [refTy, .cstr .nes])) false none,
      .mk "li".toList (.list .int) true none,
      .mk "se".toList (.set (.cstr .hash)) true none,
      .mk "d".toList (.opt (.opq .dur)) false none,
      .mk "q".toList (.opq .qty) true none,
      .mk "n".toList .int false (some (.int 5)) ]
    [("@context".toList, .str "https://schema.org".toList), ("@type".toList, .str "Thing".toList)]

def thingVal : PyVal :=
  .obj "Thing".toList
    [ ("b".toList, .bool false), ("i".toList, .int 0), ("x".toList, .float "0.0".toList),
      ("s".toList, .none), ("m".toList, .str "a/b;c".toList), ("l".toList, .int 1),
      ("u".toList, .obj "Ref".toList [("id".toList, .str "r1".toList)] [] []),
      ("li".toList, .list []), ("se".toList, .set [.str "ab12".toList, .str "0".toList]),
      ("d".toList, .none), ("q".toList, .opq .qty "5 meter".toList), ("n".toList, .int 5) ]
    [("@context".toList, .str "https://schema.org".toList), ("@type".toList, .str "Thing".toList)]
    [("zz".toList, .arr [.int 1, .null])]

/-- the hypotheses of `roundtrip` are satisfiable by a rich value … -/
example : decode envEx thingTy (encode thingVal) = .ok thingVal := by rfl

/-- … which is what the parser produces from an input with omitted optionals, a constant
supplied with another value and an explicit falsy value -/
example : decode envEx thingTy (.obj
    [ ("b".toList, .bool false), ("i".toList, .int 0), ("x".toList, .float "0.0".toList),
      ("m".toList, .str "a/b;c".toList), ("l".toList, .bool true), ("@type".toList, .str "Other".toList),
      ("u".toList, .obj [("id".toList, .str "r1".toList)]), ("li".toList, .arr []),
      ("se".toList, .arr [.str "ab12".toList, .str "0".toList, .str "ab12".toList]),
      ("q".toList, .str "5 meter".toList), ("zz".toList, .arr [.int 1, .null]) ]) = .ok thingVal := by rfl

example : Valid envEx (.opt (.list (.union [.int, .cstr .nes]))) (.list [.int 0, .str "x".toList]) := by
  simp only [Valid]
  right
  refine ⟨_, rfl, ?_⟩
  intro x hx
  simp only [List.mem_cons, List.not_mem_nil, or_false] at hx
  rcases hx with rfl | rfl
  · simp [ValidU, Valid]
  · simp only [ValidU, Valid]
    right
    refine ⟨⟨.type, by rfl, by decide⟩, ?_⟩
    left
    exact ⟨_, rfl, by decide⟩

/-- the documented exclusion: an explicit `None` for a field with a non-`None` default reads
back as the default (so such values are not `Valid`: `ValidF`) -/
theorem explicit_none_reads_default :
    let t : Ty := .model "D".toList .allow [.mk "n".toList (.opt .int) false (some (.int 5))] []
    decode envEx t (.obj [("n".toList, .null)]) = .ok (.obj "D".toList [("n".toList, .none)] [] []) ∧
    decode envEx t (encode (.obj "D".toList [("n".toList, .none)] [] []))
      = .ok (.obj "D".toList [("n".toList, .int 5)] [] []) := ⟨by rfl, by rfl⟩

/-- why the library hypothesis is needed: with an encoder that loses the unit
("5 meter" ↦ "5", which the parser reads as the dimensionless "5 dimensionless") the round
trip fails -/
theorem roundtrip_needs_unit :
    let env : Env := { norm := fun _ s => if s = "5 meter".toList then some "5".toList
                                            else if s = "5".toList then some "5 dimensionless".toList else some s,
                       normFloat := fun t => some t }
    ∃ v j, decode env (.opq .qty) j = .ok v ∧ decode env (.opq .qty) (encode v) ≠ .ok v :=
  ⟨.opq .qty "5".toList, .str "5 meter".toList, by rfl, by
    have : decode { norm := fun _ s => if s = "5 meter".toList then some "5".toList
                                            else if s = "5".toList then some "5 dimensionless".toList else some s,
                    normFloat := fun t => some t } (.opq .qty) (encode (.opq .qty "5".toList))
        = .ok (.opq .qty "5 dimensionless".toList) := by rfl
    rw [this]
    intro h
    injection h with h
    injection h with _ h
    revert h
    decide⟩

/-- the pinned tree (before `fix: SchemaMagic.__init__ chains to the encoder metaclass`)
could not serialise any instance holding a duration, unit or quantity -/
theorem legacy_opaque_not_serialisable (k : Opq) (s : Str) (n : Str) (f : Str)
    (cs xs : List (Str × Json)) :
    Legacy.encode? (.obj n [(f, .opq k s)] cs xs) = none := by
  simp [Legacy.encode?, Legacy.encodeFields?]

/-! ## constants of nested schema values -/

mutual
/-- the schema instances a value holds, at any depth (the value itself included) -/
def subObjs : PyVal → List PyVal
  | .obj n fs cs xs => .obj n fs cs xs :: subObjsFs fs
  | .list vs => subObjsL vs
  | .set vs => subObjsL vs
  | _ => []
def subObjsL : List PyVal → List PyVal
  | [] => []
  | v :: vs => subObjs v ++ subObjsL vs
def subObjsFs : List (Str × PyVal) → List PyVal
  | [] => []
  | (_, v) :: r => subObjs v ++ subObjsFs r
end

mutual
/-- the schema class `m` occurs in the field type (at any depth, the type itself included) -/
def InTy (m : Ty) : Ty → Prop
  | .opt t => InTy m t
  | .ann t => InTy m t
  | .list t => InTy m t
  | .set t => InTy m t
  | .union ts => InTys m ts
  | .model n e fs cs => m = .model n e fs cs ∨ InFs m fs
  | _ => False
def InTys (m : Ty) : List Ty → Prop
  | [] => False
  | t :: ts => InTy m t ∨ InTys m ts
def InFs (m : Ty) : List Field → Prop
  | [] => False
  | f :: fs => InF m f ∨ InFs m fs
def InF (m : Ty) : Field → Prop
  | .mk _ t _ _ => InTy m t
end

/-- `w` is what validation against the schema class `m` returned for some input -/
def DecodedBy (env : Env) (m : Ty) (w : PyVal) : Prop :=
  ∃ n e fs cs j, m = .model n e fs cs ∧ decode env m j = .ok w

theorem subObjs_of_hashable (v : PyVal) (h : hashable v = true) : subObjs v = [] := by
  cases v <;> simp [hashable] at h <;> simp [subObjs]

theorem mem_dedup : ∀ (vs : List PyVal) (x : PyVal), x ∈ dedup vs → x ∈ vs
  | [], x, h => by simp [dedup] at h
  | v :: vs, x, h => by
    simp only [dedup, List.mem_cons, List.mem_filter] at h
    rcases h with h | ⟨h, _⟩
    · simp [h]
    · simp [mem_dedup vs x h]

theorem subObjsL_mem (vs : List PyVal) (w : PyVal) :
    w ∈ subObjsL vs ↔ ∃ v ∈ vs, w ∈ subObjs v := by
  induction vs with
  | nil => simp [subObjsL]
  | cons v vs ih => simp [subObjsL, ih]

theorem allOk_mem {α : Type} : ∀ (l : List (Except Err α)) (vs : List α), allOk l = .ok vs →
    ∀ v ∈ vs, .ok v ∈ l
  | [], vs, h, v, hv => by
    simp [allOk] at h
    subst h
    cases hv
  | .ok a :: r, vs, h, v, hv => by
    simp only [allOk] at h
    cases hr : allOk r with
    | error e => simp [hr, mapOk] at h
    | ok l =>
      simp [hr, mapOk] at h
      subst h
      simp only [List.mem_cons] at hv
      rcases hv with rfl | hv
      · simp
      · simp [allOk_mem r l hr v hv]
  | .error e :: r, vs, h, v, hv => by
    simp only [allOk] at h
    split at h <;> cases h


theorem decodedBy_self (env : Env) (n : Str) (e : Extra) (fs : List Field) (cs : List (Str × Json))
    (j : Json) (w : PyVal) (h : decode env (.model n e fs cs) j = .ok w) :
    DecodedBy env (.model n e fs cs) w := ⟨n, e, fs, cs, j, rfl, h⟩

mutual
/-- every schema instance inside a decoded value is itself the result of validating some input
against a schema class that the field type mentions -/
theorem subObjs_decoded (env : Env) : ∀ (t : Ty) (j : Json) (v : PyVal), decode env t j = .ok v →
    ∀ w ∈ subObjs v, ∃ m, InTy m t ∧ DecodedBy env m w
  | .bool, j, v, h, w, hw => by
    cases j <;> simp [decode] at h
    subst h; simp [subObjs] at hw
  | .int, j, v, h, w, hw => by
    cases j <;> simp [decode] at h
    subst h; simp [subObjs] at hw
  | .float, j, v, h, w, hw => by
    cases j <;> simp [decode] at h
    split at h <;> simp at h
    subst h; simp [subObjs] at hw
  | .str, j, v, h, w, hw => by
    cases j with
    | str s =>
      simp only [decode] at h
      split at h <;> simp at h
      subst h; simp [subObjs] at hw
    | _ => simp [decode] at h
  | .cstr k, j, v, h, w, hw => by
    cases j with
    | str s =>
      simp only [decode] at h
      split at h <;> simp at h
      subst h; simp [subObjs] at hw
    | _ => simp [decode] at h
  | .opq k, j, v, h, w, hw => by
    cases j with
    | str s =>
      simp only [decode] at h
      split at h
      · simp at h
      · split at h <;> simp at h
        subst h; simp [subObjs] at hw
    | _ => simp [decode] at h
  | .lit vs, j, v, h, w, hw => by
    simp only [decode, decodeLit] at h
    split at h <;> simp at h
    subst h
    rename_i l _
    cases l <;> simp [litVal, subObjs] at hw
  | .opt t, j, v, h, w, hw => by
    by_cases hj : j = .null
    · subst hj
      simp [decode] at h
      subst h; simp [subObjs] at hw
    · rw [decode_opt_nonnull env t j hj] at h
      obtain ⟨m, hm, hd⟩ := subObjs_decoded env t j v h w hw
      exact ⟨m, by simpa [InTy] using hm, hd⟩
  | .ann t, j, v, h, w, hw => by
    simp only [decode] at h
    obtain ⟨m, hm, hd⟩ := subObjs_decoded env t j v h w hw
    exact ⟨m, by simpa [InTy] using hm, hd⟩
  | .union ts, j, v, h, w, hw => by
    simp only [decode] at h
    obtain ⟨m, hm, hd⟩ := subObjsU_decoded env ts j v h w hw
    exact ⟨m, by simpa [InTy] using hm, hd⟩
  | .list t, j, v, h, w, hw => by
    cases j <;> simp [decode] at h
    rename_i xs
    cases ha : allOk (xs.map (fun x => decode env t x)) with
    | error e => simp [ha, mapOk] at h
    | ok vs =>
      simp [ha, mapOk] at h
      subst h
      simp only [subObjs, subObjsL_mem] at hw
      obtain ⟨x, hx, hwx⟩ := hw
      have := allOk_mem _ vs ha x hx
      simp only [List.mem_map] at this
      obtain ⟨jx, _, hjx⟩ := this
      obtain ⟨m, hm, hd⟩ := subObjs_decoded env t jx x hjx w hwx
      exact ⟨m, by simpa [InTy] using hm, hd⟩
  | .set t, j, v, h, w, hw => by
    cases j <;> simp [decode] at h
    rename_i xs
    cases ha : allOk (xs.map (fun x => decode env t x)) with
    | error e => simp [ha] at h
    | ok vs =>
      simp only [ha, mkSet] at h
      split at h <;> simp at h
      subst h
      simp only [subObjs, subObjsL_mem] at hw
      obtain ⟨x, hx, hwx⟩ := hw
      have hx' := mem_dedup vs x hx
      have := allOk_mem _ vs ha x hx'
      simp only [List.mem_map] at this
      obtain ⟨jx, _, hjx⟩ := this
      obtain ⟨m, hm, hd⟩ := subObjs_decoded env t jx x hjx w hwx
      exact ⟨m, by simpa [InTy] using hm, hd⟩
  | .model n e fs cs, j, v, h, w, hw => by
    obtain ⟨kvs, fvs, xs, _, hf, hv⟩ := decode_model_shape env n e fs cs j v h
    subst hv
    simp only [subObjs, List.mem_cons] at hw
    rcases hw with rfl | hw
    · exact ⟨_, by simp [InTy], decodedBy_self env n e fs cs j _ h⟩
    · obtain ⟨m, hm, hd⟩ := subObjsFs_decoded env fs kvs fvs hf w hw
      exact ⟨m, by simp [InTy, hm], hd⟩
theorem subObjsU_decoded (env : Env) : ∀ (ts : List Ty) (j : Json) (v : PyVal), decodeUnion env ts j = .ok v →
    ∀ w ∈ subObjs v, ∃ m, InTys m ts ∧ DecodedBy env m w
  | [], j, v, h, w, hw => by simp [decodeUnion] at h
  | t :: ts, j, v, h, w, hw => by
    simp only [decodeUnion] at h
    cases hd : decode env t j with
    | ok v' =>
      simp [hd] at h
      subst h
      obtain ⟨m, hm, hdd⟩ := subObjs_decoded env t j v' hd w hw
      exact ⟨m, by simp [InTys, hm], hdd⟩
    | error e =>
      rw [hd] at h
      cases e <;> simp at h <;> (
        obtain ⟨m, hm, hdd⟩ := subObjsU_decoded env ts j v h w hw
        exact ⟨m, by simp [InTys, hm], hdd⟩)
theorem subObjsFs_decoded (env : Env) : ∀ (fs : List Field) (kvs : List (Str × Json)) (fvs : List (Str × PyVal)),
    decodeFields env fs kvs = .ok fvs → ∀ w ∈ subObjsFs fvs, ∃ m, InFs m fs ∧ DecodedBy env m w
  | [], kvs, fvs, h, w, hw => by
    simp [decodeFields] at h
    subst h; simp [subObjsFs] at hw
  | f :: fs, kvs, fvs, h, w, hw => by
    simp only [decodeFields] at h
    cases h1 : decodeField env f kvs with
    | error e =>
      rw [h1] at h
      cases h2 : decodeFields env fs kvs with
      | ok r => rw [h2] at h; cases h
      | error e' => rw [h2] at h; cases e' <;> cases h
    | ok p =>
      rw [h1] at h
      cases h2 : decodeFields env fs kvs with
      | error e' => rw [h2] at h; cases e' <;> cases h
      | ok r =>
        rw [h2] at h
        simp at h
        subst h
        obtain ⟨k, pv⟩ := p
        simp only [subObjsFs, List.mem_append] at hw
        rcases hw with hw | hw
        · obtain ⟨m, hm, hd⟩ := subObjsF_decoded env f kvs (k, pv) h1 w hw
          exact ⟨m, by simp [InFs, hm], hd⟩
        · obtain ⟨m, hm, hd⟩ := subObjsFs_decoded env fs kvs r h2 w hw
          exact ⟨m, by simp [InFs, hm], hd⟩
theorem subObjsF_decoded (env : Env) : ∀ (f : Field) (kvs : List (Str × Json)) (p : Str × PyVal),
    decodeField env f kvs = .ok p → ∀ w ∈ subObjs p.2, ∃ m, InF m f ∧ DecodedBy env m w
  | .mk n t req d, kvs, p, h, w, hw => by
    simp only [decodeField] at h
    split at h
    · rename_i j _
      cases hd : decode env t j with
      | ok v =>
        simp [hd, mapOk] at h; subst h
        obtain ⟨m, hm, hdd⟩ := subObjs_decoded env t j v hd w hw
        exact ⟨m, by simpa [InF] using hm, hdd⟩
      | error e => simp [hd, mapOk] at h
    · split at h
      · cases h
      · split at h
        · simp at h; subst h; simp [subObjs] at hw
        · rename_i dj
          cases hd : decode env t dj with
          | ok v =>
            simp [hd, mapOk] at h; subst h
            obtain ⟨m, hm, hdd⟩ := subObjs_decoded env t dj v hd w hw
            exact ⟨m, by simpa [InF] using hm, hdd⟩
          | error e => simp [hd, mapOk] at h
end


/-- every schema class the type mentions keeps its field names and its constant keys apart
(what `add_const_fields` guarantees: a constant replaces a field of the same name) -/
def ConstsApart (t : Ty) : Prop :=
  ∀ n e fs cs, InTy (.model n e fs cs) t → ∀ f ∈ fs, hasKey (fieldName f) cs = false

/-- **Constants are forced on output at every depth**: every schema instance held anywhere inside
a parsed value (nested field, list item, union alternative, default value) is an instance of a
class the type mentions, carries exactly the declared constants of that class, and its part of
the dump shows each of them with the constant value. -/
theorem constants_forced_nested (env : Env) (t : Ty) (j : Json) (v : PyVal)
    (hap : ConstsApart t) (h : decode env t j = .ok v) :
    ∀ w ∈ subObjs v, ∃ n e fs cs, InTy (.model n e fs cs) t ∧ (∃ fvs xs, w = .obj n fvs cs xs) ∧
      ∀ k, hasKey k cs = true → lookup k (dumped w) = lookup k cs := by
  intro w hw
  obtain ⟨m, hm, n, e, fs, cs, j', rfl, hd⟩ := subObjs_decoded env t j v h w hw
  refine ⟨n, e, fs, cs, hm, ?_, constants_forced env n e fs cs j' w (hap n e fs cs hm) hd⟩
  obtain ⟨_, fvs, xs, _, _, hv⟩ := decode_model_shape env n e fs cs j' w hd
  exact ⟨fvs, xs, hv⟩

mutual
/-- the JSON values a JSON value holds, at any depth (the value itself included) -/
def subJsons : Json → List Json
  | .arr xs => .arr xs :: subJsonsL xs
  | .obj kvs => .obj kvs :: subJsonsKv kvs
  | j => [j]
def subJsonsL : List Json → List Json
  | [] => []
  | x :: r => subJsons x ++ subJsonsL r
def subJsonsKv : List (Str × Json) → List Json
  | [] => []
  | (_, x) :: r => subJsons x ++ subJsonsKv r
end

theorem subJsonsKv_append (a b : List (Str × Json)) :
    subJsonsKv (a ++ b) = subJsonsKv a ++ subJsonsKv b := by
  induction a with
  | nil => simp [subJsonsKv]
  | cons p a ih => obtain ⟨k, x⟩ := p; simp [subJsonsKv, ih]

mutual
/-- … and the dump of a nested instance is the part of the whole dump at its place: nothing on
the way (lists, sets, `exclude_none`) drops or rewrites it -/
theorem encode_subObjs : ∀ (v w : PyVal), w ∈ subObjs v → encode w ∈ subJsons (encode v)
  | .obj n fs cs xs, w, hw => by
    simp only [subObjs, List.mem_cons] at hw
    rcases hw with rfl | hw
    · simp [encode, subJsons]
    · have := encodeFs_subObjs fs w hw
      simp [encode, subJsons, subJsonsKv_append, this]
  | .list vs, w, hw => by
    simp only [subObjs] at hw
    have := encodeL_subObjs vs w hw
    simp [encode, subJsons, this]
  | .set vs, w, hw => by
    simp only [subObjs] at hw
    have := encodeL_subObjs vs w hw
    simp [encode, subJsons, this]
  | .none, w, hw => by simp [subObjs] at hw
  | .bool _, w, hw => by simp [subObjs] at hw
  | .int _, w, hw => by simp [subObjs] at hw
  | .float _, w, hw => by simp [subObjs] at hw
  | .str _, w, hw => by simp [subObjs] at hw
  | .opq _ _, w, hw => by simp [subObjs] at hw
theorem encodeL_subObjs : ∀ (vs : List PyVal) (w : PyVal), w ∈ subObjsL vs →
    encode w ∈ subJsonsL (encodeList vs)
  | [], w, hw => by simp [subObjsL] at hw
  | v :: vs, w, hw => by
    simp only [subObjsL, List.mem_append] at hw
    rcases hw with hw | hw
    · simp [encodeList, subJsonsL, encode_subObjs v w hw]
    · simp [encodeList, subJsonsL, encodeL_subObjs vs w hw]
theorem encodeFs_subObjs : ∀ (fs : List (Str × PyVal)) (w : PyVal), w ∈ subObjsFs fs →
    encode w ∈ subJsonsKv (encodeFields fs)
  | [], w, hw => by simp [subObjsFs] at hw
  | (k, v) :: r, w, hw => by
    simp only [subObjsFs, List.mem_append] at hw
    by_cases hv : v = .none
    · subst hv
      simp only [subObjs, List.not_mem_nil, false_or] at hw
      rw [encodeFields_cons_none]
      exact encodeFs_subObjs r w hw
    · rw [encodeFields_cons_ne k v r hv]
      rcases hw with hw | hw
      · simp [subJsonsKv, encode_subObjs v w hw]
      · simp [subJsonsKv, encodeFs_subObjs r w hw]
end

/-- non-vacuity: a schema holding a list of nested schema instances; both the nested instance and the
outer one show their own `@type` -/
def stepTy : Ty := .model "Step".toList .allow [.mk "label".toList (.cstr .nes) true none]
  [("@type".toList, .str "HowToStep".toList)]
def protoTy : Ty := .model "Proto".toList .allow [.mk "steps".toList (.list stepTy) true none]
  [("@type".toList, .str "HowTo".toList)]

example : ConstsApart protoTy := by
  intro n e fs cs h
  simp only [protoTy, stepTy, InTy, InFs, InF, or_false] at h
  rcases h with h | h <;> (injection h with _ _ hf hc; subst hf hc; decide)

def stepVal : PyVal :=
  .obj "Step".toList [("label".toList, .str "s1".toList)] [("@type".toList, .str "HowToStep".toList)] []
def protoVal : PyVal :=
  .obj "Proto".toList [("steps".toList, .list [stepVal])] [("@type".toList, .str "HowTo".toList)] []

example : decode envEx protoTy (.obj [("steps".toList, .arr [.obj [("label".toList, .str "s1".toList),
    ("@type".toList, .str "Other".toList)]])]) = .ok protoVal := by rfl
example : stepVal ∈ subObjs protoVal := by
  simp [protoVal, stepVal, subObjs, subObjsFs, subObjsL]
example : lookup "@type".toList (dumped stepVal) = some (.str "HowToStep".toList) := by rfl

end MetadorModel.C12
