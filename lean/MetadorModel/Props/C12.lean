import MetadorModel.Proofs.Codec
/-!
# C12 — Schema instances survive serialisation unchanged

Theorems about `MetadorModel.Codec` (model of pydantic validation / `BaseModelPlus.json()`
for the field-type grammar). Hypotheses about the libraries are explicit:

* float `repr` round-trips: a valid float value is a token `t` with `env.normFloat t = some t`
  (reading the token that `float.__repr__` printed and printing it again gives the same token);
* the string codecs of `Duration` / `PintUnit` / `PintQuantity` are inverse on their normal
  forms: a valid opaque value is a string `s` with `env.norm k s = some s` and no crash.

Both are part of `Valid` (they are what the correspondence checks on the real libraries:
`normal-form-not-fixed`). No bound on the nesting depth, the number of fields or values.
-/
namespace MetadorModel.C12
open MetadorModel.Codec

/-- `S.parse_raw(o.json()) == o`: every valid instance value of every type of the grammar
(hence of every schema built from it: nested, inherited, with constants and extras) is read
back unchanged. Induction over the type syntax (`Proofs/Codec.lean`). -/
theorem roundtrip (env : Env) (t : Ty) (v : PyVal) (h : Valid env t v) :
    decode env t (encode v) = .ok v :=
  roundtrip_core env t v h

/-- … in particular the type-indexed spelling of the design -/
theorem roundtrip_at (env : Env) (t : Ty) (v : PyVal) (h : Valid env t v) :
    decode env t (encodeAt t v) = .ok v :=
  roundtrip_core env t v h

/-- a second trip produces the identical serialisation (and the identical value again) -/
theorem roundtrip_idempotent (env : Env) (t : Ty) (v : PyVal) (h : Valid env t v) :
    ∃ v', decode env t (encode v) = .ok v' ∧ encode v' = encode v ∧
      decode env t (encode v') = .ok v' := by
  refine ⟨v, roundtrip_core env t v h, rfl, roundtrip_core env t v h⟩

/-- the serialised form of a validated schema instance -/
def dumped : PyVal → List (Str × Json)
  | .obj _ fs cs xs => encodeFields fs ++ cs ++ xs.filter (fun p => !isNull p.2)
  | _ => []

theorem encode_obj (n : Str) (fs : List (Str × PyVal)) (cs xs : List (Str × Json)) :
    encode (.obj n fs cs xs) = .obj (dumped (.obj n fs cs xs)) := by
  simp [encode, dumped]

/-- what `decode` of a schema type returns is an object carrying the constants of the class -/
theorem decode_model_shape (env : Env) (n : Str) (ex : Extra) (fs : List Field)
    (cs : List (Str × Json)) (j : Json) (v : PyVal)
    (h : decode env (.model n ex fs cs) j = .ok v) :
    ∃ kvs fvs xs, asDict j = some kvs ∧ decodeFields env fs kvs = .ok fvs ∧ v = .obj n fvs cs xs := by
  simp only [decode] at h
  cases hd : asDict j with
  | none => simp [hd] at h
  | some kvs =>
    simp only [hd] at h
    cases hf : decodeFields env fs kvs with
    | error e => simp [hf] at h
    | ok fvs =>
      simp only [hf] at h
      cases ex with
      | allow => simp at h; exact ⟨kvs, fvs, _, rfl, hf, h.symm⟩
      | ignore => simp at h; exact ⟨kvs, fvs, _, rfl, hf, h.symm⟩
      | forbid =>
        simp only at h
        split at h
        · simp at h; exact ⟨kvs, fvs, _, rfl, hf, h.symm⟩
        · cases h

/-- **Constants are forced on output**: whatever was parsed (whatever the input said about
the constant keys), the dump has every declared constant with its constant value. -/
theorem constants_forced (env : Env) (n : Str) (ex : Extra) (fs : List Field)
    (cs : List (Str × Json)) (j : Json) (v : PyVal)
    (hdisj : ∀ f ∈ fs, hasKey (fieldName f) cs = false)
    (h : decode env (.model n ex fs cs) j = .ok v) :
    ∀ k, hasKey k cs = true → lookup k (dumped v) = lookup k cs := by
  obtain ⟨kvs, fvs, xs, _, hf, rfl⟩ := decode_model_shape env n ex fs cs j v h
  intro k hk
  have hkeys := decodeFields_keys env fs kvs fvs hf
  have h1 : lookup k (encodeFields fvs) = none := by
    apply lookup_none_of_notin
    intro p hp e
    obtain ⟨q, hq, e2⟩ := encodeFields_keys fvs p hp
    have hmem : p.1 ∈ fs.map fieldName := by
      rw [← hkeys, ← e2]; exact List.mem_map.mpr ⟨q, hq, rfl⟩
    obtain ⟨f, hf', hfn⟩ := List.mem_map.mp hmem
    have := hdisj f hf'
    rw [hfn, e, hk] at this
    cases this
  have h2 : ∃ c, lookup k cs = some c := by
    clear h1 hkeys hf h
    induction cs with
    | nil => simp [hasKey] at hk
    | cons p cs ih =>
      obtain ⟨k', c⟩ := p
      by_cases e : k = k'
      · exact ⟨c, by simp [lookup, e]⟩
      · have : hasKey k cs = true := by
          simp only [hasKey, List.any_cons, Bool.or_eq_true] at hk
          rcases hk with hk | hk
          · simp at hk; exact absurd hk.symm e
          · exact hk
        obtain ⟨c', hc'⟩ := ih (fun f hf => by
          have := hdisj f hf
          simp only [hasKey, List.any_cons, Bool.or_eq_false_iff] at this
          exact this.2) this
        exact ⟨c', by simp [lookup, e, hc']⟩
  obtain ⟨c, hc⟩ := h2
  simp [dumped, List.append_assoc, lookup_append, h1, hc]

/-- **Constants are ignored on input**: supplying any value under a constant key changes
nothing. -/
theorem constants_ignored (env : Env) (n : Str) (ex : Extra) (fs : List Field)
    (cs : List (Str × Json)) (kvs : List (Str × Json)) (k : Str) (x : Json)
    (hk : hasKey k cs = true) (hdisj : ∀ f ∈ fs, hasKey (fieldName f) cs = false) :
    decode env (.model n ex fs cs) (.obj (setKey k x kvs)) = decode env (.model n ex fs cs) (.obj kvs) := by
  have hne : ∀ f ∈ fs, fieldName f ≠ k := by
    intro f hf e
    have := hdisj f hf
    rw [e, hk] at this
    cases this
  have h1 : decodeFields env fs (setKey k x kvs) = decodeFields env fs kvs :=
    decodeFields_congr env fs _ _ (fun f hf => lookup_setKey_ne k (fieldName f) x kvs (hne f hf))
  have h2 : (setKey k x kvs).filter (fun p => !(fs.any (fun f => fieldName f == p.1)) && !hasKey p.1 cs)
      = kvs.filter (fun p => !(fs.any (fun f => fieldName f == p.1)) && !hasKey p.1 cs) :=
    filter_setKey _ k x kvs (fun y => by simp [hk])
  simp only [decode, asDict, h1, h2]

/-- **An omitted optional stays omitted**: a field without default that the input does not
mention is `none` in the instance, absent from the dump, and `none` again after re-parsing. -/
theorem omitted_optional_stable (env : Env) (f : Str) (t : Ty) (kvs : List (Str × Json))
    (h : lookup f kvs = none) :
    decodeField env (.mk f t false none) kvs = .ok (f, .none) ∧
      encodeFields [(f, PyVal.none)] = [] ∧
      decodeField env (.mk f t false none) (encodeFields [(f, PyVal.none)]) = .ok (f, .none) := by
  simp [decodeField, h, encodeFields, lookup]

/-! ## non-vacuity: a concrete schema with every ingredient -/

/-- a toy library environment: every string is its own normal form, `"?"` is refused -/
def envEx : Env where
  norm := fun _ s => if s = ['?'] then none else some s
  normFloat := fun t => some t

/-- nested schema (forbids extras) -/
def refTy : Ty := .model "Ref".toList .forbid [.mk "id".toList (.cstr .nes) true none] []

/-- a schema with strict primitives incl. falsy values, constrained string, Literal,
Optional, Union, List, Set, nested schema, opaque values, a default, two constants -/
def thingTy : Ty :=
  .model "Thing".toList .allow
    [ .mk "b".toList .bool true none,
      .mk "i".toList .int true none,
      .mk "x".toList .float true none,
      .mk "s".toList (.opt .str) false none,
      .mk "m".toList (.opt (.cstr .mime)) false none,
      .mk "l".toList (.lit [.str "a".toList, .int 1]) true none,
      .mk "u".toList (.opt (.union [refTy, .cstr .nes])) false none,
      .mk "li".toList (.list .int) true none,
      .mk "se".toList (.set (.cstr .hash)) true none,
      .mk "d".toList (.opt (.opq .dur)) false none,
      .mk "q".toList (.opq .qty) true none,
      .mk "n".toList .int false (some (.int 5)) ]
    [("@context".toList, .str "https://schema.org".toList), ("@type".toList, .str "Thing".toList)]

def thingVal : PyVal :=
  .obj "Thing".toList
    [ ("b".toList, .bool false), ("i".toList, .int 0), ("x".toList, .float "0.0".toList),
      ("s".toList, .none), ("m".toList, .str "a/b;c".toList), ("l".toList, .int 1),
      ("u".toList, .obj "Ref".toList [("id".toList, .str "r1".toList)] [] []),
      ("li".toList, .list []), ("se".toList, .set [.str "ab12".toList, .str "0".toList]),
      ("d".toList, .none), ("q".toList, .opq .qty "5 meter".toList), ("n".toList, .int 5) ]
    [("@context".toList, .str "https://schema.org".toList), ("@type".toList, .str "Thing".toList)]
    [("zz".toList, .arr [.int 1, .null])]

/-- the hypotheses of `roundtrip` are satisfiable by a rich value … -/
example : decode envEx thingTy (encode thingVal) = .ok thingVal := by rfl

/-- … which is what the parser produces from an input with omitted optionals, a constant
supplied with another value and an explicit falsy value -/
example : decode envEx thingTy (.obj
    [ ("b".toList, .bool false), ("i".toList, .int 0), ("x".toList, .float "0.0".toList),
      ("m".toList, .str "a/b;c".toList), ("l".toList, .bool true), ("@type".toList, .str "Other".toList),
      ("u".toList, .obj [("id".toList, .str "r1".toList)]), ("li".toList, .arr []),
      ("se".toList, .arr [.str "ab12".toList, .str "0".toList, .str "ab12".toList]),
      ("q".toList, .str "5 meter".toList), ("zz".toList, .arr [.int 1, .null]) ]) = .ok thingVal := by rfl

example : Valid envEx (.opt (.list (.union [.int, .cstr .nes]))) (.list [.int 0, .str "x".toList]) := by
  simp only [Valid]
  right
  refine ⟨_, rfl, ?_⟩
  intro x hx
  simp only [List.mem_cons, List.not_mem_nil, or_false] at hx
  rcases hx with rfl | rfl
  · simp [ValidU, Valid]
  · simp only [ValidU, Valid]
    right
    refine ⟨⟨.type, by rfl, by decide⟩, ?_⟩
    left
    exact ⟨_, rfl, by decide⟩

/-- the documented exclusion: an explicit `None` for a field with a non-`None` default reads
back as the default (so such values are not `Valid`: `ValidF`) -/
theorem explicit_none_reads_default :
    let t : Ty := .model "D".toList .allow [.mk "n".toList (.opt .int) false (some (.int 5))] []
    decode envEx t (.obj [("n".toList, .null)]) = .ok (.obj "D".toList [("n".toList, .none)] [] []) ∧
    decode envEx t (encode (.obj "D".toList [("n".toList, .none)] [] []))
      = .ok (.obj "D".toList [("n".toList, .int 5)] [] []) := ⟨by rfl, by rfl⟩

/-- why the library hypothesis is needed: with an encoder that loses the unit
("5 meter" ↦ "5", which the parser reads as the dimensionless "5 dimensionless") the round
trip fails -/
theorem roundtrip_needs_unit :
    let env : Env := { norm := fun _ s => if s = "5 meter".toList then some "5".toList
                                            else if s = "5".toList then some "5 dimensionless".toList else some s,
                       normFloat := fun t => some t }
    ∃ v j, decode env (.opq .qty) j = .ok v ∧ decode env (.opq .qty) (encode v) ≠ .ok v :=
  ⟨.opq .qty "5".toList, .str "5 meter".toList, by rfl, by
    have : decode { norm := fun _ s => if s = "5 meter".toList then some "5".toList
                                            else if s = "5".toList then some "5 dimensionless".toList else some s,
                    normFloat := fun t => some t } (.opq .qty) (encode (.opq .qty "5".toList))
        = .ok (.opq .qty "5 dimensionless".toList) := by rfl
    rw [this]
    intro h
    injection h with h
    injection h with _ h
    revert h
    decide⟩

/-- the pinned tree (before `fix: SchemaMagic.__init__ chains to the encoder metaclass`)
could not serialise any instance holding a duration, unit or quantity -/
theorem legacy_opaque_not_serialisable (k : Opq) (s : Str) (n : Str) (f : Str)
    (cs xs : List (Str × Json)) :
    Legacy.encode? (.obj n [(f, .opq k s)] cs xs) = none := by
  simp [Legacy.encode?, Legacy.encodeFields?]

end MetadorModel.C12
