import MetadorModel.Model.Merge
import MetadorModel.Proofs.Listing
/-!
# C10 — Patches built on a stub apply to the real record with the same result

Theorems about `MetadorModel.Merge` (model of `IH5MFRecord.create_stub`, `init_stub_base`).
Part 1 (this section): the user block of the stub makes every patch created on top of the stub
the next patch of the real record. Part 2 (tree level) is in the section `tree` below.
-/
namespace MetadorModel.C10
open MetadorModel.Merge

/-- the stub is a base container with the identity of the newest real container -/
theorem stub_identity (ubs : List UB) (h : Nat) (last s : UB)
    (hl : ubs.getLast? = some last) (hs : stubUB ubs h = some s) :
    s.record = last.record ∧ s.index = last.index ∧ s.patch = last.patch ∧ s.prev = none := by
  simp only [stubUB, hl, Option.some.injEq] at hs
  subst hs
  exact ⟨rfl, rfl, rfl, rfl⟩

/-- **a patch created on top of the stub is accepted as the next patch of the real record**:
its block follows the newest real block (same record, index + 1, `prev_patch` = real newest
patch uuid) -/
theorem stub_patch_accepted (ubs : List UB) (h fresh : Nat) (last s : UB)
    (hl : ubs.getLast? = some last) (hs : stubUB ubs h = some s) :
    follows (nextUB s fresh) last = true ∧ (nextUB s fresh).index = last.index + 1 := by
  obtain ⟨h1, h2, h3, _⟩ := stub_identity ubs h last s hl hs
  simp [follows, nextUB, h1, h2, h3]

/-- and it is exactly the block the real record would have created itself, up to the fresh uuid -/
theorem stub_patch_same_block (ubs : List UB) (h fresh : Nat) (last s : UB)
    (hl : ubs.getLast? = some last) (hs : stubUB ubs h = some s) :
    nextUB s fresh = nextUB last fresh := by
  obtain ⟨h1, h2, h3, _⟩ := stub_identity ubs h last s hl hs
  simp [nextUB, h1, h2, h3]

example : stubUB [⟨7, 0, 100, none, some 1⟩, ⟨7, 1, 101, some 100, some 2⟩] 9 = some ⟨7, 1, 101, none, some 9⟩ := by
  decide

/-! ## tree level: the stub has the skeleton of the real record and none of its data -/
section tree
open MetadorModel.Tree MetadorModel.Overlay MetadorModel.Single MetadorModel.Listing
variable {V : Type}

/-- same hypothesis as in C05: the view of the real record is a tree listed parents-first -/
def ViewReplayable (r : Rec V) : Prop := Replayable (Overlay.listing r)

/-- kind of a stub node: groups stay groups, every dataset holds the `empty` value -/
def emptyKind (empty : V) : NKind V → NKind V
  | .group => .group
  | .data _ => .data empty

/-- **the stub exposes exactly the paths, node kinds and attribute names of the real record and
none of its data**: at every path below the root the stub shows a node iff the real record
does, of the same kind (datasets hold `empty`), with an attribute `k` iff the real node has
one (its value is `empty`). -/
theorem stub_skeleton (empty : V) (r s : Rec V) (h : ViewReplayable r)
    (hs : stubCont empty r = .ok s) (q : Path) (hq : q ≠ []) :
    viewKind s q = (viewKind r q).map (emptyKind empty) ∧
    ∀ k, viewAttr s q k = (viewAttr r q k).map (fun _ => empty) := by
  have hrep := replayable_stub empty (Overlay.listing r) h
  have hkind := materialise_kind _ hrep s hs q hq
  rw [nonRoot_stub, aget_map_val, aget_nonRoot _ q hq, aget_listing r q hq] at hkind
  refine ⟨?_, fun k => ?_⟩
  · rw [hkind]
    cases hv : viewKind r q with
    | none => rfl
    | some kd => cases kd <;> rfl
  · have hnd : ∀ e ∈ stubListing empty (Overlay.listing r), (e.2.2.map (·.1)).Nodup := by
      intro e he
      simp only [stubListing_eq, List.mem_map] at he
      obtain ⟨e0, he0, rfl⟩ := he
      have := listing_attrs_nodup r e0 he0
      simpa [emptied, List.map_map, Function.comp_def] using this
    have hattr := materialise_attr _ hrep s hs hnd q hq k
    rw [nonRoot_stub, aget_map_val, aget_nonRoot _ q hq, aget_listing r q hq] at hattr
    rw [hattr]
    cases hv : viewKind r q with
    | none => simp [viewAttr_none_of_kind_none r q hq k hv]
    | some kd =>
      simp only [Option.map_some, Option.bind_some, emptied]
      rw [aget_map_val (fun _ => empty) (attrsList r q) k, aget_attrsList]

/-- the stub is a single container (it can only serve as a base for patches) -/
theorem stub_single (empty : V) (r s : Rec V) (h : ViewReplayable r) (hs : stubCont empty r = .ok s) :
    s.length = 1 := by
  obtain ⟨heq, _⟩ := materialise_eq _ (replayable_stub empty (Overlay.listing r) h)
  rw [stubCont, heq] at hs
  cases hs; rfl

/-- non-vacuity: a three-container record (set, attributes incl. a root attribute, delete,
re-create in later patches) satisfies the hypothesis of the tree-level theorems -/
def exRec : Rec Nat :=
  (W.run Rec.init [.set ["a", "x"] 1, .sattr ["a"] "k" 5, .patch, .del ["a", "x"], .grp ["b"],
    .sattr [] "r" 9, .patch, .set ["a", "y"] 2]).1

example : exRec.length = 3 ∧ ViewReplayable exRec :=
  ⟨by decide +kernel, replayableB_sound _ (by decide +kernel)⟩

end tree

end MetadorModel.C10
