import MetadorModel.Model.Merge
/-!
# C10 — Patches built on a stub apply to the real record with the same result

Theorems about `MetadorModel.Merge` (model of `IH5MFRecord.create_stub`, `init_stub_base`).
Part 1 (this section): the user block of the stub makes every patch created on top of the stub
the next patch of the real record. Part 2 (tree level) is in the section `tree` below.
-/
namespace MetadorModel.C10
open MetadorModel.Merge

/-- the stub is a base container with the identity of the newest real container -/
theorem stub_identity (ubs : List UB) (h : Nat) (last s : UB)
    (hl : ubs.getLast? = some last) (hs : stubUB ubs h = some s) :
    s.record = last.record ∧ s.index = last.index ∧ s.patch = last.patch ∧ s.prev = none := by
  simp only [stubUB, hl, Option.some.injEq] at hs
  subst hs
  exact ⟨rfl, rfl, rfl, rfl⟩

/-- **a patch created on top of the stub is accepted as the next patch of the real record**:
its block follows the newest real block (same record, index + 1, `prev_patch` = real newest
patch uuid) -/
theorem stub_patch_accepted (ubs : List UB) (h fresh : Nat) (last s : UB)
    (hl : ubs.getLast? = some last) (hs : stubUB ubs h = some s) :
    follows (nextUB s fresh) last = true ∧ (nextUB s fresh).index = last.index + 1 := by
  obtain ⟨h1, h2, h3, _⟩ := stub_identity ubs h last s hl hs
  simp [follows, nextUB, h1, h2, h3]

/-- and it is exactly the block the real record would have created itself, up to the fresh uuid -/
theorem stub_patch_same_block (ubs : List UB) (h fresh : Nat) (last s : UB)
    (hl : ubs.getLast? = some last) (hs : stubUB ubs h = some s) :
    nextUB s fresh = nextUB last fresh := by
  obtain ⟨h1, h2, h3, _⟩ := stub_identity ubs h last s hl hs
  simp [nextUB, h1, h2, h3]

example : stubUB [⟨7, 0, 100, none, some 1⟩, ⟨7, 1, 101, some 100, some 2⟩] 9 = some ⟨7, 1, 101, none, some 9⟩ := by
  decide

end MetadorModel.C10
