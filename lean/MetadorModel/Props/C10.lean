import MetadorModel.Model.Merge
import MetadorModel.Proofs.Listing
import MetadorModel.Proofs.StubFollow
import MetadorModel.Proofs.OverlayWriteStep
/-!
# C10 — Patches built on a stub apply to the real record with the same result

Theorems about `MetadorModel.Merge` (model of `IH5MFRecord.create_stub`, `init_stub_base`).
Part 1 (this section): the user block of the stub makes every patch created on top of the stub
the next patch of the real record. Part 2 (tree level) is in the section `tree` below.
-/
namespace MetadorModel.C10
open MetadorModel.Merge

/-- the stub is a base container with the identity of the newest real container -/
theorem stub_identity (ubs : List UB) (h : Nat) (last s : UB)
    (hl : ubs.getLast? = some last) (hs : stubUB ubs h = some s) :
    s.record = last.record ∧ s.index = last.index ∧ s.patch = last.patch ∧ s.prev = none := by
  simp only [stubUB, hl, Option.some.injEq] at hs
  subst hs
  exact ⟨rfl, rfl, rfl, rfl⟩

/-- **a patch created on top of the stub is accepted as the next patch of the real record**:
its block follows the newest real block (same record, index + 1, `prev_patch` = real newest
patch uuid) -/
theorem stub_patch_accepted (ubs : List UB) (h fresh : Nat) (last s : UB)
    (hl : ubs.getLast? = some last) (hs : stubUB ubs h = some s) :
    follows (nextUB s fresh) last = true ∧ (nextUB s fresh).index = last.index + 1 := by
  obtain ⟨h1, h2, h3, _⟩ := stub_identity ubs h last s hl hs
  simp [follows, nextUB, h1, h2, h3]

/-- and it is exactly the block the real record would have created itself, up to the fresh uuid -/
theorem stub_patch_same_block (ubs : List UB) (h fresh : Nat) (last s : UB)
    (hl : ubs.getLast? = some last) (hs : stubUB ubs h = some s) :
    nextUB s fresh = nextUB last fresh := by
  obtain ⟨h1, h2, h3, _⟩ := stub_identity ubs h last s hl hs
  simp [nextUB, h1, h2, h3]

example : stubUB [⟨7, 0, 100, none, some 1⟩, ⟨7, 1, 101, some 100, some 2⟩] 9 = some ⟨7, 1, 101, none, some 9⟩ := by
  decide

/-- **a stub cannot be merged**: the guard of `merge_files` refuses every file set whose base
container is a stub — alone or with any number of patch containers on top (whose blocks are not
marked), with or without an uncommitted container, however the set was opened (the guard looks
at the user blocks of ALL containers) -/
theorem stub_merge_refused (patchFlags : List Bool) (w : Bool) :
    mergeGuard (true :: patchFlags) w = .error .stub := by
  simp [mergeGuard]

example : mergeGuard [true] false = .error .stub ∧ mergeGuard [true, false, false, false] false = .error .stub :=
  ⟨rfl, rfl⟩

/-! ## tree level: the stub has the skeleton of the real record and none of its data -/
section tree
open MetadorModel.Tree MetadorModel.Overlay MetadorModel.Single MetadorModel.Listing
variable {V : Type}

/-- same hypothesis as in C05: the view of the real record is a tree listed parents-first -/
def ViewReplayable (r : Rec V) : Prop := Replayable (Overlay.listing r)

/-- kind of a stub node: groups stay groups, every dataset holds the `empty` value -/
def emptyKind (empty : V) : NKind V → NKind V
  | .group => .group
  | .data _ => .data empty

/-- **the stub exposes exactly the paths, node kinds and attribute names of the real record and
none of its data**: at every path below the root the stub shows a node iff the real record
does, of the same kind (datasets hold `empty`), with an attribute `k` iff the real node has
one (its value is `empty`). -/
theorem stub_skeleton (empty : V) (r s : Rec V) (h : ViewReplayable r)
    (hs : stubCont empty r = .ok s) (q : Path) (hq : q ≠ []) :
    viewKind s q = (viewKind r q).map (emptyKind empty) ∧
    ∀ k, viewAttr s q k = (viewAttr r q k).map (fun _ => empty) := by
  have hrep := replayable_stub empty (Overlay.listing r) h
  have hkind := materialise_kind _ hrep s hs q hq
  rw [nonRoot_stub, aget_map_val, aget_nonRoot _ q hq, aget_listing r q hq] at hkind
  refine ⟨?_, fun k => ?_⟩
  · rw [hkind]
    cases hv : viewKind r q with
    | none => rfl
    | some kd => cases kd <;> rfl
  · have hnd : ∀ e ∈ stubListing empty (Overlay.listing r), (e.2.2.map (·.1)).Nodup := by
      intro e he
      simp only [stubListing_eq, List.mem_map] at he
      obtain ⟨e0, he0, rfl⟩ := he
      have := listing_attrs_nodup r e0 he0
      simpa [emptied, List.map_map, Function.comp_def] using this
    have hattr := materialise_attr _ hrep s hs hnd q hq k
    rw [nonRoot_stub, aget_map_val, aget_nonRoot _ q hq, aget_listing r q hq] at hattr
    rw [hattr]
    cases hv : viewKind r q with
    | none => simp [viewAttr_none_of_kind_none r q hq k hv]
    | some kd =>
      simp only [Option.map_some, Option.bind_some, emptied]
      rw [aget_map_val (fun _ => empty) (attrsList r q) k, aget_attrsList]

/-- the stub is a single container (it can only serve as a base for patches) -/
theorem stub_single (empty : V) (r s : Rec V) (h : ViewReplayable r) (hs : stubCont empty r = .ok s) :
    s.length = 1 := by
  obtain ⟨heq, _⟩ := materialise_eq _ (replayable_stub empty (Overlay.listing r) h)
  rw [stubCont, heq] at hs
  cases hs; rfl

/-- non-vacuity: a three-container record (set, attributes incl. a root attribute, delete,
re-create in later patches) satisfies the hypothesis of the tree-level theorems -/
def exRec : Rec Nat :=
  (W.run Rec.init [.set ["a", "x"] 1, .sattr ["a"] "k" 5, .patch, .del ["a", "x"], .grp ["b"],
    .sattr [] "r" 9, .patch, .set ["a", "y"] 2]).1

example : exRec.length = 3 ∧ ViewReplayable exRec :=
  ⟨by decide +kernel, replayableB_sound _ (by decide +kernel)⟩

/-! ### existence-based updates: the stub and the real record cannot be told apart -/
open MetadorModel.Follow

/-- the stub shows the skeleton of the real record: same paths, group/dataset tags and attribute
names at every path including the root -/
theorem stub_sameSkel (empty : V) (r s : Rec V) (h : ViewReplayable r) (hs : stubCont empty r = .ok s) :
    SameSkel r s := by
  intro q
  by_cases hq : q = []
  · subst hq
    refine ⟨rfl, fun k => ?_⟩
    rw [stub_root_attr empty r s h hs k]
    cases viewAttr r [] k <;> rfl
  · obtain ⟨h1, h2⟩ := stub_skeleton empty r s h hs q hq
    refine ⟨?_, fun k => ?_⟩
    · rw [h1]
      cases hv : viewKind r q with
      | none => rfl
      | some kd => cases kd <;> rfl
    · rw [h2 k]
      cases viewAttr r q k <;> rfl

/-- the stub is one well-formed container: it satisfies the record invariant on its own -/
theorem stub_inv (empty : V) (r s : Rec V) (h : ViewReplayable r) (hs : stubCont empty r = .ok s) : Inv s := by
  obtain ⟨c, rfl, g, hroot⟩ := materialise_shape _ (replayable_stub empty _ h) s hs
  exact inv_single c g hroot

/-- the stub mentions no path (other than the root) that the real record never mentions -/
theorem stub_mentions (empty : V) (r s : Rec V) (h : ViewReplayable r) (hs : stubCont empty r = .ok s) :
    MentionSub r s := by
  obtain ⟨c, rfl, g, _⟩ := materialise_shape _ (replayable_stub empty _ h) s hs
  refine mentionSub_single c g r (fun q hq hne => ?_)
  rw [(stub_skeleton empty r [c] h hs q hq).1] at hne
  intro hn
  rw [hn] at hne
  exact hne rfl

/-- **the existence-based write paths are determined by the skeleton.** `p` is the newest
(patch) container, sitting on top of the older containers `r₁` resp. `r₂` (a valid continuation
of both); `r₁` and `r₂` show the same paths, node kinds and attribute names — *not* the same
values. Then `create_dataset`, `create_group`, `__delitem__`, `attrs[k] = v`, `del attrs[k]`
have the same outcome `res` on both records — the same error, or success with the same new
newest container — and leave the older containers as they are. (`copy`/`move` are excluded:
they read values.) -/
theorem existence_determined (p : Cont V) (r₁ r₂ : Rec V) (op : Op V) (hop : isEx op = true)
    (hwf : WF p) (h1 : InvLast p r₁) (h2 : InvLast p r₂) (hs : SameSkel r₁ r₂)
    (he : r₁.isEmpty = r₂.isEmpty) :
    ∃ res : Except Err (Cont V),
      W.step (p :: r₁) op = onTop r₁ res ∧ W.step (p :: r₂) op = onTop r₂ res := by
  refine ⟨T.step (obsOf p r₁) p op, step_top p r₁ op hop, ?_⟩
  rw [obsOf_congr p r₁ r₂ hwf h1 h2 hs he]
  exact step_top p r₂ op hop

/-- spelled out, success: same new patch container, older containers untouched -/
theorem existence_determined_ok (p : Cont V) (r₁ r₂ R₁ : Rec V) (op : Op V) (hop : isEx op = true)
    (hwf : WF p) (h1 : InvLast p r₁) (h2 : InvLast p r₂) (hs : SameSkel r₁ r₂)
    (he : r₁.isEmpty = r₂.isEmpty) (hok : W.step (p :: r₁) op = .ok R₁) :
    ∃ p', R₁ = p' :: r₁ ∧ W.step (p :: r₂) op = .ok (p' :: r₂) := by
  obtain ⟨res, e1, e2⟩ := existence_determined p r₁ r₂ op hop hwf h1 h2 hs he
  cases res with
  | error e => rw [e1] at hok; cases hok
  | ok p' =>
    rw [e1] at hok
    simp only [onTop, Except.ok.injEq] at hok
    exact ⟨p', hok.symm, e2⟩

/-- spelled out, failure: the same exception -/
theorem existence_determined_error (p : Cont V) (r₁ r₂ : Rec V) (op : Op V) (e : Err) (hop : isEx op = true)
    (hwf : WF p) (h1 : InvLast p r₁) (h2 : InvLast p r₂) (hs : SameSkel r₁ r₂)
    (he : r₁.isEmpty = r₂.isEmpty) (herr : W.step (p :: r₁) op = .error e) :
    W.step (p :: r₂) op = .error e := by
  obtain ⟨res, e1, e2⟩ := existence_determined p r₁ r₂ op hop hwf h1 h2 hs he
  cases res with
  | ok p' => rw [e1] at herr; cases herr
  | error e' =>
    rw [e1] at herr
    simp only [onTop, Except.error.injEq] at herr
    rw [e2, ← herr]; rfl

/-- **Patches built on the stub are the patches the real record would have built itself.**
`ops` is an update made of existence-based operations with any number of patch boundaries
(`commit_patch; create_patch`), performed in fresh patch containers on top of the stub `s` and,
directly, on top of the real record `r`. Both runs report the same outcome for every operation
and create the same list of patch containers `ps` (newest first); neither touches the older
containers. So the record obtained by placing the patches made on the stub next to the real
containers, `ps ++ r`, *is* the record obtained by the direct update — the same containers, hence
the same tree, values included. It satisfies the record invariant, and the patched stub again has
the skeleton of the patched real record.

Hypothesis `InvAlong (newPatch r) ops`: the direct update of the *real* record keeps the record
invariant `Inv` of C01 at every step. This is a property of the write paths alone (preservation
of `Inv` by `W.step`, part of C01's `step_refines`); `stub_patch_same_result_of_step_inv` below
discharges it from that lemma. Nothing is assumed about the run on the stub. -/
theorem stub_patch_same_result_partial (empty : V) (r s : Rec V) (h : ViewReplayable r)
    (hs : stubCont empty r = .ok s) (hne : r ≠ []) (ops : List (Op V))
    (hex : ∀ op ∈ ops, isExP op = true) (hinv : InvAlong (newPatch r) ops) :
    ∃ ps outs, ps ≠ [] ∧
      W.run (newPatch s) ops = (ps ++ s, outs) ∧ W.run (newPatch r) ops = (ps ++ r, outs) ∧
      Inv (ps ++ r) ∧ Inv (ps ++ s) ∧ SameSkel (ps ++ r) (ps ++ s) := by
  have hsk := stub_sameSkel empty r s h hs
  have hm := stub_mentions empty r s h hs
  have he : r.isEmpty = s.isEmpty := by
    obtain ⟨c, rfl, _, _⟩ := materialise_shape _ (replayable_stub empty _ h) s hs
    cases r with
    | nil => exact absurd rfl hne
    | cons a r => rfl
  obtain ⟨ps, outs, e1, e2, h3, h4, h5⟩ := run_same_patches ops r s Cont.init hsk hm he hex hinv
  exact ⟨ps, outs, h3, e2, e1, h4, inv_append ps s h5 (stub_inv empty r s h hs),
    (follow_same_skel r s hsk hm ps (invOver_of_inv ps r h4)).2⟩

/-- the full statement of the clause: for every real record satisfying the record invariant,
without the assumption on the direct run -/
def stub_patch_same_result_statement (V : Type) : Prop :=
  ∀ (empty : V) (r s : Rec V) (ops : List (Op V)), ViewReplayable r → stubCont empty r = .ok s →
    r ≠ [] → Inv r → (∀ op ∈ ops, isExP op = true) →
    ∃ ps outs, ps ≠ [] ∧
      W.run (newPatch s) ops = (ps ++ s, outs) ∧ W.run (newPatch r) ops = (ps ++ r, outs) ∧
      Inv (ps ++ r) ∧ Inv (ps ++ s) ∧ SameSkel (ps ++ r) (ps ++ s)

/-- the only thing missing for the full statement is preservation of the record invariant by
the basic write paths (C01 write side) -/
theorem stub_patch_same_result_of_step_inv
    (hstep : ∀ (R R' : Rec V) (op : Op V), isExP op = true → Inv R → W.step R op = .ok R' → Inv R') :
    stub_patch_same_result_statement V := by
  intro empty r s ops h hs hne hinv hex
  exact stub_patch_same_result_partial empty r s h hs hne ops hex
    (invAlong_of_step_inv hstep ops (newPatch r) hex ⟨wf_init, invLast_init r, hinv⟩)

theorem isBasic_of_isExP (op : Op V) (h : isExP op = true) : op.isBasic = true := by
  cases op <;> first | rfl | cases h

/-- **Patches built on the stub apply to the real record with the same result** — full
statement, no assumption on either run: the preservation of the record invariant by the basic
write paths is `Overlay.step_inv_basic` (C01 write side). For every real record `r` satisfying
the record invariant, its stub `s`, and every update `ops` made of existence-based operations
and patch boundaries: the run on the stub and the direct run on the real record report the same
outcomes and create the same patch containers `ps`; `ps ++ r` (the stub-made patches placed next
to the real containers) is the directly updated real record. -/
theorem stub_patch_same_result (empty : V) (r s : Rec V) (ops : List (Op V)) (h : ViewReplayable r)
    (hs : stubCont empty r = .ok s) (hne : r ≠ []) (hinv : Inv r)
    (hex : ∀ op ∈ ops, isExP op = true) :
    ∃ ps outs, ps ≠ [] ∧
      W.run (newPatch s) ops = (ps ++ s, outs) ∧ W.run (newPatch r) ops = (ps ++ r, outs) ∧
      Inv (ps ++ r) ∧ Inv (ps ++ s) ∧ SameSkel (ps ++ r) (ps ++ s) :=
  stub_patch_same_result_of_step_inv
    (fun R R' op hb hI hstep => (step_inv_basic R R' op (isBasic_of_isExP op hb) hI hstep).1)
    empty r s ops h hs hne hinv hex

theorem stub_patch_same_result_holds : stub_patch_same_result_statement V :=
  fun empty r s ops h hs hne hinv hex => stub_patch_same_result empty r s ops h hs hne hinv hex

example : Inv exRec := invB_sound _ (by decide +kernel)

/-- consequence for the user: at every path the real record patched with the stub-made patches
shows the same kind/value and attributes as the directly updated real record -/
theorem stub_patch_same_view (empty : V) (r s : Rec V) (h : ViewReplayable r)
    (hs : stubCont empty r = .ok s) (hne : r ≠ []) (ops : List (Op V))
    (hex : ∀ op ∈ ops, isExP op = true) (hinv : Inv r) :
    ∃ ps, (W.run (newPatch s) ops).1 = ps ++ s ∧ (W.run (newPatch s) ops).2 = (W.run (newPatch r) ops).2 ∧
      ∀ q, viewKind (ps ++ r) q = viewKind (W.run (newPatch r) ops).1 q ∧
        ∀ k, viewAttr (ps ++ r) q k = viewAttr (W.run (newPatch r) ops).1 q k := by
  obtain ⟨ps, outs, _, e1, e2, _⟩ := stub_patch_same_result empty r s ops h hs hne hinv hex
  exact ⟨ps, by rw [e1], by rw [e1, e2], fun q => by rw [e2]; exact ⟨rfl, fun _ => rfl⟩⟩

/-- non-vacuity: the three-container record `exRec`, its stub, and an update in two patches
(create group / dataset, delete, set and delete attributes, two refused operations, nested
`create_group` with missing ancestors); the hypothesis on the direct run holds, and evaluating
both runs shows the same two patch containers and outcomes. -/
def exOps : List (Op Nat) :=
  [.grp ["c"], .set ["a", "x"] 5, .del ["b"], .sattr ["a"] "k" 8, .dattr ["a"] "k",
   .set ["a", "y", "t"] 3, .dattr ["a"] "zz", .patch, .set ["c", "d"] 1, .del ["a", "y"],
   .grp ["q", "w", "e"]]

example : (∀ op ∈ exOps, isExP op = true) ∧ exRec ≠ [] ∧ InvAlong (newPatch exRec) exOps :=
  ⟨by decide, by decide +kernel, invAlongB_sound _ _ (by decide +kernel)⟩

example : ∃ s, stubCont 0 exRec = .ok s ∧
    (W.run (newPatch s) exOps).1.take 2 = (W.run (newPatch exRec) exOps).1.take 2 ∧
    (W.run (newPatch s) exOps).1.drop 2 = s ∧ (W.run (newPatch exRec) exOps).1.drop 2 = exRec ∧
    (W.run (newPatch s) exOps).2 = [true, true, true, true, true, false, false, true, true, true] ∧
    (W.run (newPatch exRec) exOps).2 = [true, true, true, true, true, false, false, true, true, true] :=
  ⟨_, (materialise_eq _ (replayable_stub 0 _ (replayableB_sound _ (by decide +kernel)))).1,
    by decide +kernel⟩

/-- non-vacuity of `existence_determined`: a patch container in the middle of that update on top
of the real record and of its stub -/
def exMid : Cont Nat := ((W.run (newPatch exRec) (exOps.take 4)).1).headD []

example : ∃ s, stubCont 0 exRec = .ok s ∧ WF exMid ∧ InvLast exMid exRec ∧ InvLast exMid s ∧
    exRec.isEmpty = s.isEmpty ∧ exMid.length = 5 :=
  ⟨_, (materialise_eq _ (replayable_stub 0 _ (replayableB_sound _ (by decide +kernel)))).1,
    wfB_sound _ (by decide +kernel), invLastB_sound _ _ (by decide +kernel),
    invLastB_sound _ _ (by decide +kernel), by decide +kernel, by decide +kernel⟩

end tree

end MetadorModel.C10
