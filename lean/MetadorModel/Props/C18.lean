import MetadorModel.Proofs.DiffOrder
import MetadorModel.Proofs.DiffGet
/-!
# C18 — Directory diffs are exact and safely ordered

Property theorems about `MetadorModel.Diff` (model of `DiffNode.compare / nodes / status`,
`DirDiff.get`). Helper lemmas live in `Proofs/Diff*.lean`.

A directory snapshot is a `DirTree` whose directories are key-sorted association lists (`wf`):
the canonical form of a nested Python dict (unique keys, no order). `lookup t p` is the entry
of `t` at the relative path `p` (`none` when there is none); two snapshots are equal iff all
their lookups agree.
-/
namespace MetadorModel.C18
open MetadorModel MetadorModel.Diff

/-! ## no difference is reported exactly for equal snapshots -/

theorem compare_none_iff (a b : DirTree) (ha : a.wf = true) (hb : b.wf = true) :
    compare a b = none ↔ a = b :=
  cmpT_none_iff [] a b ha hb

/-- the same, with equality spelled out path by path -/
theorem compare_none_iff_lookup (a b : DirTree) (ha : a.wf = true) (hb : b.wf = true) :
    compare a b = none ↔ ∀ p, lookup a p = lookup b p := by
  rw [compare_none_iff a b ha hb]
  constructor
  · intro h p; rw [h]
  · intro h
    have := h []
    simpa [lookup] using this

/-! ## the reported paths are exactly the changed ones, with status and both entries -/

theorem listing_eq (a b : DirTree) : nodesO (compare a b) = N (some a) (some b) := rfl

theorem reported_exact (a b : DirTree) (ha : a.wf = true) (hb : b.wf = true) :
    (∀ p, (∃ r ∈ nodesO (compare a b), r.path = p) ↔ lookup a p ≠ lookup b p) ∧
    (∀ r ∈ nodesO (compare a b),
      r.prev = lookup a r.path ∧ r.curr = lookup b r.path ∧
      (r.status = .added ↔ lookup a r.path = none) ∧
      (r.status = .removed ↔ lookup b r.path = none) ∧
      (r.status = .modified ↔ (lookup a r.path).isSome = true ∧ (lookup b r.path).isSome = true)) := by
  have h := reported _ (some a) (some b) ha hb (Nat.le_refl _)
  rw [listing_eq]
  refine ⟨fun p => by simpa [lookupO] using h.2 p, ?_⟩
  intro r hr
  obtain ⟨h1, h2⟩ := h.1 r hr
  simp only [lookupO] at h1 h2
  have hne : lookup a r.path ≠ lookup b r.path := by
    have := (h.2 r.path).mp ⟨r, hr, rfl⟩
    simpa [lookupO] using this
  refine ⟨h1, h2, ?_⟩
  obtain ⟨path, pv, cv⟩ := r
  simp only at h1 h2 hne ⊢
  generalize lookup a path = la at *
  generalize lookup b path = lb at *
  subst h1 h2
  cases pv <;> cases cv <;> simp_all [Rec.status]

/-- each changed path is listed once: two listed records with the same path are the same record -/
theorem reported_once (a b : DirTree) (ha : a.wf = true) (hb : b.wf = true) (r r' : Rec)
    (hr : r ∈ nodesO (compare a b)) (hr' : r' ∈ nodesO (compare a b)) (hp : r.path = r'.path) : r = r' := by
  have h := (reported_exact a b ha hb).2
  obtain ⟨h1, h2, _⟩ := h r hr
  obtain ⟨h1', h2', _⟩ := h r' hr'
  obtain ⟨path, pv, cv⟩ := r
  obtain ⟨path', pv', cv'⟩ := r'
  simp only at hp h1 h2 h1' h2'
  subst hp
  rw [h1, h2, h1', h2']

/-! ## processing the listing in order is safe and turns the old snapshot into the new one -/

/-- `applyAll` fails (`none`) as soon as a step would remove a non-empty directory or a missing
entry, add below a missing parent / below a file / over an existing entry, or treat a
non-directory as changed directory. It never fails on the listing of a comparison, and the
result is the new snapshot. (Snapshots are directories: `DirHashsums` is a dict.) -/
theorem order_safe (es fs : Entries) (ha : (DirTree.dir es).wf = true) (hb : (DirTree.dir fs).wf = true) :
    applyAll (.dir es) (nodesO (compare (.dir es) (.dir fs))) = some (.dir fs) :=
  applyAll_compare es fs ha hb

/-! ## lookup by path agrees with the listing -/

theorem get_agrees (a b : DirTree) (ha : a.wf = true) (hb : b.wf = true) (p : Path) :
    (get (compare a b) p).map DNode.rec' =
      (nodesO (compare a b)).find? (fun r => decide (r.path = p)) := by
  have hs := getSpec p [] (some a) (some b) ha hb
  have hrep := reported_exact a b ha hb
  have hget : get (compare a b) p = getO (compareAt [] (some a) (some b)) [] p := by
    have hc : compareAt [] (some a) (some b) = Diff.compare a b := rfl
    rw [hc]
    cases Diff.compare a b <;> rfl
  rw [hget]
  simp only [lookupO, List.nil_append] at hs
  by_cases h : lookup a p = lookup b p
  · rw [hs.1 h]
    symm
    rw [Option.map_none, List.find?_eq_none]
    intro r hr hd
    have hp : r.path = p := by simpa using hd
    exact ((hrep.1 p).mp ⟨r, hr, hp⟩) h
  · rw [hs.2 h]
    cases hf : (nodesO (compare a b)).find? (fun r => decide (r.path = p)) with
    | none =>
      obtain ⟨r, hr, hp⟩ := (hrep.1 p).mpr h
      rw [List.find?_eq_none] at hf
      exact absurd (by simpa using hp) (hf r hr)
    | some r0 =>
      have hm : r0 ∈ nodesO (compare a b) := List.mem_of_find?_eq_some hf
      have hp : r0.path = p := by simpa using List.find?_some hf
      obtain ⟨h1, h2, _⟩ := hrep.2 r0 hm
      obtain ⟨path, pv, cv⟩ := r0
      simp only at hp h1 h2
      subst hp
      rw [h1, h2]

/-! ## further consequences: emptiness of the listing, reversal, undo -/

/-- `DirDiff.is_empty` (no root node) and "the listing has no record" are the same thing: a
comparison never returns a root node that lists nothing. -/
theorem listing_nil_iff (a b : DirTree) (ha : a.wf = true) (hb : b.wf = true) :
    nodesO (compare a b) = [] ↔ a = b := by
  have hrep := (reported_exact a b ha hb).1
  constructor
  · intro h
    rw [← compare_none_iff a b ha hb, compare_none_iff_lookup a b ha hb]
    intro p
    by_contra hne
    obtain ⟨r, hr, _⟩ := (hrep p).mpr hne
    rw [h] at hr
    exact absurd hr (by simp)
  · intro h
    have hc := (compare_none_iff a b ha hb).mpr h
    rw [hc]; rfl

/-- Comparing in the opposite direction reports exactly the same paths, and the record of a
path is the mirrored one: old and new entry swapped, hence `added` ↔ `removed` and `modified`
stays `modified`. -/
theorem reversed_mirror (a b : DirTree) (ha : a.wf = true) (hb : b.wf = true) :
    (∀ p, (∃ r ∈ nodesO (compare a b), r.path = p) ↔ (∃ r ∈ nodesO (compare b a), r.path = p)) ∧
    (∀ r ∈ nodesO (compare a b), ∀ r' ∈ nodesO (compare b a), r.path = r'.path →
      r'.prev = r.curr ∧ r'.curr = r.prev ∧
      (r.status = .added ↔ r'.status = .removed) ∧
      (r.status = .removed ↔ r'.status = .added) ∧
      (r.status = .modified ↔ r'.status = .modified)) := by
  have hab := reported_exact a b ha hb
  have hba := reported_exact b a hb ha
  refine ⟨fun p => ?_, ?_⟩
  · rw [hab.1 p, hba.1 p]
    exact ⟨fun h e => h e.symm, fun h e => h e.symm⟩
  · intro r hr r' hr' hp
    obtain ⟨h1, h2, hA, hR, hM⟩ := hab.2 r hr
    obtain ⟨h1', h2', hA', hR', hM'⟩ := hba.2 r' hr'
    rw [← hp] at h1' h2' hA' hR' hM'
    refine ⟨by rw [h1', h2], by rw [h2', h1], ?_, ?_, ?_⟩
    · rw [hA, hR']
    · rw [hR, hA']
    · rw [hM, hM']; exact ⟨fun h => ⟨h.2, h.1⟩, fun h => ⟨h.2, h.1⟩⟩

/-- A diff can be undone: processing the listing of the opposite comparison, in its order,
on the new snapshot gives back the old one; so doing and undoing is the identity. -/
theorem undo_roundtrip (es fs : Entries) (ha : (DirTree.dir es).wf = true) (hb : (DirTree.dir fs).wf = true) :
    (applyAll (.dir es) (nodesO (compare (.dir es) (.dir fs)))).bind
      (fun t => applyAll t (nodesO (compare (.dir fs) (.dir es)))) = some (.dir es) := by
  rw [order_safe es fs ha hb]
  exact order_safe fs es hb ha

/-- Diffs compose: processing the listing old→mid and then mid→new ends in the same snapshot
as processing the direct listing old→new. -/
theorem compose_same_result (es ms fs : Entries) (ha : (DirTree.dir es).wf = true)
    (hm : (DirTree.dir ms).wf = true) (hb : (DirTree.dir fs).wf = true) :
    (applyAll (.dir es) (nodesO (compare (.dir es) (.dir ms)))).bind
      (fun t => applyAll t (nodesO (compare (.dir ms) (.dir fs)))) =
    applyAll (.dir es) (nodesO (compare (.dir es) (.dir fs))) := by
  rw [order_safe es ms ha hm, order_safe es fs ha hb]
  exact order_safe ms fs hm hb

/-! ## non-vacuity: a concrete pair with a removed file, a directory replaced by a file, an
added directory and an unchanged file -/

def exOld : DirTree :=
  .dir [("a", .file "h1"), ("b", .dir [("c", .file "h2"), ("d", .dir [])]), ("u", .file "h3")]
def exNew : DirTree :=
  .dir [("b", .file "h4"), ("n", .dir [("m", .file "symlink:u")]), ("u", .file "h3")]

example : exOld.wf = true ∧ exNew.wf = true := by decide

/-- the listing, in order: removed `a`; below `b` first `b/c`, `b/d`, then `b` itself
(directory → file); the root; then the added `n` before `n/m` -/
example : (nodesO (compare exOld exNew)).map (fun r => (r.path, r.status)) =
    [(["a"], .removed), (["b", "c"], .removed), (["b", "d"], .removed), (["b"], .modified),
     ([], .modified), (["n"], .added), (["n", "m"], .added)] := by decide

example : (applyAll exOld (nodesO (compare exOld exNew))).isSome = true := by decide
example : (get (compare exOld exNew) ["b", "c"]).map (fun d => d.path) = some ["b", "c"] := by decide
example : (get (compare exOld exNew) ["u"]).isNone = true := by decide
example : (compare exOld exOld).isNone = true := by decide

/-- the simulator is not vacuous: removing the non-empty directory `b` first is refused -/
example : applyAll exOld [⟨["b"], some (.dir []), none⟩] = none := by decide

/-- reversal and undo on the concrete pair: the opposite listing has the mirrored statuses and
undoes the change -/
example : (nodesO (compare exNew exOld)).map (fun r => (r.path, r.status)) ≠ [] := by decide
example : (applyAll exNew (nodesO (compare exNew exOld))).isSome = true := by decide

end MetadorModel.C18
