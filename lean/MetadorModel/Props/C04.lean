import MetadorModel.Proofs.ChainFaults
import MetadorModel.Proofs.ChainUBlock
/-!
# C04 — Only coherent, untampered file sets open as a record

Theorems about `MetadorModel.Chain.validate`, the model of `IH5Record._open` +
`_check_ublock` (+ the manifest check of `IH5MFRecord`), see `Model/Chain.lean`.

* `H : P → Digest` is `hashsum_file(path, skip_bytes=1024)`, `HM : M → Digest` the hash of
  the sidecar manifest. They are parameters; wherever a statement says "tampering is
  detected" the hypothesis is that the **two payloads concerned** hash differently
  (`H p' ≠ H f.payload`), never injectivity of `H`.
* `mfAware` selects `IH5MFRecord`; the fault corollaries are stated for `allowBaseless = false`
  (what `IH5Record(files, "r")` does) unless the parameter does not matter.
* "for every valid record" is the hypothesis `Coherent … s` (by `validate_ok_iff` these are
  exactly the file sets that open); a corrupted copy is any list `fs` that is a permutation of
  the corrupted arrangement, so the order in which files are passed never matters.
-/
namespace MetadorModel.C04
open MetadorModel.Chain List

variable {P M : Type} (H : P → Digest) (HM : M → Digest) (mfAware ab : Bool)

/-- the file set is refused, whatever the error -/
def Rejected (fs : List (File P M)) : Prop := ∀ s, validate H HM mfAware ab fs ≠ .ok s

/-- **Accepted exactly when coherent.** `validate fs` succeeds with result `s` iff `s` is an
arrangement of `fs` that is one base plus a gap-free chain of patches of the same record,
with every committed payload hashing to its stored hash, distinct patch uuids, and (manifest
aware class) a manifest matching the newest container. -/
theorem validate_ok_iff (fs s : List (File P M)) :
    validate H HM mfAware ab fs = .ok s ↔ s.Perm fs ∧ Coherent H HM mfAware ab s :=
  Chain.validate_ok_iff H HM mfAware ab fs s

/-- the order of the file list does not matter -/
theorem validate_perm {fs fs' : List (File P M)} (hp : fs.Perm fs') (s : List (File P M)) :
    validate H HM mfAware ab fs = .ok s ↔ validate H HM mfAware ab fs' = .ok s := by
  rw [validate_ok_iff, validate_ok_iff]
  exact ⟨fun ⟨h1, h2⟩ => ⟨h1.trans hp, h2⟩, fun ⟨h1, h2⟩ => ⟨h1.trans hp.symm, h2⟩⟩

theorem rejected_iff (fs : List (File P M)) :
    Rejected H HM mfAware ab fs ↔ ∀ s, s.Perm fs → ¬ Coherent H HM mfAware ab s := by
  unfold Rejected
  constructor
  · intro h s hp hc; exact h s ((validate_ok_iff H HM mfAware ab fs s).mpr ⟨hp, hc⟩)
  · intro h s hv
    obtain ⟨hp, hc⟩ := (validate_ok_iff H HM mfAware ab fs s).mp hv
    exact h s hp hc

variable {H HM mfAware ab}

/-- **Any flipped, added or removed payload byte of a committed container** (more generally: any
replacement of the payload by one with a different hash, which covers truncation and extension)
is refused. -/
theorem tamper_rejected {l₁ l₂ : List (File P M)} {f : File P M} {p' : P} {fs : List (File P M)}
    (hc : Coherent H HM mfAware ab (l₁ ++ f :: l₂))
    (hcommitted : f.ub.hash ≠ none)
    (hdiff : H p' ≠ H f.payload)
    (hfs : fs.Perm (l₁ ++ { f with payload := p' } :: l₂)) :
    Rejected H HM mfAware ab fs := by
  rw [rejected_iff]
  intro s hp hs
  have hf : f.ub.hash = some (H f.payload) := by
    rcases hc.hash_mem f (by simp) with h | h
    · exact absurd h hcommitted
    · exact h
  have hmem : ({ f with payload := p' } : File P M) ∈ s :=
    (hp.trans hfs).symm.subset (by simp)
  rcases hs.hash_mem _ hmem with h | h
  · exact hcommitted h
  · simp only [HashOK] at h
    rw [hf] at h
    injection h with h
    exact hdiff h.symm

/-- **A missing inner container** is refused. -/
theorem remove_inner_rejected {l₁ l₂ : List (File P M)} {f : File P M} {fs : List (File P M)}
    (hc : Coherent H HM mfAware ab (l₁ ++ f :: l₂)) (h1 : l₁ ≠ []) (h2 : l₂ ≠ [])
    (hfs : fs.Perm (l₁ ++ l₂)) :
    Rejected H HM mfAware ab fs := by
  rw [rejected_iff]
  intro s hp hs
  have hsorted : SortedLt (l₁ ++ l₂) := by
    have := hc.sortedLt H HM
    exact this.sublist (by simp)
  have hs' : s = l₁ ++ l₂ := sortedLt_unique (hp.trans hfs) (hs.sortedLt H HM) hsorted
  subst hs'
  obtain ⟨b, r₁, rfl⟩ := exists_cons_of_ne_nil h1
  obtain ⟨g, r₂, rfl⟩ := exists_cons_of_ne_nil h2
  have k1 : ChainFrom (lastOf b r₁) (g :: r₂) := hs.chain_split
  have k2 : ChainFrom (lastOf b r₁) (f :: g :: r₂) := hc.chain_split
  have e1 : g.ub.prev = some (lastOf b r₁).ub.pid := k1.1.2
  have e2 : g.ub.prev = some f.ub.pid := k2.2.1.2
  have hpid : f.ub.pid = (lastOf b r₁).ub.pid := by rw [e1] at e2; injection e2 with e2; exact e2.symm
  have hn := hc.nodup
  rw [map_append, map_cons] at hn
  have := (nodup_append.mp hn).2.2 _ (mem_map_of_mem (f := fun f => f.ub.pid) (lastOf_mem b r₁))
    _ (mem_cons_self)
  exact this hpid.symm

/-- **A missing base** is refused (unless the caller explicitly allows a base-less set). -/
theorem remove_base_rejected {b : File P M} {rest fs : List (File P M)}
    (hc : Coherent H HM mfAware false (b :: rest)) (hne : rest ≠ [])
    (hfs : fs.Perm rest) :
    Rejected H HM mfAware false fs := by
  rw [rejected_iff]
  intro s hp hs
  have hsorted : SortedLt rest := (hc.sortedLt H HM).sublist (by simp)
  have hs' : s = rest := sortedLt_unique (hp.trans hfs) (hs.sortedLt H HM) hsorted
  subst hs'
  obtain ⟨g, r, rfl⟩ := exists_cons_of_ne_nil hne
  have e1 : g.ub.prev = none := hs.2.1 rfl
  have e2 : g.ub.prev = some b.ub.pid := hc.2.2.2.1.1.2
  rw [e1] at e2; cases e2

/-- **A container of another record** among the files is refused: no accepted set contains two
files with different record uuids. -/
theorem foreign_rejected {fs : List (File P M)} {f g : File P M} (hf : f ∈ fs) (hg : g ∈ fs)
    (hrid : f.ub.rid ≠ g.ub.rid) :
    Rejected H HM mfAware ab fs := by
  rw [rejected_iff]
  intro s hp hs
  exact hrid (hs.sameRecord f (hp.symm.subset hf) g (hp.symm.subset hg))

/-- **Substituting a container that has a successor** by any other container (of another record,
of another fork of the same record, …) is refused: the successor names the patch uuid of the
original, which no remaining file carries. -/
theorem substitute_rejected {l₁ l₂ : List (File P M)} {f c g : File P M} {fs : List (File P M)}
    (hc : Coherent H HM mfAware false (l₁ ++ f :: c :: l₂))
    (hpid : g.ub.pid ≠ f.ub.pid)
    (hfs : fs.Perm (l₁ ++ g :: c :: l₂)) :
    Rejected H HM mfAware false fs := by
  rw [rejected_iff]
  intro s hp hs
  have hperm := hp.trans hfs
  -- `c` names `f` as predecessor
  have hcprev : c.ub.prev = some f.ub.pid := by
    cases l₁ with
    | nil => exact hc.2.2.2.1.1.2
    | cons b r =>
      have := hc.chain_split (l₁ := r) (l₂ := f :: c :: l₂)
      exact this.2.1.2
  have hcs : c ∈ s := hperm.symm.subset (by simp)
  rcases hs.pred c hcs with h | ⟨x, hx, hxp⟩
  · rw [hcprev] at h; cases h
  · rw [hcprev] at hxp
    injection hxp with hxp
    have hx' : x ∈ l₁ ++ g :: c :: l₂ := hperm.subset hx
    have hn := hc.nodup
    rw [map_append, map_cons] at hn
    have hn1 := (nodup_append.mp hn).2.2
    have hn2 := (nodup_cons.mp (nodup_append.mp hn).2.1).1
    rcases mem_append.mp hx' with hx' | hx'
    · exact hn1 _ (mem_map_of_mem (f := fun f => f.ub.pid) hx') _ mem_cons_self hxp.symm
    · rcases mem_cons.mp hx' with rfl | hx'
      · exact hpid hxp.symm
      · exact hn2 (hxp ▸ mem_map_of_mem (f := fun f => f.ub.pid) hx')

/-- **A forked set** — two containers that continue the same state (or two bases) — is refused. -/
theorem fork_rejected {fs rest : List (File P M)} {g₁ g₂ : File P M}
    (hfs : fs.Perm (g₁ :: g₂ :: rest)) (hfork : g₁.ub.prev = g₂.ub.prev) :
    Rejected H HM mfAware false fs := by
  rw [rejected_iff]
  intro s hp hs
  have hpw : (g₁ :: g₂ :: rest).Pairwise (fun a b => a.ub.prev ≠ b.ub.prev) :=
    hs.noFork.perm (hp.trans hfs) (fun h => h.symm)
  exact (pairwise_cons.mp hpw).1 g₂ mem_cons_self hfork

/-- **A duplicated container / duplicated `patch_uuid`** is refused. -/
theorem dup_pid_rejected {fs rest : List (File P M)} {g₁ g₂ : File P M}
    (hfs : fs.Perm (g₁ :: g₂ :: rest)) (hdup : g₁.ub.pid = g₂.ub.pid) :
    Rejected H HM mfAware ab fs := by
  rw [rejected_iff]
  intro s hp hs
  have hn : ((g₁ :: g₂ :: rest).map (fun f => f.ub.pid)).Nodup :=
    ((hp.trans hfs).map _).nodup_iff.mp hs.nodup
  simp only [map_cons, nodup_cons, mem_cons] at hn
  exact hn.1 (Or.inl hdup)

/-- **A manifest that does not match its container** (edited or missing) is refused by the
manifest-aware class. -/
theorem manifest_mismatch_rejected {init : List (File P M)} {l : File P M} {e : Ext}
    {m' : Option M} {fs : List (File P M)}
    (hc : Coherent H HM true ab (init ++ [l])) (hext : l.ub.ext = some e)
    (hbad : ∀ m, m' = some m → e.mhash ≠ HM m)
    (hfs : fs.Perm (init ++ [{ l with mf := m' }])) :
    Rejected H HM true ab fs := by
  rw [rejected_iff]
  intro s hp hs
  have hsorted : SortedLt (init ++ [{ l with mf := m' }]) := by
    have := hc.sortedLt H HM
    simp only [SortedLt, pairwise_append, pairwise_cons, mem_singleton] at this ⊢
    refine ⟨this.1, by simp, ?_⟩
    intro a ha b hb; subst hb; exact this.2.2 a ha l rfl
  have hs' : s = init ++ [{ l with mf := m' }] :=
    sortedLt_unique (hp.trans hfs) (hs.sortedLt H HM) hsorted
  subst hs'
  obtain ⟨m, hm, hh⟩ := hs.last_manifest rfl e hext
  exact hbad m hm hh

/-- **Removing only the newest patch** leaves a set that opens (and shows the previous state):
the shortened list is returned unchanged. For the manifest-aware class the container that
becomes newest must still have its manifest, which every commit of that class writes. -/
theorem remove_newest_accepted {init : List (File P M)} {l : File P M} {fs : List (File P M)}
    (hc : Coherent H HM mfAware ab (init ++ [l])) (hne : init ≠ [])
    (hmf : mfAware = true → ∀ b r, init = b :: r → ∀ e, (lastOf b r).ub.ext = some e →
      ∃ m, (lastOf b r).mf = some m ∧ e.mhash = HM m)
    (hfs : fs.Perm init) :
    validate H HM mfAware ab fs = .ok init :=
  (validate_ok_iff H HM mfAware ab fs init).mpr ⟨hfs.symm, hc.dropNewest hne hmf⟩

/-- a file whose user block does not load (damaged magic string, size line or JSON) makes
opening fail before anything else is looked at -/
theorem ub_damage_rejected (fs : List (Option (File P M))) (h : none ∈ fs) :
    ∀ s, openFiles H HM mfAware ab fs ≠ .ok s := by
  intro s
  unfold openFiles
  have hne : fs.isEmpty = false := by cases fs <;> simp_all
  rw [hne]
  simp only [Bool.false_eq_true, if_false]
  have : fs.mapM id = none := by
    induction fs with
    | nil => cases h
    | cons a r ih =>
      rcases a with _ | a
      · simp [mapM_cons]
      · have hr : none ∈ r := by simpa using h
        have hne' : r.isEmpty = false := by cases r <;> simp_all
        simp [mapM_cons, ih hr hne']
  rw [this]
  intro h; cases h

/-- the user-block text accepted by the (canonical) parser is exactly a rendered well-formed
block: any damage to the JSON text that is not itself a canonical block is refused -/
theorem ub_parse_iff (t : List Char) (u : UBlock.UBT) :
    UBlock.parseUBT t = .ok u ↔ t = UBlock.render u ∧ u.wf = true :=
  UBlock.parseUBT_ok_iff t u

/-! ## Non-vacuity: a concrete record with three containers, and each fault on it -/

section Example
abbrev EH : Nat → Digest := fun p => List.replicate p 'x'
abbrev EM : Nat → Digest := fun m => List.replicate m 'y'

instance : DecidableEq (Except Err (List (File Nat Nat))) := fun a b =>
  match a, b with
  | .ok x, .ok y => if h : x = y then isTrue (by rw [h]) else isFalse (by intro h'; cases h'; exact h rfl)
  | .error x, .error y => if h : x = y then isTrue (by rw [h]) else isFalse (by intro h'; cases h'; exact h rfl)
  | .ok _, .error _ => isFalse (by intro h; cases h)
  | .error _, .ok _ => isFalse (by intro h; cases h)

def ub0 : UB := ⟨['r'], 0, ['a'], none, some (EH 10), some ⟨false, ['m'], EM 1⟩⟩
def ub1 : UB := ⟨['r'], 1, ['b'], some ['a'], some (EH 11), some ⟨false, ['n'], EM 2⟩⟩
def ub2 : UB := ⟨['r'], 4, ['c'], some ['b'], some (EH 12), some ⟨false, ['o'], EM 3⟩⟩
def f0 : File Nat Nat := { ub := ub0, payload := 10, mf := some 1 }
def f1 : File Nat Nat := { ub := ub1, payload := 11, mf := some 2 }
def f2 : File Nat Nat := { ub := ub2, payload := 12, mf := some 3 }
/-- a diverging patch on top of `f0` (another fork) and a container of another record -/
def fork1 : File Nat Nat := { ub := ⟨['r'], 1, ['x'], some ['a'], some (EH 21), none⟩, payload := 21 }
def alien : File Nat Nat := { ub := ⟨['q'], 1, ['y'], some ['a'], some (EH 31), none⟩, payload := 31 }

/-- the record opens, in any order of the file list, for both classes -/
example : validate EH EM true false [f2, f0, f1] = .ok [f0, f1, f2] := by decide
example : validate EH EM false false [f1, f2, f0] = .ok [f0, f1, f2] := by decide

theorem example_coherent : Coherent EH EM true false ([f0] ++ f1 :: [f2]) :=
  ((validate_ok_iff EH EM true false [f2, f0, f1] [f0, f1, f2]).mp (by decide)).2

/-- hypotheses of the corollaries are satisfiable, and the model computes the same verdicts -/
example : Rejected EH EM true false [f0, { f1 with payload := 99 }, f2] :=
  tamper_rejected example_coherent (by decide) (by decide) (Perm.refl _)
example : validate EH EM true false [f0, { f1 with payload := 99 }, f2] = .error .hashMismatch := by decide
example : Rejected EH EM true false [f2, f0] :=
  remove_inner_rejected (l₁ := [f0]) (l₂ := [f2]) example_coherent (by simp) (by simp) (by decide)
example : validate EH EM true false [f2, f0] = .error .prevMismatch := by decide
example : Rejected EH EM true false [f1, f2] :=
  remove_base_rejected (b := f0) example_coherent (by simp) (Perm.refl _)
example : validate EH EM true false [f1, f2] = .error .basePrev := by decide
example : Rejected EH EM true false [f0, alien, f2] :=
  foreign_rejected (f := f0) (g := alien) (by simp) (by simp) (by decide)
example : Rejected EH EM true false [f0, fork1, f2] :=
  substitute_rejected (l₁ := [f0]) (l₂ := []) example_coherent (by decide) (Perm.refl _)
example : Rejected EH EM true false [f0, f1, fork1, f2] :=
  fork_rejected (g₁ := f1) (g₂ := fork1) (rest := [f0, f2]) (by decide) (by decide)
example : Rejected EH EM true false [f0, f1, f1, f2] :=
  dup_pid_rejected (g₁ := f1) (g₂ := f1) (rest := [f0, f2]) (by decide) rfl
example : Rejected EH EM true false [f0, f1, { f2 with mf := some 7 }] :=
  manifest_mismatch_rejected (init := [f0, f1]) (l := f2) (e := ⟨false, ['o'], EM 3⟩) example_coherent rfl
    (by intro m hm; cases hm; decide) (Perm.refl _)
example : validate EH EM true false [f0, f1, { f2 with mf := none }] = .error .mfMissing := by decide
example : validate EH EM true false [f1, f0] = .ok [f0, f1] :=
  remove_newest_accepted (init := [f0, f1]) (l := f2) example_coherent (by simp)
    (by intro _ b r h e he; cases h; exact ⟨2, rfl, by cases he; decide⟩) (by decide)
/-- an uncommitted newest container is accepted, an uncommitted inner one is not -/
example : validate EH EM false false [f0, { f1 with ub := { ub1 with hash := none } }] =
    .ok [f0, { f1 with ub := { ub1 with hash := none } }] := by decide
example : validate EH EM false false [f0, { f1 with ub := { ub1 with hash := none } }, f2] =
    .error .hashMissing := by decide
end Example

end MetadorModel.C04
