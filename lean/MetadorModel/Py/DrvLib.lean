/-!
# Line-protocol driver loop shared by all model drivers

One operation per input line, tokens separated by single spaces; one output line per
input line. A line `#case …` resets the model state and is echoed as `#case`.
Unknown or malformed operations must be answered with `bad-op` by the step function.
-/
namespace MetadorModel.Drv

def tokens (line : String) : List String :=
  ((line.dropEndWhile (fun c => c == '\n' || c == '\r')).toString.splitOn " ").filter (· ≠ "")

partial def loop {σ : Type} (h : IO.FS.Stream) (out : IO.FS.Stream) (init : σ)
    (step : σ → List String → σ × String) (s : σ) : IO Unit := do
  let line ← h.getLine
  if line.isEmpty then
    out.flush
    return ()
  let toks := tokens line
  match toks with
  | "#case" :: _ =>
    out.putStrLn "#case"
    loop h out init step init
  | _ =>
    let (s', o) := step s toks
    out.putStrLn o
    loop h out init step s'

def run {σ : Type} (init : σ) (step : σ → List String → σ × String) : IO Unit := do
  let stdin ← IO.getStdin
  let stdout ← IO.getStdout
  loop stdin stdout init step init

/-- hex helpers for byte/char payloads (`00ff7f`) -/
def hexVal (c : Char) : Option Nat :=
  if '0' ≤ c && c ≤ '9' then some (c.toNat - '0'.toNat)
  else if 'a' ≤ c && c ≤ 'f' then some (c.toNat - 'a'.toNat + 10)
  else none

def unhex : List Char → Option (List Nat)
  | [] => some []
  | a :: b :: rest => do
    let x ← hexVal a
    let y ← hexVal b
    let r ← unhex rest
    pure ((x * 16 + y) :: r)
  | _ => none

def hexDigit (n : Nat) : Char :=
  if n < 10 then Char.ofNat ('0'.toNat + n) else Char.ofNat ('a'.toNat + n - 10)

def hex (l : List Nat) : String :=
  String.ofList (l.flatMap fun b => [hexDigit (b / 16), hexDigit (b % 16)])

/-- strings are sent hex-encoded (UTF-8 bytes ↦ code points < 256 are assumed ASCII-safe here);
`-` stands for the empty string. -/
def unhexStr (s : String) : Option String :=
  if s == "-" then some "" else (unhex s.toList).map (fun l => String.ofList (l.map Char.ofNat))

def hexStr (s : String) : String :=
  if s.isEmpty then "-" else hex (s.toList.map Char.toNat)

end MetadorModel.Drv
