import MetadorModel.Model.Record
/-!
# Python value dictionary for the translation of `ih5/record.py` (property C03)

`harness/translate_c03.py` turns the `ast` of `IH5Record._is_valid_record_name`, `_infer_name`,
`find_files`, `_next_patch_filepath` and `__init__` into Lean text (`Gen/FindFilesFns.lean`)
that only uses the *model's* data types (`FindFiles.Name`, `Record.State`, `Record.Res`,
`Record.Out`, `Record.Mode`, `Record.Target`, `Record.UB`) and the operations below. Each
operation is the fixed meaning of one Python construct on those types; together with the table
in the docstring of `harness/translate_c03.py` this file *is* the dictionary. Hand-written,
import-free apart from models. Nothing here is specific to what the translated functions
currently do (no record-name alphabet, no file extension, no mode table).

Python value                                     Lean
-----------------------------------------------  ------------------------------------------------
`str`                                            `Str` = `List Char`
`pathlib.Path` of a file / record prefix         its base name (`FindFiles.Name`); its `.parent`
                                                 is the directory listing `List Name`
a compiled / literal regular expression          `List Item` (sequence of items, see below)
a glob pattern                                   `List GItem`
`re.match(..)` result                            `Bool` (a match object exists; it is truthy)
`mode : OpenMode`                                `Record.Mode`, spelled `modeStr m`
`record : Union[str, Path, List[Path]]`          `Record.Target` (`isinstance(record, list)` =
                                                 the `.list` constructor)
`Optional[List[Path]]`                           `Option (List Name)`
`self` inside `__init__`                         the running `Res` (model state + effects so far)
`self.__files__` / `self._ublocks`               `Handle.files : List (Name × UB)`
a raised exception                               `Except.error (e : Out)` / a `Res` whose `out ≠ ok`
-/
namespace MetadorModel.RecordPy
open MetadorModel.FindFiles MetadorModel.Record

abbrev Str := List Char

/-! ## regular expressions (`re`, no flags, `str` patterns)

The translator parses a pattern with Python's own `re._parser` and maps the parse tree
node by node: `LITERAL c` ↦ `.atom (.chr c)`, `IN [..]` ↦ `.atom (.cls neg items)`,
`NOT_LITERAL c` ↦ `.atom (.cls true [.chr c])`, `ANY` ↦ `.atom .dot`,
`MAX_REPEAT (1, ∞) [a]` ↦ `.plus a`, `MAX_REPEAT (0, ∞) [a]` ↦ `.star a`,
`MAX_REPEAT (0, 1) [a]` ↦ `.opt a`, `AT_BEGINNING` ↦ `.bos`, `AT_END` ↦ `.eos`,
`AT_END_STRING` ↦ `.eosZ`. Quantifiers are supported on single-character atoms only. -/

inductive ClassItem where
  | chr (c : Char)
  | range (lo hi : Char)
deriving DecidableEq, Repr

/-- something that consumes exactly one character -/
inductive Atom where
  | chr (c : Char)
  | cls (neg : Bool) (items : List ClassItem)   -- `[...]` / `[^...]`
  | dot                                         -- `.` without DOTALL: anything but `"\n"`
  | any                                         -- `.` with DOTALL (`fnmatch.translate` uses `(?s:`)
deriving DecidableEq, Repr

inductive Item where
  | atom (a : Atom)
  | plus (a : Atom)
  | star (a : Atom)
  | opt (a : Atom)
  | bos    -- `^` (no MULTILINE): only at position 0
  | eos    -- `$` (no MULTILINE): at the end **or before a newline at the end**
  | eosZ   -- `\Z`: only at the end
deriving DecidableEq, Repr

/-- code points compare as in `re` -/
def ClassItem.ok : ClassItem → Char → Bool
  | .chr d, c => c == d
  | .range lo hi, c => decide (lo.toNat ≤ c.toNat) && decide (c.toNat ≤ hi.toNat)

def Atom.ok : Atom → Char → Bool
  | .chr d, c => c == d
  | .cls neg items, c => (items.any (fun i => i.ok c)) != neg
  | .dot, c => c != '\n'
  | .any, _ => true

/-- zero or more `a`, then the continuation `k`. `k`'s first argument: "still at position 0".
(Whether a match exists does not depend on greediness, only which one is found.) -/
def starK (a : Atom) (k : Bool → Str → Bool) : Bool → Str → Bool
  | st, [] => k st []
  | st, c :: s => k st (c :: s) || (a.ok c && starK a k false s)

/-- is there a match of the item sequence that starts at the beginning of the given text
(second argument: that beginning is position 0 of the subject string) -/
def matchItems : List Item → Bool → Str → Bool
  | [] => fun _ _ => true
  | .atom a :: r => fun _ s =>
    match s with
    | c :: s' => a.ok c && matchItems r false s'
    | [] => false
  | .plus a :: r => fun _ s =>
    match s with
    | c :: s' => a.ok c && starK a (matchItems r) false s'
    | [] => false
  | .star a :: r => fun st s => starK a (matchItems r) st s
  | .opt a :: r => fun st s =>
    matchItems r st s ||
    (match s with
     | c :: s' => a.ok c && matchItems r false s'
     | [] => false)
  | .bos :: r => fun st s => st && matchItems r st s
  | .eos :: r => fun st s => (s == [] || s == ['\n']) && matchItems r st s
  | .eosZ :: r => fun st s => s == [] && matchItems r st s

/-- `re.match(pattern, s)` yields a match object (as opposed to `None`) -/
def pyReMatch (p : List Item) (s : Str) : Bool := matchItems p true s

/-- the characters that are not literals in a regular expression -/
def reMeta : Str := ['.', '^', '$', '*', '+', '?', '{', '}', '[', ']', '\\', '|', '(', ')']

/-- the characters that are not literals in a glob pattern (a `/` would split the pattern) -/
def globMeta : Str := ['*', '?', '[', ']', '/']

/-- a string that means itself when it is pasted into a regular expression or a glob pattern
(white space is literal in both: no VERBOSE flag) -/
def pyPlain (s : Str) : Bool := s.all (fun c => !reMeta.contains c && !globMeta.contains c)

/-- a run-time string pasted into a regular expression by an f-string, `f"..{s}.."`, *between*
complete items: a sequence of literals. This is what `re` does **provided `pyPlain s`**; for other
strings the pasted text would be parsed as regex syntax, which is not modelled — the bridge
proves (`gen_find_files_interp_plain`) that the translated code pastes only strings that have
passed a check implying `pyPlain`. -/
def pyReInterp (s : Str) : List Item := s.map (fun c => Item.atom (.chr c))

/-! ## glob patterns (`Path.glob` with a single path component, via `fnmatch.translate`) -/

inductive GItem where
  | chr (c : Char)
  | star    -- `*`
  | qmark   -- `?`
deriving DecidableEq, Repr

/-- `fnmatch.translate`: `(?s:` items `)\Z` -/
def globToRe : List GItem → List Item
  | [] => [.eosZ]
  | .chr c :: r => .atom (.chr c) :: globToRe r
  | .star :: r => .star .any :: globToRe r
  | .qmark :: r => .atom .any :: globToRe r

/-- `dir.glob(pattern)`: the entries of the directory whose base name matches (pathlib's `*`
also matches a leading dot); order of the listing -/
def pyGlob (dir : List Name) (g : List GItem) : List Name :=
  dir.filter (fun f => pyReMatch (globToRe g) f)

/-- a run-time string pasted into a glob pattern (same proviso as `pyReInterp`) -/
def pyGlobInterp (s : Str) : List GItem := s.map GItem.chr

/-! ## strings -/

def pyStartswith : Str → Str → Bool
  | _, [] => true
  | [], _ :: _ => false
  | c :: s, d :: p => c == d && pyStartswith s p

/-- worker of `str.split(sep)`: `skip` characters of a separator just found are still to be
dropped, `cur` is the current piece (reversed) -/
def pySplitGo (sep : Str) : Nat → Str → Str → List Str
  | _, [], cur => [cur.reverse]
  | k + 1, _ :: r, cur => pySplitGo sep k r cur
  | 0, c :: r, cur =>
    if pyStartswith (c :: r) sep then cur.reverse :: pySplitGo sep (sep.length - 1) r []
    else pySplitGo sep 0 r (c :: cur)

/-- `s.split(sep)` for a **non-empty** `sep` (an empty one raises `ValueError`; the translator
accepts only separators that are non-empty string constants) -/
def pySplit (s sep : Str) : List Str := pySplitGo sep 0 s []

/-- `l[0]` on the result of `split` (never empty) -/
def pyHead : List Str → Str
  | [] => []
  | a :: _ => a

/-- `str(n)` / `f"{n}"` for a non-negative `int` -/
def pyStrNat (n : Nat) : Str := Nat.toDigits 10 n

/-- `l[i]` with Python's negative indices; `IndexError` out of range -/
def pyIdx {α : Type} (l : List α) (i : Int) : Except Out α :=
  let j : Int := if i < 0 then i + l.length else i
  if j < 0 then .error .indexError
  else match l[j.toNat]? with
    | some x => .ok x
    | none => .error .indexError

/-! ## `OpenMode` -/

/-- the fixed spelling table of `OpenMode = Literal["r", "r+", "a", "w", "w-", "x"]`; the
translator checks that the source still declares exactly these six literals -/
def modeStr : Mode → Str
  | .r => ['r']
  | .rp => ['r', '+']
  | .a => ['a']
  | .w => ['w']
  | .wm => ['w', '-']
  | .x => ['x']

/-- truth value of an `Optional[List[..]]` -/
def pyTruthy : Option (List Name) → Bool
  | none => false
  | some l => !l.isEmpty

/-! ## the constructor `__init__` as a sequence of effects on the model state -/

/-- entering `__init__`: nothing has happened yet -/
def pyStart (s : State) : Res := { st := s, out := .ok }

/-- `raise E(..)` -/
def pyRaise (r : Res) (e : Out) : Res := { r with out := e }

/-- run one operation of the record model on the state reached so far; its effects are appended;
if it raises, so does the constructor, otherwise go on with `k` -/
def pyStep (r : Res) (op : State → Res) (k : Res → Res) : Res :=
  let r2 := op r.st
  let m : Res := { st := r2.st, out := r2.out, created := r.created ++ r2.created,
                   removed := r.removed ++ r2.removed, written := r.written ++ r2.written }
  match r2.out with
  | .ok => k m
  | _ => m

/-- a pure call that may raise -/
def pyCall {α : Type} (r : Res) (x : Except Out α) (k : α → Res) : Res :=
  match x with
  | .error e => pyRaise r e
  | .ok v => k v

/-- the whole constructor call `C(record, mode)` on a state whose handle slot is free: if
`__init__` raises there is no new object — the handle slot stays as it was (what happened on
disk and to the uuid counter stays) -/
def pyCtor (s : State) (r : Res) : Res :=
  match r.out with
  | .ok => r
  | _ => { r with st := { r.st with h := s.h } }

/-- `ret = self._create(path, truncate=t)` ; `self.__dict__.update(ret.__dict__)` -/
def pyCreate (mfcls : Bool) (n : Name) (truncate : Bool) (s : State) : Res :=
  createRec s mfcls n truncate []

/-- the state right after `self.__dict__.update(ret.__dict__)` for a `ret` that `_open` built from
the given files: a fresh object (`__new__`: `_allow_patching = True`), open; a newest container
that was reopened `r+` counts as (possibly) rewritten -/
def openedRes (s : State) (mfcls : Bool) (files : List (Name × UB)) (lastRW : Bool)
    (man : Option (Nat × Nat)) : Res :=
  { st := { s with h := { files := files, lastRW := lastRW, allow := true, closed := false,
                          mfcls := mfcls, manifest := man } },
    out := .ok,
    written := if lastRW then (match lastFile files with | some (f, _) => [f] | none => []) else [] }

/-- `ret = self._open(paths, reopen_incomplete_patch=rw, **kwargs)` ;
`self.__dict__.update(ret.__dict__)` (no further keyword arguments). `_open` is not translated:
this is the record model's account of it (`openFiles`; `loadManifest` for the manifest class). -/
def pyOpen (mfcls : Bool) (paths : Option (List Name)) (rw : Bool) (s : State) : Res :=
  match openFiles s.disk (paths.getD []) rw with
  | .error e => fail s e
  | .ok (files, lastRW) =>
    match (if mfcls then loadManifest s.disk files else .ok none) with
    | .error e => fail s e
    | .ok man => openedRes s mfcls files lastRW man

/-- `self._allow_patching = b` -/
def pySetAllow (r : Res) (b : Bool) : Res :=
  { r with st := { r.st with h := { r.st.h with allow := b } } }

/-- `self._has_writable` -/
def pyHasWritable (r : Res) : Bool := hasWritable r.st.h

/-- `self.create_patch()` -/
def pyCreatePatch (s : State) : Res := createPatch s

end MetadorModel.RecordPy
