import MetadorModel.Model.Partial
/-!
# Python value dictionary for the translation of `schema/partial.py` (property C14)

`harness/translate_c14.py` turns the `ast` of `PartialModel._update_field` and
`PartialModel.merge_with` into Lean text (`Gen/PartialMerge.lean`) that only uses the *model's*
data types (`Partial.PVal`, `Partial.Cls`, `Partial.Fields`, `AL.get/ins/erase`) and the
operations below. Each operation is the fixed meaning of one Python construct on those types;
together with the table in the docstring of `harness/translate_c14.py` this file *is* the
dictionary. Hand-written, imports only the model. Nothing here depends on what the two functions
currently do.

Python value                                      Lean
------------------------------------------------  ------------------------------------------------
a field value or `None`                           `V = Option PVal` (`None` = `none`)
`int` / `bool` / `str` (and opaque scalars)       `some (.atom a)`
`list`                                            `some (.list xs)`
`set` (of hashable scalars)                       `some (.set xs)`, `xs` duplicate-free, insertion order
instance of a model class of the factory          `some (.obj cls fields)`; complete and partial
  (`self.__partial_fac__.base_model`)             instances are not told apart (`Partial.toPartial`
                                                  is the identity on field values); `obj.__dict__`
                                                  without private and `None` entries = `fields`
a class (`type(x)`)                               `PyCls`: `.model chain` / `.builtin name`
`path: List[str] = None`                          `Option (List String)`; after `path or []`: `List String`
a raised exception                                `Except.error (e : PyErr)`
the interpreter's remaining recursion depth       the `Nat` fuel of a translated function
-/
namespace MetadorModel.PartialPy
open MetadorModel MetadorModel.Partial

/-- exceptions the translated fragment can raise -/
inductive PyErr where
  | valueError | typeError | validationError | attributeError
  | recursionError
  /-- not a Python exception: the execution left the value dictionary (e.g. `set.union(<list>)`,
  `1 + 2`: Python computes a value that `PVal` cannot hold or that this table does not define). -/
  | unrepresentable
deriving DecidableEq, Repr

abbrev M := Except PyErr
abbrev V := Option PVal

/-- the error kinds of the model: `ValueError` is the conflict, `ValidationError` is `invalid`,
everything else that can come out of ill-shaped operands is the model's `shape`. Running out of
interpreter stack has no counterpart in the model (the bridge theorems show that it does not
happen when `fuel` exceeds the nesting depth of the new value). -/
def PyErr.toErr : PyErr → Option Err
  | .valueError => some .conflict
  | .validationError => some .invalid
  | .recursionError => none
  | .typeError => some .shape
  | .attributeError => some .shape
  | .unrepresentable => some .shape

/-! ## tests -/

/-- `x is None` -/
def isNone : V → Bool
  | none => true
  | some _ => false

/-- `isinstance(x, list)` -/
def isList : V → Bool
  | some (.list _) => true
  | _ => false

/-- `isinstance(x, set)` -/
def isSet : V → Bool
  | some (.set _) => true
  | _ => false

/-- `isinstance(x, self.__partial_fac__.base_model)` (one factory per value: every model
instance inside a value belongs to it) -/
def isModel : V → Bool
  | some (.obj _ _) => true
  | _ => false

/-- `bool(x)`: `None`, `0`, `False`, `""`, `[]`, `set()` are falsy; model instances are truthy. -/
def truthy : V → Bool
  | none => false
  | some v => Legacy.truthy v

/-- `bool(xs)` of a list of strings -/
def truthyL (xs : List String) : Bool := !xs.isEmpty

/-- `bool(x)` of an `Optional[List[str]]` -/
def truthyO : Option (List String) → Bool
  | some l => truthyL l
  | none => false

/-- `x or y` for `x : Optional[List[str]]`, `y : List[str]` (`None` and `[]` are falsy) -/
def optOr (x : Option (List String)) (y : List String) : List String :=
  match x with
  | some l => if truthyL l then l else y
  | none => y

/-! ## operators -/

/-- `x + y`. Defined here for a list on the left (list + list concatenates, list + anything else
is a `TypeError`); `None`, sets and model instances have no `+`; scalar + scalar (arithmetic,
string concatenation) is outside this table. -/
def pyAdd : V → V → M V
  | some (.list xs), some (.list ys) => pure (some (.list (xs ++ ys)))
  | some (.list _), _ => throw .typeError
  | some (.atom _), some (.atom _) => throw .unrepresentable
  | _, _ => throw .typeError

/-- `x.union(y)`. `set.union` takes any iterable: a set gives the union (elements of `x` first,
then the new ones of `y`); `None`, `int`, `bool` are not iterable (`TypeError`); a `str`, `list`
or model instance is iterable and gives a set this table cannot hold. Values other than sets
have no `union`. -/
def pyUnion : V → V → M V
  | some (.set xs), some (.set ys) => pure (some (.set (unionA xs ys)))
  | some (.set _), none => throw .typeError
  | some (.set _), some (.atom (.int _)) => throw .typeError
  | some (.set _), some (.atom (.bool _)) => throw .typeError
  | some (.set _), _ => throw .unrepresentable
  | _, _ => throw .attributeError

/-! ## classes -/

inductive PyCls where
  | model (c : Cls)
  | builtin (n : String)
deriving DecidableEq, Repr

/-- `type(x)` -/
def pyType : V → PyCls
  | none => .builtin "NoneType"
  | some (.atom (.int _)) => .builtin "int"
  | some (.atom (.bool _)) => .builtin "bool"
  | some (.atom (.str _)) => .builtin "str"
  | some (.list _) => .builtin "list"
  | some (.set _) => .builtin "set"
  | some (.obj c _) => .model c

/-- `issubclass(a, b)`: model classes by their inheritance chains (`Partial.sub`); of the
built-in types only `bool` has another one (`int`) as base. -/
def pyIssubclass : PyCls → PyCls → Bool
  | .model c, .model d => sub c d
  | .builtin a, .builtin b => a == b || (a == "bool" && b == "int")
  | _, _ => false

/-! ## methods of model instances -/

/-- method lookup on a value: only model instances have `merge_with`, `_update_field`, … -/
def guardModel : V → M Unit
  | some (.obj _ _) => pure ()
  | _ => throw .attributeError

/-- `self._to_partial_val(x)`: a model instance is returned as its partial (the same `PVal`, see
the header); for anything else `get_partial(type(x))` raises `TypeError` ("is not subclass of"). -/
def toPartialVal : V → M V
  | some (.obj c fs) => pure (some (toPartial (.obj c fs)))
  | _ => throw .typeError

/-- `self.cast(obj, ignore_invalid=…)`: a model instance is cast to the class of `self` with its
field values unchanged (assumption of the model: re-validation of a related class is the
identity); `None` and scalars are not dicts (`ValidationError`); lists / sets may or may not be
accepted by `dict(…)` — outside this table. -/
def pyCast (_self : V) (obj : V) (_ignore_invalid : Bool) : M V :=
  match obj with
  | some (.obj c fs) => pure (some (.obj c fs))
  | none => throw .validationError
  | some (.atom _) => throw .validationError
  | _ => throw .unrepresentable

/-- `x.copy()`: a new object with the same (shared) field values. Lists and sets have `copy` too. -/
def pyCopy : V → M V
  | none => throw .attributeError
  | some (.atom _) => throw .attributeError
  | some v => pure (some v)

/-- `self.__partial_fac__._get_field_vals(x)`: the public, non-`None` entries of `x.__dict__`
in order. -/
def fieldVals : V → M (List (String × PVal))
  | some (.obj _ fs) => pure fs
  | _ => throw .attributeError

/-- `x.__dict__.get(k)` -/
def dictGet : V → String → M V
  | some (.obj _ fs), k => pure (AL.get fs k)
  | _, _ => throw .attributeError

/-- `x.__dict__[k] = v` (on a fresh copy; the updated object is the result). A field set to
`None` is the same as an absent one for `.get` and `_get_field_vals`. -/
def dictSet : V → String → V → M V
  | some (.obj c fs), k, some v => pure (some (.obj c (AL.ins k v fs)))
  | some (.obj c fs), k, none => pure (some (.obj c (AL.erase k fs)))
  | _, _, _ => throw .attributeError

end MetadorModel.PartialPy
