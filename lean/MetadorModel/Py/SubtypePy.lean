import MetadorModel.Model.Subtype
/-!
# Python value dictionary for the translation of the override check (C13)

`harness/translate_c13.py` turns the `ast` of `is_subtype` & co. (util/typing.py), `is_public_name`
(util/__init__.py), `_check_type_mergeable` & co. (schema/partial.py), `check_types`,
`check_allowed_types`, `check_overrides`, `detect_field_overrides`, the tail of `SchemaMagic.__new__`
(schema/core.py) and the decorators of schema/decorators.py into Lean text (`Gen/SubtypeFns.lean`) that
only uses the *model's* data types (`Codec.Ty`, `Codec.Json`, `Subtype.Table` …) and the operations below.
Each operation is the fixed meaning of one Python construct on those types; together with the table in
the docstring of `harness/translate_c13.py` this file *is* the dictionary. Hand-written, import-free
apart from the model. Nothing here depends on what the translated functions currently do.

Python value                                     Lean
-----------------------------------------------  ---------------------------------------------------
a type hint object (also the things `get_args`   `Hint`: `.ty t` (a field type of the grammar `Codec.Ty`),
returns that are no types)                       `.noneType`, `.val l` (argument of a `Literal`), `.any`,
                                                 `.optAny` (`Optional[Any]`), `.litOf j` (`Literal[v]` of a
                                                 constant that is no str/int/bool), `.obj` (anything else)
`get_origin(h)` and `List`, `Set`, `Union` …     `getOrigin h : Origin`
`get_args(h)`                                    `getArgs h` (`Optional[X]`: the arguments of `X` if it is a
                                                 Union, else `X`, then `NoneType` — what `typing` builds)
`traverse_typehint(h)`                           `traverseTypehint h` (pre-order; `traverse_unfold` in the
                                                 bridge shows it is `make_tree_traversal(get_args)`)
`rv.is_subtype(a, b)` (runtype)                  `rvIsSubtype T a b` = the model's `le T (canon a) (canon b)`
a `str`                                          `Codec.Str` (= `List Char`); `s[0]` ↦ `strIdx s 0`
a set / tuple / key view of names                `List Str` read up to order and multiplicity (`setDiff`,
                                                 `setInter`, truthiness = non-empty); iteration over a *set*
                                                 goes through `setOrder` (any function that keeps the members)
a dict `name -> hint` / `name -> constant`       association lists, first entry of a key counts
a schema class that exists (`schema`, `b`, `s`)  `PyCls`: `.root` = `MetadataSchema`, `.cls n` = the class `n`
                                                 of the table `T` (a name `T` does not define is no class of
                                                 the model: it is treated like `MetadataSchema`)
`schema._typehints`, `._base_typehints`,         `clsTypehints T s`, `clsBaseTypehints T s`, `clsAnnotations T s`,
`get_annotations(schema)`, `.__constants__`,     `clsConstants T s`, `clsOverrides T s`, `clsBases T s`,
`.__overrides__`, `.__bases__`, `.Fields`        `clsFields T s` (inspectors; `.schemas` in the model's order)
`schema.__types_checked__` (read / write)        `getChecked s` / `setChecked s b` on the state `St.marks`
a list object shared between calls (`walk`)      a reference into `St.heap`; `[]` ↦ `newList`
a class under construction (`ret`, `mcls`)       `ClsView` (what `__fields__`, `__annotations__`, `__constants__`,
                                                 `__overrides__`, `__config__.extra`, the base's `__fields__` /
                                                 `__constants__` / `__config__.extra` hold at that moment)
a pydantic `ModelField`                          `PyField` (`shape`, `type_`); `ModelField.infer(annotation=h)` ↦
                                                 `fieldOfHint h`
a raised exception                               `PyErr`
-/
namespace MetadorModel.SubtypePy
open MetadorModel.Codec MetadorModel.Subtype

inductive PyErr
  | typeError | valueError | keyError | indexError | attributeError | recursionError
deriving DecidableEq, Repr, Inhabited

abbrev E := Except PyErr

/-! ## type hints -/

inductive Hint
  | ty (t : Ty)
  | noneType
  | val (l : Lit)
  | any
  | optAny
  | litOf (j : Json)
  | obj
deriving Inhabited

inductive Origin
  | List | Set | Union | ClassVar | Annotated | Literal | none
deriving DecidableEq, Repr, Inhabited

/-- `get_origin` (`util/typing.py:49`, with the 3.8 map) -/
def getOrigin : Hint → Origin
  | .ty (.list _) => .List
  | .ty (.set _) => .Set
  | .ty (.opt _) => .Union
  | .ty (.union _) => .Union
  | .ty (.ann _) => .Annotated
  | .ty (.lit _) => .Literal
  | .optAny => .Union
  | .litOf _ => .Literal
  | _ => .none

/-- `hint is NoneType` -/
def Hint.isNoneType : Hint → Bool
  | .noneType => true
  | _ => false

/-- `get_args` -/
def getArgs : Hint → List Hint
  | .ty (.opt t) => (tyArgs (.opt t)).map .ty ++ [.noneType]
  | .ty (.union ts) => ts.map .ty
  | .ty (.list t) => [.ty t]
  | .ty (.set t) => [.ty t]
  | .ty (.ann t) => [.ty t, .obj]
  | .ty (.lit vs) => vs.map .val
  | .optAny => [.any, .noneType]
  | .litOf _ => [.obj]
  | _ => []

def isUnionTy : Ty → Bool
  | .union _ => true
  | _ => false

mutual
def travTy : Ty → List Hint
  | .opt t => .ty (.opt t) :: ((if isUnionTy t then (travTy t).tail else travTy t) ++ [.noneType])
  | .union ts => .ty (.union ts) :: travTys ts
  | .list t => .ty (.list t) :: travTy t
  | .set t => .ty (.set t) :: travTy t
  | .ann t => .ty (.ann t) :: (travTy t ++ [.obj])
  | .lit vs => .ty (.lit vs) :: vs.map .val
  | .bool => [.ty .bool]
  | .int => [.ty .int]
  | .float => [.ty .float]
  | .str => [.ty .str]
  | .cstr k => [.ty (.cstr k)]
  | .opq k => [.ty (.opq k)]
  | .model n e fs cs => [.ty (.model n e fs cs)]
def travTys : List Ty → List Hint
  | [] => []
  | t :: ts => travTy t ++ travTys ts
end

/-- `traverse_typehint = make_tree_traversal(get_args)` (`util/typing.py:139-163`), pre-order -/
def traverseTypehint : Hint → List Hint
  | .ty t => travTy t
  | .optAny => [.optAny, .any, .noneType]
  | .litOf j => [.litOf j, .obj]
  | h => [h]

/-- `runtype.validation.is_subtype`: the model's canonical `<=`; outside the grammar nothing is related -/
def rvIsSubtype (T : Table) : Hint → Hint → E Bool
  | .ty a, .ty b => pure (le T (canon a) (canon b))
  | _, _ => pure false

/-- `Literal[value]` for a JSON-like constant -/
def mkLiteral (j : Json) : Hint :=
  match jsonLit? j with
  | some l => .ty (.lit [l])
  | none => .litOf j

/-- `unoptional` (`util/typing.py:185-202`) -/
def unoptional : Hint → Hint
  | .ty t => .ty (unopt t)
  | .optAny => .any
  | h => h

/-- `is_enum` = `is_subclass_of(enum.Enum)`: the grammar has no Enum classes -/
def isEnum (_ : Hint) : Bool := false

/-- `isinstance(value, <hint>)` for a constant: only evaluated for Enum classes -/
def isinstanceOfHint (_ : Json) (_ : Hint) : Bool := false

/-- `is_instance_of(type)`: the hint object is a class -/
def isTypeObj : Hint → Bool
  | .ty .bool => true
  | .ty .int => true
  | .ty .float => true
  | .ty .str => true
  | .ty (.cstr _) => true
  | .ty (.opq _) => true
  | .ty (.model _ _ _ _) => true
  | .noneType => true
  | _ => false

/-- `is_subclass_of(UndefVersion)`: no class of the model is an `UndefVersion` wrapper -/
def isUndefVersion (_ : Hint) : Bool := false

/-! ## strings, name collections, dicts -/

/-- `s[i]` (a string of length one) -/
def strIdx (s : Str) (i : Nat) : E Str :=
  match s[i]? with
  | some c => pure [c]
  | none => throw .indexError

/-- `xs[i]` -/
def listIdx {α : Type} (xs : List α) (i : Nat) : E α :=
  match xs[i]? with
  | some x => pure x
  | none => throw .indexError

/-- `all(map(f, xs))` for an `f` that can raise: left to right, stops at the first `False` -/
def allM {α : Type} (f : α → E Bool) : List α → E Bool
  | [] => pure true
  | x :: xs => f x >>= fun b => if b then allM f xs else pure false

/-- `any(map(f, xs))` -/
def anyM {α : Type} (f : α → E Bool) : List α → E Bool
  | [] => pure false
  | x :: xs => f x >>= fun b => if b then pure true else anyM f xs

/-- `filter(f, xs)` / a comprehension with a condition, consumed completely -/
def filterM {α : Type} (f : α → E Bool) : List α → E (List α)
  | [] => pure []
  | x :: xs => f x >>= fun b => filterM f xs >>= fun r => pure (if b then x :: r else r)

/-- `map(f, xs)` consumed completely -/
def mapM' {α β : Type} (f : α → E β) : List α → E (List β)
  | [] => pure []
  | x :: xs => f x >>= fun y => mapM' f xs >>= fun r => pure (y :: r)

/-- `a - b` on sets of names -/
def setDiff (a b : List Str) : List Str := a.filter (fun x => !b.contains x)

/-- `a.intersection(b)` -/
def setInter (a b : List Str) : List Str := a.filter (fun x => b.contains x)

/-- `d.keys()` / iteration over a dict -/
def dictKeys {α : Type} (d : List (Str × α)) : List Str := d.map (·.1)

def dictValues {α : Type} (d : List (Str × α)) : List α := d.map (·.2)

/-- `d.get(k)` -/
def dictGet? {α : Type} (k : Str) : List (Str × α) → Option α
  | [] => none
  | (k', v) :: r => if k == k' then some v else dictGet? k r

/-- `d[k]` -/
def dictGet {α : Type} (d : List (Str × α)) (k : Str) : E α :=
  match dictGet? k d with
  | some v => pure v
  | none => throw .keyError

/-- `k in d` -/
def dictHas {α : Type} (d : List (Str × α)) (k : Str) : Bool := (dictGet? k d).isSome

/-- `d[k] = v` (an existing key keeps its position) -/
def dictSet {α : Type} (k : Str) (v : α) : List (Str × α) → List (Str × α)
  | [] => [(k, v)]
  | (k', v') :: r => if k == k' then (k', v) :: r else (k', v') :: dictSet k v r

/-- `d.update(e)` -/
def dictUpdate {α : Type} (d e : List (Str × α)) : List (Str × α) :=
  e.foldl (fun acc p => dictSet p.1 p.2 acc) d

/-! ## schema classes of the table -/

inductive PyCls
  | root
  | cls (n : Str)
deriving DecidableEq, Repr, Inhabited

/-- `schema is MetadataSchema` -/
def isMetadataSchema (T : Table) : PyCls → Bool
  | .root => true
  | .cls n => (find T n).isNone

def hintsOf (l : List (Str × Ty)) : List (Str × Hint) := l.map (fun p => (p.1, .ty p.2))

def anyOf (l : List (Str × Json)) : List (Str × Hint) := l.map (fun p => (p.1, .any))

/-- `schema._typehints`: the fields, then the constants (annotated `Any` by `add_const_fields`);
the `ClassVar` entries (`Plugin`, `__constants__` …) are outside the model -/
def clsTypehints (T : Table) : PyCls → List (Str × Hint)
  | .root => []
  | .cls n => hintsOf (typeHints T n) ++ anyOf (allConsts T n)

/-- `schema._base_typehints` (`ChainMap` over the `_typehints` of the bases) -/
def clsBaseTypehints (T : Table) : PyCls → List (Str × Hint)
  | .root => []
  | .cls n =>
    match find T n with
    | none => []
    | some c => hintsOf (baseHints T c) ++ anyOf (baseConsts T c)

/-- `get_annotations(schema)`: own annotations as written, plus what `make_mandatory` and
`add_const_fields` wrote (`Any` for a constant, in place) -/
def clsAnnotations (T : Table) : PyCls → List (Str × Hint)
  | .root => []
  | .cls n =>
    match find T n with
    | none => []
    | some c => dictUpdate (hintsOf (ownHints (baseHints T c) c)) (anyOf c.consts)

/-- `schema.__constants__` (inherited and own) -/
def clsConstants (T : Table) : PyCls → List (Str × Json)
  | .root => []
  | .cls n => allConsts T n

/-- `schema.__overrides__` (never inherited: reset by `SchemaMagic.__init__`) -/
def clsOverrides (T : Table) : PyCls → List Str
  | .root => []
  | .cls n =>
    match find T n with
    | none => []
    | some c => c.overrides

/-- `schema.__bases__` (single inheritance) -/
def clsBases (T : Table) : PyCls → List PyCls
  | .root => []
  | .cls n =>
    match find T n with
    | none => []
    | some c =>
      match c.parent with
      | some p => [.cls p]
      | none => [.root]

/-- `issubclass(b, MetadataSchema)`: every class of the model is one -/
def isSchemaClass (_ : PyCls) : Bool := true

/-- a `SchemaFieldInspector`: `.schemas` (name -> nested schema class) -/
structure FieldInsp where
  schemas : List (Str × PyCls)

/-- `schema.Fields` in the model's order: own annotations that are no constants, then the bases' -/
def clsFieldsF (T : Table) : Nat → Str → List (Str × FieldInsp)
  | 0, _ => []
  | fuel + 1, n =>
    match find T n with
    | none => []
    | some c =>
      let consts := allConsts T n
      let own := (ownHints (baseHints T c) c).filter (fun p => !hasKey p.1 consts)
      own.map (fun p => (p.1, ⟨(nestedNames p.2).map (fun s => (s, PyCls.cls s))⟩)) ++
        (match c.parent with
         | some p => clsFieldsF T fuel p
         | none => [])

def clsFields (T : Table) : PyCls → List (Str × FieldInsp)
  | .root => []
  | .cls n => clsFieldsF T (T.length + 1) n

/-! ## the state `check_types` works on -/

structure St where
  /-- classes whose `__types_checked__` is `True` -/
  marks : List Str
  /-- list objects -/
  heap : List (List PyCls)

def SM (α : Type) := St → Except PyErr α × St

instance : Monad SM where
  pure a := fun s => (.ok a, s)
  bind m f := fun s =>
    match m s with
    | (.ok a, s') => f a s'
    | (.error e, s') => (.error e, s')

def SM.throw {α : Type} (e : PyErr) : SM α := fun s => (.error e, s)

/-- `try: m  except Exception: h` (the state changes of `m` stay) -/
def SM.tryCatch {α : Type} (m : SM α) (h : PyErr → SM α) : SM α := fun s =>
  match m s with
  | (.ok a, s') => (.ok a, s')
  | (.error e, s') => h e s'

def liftE {α : Type} (m : E α) : SM α := fun s => (m, s)

def getChecked : PyCls → SM Bool
  | .root => fun s => (.ok false, s)
  | .cls n => fun s => (.ok (s.marks.contains n), s)

def setChecked : PyCls → Bool → SM Unit
  | .root, _ => fun s => (.ok (), s)
  | .cls n, true => fun s => (.ok (), if s.marks.contains n then s else { s with marks := n :: s.marks })
  | .cls n, false => fun s => (.ok (), { s with marks := s.marks.filter (fun m => m != n) })

abbrev Ref := Nat

/-- `[]`: a new list object -/
def newList : SM Ref := fun s => (.ok s.heap.length, { s with heap := s.heap ++ [[]] })

/-- `l.append(x)` (`None.append` is an AttributeError) -/
def listAppend : Option Ref → PyCls → SM Unit
  | none, _ => SM.throw .attributeError
  | some r, x => fun s =>
    match s.heap[r]? with
    | some l => (.ok (), { s with heap := s.heap.set r (l ++ [x]) })
    | none => (.error .attributeError, s)

/-- the items of a list object (iteration over `None` is a TypeError) -/
def listItems : Option Ref → SM (List PyCls)
  | none => SM.throw .typeError
  | some r => fun s =>
    match s.heap[r]? with
    | some l => (.ok l, s)
    | none => (.error .typeError, s)

/-! ## a class under construction -/

inductive Shape
  | singleton | other
deriving DecidableEq, Repr, Inhabited

/-- pydantic `ModelField` -/
structure PyField where
  shape : Shape
  type_ : Hint
  /-- set by `make_mandatory`; not read by any translated function -/
  required : Bool := false

/-- attribute access on the result of `dict.get` (`None.shape` is an AttributeError) -/
def optAttr : Option PyField → E PyField
  | some f => pure f
  | none => throw .attributeError

/-- pydantic's `ModelField.type_`: the innermost item type -/
def innerTy : Ty → Ty
  | .opt t => innerTy t
  | .list t => innerTy t
  | .set t => innerTy t
  | .ann t => innerTy t
  | t => t

/-- the `ModelField` pydantic infers for an annotation -/
def fieldOfHint : Hint → PyField
  | .ty t => { shape := if (singletonTy t).isSome then .singleton else .other, type_ := .ty (innerTy t) }
  | .optAny => { shape := .singleton, type_ := .any }
  | h => { shape := .singleton, type_ := h }

structure ClsView where
  /-- `__fields__` -/
  fields : List (Str × PyField)
  /-- own `__annotations__` -/
  annotations : List (Str × Hint)
  /-- `__constants__` -/
  constants : List (Str × Json)
  /-- `__overrides__` -/
  overrides : List Str
  /-- `__config__.extra` -/
  extra : Extra
  /-- `__base__.__config__.extra` -/
  baseExtra : Extra
  /-- the type hints of the bases (for `field_parent_type`) -/
  parentHints : List (Str × Hint)

/-- `field_parent_type(mcls, name)` (`util/models.py:50-55`) -/
def fieldParentType (v : ClsView) (name : Str) : E Hint :=
  match dictGet? name v.parentHints with
  | some h => pure h
  | none => throw .valueError

/-- the fields of a class: the hints, then the inherited constants (`Optional[Any]` fields) -/
def fieldsOf (hints : List (Str × Ty)) (bconsts : List (Str × Json)) : List (Str × PyField) :=
  hints.map (fun p => (p.1, fieldOfHint (.ty p.2))) ++ bconsts.map (fun p => (p.1, fieldOfHint .optAny))

def parentExtraOf (T : Table) (c : ClassDef) : Extra :=
  match c.parent.bind (find T) with
  | some p => effExtra T p
  | none => .allow

/-- hints of the class before the decorators ran -/
def declHints (T : Table) (c : ClassDef) : List (Str × Ty) :=
  (c.fields.map (fun f => (f.1, f.2.1))).foldl (fun acc (p : Str × Ty) => setHint p.1 p.2 acc) (baseHints T c)

/-- the class `SchemaMagic.__new__` has just built (`ret`), before any decorator ran -/
def viewNew (T : Table) (c : ClassDef) : ClsView where
  fields := fieldsOf (declHints T c) (baseConsts T c)
  annotations := hintsOf (c.fields.map (fun f => (f.1, f.2.1)))
  constants := baseConsts T c
  overrides := []
  extra := effExtra T c
  baseExtra := parentExtraOf T c
  parentHints := hintsOf (baseHints T c) ++ anyOf (baseConsts T c)

/-- the base class (`baseschema = bases[0]`) of the class `SchemaMagic.__new__` builds; `MetadataSchema`
itself has no fields, no constants and allows extras -/
def viewBase (T : Table) (c : ClassDef) : ClsView where
  fields := fieldsOf (baseHints T c) (baseConsts T c)
  annotations := []
  constants := baseConsts T c
  overrides := []
  extra := parentExtraOf T c
  baseExtra := .allow
  parentHints := []

/-- the class as `add_const_fields` sees it (after `make_mandatory` and `override`) -/
def viewDeco (T : Table) (c : ClassDef) : ClsView :=
  let hints := (ownHints (baseHints T c) c).foldl (fun acc (p : Str × Ty) => setHint p.1 p.2 acc) (baseHints T c)
  { viewNew T c with
    fields := fieldsOf hints (baseConsts T c)
    annotations := hintsOf (ownHints (baseHints T c) c)
    overrides := c.overrides }

/-- outcome kinds: the model's refusals as Python exceptions -/
def ofRefusal : Except Refusal Unit → E Unit
  | .ok () => .ok ()
  | .error .typeError => .error .typeError
  | .error .valueError => .error .valueError

end MetadorModel.SubtypePy
