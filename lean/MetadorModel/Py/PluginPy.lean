import MetadorModel.Model.Plugin
/-!
# Python value dictionary for the translation of the plugin-group functions (property C16)

`harness/translate_c16.py` turns the `ast` of `to_semver_str`, `from_semver_str`, `to_ep_name`,
`from_ep_name`, `ep_name_has_namespace` and the regular expressions behind `SemVerStr` / `EPName`
(`plugin/types.py`), of `PluginGroup._add_ep`, `versions`, `resolve`, `__contains__`, `__getitem__`,
`keys`, `_get_unsafe`, `get` (`plugin/interface.py`) and of `register_in_group` (`plugin/util.py`) into
Lean text (`Gen/PluginGroupFns.lean`) that only uses the *model's* data types (`Plugin.Ver`,
`Plugin.Ref`, `Plugin.Table`) and the operations below. Each operation is the fixed meaning of one
Python construct on those types; together with the table in the docstring of
`harness/translate_c16.py` this file *is* the dictionary. Hand-written; imports the model for its
types only (and the generic, comparison-parametric `Plugin.sortWith`, `Plugin.ltFrom`, `Plugin.truthy`).
Nothing here is specific to what the translated functions currently do (no name alphabet, no
separator, no regular expression).

Python value                                       Lean
-------------------------------------------------  ----------------------------------------------
`str` that is taken apart / matched / built        `Str` = `List Char`
`str` stored in a reference or used as dict key    `String` (`String.ofList` at the point of storing)
non-negative `int`                                 `Nat`
`SemVerTuple`                                      `Plugin.Ver`; iterating it ↦ `pyVerIter`
`Optional[SemVerTuple]`                            `Option Ver` (a 3-tuple is always truthy)
`PluginRef` / `AnyPluginRef` / `self.PluginRef`    `Plugin.Ref` (the group-bound subclass fixes `group`)
`Optional[bool]` result of a `PluginRef` method    `Option Bool`, truth value `Plugin.truthy`
`self._VERSIONS : Dict[str, List[PluginRef]]`      `Plugin.Table` (association list in insertion order)
`key` of `in` / `[]` / `get` (str, pair, ref, …)   `PyKey` (what `plugin_args` makes of it + "is a str")
a plugin class held in `_LOADED_PLUGINS`           its reference (`Plugin.Ref`)
a pattern given to `phantom.re.FullMatch`          `Re` (parse tree of Python's own `re._parser`)
a raised exception                                 `Except.error (e : PyErr)`
-/
namespace MetadorModel.PluginPy
open MetadorModel.Plugin

abbrev Str := List Char

/-- exception classes that the translated code raises itself or that the dictionary raises for it;
`unmodelled`: the Python construct was used outside the part of its domain that the dictionary
describes (the bridge theorems prove that this never happens) -/
inductive PyErr where
  | typeError | valueError | keyError | indexError | runtimeError | unmodelled
deriving DecidableEq, Repr

/-! ## regular expressions (`re`, `str` patterns, no flags), used through `fullmatch`

The translator parses the pattern text with Python's own `re._parser` and maps the parse tree node by
node: a sequence of items ↦ `seqOf [..]` (a single item: itself), `LITERAL c` ↦ `.atom (.chr c)`,
`IN [..]` ↦ `.atom (.cls neg items)`, `NOT_LITERAL c` ↦ `.atom (.cls true [.chr c])`, `ANY` ↦
`.atom .dot`, `SUBPATTERN` (a group without flags) ↦ its content, `BRANCH` ↦ `.alt`,
`MAX_REPEAT (0,1) x` ↦ `.opt x`, `(0,∞)` ↦ `.star x`, `(1,∞)` ↦ `.plus x`. Anchors, back references,
look-around, lazy / possessive quantifiers, counted repeats and flags are not in the dictionary.
Without them `pattern.fullmatch(s)` succeeds exactly if `s` is in the language of the expression
(the backtracking search is exhaustive); that language is `Re.Matches`, decided by `Re.test`. -/

inductive ClassItem where
  | chr (c : Char)
  | range (lo hi : Char)
deriving DecidableEq, Repr

/-- something that consumes exactly one character -/
inductive Atom where
  | chr (c : Char)
  | cls (neg : Bool) (items : List ClassItem)   -- `[...]` / `[^...]`
  | dot                                         -- `.` without DOTALL: anything but `"\n"`
deriving DecidableEq, Repr

/-- code points compare as in `re` (Lean's order on `Char` is the order of code points) -/
def ClassItem.ok : ClassItem → Char → Bool
  | .chr d, c => c == d
  | .range lo hi, c => decide (lo ≤ c) && decide (c ≤ hi)

def Atom.ok : Atom → Char → Bool
  | .chr d, c => c == d
  | .cls neg items, c => (items.any (fun i => i.ok c)) != neg
  | .dot, c => c != '\n'

inductive Re where
  | empty                 -- matches nothing (only produced by derivatives)
  | eps                   -- the empty sequence
  | atom (a : Atom)
  | seq (r q : Re)
  | alt (r q : Re)
  | opt (r : Re)
  | star (r : Re)
  | plus (r : Re)
deriving DecidableEq, Repr

/-- a sequence of items (right-nested) -/
def Re.seqOf : List Re → Re
  | [] => .eps
  | [r] => r
  | r :: rs => .seq r (Re.seqOf rs)

/-- the language of a regular expression -/
def Re.Matches : Re → Str → Prop
  | .empty, _ => False
  | .eps, s => s = []
  | .atom a, s => ∃ c, s = [c] ∧ a.ok c = true
  | .seq r q, s => ∃ s1 s2, s = s1 ++ s2 ∧ r.Matches s1 ∧ q.Matches s2
  | .alt r q, s => r.Matches s ∨ q.Matches s
  | .opt r, s => s = [] ∨ r.Matches s
  | .star r, s => ∃ l : List Str, s = l.flatten ∧ ∀ x ∈ l, r.Matches x
  | .plus r, s => ∃ s1 l, s = s1 ++ (l : List Str).flatten ∧ r.Matches s1 ∧ ∀ x ∈ l, r.Matches x

def Re.nullable : Re → Bool
  | .empty => false
  | .eps => true
  | .atom _ => false
  | .seq r q => r.nullable && q.nullable
  | .alt r q => r.nullable || q.nullable
  | .opt _ => true
  | .star _ => true
  | .plus r => r.nullable

/-- Brzozowski derivative -/
def Re.deriv (c : Char) : Re → Re
  | .empty => .empty
  | .eps => .empty
  | .atom a => if a.ok c then .eps else .empty
  | .seq r q => if r.nullable then .alt (.seq (r.deriv c) q) (q.deriv c) else .seq (r.deriv c) q
  | .alt r q => .alt (r.deriv c) (q.deriv c)
  | .opt r => r.deriv c
  | .star r => .seq (r.deriv c) (.star r)
  | .plus r => .seq (r.deriv c) (.star r)

/-- decision procedure for `Re.Matches` (`Bridge/PluginGroupFnsDict.lean`: `Re.test_iff`) -/
def Re.test : Re → Str → Bool
  | r, [] => r.nullable
  | r, c :: s => (r.deriv c).test s

/-- `C(s)` for `class C(FullMatch, pattern=p)` and a `str` s: the string itself (a `str` subclass
instance, equal to s) if it matches entirely, else `TypeError` (phantom's `parse`) -/
def pyFullMatch (p : Re) (s : Str) : Except PyErr Str :=
  if p.test s then .ok s else .error .typeError

/-! ## strings -/

def pyStartswith : Str → Str → Bool
  | _, [] => true
  | [], _ :: _ => false
  | c :: s, d :: p => c == d && pyStartswith s p

/-- worker of `str.split(sep, maxsplit)`: `m` splits are still allowed (`none`: no limit), `skip`
characters of a separator just found are still to be dropped, `cur` is the current piece (reversed) -/
def pySplitGo (sep : Str) : Option Nat → Nat → Str → Str → List Str
  | _, _, [], cur => [cur.reverse]
  | m, k + 1, _ :: r, cur => pySplitGo sep m k r cur
  | some 0, 0, c :: r, cur => pySplitGo sep (some 0) 0 r (c :: cur)
  | some (m + 1), 0, c :: r, cur =>
    if pyStartswith (c :: r) sep then cur.reverse :: pySplitGo sep (some m) (sep.length - 1) r []
    else pySplitGo sep (some (m + 1)) 0 r (c :: cur)
  | none, 0, c :: r, cur =>
    if pyStartswith (c :: r) sep then cur.reverse :: pySplitGo sep none (sep.length - 1) r []
    else pySplitGo sep none 0 r (c :: cur)

/-- `s.split(sep)` for a **non-empty** `sep` (an empty one raises `ValueError`; the translator
accepts only separators that are non-empty string constants): leftmost non-overlapping occurrences -/
def pySplit (s sep : Str) : List Str := pySplitGo sep none 0 s []

/-- `s.split(sep, maxsplit)` (non-empty `sep`, `maxsplit ≥ 0`) -/
def pySplitMax (s sep : Str) (maxsplit : Nat) : List Str := pySplitGo sep (some maxsplit) 0 s []

/-- `sep.join(l)` -/
def pyJoin (sep : Str) : List Str → Str
  | [] => []
  | [a] => a
  | a :: b :: r => a ++ sep ++ pyJoin sep (b :: r)

/-- `str(n)` / `f"{n}"` for a non-negative `int` -/
def pyStrNat (n : Nat) : Str := Nat.toDigits 10 n

def pyIsAsciiDigit (c : Char) : Bool := decide ('0' ≤ c) && decide (c ≤ '9')

/-- `int(s)` on a non-empty string of ASCII digits. Everything else (`ValueError`, but also signs,
surrounding white space, `_`, non-ASCII digits, which `int` accepts) is outside the dictionary. -/
def pyInt (s : Str) : Except PyErr Nat :=
  if !s.isEmpty && s.all pyIsAsciiDigit then
    .ok (s.foldl (fun acc c => 10 * acc + (c.toNat - 48)) 0)
  else .error .unmodelled

/-- `map(f, l)` consumed completely, for an `f` that may raise (first exception wins) -/
def pyMapM {α β : Type} (f : α → Except PyErr β) : List α → Except PyErr (List β)
  | [] => .ok []
  | a :: r =>
    match f a with
    | .error e => .error e
    | .ok b =>
      match pyMapM f r with
      | .error e => .error e
      | .ok bs => .ok (b :: bs)

/-- iterating a `SemVerTuple` -/
def pyVerIter (v : Ver) : List Nat := [v.1, v.2.1, v.2.2]

/-- a `tuple(..)` of ints handed out under the annotation `SemVerTuple`: the model's triple. A tuple
of another length would be handed out just the same by Python; that is outside the dictionary. -/
def pyVerOfTuple : List Nat → Except PyErr Ver
  | [a, b, c] => .ok (a, b, c)
  | _ => .error .unmodelled

/-! ## lists of references -/

/-- `l[-1]` -/
def pyLast {α : Type} (l : List α) : Except PyErr α :=
  match l.getLast? with
  | some x => .ok x
  | none => .error .indexError

/-- `x or y` for `x : Optional[List]` (`None` and `[]` are falsy), `y` a list -/
def pyOrList {α : Type} (x : Option (List α)) (y : List α) : List α :=
  match x with
  | some l => if l.isEmpty then y else l
  | none => y

/-- `x in l` on a list: CPython's `list.__contains__` asks `item == x` for the items in order
(after an identity test, which can only turn an answer into `True` that a reflexive `==` gives anyway) -/
def pyIn (eqF : Ref → Ref → Option Bool) (x : Ref) (l : List Ref) : Bool :=
  l.any (fun item => truthy (eqF item x))

/-- `l.sort()` on a list of references whose class gets `<` from `functools.total_ordering` and a
user `__ge__` (`_lt_from_ge`): stable, uses only `<` -/
def pySort (geF : Ref → Ref → Option Bool) (l : List Ref) : List Ref := sortWith (ltFrom geF) l

/-! ## `self._VERSIONS` -/

/-- `d.get(k)` -/
def pyDictGet : Table → String → Option (List Ref)
  | [], _ => none
  | (k, l) :: t, n => if k == n then some l else pyDictGet t n

/-- `k in d` -/
def pyDictHas (t : Table) (n : String) : Bool := (pyDictGet t n).isSome

/-- `d[k]` -/
def pyDictGetItem (t : Table) (n : String) : Except PyErr (List Ref) :=
  match pyDictGet t n with
  | some l => .ok l
  | none => .error .keyError

/-- `d[k] = l` (an existing key keeps its position, a new one goes to the end); also the effect of
mutating the list stored under `k` in place -/
def pyDictSet : Table → String → List Ref → Table
  | [], n, l => [(n, l)]
  | (k, l') :: t, n, l => if k == n then (k, l) :: t else (k, l') :: pyDictSet t n l

/-- `d.values()` -/
def pyDictValues (t : Table) : List (List Ref) := t.map (fun e => e.2)

/-! ## keys of the dict-like interface -/

/-- What `plugin_args(key)` (not translated) makes of the `key` given to `in` / `[]` / `get`: a name
and possibly a version; `isStr`: `isinstance(key, str)`. -/
structure PyKey where
  name : String
  version : Option Ver
  isStr : Bool
deriving Repr

/-- `plugin_args(key, version)` (hand-written, not translated): an explicitly passed version wins
over the one the key carries -/
def pyPluginArgs (key : PyKey) (version : Option Ver) : String × Option Ver :=
  (key.name, match version with
             | some v => some v
             | none => key.version)

end MetadorModel.PluginPy
