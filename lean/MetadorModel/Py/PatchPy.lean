import MetadorModel.Py.RecordPy
/-!
# Python value dictionary for the translation of the patch life cycle (property C11)

`harness/translate_c11.py` turns the `ast` of `IH5Record._new_container`, `create_patch`,
`_delete_latest_container`, `discard_patch`, `commit_patch`, `close` (with the guards `_expect_open`,
`_expect_not_ro`, `mode`, `_has_writable`, `_ublock`, `_set_ublock`), `IH5UserBlock.create`
(ih5/record.py) and `IH5MFRecord.commit_patch`, `_manifest_filepath` (ih5/manifest.py) into Lean
text (`Gen/PatchSteps.lean`) that uses the data types of the record model (`Record.UB`,
`Record.Disk`, `Record.Out`, `FindFiles.Name`) and the operations below. Each operation is the
fixed meaning of one Python construct; together with the table in the docstring of
`harness/translate_c11.py` this file *is* the dictionary. Nothing here knows in which order the
translated methods call these operations: that order is what the translation reads off the source.

Python value                                      Lean
------------------------------------------------  ---------------------------------------------
`h5py.File` object                                `H5` (file name, `.mode == "r+"`, `bool(f)`)
`IH5UserBlock`                                    `Record.UB` (value semantics)
`pathlib.Path` of a container / sidecar           its base name (`FindFiles.Name`)
`self.__files__` (also `self._files`)             `Obj.files : List H5`
`self._ublocks` (dict, keys unique)               `Obj.ublocks : List (Name × UB)` (insertion order)
`self._closed / _allow_patching / _manifest`      `Obj.closed / allow / manifest`
`type(self)`                                      `Obj.mfcls` (`IH5MFRecord` or the plain class)
`uuid1()`                                         the next number of the counter `World.next`
`IH5Manifest` (`_fresh_manifest()`)               `(uuid, body) : Nat × Nat`, both fresh (as the model)
a hash sum of a payload / of a manifest           the payload / the body number itself (as the model)
`**kwargs`                                        `Kw = List (Str × PyAny)`: only the *names* matter
a raised exception                                `Except.error (e : Out)`; the world reached stays
the file system                                   `World.disk : Record.Disk` **and** the log
                                                  `World.trace : List (Act Name UB)` of the
                                                  file-system actions performed so far, in order
-/
namespace MetadorModel.PatchPy
open MetadorModel.FindFiles MetadorModel.Record MetadorModel.RecordPy

/-- an `h5py.File` object (`.filename`, `.mode == "r+"`, `bool(f)`: not closed).
h5py reports the mode `"r+"` for every handle that is not read-only (also one made with `"x"`). -/
structure H5 where
  name : Name
  rw   : Bool
  live : Bool
deriving DecidableEq, Repr, Inhabited

/-- One file-system action, as the outside world (and a crash) gets to see it.
`N`: file names, `U`: user blocks. -/
inductive Act (N U : Type) where
  /-- `h5py.File(f, "x", userblock_size=n)` went through: the file appears, `n` zero bytes reserved -/
  | create (f : N) (ubsize : Nat)
  /-- `close()` of a live `h5py.File`; `rw`: the handle was writable, HDF5 flushes the payload -/
  | h5close (f : N) (rw : Bool)
  /-- `IH5UserBlock.save(f)`: in-place write of the framed block at offset 0 -/
  | writeUB (f : N) (ub : U)
  /-- `h5py.File(f, "r+")` (`rw`) / `h5py.File(f, "r")` on an existing file -/
  | reopen (f : N) (rw : Bool)
  /-- `hashsum_file(f, skip_bytes=n)`: the file is read from offset `n` -/
  | hashPayload (f : N) (skip : Nat)
  /-- `IH5Manifest.save(f)`: the sidecar is (over)written -/
  | writeManifest (f : N) (uuid body : Nat)
  /-- `Path(f).unlink()` -/
  | unlink (f : N)
  /-- a write through a writable `h5py.File` between two API calls (never emitted by the translated
  methods; used to state what may happen between `create_patch` and `commit_patch`) -/
  | h5write (f : N)
deriving DecidableEq, Repr

def Act.map {N U N' U' : Type} (fn : N → N') (fu : U → U') : Act N U → Act N' U'
  | .create f n => .create (fn f) n
  | .h5close f rw => .h5close (fn f) rw
  | .writeUB f u => .writeUB (fn f) (fu u)
  | .reopen f rw => .reopen (fn f) rw
  | .hashPayload f n => .hashPayload (fn f) n
  | .writeManifest f a b => .writeManifest (fn f) a b
  | .unlink f => .unlink (fn f)
  | .h5write f => .h5write (fn f)

/-- the record object (`self`) -/
structure Obj where
  files    : List H5 := []
  ublocks  : List (Name × UB) := []
  closed   : Bool := true
  allow    : Bool := true
  mfcls    : Bool := false
  manifest : Option (Nat × Nat) := none
deriving DecidableEq, Repr, Inhabited

structure World where
  disk  : Disk := []
  next  : Nat := 0
  self  : Obj := {}
  trace : List (Act Name UB) := []
deriving DecidableEq, Repr, Inhabited

/-- a method body: runs on a world, returns a value or raises, and leaves a world -/
@[reducible] def PatchM (α : Type) : Type := World → Except Out α × World

variable {α β : Type}

@[inline] def PatchM.pure (a : α) : PatchM α := fun w => (.ok a, w)

@[inline] def PatchM.bind (x : PatchM α) (f : α → PatchM β) : PatchM β := fun w =>
  match x w with
  | (.ok a, w') => f a w'
  | (.error e, w') => (.error e, w')

instance : Monad PatchM where
  pure := PatchM.pure
  bind := PatchM.bind

/-- `raise` -/
def PatchM.throw (e : Out) : PatchM α := fun w => (.error e, w)

/-- `try: x  except …: h` — what `x` did before it raised stays -/
def PatchM.tryCatch (x : PatchM α) (h : Out → PatchM α) : PatchM α := fun w =>
  match x w with
  | (.ok a, w') => (.ok a, w')
  | (.error e, w') => h e w'

instance : MonadExcept Out PatchM where
  throw := PatchM.throw
  tryCatch := PatchM.tryCatch

/-- a call that only computes (or raises) -/
def pyLift (x : Except Out α) : PatchM α := fun w => (x, w)

/-- `self` -/
def pySelf : PatchM Obj := fun w => (.ok w.self, w)

/-- attribute assignments `self.x = v` -/
def pySetFiles (l : List H5) : PatchM Unit := fun w => (.ok (), { w with self := { w.self with files := l } })
def pySetUblocks (d : List (Name × UB)) : PatchM Unit := fun w =>
  (.ok (), { w with self := { w.self with ublocks := d } })
def pySetClosed (b : Bool) : PatchM Unit := fun w => (.ok (), { w with self := { w.self with closed := b } })
def pySetManifest (m : Option (Nat × Nat)) : PatchM Unit := fun w =>
  (.ok (), { w with self := { w.self with manifest := m } })

/-- a file-system action is performed -/
def pyLog (a : Act Name UB) : PatchM Unit := fun w => (.ok (), { w with trace := w.trace ++ [a] })

def pySetDisk (d : Disk) : PatchM Unit := fun w => (.ok (), { w with disk := d })
def pyDisk : PatchM Disk := fun w => (.ok w.disk, w)

/-! ## plain values -/

/-- truth value of a list / dict (`if kwargs:`, `not self.__files__`) -/
def pyTruthyList (l : List α) : Bool := !l.isEmpty

/-- `l[i] = v` with Python's negative indices; `IndexError` out of range -/
def pySetIdx (l : List α) (i : Int) (v : α) : Except Out (List α) :=
  let j : Int := if i < 0 then i + l.length else i
  if j < 0 then .error .indexError
  else if j.toNat < l.length then .ok (l.set j.toNat v)
  else .error .indexError

/-- `l.pop()`: the last element and the rest; `IndexError` on an empty list -/
def pyPop (l : List α) : Except Out (α × List α) :=
  match l.getLast? with
  | some x => .ok (x, l.dropLast)
  | none => .error .indexError

/-- `d[k]`; `KeyError` -/
def pyDictGet : List (Name × UB) → Name → Except Out UB
  | [], _ => .error .keyError
  | (k, v) :: r, f => if k = f then .ok v else pyDictGet r f

/-- `d[k] = v`: overwrite in place or append (insertion order) -/
def pyDictSet : List (Name × UB) → Name → UB → List (Name × UB)
  | [], f, v => [(f, v)]
  | (k, w) :: r, f, v => if k = f then (k, v) :: r else (k, w) :: pyDictSet r f v

/-- `del d[k]`; `KeyError` -/
def pyDictDel : List (Name × UB) → Name → Except Out (List (Name × UB))
  | [], _ => .error .keyError
  | (k, w) :: r, f =>
    if k = f then .ok r
    else match pyDictDel r f with
      | .ok r' => .ok ((k, w) :: r')
      | .error e => .error e

/-- `f.mode` of an `h5py.File` -/
def pyH5Mode (f : H5) : Str := if f.rw then ['r', '+'] else ['r']

/-- the argument of `_ublock` / `_set_ublock`: `Union[h5py.File, int]`;
`isinstance(obj, h5py.File)` is the test for the first constructor -/
inductive FileOrInt where
  | file (f : H5)
  | int (i : Int)
deriving DecidableEq, Repr

/-- keyword arguments: names with values nobody here looks into -/
abbrev PyAny := Unit
abbrev Kw := List (Str × PyAny)

/-- `kwargs.pop(k, default)`; `default`: `none` for `None`, `some ()` for any other default -/
def pyKwPop (kw : Kw) (k : Str) (default : Option PyAny) : Option PyAny × Kw :=
  match kw.find? (fun e => e.1 == k) with
  | some e => (some e.2, kw.filter (fun e => !(e.1 == k)))
  | none => (default, kw)

/-! ## the counter behind `uuid1()` -/

def pyUuid1 : PatchM Nat := fun w => (.ok w.next, { w with next := w.next + 1 })

/-! ## the file system -/

/-- `h5py.File(path, "x", userblock_size=n)`: `OSError` when this object holds a live handle on the
name (HDF5 file locking), `FileExistsError` when the name is taken; otherwise the file appears with a
user block that is not one (`default`) and an empty payload. The handle is writable. -/
def pyH5Create (path : Name) (ubsize : Nat) : PatchM H5 := fun w =>
  if w.self.files.any (fun h => h.live && h.name == path) then (.error .osError, w)
  else if (getF w.disk path).isSome then (.error .fileExists, w)
  else (.ok ⟨path, true, true⟩,
        { w with disk := setF w.disk path (.cont default []), trace := w.trace ++ [.create path ubsize] })

/-- `h5py.File(path, "r+")` / `h5py.File(path, "r")`: `FileNotFoundError` when there is no such file -/
def pyH5Open (path : Name) (rw : Bool) : PatchM H5 := fun w =>
  match getF w.disk path with
  | none => (.error .fileNotFound, w)
  | some _ => (.ok ⟨path, rw, true⟩, { w with trace := w.trace ++ [.reopen path rw] })

/-- `f.close()` on a handle that is not (any more) an element of `self.__files__` -/
def pyH5Close (f : H5) : PatchM Unit := fun w =>
  if f.live then (.ok (), { w with trace := w.trace ++ [.h5close f.name f.rw] }) else (.ok (), w)

/-- `f.close()` where `f` is (an alias of) `self.__files__[i]`: the list element is closed -/
def pyH5CloseAt (i : Int) : PatchM Unit := fun w =>
  match pyIdx w.self.files i with
  | .error e => (.error e, w)
  | .ok f =>
    match pySetIdx w.self.files i { f with live := false } with
    | .error e => (.error e, w)
    | .ok l =>
      (.ok (), { w with self := { w.self with files := l },
                        trace := if f.live then w.trace ++ [.h5close f.name f.rw] else w.trace })

/-- `for f in self.__files__: body` where `body` may close `f`: `body i` runs for every index of the list
as it is when the loop starts -/
def pyForIdx : Nat → Nat → (Int → PatchM Unit) → PatchM Unit
  | 0, _, _ => pure ()
  | n + 1, i, body => do
    body (Int.ofNat i)
    pyForIdx n (i + 1) body

def pyForFiles (body : Int → PatchM Unit) : PatchM Unit := fun w =>
  pyForIdx w.self.files.length 0 body w

/-- `ub.save(path)` (`IH5UserBlock.save`, translated byte by byte in `Gen.PatchSteps.Bytes.save`): the user
block of the container is replaced; `FileNotFoundError` when there is no such file (`open(.., "r+b")`).
Saving into something that is not a container is outside the model (`OSError`). -/
def pyUBSave (ub : UB) (path : Name) : PatchM Unit := fun w =>
  match getF w.disk path with
  | none => (.error .fileNotFound, w)
  | some (.cont _ p) =>
    (.ok (), { w with disk := setF w.disk path (.cont ub p), trace := w.trace ++ [.writeUB path ub] })
  | some (.mf _ _) => (.error .osError, w)

/-- `hashsum_file(path, skip_bytes=n)`: as in the model the digest of a payload is the payload -/
def pyHashsumFile (path : Name) (skip : Nat) : PatchM (List Nat) := fun w =>
  match payloadOf w.disk path with
  | none => (.error .fileNotFound, w)
  | some p => (.ok p, { w with trace := w.trace ++ [.hashPayload path skip] })

/-- `Path(fn).unlink()` -/
def pyUnlink (path : Name) : PatchM Unit := fun w =>
  match getF w.disk path with
  | none => (.error .fileNotFound, w)
  | some _ => (.ok (), { w with disk := eraseF w.disk path, trace := w.trace ++ [.unlink path] })

/-- `path.is_file()` -/
def pyIsFile (path : Name) : PatchM Bool := fun w => (.ok (getF w.disk path).isSome, w)

/-- `mf.save(path)` (`IH5Manifest.save`: `open(path, "wb")`, write, flush) -/
def pyManifestSave (mf : Nat × Nat) (path : Name) : PatchM Unit := fun w =>
  (.ok (), { w with disk := setF w.disk path (.mf mf.1 mf.2),
                    trace := w.trace ++ [.writeManifest path mf.1 mf.2] })

/-- `self._next_patch_filepath()` — translated and bridged by C03 (`gen_next_patch_filepath`):
`<record name>.p<newest index + 1>.ih5`; `IndexError` on an empty file list, `KeyError` when the newest
file has no entry in `_ublocks` -/
def pyNextPatchFilepath : PatchM Name := fun w =>
  match pyIdx w.self.files 0, pyIdx w.self.files (-1) with
  | .ok f0, .ok fl =>
    match pyDictGet w.self.ublocks fl.name with
    | .ok ul => (.ok (patchFile (inferName f0.name) (ul.idx + 1)), w)
    | .error e => (.error e, w)
  | .error e, _ => (.error e, w)
  | _, .error e => (.error e, w)

/-- `self._fresh_manifest()` (translated by C05): needs the newest user block (`_ublock(-1)`), then a
manifest with a fresh uuid and a fresh body is made -/
def pyFreshManifest (ublock : PatchM UB) : PatchM (Nat × Nat) := fun w =>
  match ublock w with
  | (.ok _, w') => (.ok (w'.next, w'.next + 1), { w' with next := w'.next + 2 })
  | (.error e, w') => (.error e, w')

/-- `mf.manifest_exts` -/
def pyMfExts (_mf : Nat × Nat) : Option PyAny := some ()

/-- `mf.manifest_exts = x`: the body of the manifest is a fresh number whatever it holds -/
def pyMfWithExts (mf : Nat × Nat) (_x : Option PyAny) : Nat × Nat := mf

/-- `IH5UBExtManifest(is_stub_container=s, manifest_uuid=u, manifest_hashsum=h).update(ub)`:
`ub.ub_exts["ih5mf_v01"] = …` (the stub flag is not part of `Record.UB`) -/
def pyExtUpdate (_isStub : Option PyAny) (uuid hash : Nat) (ub : UB) : UB := { ub with ext := some (uuid, hash) }

/-! ## evaluation rules (used by the bridge proofs) -/

@[simp] theorem run_pure (a : α) (w : World) : (pure a : PatchM α) w = (.ok a, w) := rfl

@[simp] theorem run_bind (x : PatchM α) (f : α → PatchM β) (w : World) :
    (x >>= f) w = (match x w with
      | (.ok a, w') => f a w'
      | (.error e, w') => (.error e, w')) := rfl

@[simp] theorem run_throw (e : Out) (w : World) : (throw e : PatchM α) w = (.error e, w) := rfl

@[simp] theorem run_tryCatch (x : PatchM α) (h : Out → PatchM α) (w : World) :
    (tryCatch x h) w = (match x w with
      | (.ok a, w') => (.ok a, w')
      | (.error e, w') => h e w') := rfl

@[simp] theorem run_pyLift (x : Except Out α) (w : World) : (pyLift x : PatchM α) w = (x, w) := rfl
@[simp] theorem run_pySelf (w : World) : pySelf w = (.ok w.self, w) := rfl
@[simp] theorem run_pyDisk (w : World) : pyDisk w = (.ok w.disk, w) := rfl

/-! ## from the model state to the Python object and back -/

/-- the `h5py.File` objects of a handle of the model: all live, all read-only but possibly the last -/
def mkHandles : List (Name × UB) → Bool → List H5
  | [], _ => []
  | [(f, _)], rw => [⟨f, rw, true⟩]
  | (f, _) :: y :: r, rw => ⟨f, false, true⟩ :: mkHandles (y :: r) rw

def Obj.ofHandle (h : Handle) : Obj :=
  { files := mkHandles h.files h.lastRW, ublocks := h.files, closed := h.closed, allow := h.allow,
    mfcls := h.mfcls, manifest := h.manifest }

/-- the world in which a method is entered: nothing has been done to the file system yet -/
def World.ofState (s : State) : World :=
  { disk := s.disk, next := s.next, self := Obj.ofHandle s.h, trace := [] }

/-- `_has_writable` as the model stores it -/
def lastIsRW (l : List H5) : Bool :=
  match l.getLast? with
  | some f => f.live && f.rw
  | none => false

/-- the handle of the model that stands for a record object: `__files__` in order, each with the entry of
`_ublocks` under its name -/
def Obj.handle (o : Obj) : Handle :=
  { files := o.files.map (fun f => (f.name, match pyDictGet o.ublocks f.name with | .ok u => u | .error _ => default)),
    lastRW := lastIsRW o.files, allow := o.allow, closed := o.closed, mfcls := o.mfcls, manifest := o.manifest }

def World.state (w : World) : State := { disk := w.disk, h := w.self.handle, next := w.next }

/-! ## the effect summary of a call (`Res.created / removed / written`) read off the log -/

def uniq : List Name → List Name
  | [] => []
  | x :: r => x :: (uniq r).filter (fun y => !(y == x))

/-- names that come into being: containers made with mode `x`, sidecars written where there was none -/
def createdOf (d0 : Disk) : List (Act Name UB) → List Name
  | [] => []
  | .create f _ :: r => f :: createdOf d0 r
  | .writeManifest f _ _ :: r => if (getF d0 f).isSome then createdOf d0 r else f :: createdOf d0 r
  | _ :: r => createdOf d0 r

def removedOf : List (Act Name UB) → List Name
  | [] => []
  | .unlink f :: r => f :: removedOf r
  | _ :: r => removedOf r

/-- names whose content may have been changed in place -/
def touchedOf : List (Act Name UB) → List Name
  | [] => []
  | .writeUB f _ :: r => f :: touchedOf r
  | .h5close f true :: r => f :: touchedOf r
  | .reopen f true :: r => f :: touchedOf r
  | .writeManifest f _ _ :: r => f :: touchedOf r
  | _ :: r => touchedOf r

/-- rewritten in place: touched, there before the call and still there after it -/
def writtenOf (d0 d1 : Disk) (tr : List (Act Name UB)) : List Name :=
  (uniq (touchedOf tr)).filter (fun f => (getF d0 f).isSome && (getF d1 f).isSome)

/-- the model's account (`Res`) of a method call that was entered in state `s0` -/
def resOf (s0 : State) (x : Except Out α × World) : Res :=
  { st := x.2.state,
    out := match x.1 with | .ok _ => .ok | .error e => e,
    created := uniq (createdOf s0.disk x.2.trace),
    removed := removedOf x.2.trace,
    written := writtenOf s0.disk x.2.disk x.2.trace }

end MetadorModel.PatchPy
