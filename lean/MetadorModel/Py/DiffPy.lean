import MetadorModel.Model.Diff
import MetadorModel.Model.Paths
/-!
# Python value dictionary for the translation of `util/diff.py` (property C18)

`harness/translate_c18.py` turns the `ast` of `DiffNode._type / status / children / nodes /
compare` and `DirDiff.get` into Lean text (`Gen/Diff.lean`) that only uses the *model's* data
types (`Diff.DirTree`, `Diff.DNode`, `Diff.Path`, …) and the operations below. Each operation is
the fixed meaning of one Python construct on those types; together with the table in the
docstring of `harness/translate_c18.py` this file *is* the dictionary. Hand-written, import-free
apart from models. Nothing here is specific to what the functions of `diff.py` currently do.

Python value                                   Lean
---------------------------------------------  -------------------------------------------------
`None | str | dict` (an entry of DirHashsums)  `Option DirTree` (`none`, `some (.file s)`,
                                               `some (.dir es)`, `es` key-sorted, see Model/Diff)
a value stored in such a dict                  `DirTree`
`pathlib.Path` (relative)                      `Diff.Path` = list of components, `Path("")` = `[]`
`DiffNode`                                     `DNode`;  `Optional[DiffNode]` = `Option DNode`
`Dict[Path, DiffNode]` (removed/modified/…)    `List DNode` in insertion order, the key of an
                                               entry being the `path` of the stored node
`set` of `str`                                 `List String` without duplicates; a `for` loop over it
                                               (or over the items / keys of a snapshot) visits
                                               `ord _ xs` for a parameter `ord : IterOrd`
a raised exception                             `Except.error (e : PyErr)`
the interpreter's remaining recursion depth    the `Nat` fuel of a recursive function
-/
namespace MetadorModel.DiffPy
open MetadorModel MetadorModel.Diff

/-- exceptions the translated fragment can raise -/
inductive PyErr where
  | assertionError | keyError | typeError | attributeError | indexError
  | recursionError
  /-- not a Python exception: the execution left the value dictionary (a `Dict[Path, DiffNode]`
  would hold a node under a key different from the node's own path). -/
  | unrepresentable
  /-- not a Python exception: body of a function the translator could not translate. -/
  | untranslated
deriving DecidableEq, Repr

abbrev M := Except PyErr

/-- The order in which `for x in s` visits a `set`, or the items / keys of a dict that came from
outside (the two snapshots): unspecified in Python, hence a parameter `ord` of every translated
function with such a loop. The bridge theorems hold for every `ord` that returns a permutation of
its argument. -/
abbrev IterOrd := (α : Type) → List α → List α

/-! ## entries: `None | str | dict` -/

/-- `isinstance(x, dict)` -/
def isDict : Option DirTree → Bool
  | some (.dir _) => true
  | _ => false

/-- `isinstance(x, str)` -/
def isStr : Option DirTree → Bool
  | some (.file _) => true
  | _ => false

/-- `bool(x)`: `None`, `""` and `{}` are falsy. -/
def truthy : Option DirTree → Bool
  | none => false
  | some (.file s) => s != ""
  | some (.dir es) => !es.isEmpty

mutual
/-- `==` on two stored values (a `str` never equals a `dict`; dicts compare entry-wise; on
key-sorted association lists that is list equality). -/
def treeEq : DirTree → DirTree → Bool
  | .file s, .file s' => s == s'
  | .dir es, .dir fs => entriesEq es fs
  | _, _ => false
def entriesEq : Entries → Entries → Bool
  | [], [] => true
  | (k, t) :: r, (k', t') :: r' => k == k' && treeEq t t' && entriesEq r r'
  | _, _ => false
end

/-- `x == y` on entries -/
def pyEq : Option DirTree → Option DirTree → Bool
  | none, none => true
  | some a, some b => treeEq a b
  | _, _ => false

/-- `x.find(sub)`; `None` and dicts have no `find`. -/
def strFind : Option DirTree → String → M Int
  | some (.file s), sub => pure (Paths.pyFind s.toList sub.toList)
  | _, _ => throw .attributeError

/-- `x.items()` (insertion order ↦ list order) -/
def items : Option DirTree → M (List (String × DirTree))
  | some (.dir es) => pure es
  | _ => throw .attributeError

/-- `x.keys()` -/
def keys : Option DirTree → M (List String)
  | some (.dir es) => pure (es.map Prod.fst)
  | _ => throw .attributeError

/-- `x[k]`: `KeyError` for a missing key, `TypeError` for `None[k]` / `"…"[k]`. -/
def getItem : Option DirTree → String → M DirTree
  | some (.dir es), k =>
    match AL.get es k with
    | some t => pure t
    | none => throw .keyError
  | _, _ => throw .typeError

/-! ## sets of strings -/

/-- `set(xs)`: drop repeated elements -/
def pySet : List String → List String
  | [] => []
  | k :: r => k :: (pySet r).filter (fun x => x != k)

/-- `a - b` -/
def setDiff (a b : List String) : List String := a.filter (fun k => !b.contains k)

/-- `a | b` -/
def setUnion (a b : List String) : List String := a ++ b.filter (fun k => !a.contains k)

/-! ## paths -/

/-- `p / k` for a single component `k` (keys of DirHashsums are file names: no `/`, not
absolute). -/
def pathJoin (p : Path) (k : String) : Path := p ++ [k]

/-- `p == q` -/
def pathEq (p q : Path) : Bool := decide (p = q)

/-- `p < q` for `PurePosixPath`: lexicographic on the components, components by code point. -/
def pathLt : Path → Path → Bool
  | [], [] => false
  | [], _ :: _ => true
  | _ :: _, [] => false
  | a :: p, b :: q => decide (a < b) || (a == b && pathLt p q)

/-- all prefixes of `p`, shortest (`Path("")`) first, `p` itself last -/
def inits : Path → List Path
  | [] => [[]]
  | k :: r => [] :: (inits r).map (fun q => k :: q)

/-- `list(p.parents)`: the proper prefixes, longest first, ending with `Path("")`;
empty for `Path("")` itself. -/
def parents (p : Path) : List Path := (inits p).dropLast.reverse

/-- `p.is_absolute()`: a `Diff.Path` is relative by construction. -/
def isAbsolute (_ : Path) : Bool := false

/-! ## `DiffNode` -/

/-- `DiffNode(path=…, prev=…, curr=…)`: the three dicts default to `{}` (pydantic copies the
defaults per instance). -/
def mkNode (path : Path) (prev curr : Option DirTree) : DNode := .mk path prev curr [] [] []

def _root_.MetadorModel.Diff.DNode.removed : DNode → List DNode
  | .mk _ _ _ rm _ _ => rm
def _root_.MetadorModel.Diff.DNode.modified : DNode → List DNode
  | .mk _ _ _ _ md _ => md
def _root_.MetadorModel.Diff.DNode.added : DNode → List DNode
  | .mk _ _ _ _ _ ad => ad

/-- `d[key] = x` on an insertion-ordered dict whose keys are the paths of its values: an existing
key keeps its position and gets the new value, a new key is appended. -/
def bucketPut : List DNode → DNode → List DNode
  | [], x => [x]
  | y :: r, x => if y.path = x.path then x :: r else y :: bucketPut r x

def bucketSet (b : List DNode) (key : Path) (x : DNode) : M (List DNode) :=
  if x.path = key then pure (bucketPut b x) else throw .unrepresentable

/-- `n.removed[key] = x` (the node object is updated in place ↦ the variable is rebound) -/
def _root_.MetadorModel.Diff.DNode.setRemoved : DNode → Path → DNode → M DNode
  | .mk p pv cv rm md ad, key, x => do pure (.mk p pv cv (← bucketSet rm key x) md ad)
def _root_.MetadorModel.Diff.DNode.setModified : DNode → Path → DNode → M DNode
  | .mk p pv cv rm md ad, key, x => do pure (.mk p pv cv rm (← bucketSet md key x) ad)
def _root_.MetadorModel.Diff.DNode.setAdded : DNode → Path → DNode → M DNode
  | .mk p pv cv rm md ad, key, x => do pure (.mk p pv cv rm md (← bucketSet ad key x))

/-- `d.values()` -/
def values (b : List DNode) : List DNode := b

/-- `d.get(key)` -/
def bucketGet : List DNode → Path → Option DNode
  | [], _ => none
  | y :: r, key => if y.path = key then some y else bucketGet r key

/-- insert before the first element that is not smaller (keeps equal elements in order) -/
def insertByPath (x : DNode) : List DNode → List DNode
  | [] => [x]
  | y :: r => if pathLt y.path x.path then y :: insertByPath x r else x :: y :: r

/-- `sorted(xs, key=lambda x: x.path)` (stable) -/
def sortedByPath : List DNode → List DNode
  | [] => []
  | x :: r => insertByPath x (sortedByPath r)

/-- `itertools.chain(*xss)` -/
def chain {α : Type} : List (List α) → List α
  | [] => []
  | xs :: r => xs ++ chain r

/-- `next((x for x in xs if p(x)), None)` -/
def nextOrNone {α : Type} (p : α → Bool) : List α → Option α
  | [] => none
  | x :: r => if p x then some x else nextOrNone p r

/-- `xs.pop()`: the list without its last element and that element. -/
def listPop {α : Type} (xs : List α) : M (List α × α) :=
  match xs.getLast? with
  | none => throw .indexError
  | some x => pure (xs.dropLast, x)

/-- a `for` loop whose body may `return`: `Sum.inl r` = returned `r`, `Sum.inr s` = fell through
with loop state `s`. -/
def forRet {σ α ρ : Type} (body : σ → α → M (Sum ρ σ)) : List α → σ → M (Sum ρ σ)
  | [], s => pure (.inr s)
  | x :: r, s => do
    match ← body s x with
    | .inl v => pure (.inl v)
    | .inr s' => forRet body r s'

end MetadorModel.DiffPy
