import MetadorModel.Model.Chain
/-!
# Python value dictionary for the translation of the record-opening check (property C04)

`harness/translate_c04.py` turns the `ast` of `IH5Record._ublock`, `IH5Record.ih5_uuid`,
`IH5Record._check_ublock`, `IH5Record._open` (ih5/record.py), `IH5MFRecord._check_ublock` and
`IH5MFRecord._open` (ih5/manifest.py) into Lean text (`Gen/ChainCheck.lean`) that only uses the
*model's* data types (`Chain.UB`, `Chain.Ext`, `Chain.File`, `Chain.Err`) and the operations
below. Each operation is the fixed meaning of one Python construct on those types; together with
the table in the docstring of `harness/translate_c04.py` this file *is* the dictionary.
Hand-written, import-free apart from the model. Nothing here depends on what the translated
functions currently do.

Python value                                         Lean
---------------------------------------------------  ------------------------------------------
`IH5UserBlock`                                       `Chain.UB` (`record_uuid` ↦ `rid`, `patch_index`
                                                     ↦ `idx`, `patch_uuid` ↦ `pid`, `prev_patch` ↦
                                                     `prev`, `hdf5_hashsum` ↦ `hash`)
`IH5UBExtManifest`; `IH5UBExtManifest.get(ub)`       `Chain.Ext`; `ub.ext : Option Ext`
a container path *before* its user block is loaded   `Option (File P M)` (`none`: `IH5UserBlock.load`
                                                     raises for it)
a container path afterwards, the `h5py.File` opened  `Chain.File P M` (`x.filename`, `Path(x)` ↦ `x`;
on it                                                `self._ublocks[Path(f.filename)]` ↦ `f.ub`)
the record object (`self`, `ret`)                    its `__files__`: `List (File P M)`
the class the record is an instance of (`cls`)       `Cls`
a manifest path (`Path`)                             `Option M`: the content of that file, `none` =
                                                     no such file (`p.is_file()` ↦ `p.isSome`);
                                                     `cls._manifest_filepath(f.filename)` ↦ `f.mf`
`Optional[T]`                                        `Option T` (`x is None` ↦ `x.isNone`)
`int` that is a `patch_index` (`ge=0`)               `Nat`;  any other `int` (lengths, list indices) `Int`
a raised exception                                   `Except.error (e : PyErr)`
-/
namespace MetadorModel.ChainPy
open MetadorModel.Chain

/-- exceptions the translated fragment can raise. `err e`: a `ValueError` whose message is the one
listed for `e` in `Chain.Err` (and the `AssertionError` of `IH5MFRecord._check_ublock` =
`Err.stubPatch`); the others are the interpreter's own. -/
inductive PyErr where
  | err (e : Err)
  | indexError        -- list index out of range
  | attributeError    -- attribute access on `None`
  | fileNotFound      -- `hashsum_file` on a path that is no file
deriving DecidableEq, Repr

/-- the two record classes (method dispatch of `ret._check_ublock`) -/
inductive Cls where
  | IH5Record | IH5MFRecord
deriving DecidableEq, Repr

section
variable {α β : Type}

/-- `xs[i]` for a Python `int` (negative indices count from the end) -/
def pyIdx (xs : List α) (i : Int) : Except PyErr α :=
  let j : Int := if i < 0 then i + (xs.length : Int) else i
  if j < 0 then .error .indexError
  else match xs[j.toNat]? with
    | some x => .ok x
    | none => .error .indexError

/-- `xs[i] = v` -/
def pySetIdx (xs : List α) (i : Int) (v : α) : Except PyErr (List α) :=
  let j : Int := if i < 0 then i + (xs.length : Int) else i
  if j < 0 then .error .indexError
  else if j.toNat < xs.length then .ok (xs.set j.toNat v)
  else .error .indexError

/-- `x.attr` where `x : Optional[T]`: `AttributeError` on `None` -/
def pyNotNone : Option α → Except PyErr α
  | some x => .ok x
  | none => .error .attributeError

def pyForAux (body : Int → Except PyErr Unit) : Nat → Int → Except PyErr Unit
  | 0, _ => .ok ()
  | n + 1, i => do body i; pyForAux body n (i + 1)

/-- `for i in range(a, b): body` (the body binds nothing that is used afterwards) -/
def pyForRange (a b : Int) (body : Int → Except PyErr Unit) : Except PyErr Unit :=
  pyForAux body (b - a).toNat a

/-- insertion *after* all elements with a key `≤` the new one -/
def pyInsertBy (key : α → Nat) (x : α) : List α → List α
  | [] => [x]
  | y :: r => if key x < key y then x :: y :: r else y :: pyInsertBy key x r

/-- `xs.sort(key=key)` for a key that is a non-negative `int`: Python's sort is stable -/
def pySortBy (key : α → Nat) (xs : List α) : List α :=
  xs.foldl (fun acc x => pyInsertBy key x acc) []

/-- `{e(x) for x in xs}` after `xs.map e`: the distinct elements (a `set`; only `len` is used) -/
def pySet [DecidableEq β] : List β → List β
  | [] => []
  | x :: xs => if x ∈ xs then pySet xs else x :: pySet xs

end

section
variable {P M : Type}

/-- `{Path(p): IH5UserBlock.load(p) for p in paths}`: every user block loads, or the first failure
is raised (`Err.load`); afterwards every path stands for its loaded `File`. -/
def pyLoadAll (paths : List (Option (File P M))) : Except PyErr (List (File P M)) :=
  match paths.mapM id with
  | none => .error (.err .load)
  | some l => .ok l

/-- `[h5py.File(p, "r") for p in paths]`: h5py refuses a file that is no HDF5 file (`Err.h5open`) -/
def pyOpenAll (paths : List (File P M)) : Except PyErr (List (File P M)) :=
  if paths.any (fun f => !f.h5ok) then .error (.err .h5open) else .ok paths

/-- `hashsum_file(p)` on a manifest path -/
def pyHashsumMf (HM : M → Digest) : Option M → Except PyErr Digest
  | some m => .ok (HM m)
  | none => .error .fileNotFound

end

end MetadorModel.ChainPy
