import MetadorModel.Model.UBlock
import MetadorModel.Py.RecordPy
/-!
# Python value dictionary for the translation of `IH5UserBlock.save` (property C11)

`harness/translate_c11.py` turns the body of `IH5UserBlock.save` (ih5/record.py) into Lean text
(`Gen/PatchSteps.lean`, namespace `Gen.PatchSteps.Bytes`) over the byte-level model of
`Model/UBlock.lean`: a file is its list of bytes, byte `b` is `Char.ofNat b`, text is ASCII.

Python value / construct                     Lean
-------------------------------------------  ---------------------------------------------------
`self` (an `IH5UserBlock`)                   `UBlock.UBT` (the field texts), `self.json()` ↦ `render self`
`self._userblock_size`                       a `Nat` (parameter `size`); `f"{n}"` ↦ `pyStrNat n`
`str`, `bytes`                               `List Char`; `s.encode("utf-8")` ↦ `s` (ASCII only)
the file `filename` on disk                  `DiskFile`: its bytes and the log of `write`s applied to it
`with open(filename, "r+b") as f: body`      `pyWithOpen body`: `body` runs on a handle at offset 0
`f.read(n)`, `f.seek(k)`, `f.write(data)`    `fRead n`, `fSeek k`, `fWrite data` (in-place overwrite at the
                                             current offset, which then advances)
`assert c`                                   `if !c then throw SaveErr.tooLong` (the only assertion there is)
`raise ValueError(..)`                       `throw SaveErr.noUserBlock` (the only `raise` there is)
-/
namespace MetadorModel.UBSavePy
open MetadorModel.UBlock

/-- a file on disk and the in-place writes it has received (offset, data), in order -/
structure DiskFile where
  content : Bytes
  writes  : List (Nat × Bytes) := []
deriving DecidableEq, Repr

/-- the method body: runs on the file on disk -/
@[reducible] def SaveM (α : Type) : Type := DiskFile → Except SaveErr α × DiskFile

/-- an open binary file: the file on disk and the current offset -/
structure FState where
  file : DiskFile
  pos  : Nat
deriving DecidableEq, Repr

/-- the body of a `with open(..) as f:` block -/
@[reducible] def FileM (α : Type) : Type := FState → Except SaveErr α × FState

variable {α β : Type}

instance : Monad SaveM where
  pure a := fun s => (.ok a, s)
  bind x f := fun s => match x s with
    | (.ok a, s') => f a s'
    | (.error e, s') => (.error e, s')

instance : MonadExcept SaveErr SaveM where
  throw e := fun s => (.error e, s)
  tryCatch x h := fun s => match x s with
    | (.ok a, s') => (.ok a, s')
    | (.error e, s') => h e s'

instance : Monad FileM where
  pure a := fun s => (.ok a, s)
  bind x f := fun s => match x s with
    | (.ok a, s') => f a s'
    | (.error e, s') => (.error e, s')

instance : MonadExcept SaveErr FileM where
  throw e := fun s => (.error e, s)
  tryCatch x h := fun s => match x s with
    | (.ok a, s') => (.ok a, s')
    | (.error e, s') => h e s'

/-- an in-place write of `data` at offset `off` (zero-filled when `off` is beyond the end) -/
def writeAt (old : Bytes) (off : Nat) (data : Bytes) : Bytes :=
  old.take off ++ List.replicate (off - old.length) '\x00' ++ data ++ old.drop (off + data.length)

/-- `f.read(n)` -/
def fRead (n : Nat) : FileM Bytes := fun st =>
  let got := (st.file.content.drop st.pos).take n
  (.ok got, { st with pos := st.pos + got.length })

/-- `f.seek(k)` -/
def fSeek (k : Nat) : FileM Unit := fun st => (.ok (), { st with pos := k })

/-- `f.write(data)` -/
def fWrite (data : Bytes) : FileM Unit := fun st =>
  (.ok (), { file := { content := writeAt st.file.content st.pos data,
                       writes := st.file.writes ++ [(st.pos, data)] },
             pos := st.pos + data.length })

/-- `with open(filename, "r+b") as f: body` — the file exists (the callers have just created it) -/
def pyWithOpen (body : FileM α) : SaveM α := fun d =>
  match body { file := d, pos := 0 } with
  | (r, st) => (r, st.file)

/-- `s.encode("utf-8")` for ASCII text -/
def pyEncode (s : List Char) : Bytes := s

@[simp] theorem save_pure (a : α) (s : DiskFile) : (pure a : SaveM α) s = (.ok a, s) := rfl
@[simp] theorem save_bind (x : SaveM α) (f : α → SaveM β) (s : DiskFile) :
    (x >>= f) s = (match x s with
      | (.ok a, s') => f a s'
      | (.error e, s') => (.error e, s')) := rfl
@[simp] theorem save_throw (e : SaveErr) (s : DiskFile) : (throw e : SaveM α) s = (.error e, s) := rfl
@[simp] theorem file_pure (a : α) (s : FState) : (pure a : FileM α) s = (.ok a, s) := rfl
@[simp] theorem file_bind (x : FileM α) (f : α → FileM β) (s : FState) :
    (x >>= f) s = (match x s with
      | (.ok a, s') => f a s'
      | (.error e, s') => (.error e, s')) := rfl
@[simp] theorem file_throw (e : SaveErr) (s : FState) : (throw e : FileM α) s = (.error e, s) := rfl

end MetadorModel.UBSavePy
