import MetadorModel.Model.Merge
/-!
# Python value dictionary for the translation of merge / stub / manifest commit (C05, C10)

`harness/translate_c05.py` turns the `ast` of `IH5Record.merge_files`, `IH5Record._fixes_after_merge`
(ih5/record.py), `IH5MFRecord.manifest`, `_fresh_manifest`, `_fixes_after_merge`, `merge_files`,
`commit_patch`, `create_stub` (ih5/manifest.py), `init_stub_skeleton` and `init_stub_base`
(ih5/skeleton.py) into Lean text (`Gen/MergeFns.lean`) that only uses the *model's* data types
(`Overlay.Rec V`, `Merge.UB`, `Merge.skel`'s entry type, `Tree.Path`) and the operations below.
Each operation is the fixed meaning of one Python construct on those types; together with the table
in the docstring of `harness/translate_c05.py` this file *is* the dictionary. Hand-written,
import-free apart from the model. Nothing here depends on what the translated functions currently do.

Python value                                          Lean
----------------------------------------------------  ------------------------------------------
`IH5UserBlock`                                        `PUB`: `core : Merge.UB` (`record_uuid` ↦ `record`,
                                                      `patch_index` ↦ `index`, `patch_uuid` ↦ `patch`,
                                                      `prev_patch` ↦ `prev`, `hdf5_hashsum` ↦ `hash`) and
                                                      `ext` = `ub_exts["ih5mf_v01"]` parsed (other
                                                      extensions are carried along and not modelled)
`IH5UBExtManifest`; `.get(ub)`; `e.update(ub)`        `Ext`; `ub.ext`; `pyExtUpdate e ub`
`IH5Manifest`                                         `Manifest` (`manifest_uuid` ↦ `uuid`, `user_block` ↦
                                                      `ub`, `skeleton`, `manifest_exts` ↦ `exts`)
`IH5Skeleton` (`__root__` in dict order)              `Skel` = `List (Path × Bool × List Key)` — the type of
                                                      `Merge.skel`: path, `node_type == H5Type.group`,
                                                      attribute names (`Literal[group, dataset]`: two values)
a record object (`self`, `ds`, `target`)              `Obj V`: class, `conts : Overlay.Rec V` (what its
                                                      containers hold, newest first), file names and
                                                      in-memory user blocks in patch order, `_has_writable`,
                                                      `_closed`, `_allow_patching`, `_manifest`
a node handle `obj[path]`                             its `Path` (the object is known statically)
an HDF5 path string / a child name                    `Tree.Path` (`"/"` ↦ `[]`) / `Tree.Key`
a file path                                           `FName`; `cls._manifest_filepath(f)` ↦ `.mfOf f`;
                                                      the base container of record path `t` ↦ `.file t 0`
the file system                                       `Disk V` (container: user block + payload; manifest)
`h5py.Empty(None)`                                    `E.empty`
a raised exception                                    `PyErr`
`self` and everything a method can change             the state `World V` of the monad `PyM V`
-/
namespace MetadorModel.MergePy
open MetadorModel.Tree MetadorModel.Overlay MetadorModel.Merge

/-- `IH5UBExtManifest` -/
structure Ext where
  isStub : Bool      -- is_stub_container
  muuid : Nat        -- manifest_uuid
  mhash : Nat        -- manifest_hashsum
deriving DecidableEq, Repr

/-- `IH5UserBlock` -/
structure PUB where
  core : UB
  ext : Option Ext := none
deriving DecidableEq, Repr

abbrev Skel := List (Path × Bool × List Key)
/-- `manifest_exts` (`Dict[str, Any]`, values opaque) -/
abbrev Exts := List (String × Nat)

/-- `IH5Manifest` -/
structure Manifest where
  uuid : Nat
  ub : PUB
  skeleton : Skel
  exts : Exts
deriving DecidableEq, Repr

inductive FName where
  | file (rec : Nat) (patch : Nat)   -- container `patch` of the record path `rec` (0 = base container)
  | mfOf (f : FName)                 -- `f` + "mf.json"
deriving DecidableEq, Repr

inductive DFile (V : Type) where
  | cont (ub : PUB) (payload : Cont V)
  | mf (m : Manifest)

/-- the file system (association list, `Tree.aget` / `Tree.aput`) -/
abbrev Disk (V : Type) := List (FName × DFile V)

inductive Cls where
  | IH5Record | IH5MFRecord
deriving DecidableEq, Repr

/-- `OpenMode` literals -/
inductive Mode where
  | r | rp | a | w | wm | x
deriving DecidableEq, Repr

/-- `ValueError` messages (static text) -/
inductive Msg where
  | containsStub      -- "Cannot merge, files contain a stub!"
  | commitOrDiscard   -- "Cannot merge, please commit or discard your changes!"
  | notEmpty          -- "Container not empty, cannot initialize stub structure here!"
  | noManifest        -- "No manifest exists yet! Did you forget to commit?"
  | notOpen           -- "Record is not open!"                       (`_expect_open`)
  | readOnly          -- "Create patch failed: Record is read-only!"  (`_expect_not_ro`)
  | noPatch           -- "No patch to commit!"
  | unknownKwargs     -- "Unknown keyword arguments: …"
deriving DecidableEq, Repr

inductive PyErr where
  | valueError (m : Msg)
  | h5 (e : Tree.Err)     -- whatever the overlay write path (C01's model `W.*`) refuses
  | keyError
  | indexError
  | attributeError        -- attribute access on `None`
  | assertionError
  | fileExists
  | fileNotFound
  | unmodelled            -- a call whose effect is outside this dictionary (opening an existing record …)
deriving DecidableEq, Repr

/-- a record object -/
structure Obj (V : Type) where
  cls : Cls
  conts : Rec V                 -- content of `__files__`, newest first (the model's type)
  files : List FName            -- `ih5_files`, patch order
  ubs : List PUB                -- `_ublocks[...]`, patch order
  writable : Bool               -- `_has_writable`
  closed : Bool := false        -- `_closed`
  allowPatching : Bool := true  -- `_allow_patching`
  manifest : Option Manifest := none   -- `_manifest`

structure World (V : Type) where
  self : Obj V
  disk : Disk V
  next : Nat        -- source of `uuid1()`

/-- what stays abstract: SHA of a container payload (`hashsum_file(f, skip_bytes=USER_BLOCK_SIZE)`),
SHA of a serialised manifest (`qualified_hashsum(bytes(mf))`, `hashsum_file(manifest_file)`),
`h5py.Empty(None)` -/
structure Env (V : Type) where
  H : Cont V → Nat
  HM : Manifest → Nat
  empty : V

/-! ## the monad: state that survives an exception -/

def PyM (V : Type) (α : Type) : Type := World V → Except PyErr α × World V

variable {V : Type} {α β : Type}

@[inline] def PyM.pure (a : α) : PyM V α := fun w => (.ok a, w)

@[inline] def PyM.bind (x : PyM V α) (f : α → PyM V β) : PyM V β := fun w =>
  match x w with
  | (.ok a, w') => f a w'
  | (.error e, w') => (.error e, w')

instance : Monad (PyM V) where
  pure := PyM.pure
  bind := PyM.bind

/-- `raise` -/
def PyM.throw (e : PyErr) : PyM V α := fun w => (.error e, w)

/-- `try: x  except: h` — what `x` did to the state before it raised stays -/
def PyM.tryCatch (x : PyM V α) (h : PyErr → PyM V α) : PyM V α := fun w =>
  match x w with
  | (.ok a, w') => (.ok a, w')
  | (.error e, w') => h e w'

instance : MonadExcept PyErr (PyM V) where
  throw := PyM.throw
  tryCatch := PyM.tryCatch

/-- a call that only computes (or raises) -/
def pyLift (x : Except PyErr α) : PyM V α := fun w => (x, w)

/-- `self` -/
def pySelf : PyM V (Obj V) := fun w => (.ok w.self, w)

def pySetSelf (o : Obj V) : PyM V Unit := fun w => (.ok (), { w with self := o })

/-- a method call `o.m(…)` on another record object: `m` runs with `o` as `self`; gives back the result
and `o` afterwards -/
def pyOn (o : Obj V) (m : PyM V α) : PyM V (α × Obj V) := fun w =>
  match m { w with self := o } with
  | (.ok a, w') => (.ok (a, w'.self), { w' with self := w.self })
  | (.error e, w') => (.error e, { w' with self := w.self })

/-! ## plain values -/

/-- `xs[i]` for a Python `int` (negative indices count from the end) -/
def pyIdx (xs : List α) (i : Int) : Except PyErr α :=
  let j : Int := if i < 0 then i + (xs.length : Int) else i
  if j < 0 then .error .indexError
  else match xs[j.toNat]? with
    | some x => .ok x
    | none => .error .indexError

/-- `xs[i] = v` -/
def pySetIdx (xs : List α) (i : Int) (v : α) : Except PyErr (List α) :=
  let j : Int := if i < 0 then i + (xs.length : Int) else i
  if j < 0 then .error .indexError
  else if j.toNat < xs.length then .ok (xs.set j.toNat v)
  else .error .indexError

/-- `x.attr` where `x : Optional[T]`: `AttributeError` on `None` -/
def pyNotNone : Option α → Except PyErr α
  | some x => .ok x
  | none => .error .attributeError

/-- `any(xs)` -/
def pyAny (xs : List Bool) : Bool := xs.any id

/-- `for x in xs: body` where the body rebinds the variables collected in `β` -/
def pyFor {m : Type → Type} [Monad m] : List α → β → (α → β → m β) → m β
  | [], b, _ => pure b
  | x :: xs, b, f => do
    let b' ← f x b
    pyFor xs b' f

/-- `e.update(ub)`: `ub.ub_exts["ih5mf_v01"] = e.dict()` -/
def pyExtUpdate (e : Ext) (ub : PUB) : PUB := { ub with ext := some e }

/-- `cls._manifest_filepath(f)` -/
def pyManifestFilepath (f : FName) : FName := .mfOf f

/-- `ub.copy(update={"prev_patch": p})`, `ub.prev_patch = p` (value semantics: see the translator's alias rules) -/
def PUB.with_prev_patch (ub : PUB) (p : Option Nat) : PUB := { ub with core := { ub.core with prev := p } }
/-- `ub.hdf5_hashsum = h` -/
def PUB.with_hdf5_hashsum (ub : PUB) (h : Option Nat) : PUB := { ub with core := { ub.core with hash := h } }
/-- `ub.copy(update={"ub_exts": dict(x.ub_exts)})` -/
def PUB.with_ub_exts (ub : PUB) (e : Option Ext) : PUB := { ub with ext := e }
/-- `mf.manifest_exts = x` -/
def Manifest.with_manifest_exts (m : Manifest) (x : Exts) : Manifest := { m with exts := x }

/-- names of the keyword arguments that were passed -/
def pyKwNames (l : List (String × Bool)) : List String := (l.filter (·.2)).map (·.1)

/-! ## the tree of a record object (C01's model) -/

/-- the name `k` such that `q = p ++ [k]` -/
def childKey : Path → Path → Option Key
  | [], [k] => some k
  | x :: xs, y :: ys => if x = y then childKey xs ys else none
  | _, _ => none

/-- `obj[p].keys()`: the names of the children, in listing order (sorted) -/
def pyKeys (o : Obj V) (p : Path) : List Key :=
  (Overlay.listing o.conts).filterMap (fun e => childKey p e.1)

/-- `obj[p].attrs.items()` -/
def pyAttrsItems (o : Obj V) (p : Path) : List (Key × V) := attrsList o.conts p

/-- `len(obj[p])`, `len(obj[p].attrs)` -/
def pyLen (o : Obj V) (p : Path) : Int := ((pyKeys o p).length : Int)
def pyLenAttrs (o : Obj V) (p : Path) : Int := ((attrsList o.conts p).length : Int)

def liftTree (o : Obj V) (x : Except Tree.Err (Rec V)) : Except PyErr (Obj V) :=
  match x with
  | .ok c => .ok { o with conts := c }
  | .error e => .error (.h5 e)

/-- `p in obj` (`_find(p) is not None`) -/
def pyContains (o : Obj V) (p : Path) : Except PyErr Bool :=
  match look o.conts p with
  | .found _ _ => .ok true
  | .part _ _ => .ok false
  | .insideValue => .error (.h5 .insideValue)

/-- `obj[p]` (a node handle): `KeyError` when there is no such node -/
def pyGetNode (o : Obj V) (p : Path) : Except PyErr Path :=
  match look o.conts p with
  | .found _ _ => .ok p
  | .part _ _ => .error .keyError
  | .insideValue => .error (.h5 .insideValue)

/-- `node.attrs[k] = v` through a node handle obtained before -/
def pyNodeAttrSet (o : Obj V) (node : Path) (k : Key) (v : V) : Except PyErr (Obj V) :=
  liftTree o (W.setAttrRaw o.conts node k (some v))

/-- `obj[p].attrs[k] = v` -/
def pyItemAttrSet (o : Obj V) (p : Path) (k : Key) (v : V) : Except PyErr (Obj V) :=
  match look o.conts p with
  | .found _ _ => liftTree o (W.setAttrRaw o.conts p k (some v))
  | .part _ _ => .error .keyError
  | .insideValue => .error (.h5 .insideValue)

/-- `obj.create_group(p)` -/
def pyCreateGroup (o : Obj V) (p : Path) : Except PyErr (Obj V) := liftTree o (W.createGroup o.conts p)

/-- `obj[p] = v` (`create_dataset(p, data=v)`) -/
def pySetItem (o : Obj V) (p : Path) (v : V) : Except PyErr (Obj V) := liftTree o (W.createDataset o.conts p v)

/-- `h5_copy_from_to(src[s], trg[tg], name)` between two records — C01's model of that function (`W.copy`:
the subtree is listed first, then replayed entry by entry with `create_group` / `create_dataset` /
`attrs[k] = v`) with source and target in different records -/
def pyH5CopyFromTo (src : Obj V) (s : Path) (o : Obj V) (tg : Path) (name : Key) : Except PyErr (Obj V) :=
  liftTree o (W.replay s (tg ++ [name]) o.conts ((Overlay.listing src.conts).filter (fun e => isPre s e.1)))

/-- `IH5Skeleton.for_record(obj)` -/
def pySkeletonForRecord (o : Obj V) : Skel := skel (Overlay.listing o.conts)

/-- `obj._set_ublock(i, ub)` on a local record object -/
def pyObjSetUblock (o : Obj V) (i : Int) (ub : PUB) : Except PyErr (Obj V) :=
  match pySetIdx o.ubs i ub with
  | .ok l => .ok { o with ubs := l }
  | .error e => .error e

/-! ## `self` -/

/-- `self._expect_open()` -/
def pyExpectOpen : PyM V Unit := fun w =>
  if w.self.closed then (.error (.valueError .notOpen), w) else (.ok (), w)

/-- `self._ublock(i)` -/
def pyUblock (i : Int) : PyM V PUB := fun w => (pyIdx w.self.ubs i, w)

/-- `self._set_ublock(i, ub)` -/
def pySetUblock (i : Int) (ub : PUB) : PyM V Unit := fun w =>
  match pySetIdx w.self.ubs i ub with
  | .ok l => (.ok (), { w with self := { w.self with ubs := l } })
  | .error e => (.error e, w)

/-- `self._manifest = m` -/
def pySetManifest (m : Option Manifest) : PyM V Unit := fun w =>
  (.ok (), { w with self := { w.self with manifest := m } })

/-! ## the file system -/

/-- `hashsum_file(f, skip_bytes=USER_BLOCK_SIZE)` -/
def pyHashsumPayload (E : Env V) (f : FName) : PyM V Nat := fun w =>
  match aget f w.disk with
  | some (.cont _ p) => (.ok (E.H p), w)
  | some (.mf _) => (.error .unmodelled, w)
  | none => (.error .fileNotFound, w)

/-- `hashsum_file(f)` of a manifest file -/
def pyHashsumFile (E : Env V) (f : FName) : PyM V Nat := fun w =>
  match aget f w.disk with
  | some (.mf m) => (.ok (E.HM m), w)
  | some (.cont _ _) => (.error .unmodelled, w)
  | none => (.error .fileNotFound, w)

/-- `ub.save(f)`: the user block of an existing container file is overwritten -/
def pySaveUB (f : FName) (ub : PUB) : PyM V Unit := fun w =>
  match aget f w.disk with
  | some (.cont _ p) => (.ok (), { w with disk := aput f (.cont ub p) w.disk })
  | some (.mf _) => (.error .unmodelled, w)
  | none => (.error .fileNotFound, w)

/-- `m.save(f)` -/
def pySaveManifest (f : FName) (m : Manifest) : PyM V Unit := fun w =>
  (.ok (), { w with disk := aput f (.mf m) w.disk })

/-- `IH5Manifest.parse_file(f)` -/
def pyParseManifest (f : FName) : PyM V Manifest := fun w =>
  match aget f w.disk with
  | some (.mf m) => (.ok m, w)
  | some (.cont _ _) => (.error .unmodelled, w)
  | none => (.error .fileNotFound, w)

/-- `IH5Manifest.from_userblock(ub, skeleton=s, exts=x)`: a new `manifest_uuid`, the user block without
the manifest extension -/
def pyManifestFromUserblock (ub : PUB) (s : Skel) (x : Exts) : PyM V Manifest := fun w =>
  (.ok { uuid := w.next, ub := { ub with ext := none }, skeleton := s, exts := x }, { w with next := w.next + 1 })

/-- `IH5UserBlock.create(prev=None)` -/
def newBaseUB (k : Nat) : PUB :=
  { core := { record := k + 1, index := 0, patch := k, prev := none, hash := none }, ext := none }

/-- `cls._create(Path(t), truncate)`: with `truncate` every container of the record path `t` is unlinked
first; the base container is created exclusively (`h5py.File(path, "x")`) -/
def pyCreate (cls : Cls) (t : Nat) (truncate : Bool) : PyM V (Obj V) := fun w =>
  let d1 : Disk V := if truncate then w.disk.filter (fun e => match e.1 with | .file r _ => r != t | _ => true) else w.disk
  let w1 : World V := { w with disk := d1 }
  match aget (FName.file t 0) d1 with
  | some _ => (.error .fileExists, w1)
  | none =>
    let ub := newBaseUB w.next
    (.ok { cls := cls, conts := Rec.init, files := [.file t 0], ubs := [ub], writable := true },
     { w1 with disk := aput (.file t 0) (.cont ub Cont.init) d1, next := w.next + 2 })

/-- `cls(Path(t), mode)` for a record path: only the creating modes are in the dictionary -/
def pyNewRecord (cls : Cls) (t : Nat) : Mode → PyM V (Obj V)
  | .x => pyCreate cls t false
  | .wm => pyCreate cls t false
  | .w => pyCreate cls t true
  | _ => PyM.throw .unmodelled

/-- the first check of `IH5Record.commit_patch` that fails (`kwargs`, `_expect_open`, `_expect_not_ro`,
`_has_writable`) -/
def refusalB (closed allowPatching writable : Bool) (kwargs : List String) : Option Msg :=
  if !kwargs.isEmpty then some .unknownKwargs
  else if closed then some .notOpen
  else if !allowPatching then some .readOnly
  else if !writable then some .noPatch
  else none

/-- `IH5Record.commit_patch(self, **kwargs)` (the base class; not translated) -/
def pyBaseCommit (E : Env V) (kwargs : List String) : PyM V Unit := fun w =>
  let o := w.self
  match refusalB o.closed o.allowPatching o.writable kwargs with
  | some m => (.error (.valueError m), w)
  | none =>
    match o.conts, o.files.getLast?, o.ubs.getLast? with
    | c :: _, some f, some ub =>
      let ub' : PUB := { ub with core := { ub.core with hash := some (E.H c) } }
      (.ok (), { w with self := { o with ubs := o.ubs.dropLast ++ [ub'], writable := false },
                        disk := aput f (.cont ub' c) w.disk })
    | _, _, _ => (.error .indexError, w)

/-- `IH5Record.close(self)` (not translated): commits an open patch with `commit` (the `commit_patch` of the
object's class), then forgets the files -/
def pyClose (commit : PyM V Unit) : PyM V Unit := fun w =>
  if w.self.closed then (.ok (), w)
  else
    match (if w.self.writable then commit w else (.ok (), w)) with
    | (.ok _, w') => (.ok (), { w' with self := { w'.self with closed := true, writable := false } })
    | (.error e, w') => (.error e, w')

/-! ## evaluation rules (used by the bridge proofs) -/

@[simp] theorem run_pure (a : α) (w : World V) : (pure a : PyM V α) w = (.ok a, w) := rfl

@[simp] theorem run_bind (x : PyM V α) (f : α → PyM V β) (w : World V) :
    (x >>= f) w = (match x w with
      | (.ok a, w') => f a w'
      | (.error e, w') => (.error e, w')) := rfl

@[simp] theorem run_throw (e : PyErr) (w : World V) : (throw e : PyM V α) w = (.error e, w) := rfl

@[simp] theorem run_tryCatch (x : PyM V α) (h : PyErr → PyM V α) (w : World V) :
    (tryCatch x h) w = (match x w with
      | (.ok a, w') => (.ok a, w')
      | (.error e, w') => h e w') := rfl

@[simp] theorem run_pyLift (x : Except PyErr α) (w : World V) : (pyLift x : PyM V α) w = (x, w) := rfl

@[simp] theorem run_pySelf (w : World V) : (pySelf : PyM V (Obj V)) w = (.ok w.self, w) := rfl

@[simp] theorem run_pySetSelf (o : Obj V) (w : World V) : pySetSelf o w = (.ok (), { w with self := o }) := rfl

end MetadorModel.MergePy
