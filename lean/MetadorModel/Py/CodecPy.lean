import MetadorModel.Model.CodecParsers
/-!
# Value dictionary of the C12 translation (`harness/translate_c12.py`)

The generated `Gen/CodecFns.lean` is written over the data types of `Model/Codec.lean` and
`Model/CodecParsers.lean`; this file holds the meaning of the Python constructs that are not plain
Lean (`isinstance` tests, `except` clauses, string methods, attribute access, the cooperative
`super().__init__` chain of metaclasses …). Every entry is a few lines; the table is in the
docstring of the translator.
-/
namespace MetadorModel.CodecPy
open MetadorModel.Codec MetadorModel.CodecParsers

/-- exception class names in `except` clauses -/
inductive ExcName
  | ValidationError | ValueError | TypeError | RuntimeError | AttributeError | KeyError | IndexError
  | Exception
deriving DecidableEq, Repr

/-- `except <name>` catches (ValidationError derives from ValueError, UnboundLocalError from
NameError, OSError / library errors only from Exception) -/
def ExcName.catches : ExcName → PyErr → Bool
  | .Exception, _ => true
  | .ValidationError, .validationError => true
  | .ValueError, .validationError => true
  | .ValueError, .valueError => true
  | .TypeError, .typeError => true
  | .RuntimeError, .runtimeError => true
  | .AttributeError, .attributeError => true
  | .KeyError, .keyError => true
  | .IndexError, .indexError => true
  | _, _ => false

def catches (names : List ExcName) (e : PyErr) : Bool := names.any (fun n => n.catches e)

/-! ## isinstance -/
def isStr : Obj → Bool
  | .json (.str _) => true
  | _ => false
def isBool : Obj → Bool
  | .json (.bool _) => true
  | _ => false
/-- `isinstance(x, int)`: bool is a subclass of int -/
def isInt : Obj → Bool
  | .json (.int _) => true
  | .json (.bool _) => true
  | _ => false
def isFloat : Obj → Bool
  | .json (.float _) => true
  | _ => false
def isDict : Obj → Bool
  | .json (.obj _) => true
  | _ => false
def isNone : Obj → Bool
  | .json .null => true
  | _ => false
/-- `isinstance(x, tcls.__base__)` -/
def isBase : Obj → Bool
  | .qv q => isBaseInst q
  | _ => false

/-- `b"…" = s.encode(encoding="utf-8")`: bytes travel as one char each (`Model/Codec.lean`) -/
def utf8 (s : Str) : Str := s

/-- `json.loads(s)` -/
def jsonLoads (L : Lib) (s : Str) : M Json := loadsOrRaise L s

/-- `pydantic_yaml.to_yaml_str(self)`: ruamel dump of `json.loads(self.json())`; the argument is the
result of the (translated) `self.json()` -/
def toYamlStr (L : Lib) (selfJson : M Str) : M Str :=
  match selfJson with
  | .error e => .error e
  | .ok s =>
    match loadsOrRaise L s with
    | .error e => .error e
    | .ok j => .ok (L.yamlDump j)

/-- `isodate.parse_duration(x)` -/
def parseDurationObj (L : Lib) : Obj → M Obj
  | .json (.str s) =>
    match L.parseDuration s with
    | .ok secs => .ok (.td secs)
    | .error e => .error e
  | _ => .error .typeError

/-- `x.total_seconds()` -/
def totalSeconds (L : Lib) : Obj → M Obj
  | .td s => .ok (.json (.float s))
  | .inst .dur nf => .ok (.json (.float (L.secondsOf nf)))
  | _ => .error .attributeError

/-- `tcls(seconds=x)` -/
def mkDuration (L : Lib) (tcls : TCls) (x : Obj) : M Obj :=
  match tcls, x with
  | .opq .dur, .json (.float s) => .ok (.inst .dur (L.durOfSeconds s))
  | _, _ => .error .typeError

/-- `tcls(x)` -/
def constructObj (L : Lib) (tcls : TCls) : Obj → M Obj
  | .json (.str s) => construct L tcls s
  | _ => .error .typeError

/-- `x.strip()` -/
def pyStrip : Obj → M Obj
  | .json (.str s) => .ok (.json (.str (stripWs s)))
  | _ => .error .attributeError

/-- `x.split(maxsplit=1)` -/
def pySplit1 : Obj → M Obj
  | .json (.str s) => .ok (.json (.arr ((split1 s).map .str)))
  | _ => .error .attributeError

/-- `x.value`, `x.unitText`, `x.unitCode` -/
def attrValue : Obj → M Obj
  | .qv q => .ok (.json q.value)
  | _ => .error .attributeError
def attrUnitText : Obj → M Obj
  | .qv q => .ok (.json q.unitText)
  | _ => .error .attributeError
def attrUnitCode : Obj → M Obj
  | .qv q => .ok (.json q.unitCode)
  | _ => .error .attributeError

/-- a class attribute of type `Optional[str]` as an object -/
def objOfOptStr (o : Option Str) : Obj := .json (ofOptStr o)

/-- reading a local variable that is bound on some paths only -/
def getBound {α : Type} : Option α → M α
  | some a => .ok a
  | none => .error .unboundLocalError

/-- `for k, v in d.items(): state = body(state, k, v)` -/
def forItems {σ : Type} (body : σ → Str → Json → M σ) : Dict → σ → M σ
  | [], s => .ok s
  | (k, v) :: rest, s =>
    match body s k v with
    | .error e => .error e
    | .ok s' => forItems body rest s'

/-- `for b in bases: state = body(state, b)` -/
def forEachM {σ β : Type} (body : σ → β → M σ) : List β → σ → M σ
  | [], s => .ok s
  | b :: rest, s =>
    match body s b with
    | .error e => .error e
    | .ok s' => forEachM body rest s'

/-- `NoParserDefined` test and what `yield pfunc` hands to pydantic -/
def PFunc.isNoParser : PFunc → Bool
  | .noParser => true
  | .wrapper _ => false

/-- `x or y` for `x : Optional[class]` (classes are truthy) -/
def optOr {α : Type} (x : Option α) (y : α) : α :=
  match x with
  | some a => a
  | none => y

/-! ## metaclass `__init__` chain -/

/-- one `__init__(self, name, bases, dct)`: gets `super().__init__` as a function -/
abbrev MetaInit := (ClsSt → M ClsSt) → ClsSt → List ClsSt → M ClsSt

/-- `type.__call__` runs `__init__` of the first class of the MRO that defines one; `super().__init__`
continues behind it. Classes without an entry (ModelMetaclass, ABCMeta, type) define none that touches
`__json_encoder__` / `__constants__`. -/
def runInit (tbl : String → Option MetaInit) : List String → ClsSt → List ClsSt → M ClsSt
  | [], self, _ => .ok self
  | m :: rest, self, bases =>
    match tbl m with
    | some f => f (fun s => runInit tbl rest s bases) self bases
    | none => runInit tbl rest self bases

/-- module level of `schema/types.py`: the decorators run in source order on the global registry -/
def runRegistrations (reg_encoder : EncFn → Registry → ClsDesc → M (Registry × ClsDesc)) :
    List (ClsDesc × EncFn) → Registry → M Registry
  | [], reg => .ok reg
  | (c, f) :: rest, reg =>
    match reg_encoder f reg c with
    | .error e => .error e
    | .ok (reg', _) => runRegistrations reg_encoder rest reg'

end MetadorModel.CodecPy
