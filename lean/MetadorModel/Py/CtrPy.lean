import MetadorModel.Model.Container
/-!
# Value dictionary of the translated container bookkeeping (`harness/translate_c06.py`)

`Gen/TocFns.lean` is regenerated on every run from `container/interface.py` and
`container/wrappers.py`. Python statements become statements of the model's state-and-exception
monad `M` over the model's state `St` (raw tree + caches); this file fixes, once and by hand,
what the Python *values and library calls* of that fragment mean on the model's data types.
Every entry is a few lines; the docstring of `harness/translate_c06.py` lists which Python
expression is mapped to which entry.

Typed corners: the model's node names and dataset payloads are structured (`Key`, `Val`), a
Python string/bytes value is not. Where the source parses a string (`from_ep_name`, `UUID(..)`,
`json.loads`, `.decode`) the dictionary function fails on a key/payload of the wrong constructor
with the error the model assigns to that corner; on well-formed containers (`Inv`) these corners
are unreachable.
-/
namespace MetadorModel.CtrPy
open MetadorModel.Container

/-- `PluginPkgMeta` as far as the container code looks at it: name + version, schema plugins -/
structure PkgMeta where
  id : PkgId
  plugins : List SRef
deriving Repr, Inhabited, DecidableEq

/-- an entry-point name `<name>__<maj.min.fix>` is represented by the pair it encodes
(`from_ep_name ∘ to_ep_name = id` is C16's `epname_roundtrip`) -/
abbrev EpName := String × Ver

/-! ## f-strings that build paths -/

/-- `f"{base}/{to_ep_name(n, v)}"`: below `packages/` the name is a package, elsewhere a schema -/
def joinEp (base : Path) (x : EpName) : Path :=
  base ++ [if base = packagesP then Key.pkg ⟨x.1, x.2⟩ else Key.ep ⟨x.1, x.2⟩]
/-- `f"{base}/{uuid}"` -/
def joinUuid (base : Path) (u : Nat) : Path := base ++ [Key.link u]
/-- `f"{base}/{ep_name}={uuid}"` -/
def joinObj (base : Path) (x : EpName) (u : Nat) : Path := base ++ [Key.obj ⟨x.1, x.2⟩ u]
/-- `f"{base}/<constant>"` -/
def joinKey (base : Path) (k : Key) : Path := base ++ [k]

/-! ## exceptions -/

/-- `assert c` -/
def pyAssert (c : Bool) : M Unit := if c then pure () else raise .other
/-- the `KeyError` of `d[k]`, `del d[k]`, `s.remove(x)` on an absent key / element -/
def requireKey (c : Bool) : M Unit := if c then pure () else raise .key
/-- `d[k]` -/
def dictGetItem {K V : Type} [DecidableEq K] (d : List (K × V)) (k : K) : M V := ofOpt .key (alGet d k)
/-- attribute access / call on an `Optional` value (`AttributeError` on `None`) -/
def optAttr {α : Type} (o : Option α) : M α := ofOpt .other o
/-- unpacking a value that does not have the expected shape (`ValueError`) -/
def optValue {α : Type} (o : Option α) : M α := ofOpt .value o
def liftE {α : Type} : Except Err α → M α
  | .ok a => pure a
  | .error e => raise e

/-! ## raw container (`self._raw`, `self._mc.__wrapped__`, `self.__wrapped__`) -/

/-- `raw[p]` (the node handle is its path) -/
def rawGetItem (t : Tree) (p : Path) : M Path := if has t p then pure p else raise .key
/-- `raw.get(p)` -/
def rawGet (t : Tree) (p : Path) : Option Path := if has t p then some p else none
/-- `raw[p] = value` -/
def rawSetItem (p : Path) (v : Val) : M Unit := liftRaw fun t => rawCreate t p (.ds v)
/-- `del raw[p]` -/
def rawDelItem (p : Path) : M Unit := liftRaw fun t => rawDel t p
/-- `raw.move(a, b)` -/
def rawMoveM (a b : Path) : M Unit := liftRaw fun t => rawMove t a b
/-- `raw.copy(a, b, …)` -/
def rawCopyM (a b : Path) : M Unit := liftRaw fun t => rawCopy t a b
/-- `raw.require_group(p)`: the existing group, or a new one -/
def rawRequireGroup (p : Path) : M Path := do
  let s ← getSt
  match get? s.raw p with
  | some .grp => pure p
  | some (.ds _) => raise .type
  | none => do
    liftRaw fun t => rawCreate t p .grp
    pure p
/-- `isinstance(node, H5GroupLike)` / `isinstance(node, H5DatasetLike)` -/
def isGroup (t : Tree) (p : Path) : Bool := get? t p == some .grp
def isDataset (t : Tree) (p : Path) : Bool :=
  match get? t p with
  | some (.ds _) => true
  | _ => false
/-- `group.keys()`, `group.values()`, `group.items()`, `len(group)` -/
def groupKeys (t : Tree) (g : Path) : List Key := (children t g).map (·.1)
def groupValues (t : Tree) (g : Path) : List Path := (children t g).map fun kn => g ++ [kn.1]
def groupItems (t : Tree) (g : Path) : List (Key × Path) := (children t g).map fun kn => (kn.1, g ++ [kn.1])
def groupLen (t : Tree) (g : Path) : Nat := (children t g).length
/-- the nodes `group.visititems(f)` calls `f` with -/
def visitNodes (t : Tree) (g : Path) : List Path := (descendants t g).map (·.1)
/-- `MetadorGroup.values()`: the child nodes with a name that is not reserved -/
def userChildren (t : Tree) (p : Path) : List Path :=
  (children t p).filterMap fun kn => if kn.1.internal then none else some (p ++ [kn.1])
/-- the nodes `MetadorGroup.visititems(f)` calls `f` with (reserved paths are skipped) -/
def userVisit (t : Tree) (p : Path) : List Path := (userNodesFrom t p).map (·.1)
/-- `node[()]` -/
def dsRead (t : Tree) (p : Path) : M Val :=
  match get? t p with
  | some (.ds v) => pure v
  | _ => raise .key
/-- `bytes.decode("utf-8")` of a TOC link -/
def Val.decodePath : Val → M Path
  | .target p => pure p
  | _ => raise .key
/-- `json.loads(bytes.decode("utf-8"))` of a `compat` dataset, `list(map(PluginRef.parse_obj, ·))` -/
def Val.jsonRefs : Val → M (List SRef)
  | .compat l => pure l
  | _ => raise .other
/-- `PluginPkgMeta.parse_raw(bytes)` -/
def Val.pkgMeta : Val → M PkgMeta
  | .pkginfo p l => pure ⟨p, l⟩
  | _ => raise .validation

/-- `MetadorMeta._parse_obj(schema_class, value)` for a value given by the caller: pydantic accepts it or not -/
def parseValue (v : Bool × String) : M String := if v.1 then pure v.2 else raise .validation
/-- `MetadorMeta._parse_obj(schema_class, node[()])` for stored bytes: the class they are parsed with, the bytes -/
def parseStored (cls : SInfo) : Val → M (SRef × String)
  | .data tok => pure (cls.ref, tok)
  | _ => raise .validation

/-! ## names -/

/-- `node.name.split("/")[-1]` of a group below `links/`, read as an entry-point name -/
def lastEpName (p : Path) : M EpName :=
  match p.getLast? with
  | some (.ep r) => pure (r.name, r.ver)
  | _ => raise .other
/-- `from_ep_name(EPName(name))` for a child name of `packages/` -/
def Key.pkgName : Key → M PkgId
  | .pkg p => pure p
  | _ => raise .value
/-- `_schema_ref_for(name)` for a child name of `schemas/` -/
def Key.epName : Key → M EpName
  | .ep r => pure (r.name, r.ver)
  | _ => raise .value
/-- `UUID(name)` for a child name of `links/<schema>/` -/
def Key.uuidOf : Key → M Nat
  | .link u => pure u
  | _ => raise .value
/-- `StoredMetadata.from_node(node)` (string parsing of the node name: `objOfPath`) -/
def storedFromNode (p : Path) : M Stored :=
  match objOfPath p with
  | some (r, u) => pure ⟨u, r, p⟩
  | none => raise .value

/-! ## collections -/

/-- `s.remove(x)` -/
def pySetRemove {α : Type} [DecidableEq α] (l : List α) (a : α) : M (List α) :=
  if a ∈ l then pure (setRemove l a) else raise .key
/-- `set().union(*ls)` -/
def pyUnion {α : Type} [DecidableEq α] (ls : List (List α)) : List α :=
  ls.foldl (fun acc l => l.foldl setAdd acc) []
/-- `{f(x) for x in l}` after the elements have been computed -/
def pySetOf {α : Type} [DecidableEq α] (l : List α) : List α := l.foldl setAdd []
/-- `enumerate(l)` -/
def pyEnumFrom {α : Type} : Nat → List α → List (Nat × α)
  | _, [] => []
  | n, a :: t => (n, a) :: pyEnumFrom (n + 1) t
def pyEnumerate {α : Type} (l : List α) : List (Nat × α) := pyEnumFrom 0 l
/-- a loop whose body updates a local accumulator (`visititems` callback appending to a list) -/
def pyFoldM {α β : Type} : List α → β → (β → α → M β) → M β
  | [], b, _ => pure b
  | a :: t, b, f => do
    let b' ← f b a
    pyFoldM t b' f
/-- a comprehension whose element expression may raise -/
def pyMapM {α β : Type} : List α → (α → M β) → M (List β)
  | [], _ => pure []
  | a :: t, f => do
    let b ← f a
    let bs ← pyMapM t f
    pure (b :: bs)

/-! ## plugin environment (`metador_core.plugins.schemas`) -/

/-- `schemas.get(name, version)` (exact version; `None` when not installed) -/
def envGet (e : Env) (r : SRef) : Option SInfo := e.info r
/-- `schemas._get_unsafe(name, version)`: newest compatible installed version, `KeyError` -/
def envGetUnsafe (e : Env) (name : String) (ver : Option Ver) : M SInfo :=
  match e.resolve name ver with
  | none => raise .key
  | some r => ofOpt .key (e.info r)
/-- `schemas.parent_path(name, version)` -/
def envParentPath (e : Env) (r : SRef) : M (List SRef) := do
  let i ← ofOpt .other (e.info r)
  pure i.parents
/-- `schemas.provider(ref)` -/
def envProvider (e : Env) (r : SRef) : M PkgMeta := do
  let i ← ofOpt .other (e.info r)
  pure ⟨i.pkg, e.pkgPlugins i.pkg⟩
/-- `plugin_args(schema, version)` for a `(name, version)` tuple -/
def pluginArgs (k : String × Option Ver) (v : Option Ver) : String × Option Ver :=
  (k.1, match v with | some v => some v | none => k.2)

end MetadorModel.CtrPy
