import MetadorModel.Model.Tree
import MetadorModel.Model.Overlay
/-!
# Merging a record and building a stub (properties C05 and C10)

Mirrors, on top of the overlay model of `Model/Overlay.lean`:

* `IH5Record.merge_files` (`ih5/record.py`): a fresh single-container record is created, the
  root attributes of the source are copied, then every top-level entity of the source is
  copied with `h5_copy_from_to` (which lists the node and all its descendants through the
  overlay and replays them with `create_group` / `create_dataset` / `attrs[k] = v`).
  The sequence of writes is exactly the canonical listing of the source view without the
  root, in pre-order with sorted children — `materialise (listing r)`.
* `init_stub_skeleton` (`ih5/skeleton.py`): the same replay with every dataset value and every
  attribute value replaced by `h5py.Empty(None)` (`stubListing`).
* the user block of the merged container (`mergeUB`): the newest block of the source with
  `prev_patch` of the oldest one and the hash of the merged payload; the stub's block
  (`stubUB`): the newest block with `prev_patch = None`.

Import-free apart from the two model files.
-/
namespace MetadorModel.Merge
open MetadorModel.Tree MetadorModel.Overlay

variable {V : Type}

abbrev Listing (V : Type) := List (Path × NKind V × List (Key × V))

/-- replay a listing (root entry = root attributes, all other entries in order) into a fresh
single-container record -/
def materialise (l : Listing V) : Except Err (Rec V) := do
  let rootAttrs := match l.find? (fun e => e.1 == []) with
    | some e => e.2.2
    | none => []
  let r1 ← W.copyAttrs (Rec.init : Rec V) [] rootAttrs
  W.replay [] [] r1 (l.filter (fun e => e.1 != []))

/-- `merge_files`: the merged record (one container) -/
def mergeCont (r : Rec V) : Except Err (Rec V) := materialise (Overlay.listing r)

/-- the skeleton entry of a listing entry: kind tag and attribute names -/
def skelEntry (e : Path × NKind V × List (Key × V)) : Path × Bool × List Key :=
  (e.1, (match e.2.1 with | .group => true | .data _ => false), e.2.2.map (·.1))

def skel (l : Listing V) : List (Path × Bool × List Key) := l.map skelEntry

/-- what `init_stub_skeleton` writes: same paths, kinds and attribute names, all values `empty` -/
def stubListing (empty : V) (l : Listing V) : Listing V :=
  l.map (fun e => (e.1, (match e.2.1 with | .group => .group | .data _ => .data empty),
    e.2.2.map (fun kv => (kv.1, empty))))

/-- `create_stub` from the manifest skeleton of `r`: the stub record (one container) -/
def stubCont (empty : V) (r : Rec V) : Except Err (Rec V) :=
  materialise (stubListing empty (Overlay.listing r))


/-! ## what the replay computes, as plain container arithmetic (used by the proofs and by the
driver's well-formedness report) -/

/-- attribute map after `copy_attrs` -/
def putAll (as : List (Key × V)) (m : List (Key × Option V)) : List (Key × Option V) :=
  as.foldl (fun m kv => aput kv.1 (some kv.2) m) m

def rawKind : NKind V → RKind V
  | .group => .vgroup
  | .data v => .data v

/-- what one replayed listing entry does to the container -/
def apply1 (c : Cont V) (e : Path × NKind V × List (Key × V)) : Cont V :=
  aput e.1 ⟨rawKind e.2.1, putAll e.2.2 []⟩ c

def rootAttrsOf (l : Listing V) : List (Key × V) :=
  match l.find? (fun e => e.1 == []) with
  | some e => e.2.2
  | none => []

def nonRoot (l : Listing V) : Listing V := l.filter (fun e => e.1 != [])

/-- the fresh container after the root attributes have been copied -/
def rootCont (as : List (Key × V)) : Cont V :=
  aput [] { (vnode : RNode V) with attrs := putAll as [] } Cont.init


/-- decidable form of "the entry can be replayed": parent is an existing group, path is fresh -/
def stepOkB (c : Cont V) (e : Path × NKind V × List (Key × V)) : Bool :=
  match e.1.reverse with
  | [] => false
  | _ :: rpar =>
    (match aget rpar.reverse c with
      | some np => np.kind.isGroup
      | none => false) && (aget e.1 c).isNone

def chainB : Cont V → Listing V → Bool
  | _, [] => true
  | c, e :: more => stepOkB c e && chainB (apply1 c e) more

/-- decidable form of `Replayable` (the view is a tree listed parents-first, no duplicates) -/
def replayableB (l : Listing V) : Bool := chainB (rootCont (rootAttrsOf l)) (nonRoot l)

/-! ## user blocks (identity of merged containers and stubs) -/

structure UB where
  record : Nat        -- record uuid
  index : Nat         -- patch index
  patch : Nat         -- patch uuid
  prev : Option Nat   -- prev_patch
  hash : Option Nat   -- hdf5_hashsum (digest token of the payload)
deriving DecidableEq, Repr

/-- user block written by `merge_files` for source blocks `ubs` (oldest first, non-empty) -/
def mergeUB (ubs : List UB) (mergedHash : Nat) : Option UB :=
  match ubs.head?, ubs.getLast? with
  | some first, some last => some { last with prev := first.prev, hash := some mergedHash }
  | _, _ => none

/-- user block of the stub base container (`init_stub_base` + commit): the newest block of
the real record with `prev_patch = None`, hash of the stub payload -/
def stubUB (ubs : List UB) (stubHash : Nat) : Option UB :=
  match ubs.getLast? with
  | some last => some { last with prev := none, hash := some stubHash }
  | none => none

/-- `IH5UserBlock.create(prev)` for the next patch -/
def nextUB (prev : UB) (freshPatch : Nat) : UB :=
  { record := prev.record, index := prev.index + 1, patch := freshPatch, prev := some prev.patch, hash := none }

/-- the chain conditions `_check_ublock` imposes between a patch block and its predecessor -/
def follows (p prev : UB) : Bool :=
  p.record == prev.record && decide (prev.index < p.index) && p.prev == some prev.patch

/-- adjacent blocks of a chain (oldest first) satisfy the conditions `IH5Record._open` checks
with `_check_ublock` (record uuid, growing index, `prev_patch` link) -/
def coherent : List UB → Bool
  | [] => true
  | [_] => true
  | a :: b :: rest => follows b a && coherent (b :: rest)

/-! ## merging a run of containers (a file list opened with `allow_baseless=True`) in place -/

/-- replace the containers `i..j` (0 = oldest) of `r` by the merged container of that run, the
way `IH5Record([p_i .. p_j], allow_baseless=True).merge_files(t)` followed by opening
`[p_0 .. p_(i-1), t, p_(j+1) ..]` does; `none` when `i..j` is not a run of `r`.
(Records are lists of containers, newest first.) -/
def squashRun (r : Rec V) (i j : Nat) : Option (Except Err (Rec V)) :=
  let old := r.reverse
  if i ≤ j ∧ j < old.length then
    let run := (old.take (j + 1)).drop i
    some (match mergeCont run.reverse with
      | .ok m => .ok ((old.take i ++ m.reverse ++ old.drop (j + 1)).reverse)
      | .error e => .error e)
  else none

/-! ## the refusal guard of `merge_files` -/

inductive Refusal
  | stub      -- "Cannot merge, files contain a stub!" (`IH5MFRecord.merge_files`)
  | writable  -- "Cannot merge, please commit or discard your changes!" (`IH5Record.merge_files`)
deriving DecidableEq, Repr

/-- `IH5MFRecord.merge_files` scans the user blocks of ALL containers of the opened set for the
stub mark (`any(map(is_stub, self.ih5_meta))`), then `IH5Record.merge_files` refuses while the
newest container is uncommitted. `stubFlags`: one flag per container, oldest first. -/
def mergeGuard (stubFlags : List Bool) (hasWritable : Bool) : Except Refusal Unit :=
  if stubFlags.any id then .error .stub
  else if hasWritable then .error .writable
  else .ok ()

end MetadorModel.Merge
