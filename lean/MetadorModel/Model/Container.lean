/-!
# Model of the Metador container layer (properties C06, C07, C20)

Mirrors, line by line,

* `metador_core/container/interface.py`: `MetadorMeta` (`__init__`, `_get_raw`, `_set_raw`,
  `_del_raw`, `_destroy`, `query`, `__contains__`, `get`, `__setitem__`, `__delitem__`),
  `TOCLinks` (`__init__`, `fresh_uuid`, `resolve`, `update`, `register`, `unregister`,
  `find_missing`, `repair_missing`), `TOCSchemas` (`_update_parents_children`, `_register`,
  `_unregister`, `__init__`, `provider`, `parent_path`, `versions`, `children`),
  `TOCPackages` (`_add_providers`, `_register`, `_unregister`, `__init__`),
  `MetadorContainerTOC.query`;
* `metador_core/container/wrappers.py`: `MetadorNode._destroy_meta`,
  `MetadorGroup._destroy_meta / create_group / __setitem__ / __delitem__ / move / copy`,
  `MetadorContainer.__init__`;
* `metador_core/container/utils.py`: `to_meta_base_path`, `is_internal_path`, `is_meta_base_path`;
* `metador_core/plugin/interface.py`: `PluginGroup.versions / resolve / _get_unsafe`,
  `metador_core/schema/plugins.py`: `PluginRef.supports`.

The state is the *raw* (unwrapped) tree of the container as a flat path map, including the
`metador_meta_*` groups and `/metador_container/{links,schemas,packages}`, plus the
in-memory caches of `TOCLinks`, `TOCSchemas`, `TOCPackages` and a uuid counter (`uuid1()` is
modelled as a fresh counter value). The schema environment (`Env`: installed schema
references, their parent paths, providing package, auxiliary flag) is a parameter.

Node names are *structured* (`Key`): a user-chosen name, `metador_meta_<x>`,
`<schema>__<version>=<uuid>`, … — the string forms are rendered by the driver only; that the
string forms can be parsed back (`from_ep_name ∘ to_ep_name = id`) is C16's
`epname_roundtrip`. JSON payloads (`compat`, package info) are kept as the values they
encode (`json.loads ∘ json.dumps = id` is a listed assumption), the embedded JSON Schema and
metadata objects are opaque tokens.

Every operation returns the state it leaves behind also when it fails (`Except` result next
to the state), because C06 demands the invariant after failed operations as well.

Import-free: only core Lean.
-/
namespace MetadorModel.Container

/-! ## Names, paths, values -/

abbrev Ver := Nat × Nat × Nat

/-- reference to a schema plugin (`PluginRef` with group `schema`) -/
structure SRef where
  name : String
  ver : Ver
deriving DecidableEq, Repr, Inhabited

/-- Python package name + version (`PythonDep`) -/
structure PkgId where
  name : String
  ver : Ver
deriving DecidableEq, Repr, Inhabited

/-- structured node names of the raw container tree -/
inductive Key where
  | user (s : String)          -- user-chosen node name
  | metaDir (s : String)       -- `metador_meta_<s>` (`s = ""` for the group's own directory)
  | obj (r : SRef) (u : Nat)   -- `<name>__<version>=<uuid>`: a metadata object
  | toc                        -- `metador_container`
  | links | schemas | packages | version | uuid
  | ep (r : SRef)              -- `<name>__<version>` below `links/` and `schemas/`
  | link (u : Nat)             -- `<uuid>` below `links/<ep>/`
  | jsonschema | compat        -- `jsonschema.json`, `compat`
  | pkg (p : PkgId)            -- `<pkgname>__<version>` below `packages/`
deriving DecidableEq, Repr, Inhabited

abbrev Path := List Key

/-- dataset payloads -/
inductive Val where
  | data (tok : String)                      -- user data or serialised metadata object (opaque)
  | target (p : Path)                        -- TOC link: path of the metadata object
  | compat (l : List SRef)                   -- JSON list of parent references
  | jsonschema (r : SRef)                    -- embedded JSON Schema of `r` (opaque)
  | pkginfo (p : PkgId) (plugins : List SRef) -- `PluginPkgMeta` (name, version, schema plugins)
  | text (s : String)                        -- spec version / container uuid
deriving DecidableEq, Repr, Inhabited

inductive Node where
  | grp
  | ds (v : Val)
deriving DecidableEq, Repr, Inhabited

/-- raw tree: association list from absolute paths to nodes (first match wins; the root `[]`
is implicit and always a group) -/
abbrev Tree := List (Path × Node)

inductive Err where
  | key          -- KeyError
  | value        -- ValueError
  | type         -- TypeError
  | validation   -- pydantic ValidationError
  | other        -- anything raised by the raw driver (h5py / IH5) or an assertion
deriving DecidableEq, Repr, Inhabited

/-! ## Raw tree primitives (semantics of the h5py-like driver; see C01/C09) -/

def lookup : Tree → Path → Option Node
  | [], _ => none
  | (p, n) :: t, q => if p = q then some n else lookup t q

def get? (t : Tree) (q : Path) : Option Node :=
  if q = [] then some .grp else lookup t q

def has (t : Tree) (q : Path) : Bool := (get? t q).isSome

/-- `pre ++ [k]` for every step of `rest` except the last one must be a group or is created -/
def mkParents : Tree → Path → Path → Except Err Tree
  | t, _, [] => .ok t
  | t, _, [_] => .ok t
  | t, pre, k :: k' :: rest =>
    let pre' := pre ++ [k]
    match get? t pre' with
    | some .grp => mkParents t pre' (k' :: rest)
    | some (.ds _) => .error .other
    | none => mkParents ((pre', .grp) :: t) pre' (k' :: rest)

/-- create a new node (h5py `__setitem__`, `create_group`, `create_dataset`): the name must be
free, missing intermediate groups are created -/
def rawCreate (t : Tree) (p : Path) (n : Node) : Except Err Tree :=
  if p = [] then .error .other
  else if has t p then .error .other
  else match mkParents t [] p with
    | .error e => .error e
    | .ok t' => .ok ((p, n) :: t')

def under (p : Path) (q : Path) : Bool := p.isPrefixOf q

/-- `del raw[p]`: the node and everything below it -/
def rawDel (t : Tree) (p : Path) : Except Err Tree :=
  if p = [] then .error .other
  else if !has t p then .error .key
  else .ok (t.filter fun e => !under p e.1)

def rebase (src dst q : Path) : Path := dst ++ q.drop src.length

/-- `raw.move(src, dst)` -/
def rawMove (t : Tree) (src dst : Path) : Except Err Tree :=
  if src = [] || dst = [] then .error .other
  else if !has t src then .error .key
  else if has t dst then .error .other
  else if under src dst then .error .other  -- excluded by the property (detached cycle in HDF5)
  else match mkParents t [] dst with
    | .error e => .error e
    | .ok t' => .ok (t'.map fun e => if under src e.1 then (rebase src dst e.1, e.2) else e)

/-- `raw.copy(src, dst)`: snapshot of the source subtree placed at the free name `dst` -/
def rawCopy (t : Tree) (src dst : Path) : Except Err Tree :=
  if src = [] || dst = [] then .error .other
  else if !has t src then .error .key
  else if has t dst then .error .other
  else match mkParents t [] dst with
    | .error e => .error e
    | .ok t' => .ok (((t.filter fun e => under src e.1).map fun e => (rebase src dst e.1, e.2)) ++ t')

/-- names and nodes directly below `p` (`group.items()`), in storage order -/
def children (t : Tree) (p : Path) : List (Key × Node) :=
  t.filterMap fun e =>
    match e.1.getLast? with
    | some k => if e.1.length = p.length + 1 && under p e.1 then some (k, e.2) else none
    | none => none

/-- all nodes strictly below `p` (`visititems`) -/
def descendants (t : Tree) (p : Path) : List (Path × Node) :=
  t.filter fun e => under p e.1 && e.1.length > p.length

/-! ## Association lists and list-sets (Python `dict` / `set`) -/

section AL
variable {α β : Type} [DecidableEq α]

def alGet : List (α × β) → α → Option β
  | [], _ => none
  | (k, v) :: t, a => if k = a then some v else alGet t a

def alSet : List (α × β) → α → β → List (α × β)
  | [], a, b => [(a, b)]
  | (k, v) :: t, a, b => if k = a then (k, b) :: t else (k, v) :: alSet t a b

def alErase (l : List (α × β)) (a : α) : List (α × β) := l.filter fun e => e.1 ≠ a

def setAdd (l : List α) (a : α) : List α := if a ∈ l then l else l ++ [a]
def setRemove (l : List α) (a : α) : List α := l.filter (· ≠ a)
end AL

/-! ## Schema environment (the plugin system as the container code sees it) -/

structure SInfo where
  ref : SRef
  parents : List SRef   -- `schemas.parent_path(ref)`: root first, `ref` last
  pkg : PkgId           -- `schemas.provider(ref)` name and version
  aux : Bool            -- `Plugin.auxiliary`
deriving Repr, Inhabited

structure Env where
  schemas : List SInfo                 -- installed schemas; per name in ascending version order
  pkgs : List (PkgId × List SRef)      -- `PluginPkgMeta.plugins["schema"]` per package
deriving Repr, Inhabited

/-- `PluginRef.supports` -/
def supports (a b : SRef) : Bool :=
  a.name == b.name && a.ver.1 == b.ver.1 && decide (a.ver.2.1 ≥ b.ver.2.1)

def Env.info (e : Env) (r : SRef) : Option SInfo := e.schemas.find? fun i => i.ref = r

/-- `PluginGroup.versions(name, version)` -/
def Env.versions (e : Env) (name : String) (ver : Option Ver) : List SRef :=
  let refs := (e.schemas.filter fun i => i.ref.name == name).map (·.ref)
  match ver with
  | none => refs
  | some v => refs.filter fun r => supports r ⟨name, v⟩

/-- `PluginGroup.resolve`: newest compatible installed version -/
def Env.resolve (e : Env) (name : String) (ver : Option Ver) : Option SRef :=
  (e.versions name ver).getLast?

/-- `MetadorMeta._require_schema` -/
def Env.requireSchema (e : Env) (name : String) (ver : Option Ver) : Except Err SInfo :=
  match e.resolve name ver with
  | none => .error .key
  | some r =>
    match e.info r with
    | none => .error .key
    | some i => if i.aux then .error .type else .ok i

def Env.pkgPlugins (e : Env) (p : PkgId) : List SRef := (alGet e.pkgs p).getD []

/-! ## Container state -/

structure Caches where
  tocPath : List (Nat × Path) := []              -- `TOCLinks._toc_path`
  schemas : List SRef := []                       -- `TOCSchemas._schemas`
  parents : List (SRef × List SRef) := []         -- `TOCSchemas._parents`
  children : List (SRef × List SRef) := []        -- `TOCSchemas._children`
  used : List (PkgId × List SRef) := []           -- `TOCSchemas._used`
  pkginfos : List (PkgId × List SRef) := []       -- `TOCPackages._pkginfos` (schema plugins)
  providers : List (SRef × List PkgId) := []      -- `TOCPackages._providers`
deriving Repr, Inhabited

structure St where
  raw : Tree := []
  c : Caches := {}
  next : Nat := 0
deriving Repr, Inhabited

/-- outcome of an operation: what was raised (if anything) and the state left behind -/
abbrev Res (α : Type) := Except Err α × St

/-- state-and-exception monad that keeps the state when an exception is raised -/
def M (α : Type) := St → Res α

@[inline] def M.pure {α} (a : α) : M α := fun s => (.ok a, s)
@[inline] def M.bind {α β} (m : M α) (f : α → M β) : M β := fun s =>
  match m s with
  | (.ok a, s') => f a s'
  | (.error e, s') => (.error e, s')
instance : Monad M where
  pure := M.pure
  bind := M.bind

def raise {α} (e : Err) : M α := fun s => (.error e, s)
def getSt : M St := fun s => (.ok s, s)
def modifySt (f : St → St) : M Unit := fun s => (.ok (), f s)
def modC (f : Caches → Caches) : M Unit := modifySt fun s => { s with c := f s.c }
/-- run a raw-tree primitive on the state -/
def liftRaw (f : Tree → Except Err Tree) : M Unit := fun s =>
  match f s.raw with
  | .ok t => (.ok (), { s with raw := t })
  | .error e => (.error e, s)
def ofOpt {α} (e : Err) : Option α → M α
  | some a => pure a
  | none => raise e

def forEachM {α} (l : List α) (f : α → M Unit) : M Unit :=
  match l with
  | [] => pure ()
  | a :: t => do f a; forEachM t f

/-! ## Path conventions (`container/utils.py`) -/

def tocP : Path := [.toc]
def linksP : Path := [.toc, .links]
def schemasP : Path := [.toc, .schemas]
def packagesP : Path := [.toc, .packages]
def versionP : Path := [.toc, .version]
def uuidP : Path := [.toc, .uuid]
def linkDir (r : SRef) : Path := [.toc, .links, .ep r]
def linkPath (r : SRef) (u : Nat) : Path := [.toc, .links, .ep r, .link u]
def schemaDir (r : SRef) : Path := [.toc, .schemas, .ep r]
def pkgPath (p : PkgId) : Path := [.toc, .packages, .pkg p]

/-- a name starting with `metador_` -/
def Key.internal : Key → Bool
  | .user s => s.startsWith "metador_"
  | _ => true

/-- `is_internal_path(path)` for an absolute path -/
def isInternal (p : Path) : Bool := p.any Key.internal

def Key.isMetaDir : Key → Bool
  | .metaDir _ => true
  | _ => false

/-- `is_internal_path(path, METADOR_META_PREF)` -/
def inMeta (p : Path) : Bool := p.any Key.isMetaDir

/-- `is_meta_base_path` -/
def isMetaBase (p : Path) : Bool :=
  match p.getLast? with
  | some k => k.isMetaDir
  | none => false

/-- `to_meta_base_path(node.name, is_dataset)` -/
def metaBase (p : Path) (isDs : Bool) : Path :=
  if isDs then
    match p.getLast? with
    | some (.user s) => p.dropLast ++ [.metaDir s]
    | _ => p.dropLast ++ [.metaDir "?"]
  else p ++ [.metaDir ""]

/-! ## TOCPackages -/

/-- `_add_providers` -/
def addProviders (prov : List (SRef × List PkgId)) (pkg : PkgId) : List SRef → List (SRef × List PkgId)
  | [] => prov
  | r :: rs =>
    let cur := (alGet prov r).getD []
    addProviders (alSet prov r (setAdd cur pkg)) pkg rs

/-- `TOCPackages._register` -/
def pkgRegister (pkg : PkgId) (plugins : List SRef) : M Unit := do
  liftRaw fun t => rawCreate t (pkgPath pkg) (.ds (.pkginfo pkg plugins))
  modC fun c => { c with pkginfos := alSet c.pkginfos pkg plugins,
                         providers := addProviders c.providers pkg plugins }

/-- the loop of `TOCPackages._unregister` over `info.plugins` -/
def removeProviders (prov : List (SRef × List PkgId)) (pkg : PkgId) :
    List SRef → Except Err (List (SRef × List PkgId))
  | [] => .ok prov
  | r :: rs =>
    match alGet prov r with
    | none => .error .key
    | some ps =>
      if pkg ∉ ps then .error .key
      else
        let ps' := setRemove ps pkg
        removeProviders (if ps'.isEmpty then alErase prov r else alSet prov r ps') pkg rs

/-- `TOCPackages._unregister` -/
def pkgUnregister (pkg : PkgId) : M Unit := do
  liftRaw fun t => rawDel t (pkgPath pkg)
  let s ← getSt
  let info ← ofOpt .key (alGet s.c.pkginfos pkg)
  modC fun c => { c with pkginfos := alErase c.pkginfos pkg }
  let s ← getSt
  match removeProviders s.c.providers pkg info with
  | .error e => raise e
  | .ok prov =>
    modC fun c => { c with providers := prov }
    let s ← getSt
    if (children s.raw packagesP).isEmpty then liftRaw fun t => rawDel t packagesP

/-! ## TOCSchemas -/

/-- `_update_parents_children(schema_ref, parents)` with `parents` given (add) -/
def upcAdd (ref : SRef) (par : List (SRef × List SRef)) (chi : List (SRef × List SRef)) :
    (done : List SRef) → (rest : List SRef) → List (SRef × List SRef) × List (SRef × List SRef)
  | _, [] => (par, chi)
  | done, p :: rest =>
    let upto := done ++ [p]
    let par := if (alGet par p).isNone then alSet par p upto else par
    let chi := if (alGet chi p).isNone then alSet chi p [] else chi
    let chi := if p ≠ ref then alSet chi p (setAdd ((alGet chi p).getD []) ref) else chi
    upcAdd ref par chi upto rest

/-- `_update_parents_children(schema_ref, None)` (remove), loop over `self._parents[schema_ref]` -/
def upcRemove (ref : SRef) (schemas : List SRef) :
    (par : List (SRef × List SRef)) → (chi : List (SRef × List SRef)) → List SRef →
    Except Err (List (SRef × List SRef) × List (SRef × List SRef))
  | par, chi, [] => .ok (par, chi)
  | par, chi, p :: rest =>
    match alGet chi p with
    | none => .error .key
    | some cs =>
      let cs' := if p ≠ ref then setRemove cs ref else cs
      let chi := if p ≠ ref then alSet chi p cs' else chi
      if p ∈ schemas then upcRemove ref schemas par chi rest
      else if cs'.all (fun ch => ch ∉ schemas) then
        if (alGet par p).isNone then .error .key
        else upcRemove ref schemas (alErase par p) (alErase chi p) rest
      else upcRemove ref schemas par chi rest

/-- `TOCSchemas._register` -/
def schemaRegister (e : Env) (ref : SRef) : M Unit := do
  let s ← getSt
  if ref ∈ s.c.schemas then return ()
  -- schemas.get(name, version) / parent_path / provider of the environment
  let info ← ofOpt .other (e.info ref)
  liftRaw fun t => rawCreate t (schemaDir ref ++ [.jsonschema]) (.ds (.jsonschema ref))
  liftRaw fun t => rawCreate t (schemaDir ref ++ [.compat]) (.ds (.compat info.parents))
  modC fun c =>
    let (par, chi) := upcAdd ref c.parents c.children [] info.parents
    { c with schemas := setAdd c.schemas ref, parents := par, children := chi }
  let s ← getSt
  if ((alGet s.c.providers ref).getD []).isEmpty then
    pkgRegister info.pkg (e.pkgPlugins info.pkg)
    modC fun c => { c with used := alSet c.used info.pkg [] }
  let s ← getSt
  let provs ← ofOpt .key (alGet s.c.providers ref)
  forEachM provs fun pkg => do
    let s ← getSt
    let cur ← ofOpt .key (alGet s.c.used pkg)
    modC fun c => { c with used := alSet c.used pkg (setAdd cur ref) }

/-- `TOCSchemas._unregister` -/
def schemaUnregister (ref : SRef) : M Unit := do
  liftRaw fun t => rawDel t (schemaDir ref)
  let s ← getSt
  if ref ∉ s.c.schemas then raise .key
  modC fun c => { c with schemas := setRemove c.schemas ref }
  let s ← getSt
  let ps ← ofOpt .key (alGet s.c.parents ref)
  match upcRemove ref s.c.schemas s.c.parents s.c.children ps with
  | .error e => raise e
  | .ok (par, chi) =>
    modC fun c => { c with parents := par, children := chi }
    let s ← getSt
    let provs ← ofOpt .key (alGet s.c.providers ref)
    forEachM provs fun pkg => do
      let s ← getSt
      let cur ← ofOpt .key (alGet s.c.used pkg)
      let cur' := setRemove cur ref
      modC fun c => { c with used := alSet c.used pkg cur' }
      if cur'.isEmpty then pkgUnregister pkg
    let s ← getSt
    if (children s.raw schemasP).isEmpty then liftRaw fun t => rawDel t schemasP

/-! ## TOCLinks -/

/-- `fresh_uuid` (`uuid1()` never repeats: a counter) -/
def freshUuid : M Nat := fun s => (.ok s.next, { s with next := s.next + 1 })

/-- `register(obj)` -/
def linkRegister (e : Env) (ref : SRef) (u : Nat) (objPath : Path) : M Unit := do
  schemaRegister e ref
  let tp := linkPath ref u
  modC fun c => { c with tocPath := alSet c.tocPath u tp }
  liftRaw fun t => rawCreate t tp (.ds (.target objPath))

/-- `unregister(uuid)` -/
def linkUnregister (u : Nat) : M Unit := do
  let s ← getSt
  let tp ← ofOpt .key (alGet s.c.tocPath u)
  if !has s.raw tp then raise .key
  let schemaGroup := tp.dropLast
  let linkGroup := schemaGroup.dropLast
  if linkGroup ≠ linksP then raise .other
  liftRaw fun t => rawDel t tp
  modC fun c => { c with tocPath := alErase c.tocPath u }
  let s ← getSt
  if !(children s.raw schemaGroup).isEmpty then return ()
  match schemaGroup.getLast? with
  | some (.ep ref) =>
    liftRaw fun t => rawDel t schemaGroup
    schemaUnregister ref
    let s ← getSt
    if !(children s.raw linkGroup).isEmpty then return ()
    liftRaw fun t => rawDel t linkGroup
  | _ => raise .other

/-- `resolve(uuid)` -/
def linkResolve (s : St) (u : Nat) : Except Err Path :=
  match alGet s.c.tocPath u with
  | none => .error .key
  | some tp =>
    match get? s.raw tp with
    | some (.ds (.target p)) => .ok p
    | _ => .error .key

/-- `update(uuid, new_target)` -/
def linkUpdate (u : Nat) (newTarget : Path) : M Unit := do
  let s ← getSt
  let tp ← ofOpt .key (alGet s.c.tocPath u)
  liftRaw fun t => rawDel t tp
  liftRaw fun t => rawCreate t tp (.ds (.target newTarget))

/-- `StoredMetadata.from_node`: schema and uuid encoded in the node name -/
def objOfPath (p : Path) : Option (SRef × Nat) :=
  match p.getLast? with
  | some (.obj r u) => some (r, u)
  | _ => none

/-- `find_missing(path)`: metadata objects below `p` that the TOC does not list -/
def findMissing (s : St) (p : Path) : Except Err (List Path) :=
  (descendants s.raw p).foldlM (init := []) fun acc e =>
    if !inMeta e.1 then .ok acc
    else if isMetaBase e.1 then .ok acc
    else
      match objOfPath e.1 with
      | none => .error .value
      | some (_, u) =>
        if (alGet s.c.tocPath u).isNone then .ok (acc ++ [e.1])
        else
          match linkResolve s u with
          | .error err => .error err
          | .ok tgt => if tgt ≠ e.1 then .ok (acc ++ [e.1]) else .ok acc

/-- `repair_missing(missing, update)` -/
def repairMissing (e : Env) (missing : List Path) (update : Bool) : M Unit :=
  forEachM missing fun p => do
    match objOfPath p with
    | none => raise .value
    | some (r, u) =>
      let s ← getSt
      if update && (alGet s.c.tocPath u).isSome then
        linkUpdate u p
      else
        let u' ← freshUuid
        let newPath := p.dropLast ++ [.obj r u']
        liftRaw fun t => rawMove t p newPath
        linkRegister e r u' newPath

/-! ## MetadorMeta (one `node.meta` handle) -/

structure Stored where
  uuid : Nat
  schema : SRef
  path : Path
deriving Repr, Inhabited, DecidableEq

structure Handle where
  baseDir : Path
  objs : List (String × Stored)   -- `_objs`, keyed by schema name
deriving Repr, Inhabited

/-- `MetadorMeta.__init__`: load the objects encoded in the node names of the base dir -/
def openHandle (s : St) (node : Path) (isDs : Bool) : Handle :=
  let base := metaBase node isDs
  let objs := (children s.raw base).foldl (init := []) fun acc kn =>
    match kn.1 with
    | .obj r u => alSet acc r.name ⟨u, r, base ++ [.obj r u]⟩
    | _ => acc
  ⟨base, objs⟩

/-- `_get_raw(schema_name, version)` -/
def Handle.getRaw (h : Handle) (name : String) (ver : Option Ver) : Option Stored :=
  match alGet h.objs name, ver with
  | none, _ => none
  | some st, none => some st
  | some st, some v => if supports ⟨name, v⟩ st.schema then some st else none

/-- `_set_raw(schema_ref, obj)` -/
def Handle.setRaw (e : Env) (h : Handle) (ref : SRef) (tok : String) : M Handle := do
  let u ← freshUuid
  let objPath := h.baseDir ++ [.obj ref u]
  liftRaw fun t => rawCreate t objPath (.ds (.data tok))
  let h' : Handle := { h with objs := alSet h.objs ref.name ⟨u, ref, objPath⟩ }
  linkRegister e ref u objPath
  return h'

/-- `_del_raw(schema_name, _unlink)` -/
def Handle.delRaw (h : Handle) (name : String) (unlink : Bool) : M Handle := do
  let st ← ofOpt .key (alGet h.objs name)
  if unlink then linkUnregister st.uuid
  let h' : Handle := { h with objs := alErase h.objs st.schema.name }
  liftRaw fun t => rawDel t st.path
  if h'.objs.isEmpty then liftRaw fun t => rawDel t h.baseDir
  return h'

/-- `__setitem__(schema, value)`; `valid` says whether pydantic accepts the value -/
def Handle.set (e : Env) (h : Handle) (name : String) (ver : Option Ver) (valid : Bool) (tok : String) :
    M Handle := do
  if (h.getRaw name none).isSome then raise .value
  match e.requireSchema name ver with
  | .error err => raise err
  | .ok info =>
    if !valid then raise .validation
    h.setRaw e info.ref tok

/-- `__delitem__(schema)` -/
def Handle.del (h : Handle) (name : String) : M Handle := do
  if (h.getRaw name none).isNone then raise .key
  h.delRaw name true

/-- `_destroy(_unlink)` -/
def Handle.destroy (h : Handle) (unlink : Bool) : M Unit :=
  let rec go (h : Handle) : List String → M Unit
    | [] => pure ()
    | n :: ns => do
      let h' ← h.delRaw n unlink
      go h' ns
  go h (h.objs.map (·.1))

/-! ### container-local schema index (`TOCSchemas.versions / children`) -/

/-- `TOCSchemas.versions(name, version)` -/
def tocVersions (c : Caches) (name : String) (ver : Option Ver) : List SRef :=
  let refs := (c.children.map (·.1)).filter fun r => r.name == name
  match ver with
  | none => refs
  | some v => refs.filter fun r => supports ⟨name, v⟩ r

/-- `TOCSchemas.children(ref)` for a full reference -/
def tocChildren (c : Caches) (r : SRef) : List SRef := (alGet c.children r).getD []

/-- `TOCSchemas.children(name)` without a version: union over all known versions -/
def tocChildrenByName (c : Caches) (name : String) : List SRef :=
  ((c.children.filter fun e => e.1.name == name).map (·.2)).flatten

/-- `MetadorMeta.query(schema, version)` for a non-empty schema name: the exact schema first,
then attached child-schema instances (the real code iterates a `set`: any order) -/
def Handle.query (c : Caches) (h : Handle) (name : String) (ver : Option Ver) : List SRef :=
  let exact := match h.getRaw name ver with
    | some st => [st.schema]
    | none => []
  let compat := ((tocVersions c name ver).map (tocChildren c)).flatten
  let avail := h.objs.map (·.2.schema)
  exact ++ avail.filter (· ∈ compat)

/-- `(name, version) in node.meta` -/
def Handle.contains (c : Caches) (h : Handle) (name : String) (ver : Option Ver) : Bool :=
  if name = "" then false else !(h.query c name ver).isEmpty

/-- result of `get`: class the bytes were parsed with, the stored object -/
structure GetResult where
  parsedAs : SRef
  stored : Stored
  tok : String
deriving Repr, Inhabited, DecidableEq

/-- all answers `get(schema, version)` may give (the head is what this model returns; the real
code picks an arbitrary element of a `set` when only child-schema instances exist) -/
def Handle.getAll (e : Env) (s : St) (h : Handle) (name : String) (ver : Option Ver) :
    Except Err (List GetResult) :=
  match h.query s.c name ver with
  | [] => .ok []
  | qs =>
    match e.requireSchema name ver with
    | .error err => .error err
    | .ok info =>
      .ok (qs.filterMap fun q =>
        match h.getRaw q.name (some q.ver) with
        | none => none
        | some st =>
          match get? s.raw st.path with
          | some (.ds (.data tok)) => some ⟨info.ref, st, tok⟩
          | _ => none)

def Handle.get (e : Env) (s : St) (h : Handle) (name : String) (ver : Option Ver) :
    Except Err (Option GetResult) :=
  (h.getAll e s name ver).map List.head?

/-! ## Nodes (`wrappers.py`) -/

/-- kind of the user node at `p` (`self[name]`): `some true` = dataset -/
def nodeKind (s : St) (p : Path) : Option Bool :=
  match get? s.raw p with
  | some .grp => some false
  | some (.ds _) => some true
  | none => none

/-- `_guard_path` -/
def guardPath (p : Path) : M Unit := if isInternal p then raise .value else pure ()

/-- user nodes at and below `p` in the order `_destroy_meta` visits them: `p` itself, then
everything reachable through non-internal names -/
def userNodesFrom (t : Tree) (p : Path) : List (Path × Bool) :=
  (descendants t p).filterMap fun e =>
    if isInternal (e.1.drop p.length) then none
    else some (e.1, match e.2 with | .grp => false | .ds _ => true)

/-- `MetadorNode/MetadorGroup._destroy_meta(_unlink)` -/
def destroyMeta (p : Path) (isDs : Bool) (unlink : Bool) : M Unit := do
  let s ← getSt
  (openHandle s p isDs).destroy unlink
  if !isDs then
    -- `for child in self.values(): child._destroy_meta()`: the listing is taken lazily in the
    -- real code; user nodes are not touched by metadata deletion, so it is fixed up front
    forEachM (userNodesFrom s.raw p) fun (q, d) => do
      let s ← getSt
      (openHandle s q d).destroy unlink

/-- `create_group(name)` -/
def opCreateGroup (p : Path) : M Unit := do
  guardPath p
  liftRaw fun t => rawCreate t p .grp

/-- `group[name] = value` -/
def opCreateDataset (p : Path) (tok : String) : M Unit := do
  guardPath p
  liftRaw fun t => rawCreate t p (.ds (.data tok))

/-- `del group[name]` -/
def opDelete (p : Path) : M Unit := do
  guardPath p
  let s ← getSt
  let k ← ofOpt .key (nodeKind s p)
  destroyMeta p k true
  liftRaw fun t => rawDel t p

/-- `group.move(source, dest)` -/
def opMove (e : Env) (src dst : Path) : M Unit := do
  guardPath src
  guardPath dst
  let s ← getSt
  let k ← ofOpt .key (nodeKind s src)
  let srcMeta := metaBase src k
  liftRaw fun t => rawMove t src dst
  let s ← getSt
  let dk ← ofOpt .key (nodeKind s dst)
  let metaBaseP ← (do
    if dk then
      let dstMeta := metaBase dst true
      let s ← getSt
      if has s.raw srcMeta then liftRaw fun t => rawMove t srcMeta dstMeta
      pure dstMeta
    else pure dst : M Path)
  let s ← getSt
  if has s.raw metaBaseP then
    match findMissing s metaBaseP with
    | .error err => raise err
    | .ok missing => repairMissing e missing true

/-- `group.copy(source, dest, without_meta=…)` (string or node object as source: same) -/
def opCopy (e : Env) (src dst : Path) (withoutMeta : Bool) : M Unit := do
  guardPath src
  let s ← getSt
  let k ← ofOpt .key (nodeKind s src)
  guardPath dst
  liftRaw fun t => rawCopy t src dst
  let s ← getSt
  let _ ← ofOpt .key (nodeKind s dst)
  if k && !withoutMeta then
    let srcMeta := metaBase src true
    let dstMeta := metaBase dst true
    liftRaw fun t => rawCopy t srcMeta dstMeta
    let s ← getSt
    match findMissing s dstMeta with
    | .error err => raise err
    | .ok missing => repairMissing e missing false
  if !k then
    if withoutMeta then destroyMeta dst false false
    else
      let s ← getSt
      match findMissing s dst with
      | .error err => raise err
      | .ok missing => repairMissing e missing false

/-! ## Opening a container: the caches are rebuilt from the raw tree -/

/-- `TOCPackages.__init__` -/
def loadPackages (t : Tree) : List (PkgId × List SRef) × List (SRef × List PkgId) :=
  (children t packagesP).foldl (init := ([], [])) fun acc kn =>
    match kn with
    | (.pkg p, .ds (.pkginfo _ plugins)) => (alSet acc.1 p plugins, addProviders acc.2 p plugins)
    | _ => acc

/-- `TOCSchemas.__init__` -/
def loadSchemas (t : Tree) (pkginfos : List (PkgId × List SRef)) (providers : List (SRef × List PkgId)) :
    Caches :=
  let used0 : List (PkgId × List SRef) := pkginfos.map fun e => (e.1, [])
  let c0 : Caches := { pkginfos := pkginfos, providers := providers, used := used0 }
  (children t schemasP).foldl (init := c0) fun c kn =>
    match kn.1 with
    | .ep r =>
      match get? t (schemaDir r ++ [.compat]) with
      | some (.ds (.compat parents)) =>
        let (par, chi) := upcAdd r c.parents c.children [] parents
        let used := ((alGet c.providers r).getD []).foldl (init := c.used) fun u pkg =>
          alSet u pkg (setAdd ((alGet u pkg).getD []) r)
        { c with schemas := setAdd c.schemas r, parents := par, children := chi, used := used }
      | _ => c
    | _ => c

/-- `TOCLinks.__init__` -/
def loadLinks (t : Tree) : List (Nat × Path) :=
  (children t linksP).foldl (init := []) fun acc kn =>
    match kn.1 with
    | .ep r =>
      (children t (linkDir r)).foldl (init := acc) fun acc' ln =>
        match ln.1 with
        | .link u => alSet acc' u (linkPath r u)
        | _ => acc'
    | _ => acc

/-- caches of a freshly constructed `MetadorContainerTOC` on the raw tree `t` -/
def reload (t : Tree) : Caches :=
  let (infos, provs) := loadPackages t
  let c := loadSchemas t infos provs
  { c with tocPath := loadLinks t }

/-- `MetadorContainer(raw)` on an empty writable file: version and container uuid are written -/
def initSt : St :=
  { raw := [(uuidP, .ds (.text "uuid")), (versionP, .ds (.text "1.0")), (tocP, .grp)], c := {}, next := 0 }

def opReopen : M Unit := modifySt fun s => { s with c := reload s.raw }

/-! ## Container-level query -/

/-- `MetadorContainerTOC.query(schema, version, node=start)`: paths of matching nodes -/
def tocQuery (s : St) (start : Path) (name : String) (ver : Option Ver) : Except Err (List Path) :=
  if name = "" then .error .value
  else
    match nodeKind s start with
    | none => .error .key
    | some k =>
      let here := if (openHandle s start k).contains s.c name ver then [start] else []
      if k then .ok here
      else .ok (here ++ (userNodesFrom s.raw start).filterMap fun (q, d) =>
        if (openHandle s q d).contains s.c name ver then some q else none)

/-! ## Operations and histories -/

inductive MetaOp where
  | set (name : String) (ver : Option Ver) (valid : Bool) (tok : String)
  | del (name : String)
  | get (name : String) (ver : Option Ver)
deriving Repr, Inhabited

inductive Op where
  | createGroup (p : Path)
  | createDataset (p : Path) (tok : String)
  | onMeta (p : Path) (ops : List MetaOp)   -- operations on ONE `node.meta` handle
  | delete (p : Path)
  | copy (src dst : Path) (withoutMeta : Bool)
  | move (src dst : Path)
  | reopen
  | patch                                  -- IH5 patch boundary: invisible at this level (C01/C09)
deriving Repr, Inhabited

/-- what the caller of one sub-operation on a handle sees -/
inductive Outcome where
  | done                 -- `set` / `del` returned
  | found (r : Bool)     -- `get` returned an object / `None`
  | raised (e : Err)
deriving Repr, Inhabited, DecidableEq

/-- one sub-operation on a kept `node.meta` handle -/
def metaStep (e : Env) (h : Handle) (o : MetaOp) (s : St) : (Outcome × Handle) × St :=
  match o with
  | .set n v ok tok =>
    match h.set e n v ok tok s with
    | (.ok h', s') => ((.done, h'), s')
    | (.error err, s') => ((.raised err, h), s')
  | .del n =>
    match h.del n s with
    | (.ok h', s') => ((.done, h'), s')
    | (.error err, s') => ((.raised err, h), s')
  | .get n v =>
    match h.get e s n v with
    | .ok r => ((.found r.isSome, h), s)
    | .error err => ((.raised err, h), s)

/-- all sub-operations on one handle; the caller catches the exceptions one by one, so the
sequence continues after a refused sub-operation -/
def metaSeqTrace (e : Env) : Handle → List MetaOp → St → List Outcome × St
  | _, [], s => ([], s)
  | h, o :: os, s =>
    match metaStep e h o s with
    | ((out, h'), s') =>
      let r := metaSeqTrace e h' os s'
      (out :: r.1, r.2)

def metaSeq (e : Env) (h : Handle) (ops : List MetaOp) : M Unit := fun s =>
  (.ok (), (metaSeqTrace e h ops s).2)

def opMeta (e : Env) (p : Path) (ops : List MetaOp) : M Unit := do
  guardPath p   -- `mc[path]` goes through `_wrap_method("__getitem__")`
  let s ← getSt
  let k ← ofOpt .key (nodeKind s p)
  metaSeq e (openHandle s p k) ops

def step (e : Env) (op : Op) : M Unit :=
  match op with
  | .createGroup p => opCreateGroup p
  | .createDataset p tok => opCreateDataset p tok
  | .onMeta p ops => opMeta e p ops
  | .delete p => opDelete p
  | .copy src dst wm => opCopy e src dst wm
  | .move src dst => opMove e src dst
  | .reopen => opReopen
  | .patch => pure ()

/-- state after a history (failed operations keep their partial effects) -/
def run (e : Env) (s : St) : List Op → St
  | [] => s
  | op :: ops => run e (step e op s).2 ops

end MetadorModel.Container
