import MetadorModel.Model.Bytes
/-!
# Value dictionary of the translation of the byte / hashing / deletion-marker functions (C17)

`harness/translate_c17.py` turns the Python text of `_h5_wrap_bytes` (packer/utils.py),
`_is_del_mark`, `_node_is_del_mark`, `IH5Node._guard_value` (ih5/overlay.py), `hashsum`,
`qualified_hashsum`, `file_hashsum` (util/hashsums.py) into Lean text (`Gen/BytesFns.lean`)
statement by statement, on every run. This hand-written file fixes what the Python *values and
library calls* that occur there mean in terms of the data types of `Model/Bytes.lean`. Nothing
here looks at the shape of the seven functions.

| Python                                                  | Lean                                         |
|---------------------------------------------------------|----------------------------------------------|
| `bytes` value                                           | `Bytes` (`List UInt8`)                        |
| `str` value                                             | `Str` (`List Char`)                           |
| `len(x)` (bytes, str)                                   | `x.length : Nat`                              |
| `numpy.void(bs)`, `h5py.Empty("b")`                     | `H5Val.void bs`, `H5Val.empty`                |
| any object handed to `_is_del_mark` / `_guard_value`    | `PyObj`                                       |
| `isinstance(x, numpy.void)`                             | `x` is `.value (.void b)`; `x.tobytes()` = `b`|
| `isinstance(x, h5py.Dataset)`                           | `x` is `.dataset v`; `x[()]` = `.value v`     |
| `isinstance(x, IH5Node / h5py.SoftLink / ExternalLink)` | `x` is `.ih5node` / `.softLink` / `.externalLink` |
| `data : Union[bytes, BinaryIO]`                         | `PyData`                                      |
| `isinstance(data, bytes)`                               | `data` is `.bytes b`                          |
| a binary stream (`BytesIO(b)`, `open(path, "rb")`)      | `Bytes`: what is left between the position and EOF |
| `chunk = s.read(n)`                                     | `chunk := s.take n`, then `s := s.drop n`     |
| a `hashlib` object, `hashlib.<alg>`                     | `σ`, `fun _ => hl.new "<alg>"` (`HashLib σ`)  |
| `h.block_size`, `h.update(c)`, `h.hexdigest()`          | `hl.blockSize h`, `h := hl.update h c`, `hl.hexdigest h` |
| `D[k]` on a literal dict, `KeyError`                    | `pyDictGet D k = none`                        |
| truth value of an `int`, `bytes`/`str`, numpy/h5py value| `n != 0`, `!x.isEmpty`, `pyTruthy v`          |
| `x and y`, `x or y`, `y if c else z` on non-booleans    | `if truth x then y else x` … (branches that cannot be taken are dropped) |
| `raise ValueError(…)` / `TypeError(…)`                  | `.error .valueError` / `.error .typeError`    |

Assumptions that are part of this dictionary (tied by the correspondence run, not by the
translation): `read(n)` on a regular file or `BytesIO` returns `n` bytes unless fewer are left;
hash objects are not aliased (a local name is the only reference, so `h.update(c)` is a
re-binding of `h`); opening the file succeeds.

Import-free apart from `Model/Bytes.lean`.
-/
namespace MetadorModel.BytesPy
open MetadorModel.Bytes

/-- the Python objects that reach `_is_del_mark`, `_node_is_del_mark` and `_guard_value` -/
inductive PyObj where
  /-- a numpy / h5py scalar or a byte string (`np.void` ↦ `.void`, `h5py.Empty` ↦ `.empty`,
  `bytes` ↦ `.str`, `np.bytes_` ↦ `.fixed`) -/
  | value (v : H5Val)
  /-- an `h5py.Dataset` whose content `node[()]` is `v` -/
  | dataset (v : H5Val)
  /-- an `h5py.Group` -/
  | group
  /-- an `IH5Node` (`IH5Group`, `IH5Dataset`, `IH5Record`) -/
  | ih5node
  /-- `h5py.SoftLink(…)` -/
  | softLink
  /-- `h5py.ExternalLink(…)` -/
  | externalLink
deriving DecidableEq, Repr

/-- `data: Union[bytes, BinaryIO]` -/
inductive PyData where
  | bytes (b : Bytes)
  /-- a readable binary stream; `rest` = the bytes between its position and EOF -/
  | stream (rest : Bytes)
deriving DecidableEq, Repr

/-- what the `bytes` object holds / what the stream will still deliver -/
def PyData.content : PyData → Bytes
  | .bytes b => b
  | .stream r => r

/-- `bool(v)` (observed: `np.void` is true iff some byte is non-zero, `h5py.Empty` has neither
`__bool__` nor `__len__`, `bytes` / `np.bytes_` are true iff non-empty) -/
def pyTruthy : H5Val → Bool
  | .void bs => bs.any (· != 0)
  | .empty => true
  | .str bs => !bs.isEmpty
  | .fixed bs => !bs.isEmpty

/-- `D[k]` on a dict literal with distinct keys: `none` = `KeyError` -/
def pyDictGet {α : Type} : List (Str × α) → Str → Option α
  | [], _ => none
  | (k', v) :: rest, k => if k = k' then some v else pyDictGet rest k

end MetadorModel.BytesPy
