import MetadorModel.Model.Hashsums
/-!
# Value dictionary of the translation of `util/hashsums.py` (property C19)

`harness/translate_c19.py` turns the Python text of `rel_symlink` and `dir_hashsums` into Lean
text (`Gen/HashsumsFns.lean`) statement by statement. This hand-written file fixes what the
Python *values and library calls* that occur there mean in terms of the data types of
`Model/Hashsums.lean`. Nothing here looks at the shape of the two functions.

| Python                                              | Lean                                             |
|-----------------------------------------------------|--------------------------------------------------|
| the hashed directory (`dir` / `base` : `Path`)      | `FsTree`                                         |
| `dir.rglob("*")`                                    | `t.entries` (in the order `rglob` yields)        |
| a yielded entry (`path` : `Path`)                   | `Entry`                                          |
| `path.is_file()`, `path.is_symlink()`               | `e.node.isFile`, `e.node.isSymlink`              |
| `path.relative_to(dir)` (entry of that `dir`)       | `e.path`                                         |
| `os.readlink(str(path))`                            | `osReadlink e` (`OSError` unless a symlink)      |
| `path.parent / <that link text>`                    | `parentJoin e text`                              |
| `(…).resolve()` of the above / of the directory     | `Unresolved.resolve` (OS answer, data of the     |
|                                                     | `sym` node) / `FsTree.resolve` (= `t.base`)      |
| `a.relative_to(b)` on resolved paths                | `pyRelativeTo a b` (`ValueError`)                |
| pure relative path, `.name`, `.parent`, `str(·)`    | `Path`, `pathName`, `pathParent`, `pathStr`      |
| `str(x)` of an `Optional[Path]`                     | `pyStrOptPath` (`"None"` for `None`)             |
| `s.split("/")`                                      | `splitSlash s`                                   |
| `file_hashsum(path, alg)`                           | `pyFileHashsum hl e alg` (model of `Bytes.lean`) |
| nested result dict `ret` (owner)                    | `HT`                                             |
| a name bound to a dict *inside* `ret` (`curr`)      | `Cursor` = key path from `ret` to that object    |
| `k in curr`, `curr[k] = v`, `curr[k]`               | `pyContains`, `pySetItem`, `pyGetItem`           |
| `dict()` / `{}`, a `str` stored in a dict           | `HT.node []`, `HT.leaf s`                        |
| `raise E(…)`                                        | `.error .e` in `Py α = Except PyErr α`           |

Aliasing. Python's `curr = ret; …; curr = curr[seg]` walks *references* into one object graph.
The graph is a tree here (every stored dict is a fresh `dict()`), the translator admits stores
only through the cursor bound last, so "the object `curr` refers to" is exactly "what is found
in `ret` under the key path `curr`". A cursor may come to rest on a `str` (`curr = curr[seg]`
does not fail when the value is a string); the next `in` is then Python's substring test and
the next subscript a `TypeError` — both kept. `PyErr.staleAlias` marks a cursor that does not
lead anywhere; it cannot arise from translated text and the bridge theorems show it never does.

Import-free apart from `Model/Hashsums.lean` (`Model/Bytes.lean`).
-/
namespace MetadorModel.HashsumsPy
open MetadorModel.Bytes MetadorModel.Hashsums

/-- exception classes that the translated text can raise (a superset of `Bytes.Err`) -/
inductive PyErr where
  | valueError
  | typeError
  | keyError
  | osError
  | assertionError
  /-- not a Python exception: a cursor that leads nowhere (see header) -/
  | staleAlias
deriving DecidableEq, Repr

abbrev Py (α : Type) := Except PyErr α

/-- sequencing: the first raised exception wins -/
@[inline] def Py.bind {α β : Type} (x : Py α) (f : α → Py β) : Py β :=
  match x with
  | .error e => .error e
  | .ok a => f a

@[simp] theorem Py.bind_ok {α β : Type} (a : α) (f : α → Py β) : Py.bind (.ok a) f = f a := rfl
@[simp] theorem Py.bind_error {α β : Type} (e : PyErr) (f : α → Py β) :
    Py.bind (.error e : Py α) f = .error e := rfl

def liftErr : Err → PyErr
  | .valueError => .valueError
  | .typeError => .typeError

/-- a result of the model seen as a result of the translated text -/
def liftE {α : Type} : Except Err α → Py α
  | .ok a => .ok a
  | .error e => .error (liftErr e)

/-! ## pathlib / os -/

/-- `os.readlink(str(p))`: the link text, carried as what the OS will answer for
`(p.parent / text).resolve()` -/
structure LinkText where
  resolved : Path
deriving DecidableEq, Repr

/-- `p.parent / text` -/
structure Unresolved where
  resolved : Path
deriving DecidableEq, Repr

/-- `os.readlink(str(p))` — `OSError` (EINVAL) when `p` is not a symbolic link -/
def osReadlink (e : Entry) : Py LinkText :=
  match e.node with
  | .sym r _ => .ok ⟨r⟩
  | _ => .error .osError

/-- `p.parent / text` for the text read from `p` -/
def parentJoin (_e : Entry) (t : LinkText) : Unresolved := ⟨t.resolved⟩

/-- `(p.parent / text).resolve()` -/
def Unresolved.resolve (u : Unresolved) : Path := u.resolved

/-- `dir.resolve()` of the hashed directory -/
def _root_.MetadorModel.Hashsums.FsTree.resolve (t : FsTree) : Path := t.base

/-- `a.relative_to(b)` -/
def pyRelativeTo (a b : Path) : Py Path :=
  match relativeTo a b with
  | some r => .ok r
  | none => .error .valueError

def noneStr : Str := ['N', 'o', 'n', 'e']

/-- `str(x)` for `x : Optional[Path]` -/
def pyStrOptPath : Option Path → Str
  | none => noneStr
  | some p => pathStr p

/-- `file_hashsum(path, alg)`: `open(path, "rb")` follows symlinks -/
def pyFileHashsum {σ : Type} (hl : HashLib σ) (e : Entry) (alg : Str) : Py Str :=
  liftE (qualifiedHashsum hl e.node.readBytes alg)

/-! ## dict objects reached through an alias -/

abbrev Cursor := List Name

/-- `k in s` on strings -/
def strContains : Str → Str → Bool
  | [], k => k.isEmpty
  | c :: r, k => k.isPrefixOf (c :: r) || strContains r k

/-- `k in curr` -/
def pyContains (ret : HT) (curr : Cursor) (k : Name) : Py Bool :=
  match ret.get curr with
  | none => .error .staleAlias
  | some (.leaf s) => .ok (strContains s k)
  | some (.node d) => .ok (dget k d).isSome

/-- `curr[k] = v`; the new `ret` -/
def pySetItem : HT → Cursor → Name → HT → Py HT
  | .leaf _, [], _, _ => .error .typeError   -- 'str' object does not support item assignment
  | .node d, [], k, v => .ok (.node (dset k v d))
  | .leaf _, _ :: _, _, _ => .error .staleAlias
  | .node d, s :: c, k, v =>
    match dget s d with
    | none => .error .staleAlias
    | some sub =>
      match pySetItem sub c k v with
      | .error e => .error e
      | .ok sub' => .ok (.node (dset s sub' d))

/-- `curr[k]` as a new alias -/
def pyGetItem (ret : HT) (curr : Cursor) (k : Name) : Py Cursor :=
  match ret.get curr with
  | none => .error .staleAlias
  | some (.leaf _) => .error .typeError      -- string indices must be integers
  | some (.node d) => if (dget k d).isSome then .ok (curr ++ [k]) else .error .keyError

end MetadorModel.HashsumsPy
