import MetadorModel.Model.Codec
/-!
# Model of the glue code around the codec (property C12): dump options, text layer, encoder
registry, parser dispatch, the registered parsers, the `NumValue` parser, constants

`Model/Codec.lean` models what *pydantic* does with a field-type grammar. This file models the
thin layer of metador-core code that drives it, function by function, over the same data types
(`Json`, `PyVal`, `Ty`, `Env`, `lookup`/`setKey`/`hasKey` dicts):

* `forcedKw`, `jsonText`, `jsonDict`, `yamlText`, `bytesOf`, `strOf`, `parseRaw`, `parseFile`,
  `baseConfig` — `BaseModelPlus` (`schema/base.py:13-95`): which dump options are forced, JSON first
  and YAML only after a `ValidationError`, what is caught;
* `overrideConsts`, `schemaExtra` — `SchemaBase.override_consts` / `Config.schema_extra`
  (`schema/core.py:70-107`); `inheritConsts`, `classLeaf` — `SchemaMagic.__init__` /
  `DynJsonEncoderMetaMixin.__init__` (`schema/core.py:177-195`, `schema/encoder.py:85-97`);
* `regEncoder`, `registryModel`, `dynLeaf` — `json_encoder`, the three `@json_encoder(..)`
  registrations of `schema/types.py`, `_dynamize_encoder` (`schema/encoder.py:44-82`);
* `baseParse`, `runParser`, `getParser`, `validatorsOf`, `modifySchema` — `schema/parser.py`;
* `durParse`, `stringParse`, `pintParse`, `validateOpq` — the parsers of `Duration`, `PintUnit`,
  `PintQuantity` (`schema/types.py:57-150`) and the validation of such a field as a whole;
* `numParse` — `NumValue.Parser.parse` (`schema/common/__init__.py:62-101`).

Libraries (pydantic, json, ruamel.yaml, isodate, pint) are the fields of `Lib`; their laws are
hypotheses of the theorems (`Proofs/CodecParsers.lean`), never axioms. `envOf L` is the `Env`
of `Model/Codec.lean` obtained by running the modelled parsers over the library primitives, so
the C12 theorems (for all `env`) apply to it.

The functions here are hand-written; `Gen/CodecFns.lean` is regenerated from the source on every
run and `Bridge/CodecFns*.lean` proves the two equal. Import-free apart from `Model/Codec`.
-/
namespace MetadorModel.CodecParsers
open MetadorModel.Codec

/-- Python exceptions that occur in the modelled code -/
inductive PyErr
  | validationError   -- pydantic.ValidationError (a ValueError)
  | valueError | typeError | runtimeError | unboundLocalError | attributeError
  | indexError | keyError | osError
  | other             -- anything else a library raises (pint / tokenize / ruamel errors …)
deriving DecidableEq, Repr, Inhabited

abbrev M := Except PyErr
abbrev Dict := List (Str × Json)

/-- raised by a validator, pydantic turns it into a validation error of the field (`ValueError`,
`TypeError`; `AssertionError` does not occur); everything else aborts the validation -/
def PyErr.isValidation : PyErr → Bool
  | .validationError | .valueError | .typeError => true
  | _ => false

/-- `d.update(other)` -/
def dictUpdate (d other : Dict) : Dict := other.foldl (fun acc p => setKey p.1 p.2 acc) d

/-- Python truth value of plain data -/
def truthyJ : Json → Bool
  | .null => false
  | .bool b => b
  | .int i => i != 0
  | .float t => !(floatTokInt? t == some 0)
  | .str s => !s.isEmpty
  | .arr xs => !xs.isEmpty
  | .obj kvs => !kvs.isEmpty

/-! ## Python objects seen by the parsers -/

inductive QCls
  | tcls    -- the class of the field (`NumValue`, `Pixels`, …)
  | base    -- its direct base class `tcls.__base__` (`QuantitativeValue` for `NumValue`)
  | other
deriving DecidableEq, Repr, Inhabited

/-- an instance of `tcls` or of `tcls.__base__`: the attributes the `NumValue` parser reads / sets -/
structure QV where
  cls : QCls
  value : Json
  unitText : Json
  unitCode : Json
deriving Repr, Inhabited

inductive Obj
  /-- plain data as `json.loads` / YAML give it (None, bool, int, float, str, list, dict) -/
  | json (j : Json)
  /-- a `Duration` / `PintUnit` / `PintQuantity` instance, identified by the text its registered
  encoder prints -/
  | inst (k : Opq) (nf : Str)
  /-- what `isodate.parse_duration` returns (timedelta or isodate.Duration), by its total seconds -/
  | td (secs : Str)
  | qv (q : QV)
  /-- a tuple built by the code -/
  | tuple (xs : List Obj)

instance : Inhabited Obj := ⟨.json .null⟩

/-- the class a parser is asked to produce (`field.type_`) -/
inductive TCls
  | none
  | opq (k : Opq)
  | num
deriving DecidableEq, Repr, Inhabited

/-- `isinstance(v, target)` -/
def Obj.isInst (t : TCls) : Obj → Bool
  | .inst k _ => t == .opq k
  | .qv q => t == .num && q.cls == .tcls
  | _ => false

/-! ## encoder registry -/

/-- the functions given to `@json_encoder(..)` -/
inductive EncFn
  | durationIsoformat   -- `isodate.duration_isoformat`
  | str                 -- builtin `str`
  | named (n : String)
deriving DecidableEq, Repr, Inhabited

inductive ClsKey
  | opq (k : Opq)
  | named (n : String)
deriving DecidableEq, Repr, Inhabited

/-- what `reg_encoder` looks at -/
structure ClsDesc where
  key : ClsKey
  isModel : Bool       -- `issubclass(cls.__class__, ModelMetaclass)`
  isDataclass : Bool   -- `hasattr(cls, "__dataclass_fields__")`
deriving Repr, Inhabited

abbrev Registry := List (ClsKey × EncFn)

def Registry.get (r : Registry) (k : ClsKey) : Option EncFn :=
  match r with
  | [] => none
  | (k', f) :: rest => if k == k' then some f else Registry.get rest k

def Registry.has (r : Registry) (k : ClsKey) : Bool := (Registry.get r k).isSome

/-- `reg[k] = f` for a key that may or may not be present -/
def Registry.set (r : Registry) (k : ClsKey) (f : EncFn) : Registry :=
  match r with
  | [] => [(k, f)]
  | (k', f') :: rest => if k == k' then (k', f) :: rest else (k', f') :: Registry.set rest k f

/-- the `default=` function handed to `json.dumps` -/
abbrev EncLeaf := PyVal → M Json

/-- `type(obj)` as a registry key -/
def pyTypeKey : PyVal → ClsKey
  | .opq k _ => .opq k
  | .none => .named "NoneType"
  | .bool _ => .named "bool"
  | .int _ => .named "int"
  | .float _ => .named "float"
  | .str _ => .named "str"
  | .list _ => .named "list"
  | .set _ => .named "set"
  | .obj n _ _ _ => .named (String.ofList n)

/-! ## libraries -/

structure Lib where
  /-- `isodate.parse_duration(s)`: total seconds of the result, or what it raises -/
  parseDuration : Str → M Str
  /-- total seconds of a `Duration` instance given by its ISO text -/
  secondsOf : Str → Str
  /-- ISO text of `Duration(seconds=x)` -/
  durOfSeconds : Str → Str
  /-- `PintUnit(s)` / `PintQuantity(s)`: `str()` of the result, or what pint raises -/
  pint : Opq → Str → M Str
  /-- `bool(x)` of an instance (a zero quantity is falsy) -/
  instTruthy : Opq → Str → Bool
  /-- an encoder function applied to a value of a class it is not the canonical encoder of -/
  foreignEnc : EncFn → PyVal → M Json
  /-- alias ↦ attribute name (`by_alias=False`) -/
  unalias : Str → Str
  /-- `json.dumps(data, **dumps_kwargs)` on data that is plain already -/
  jsonDumps : Dict → Json → Str
  jsonLoads : Str → Option Json
  /-- the ruamel writer of `pydantic_yaml.to_yaml_str` -/
  yamlDump : Json → Str
  /-- `YAML(typ="safe", pure=True).load` -/
  yamlLoad : Str → M Json
  readFile : Str → Option Str
  normFloat : Str → Option Str
  /-- `BaseModel.parse_raw` with keyword arguments (content type, encoding, pickle …) -/
  foreignParseRaw : Ty → Str → Dict → M PyVal
  /-- `parse_obj_as(Number, x)` -/
  parseNumber : Obj → M Obj
  /-- `parse_obj_as(Tuple[Number, str], x)` -/
  parseNumStr : Obj → M Obj
  /-- `tcls.__base__.validate(d)` -/
  baseValidate : Obj → M Obj
  /-- `add_missing_field_descriptions(schema, model)` -/
  addDescriptions : Dict → Dict

/-- Python truth value -/
def Obj.truthy (L : Lib) : Obj → Bool
  | .json j => truthyJ j
  | .inst k nf => L.instTruthy k nf
  | .td _ => true     -- not used by the code
  | .qv _ => true
  | .tuple xs => !xs.isEmpty

/-! ## `schema/encoder.py` -/

/-- `json_encoder(func)(cls)`: the new registry and the value the decorator returns (`cls`) -/
def regEncoder (func : EncFn) (reg : Registry) (cls : ClsDesc) : M (Registry × ClsDesc) :=
  if cls.isModel then .error .typeError
  else if cls.isDataclass then .error .typeError
  else if reg.has cls.key then .error .valueError
  else .ok (reg.set cls.key func, cls)

/-- the registrations executed when `schema/types.py` is imported -/
def registryModel : Registry :=
  [(.opq .dur, .durationIsoformat), (.opq .unit, .str), (.opq .qty, .str)]

/-- application of a registered encoder: the canonical ones print the text the instance is
identified by -/
def applyEncFn (L : Lib) (f : EncFn) (v : PyVal) : M Json :=
  match f, v with
  | .durationIsoformat, .opq .dur s => .ok (.str s)
  | .str, .opq .unit s => .ok (.str s)
  | .str, .opq .qty s => .ok (.str s)
  | f, v => L.foreignEnc f v

/-- pydantic's own encoder (`pydantic_encoder` + `Config.json_encoders`): `TypeError` for the
classes it does not know, i.e. here the three opaque ones (sets and models are handled before) -/
def pydanticLeaf : EncLeaf
  | .opq _ _ => .error .typeError
  | v => .ok (encode v)

/-- `_dynamize_encoder(inner)`: the default first; after a `TypeError` the registry entry of
`type(obj)`; without one the `TypeError` again -/
def dynLeaf (L : Lib) (reg : Registry) (inner : EncLeaf) : EncLeaf := fun v =>
  match inner v with
  | .ok r => .ok r
  | .error .typeError =>
    match reg.get (pyTypeKey v) with
    | some f => applyEncFn L f v
    | none => .error .typeError
  | .error e => .error e

/-- `__json_encoder__` of a class created by a metaclass deriving from `DynJsonEncoderMetaMixin`
all of whose `__init__` chain to it -/
def classLeaf (L : Lib) (reg : Registry) : EncLeaf := dynLeaf L reg pydanticLeaf

/-! ## dumping (`BaseModel.json`) with options -/

structure DumpOpts where
  byAlias : Bool
  excludeNone : Bool
deriving DecidableEq, Repr, Inhabited

def kByAlias : Str := (['b', 'y', '_', 'a', 'l', 'i', 'a', 's'] : Str)
def kExcludeNone : Str := (['e', 'x', 'c', 'l', 'u', 'd', 'e', '_', 'n', 'o', 'n', 'e'] : Str)

/-- a keyword flag of pydantic's `json()` (both default to `False`) -/
def kwFlag (k : Str) (kw : Dict) : Bool :=
  match lookup k kw with
  | some j => truthyJ j
  | none => false

def dumpOpts (kw : Dict) : DumpOpts := ⟨kwFlag kByAlias kw, kwFlag kExcludeNone kw⟩

/-- what is left for `json.dumps` -/
def kwRest (kw : Dict) : Dict := kw.filter (fun p => !(p.1 == kByAlias) && !(p.1 == kExcludeNone))

mutual
/-- `json()` data of a value with an explicit `default=` function and options -/
def encodeVia (leaf : EncLeaf) (o : DumpOpts) (un : Str → Str) : PyVal → M Json
  | .none => .ok .null
  | .bool b => .ok (.bool b)
  | .int i => .ok (.int i)
  | .float t => .ok (.float t)
  | .str s => .ok (.str s)
  | .opq k s => leaf (.opq k s)
  | .list vs =>
    match encodeViaList leaf o un vs with
    | .ok l => .ok (.arr l)
    | .error e => .error e
  | .set vs =>
    match encodeViaList leaf o un vs with
    | .ok l => .ok (.arr l)
    | .error e => .error e
  | .obj _ fs cs xs =>
    match encodeViaFields leaf o un fs with
    | .ok l => .ok (.obj (l ++ cs ++ (if o.excludeNone then xs.filter (fun p => !isNull p.2) else xs)))
    | .error e => .error e
def encodeViaList (leaf : EncLeaf) (o : DumpOpts) (un : Str → Str) : List PyVal → M (List Json)
  | [] => .ok []
  | v :: vs =>
    match encodeVia leaf o un v, encodeViaList leaf o un vs with
    | .ok j, .ok js => .ok (j :: js)
    | .error e, _ => .error e
    | _, .error e => .error e
def encodeViaFields (leaf : EncLeaf) (o : DumpOpts) (un : Str → Str) : List (Str × PyVal) → M (List (Str × Json))
  | [] => .ok []
  | (k, v) :: r =>
    match v with
    | .none =>
      if o.excludeNone then encodeViaFields leaf o un r
      else
        match encodeViaFields leaf o un r with
        | .ok js => .ok ((if o.byAlias then k else un k, .null) :: js)
        | .error e => .error e
    | v =>
      match encodeVia leaf o un v, encodeViaFields leaf o un r with
      | .ok j, .ok js => .ok ((if o.byAlias then k else un k, j) :: js)
      | .error e, _ => .error e
      | _, .error e => .error e
end

/-- `BaseModel.json(**kw)` of pydantic for an instance whose class has the encoder `leaf` -/
def pydJson (L : Lib) (leaf : EncLeaf) (v : PyVal) (kw : Dict) : M Str :=
  match encodeVia leaf (dumpOpts kw) L.unalias v with
  | .ok j => .ok (L.jsonDumps (kwRest kw) j)
  | .error e => .error e

/-! ## the registered parsers (`schema/types.py`) and the dispatch (`schema/parser.py`) -/

/-- `BaseParser.parse` -/
def baseParse (target : TCls) (v : Obj) : M Obj :=
  if target != .none && !(v.isInst target) then .error .typeError else .ok v

/-- `Duration.Parser.parse` -/
def durParse (L : Lib) (tcls : TCls) (v : Obj) : M Obj :=
  match v with
  | .json (.str s) =>
    match L.parseDuration s with
    | .ok secs => if tcls == .opq .dur then .ok (.inst .dur (L.durOfSeconds secs)) else .error .typeError
    | .error e => .error e
  | .inst k nf =>
    if tcls == .opq k then
      (if k == .dur then .ok (.inst .dur (L.durOfSeconds (L.secondsOf nf))) else .error .attributeError)
    else .error .typeError
  | .qv q => if tcls == .num && q.cls == .tcls then .error .attributeError else .error .typeError
  | _ => .error .typeError

/-- `tcls(v)` for a string `v` -/
def construct (L : Lib) (tcls : TCls) (s : Str) : M Obj :=
  match tcls with
  | .opq .dur => .error .typeError    -- `isodate.Duration("…")`: no such positional argument
  | .opq k =>
    match L.pint k s with
    | .ok n => .ok (.inst k n)
    | .error e => .error e
  | _ => .error .typeError

/-- `StringParser.parse` -/
def stringParse (L : Lib) (tcls : TCls) (v : Obj) : M Obj :=
  if v.isInst tcls then .ok v
  else
    match v with
    | .json (.str s) => construct L tcls s
    | _ => .error .typeError

/-- `PintParser.parse`: falsy input is a `ValueError`; `ValueError` / `TypeError` pass, every other
exception becomes a `ValueError` (F27) -/
def pintParse (L : Lib) (tcls : TCls) (v : Obj) : M Obj :=
  if !(v.truthy L) then .error .valueError
  else
    match stringParse L tcls v with
    | .ok r => .ok r
    | .error e => if e.isValidation then .error e else .error .valueError

structure ParserCls where
  isBaseParser : Bool          -- `issubclass(parser, BaseParser)`
  strict : Bool
  parse : TCls → Obj → M Obj   -- `parser.parse(target, v)`
  schemaInfo : Dict

/-- `run_parser` -/
def runParser (p : ParserCls) (target : TCls) (value : Obj) : M Obj :=
  match p.parse target value with
  | .ok ret => if p.strict && !(ret.isInst target) then .error .runtimeError else .ok ret
  | .error e => .error e

inductive PFunc
  | noParser
  | wrapper (p : ParserCls)

/-- a class that mixes in `ParserMixin` -/
structure PCls where
  ownParser : Option ParserCls   -- `cls.__dict__.get("Parser")` (own, not inherited)
  cache : Option PFunc           -- `cls.__dict__.get("__parser_func__")`
  isModel : Bool                 -- `issubclass(cls, BaseModel)`

inductive Validator
  | pfunc (p : ParserCls)   -- `wrapper_func`: `run_parser(parser, field.type_, value)`
  | modelValidate           -- `cls.validate`
  | bogus                   -- the class `NoParserDefined` itself (not a validator: pydantic fails on it)

/-- what `yield pfunc` hands to pydantic -/
def Validator.ofPFunc : PFunc → Validator
  | .wrapper p => .pfunc p
  | .noParser => .bogus

/-- `get_parser` -/
def getParser (c : PCls) : M (Option ParserCls) :=
  match c.ownParser with
  | some p => if p.isBaseParser then .ok (some p) else .error .typeError
  | none => .ok none

def pfuncValidators : PFunc → List Validator
  | .noParser => []
  | .wrapper p => [.pfunc p]

/-- `ParserMixin.__get_validators__`: the class (with its cache filled) and what is yielded -/
def validatorsOf (c : PCls) : M (PCls × List Validator) :=
  let mv := if c.isModel then [Validator.modelValidate] else []
  match c.cache with
  | some f => .ok (c, pfuncValidators f ++ mv)
  | none =>
    match getParser c with
    | .error e => .error e
    | .ok (some p) => .ok ({ c with cache := some (.wrapper p) }, [.pfunc p] ++ mv)
    | .ok none => .ok ({ c with cache := some .noParser }, mv)

/-- `ParserMixin.__modify_schema__` -/
def modifySchema (c : PCls) (schema : Dict) : M Dict :=
  match getParser c with
  | .error e => .error e
  | .ok (some p) => .ok (if p.schemaInfo.isEmpty then schema else dictUpdate schema p.schemaInfo)
  | .ok none => .ok schema

/-- the `Parser` classes of the three opaque types (`strict` and `schema_info` as declared) -/
def parserOf (L : Lib) (info : Opq → Dict) : Opq → ParserCls
  | .dur => ⟨true, true, durParse L, info .dur⟩
  | k => ⟨true, true, pintParse L, info k⟩

/-- validation of a field of an opaque type as a whole: the one validator `__get_validators__`
yields, i.e. `run_parser(Parser, field.type_, value)` -/
def validateOpq (L : Lib) (k : Opq) (v : Obj) : M Obj :=
  match k with
  | .dur =>
    match v with
    | .json (.str s) =>
      match L.parseDuration s with
      | .ok secs => .ok (.inst .dur (L.durOfSeconds secs))
      | .error e => .error e
    | .inst .dur nf => .ok (.inst .dur (L.durOfSeconds (L.secondsOf nf)))
    | _ => .error .typeError
  | k =>
    if !(v.truthy L) then .error .valueError
    else
      match v with
      | .inst k' nf => if k' == k then .ok (.inst k' nf) else .error .typeError
      | .json (.str s) =>
        match L.pint k s with
        | .ok n => .ok (.inst k n)
        | .error e => if e.isValidation then .error e else .error .valueError
      | _ => .error .typeError

/-- the `Env` of `Model/Codec.lean` that the parsers and the libraries give: `norm k s` is the text
of the instance the validation of the string `s` returns, `crash` an exception pydantic lets through -/
def envOf (L : Lib) : Env where
  norm := fun k s =>
    match validateOpq L k (.json (.str s)) with
    | .ok (.inst _ n) => some n
    | _ => none
  normFloat := L.normFloat
  crash := fun k s =>
    match validateOpq L k (.json (.str s)) with
    | .error e => !e.isValidation
    | .ok _ => false

/-! ## `BaseModelPlus` (`schema/base.py`) -/

/-- `_mod_def_dump_args` -/
def forcedKw (kw : Dict) : Dict :=
  let kw := if hasKey kByAlias kw then kw else setKey kByAlias (.bool true) kw
  if hasKey kExcludeNone kw then kw else setKey kExcludeNone (.bool true) kw

/-- `.json(**kw)` -/
def jsonText (L : Lib) (leaf : EncLeaf) (v : PyVal) (kw : Dict) : M Str := pydJson L leaf v (forcedKw kw)

def loadsOrRaise (L : Lib) (s : Str) : M Json :=
  match L.jsonLoads s with
  | some j => .ok j
  | none => .error .valueError

/-- `.json_dict(**kw)` -/
def jsonDict (L : Lib) (leaf : EncLeaf) (v : PyVal) (kw : Dict) : M Json :=
  match jsonText L leaf v kw with
  | .ok s => loadsOrRaise L s
  | .error e => .error e

/-- `.yaml()`: `to_yaml_str(self)` = ruamel dump of `json.loads(self.json())` -/
def yamlText (L : Lib) (leaf : EncLeaf) (v : PyVal) : M Str :=
  match jsonDict L leaf v [] with
  | .ok j => .ok (L.yamlDump j)
  | .error e => .error e

/-- `bytes(o)` (UTF-8 bytes travel as one char each, see `Model/Codec.lean`) -/
def bytesOf (L : Lib) (leaf : EncLeaf) (v : PyVal) : M Str :=
  match jsonText L leaf v [] with
  | .ok s => .ok (s ++ ['\n'])
  | .error e => .error e

/-- `str(o)` -/
def strOf (L : Lib) (leaf : EncLeaf) (v : PyVal) : M Str :=
  jsonText L leaf v [((['i', 'n', 'd', 'e', 'n', 't'] : Str), .int 2)]

/-- pydantic validation of parsed data as an exception-raising call -/
def pydValidate (L : Lib) (t : Ty) (j : Json) : M PyVal :=
  match decode (envOf L) t j with
  | .ok v => .ok v
  | .error .crash => .error .other
  | .error _ => .error .validationError

/-- `BaseModel.parse_raw(dat, **kw)`: text that is not JSON is a `ValidationError` as well -/
def pydParseRaw (L : Lib) (t : Ty) (dat : Str) (kw : Dict) : M PyVal :=
  if kw.isEmpty then
    match L.jsonLoads dat with
    | some j => pydValidate L t j
    | none => .error .validationError
  else L.foreignParseRaw t dat kw

/-- `pydantic_yaml.parse_yaml_raw_as(cls, dat)` -/
def parseYamlRawAs (L : Lib) (t : Ty) (dat : Str) : M PyVal :=
  match L.yamlLoad dat with
  | .ok j => pydValidate L t j
  | .error e => .error e

/-- `pydantic_yaml.parse_yaml_file_as(cls, path)` -/
def parseYamlFileAs (L : Lib) (t : Ty) (path : Str) : M PyVal :=
  match L.readFile path with
  | some s => parseYamlRawAs L t s
  | none => .error .osError

/-- `S.parse_raw(dat, **kw)`: JSON first; YAML after a `ValidationError` and only then -/
def parseRaw (L : Lib) (t : Ty) (dat : Str) (kw : Dict) : M PyVal :=
  match pydParseRaw L t dat kw with
  | .ok v => .ok v
  | .error .validationError => parseYamlRawAs L t dat
  | .error e => .error e

def parseFile (L : Lib) (t : Ty) (path : Str) : M PyVal := parseYamlFileAs L t path

/-- `BaseModelPlus.Config` (sorted by name) -/
def baseConfig : List (String × Json) :=
  [("allow_inf_nan", .bool false), ("allow_population_by_field_name", .bool true),
   ("anystr_strip_whitespace", .bool true), ("extra", .str (['a', 'l', 'l', 'o', 'w'] : Str)),
   ("min_anystr_length", .int 1), ("underscore_attrs_are_private", .bool true),
   ("use_enum_values", .bool true), ("validate_all", .bool true), ("validate_assignment", .bool true)]

/-! ## constants (`schema/core.py`) -/

/-- `SchemaBase.override_consts` (pre root validator) -/
def overrideConsts (consts values : Dict) : Dict := dictUpdate values consts

def kConstFlds : Str := (['$', 'm', 'e', 't', 'a', 'd', 'o', 'r', '_', 'c', 'o', 'n', 's', 't', 'a', 'n', 't', 's'] : Str)
def kProperties : Str := (['p', 'r', 'o', 'p', 'e', 'r', 't', 'i', 'e', 's'] : Str)

/-- what `Config.schema_extra` looks at -/
structure SchemaCls where
  constants : Dict
  isMetadataSchema : Bool          -- `model is MetadataSchema`
  orig : Option (Dict × Bool)      -- `UndefVersion._unwrap(model)`: constants / is-root of the original class

/-- `UndefVersion._unwrap(model)` -/
def SchemaCls.unwrapOpt (c : SchemaCls) : Option SchemaCls :=
  match c.orig with
  | some (cs, r) => some ⟨cs, r, none⟩
  | none => none

def SchemaCls.unwrap (c : SchemaCls) : SchemaCls :=
  match c.unwrapOpt with
  | some o => o
  | none => c

/-- `schema[k1][k2] = v` -/
def dictSet2 (d : Dict) (k1 k2 : Str) (v : Json) : M Dict :=
  match lookup k1 d with
  | some (.obj inner) => .ok (setKey k1 (.obj (setKey k2 v inner)) d)
  | some _ => .error .typeError
  | none => .error .keyError

/-- the loop of `schema_extra` over the constants -/
def schemaExtraLoop : Dict → Dict → M Dict
  | schema, [] => .ok schema
  | schema, (c, v) :: rest =>
    match dictSet2 schema kProperties c (.bool true) with
    | .error e => .error e
    | .ok s1 =>
      match dictSet2 s1 kConstFlds c v with
      | .error e => .error e
      | .ok s2 => schemaExtraLoop s2 rest

/-- `Config.schema_extra(schema, model)` -/
def schemaExtra (L : Lib) (schema : Dict) (model : SchemaCls) : M Dict :=
  let m := model.unwrap
  let schema := if m.isMetadataSchema then schema else L.addDescriptions schema
  if m.constants.isEmpty then .ok schema
  else schemaExtraLoop (setKey kConstFlds (.obj []) schema) m.constants

/-- the attributes of a class under construction that the metaclass `__init__`s touch -/
structure ClsSt where
  jsonEncoder : EncLeaf
  constants : Dict

/-- `SchemaMagic.__init__`: constants of all bases, copied -/
def inheritConsts (bases : List ClsSt) : Dict :=
  bases.foldl (fun acc b => dictUpdate acc b.constants) []

/-! ## `NumValue.Parser.parse` (`schema/common/__init__.py`) -/

/-- the class attributes of a `NumValue.Parser` subclass -/
structure NumCfg where
  allowedUnits : List Str
  inferUnit : Option Str
  requireUnit : Bool
deriving Repr, Inhabited

def ofOptStr : Option Str → Json
  | some s => .str s
  | none => .null

/-- `tcls.construct(value=a, unitText=b)` -/
def numConstruct (value unitText : Obj) : M Obj :=
  match value, unitText with
  | .json a, .json b => .ok (.qv ⟨.tcls, a, b, .null⟩)
  | _, _ => .error .other   -- outside the model: non-plain attribute values

def isWs (c : Char) : Bool := isSpace c

/-- first white-space separated word and the rest (leading white space of the rest dropped) -/
def splitWord : Str → Str × Str
  | [] => ([], [])
  | c :: r => if isWs c then ([], dropWs r) else let (w, rest) := splitWord r; (c :: w, rest)

/-- `s.split(maxsplit=1)`: leading white space skipped, the rest keeps its own trailing white space -/
def split1 (s : Str) : List Str :=
  let t := dropWs s
  if t.isEmpty then []
  else
    let (w, rest) := splitWord t
    if rest.isEmpty then [w] else [w, rest]

/-- `s.strip().split(maxsplit=1)` -/
def stripSplit1 (s : Str) : List Str := split1 (stripWs s)

def isNumber : Json → Bool
  | .int _ => true
  | .float _ => true
  | _ => false

/-- `len(x)` -/
def pyLen : Obj → M Nat
  | .tuple xs => .ok xs.length
  | .json (.arr xs) => .ok xs.length
  | .json (.str s) => .ok s.length
  | .json (.obj kvs) => .ok kvs.length
  | _ => .error .typeError

/-- `x[i]` for a constant index `i ≥ 0` -/
def pyIndex (o : Obj) (i : Nat) : M Obj :=
  match o with
  | .tuple xs =>
    match xs[i]? with
    | some x => .ok x
    | none => .error .indexError
  | .json (.arr xs) =>
    match xs[i]? with
    | some x => .ok (.json x)
    | none => .error .indexError
  | .json (.str s) =>
    match s[i]? with
    | some c => .ok (.json (.str [c]))
    | none => .error .indexError
  | .json (.obj _) => .error .keyError
  | _ => .error .typeError

/-- `x in units` for a list of strings -/
def Obj.inStrs (o : Obj) (l : List Str) : Bool :=
  match o with
  | .json (.str s) => l.contains s
  | _ => false

/-- the check of value and unit at the end of the parser (`arr` is a list or tuple) -/
def numFinish (L : Lib) (cfg : NumCfg) (arr : Obj) : M Obj :=
  match pyLen arr with
  | .error e => .error e
  | .ok n =>
    if n == 1 then
      if cfg.requireUnit then .error .valueError
      else
        match pyIndex arr 0 with
        | .error e => .error e
        | .ok a =>
          match L.parseNumber a with
          | .ok val => numConstruct val (.json (ofOptStr cfg.inferUnit))
          | .error e => .error e
    else
      match L.parseNumStr arr with
      | .error e => .error e
      | .ok val =>
        match pyIndex val 1 with
        | .error e => if cfg.allowedUnits.isEmpty then (match pyIndex val 0 with | .error e0 => .error e0 | .ok _ => .error e) else .error e
        | .ok u =>
          if !cfg.allowedUnits.isEmpty && !(u.inStrs cfg.allowedUnits) then .error .valueError
          else
            match pyIndex val 0 with
            | .error e => .error e
            | .ok n => numConstruct n u

/-- `unit = v.unitText or v.unitCode or cls.infer_unit`, then the tuple -/
def numUnpack (cfg : NumCfg) (q : QV) : Obj :=
  let unit := if truthyJ q.unitText then q.unitText
              else if truthyJ q.unitCode then q.unitCode else ofOptStr cfg.inferUnit
  if isNull unit then .tuple [.json q.value] else .tuple [.json q.value, .json unit]

def isBaseInst (q : QV) : Bool := q.cls == .tcls || q.cls == .base

/-- `NumValue.Parser.parse(cls, tcls, v)` -/
def numParse (L : Lib) (cfg : NumCfg) (v : Obj) : M Obj :=
  match v with
  | .json (.bool _) => .error .typeError
  | .json (.int i) =>
    if cfg.requireUnit then .error .valueError else numConstruct (.json (.int i)) (.json (ofOptStr cfg.inferUnit))
  | .json (.float t) =>
    if cfg.requireUnit then .error .valueError else numConstruct (.json (.float t)) (.json (ofOptStr cfg.inferUnit))
  | .json (.str s) => numFinish L cfg (.json (.arr ((stripSplit1 s).map .str)))
  | .json (.obj kvs) =>
    match L.baseValidate (.json (.obj kvs)) with
    | .ok (.qv q) => if isBaseInst q then numFinish L cfg (numUnpack cfg q) else .error .unboundLocalError
    | .ok _ => .error .unboundLocalError
    | .error e => .error e
  | .qv q => if isBaseInst q then numFinish L cfg (numUnpack cfg q) else .error .unboundLocalError
  | _ => .error .unboundLocalError   -- `arr` was never bound (None, lists, other objects)

/-- what `.json()` writes for a parser-built value (`exclude_none`; the constants of the class
are added by pydantic and ignored again by `baseValidate`) -/
def dumpQV (q : QV) : Dict :=
  [((['v', 'a', 'l', 'u', 'e'] : Str), q.value)] ++ (if isNull q.unitText then [] else [((['u', 'n', 'i', 't', 'T', 'e', 'x', 't'] : Str), q.unitText)])
    ++ (if isNull q.unitCode then [] else [((['u', 'n', 'i', 't', 'C', 'o', 'd', 'e'] : Str), q.unitCode)])

end MetadorModel.CodecParsers
