import MetadorModel.Model.Diff
/-!
# Model of partial metadata models and their merge (property C14)

Mirrors `metador_core/schema/partial.py` (current tree, i.e. with the repairs F5/F6):

* `PartialModel._update_field` (l. 211–262) ↦ `updO` (the `None` shortcut) and `merge`
  (list → concatenate, set → union, two models whose classes are related by `issubclass`
  in either direction → recursive `merge_with`, otherwise "opaque": raise `ValueError`
  unless `allow_overwrite`, else the new value wins),
* `PartialModel.merge_with` (l. 264–288) ↦ `mergeFields` (loop over the provided fields of
  the right operand, `ret.__dict__[f] = _update_field(ret.__dict__.get(f), v_new)`) and
  `mergeWith` (cast of the right operand, copy of the left operand: the result has the
  **left** class),
* `PartialModel.merge` (l. 290–306) ↦ `mergeAll` (left fold, as used by `harvester.harvest`),
* `to_partial` / `from_partial` / `val_from_partial` (l. 129–181) ↦ `toPartial`, `fromPartial`,
* the pinned `v_new or v_old` of `_update_field` ↦ `Legacy.updO`.

Values. A provided field value is a `PVal`: an atom (int / bool / str; everything else the
harness sends is an opaque string), a list, a set of atoms, or a model instance `obj cls fields`.
`None` (absent) is `Option.none`; `_get_field_vals` never yields `None`, so field lists hold no
absent entries. `obj.__dict__` is a Python dict (unique keys, compared without order): fields
are a key-sorted association list (`AL`). A model class is its single-inheritance chain of class
names, root first (`SchemaMagic` enforces single inheritance; partial classes mirror the
inheritance of their source classes), so `issubclass c d` is "`d` is a prefix of `c`".
A set is a duplicate-free list in insertion order; `x.union(y)` keeps `x` and appends the new
elements of `y` (the driver sorts for printing).

Not modelled (stated as assumptions of the correspondence): `cast` of a parent-class value into
a child partial re-validates the value (`parse_obj(obj.dict())`); this is taken to be the
identity on field values, the `ValidationError` fall-through is left out. A list met by a
non-list, or a set met by a non-set (impossible for validated partials of mergeable field types,
`_check_type_mergeable`) is the error `shape` (Python: `TypeError`, or for `set.union` any iterable).
-/
namespace MetadorModel.Partial

inductive Atom where
  | int (i : Int)
  | bool (b : Bool)
  | str (s : String)
deriving DecidableEq, Repr, Inhabited

/-- a model class: its inheritance chain, root first -/
abbrev Cls := List String

/-- `issubclass(c, d)` -/
def sub : Cls → Cls → Bool
  | _, [] => true
  | [], _ :: _ => false
  | x :: c, y :: d => x == y && sub c d

/-- `issubclass(new, old) or issubclass(old, new)` -/
def related (c d : Cls) : Bool := sub c d || sub d c

inductive PVal where
  | atom (a : Atom)
  | list (xs : List PVal)
  | set (xs : List Atom)
  | obj (cls : Cls) (fs : List (String × PVal))
deriving Repr, Inhabited

abbrev Fields := List (String × PVal)

inductive Err where
  | conflict   -- ValueError: "Can't overwrite (allow_overwrite=False)"
  | shape      -- TypeError: list + non-list, set.union(non-iterable)
  | invalid    -- ValidationError
deriving DecidableEq, Repr

/-- `x.union(y)` on duplicate-free lists -/
def unionA (xs ys : List Atom) : List Atom :=
  xs ++ ys.filter (fun y => !xs.contains y)

/-- "treat it as an opaque value": raise unless `allow_overwrite`, else the new value. -/
def asOpaque (ow : Bool) (new : PVal) : Except Err PVal :=
  if ow then .ok new else .error .conflict

mutual
/-- `_update_field(v_old, v_new)` for two provided values (recursion on the new value). -/
def merge (ow : Bool) (old : PVal) : PVal → Except Err PVal
  | .atom b =>
    match old with
    | .list _ => .error .shape
    | .set _ => .error .shape
    | _ => asOpaque ow (.atom b)
  | .list ys =>
    match old with
    | .list xs => .ok (.list (xs ++ ys))
    | .set _ => .error .shape
    | _ => asOpaque ow (.list ys)
  | .set ys =>
    match old with
    | .list _ => .error .shape
    | .set xs => .ok (.set (unionA xs ys))
    | _ => asOpaque ow (.set ys)
  | .obj c2 f2 =>
    match old with
    | .list _ => .error .shape
    | .set _ => .error .shape
    | .atom _ => asOpaque ow (.obj c2 f2)
    | .obj c1 f1 =>
      if related c2 c1 then
        match mergeFields ow f1 f2 with
        | .ok r => .ok (.obj c1 r)
        | .error e => .error e
      else asOpaque ow (.obj c2 f2)
/-- the loop of `merge_with`: `for f, v_new in fields(obj): ret[f] = _update_field(ret.get(f), v_new)` -/
def mergeFields (ow : Bool) (acc : Fields) : Fields → Except Err Fields
  | [] => .ok acc
  | (k, v) :: r =>
    match AL.get acc k with
    | none => mergeFields ow (AL.ins k v acc) r
    | some o =>
      match merge ow o v with
      | .ok m => mergeFields ow (AL.ins k m acc) r
      | .error e => .error e
end

/-- `_update_field` including the `None` shortcut. -/
def updO (ow : Bool) : Option PVal → Option PVal → Except Err (Option PVal)
  | none, n => .ok n
  | some o, none => .ok (some o)
  | some o, some n =>
    match merge ow o n with
    | .ok m => .ok (some m)
    | .error e => .error e

/-- `x.merge_with(y, allow_overwrite=ow)`: `y` is cast to the class of `x` (no class test
here), the result is a copy of `x` with the merged fields. -/
def mergeWith (ow : Bool) : PVal → PVal → Except Err PVal
  | .obj c1 f1, .obj _ f2 =>
    match mergeFields ow f1 f2 with
    | .ok r => .ok (.obj c1 r)
    | .error e => .error e
  | _, _ => .error .shape

/-- the empty partial of a class: `cls()` -/
def empty (c : Cls) : PVal := .obj c []

/-- `cls.merge(*objs)` / the fold of `harvester.harvest`: `reduce(merge_two, objs)` -/
def mergeAll (ow : Bool) (c : Cls) : List PVal → Except Err PVal
  | [] => .ok (empty c)
  | x :: rest => rest.foldlM (mergeWith ow) x

mutual
/-- key-sorted fields at every level -/
def PVal.wf : PVal → Bool
  | .atom _ => true
  | .list xs => wfL xs
  | .set _ => true
  | .obj _ fs => AL.sorted fs && wfF fs
def wfL : List PVal → Bool
  | [] => true
  | x :: r => x.wf && wfL r
def wfF : Fields → Bool
  | [] => true
  | (_, v) :: r => v.wf && wfF r
end

/-! ## complete objects ↔ partials -/

/-- `Partial.to_partial(obj)` for a complete object: `cls.construct(**obj.__dict__)` — the same
field values (nested values stay what they are). -/
def toPartial (o : PVal) : PVal := o

def hasAll (fs : Fields) : List String → Bool
  | [] => true
  | k :: r => (AL.get fs k).isSome && hasAll fs r

mutual
/-- `from_partial`: `val_from_partial` on every field value (recursively), then validation by the
source model: every required field (`req cls`) must be provided. -/
def fromPartial (req : Cls → List String) : PVal → Except Err PVal
  | .atom a => .ok (.atom a)
  | .set xs => .ok (.set xs)
  | .list xs =>
    match fromL req xs with
    | .ok r => .ok (.list r)
    | .error e => .error e
  | .obj c fs =>
    match fromF req fs with
    | .ok r => if hasAll r (req c) then .ok (.obj c r) else .error .invalid
    | .error e => .error e
def fromL (req : Cls → List String) : List PVal → Except Err (List PVal)
  | [] => .ok []
  | x :: r =>
    match fromPartial req x, fromL req r with
    | .ok x', .ok r' => .ok (x' :: r')
    | .error e, _ => .error e
    | _, .error e => .error e
def fromF (req : Cls → List String) : Fields → Except Err Fields
  | [] => .ok []
  | (k, v) :: r =>
    match fromPartial req v, fromF req r with
    | .ok v', .ok r' => .ok ((k, v') :: r')
    | .error e, _ => .error e
    | _, .error e => .error e
end

mutual
/-- a complete (validated) object: all required fields are there, at every level -/
def complete (req : Cls → List String) : PVal → Bool
  | .atom _ => true
  | .set _ => true
  | .list xs => completeL req xs
  | .obj c fs => hasAll fs (req c) && completeF req fs
def completeL (req : Cls → List String) : List PVal → Bool
  | [] => true
  | x :: r => complete req x && completeL req r
def completeF (req : Cls → List String) : Fields → Bool
  | [] => true
  | (_, v) :: r => complete req v && completeF req r
end

/-! ## provided leaves -/

/-- the value at a path of field names (`[]` = the value itself) -/
def valAt : PVal → List String → Option PVal
  | v, [] => some v
  | .obj _ fs, k :: p =>
    match AL.get fs k with
    | none => none
    | some v => valAt v p
  | _, _ :: _ => none

def PVal.isObj : PVal → Bool
  | .obj _ _ => true
  | _ => false

/-! ## the pinned algorithm (before `fix: partial merge keeps falsy values`) -/
namespace Legacy

/-- Python truthiness (`bool(v)`); pydantic models are always truthy -/
def truthy : PVal → Bool
  | .atom (.int i) => i != 0
  | .atom (.bool b) => b
  | .atom (.str s) => s != ""
  | .list xs => !xs.isEmpty
  | .set xs => !xs.isEmpty
  | .obj _ _ => true

/-- `if v_old is None or v_new is None: return v_new or v_old` -/
def updO (ow : Bool) : Option PVal → Option PVal → Except Err (Option PVal)
  | none, none => .ok none
  | none, some n => .ok (if truthy n then some n else none)
  | some o, none => .ok (some o)
  | some o, some n =>
    match merge ow o n with
    | .ok m => .ok (some m)
    | .error e => .error e

/-- `merge_with` of the pinned tree (top-level field loop with the pinned shortcut) -/
def mergeFields (ow : Bool) (acc : Fields) : Fields → Except Err Fields
  | [] => .ok acc
  | (k, v) :: r =>
    match updO ow (AL.get acc k) (some v) with
    | .ok (some m) => mergeFields ow (AL.ins k m acc) r
    | .ok none => mergeFields ow (AL.erase k acc) r
    | .error e => .error e

def mergeWith (ow : Bool) : PVal → PVal → Except Err PVal
  | .obj c1 f1, .obj _ f2 =>
    match mergeFields ow f1 f2 with
    | .ok r => .ok (.obj c1 r)
    | .error e => .error e
  | _, _ => .error .shape

end Legacy

/-! ## the partial factory (`PartialFactory.get_partial`, l. 460–500)

Which partial class belongs to a model class. A model class *object* is identified by `uid`
(Python object identity — what a dict keyed by the class hashes on); `name` is its `__module__`
plus `__qualname__`. Two distinct class objects may carry one name: a definition executed twice
(notebook cell, schema factory function), `create_model` called twice, `class X(X)`.
`_partials[cls]` is keyed by the class **object**, `_forwardrefs[cls]` by the **name**
(`_partial_forwardref_name`). The recursive `get_partial` calls for nested model classes are
further entries of the call history (`run`). -/
namespace Factory

structure ClsObj where
  uid : Nat
  name : String
deriving DecidableEq, Repr

/-- a partial class, reduced to its `__partial_src__` (`from_partial` returns
`self.__partial_src__.parse_obj(…)`, `to_partial` accepts instances of it) -/
structure PCls where
  src : ClsObj
deriving DecidableEq, Repr

structure Tab where
  /-- `_partials[cls]`: class object ↦ partial class -/
  partials : List (Nat × PCls) := []
  /-- `_forwardrefs[cls]`: forward-reference name ↦ partial class -/
  frefs : List (String × PCls) := []
deriving Repr

def lookup : List (Nat × PCls) → Nat → Option PCls
  | [], _ => none
  | (k, v) :: r, n => if k = n then some v else lookup r n

/-- `_forwardrefs[cls][partial_ref] = partial` -/
def setRef (n : String) (p : PCls) : List (String × PCls) → List (String × PCls)
  | [] => [(n, p)]
  | (k, v) :: r => if k = n then (k, p) :: r else (k, v) :: setRef n p r

/-- `get_partial(mcls)`: the partial stored for this class *object*, otherwise a new partial class
with `__partial_src__ = mcls`, stored under the object and (for nested references) under the name. -/
def getPartial (t : Tab) (c : ClsObj) : Tab × PCls :=
  match lookup t.partials c.uid with
  | some p => (t, p)
  | none => ({ partials := (c.uid, ⟨c⟩) :: t.partials, frefs := setRef c.name ⟨c⟩ t.frefs }, ⟨c⟩)

/-- the `get_partial` calls of a program, in order -/
def run (t : Tab) : List ClsObj → Tab
  | [] => t
  | c :: r => run (getPartial t c).1 r

/-- what a nested reference to a model class *named* `n` resolves to when a partial class is
created (`partial.update_forward_refs(**_forwardrefs[cls])`) -/
def resolve (t : Tab) (n : String) : Option PCls := AL.get t.frefs n

end Factory

end MetadorModel.Partial
