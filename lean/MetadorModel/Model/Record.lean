import MetadorModel.Model.FindFiles
/-!
# File-level model of IH5 records (properties C02, C03)

Mirrors `metador_core/ih5/record.py` — `IH5Record.__init__` (:451-504, mode dispatch),
`_create` (:306), `_open` + `_check_ublock` (:248-387), `_new_container` (:238, mode `x`),
`_next_patch_filepath` (:220), `create_patch` (:532), `discard_patch` (:552),
`commit_patch` (:565), `close` (:510), `merge_files` (:605), `delete_files` (:636),
`_has_writable` (:199) — and `metador_core/ih5/manifest.py` — `IH5MFRecord._open` (:146),
`commit_patch` (:218), `_fixes_after_merge` (:193), `merge_files` (:205), sidecar naming (:140).

What is modelled: which files exist in the directory, the user-block fields of each
container, which containers are committed, what every API call creates / removes /
(possibly) rewrites, which handle state results, and which exception class is raised.

What is abstract: the *content* of a container is the list of ids of the write operations
that landed in it (`payload`); the view of a record is the concatenation of the payloads of
its containers in patch order (the tree-level overlay semantics is property C01). SHA-256 of
a payload is the payload itself (a collision-free digest), uuids and manifest bodies are
fresh numbers from a counter (`uuid1()`).

Single-handle discipline: the state holds one record handle; `open` on a handle that has
not been closed answers `busy` and changes nothing (the harness never does that).

Import-free apart from `Model/FindFiles`.
-/
namespace MetadorModel.Record
open MetadorModel.FindFiles

/-- `IH5UserBlock` -/
structure UB where
  rid  : Nat                 -- record_uuid
  idx  : Nat                 -- patch_index
  pid  : Nat                 -- patch_uuid
  prev : Option Nat          -- prev_patch
  hash : Option (List Nat)   -- hdf5_hashsum (digest of the payload after the user block)
  ext  : Option (Nat × Nat)  -- ub_exts["ih5mf_v01"]: (manifest_uuid, manifest_hashsum)
deriving DecidableEq, Repr, Inhabited

/-- a directory entry: an IH5 container (user block + HDF5 payload) or a manifest sidecar -/
inductive File where
  | cont (ub : UB) (payload : List Nat)
  | mf (uuid : Nat) (body : Nat)
deriving DecidableEq, Repr, Inhabited

abbrev Disk := List (Name × File)

def getF : Disk → Name → Option File
  | [], _ => none
  | (k, v) :: r, f => if k = f then some v else getF r f

/-- overwrite in place, or append a new entry -/
def setF : Disk → Name → File → Disk
  | [], f, v => [(f, v)]
  | (k, w) :: r, f, v => if k = f then (k, v) :: r else (k, w) :: setF r f v

def eraseF : Disk → Name → Disk
  | [], _ => []
  | (k, w) :: r, f => if k = f then eraseF r f else (k, w) :: eraseF r f

def eraseAll : Disk → List Name → Disk
  | d, [] => d
  | d, f :: r => eraseAll (eraseF d f) r

def names (d : Disk) : List Name := d.map Prod.fst

def payloadOf (d : Disk) (f : Name) : Option (List Nat) :=
  match getF d f with
  | some (.cont _ p) => some p
  | _ => none

def ubOf (d : Disk) (f : Name) : Option UB :=
  match getF d f with
  | some (.cont ub _) => some ub
  | _ => none

/-- replace the payload of a container (no-op on anything else) -/
def setPayload (d : Disk) (f : Name) (p : List Nat) : Disk :=
  match getF d f with
  | some (.cont ub _) => setF d f (.cont ub p)
  | _ => d

/-- a container whose user block carries a checksum -/
def isCommitted (d : Disk) (f : Name) : Bool :=
  match getF d f with
  | some (.cont ub _) => ub.hash.isSome
  | _ => false

/-- exception classes (and the modelling convention `busy`) -/
inductive Out where
  | ok | valueError | fileNotFound | fileExists | osError | keyError | indexError
  | assertionError | unboundLocal | busy
deriving DecidableEq, Repr, Inhabited

/-- `OpenMode` -/
inductive Mode where
  | r | rp | a | w | wm | x
deriving DecidableEq, Repr, Inhabited

/-- first constructor argument: a record path (name inside the directory) or a file list -/
inductive Target where
  | name (n : Name)
  | list (fs : List Name)
deriving DecidableEq, Repr

/-- the record object -/
structure Handle where
  files    : List (Name × UB) := []   -- `__files__` in patch order with the in-memory `_ublocks`
  lastRW   : Bool := false            -- h5py mode of the last file is "r+"
  allow    : Bool := true             -- `_allow_patching`
  closed   : Bool := true             -- `_closed`
  mfcls    : Bool := false            -- instance of `IH5MFRecord`
  manifest : Option (Nat × Nat) := none  -- `_manifest` (uuid, body)
deriving DecidableEq, Repr, Inhabited

structure State where
  disk : Disk := []
  h    : Handle := {}
  next : Nat := 0     -- source of fresh uuids / manifest bodies
deriving DecidableEq, Repr, Inhabited

/-- result of one API call: new state, outcome, and the files it created / removed /
(possibly) rewrote in place -/
structure Res where
  st      : State
  out     : Out
  created : List Name := []
  removed : List Name := []
  written : List Name := []
deriving DecidableEq, Repr, Inhabited

/-- every file name the call touched -/
def Res.W (r : Res) : List Name := r.created ++ r.removed ++ r.written

def fail (s : State) (e : Out) : Res := { st := s, out := e }

/-- `_has_writable` -/
def hasWritable (h : Handle) : Bool := !h.files.isEmpty && h.lastRW

def fileNames (h : Handle) : List Name := h.files.map Prod.fst

def lastFile : List (Name × UB) → Option (Name × UB)
  | [] => none
  | [x] => some x
  | _ :: y :: r => lastFile (y :: r)

def dropLastF : List (Name × UB) → List (Name × UB)
  | [] => []
  | [_] => []
  | x :: y :: r => x :: dropLastF (y :: r)

def setLastUB : List (Name × UB) → UB → List (Name × UB)
  | [], _ => []
  | [(f, _)], u => [(f, u)]
  | x :: y :: r, u => x :: setLastUB (y :: r) u

/-- the user-visible content: payloads of the handle's files in patch order -/
def viewFiles (d : Disk) : List (Name × UB) → List Nat
  | [] => []
  | (f, _) :: r => (payloadOf d f).getD [] ++ viewFiles d r

def view (s : State) : List Nat := viewFiles s.disk s.h.files

/-! ## `_open` -/

/-- `{path: IH5UserBlock.load(path) for path in paths}` — missing file: `FileNotFoundError`;
a file that does not start with the magic line: `ValueError`. -/
def loadAll (d : Disk) : List Name → Except Out (List (Name × UB))
  | [] => .ok []
  | f :: r =>
    match getF d f with
    | none => .error .fileNotFound
    | some (.mf _ _) => .error .valueError
    | some (.cont ub _) =>
      match loadAll d r with
      | .error e => .error e
      | .ok l => .ok ((f, ub) :: l)

/-- stable insertion (Python's `list.sort(key=patch_index)` is stable) -/
def insertByIdx (x : Name × UB) : List (Name × UB) → List (Name × UB)
  | [] => [x]
  | y :: r => if x.2.idx ≤ y.2.idx then x :: y :: r else y :: insertByIdx x r

def sortByIdx : List (Name × UB) → List (Name × UB)
  | [] => []
  | x :: r => insertByIdx x (sortByIdx r)

/-- `_check_ublock` (all failures are `ValueError`) -/
def checkUB (d : Disk) (rid : Nat) (f : Name) (ub : UB) (prev : Option UB) (checkHash : Bool) : Bool :=
  (ub.rid == rid) &&
  !(checkHash && ub.hash.isNone) &&
  (match ub.hash with
   | none => true
   | some hsh => payloadOf d f == some hsh) &&
  (match prev with
   | none => true
   | some p => decide (p.idx < ub.idx) && (ub.prev == some p.pid))

/-- the loop over the patches: all but the last need a checksum -/
def checkChain (d : Disk) (rid : Nat) : UB → List (Name × UB) → Bool
  | _, [] => true
  | p, (f, ub) :: r =>
    match r with
    | [] => checkUB d rid f ub (some p) false
    | _ :: _ => checkUB d rid f ub (some p) true && checkChain d rid ub r

def distinctPids : List (Name × UB) → Bool
  | [] => true
  | (_, u) :: r => !(r.any (fun y => y.2.pid == u.pid)) && distinctPids r

/-- `IH5Record._open(paths, reopen_incomplete_patch=rw)`: sorted files with user blocks and
whether the last one was reopened `r+`. -/
def openFiles (d : Disk) (paths : List Name) (rw : Bool) : Except Out (List (Name × UB) × Bool) :=
  if paths.isEmpty then .error .valueError else
  match loadAll d paths with
  | .error e => .error e
  | .ok ubs =>
    match sortByIdx ubs with
    | [] => .error .valueError
    | (f0, u0) :: rest =>
      if u0.prev.isSome then .error .valueError
      else if !checkUB d u0.rid f0 u0 none (!rest.isEmpty) then .error .valueError
      else if !checkChain d u0.rid u0 rest then .error .valueError
      else if !distinctPids ((f0, u0) :: rest) then .error .valueError
      else
        match lastFile ((f0, u0) :: rest) with
        | none => .error .valueError
        | some (_, ul) => .ok ((f0, u0) :: rest, rw && ul.hash.isNone)

/-- second-to-last element -/
def prevFile : List (Name × UB) → Option (Name × UB)
  | [] => none
  | [_] => none
  | [x, _] => some x
  | _ :: y :: z :: r => prevFile (y :: z :: r)

/-- `IH5MFRecord._open`, the part after `super()._open`: check the sidecar named after the
newest container against the manifest extension of its user block; when the newest
container is an uncommitted patch, the manifest linked by its predecessor is loaded if it is
there and matches (silently nothing otherwise). -/
def loadManifest (d : Disk) (files : List (Name × UB)) : Except Out (Option (Nat × Nat)) :=
  match lastFile files with
  | none => .ok none
  | some (f, ub) =>
    match ub.ext with
    | some (_, hsh) =>
      match getF d (manifestFile f) with
      | some (.mf u b) => if b = hsh then .ok (some (u, b)) else .error .valueError
      | _ => .error .valueError
    | none =>
      if ub.hash.isNone then
        match prevFile files with
        | some (g, ubp) =>
          match ubp.ext, getF d (manifestFile g) with
          | some (_, hsh), some (.mf u b) => if b = hsh then .ok (some (u, b)) else .ok none
          | _, _ => .ok none
        | none => .ok none
      else .ok none

/-! ## creation -/

/-- `_new_container`: `h5py.File(path, "x")` — refuses a file this process holds open
(`OSError`) and any existing file (`FileExistsError`). -/
def newContainer (d : Disk) (openNames : List Name) (path : Name) (ub : UB) : Except Out Disk :=
  if openNames.contains path then .error .osError
  else if (getF d path).isSome then .error .fileExists
  else .ok (setF d path (.cont ub []))

/-- `delete_files`: unlink everything `find_files` returns -/
def deleteFiles (s : State) (n : Name) : Res :=
  match findFiles (names s.disk) n with
  | none => fail s .valueError
  | some fs => { st := { s with disk := eraseAll s.disk fs }, out := .ok, removed := fs }

/-- `IH5UserBlock.create(prev=None)` -/
def newBaseUB (k : Nat) : UB :=
  { rid := k + 1, idx := 0, pid := k, prev := none, hash := none, ext := none }

/-- `IH5UserBlock.create(prev=ul)` -/
def newPatchUB (ul : UB) (k : Nat) : UB :=
  { rid := ul.rid, idx := ul.idx + 1, pid := k, prev := some ul.pid, hash := none, ext := none }

/-- what `_create(.., truncate)` unlinks first: everything `find_files` returns, if the base
container file exists -/
def goneFiles (d : Disk) (n : Name) (truncate : Bool) : List Name :=
  if truncate && (getF d (baseFile n)).isSome then (names d).filter (belongs n) else []

/-- `_create(record, truncate)` followed by `self.__dict__.update(ret.__dict__)`.
`openNames`: files held open by the calling handle (non-empty only inside `merge_files`). -/
def createRec (s : State) (mfcls : Bool) (n : Name) (truncate : Bool) (openNames : List Name) : Res :=
  if !isValidName n then fail s .valueError else
  let path := baseFile n
  let gone : List Name := goneFiles s.disk n truncate
  let d1 := eraseAll s.disk gone
  let ub : UB := newBaseUB s.next
  match newContainer d1 openNames path ub with
  | .error e => { st := { s with disk := d1 }, out := e, removed := gone }
  | .ok d2 =>
    { st := { disk := d2, next := s.next + 2,
              h := { files := [(path, ub)], lastRW := true, allow := true, closed := false,
                     mfcls := mfcls, manifest := none } },
      out := .ok, created := [path], removed := gone }

/-! ## patch life cycle -/

/-- `create_patch` -/
def createPatch (s : State) : Res :=
  let h := s.h
  if h.closed then fail s .valueError
  else if !h.allow then fail s .valueError
  else if hasWritable h then fail s .valueError
  else
    match h.files, lastFile h.files with
    | (f0, _) :: _, some (_, ul) =>
      let path := patchFile (inferName f0) (ul.idx + 1)
      let ub : UB := newPatchUB ul s.next
      match newContainer s.disk (fileNames h) path ub with
      | .error e => fail { s with next := s.next + 1 } e
      | .ok d =>
        { st := { disk := d, next := s.next + 1,
                  h := { h with files := h.files ++ [(path, ub)], lastRW := true } },
          out := .ok, created := [path] }
    | _, _ => fail s .indexError

/-- `IH5Record.commit_patch` (the plain class); `ubMem` is the in-memory user block of the
newest container that gets the checksum and is saved. -/
def commitPlain (s : State) : Res :=
  let h := s.h
  if h.closed then fail s .valueError
  else if !h.allow then fail s .valueError
  else if !hasWritable h then fail s .valueError
  else
    match lastFile h.files with
    | none => fail s .valueError
    | some (f, ub) =>
      match payloadOf s.disk f with
      | none => fail s .fileNotFound
      | some p =>
        let ub' := { ub with hash := some p }
        { st := { s with disk := setF s.disk f (.cont ub' p),
                         h := { h with files := setLastUB h.files ub', lastRW := false } },
          out := .ok, written := [f] }

/-- the state in which `IH5MFRecord.commit_patch` calls the base-class commit: two uuids
drawn, the newest in-memory user block replaced by the copy carrying the extension -/
def mfPrep (s : State) (ubT : UB) : State :=
  { s with next := s.next + 2, h := { s.h with files := setLastUB s.h.files ubT } }

/-- `IH5MFRecord.commit_patch`: a fresh manifest (new uuid, new body) is prepared, the
extension is put into a *copy* of the newest in-memory user block, the base-class commit
runs; on `ValueError` the old block is restored (nothing but the uuid counter changed),
otherwise the sidecar is (over)written and becomes the handle's manifest. -/
def commitMF (s : State) : Res :=
  let h := s.h
  match lastFile h.files with
  | none => fail s .indexError
  | some (f, ub) =>
    let mfid : Nat × Nat := (s.next, s.next + 1)
    let r := commitPlain (mfPrep s { ub with ext := some mfid })
    match r.out with
    | .ok =>
      let side := manifestFile f
      let existed := (getF r.st.disk side).isSome
      { st := { r.st with disk := setF r.st.disk side (.mf mfid.1 mfid.2),
                          h := { r.st.h with manifest := some mfid } },
        out := .ok,
        created := if existed then [] else [side],
        written := r.written ++ (if existed then [side] else []) }
    | e => fail { s with next := s.next + 2 } e

def commitPatch (s : State) : Res :=
  if s.h.mfcls then commitMF s else commitPlain s

/-- `discard_patch` -/
def discardPatch (s : State) : Res :=
  let h := s.h
  if h.closed then fail s .valueError
  else if !h.allow then fail s .valueError
  else if !hasWritable h then fail s .valueError
  else if h.files.length == 1 then fail s .valueError
  else
    match lastFile h.files with
    | none => fail s .valueError
    | some (f, _) =>
      { st := { s with disk := eraseF s.disk f,
                       h := { h with files := dropLastF h.files, lastRW := false } },
        out := .ok, removed := [f] }

/-- any mutating tree operation of the overlay (`__setitem__`, `create_group`, `attrs[..] = ..`,
`del`): `_guard_open` (`KeyError`), `_guard_read_only` (`ValueError`), then
`self._files[-1]` is changed. `k` identifies the write. -/
def write (s : State) (k : Nat) : Res :=
  let h := s.h
  if h.closed || h.files.isEmpty then fail s .keyError
  else if !hasWritable h then fail s .valueError
  else
    match lastFile h.files with
    | none => fail s .keyError
    | some (f, _) =>
      match getF s.disk f with
      | some (.cont ub p) =>
        { st := { s with disk := setF s.disk f (.cont ub (p ++ [k])) }, out := .ok, written := [f] }
      | _ => { st := s, out := .ok }

/-- any reading operation -/
def read (s : State) : Res :=
  if s.h.closed || s.h.files.isEmpty then fail s .keyError else { st := s, out := .ok }

/-- `close(commit)` -/
def close (s : State) (commit : Bool) : Res :=
  let h := s.h
  if h.closed then { st := s, out := .ok }
  else if hasWritable h && commit then
    let r := commitPatch s
    match r.out with
    | .ok => { r with st := { r.st with h := { r.st.h with files := [], lastRW := false, closed := true } } }
    | _ => r
  else
    { st := { s with h := { h with files := [], lastRW := false, closed := true } }, out := .ok,
      written := if hasWritable h then (match lastFile h.files with | some (f, _) => [f] | none => []) else [] }

/-! ## `__init__` -/

/-- the branch `mode == "a" or mode[0] == "r"` with a non-empty list of paths -/
def openExisting (s : State) (mfcls : Bool) (paths : List Name) (m : Mode) : Res :=
  let wantRW := m != .r
  match openFiles s.disk paths wantRW with
  | .error e => fail s e
  | .ok (files, lastRW) =>
    match (if mfcls then loadManifest s.disk files else .ok none) with
    | .error e => fail s e
    | .ok man =>
      let h : Handle := { files := files, lastRW := lastRW, allow := wantRW, closed := false,
                          mfcls := mfcls, manifest := man }
      let touched : List Name :=
        if lastRW then (match lastFile files with | some (f, _) => [f] | none => []) else []
      if wantRW && !hasWritable h then
        let r := createPatch { s with h := h }
        match r.out with
        | .ok => r
        | e => fail { s with next := r.st.next } e
      else { st := { s with h := h }, out := .ok, written := touched }

/-- `IH5Record(record, mode)` / `IH5MFRecord(record, mode)` -/
def openRec (s : State) (mfcls : Bool) (t : Target) (m : Mode) : Res :=
  if !s.h.closed then fail s .busy else
  match t with
  | .list fs =>
    if m == .w || m == .wm || m == .x then fail s .valueError
    else if fs.isEmpty then fail s .unboundLocal
    else openExisting s mfcls fs m
  | .name n =>
    match m with
    | .w => createRec s mfcls n true []
    | .wm => createRec s mfcls n false []
    | .x => createRec s mfcls n false []
    | _ =>
      match findFiles (names s.disk) n with
      | none => fail s .valueError
      | some [] => if m == .a then createRec s mfcls n false [] else fail s .fileNotFound
      | some (f :: fs) => openExisting s mfcls (f :: fs) m

/-! ## merge -/

/-- `merge_files(target)` (both classes). The target record is created with mode `x` by the
same class, filled with the current view, closed (= committed by its own class), then its
user block is overwritten with the newest user block of the source (in-memory copy) whose
`prev_patch` is that of the oldest one. `IH5MFRecord._fixes_after_merge` replaces the fresh
sidecar by the manifest the source handle has loaded — if it has one and the merged user
block carries the manifest extension. -/
def mergeFiles (s : State) (target : Name) : Res :=
  let h := s.h
  if h.closed then fail s .valueError
  else if hasWritable h then fail s .valueError
  else
    match h.files, lastFile h.files with
    | (_, u0) :: _, some (_, ul) =>
      let content := viewFiles s.disk h.files
      let r1 := createRec { s with h := {} } h.mfcls target false (fileNames h)
      match r1.out with
      | .ok =>
        let path := baseFile target
        let s2 : State := { r1.st with disk := setPayload r1.st.disk path content }
        let r3 := close s2 true
        let ub : UB := { ul with prev := u0.prev, hash := some content }
        let back (d : Disk) (o : Out) (wr : List Name) : Res :=
          { st := { disk := d, h := h, next := r3.st.next }, out := o,
            created := path :: r3.created, written := wr }
        if h.mfcls then
          match h.manifest, ub.ext with
          | some (mu, mb), some (eu, _) =>
            if eu == mu then
              back (setF (setF r3.st.disk (manifestFile path) (.mf mu mb)) path (.cont ub content))
                .ok (r3.written ++ [manifestFile path])
            else back r3.st.disk .assertionError r3.written
          | _, _ => back (setF r3.st.disk path (.cont ub content)) .ok r3.written
        else back (setF r3.st.disk path (.cont ub content)) .ok r3.written
      | e => fail s e
    | _, _ => fail s .valueError

/-! ## histories -/

inductive Op where
  | openRec (mfcls : Bool) (t : Target) (m : Mode)
  | write (k : Nat)
  | read
  | createPatch
  | commitPatch
  | discardPatch
  | close (commit : Bool)
  | merge (target : Name)
  | deleteFiles (n : Name)
deriving DecidableEq, Repr

def step (s : State) : Op → Res
  | .openRec c t m => openRec s c t m
  | .write k => write s k
  | .read => read s
  | .createPatch => createPatch s
  | .commitPatch => commitPatch s
  | .discardPatch => discardPatch s
  | .close c => close s c
  | .merge t => mergeFiles s t
  | .deleteFiles n => deleteFiles s n

def run (s : State) : List Op → State
  | [] => s
  | o :: r => run (step s o).st r

/-- the operations C02 quantifies over: everything except the explicitly destructive ones -/
def Op.safe : Op → Bool
  | .openRec _ _ .w => false
  | .deleteFiles _ => false
  | _ => true

end MetadorModel.Record
