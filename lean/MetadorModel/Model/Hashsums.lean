import MetadorModel.Model.Bytes
/-!
# Model of `dir_hashsums` (property C19)

Mirrors `metador_core/util/hashsums.py` of the current tree (with fix F10, commit 2d13558):

* `file_hashsum` / `qualified_hashsum` / `hashsum` (→ `Model/Bytes.lean`);
* `rel_symlink` (lines 58–69): `(dir.parent / os.readlink(dir)).resolve()` is the operating
  system's answer and is *data* of a symlink entry (`Node.sym resolved _`, the resolved absolute
  path as list of segments); `relative_to(base.resolve())` is the modelled prefix test
  `relativeTo`, `None` when it raises;
* `dir_hashsums` (lines 72–117): the loop body is `step`, executed for the entries that
  `dir.rglob("*")` yields, *in whatever order it yields them* (`build` folds over an arbitrary
  list). Mirrored in order: `is_file()` (follows symlinks) and `is_symlink()` are evaluated,
  `fname`/`relpath.parent` for both kinds, `is_sym` is tested **before** `is_file`
  (`Legacy.step` has the pinned order), everything else is treated as a directory;
  `str(relpath).split("/")` with the `"."` skip; `if seg not in curr: curr[seg] = dict()`;
  `curr[fname] = val`.
* Python traps kept: `"x" in curr` / `curr[seg] = …` on a `str` value (reached when an entry
  lies below a name that holds a file/symlink value) ends in `TypeError`; `curr[fname] = val`
  overwrites whatever was there; a directory entry below a `str` value with no further segment
  passes silently.

A `dict` is modelled as finite map in canonical form (association list kept sorted by key,
Python `str` order): `dir_hashsums` uses only `in`, `[]`, `[]=` and its consumers compare the
result with `==`, none of which observes insertion order.

`rglob("*")` (Python ≥ 3.11) does not descend into symlinked directories, yields every entry
below `dir` once and never `dir` itself; that is the well-formedness `FsTree.WF` assumed by
the theorems (and checked on every generated tree by the harness).

Import-free apart from `Model/Bytes.lean`.
-/
namespace MetadorModel.Hashsums
open MetadorModel.Bytes

abbrev Name := Str
abbrev Path := List Name

/-! ## Python `str` helpers -/

/-- `a < b` on Python strings (lexicographic by code point) -/
def strLt : Str → Str → Bool
  | [], [] => false
  | [], _ :: _ => true
  | _ :: _, [] => false
  | a :: as, b :: bs => if a < b then true else if a = b then strLt as bs else false

/-- `"/".join(segs)` -/
def joinSlash : Path → Str
  | [] => []
  | [s] => s
  | s :: r => s ++ '/' :: joinSlash r

/-- `str(PurePosixPath(*segs))` for a relative path: `"."` when empty -/
def pathStr (p : Path) : Str := if p.isEmpty then ['.'] else joinSlash p

/-- `s.split("/")` -/
def splitSlash : Str → List Str
  | [] => [[]]
  | c :: r =>
    if c = '/' then [] :: splitSlash r
    else match splitSlash r with
      | [] => [[c]]
      | h :: t => (c :: h) :: t

/-- `relpath.name` (`""` for the empty path) -/
def pathName (p : Path) : Name := p.getLast?.getD []

/-- `relpath.parent` -/
def pathParent (p : Path) : Path := p.dropLast

/-- `p.relative_to(base)`: `none` when `base` is not a prefix of `p` (`ValueError`) -/
def relativeTo (p base : Path) : Option Path :=
  if base.isPrefixOf p then some (p.drop base.length) else none

/-! ## The directory on disk -/

/-- what one `rglob` entry is on disk -/
inductive Node where
  /-- regular file with its bytes -/
  | file (content : Bytes)
  /-- symbolic link: `resolved` = `(link.parent / readlink(link)).resolve()` as absolute segment
  list (inside or outside of the base directory, existing or dangling, chains followed);
  `tgt = some bytes` iff following the link ends at a regular file (`is_file()` is true) —
  `none` for links to directories and dangling links, which the code does not distinguish -/
  | sym (resolved : Path) (tgt : Option Bytes)
  /-- anything else; the code takes it for a directory -/
  | dir
deriving DecidableEq, Repr

/-- `path.is_symlink()` -/
def Node.isSymlink : Node → Bool
  | .sym _ _ => true
  | _ => false

/-- `path.is_file()` — follows symlinks -/
def Node.isFile : Node → Bool
  | .file _ => true
  | .sym _ (some _) => true
  | _ => false

/-- the bytes `open(path, "rb")` reads (follows symlinks) -/
def Node.readBytes : Node → Bytes
  | .file c => c
  | .sym _ (some c) => c
  | _ => []

structure Entry where
  /-- `path.relative_to(dir)` as segment list -/
  path : Path
  node : Node
deriving DecidableEq, Repr

/-- a directory: its resolved absolute path and the entries below it (`rglob("*")`, in some
order) -/
structure FsTree where
  base : Path
  entries : List Entry
deriving DecidableEq, Repr

/-! ## The nested result dict -/

inductive HT where
  | leaf (s : Str)
  | node (d : List (Name × HT))

/-- `d.get(k)` -/
def dget (k : Name) : List (Name × HT) → Option HT
  | [] => none
  | (k', v) :: r => if k = k' then some v else dget k r

/-- `d[k] = v` on the canonical (sorted) representation -/
def dset (k : Name) (v : HT) : List (Name × HT) → List (Name × HT)
  | [] => [(k, v)]
  | (k', v') :: r =>
    if strLt k k' then (k, v) :: (k', v') :: r
    else if k = k' then (k, v) :: r
    else (k', v') :: dset k v r

/-- the tail of the loop body: walk/create the nested dicts for `segs`, then store the leaf
```
curr = ret
for seg in segs:                 # "." already skipped
    if seg not in curr: curr[seg] = dict()
    curr = curr[seg]
if is_file or is_sym: curr[fname] = val
```
-/
def put : HT → List Name → Option (Name × Str) → Except Err HT
  | t, [], none => .ok t
  | .leaf _, [], some _ => .error .typeError        -- `curr[fname] = val` with `curr : str`
  | .node d, [], some (k, v) => .ok (.node (dset k (.leaf v) d))
  | .leaf _, _ :: _, _ => .error .typeError         -- `seg not in curr` is a substring test on a
                                                    -- `str`; `curr[seg] = {}` or `curr[seg]` raise
  | .node d, s :: rest, lf =>
    match put ((dget s d).getD (.node [])) rest lf with
    | .error e => .error e
    | .ok c => .ok (.node (dset s c d))

def symlinkPrefix : Str := ['s', 'y', 'm', 'l', 'i', 'n', 'k', ':']

structure Cfg (σ : Type) where
  hl : HashLib σ
  alg : Str
  base : Path

/-- `rel_symlink(dir, path)` given the resolved link -/
def relSymlink (base : Path) : Node → Option Path
  | .sym resolved _ => relativeTo resolved base
  | _ => none

/-- `val` of the loop body (current code: symlink test first) -/
def entryVal {σ : Type} (cfg : Cfg σ) (n : Node) : Except Err Str :=
  if n.isSymlink then
    match relSymlink cfg.base n with
    | none => .error .valueError          -- "Symlink inside … points to the outside!"
    | some t => .ok (symlinkPrefix ++ pathStr t)
  else if n.isFile then qualifiedHashsum cfg.hl n.readBytes cfg.alg   -- `file_hashsum`
  else .ok []

/-- the segments the dict loop walks: `str(relpath).split("/")` without `"."` -/
def dictSegs (relpath : Path) : List Name :=
  (splitSlash (pathStr relpath)).filter (· ≠ ['.'])

/-- arguments of the dict-building tail for one entry -/
def entryItem (e : Entry) (val : Str) : List Name × Option (Name × Str) :=
  if e.node.isFile || e.node.isSymlink then
    (dictSegs (pathParent e.path), some (pathName e.path, val))
  else (dictSegs e.path, none)

/-- one iteration of `for path in dir.rglob("*")` -/
def step {σ : Type} (cfg : Cfg σ) (ret : HT) (e : Entry) : Except Err HT :=
  match entryVal cfg e.node with
  | .error x => .error x
  | .ok val => put ret (entryItem e val).1 (entryItem e val).2

/-- the loop over an enumeration `order` of the entries -/
def build {σ : Type} (cfg : Cfg σ) : HT → List Entry → Except Err HT
  | t, [] => .ok t
  | t, e :: r =>
    match step cfg t e with
    | .error x => .error x
    | .ok t' => build cfg t' r

/-- `dir_hashsums(dir, alg)`; `t.entries` is the order in which `rglob` happened to yield -/
def dirHashsums {σ : Type} (hl : HashLib σ) (alg : Str) (t : FsTree) : Except Err HT :=
  build ⟨hl, alg, t.base⟩ (.node []) t.entries

/-! ## The pinned code (before fix 2d13558): `is_file` tested first -/
namespace Legacy

def entryVal {σ : Type} (cfg : Cfg σ) (n : Node) : Except Err Str :=
  if n.isFile then qualifiedHashsum cfg.hl n.readBytes cfg.alg
  else if n.isSymlink then
    match relSymlink cfg.base n with
    | none => .error .valueError
    | some t => .ok (symlinkPrefix ++ pathStr t)
  else .ok []

def step {σ : Type} (cfg : Cfg σ) (ret : HT) (e : Entry) : Except Err HT :=
  match entryVal cfg e.node with
  | .error x => .error x
  | .ok val => put ret (entryItem e val).1 (entryItem e val).2

def build {σ : Type} (cfg : Cfg σ) : HT → List Entry → Except Err HT
  | t, [] => .ok t
  | t, e :: r =>
    match step cfg t e with
    | .error x => .error x
    | .ok t' => build cfg t' r

def dirHashsums {σ : Type} (hl : HashLib σ) (alg : Str) (t : FsTree) : Except Err HT :=
  build ⟨hl, alg, t.base⟩ (.node []) t.entries

end Legacy

/-! ## Observation of a result: what is stored at a path -/

/-- value of `ret[p₁][p₂]…` -/
def HT.get : HT → Path → Option HT
  | t, [] => some t
  | .leaf _, _ :: _ => none
  | .node d, s :: r =>
    match dget s d with
    | none => none
    | some c => c.get r

inductive Obs where
  | str (s : Str)
  | dict
deriving DecidableEq, Repr

def HT.obs : HT → Obs
  | .leaf s => .str s
  | .node _ => .dict

def HT.obsAt (t : HT) (p : Path) : Option Obs := (t.get p).map HT.obs

end MetadorModel.Hashsums
