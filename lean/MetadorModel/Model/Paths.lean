/-!
# Model of the reserved-namespace machinery of the container wrappers (property C08)

Mirrors

* `metador_core/container/utils.py`: `is_internal_path` (l. 37–43), `is_meta_base_path`
  (l. 49–51), `to_meta_base_path` (l. 54–63), `to_data_node_path` (l. 66–77) and the
  constants `METADOR_PREF`, `METADOR_META_PREF`;
* `metador_core/container/wrappers.py`: `MetadorNode._guard_path` (l. 171–177), the guard
  sequencing of `_wrap_method` (l. 297–314) and of the hand-written methods (`__contains__`,
  `__delitem__`, `move`, `copy`), and the filtering of `items/keys/values/__iter__/__len__/
  __reversed__/visit/visititems` (l. 353–395) over a flat raw tree.

Strings are `List Char`. The `py*` functions are the Python `str`/`list` primitives the source
uses (`startswith`, `find`, `split`, `join`, `l[-1]`, `l[-1] = x`, `append`, `pop`, `s[n:]`).
Import-free: only core Lean.
-/
namespace MetadorModel.Paths

abbrev Str := List Char

/-! ## Python primitives -/

/-- `s.startswith(pref)` -/
def pyStartswith : Str → Str → Bool
  | _, [] => true
  | [], _ :: _ => false
  | c :: s, d :: p => c == d && pyStartswith s p

/-- `s.find(sub)` : index of the first occurrence or `-1` (`"".find("") = 0`). -/
def pyFind : Str → Str → Int
  | [], sub => if sub.isEmpty then 0 else -1
  | c :: s, sub =>
    if pyStartswith (c :: s) sub then 0
    else
      let r := pyFind s sub
      if r ≥ 0 then r + 1 else -1

/-- first segment and remaining segments of `s.split(sep)` (never empty as a whole). -/
def splitAux (sep : Char) : Str → Str × List Str
  | [] => ([], [])
  | c :: s =>
    let r := splitAux sep s
    if c == sep then ([], r.1 :: r.2) else (c :: r.1, r.2)

/-- `s.split(sep)` for a one-character separator: always at least one element. -/
def pySplit (s : Str) (sep : Char) : List Str :=
  (splitAux sep s).1 :: (splitAux sep s).2

/-- `sep.join(l)` -/
def pyJoin (sep : Char) : List Str → Str
  | [] => []
  | [a] => a
  | a :: b :: l => a ++ sep :: pyJoin sep (b :: l)

/-- `l[-1]` on a list that is known to be non-empty (results of `split`); `[]` otherwise. -/
def pyLast : List Str → Str
  | [] => []
  | [a] => a
  | _ :: b :: l => pyLast (b :: l)

/-- `l[0]` on a list that is known to be non-empty. -/
def pyHead : List Str → Str
  | [] => []
  | a :: _ => a

/-- `l[-1] = x` -/
def pySetLast : List Str → Str → List Str
  | [], _ => []
  | [_], x => [x]
  | a :: b :: l, x => a :: pySetLast (b :: l) x

/-- `l.pop()` (the list afterwards) -/
def pyPop : List Str → List Str
  | [] => []
  | [_] => []
  | a :: b :: l => a :: pyPop (b :: l)

/-- `s[n:]` -/
def pyDrop (n : Nat) (s : Str) : Str := s.drop n

/-! ## Constants of `container/utils.py` -/

def METADOR_PREF : Str := "metador_".toList
def METADOR_META_PREF : Str := METADOR_PREF ++ "meta_".toList

/-! ## The four path functions -/

/-- `is_internal_path(path, pref)`:
`path.startswith(pref) or path.find(f"/{pref}") >= 0`. -/
def isInternalPathP (path pref : Str) : Bool :=
  pyStartswith path pref || decide (pyFind path ('/' :: pref) ≥ 0)

/-- `is_internal_path(path)` with the default prefix `metador_`. -/
def isInternalPath (path : Str) : Bool := isInternalPathP path METADOR_PREF

/-- `is_meta_base_path(path)`: `path.split("/")[-1].startswith(METADOR_META_PREF)`. -/
def isMetaBasePath (path : Str) : Bool :=
  pyStartswith (pyLast (pySplit path '/')) METADOR_META_PREF

/-- `to_meta_base_path(node_path, is_dataset)`. -/
def toMetaBasePath (nodePath : Str) (isDataset : Bool) : Str :=
  let segs := pySplit nodePath '/'
  let segs :=
    if isDataset then pySetLast segs (METADOR_META_PREF ++ pyLast segs)
    else if segs == [[], []] then pySetLast segs METADOR_META_PREF
    else segs ++ [METADOR_META_PREF]
  pyJoin '/' segs

/-- `to_data_node_path(meta_dir_path)`. -/
def toDataNodePath (metaDirPath : Str) : Str :=
  let segs := pySplit metaDirPath '/'
  let pl := METADOR_META_PREF.length
  let segs := pySetLast segs (pyDrop pl (pyLast segs))
  let segs :=
    if pyLast segs == [] && (decide (segs.length > 2) || pyHead segs != []) then pyPop segs
    else segs
  pyJoin '/' segs

/-- specification vocabulary: some `/`-separated segment starts with `metador_`. -/
def hasReservedSeg (p : Str) : Prop :=
  ∃ seg ∈ pySplit p '/', pyStartswith seg METADOR_PREF = true

/-! ## Guards of a wrapped method

A wrapped method is a list of guard steps performed in source order, followed by the raw
operation on `__wrapped__`. A raising guard prevents everything after it. The model is generic
in the raw state `σ` and the raw operation. -/

/-- outcome classes of a call through the wrapper -/
inductive Err where
  | internalPath   -- ValueError: Trying to use a Metador-internal path
  | absoluteLocal  -- ValueError: node is local_only, absolute path
  | unsupported    -- UnsupportedOperationError (ACL)
  | raw            -- whatever the raw operation raised
deriving DecidableEq, Repr

/-- `MetadorNode._guard_path(path)` for a node whose `local_only` flag is `loc`.
(`path[0]` on an empty string raises `IndexError`; modelled as `raw`.) -/
def guardPath (loc : Bool) (path : Str) : Except Err Unit :=
  if isInternalPath path then .error .internalPath
  else if loc then
    match path with
    | [] => .error .raw
    | c :: _ => if c == '/' then .error .absoluteLocal else .ok ()
  else .ok ()

/-- one guard step of a method body -/
inductive Guard where
  | path (argIdx : Nat)   -- `self._guard_path(<argument argIdx>)`
  | readOnly              -- `self._guard_acl(NodeAcl.read_only, …)`
deriving DecidableEq, Repr

/-- run the guards in order on the actual arguments -/
def runGuards (loc ro : Bool) (args : List Str) : List Guard → Except Err Unit
  | [] => .ok ()
  | .path i :: gs =>
    match args[i]? with
    | none => .error .raw
    | some p =>
      match guardPath loc p with
      | .error e => .error e
      | .ok () => runGuards loc ro args gs
  | .readOnly :: gs => if ro then .error .unsupported else runGuards loc ro args gs

/-- a call through the wrapper: guards first, then the raw operation on the raw state. -/
def wrappedCall {σ : Type} (loc ro : Bool) (guards : List Guard) (raw : σ → List Str → Except Err σ)
    (s : σ) (args : List Str) : Except Err σ :=
  match runGuards loc ro args guards with
  | .error e => .error e
  | .ok () => raw s args

/-- the state after a call (Python: an exception leaves whatever had been done; here the
guards touch nothing, so an error from a guard leaves the state as it was) -/
def stateAfter {σ : Type} (s : σ) : Except Err σ → σ
  | .ok s' => s'
  | .error _ => s

/-! ## Method descriptors (shape of the table extracted from the source)

`pathArgs` are the indices of the path-typed arguments of a call shape (after `self`),
`guards` the guard steps that the source performs before the first access to `__wrapped__`. -/
structure MethodShape where
  name : String
  nargs : Nat
  pathArgs : List Nat
  guards : List Guard
deriving DecidableEq, Repr

def MethodShape.guardsAllPaths (m : MethodShape) : Bool :=
  m.pathArgs.all fun i => m.guards.contains (.path i)

/-! ## Filtered listings over a flat raw tree

The raw container is a list of nodes with their absolute `name` (as h5py / IH5 report it).
`rawChildren g` are the `(key, node)` pairs of the raw group `g`, `rawBelow g` the
`(relative name, node)` pairs `visititems` presents. The wrapper filters both on
`is_internal_path(node.name)`. -/
structure RawNode where
  name : Str       -- absolute path, "/a/b"
  isGroup : Bool
deriving DecidableEq, Repr

abbrev Raw := List RawNode

/-- strip the prefix `g ++ "/"` (or `"/"` for the root) from an absolute name -/
def stripPrefix : Str → Str → Option Str
  | [], s => some s
  | _ :: _, [] => none
  | c :: p, d :: s => if c == d then stripPrefix p s else none

/-- name of `node` relative to group `g` (absolute, `"/"` for the root), if it lies below `g`. -/
def relName (g : Str) (n : Str) : Option Str :=
  let pre := if g == ['/'] then ['/'] else g ++ ['/']
  match stripPrefix pre n with
  | some [] => none
  | r => r

def rawBelow (raw : Raw) (g : Str) : List (Str × RawNode) :=
  raw.filterMap fun nd => (relName g nd.name).map fun r => (r, nd)

def rawChildren (raw : Raw) (g : Str) : List (Str × RawNode) :=
  (rawBelow raw g).filter fun p => !p.1.contains '/'

/-- `MetadorGroup.items()` (and hence `keys/values/__iter__/__len__/__reversed__`). -/
def items (raw : Raw) (g : Str) : List (Str × RawNode) :=
  (rawChildren raw g).filter fun p => !isInternalPath p.2.name

def keys (raw : Raw) (g : Str) : List Str := (items raw g).map (·.1)

def len (raw : Raw) (g : Str) : Nat := (keys raw g).length

/-- `MetadorGroup.visititems` / `visit`: names relative to `g` of the nodes presented. -/
def visit (raw : Raw) (g : Str) : List Str :=
  ((rawBelow raw g).filter fun p => !isInternalPath p.2.name).map (·.1)

/-- absolute name of `p` taken relative to group `g` -/
def absName (g p : Str) : Str :=
  match p with
  | '/' :: _ => p
  | _ => if g == ['/'] then '/' :: p else g ++ '/' :: p

def rawHas (raw : Raw) (n : Str) : Bool := raw.any fun nd => nd.name == n

/-- `MetadorGroup.__contains__(name)` for well-formed names whose proper prefixes are not
datasets: guard first, then existence below the group (the recursion through `keys()` and
`get` of the source only meets unreserved segments once the guard has passed). -/
def contains (loc : Bool) (raw : Raw) (g p : Str) : Except Err Bool :=
  match guardPath loc p with
  | .error e => .error e
  | .ok () => .ok (rawHas raw (absName g p))

/-! ## Rows of the method table extracted from `wrappers.py` (see `harness/translate.py`)

`userPaths`: the user-controlled path variables of the method body (every variable handed to
`_guard_path`, plus every variable that reaches `self.__wrapped__` without being covered by a
guard and without being bookkeeping-internal); `guarded`: those covered by a `_guard_path` call
that dominates their first use on `__wrapped__` (or sits under `if isinstance(v, str)`);
`rawUses`: every argument handed to `__wrapped__` with its class (`guarded`, `internal` = derived
from `.meta._base_dir`, `node` = taken from a node object, `callback`, `unguarded`);
`uncoveredParams`: path-named parameters that reach `__wrapped__` unguarded; `shape`: the
guard sequence before the first access to `__wrapped__`, over the positions of `userPaths`. -/
structure GMethod where
  cls : String
  name : String
  params : List String
  userPaths : List String
  guarded : List String
  uncoveredParams : List String
  rawUses : List (String × String)
  touchesRaw : Bool
  wraps : Bool
  listing : Bool
  filters : Bool
  delegates : List String
  shape : MethodShape
deriving Repr

def GMethod.guardsAllPaths (m : GMethod) : Bool :=
  m.shape.guardsAllPaths && m.uncoveredParams.isEmpty &&
  (m.rawUses.all fun r => r.2 != "unguarded") &&
  (m.userPaths.all fun v => m.guarded.contains v) &&
  m.shape.nargs == m.userPaths.length &&
  m.shape.pathArgs == List.range m.userPaths.length

/-- listing methods either filter on `is_internal_path` themselves or only delegate to
other listing methods of `self` -/
def listingNames : List String :=
  ["items", "values", "keys", "__iter__", "__len__", "__reversed__", "visit", "visititems"]

def GMethod.listingFiltered (m : GMethod) : Bool :=
  !m.listing || m.filters ||
  (!m.touchesRaw && !m.delegates.isEmpty && m.delegates.all fun d => listingNames.contains d)

/-! ## Raw operations and the user view (flat tree)

The raw container as a flat list of named nodes; `userView` is what the wrapper lets the user
see (`is_internal_path(node.name)` filtered out). Raw operations: create a node, delete a node
with everything below it, copy a node with everything below it to a new name, move = copy +
delete. User operations and the bookkeeping (`MetadorMeta`, `TOCLinks`, `TOCSchemas`,
`TOCPackages`: creations / deletions / moves of nodes below `metador_meta_*` directories and
`/metador_container`) are both sequences of such raw operations. -/

def userView (raw : Raw) : Raw := raw.filter fun nd => !isInternalPath nd.name

/-- `n` is `p` itself or lies below it; the remainder (`[]` or `"/…"`) -/
def suffixBelow (p n : Str) : Option Str :=
  match stripPrefix p n with
  | some [] => some []
  | some ('/' :: r) => some ('/' :: r)
  | _ => none

inductive RawOp where
  | create (n : RawNode)
  | delete (p : Str)
  | copy (src dst : Str)
  | move (src dst : Str)
deriving Repr

def rawDelete (p : Str) (raw : Raw) : Raw := raw.filter fun nd => (suffixBelow p nd.name).isNone

def rawCopy (src dst : Str) (raw : Raw) : Raw :=
  raw ++ raw.filterMap fun nd => (suffixBelow src nd.name).map fun r => ⟨dst ++ r, nd.isGroup⟩

def applyRaw : RawOp → Raw → Raw
  | .create n, raw => raw ++ [n]
  | .delete p, raw => rawDelete p raw
  | .copy s d, raw => rawCopy s d raw
  | .move s d, raw => rawDelete s (rawCopy s d raw)

/-- a user operation: every path it names is free of reserved segments -/
def RawOp.isUser : RawOp → Bool
  | .create n => !isInternalPath n.name
  | .delete p => !isInternalPath p
  | .copy s d => !isInternalPath s && !isInternalPath d
  | .move s d => !isInternalPath s && !isInternalPath d

/-- a bookkeeping operation: what it creates / deletes / moves lies in the reserved namespace -/
def RawOp.isBookkeeping : RawOp → Bool
  | .create n => isInternalPath n.name
  | .delete p => isInternalPath p
  | .copy _ d => isInternalPath d
  | .move s d => isInternalPath s && isInternalPath d

end MetadorModel.Paths
