import MetadorModel.Model.Paths
/-!
# Reserved namespace: path *values* and naming / referencing *values* (property C08)

Extends `Model/Paths.lean` by the two ways around the name-based protection of the wrappers
(`metador_core/container/wrappers.py`):

* **what is handed over as a path need not be a `str`.** `MetadorNode._guard_path` (l. 171–177)
  starts with `M.is_internal_path(path)`, i.e. `path.startswith(pref) or path.find(…) >= 0`
  (`container/utils.py` l. 37–43) with `str` prefixes. On a `bytes` value `startswith` raises
  `TypeError`, on a value without `startswith` (pathlib, tuple, bytearray, `None`, references…)
  `AttributeError` — the guard *raises* for everything that is not a `str` (or a subclass of it),
  so the raw driver, which would accept `bytes` names, never sees them. `PathVal`, `guardPathV`,
  `runGuardsV`, `wrappedCallV` mirror this.
* **a value can name another node, or become a node that is neither group nor dataset.**
  `MetadorGroup.__setitem__` (l. 358–364) first refuses values whose class is in
  `_H5_REF_TYPES = [HardLink, SoftLink, ExternalLink, Reference]` (l. 330) or in
  `_H5_TYPE_TYPES = [numpy.dtype, h5py.Datatype]` (l. 332, since F35), then goes through
  `_wrap_method("__setitem__")`. `_wrap_if_node` (l. 186–195) wraps groups and datasets and
  returns everything else as it is: a committed ("named") datatype would be handed out as the raw
  h5py object, whose `.parent` / `.file` are the raw group / file. The path guard looks at the *name* a value is stored
  under, the listing filter (`items`, l. 382–389) at the name a node is *reported* under
  (`v.name`, for a node reached through a link: the path through the link). `LRaw`, `resolve`,
  `keysL`, `denotes` model a raw tree with links to show what the refusal is needed for.

Import-free apart from `Model/Paths.lean`.
-/
namespace MetadorModel.Paths

/-! ## Values handed over where a path is expected -/

/-- a value in a path-typed argument position -/
inductive PathVal where
  | str (s : Str)     -- `str` and subclasses of `str` (`numpy.str_`, user classes)
  | bytes (s : Str)   -- `bytes` / `numpy.bytes_`: h5py takes them as names
  | other             -- any other type (`pathlib`, tuple, `bytearray`, `None`, a reference …)
deriving DecidableEq, Repr

/-- the path a raw h5py group would address with this value -/
def PathVal.text : PathVal → Option Str
  | .str s => some s
  | .bytes s => some s
  | .other => none

def PathVal.isStr : PathVal → Bool
  | .str _ => true
  | _ => false

/-- outcome classes of a call with typed arguments -/
inductive VErr where
  | guard (e : Err)   -- raised by the guards on a `str` path / by the raw operation
  | notStr            -- `TypeError` / `AttributeError` out of `is_internal_path` on a non-`str`
  | refValue          -- `ValueError("Unsupported reference type: …")`
deriving DecidableEq, Repr

/-- `is_internal_path(path)` on an arbitrary value: `path.startswith("metador_") or …` -/
def isInternalPathV : PathVal → Except VErr Bool
  | .str s => .ok (isInternalPath s)
  | .bytes _ => .error .notStr   -- `bytes.startswith(str)`: TypeError
  | .other => .error .notStr     -- no attribute `startswith`: AttributeError

/-- `MetadorNode._guard_path(path)` on an arbitrary value (statements in source order) -/
def guardPathV (loc : Bool) (v : PathVal) : Except VErr Unit :=
  match isInternalPathV v with
  | .error e => .error e
  | .ok true => .error (.guard .internalPath)
  | .ok false =>
    if loc then
      match v with
      | .str [] => .error (.guard .raw)
      | .str (c :: _) => if c == '/' then .error (.guard .absoluteLocal) else .ok ()
      | _ => .error .notStr
    else .ok ()

/-- run the guards of a method in order on typed arguments (cf. `runGuards`) -/
def runGuardsV (loc ro : Bool) (args : List PathVal) : List Guard → Except VErr Unit
  | [] => .ok ()
  | .path i :: gs =>
    match args[i]? with
    | none => .error (.guard .raw)
    | some p =>
      match guardPathV loc p with
      | .error e => .error e
      | .ok () => runGuardsV loc ro args gs
  | .readOnly :: gs => if ro then .error (.guard .unsupported) else runGuardsV loc ro args gs

/-- a call through the wrapper with typed arguments: guards first, then the raw operation -/
def wrappedCallV {σ : Type} (loc ro : Bool) (guards : List Guard)
    (raw : σ → List PathVal → Except VErr σ) (s : σ) (args : List PathVal) : Except VErr σ :=
  match runGuardsV loc ro args guards with
  | .error e => .error e
  | .ok () => raw s args

def stateAfterV {σ : Type} (s : σ) : Except VErr σ → σ
  | .ok s' => s'
  | .error _ => s

/-- the call was refused because a path argument is not a `str` -/
def refusedNotStr {σ : Type} : Except VErr σ → Bool
  | .error .notStr => true
  | _ => false

/-! ## Values that name or reference other nodes -/

/-- what can be assigned with `group[name] = value` -/
inductive SetVal where
  | data                           -- scalars, arrays (also arrays *of* references), bytes, str
  | node                           -- an existing node object (h5py: a new hard link to it)
  | namedType                      -- `numpy.dtype` (h5py: commits it as a named datatype)
  | committedType                  -- `h5py.Datatype` object (h5py: a new hard link to it)
  | softLink (target : Str)        -- `h5py.SoftLink(path)`
  | externalLink (target : Str)    -- `h5py.ExternalLink(file, path)`
  | hardLink                       -- `h5py.HardLink()`
  | reference                      -- `h5py.Reference` / `h5py.RegionReference`
deriving DecidableEq, Repr

/-- the class an `isinstance` test against `_H5_REF_TYPES` / `_H5_TYPE_TYPES` sees -/
def SetVal.h5Type : SetVal → Option String
  | .softLink _ => some "SoftLink"
  | .externalLink _ => some "ExternalLink"
  | .hardLink => some "HardLink"
  | .reference => some "Reference"
  | .namedType => some "dtype"
  | .committedType => some "Datatype"
  | _ => none

/-- the value classes that name / reference a node (`_H5_REF_TYPES` of the source) -/
def linkTypes : List String := ["HardLink", "SoftLink", "ExternalLink", "Reference"]

/-- the value classes that are stored as a named datatype (`_H5_TYPE_TYPES` of the source) -/
def typeTypes : List String := ["dtype", "Datatype"]

def SetVal.isLink : SetVal → Bool
  | .softLink _ => true
  | .externalLink _ => true
  | .hardLink => true
  | .reference => true
  | _ => false

def SetVal.isType : SetVal → Bool
  | .namedType => true
  | .committedType => true
  | _ => false

/-- `any(map(lambda x: isinstance(value, x), _H5_REF_TYPES))` for a given list of refused classes -/
def valueRefused (refused : List String) (v : SetVal) : Bool :=
  match v.h5Type with
  | some t => refused.contains t
  | none => false

/-- `MetadorGroup.__setitem__(name, value)`: the value test, then the wrapped method (path
guard, read-only guard, raw `__setitem__`). -/
def setitemV {σ : Type} (refused : List String) (loc ro : Bool)
    (raw : σ → PathVal → SetVal → Except VErr σ) (s : σ) (name : PathVal) (v : SetVal) :
    Except VErr σ :=
  if valueRefused refused v then .error .refValue
  else
    match runGuardsV loc ro [name] [.path 0, .readOnly] with
    | .error e => .error e
    | .ok () => raw s name v

/-! ## A raw tree with links

`nodes` as in `Raw`; a link has the absolute path it is stored under and the absolute path it
points to. Looking a path up follows links (`resolve`, bounded by `fuel`); the node that is
handed out *reports the path it was reached by* as its `name` (h5py), and that is what the
listing filter of the wrapper sees. -/

structure Link where
  name : Str
  target : Str
deriving DecidableEq, Repr

/-- `types`: absolute names of the committed datatypes — nodes that are neither group nor
dataset, which `_wrap_if_node` hands out unwrapped -/
structure LRaw where
  nodes : Raw
  links : List Link
  types : List Str := []
deriving Repr

/-- one resolution step: the first link that is `p` or a prefix of `p` on a segment boundary -/
def resolveStep (links : List Link) (p : Str) : Option Str :=
  match links with
  | [] => none
  | l :: ls =>
    match suffixBelow l.name p with
    | some r => some (l.target ++ r)
    | none => resolveStep ls p

/-- the path of the entity that `p` leads to -/
def resolve (links : List Link) : Nat → Str → Str
  | 0, p => p
  | fuel + 1, p =>
    match resolveStep links p with
    | some q => resolve links fuel q
    | none => p

/-- the entity a name denotes for the user -/
def denotes (t : LRaw) (fuel : Nat) (p : Str) : Str := resolve t.links fuel p

/-- absolute name of child `k` of the group reached as `g` -/
def childName (g k : Str) : Str := (if g == ['/'] then ['/'] else g ++ ['/']) ++ k

/-- names of the links stored directly in the group with the (real) path `g` -/
def linkChildren (links : List Link) (g : Str) : List Str :=
  links.filterMap fun l =>
    match relName g l.name with
    | some r => if r.contains '/' then none else some r
    | none => none

/-- `MetadorGroup.keys()` of the group reached under the name `g`: members of the group that
`g` denotes (nodes and links), filtered on the name they are reported under (`g/k`). -/
def keysL (t : LRaw) (fuel : Nat) (g : Str) : List Str :=
  let real := resolve t.links fuel g
  (((rawChildren t.nodes real).map (·.1)) ++ linkChildren t.links real).filter
    fun k => !isInternalPath (childName g k)

/-- raw `__setitem__` on the tree with links (relative names are taken from group `g`) -/
def rawSetitem (g : Str) (t : LRaw) (name : PathVal) (v : SetVal) : Except VErr LRaw :=
  match name.text with
  | none => .error (.guard .raw)
  | some n =>
    let p := absName g n
    match v with
    | .softLink tgt => .ok { t with links := t.links ++ [⟨p, absName g tgt⟩] }
    | .externalLink tgt => .ok { t with links := t.links ++ [⟨p, tgt⟩] }
    | .hardLink => .error (.guard .raw)
    | .reference => .error (.guard .raw)
    | .data => .ok { t with nodes := t.nodes ++ [⟨p, false⟩] }
    | .node => .ok { t with nodes := t.nodes ++ [⟨p, false⟩] }
    | .namedType => .ok { t with types := t.types ++ [p] }
    | .committedType => .ok { t with types := t.types ++ [p] }

/-- `_wrap_if_node` on what a lookup of the absolute name `p` finds: `true` = handed out as a
`MetadorGroup` / `MetadorDataset`, `false` = handed out as the raw driver object -/
def handedOutWrapped (t : LRaw) (p : Str) : Bool := !t.types.contains p

/-- one `group[name] = value` through the wrapper, on group `g` -/
structure SetCall where
  g : Str
  name : PathVal
  value : SetVal
deriving Repr

def stepSet (refused : List String) (t : LRaw) (c : SetCall) : LRaw :=
  stateAfterV t (setitemV refused false false (rawSetitem c.g) t c.name c.value)

def runSets (refused : List String) (t : LRaw) (cs : List SetCall) : LRaw :=
  cs.foldl (stepSet refused) t

end MetadorModel.Paths
