/-!
# Plain HDF5-like trees as flat path maps (reference side of property C01)

`Tree V` is what a single `h5py.File` holds, as far as the IH5 properties observe it:
groups and datasets (opaque values `V`) at paths, each with a finite attribute map.
It is a flat association list `Path ↦ Node`, the root `[]` is always present.

`Spec.*` mirror what h5py does for the calls the harness makes on the reference file
(`h5py.File.create_group`, `__setitem__`/`create_dataset`, `__delitem__`, `attrs[...] = …`,
`del attrs[...]`, `copy`, `move`), including the error branches observed on h5py 3.x / HDF5 1.14:

* creating something at an existing path fails, creating below a dataset fails,
  missing intermediate groups are created automatically;
* deleting / reading / attaching attributes to a missing node fails; deleting a missing
  attribute fails;
* `copy` fails when the source is missing, the destination exists or lies below a dataset;
  the source is copied as it was *before* the call (so a copy into the source's own subtree
  is well defined), missing destination parents are created;
* `move` = `copy` followed by deletion of the source (moving a node into its own subtree or
  onto itself is outside the operation alphabet of C01: HDF5 detaches the subtree there).
* no failing call changes the tree.

The generic association-list helpers (`aget/aput/aerase`, `removeSub`, `ensure`) are shared
with the container model in `Model/Overlay.lean`.

Import-free: only core Lean.
-/
namespace MetadorModel.Tree

abbrev Key := String
abbrev Path := List Key

/-! ## association lists (first match wins, `aput` replaces in place or appends) -/

def aget {κ β : Type} [DecidableEq κ] (k : κ) : List (κ × β) → Option β
  | [] => none
  | (k', v) :: rest => if k' = k then some v else aget k rest

def aput {κ β : Type} [DecidableEq κ] (k : κ) (v : β) : List (κ × β) → List (κ × β)
  | [] => [(k, v)]
  | (k', v') :: rest => if k' = k then (k, v) :: rest else (k', v') :: aput k v rest

def aerase {κ β : Type} [DecidableEq κ] (k : κ) : List (κ × β) → List (κ × β)
  | [] => []
  | (k', v') :: rest => if k' = k then aerase k rest else (k', v') :: aerase k rest

/-! ## paths -/

/-- `a` is a prefix of `b` (`a = b` allowed) -/
def isPre : Path → Path → Bool
  | [], _ => true
  | _ :: _, [] => false
  | x :: xs, y :: ys => if x = y then isPre xs ys else false

/-- all proper prefixes of a path, root first: `[a,b,c] ↦ [[], [a], [a,b]]` -/
def properPrefixes : Path → List Path
  | [] => []
  | k :: rest => [] :: (properPrefixes rest).map (k :: ·)

/-- remove the whole subtree at `p` (the entry at `p` and everything below it) -/
def removeSub {α : Type} (p : Path) (m : List (Path × α)) : List (Path × α) :=
  m.filter (fun e => !(isPre p e.1))

/-- add `d` at each of the listed paths that has no entry yet -/
def ensureAll {α : Type} (d : α) : List Path → List (Path × α) → List (Path × α)
  | [], m => m
  | q :: qs, m => ensureAll d qs (match aget q m with | some _ => m | none => aput q d m)

/-- automatic creation of missing intermediate groups: `d` at every proper prefix of `p`
that has no entry yet -/
def ensure {α : Type} (d : α) (p : Path) (m : List (Path × α)) : List (Path × α) :=
  ensureAll d (properPrefixes p) m

/-! ## sorting (canonical output, `visititems` order) -/

/-- Python `str` order (by code point) lifted to key lists; a path precedes its extensions,
so the sorted list of the paths of a subtree is its pre-order with sorted children. -/
def pathLt : Path → Path → Bool
  | [], [] => false
  | [], _ :: _ => true
  | _ :: _, [] => false
  | x :: xs, y :: ys => if x < y then true else if x = y then pathLt xs ys else false

def insertBy {α : Type} (lt : α → α → Bool) (x : α) : List α → List α
  | [] => [x]
  | y :: ys => if lt x y then x :: y :: ys else y :: insertBy lt x ys

/-- stable insertion sort -/
def sortBy {α : Type} (lt : α → α → Bool) (l : List α) : List α := l.foldr (insertBy lt) []

def dedup {α : Type} [DecidableEq α] : List α → List α
  | [] => []
  | x :: xs => if x ∈ xs then dedup xs else x :: dedup xs

/-! ## nodes and trees -/

inductive NKind (V : Type) where
  | group
  | data (v : V)
deriving DecidableEq, Repr

structure Node (V : Type) where
  kind : NKind V
  attrs : List (Key × V) := []
deriving DecidableEq, Repr

abbrev Tree (V : Type) := List (Path × Node V)

inductive Err where
  | exists_      -- something is at the target path already
  | missing      -- node / attribute not found
  | insideValue  -- an ancestor of the path is a dataset
  | root         -- operation not available on the root
  | raw          -- h5py refused a call on the newest container file (overlay only)
  | closed       -- no container (overlay only)
deriving DecidableEq, Repr

variable {V : Type}

def emptyGroup : Node V := ⟨.group, []⟩

/-- a freshly created file: just the root group -/
def Tree.init : Tree V := [([], emptyGroup)]

def kindAt (t : Tree V) (q : Path) : Option (NKind V) := (aget q t).map (·.kind)
def attrAt (t : Tree V) (q : Path) (k : Key) : Option V := (aget q t).bind (fun n => aget k n.attrs)

def isData : Option (Node V) → Bool
  | some ⟨.data _, _⟩ => true
  | _ => false

/-- no proper prefix of `p` is a dataset -/
def ancestorsOk (t : Tree V) (p : Path) : Bool :=
  (properPrefixes p).all (fun q => !(isData (aget q t)))

namespace Spec

/-- common check of everything that creates a node at a fresh path -/
def checkFresh (t : Tree V) (p : Path) : Except Err Unit :=
  if p = [] then .error .exists_
  else if (aget p t).isSome then .error .exists_
  else if !(ancestorsOk t p) then .error .insideValue
  else .ok ()

/-- `f.create_group(p)` -/
def createGroup (t : Tree V) (p : Path) : Except Err (Tree V) := do
  checkFresh t p
  pure (aput p emptyGroup (ensure emptyGroup p t))

/-- `f[p] = v` -/
def createDataset (t : Tree V) (p : Path) (v : V) : Except Err (Tree V) := do
  checkFresh t p
  pure (aput p ⟨.data v, []⟩ (ensure emptyGroup p t))

/-- `del f[p]` -/
def delete (t : Tree V) (p : Path) : Except Err (Tree V) :=
  if p = [] then .error .root
  else match aget p t with
    | none => .error .missing
    | some _ => .ok (removeSub p t)

/-- `f[p].attrs[k] = v` -/
def setAttr (t : Tree V) (p : Path) (k : Key) (v : V) : Except Err (Tree V) :=
  match aget p t with
  | none => .error .missing
  | some n => .ok (aput p { n with attrs := aput k v n.attrs } t)

/-- `del f[p].attrs[k]` -/
def delAttr (t : Tree V) (p : Path) (k : Key) : Except Err (Tree V) :=
  match aget p t with
  | none => .error .missing
  | some n =>
    match aget k n.attrs with
    | none => .error .missing
    | some _ => .ok (aput p { n with attrs := aerase k n.attrs } t)

/-- the subtree at `s`, re-rooted at `d` -/
def regraft (s d : Path) (t : Tree V) : Tree V :=
  (t.filter (fun e => isPre s e.1)).map (fun e => (d ++ e.1.drop s.length, e.2))

/-- `f.copy(s, d)` -/
def copy (t : Tree V) (s d : Path) : Except Err (Tree V) :=
  if s = [] then .error .root
  else match aget s t with
    | none => .error .missing
    | some _ => do
      checkFresh t d
      pure (regraft s d t ++ ensure emptyGroup d t)

/-- `f.move(s, d)` for `d` not inside (or equal to) `s` -/
def move (t : Tree V) (s d : Path) : Except Err (Tree V) :=
  if isPre s d then .error .root
  else do
    let t' ← copy t s d
    delete t' s

end Spec

/-! ## operation alphabet of C01 (shared with the overlay model) -/

inductive Op (V : Type) where
  | set (p : Path) (v : V)            -- `f[p] = v`
  | grp (p : Path)                    -- `f.create_group(p)`
  | del (p : Path)                    -- `del f[p]`
  | sattr (p : Path) (k : Key) (v : V) -- `f[p].attrs[k] = v`
  | dattr (p : Path) (k : Key)        -- `del f[p].attrs[k]`
  | copy (s d : Path)                 -- `f.copy(s, d)`
  | move (s d : Path)                 -- `f.move(s, d)`
  | patch                             -- commit + create_patch (nothing on a plain file)
deriving DecidableEq, Repr

def Spec.step (t : Tree V) : Op V → Except Err (Tree V)
  | .set p v => Spec.createDataset t p v
  | .grp p => Spec.createGroup t p
  | .del p => Spec.delete t p
  | .sattr p k v => Spec.setAttr t p k v
  | .dattr p k => Spec.delAttr t p k
  | .copy s d => Spec.copy t s d
  | .move s d => Spec.move t s d
  | .patch => .ok t

/-- run a history; a failing operation leaves the tree unchanged; the outcome list records
which operations succeeded (boundaries are not operations of the plain tree) -/
def Spec.run (t : Tree V) : List (Op V) → Tree V × List Bool
  | [] => (t, [])
  | .patch :: ops => Spec.run t ops
  | op :: ops =>
    match Spec.step t op with
    | .ok t' => let (tf, os) := Spec.run t' ops; (tf, true :: os)
    | .error _ => let (tf, os) := Spec.run t ops; (tf, false :: os)

/-! ## canonical listing -/

/-- all nodes, sorted by path (pre-order with sorted children), attributes sorted by key -/
def listing (t : Tree V) : List (Path × NKind V × List (Key × V)) :=
  (sortBy pathLt (dedup (t.map (·.1)))).filterMap fun q =>
    match aget q t with
    | none => none
    | some n =>
      some (q, n.kind, (sortBy (fun a b => decide (a < b)) (dedup (n.attrs.map (·.1)))).filterMap
        fun k => (aget k n.attrs).map (k, ·))

end MetadorModel.Tree
