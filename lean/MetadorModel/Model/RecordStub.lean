import MetadorModel.Model.RecordKw
/-!
# Context-manager exit and the stub life cycle of the record API (property C02)

Additive to `Model/Record.lean` / `Model/RecordKw.lean` (nothing there is changed):

* `IH5Record.__exit__(ex_type, ex_value, ex_traceback)` — `record.py:652`: the three arguments are
  ignored, the body is `self.close()`. Leaving a `with` block normally or by an exception is
  `close(commit=True)`.
* `IH5MFRecord.create_stub(record, manifest_file)` — `manifest.py:262-301`: the manifest is parsed
  (`FileNotFoundError` when absent; a container file is no UTF-8 text: `UnicodeDecodeError`, a
  `ValueError`), a base container is created under the record name like any new record
  (`IH5MFRecord._create(Path(record))`: invalid name `ValueError`, existing file `FileExistsError`
  — `_new_container` uses mode `x`), `init_stub_base` fills it with the skeleton and replaces the
  in-memory user block by the one stored in the manifest with `prev_patch = None`
  (`skeleton.py:99-106`), `commit_patch(__is_stub__=True)` commits it like any container of the
  manifest class: fresh manifest uuid, sidecar written, the extension marks the container as stub.
  The handle that is returned allows patching and has no writable container.
* `IH5MFRecord.merge_files` — `manifest.py:205-214`: refused (`ValueError`) when a user block of
  the handle is marked as stub; the plain class does not look at the mark.

What the manifest stores is abstract in `Model/Record.lean` (`File.mf uuid body`). The user block
and the skeleton a manifest holds are those of the container that links it at the moment of its
commit; here they are read off that container (`findExt`) and the chain below it (`chainIds`).
When the directory no longer holds them the model has no answer (`Out.keyError`, printed as
`outside` by the driver; the harness does not generate it).

The stub mark is a function of the manifest uuid in the extension (the only writer of
`is_stub_container = True` is `create_stub`, every other commit of the manifest class draws a
fresh uuid, the plain class copies the extension as a whole), so it is kept as the set of
manifest uuids written by `create_stub` (`StS.stubMfs`).

Import-free apart from `Model/RecordKw`.
-/
namespace MetadorModel.Record
open MetadorModel.FindFiles

/-- the first container whose user block links the manifest `(u, b)` -/
def findExt : Disk → Nat → Nat → Option (UB × List Nat)
  | [], _, _ => none
  | (_, .cont ub p) :: r, u, b => if ub.ext = some (u, b) then some (ub, p) else findExt r u b
  | (_, .mf _ _) :: r, u, b => findExt r u b

/-- the first committed container of record `rid` with patch uuid `pid` -/
def findPid : Disk → Nat → Nat → Option (UB × List Nat)
  | [], _, _ => none
  | (_, .cont ub p) :: r, rid, pid =>
    if ub.rid = rid ∧ ub.pid = pid ∧ ub.hash.isSome then some (ub, p) else findPid r rid pid
  | (_, .mf _ _) :: r, rid, pid => findPid r rid pid

/-- ids of the writes visible on the chain that ends in a container (what `IH5Skeleton.for_record`
records at its commit) -/
def chainIds (d : Disk) : Nat → UB → List Nat → Option (List Nat)
  | 0, _, _ => none
  | fuel + 1, ub, p =>
    match ub.prev with
    | none => some p
    | some q =>
      match findPid d ub.rid q with
      | none => none
      | some (ub', p') => (chainIds d fuel ub' p').map (· ++ p)

/-- user block and skeleton stored in the manifest `(u, b)` -/
def stubInfo (d : Disk) (u b : Nat) : Option (UB × List Nat) :=
  match findExt d u b with
  | none => none
  | some (ub, p) => (chainIds d (d.length + 1) ub p).map (fun ids => (ub, ids))

/-- `init_stub_base` on the fresh record: skeleton written into the base container, in-memory
user block replaced -/
def stubPrep (s1 : State) (path : Name) (ubS : UB) (ids : List Nat) : State :=
  { s1 with disk := setPayload s1.disk path ids, h := { s1.h with files := [(path, ubS)] } }

/-- the user block `create_stub` hands to `init_stub_base` (the extension is overwritten by the
commit that follows) -/
def stubUB (src : UB) : UB :=
  { rid := src.rid, idx := src.idx, pid := src.pid, prev := none, hash := none, ext := none }

/-- `IH5MFRecord.create_stub(record, manifest_file)` -/
def createStub (s : State) (n mf : Name) : Res :=
  if !s.h.closed then fail s .busy else
  match getF s.disk mf with
  | none => fail s .fileNotFound
  | some (.cont _ _) => fail s .valueError
  | some (.mf u b) =>
    match stubInfo s.disk u b with
    | none => fail s .keyError
    | some (src, ids) =>
      let r1 := createRec s true n false []
      match r1.out with
      | .ok =>
        let r3 := commitMF (stubPrep r1.st (baseFile n) (stubUB src) ids)
        { st := r3.st, out := r3.out, created := baseFile n :: r3.created, removed := r3.removed,
          written := r3.written }
      | _ => r1

/-- `__exit__` — the exception (if any) is not looked at -/
def exitWith (s : State) (_exc : Bool) : Res := close s true

/-! ## histories -/

/-- record state + the manifest uuids written by `create_stub` -/
structure StS where
  s : State := {}
  stubMfs : List Nat := []
deriving DecidableEq, Repr, Inhabited

def isStubUB (m : List Nat) (ub : UB) : Bool :=
  match ub.ext with
  | some (u, _) => m.contains u
  | none => false

inductive OpS where
  | kw (o : OpK)
  | exit (exc : Bool)
  | createStub (n mf : Name)
deriving DecidableEq, Repr

/-- `IH5MFRecord.merge_files` on a handle that holds a stub -/
def refusedMerge (t : StS) : OpS → Bool
  | .kw (.base (.merge _)) => t.s.h.mfcls && t.s.h.files.any (fun x => isStubUB t.stubMfs x.2)
  | _ => false

def stepS (t : StS) (o : OpS) : Res :=
  if refusedMerge t o then fail t.s .valueError else
  match o with
  | .kw k => stepK t.s k
  | .exit e => exitWith t.s e
  | .createStub n mf => createStub t.s n mf

def afterS (t : StS) (o : OpS) : StS :=
  let r := stepS t o
  { s := r.st,
    stubMfs :=
      match o, r.out, r.st.h.manifest with
      | .createStub _ _, .ok, some (u, _) => u :: t.stubMfs
      | _, _, _ => t.stubMfs }

def runS (t : StS) : List OpS → StS
  | [] => t
  | o :: r => runS (afterS t o) r

/-- everything except the explicitly destructive calls (mode `w`, `delete_files`) -/
def OpS.safe : OpS → Bool
  | .kw o => o.safe
  | _ => true

end MetadorModel.Record
