import MetadorModel.Model.Tree
/-!
# IH5 overlay: containers, child resolution, write paths (property C01)

Mirrors `src/metador_core/ih5/overlay.py` of the *current* tree (with the repairs F1–F3):

* `scan`          — `IH5InnerNode._children` (l. 252–290) for one child path: newest container
                    first, lower bound `c`, a virtual sighting lowers the bound, the first
                    non-virtual sighting ends the scan (the `is_virtual[k]` update of l. 280);
* `child`         — the filter on deletion markers at the end of `_children`;
* `lookFrom/look` — `_node_seq` / `_find` (l. 299–343): successive child lookup carrying the
                    creation index, `ValueError` when an inner segment is a dataset;
* `attrFind`      — `_children` of an `IH5AttributeManager` (an attribute value is never
                    "virtual", so the newest sighting wins);
* `viewKind/viewAttr` — what `rec[path]`, `rec[path][()]`, `rec[path].attrs[k]` show;
* `Raw.*`         — what h5py does inside the newest container file `self._files[-1]`
                    (automatic intermediate groups, failures on existing names / below datasets);
* `W.*`           — the write paths `create_group` (l. 561–588), `_create_virtual` (l. 504–524),
                    `create_dataset` (l. 590–622), `__delitem__` (l. 531–542),
                    `IH5AttributeManager.__setitem__/__delitem__` (l. 457–481), `copy`/`move`
                    (l. 635–655) with `h5_copy_from_to` (l. 701–756), and
                    `commit_patch; create_patch` of `record.py` (`newPatch`).
* `Legacy.*`      — the pinned (pre-F1) scan, kept only for the negative theorem.

Representation: a container is a flat path map of raw nodes (`vgroup` = group without the
SUBST attribute, `sgroup` = group with it, `data v`, `del` = dataset holding the deletion
marker; attribute values `none` = deletion marker). A record is the list of its containers,
**newest first**: `p :: r` is "`r` plus the patch `p`", the container index of `p` (the
`_cidx` of the code) is `r.length`, `self._files[-1]` is the head.

Node handles held across writes (`h5_copy_from_to` lists `(name, node)` pairs first and reads
values and attributes through them while it replays) are modelled by a snapshot taken when the
listing is made; the replay only creates fresh nodes below the destination and never changes
what such a handle reads.

Import-free apart from `Model/Tree`.
-/
namespace MetadorModel.Overlay
open MetadorModel.Tree

inductive RKind (V : Type) where
  | vgroup
  | sgroup
  | data (v : V)
  | del
deriving DecidableEq, Repr

structure RNode (V : Type) where
  kind : RKind V
  attrs : List (Key × Option V) := []
deriving DecidableEq, Repr

abbrev Cont (V : Type) := List (Path × RNode V)
/-- newest container first -/
abbrev Rec (V : Type) := List (Cont V)

variable {V : Type}

/-- `_node_is_virtual`: a group without SUBST marker -/
def RKind.isVirtual : RKind V → Bool
  | .vgroup => true
  | _ => false

def RKind.isGroup : RKind V → Bool
  | .vgroup => true
  | .sgroup => true
  | _ => false

/-- `_node_is_del_mark` -/
def RKind.isDel : RKind V → Bool
  | .del => true
  | _ => false

def vnode : RNode V := ⟨.vgroup, []⟩

/-- a fresh container file: only the root group -/
def Cont.init : Cont V := [([], vnode)]
/-- a fresh record: one (base) container -/
def Rec.init : Rec V := [Cont.init]

/-- `commit_patch(); create_patch()` -/
def newPatch (r : Rec V) : Rec V := Cont.init :: r

/-! ## read side -/

/-- `_children()[k]` before the deletion-mark filter, for the child at path `q`, lower bound `c`:
creation index and the raw node found in that container. -/
def scan (q : Path) (c : Nat) : Rec V → Option (Nat × RNode V)
  | [] => none
  | p :: rest =>
    if rest.length < c then none
    else match aget q p with
      | none => scan q c rest
      | some n =>
        if n.kind.isVirtual then some ((scan q c rest).getD (rest.length, n))
        else some (rest.length, n)

def child (r : Rec V) (q : Path) (c : Nat) : Option (Nat × RNode V) :=
  match scan q c r with
  | none => none
  | some (i, n) => if n.kind.isDel then none else some (i, n)

inductive Look (V : Type) where
  | found (c : Nat) (n : RNode V)         -- `nodes[-1]._gpath == path`
  | part (pre : Path) (rest : Path)    -- deepest existing prefix is the group `pre`, `rest ≠ []` is missing
  | insideValue                           -- `ValueError: Cannot access path inside a value`
deriving Repr

/-- `_node_seq`: `cur` (creation index `c`) is the node at `pre`, `rest` is still to be walked -/
def lookFrom (r : Rec V) : Path → Nat → RNode V → Path → Look V
  | _, c, cur, [] => .found c cur
  | pre, c, cur, k :: rest =>
    if cur.kind.isGroup then
      match child r (pre ++ [k]) c with
      | none => .part pre (k :: rest)
      | some (i, n) => lookFrom r (pre ++ [k]) i n rest
    else .insideValue

def look (r : Rec V) (q : Path) : Look V := lookFrom r [] 0 vnode q

def plainKind : RKind V → Option (NKind V)
  | .vgroup => some .group
  | .sgroup => some .group
  | .data v => some (.data v)
  | .del => none

/-- `_children()` of the attribute manager of the node at `q` with creation index `c`, for key `k`:
container index and raw value (`none` = deletion marker) -/
def attrFind (q : Path) (k : Key) (c : Nat) : Rec V → Option (Nat × Option V)
  | [] => none
  | p :: rest =>
    if rest.length < c then none
    else match aget q p with
      | none => attrFind q k c rest
      | some n =>
        match aget k n.attrs with
        | some v => some (rest.length, v)
        | none => attrFind q k c rest

def attrOf (r : Rec V) (q : Path) (c : Nat) (k : Key) : Option V :=
  match attrFind q k c r with
  | some (_, some v) => some v
  | _ => none

/-- the user-visible kind (and value) at a path -/
def viewKind (r : Rec V) (q : Path) : Option (NKind V) :=
  match look r q with
  | .found _ n => plainKind n.kind
  | _ => none

/-- the user-visible attribute `k` of the node at a path -/
def viewAttr (r : Rec V) (q : Path) (k : Key) : Option V :=
  match look r q with
  | .found c _ => attrOf r q c k
  | _ => none

/-! ## canonical listing (what `visititems` + `attrs.items()` enumerate) -/

def candidates (r : Rec V) : List Path :=
  sortBy pathLt (dedup (r.flatMap (fun c => c.map (·.1))))

def attrKeys (r : Rec V) (q : Path) : List Key :=
  sortBy (fun a b => decide (a < b))
    (dedup (r.flatMap (fun c => match aget q c with | some n => n.attrs.map (·.1) | none => [])))

def attrsList (r : Rec V) (q : Path) : List (Key × V) :=
  (attrKeys r q).filterMap (fun k => (viewAttr r q k).map (k, ·))

def listing (r : Rec V) : List (Path × NKind V × List (Key × V)) :=
  (candidates r).filterMap (fun q => (viewKind r q).map (fun kd => (q, kd, attrsList r q)))

/-! ## h5py on the newest container file -/

/-- every proper prefix of `p` present in the file is a group -/
def ancOk (c : Cont V) (p : Path) : Bool :=
  (properPrefixes p).all (fun q => match aget q c with | some n => n.kind.isGroup | none => true)

def isDelAt (c : Cont V) (p : Path) : Bool :=
  match aget p c with
  | some n => n.kind.isDel
  | none => false

namespace Raw

/-- `file.create_group(p)` (`n = vnode`), `file.create_dataset(p, …)`, `file[p] = DEL_VALUE` -/
def createNode (c : Cont V) (p : Path) (n : RNode V) : Except Err (Cont V) :=
  if (aget p c).isSome then .error .raw
  else if !(ancOk c p) then .error .raw
  else .ok (aput p n (ensure vnode p c))

def createGroup (c : Cont V) (p : Path) : Except Err (Cont V) := createNode c p vnode

/-- `del file[p]` -/
def delete (c : Cont V) (p : Path) : Except Err (Cont V) :=
  if (aget p c).isSome then .ok (removeSub p c) else .error .raw

/-- `file[p].attrs[k] = v` -/
def setAttr (c : Cont V) (p : Path) (k : Key) (v : Option V) : Except Err (Cont V) :=
  match aget p c with
  | none => .error .raw
  | some n => .ok (aput p { n with attrs := aput k v n.attrs } c)

/-- `del file[p].attrs[k]` -/
def delAttr (c : Cont V) (p : Path) (k : Key) : Except Err (Cont V) :=
  match aget p c with
  | none => .error .raw
  | some n =>
    match aget k n.attrs with
    | none => .error .raw
    | some _ => .ok (aput p { n with attrs := aerase k n.attrs } c)

/-- `file[p].attrs[SUBST_KEY] = h5py.Empty(None)` -/
def markSubst (c : Cont V) (p : Path) : Except Err (Cont V) :=
  match aget p c with
  | none => .error .raw
  | some n => if n.kind.isGroup then .ok (aput p { n with kind := .sgroup } c) else .error .raw

end Raw

/-! ## write paths -/
namespace W

/-- `create_group`, l. 578–588: drop a deletion marker at `path` in the newest container,
create the group there, mark it as overwriting when this is a patch. -/
def createGroupAt : Rec V → Path → Except Err (Rec V)
  | [], _ => .error .closed
  | top :: older, path => do
    let top1 := if isDelAt top path then removeSub path top else top
    let top2 ← Raw.createGroup top1 path
    let top3 ← if older.isEmpty then pure top2 else Raw.markSubst top2 path
    pure (top3 :: older)

/-- `IH5Group.create_group`. The recursive call for the first missing ancestor runs
`_node_seq` again, finds the same prefix, has `first == path` and does not recurse further;
it is unfolded here. -/
def createGroup (r : Rec V) (path : Path) : Except Err (Rec V) :=
  match look r path with
  | .insideValue => .error .insideValue
  | .found _ _ => .error .exists_
  | .part _ [] => .error .raw
  | .part pre (k :: more) =>
    if more = [] then createGroupAt r path
    else do
      let r1 ← createGroupAt r (pre ++ [k])
      createGroupAt r1 path

/-- `_create_virtual(path)` as called from `create_dataset` (the path is neither visible nor
present in the newest container): overwrite group for the first missing segment, plain
(virtual) groups for the rest. -/
def createVirtual (r : Rec V) (path : Path) : Except Err (Rec V) :=
  match look r path with
  | .insideValue => .error .insideValue
  | .found _ _ => .ok r
  | .part _ [] => .error .raw
  | .part pre (k :: more) => do
    let r1 ← createGroup r (pre ++ [k])
    if more = [] then pure r1
    else match r1 with
      | [] => .error .closed
      | top :: older => do
        let top1 ← Raw.createGroup top path
        pure (top1 :: older)

/-- `IH5Group.create_dataset(path, data=v)` -/
def createDataset : Rec V → Path → V → Except Err (Rec V)
  | [], _, _ => .error .closed
  | top :: older, path, v =>
    match look (top :: older) path with
    | .insideValue => .error .insideValue
    | .found _ _ => .error .exists_
    | .part _ _ => do
      let r1 ← (if isDelAt top path then pure (removeSub path top :: older)
        else if (aget path top).isNone then do
          let r' ← createVirtual (top :: older) path
          match r' with
          | [] => .error .closed
          | t' :: o' => if (aget path t').isNone then .error .raw else pure (removeSub path t' :: o')
        else pure (top :: older))
      match r1 with
      | [] => .error .closed
      | t1 :: o1 => do
        let t2 ← Raw.createNode t1 path ⟨.data v, []⟩
        pure (t2 :: o1)

/-- `IH5Group.__delitem__` -/
def delete : Rec V → Path → Except Err (Rec V)
  | [], _ => .error .closed
  | top :: older, path =>
    if path = [] then .error .root
    else match look (top :: older) path with
      | .found _ _ => do
        let t1 := if (aget path top).isSome then removeSub path top else top
        let t2 ← if older.isEmpty then pure t1 else Raw.createNode t1 path ⟨.del, []⟩
        pure (t2 :: older)
      | _ => .error .missing

/-- body of `IH5AttributeManager.__setitem__` (also used with the deletion marker) -/
def setAttrRaw : Rec V → Path → Key → Option V → Except Err (Rec V)
  | [], _, _, _ => .error .closed
  | top :: older, path, k, v => do
    let t1 ← if (aget path top).isNone then Raw.createGroup top path else pure top
    let t2 ← Raw.setAttr t1 path k v
    pure (t2 :: older)

/-- `rec[path].attrs[k] = v` -/
def setAttr (r : Rec V) (path : Path) (k : Key) (v : V) : Except Err (Rec V) :=
  match look r path with
  | .found _ _ => setAttrRaw r path k (some v)
  | _ => .error .missing

/-- `del rec[path].attrs[k]` -/
def delAttr : Rec V → Path → Key → Except Err (Rec V)
  | [], _, _ => .error .closed
  | top :: older, path, k =>
    match look (top :: older) path with
    | .found c _ =>
      match attrFind path k c (top :: older) with
      | some (i, some _) => do
        let t1 ← if i = older.length then Raw.delAttr top path k else pure top
        if older.isEmpty then pure (t1 :: older) else setAttrRaw (t1 :: older) path k none
      | _ => .error .missing
    | _ => .error .missing

/-- `copy_attrs` -/
def copyAttrs (r : Rec V) (dst : Path) : List (Key × V) → Except Err (Rec V)
  | [] => .ok r
  | (k, v) :: more => do
    let r1 ← setAttrRaw r dst k (some v)
    copyAttrs r1 dst more

/-- the loop over the listed children in `h5_copy_from_to` -/
def replay (src dst : Path) : Rec V → List (Path × NKind V × List (Key × V)) → Except Err (Rec V)
  | r, [] => .ok r
  | r, (q, kd, as) :: more => do
    let tgt := dst ++ q.drop src.length
    let r1 ← (match kd with
      | .group => createGroup r tgt
      | .data v => createDataset r tgt v)
    let r2 ← (match look r1 tgt with
      | .found _ _ => copyAttrs r1 tgt as
      | _ => .error .missing)
    replay src dst r2 more

/-- `IH5Group.copy(src, dst)` with both given as absolute path strings -/
def copy (r : Rec V) (src dst : Path) : Except Err (Rec V) :=
  if src = [] then .error .root
  else match look r src with
    | .found _ n =>
      match look r dst with
      | .insideValue => .error .insideValue
      | .found _ _ => .error .exists_
      | .part _ _ =>
        match plainKind n.kind with
        | none => .error .missing
        | some (.data v) => do
          let as := attrsList r src
          let r1 ← createDataset r dst v
          copyAttrs r1 dst as
        | some .group => do
          let kids := (listing r).filter (fun e => isPre src e.1 && e.1 != src)
          let as := attrsList r src
          let r1 ← createGroup r dst
          let r2 ← copyAttrs r1 dst as
          replay src dst r2 kids
    | _ => .error .missing

/-- `IH5Group.move(src, dst)`, `dst` not inside `src` -/
def move (r : Rec V) (src dst : Path) : Except Err (Rec V) :=
  if isPre src dst then .error .root
  else do
    let r1 ← copy r src dst
    delete r1 src

def step (r : Rec V) : Op V → Except Err (Rec V)
  | .set p v => createDataset r p v
  | .grp p => createGroup r p
  | .del p => delete r p
  | .sattr p k v => setAttr r p k v
  | .dattr p k => delAttr r p k
  | .copy s d => copy r s d
  | .move s d => move r s d
  | .patch => match r with
    | [] => .error .closed
    | _ :: _ => .ok (newPatch r)

/-- run a history; a failing operation leaves the record as it was -/
def run (r : Rec V) : List (Op V) → Rec V × List Bool
  | [] => (r, [])
  | .patch :: ops => run (match step r .patch with | .ok r' => r' | .error _ => r) ops
  | op :: ops =>
    match step r op with
    | .ok r' => let (rf, os) := run r' ops; (rf, true :: os)
    | .error _ => let (rf, os) := run r ops; (rf, false :: os)

end W

/-! ## the pinned child scan (before the repair of F1) -/
namespace Legacy

/-- oldest sighting with index `≥ c` -/
def oldest (q : Path) (c : Nat) : Rec V → Option (Nat × RNode V)
  | [] => none
  | p :: rest =>
    if rest.length < c then none
    else match oldest q c rest with
      | some x => some x
      | none => (aget q p).map (fun n => (rest.length, n))

/-- the `is_virtual[k]` flag is set at the newest sighting and never updated: when that
sighting is virtual every older sighting lowers the bound. -/
def scan (q : Path) (c : Nat) : Rec V → Option (Nat × RNode V)
  | [] => none
  | p :: rest =>
    if rest.length < c then none
    else match aget q p with
      | none => scan q c rest
      | some n =>
        if n.kind.isVirtual then some ((oldest q c rest).getD (rest.length, n))
        else some (rest.length, n)

def child (r : Rec V) (q : Path) (c : Nat) : Option (Nat × RNode V) :=
  match scan q c r with
  | none => none
  | some (i, n) => if n.kind.isDel then none else some (i, n)

def lookFrom (r : Rec V) : Path → Nat → RNode V → Path → Look V
  | _, c, cur, [] => .found c cur
  | pre, c, cur, k :: rest =>
    if cur.kind.isGroup then
      match child r (pre ++ [k]) c with
      | none => .part pre (k :: rest)
      | some (i, n) => lookFrom r (pre ++ [k]) i n rest
    else .insideValue

def viewKind (r : Rec V) (q : Path) : Option (NKind V) :=
  match lookFrom r [] 0 vnode q with
  | .found _ n => plainKind n.kind
  | _ => none

end Legacy

end MetadorModel.Overlay
