/-!
# Syntactic file discovery of IH5 records (properties C03, C02)

Mirrors `metador_core/ih5/record.py`:

* `_ALLOWED_NAME_CHARS = r"A-Za-z0-9\-"`, `_PATCH_INFIX = ".p"`, `_FILE_EXT = ".ih5"` (:168-177)
* `_is_valid_record_name` (:207)  `re.match("^[A-Za-z0-9\-]+$", name)` — including the Python
  trap that `$` also matches *before a trailing newline*
* `find_files` (:407-427): `record.parent.glob(f"{name}*.ih5")` filtered by
  `re.match(f"^{name}[^A-Za-z0-9\-]", p.name)`
* `list_records` (:430-449): `dir.glob("*.ih5")`, `re.match("[A-Za-z0-9\-]+(?=[^A-Za-z0-9\-])", p.name)`
* `_base_filename` (:212), `_infer_name` (:217) `name.split(".ih5")[0].split(".p")[0]`

File names are `List Char` (base names inside one directory). A directory listing is a
`List Name`. `pathlib.Path.glob` with a single `*` inside one path component is
`fnmatch.translate` = `prefix.*suffix\Z` (dot-all, no special treatment of leading dots).

Import-free: only core Lean.
-/
namespace MetadorModel.FindFiles

abbrev Name := List Char

/-- `[A-Za-z0-9\-]` (code point ranges; `re` without flags). -/
def isNameChar (c : Char) : Bool :=
  (65 ≤ c.toNat && c.toNat ≤ 90) || (97 ≤ c.toNat && c.toNat ≤ 122) ||
  (48 ≤ c.toNat && c.toNat ≤ 57) || c.toNat == 45

/-- `".ih5"` -/
def ext : Name := ['.', 'i', 'h', '5']
/-- `".p"` -/
def infix_ : Name := ['.', 'p']
/-- `"mf.json"` (`IH5MFRecord.MANIFEST_EXT`) -/
def mfExt : Name := ['m', 'f', '.', 'j', 's', 'o', 'n']

/-- `s.startswith(p)` -/
def startsWith : List Char → List Char → Bool
  | _, [] => true
  | [], _ :: _ => false
  | c :: s, d :: p => c == d && startsWith s p

/-- `s.endswith(p)` -/
def endsWith (s p : List Char) : Bool := startsWith s.reverse p.reverse

/-- all characters are record-name characters -/
def allNameChars : List Char → Bool
  | [] => true
  | c :: r => isNameChar c && allNameChars r

/-- the record names the property talks about: `[A-Za-z0-9-]+` -/
def strictName (n : Name) : Bool := !n.isEmpty && allNameChars n

/-- `_is_valid_record_name`: `re.match("^[A-Za-z0-9\-]+$", name) is not None`.
`$` matches at the end **or before a trailing `"\n"`** (Python `re` without `MULTILINE`). -/
def isValidName (n : Name) : Bool :=
  strictName n ||
  (match n.reverse with
   | '\n' :: r => strictName r.reverse
   | _ => false)

/-- `fnmatch` of the pattern `<n>*.ih5` on a base name: `n.*\.ih5\Z`. -/
def globMatch (n f : Name) : Bool :=
  startsWith f n && endsWith (f.drop n.length) ext

/-- `re.match("^<n>[^A-Za-z0-9\-]", f)`: `n` literally, then one character outside the class. -/
def regexGuard (n f : Name) : Bool :=
  startsWith f n &&
  (match f.drop n.length with
   | c :: _ => !isNameChar c
   | [] => false)

/-- the filter of `find_files` for a (valid) name -/
def belongs (n f : Name) : Bool := globMatch n f && regexGuard n f

/-- `IH5Record.find_files(dir / n)` on the listing `dir`; `none` = `ValueError` (invalid name).
The result order is the listing order (the real order is that of `os.scandir`; callers sort). -/
def findFiles (dir : List Name) (n : Name) : Option (List Name) :=
  if isValidName n then some (dir.filter (belongs n)) else none

/-- `re.match("[A-Za-z0-9\-]+(?=[^A-Za-z0-9\-])", f)`: the maximal non-empty run of name
characters at the start, provided some character follows it. -/
def namePrefix (f : Name) : Option Name :=
  let run := f.takeWhile isNameChar
  if run.isEmpty then none
  else if run.length < f.length then some run else none

/-- `dir.glob("*.ih5")` -/
def globAny (f : Name) : Bool := endsWith f ext

def dedup : List Name → List Name
  | [] => []
  | x :: r => if r.contains x then dedup r else x :: dedup r

/-- `IH5Record.list_records(dir)` (a set in the code; callers sort). -/
def listRecords (dir : List Name) : List Name :=
  dedup ((dir.filter globAny).filterMap namePrefix)

/-- `_base_filename`: `<n>.ih5` -/
def baseFile (n : Name) : Name := n ++ ext

/-- `s.split(sep)[0]` for a non-empty separator: the part before its first occurrence. -/
def splitFirst (sep : List Char) : List Char → List Char
  | [] => []
  | c :: r => if startsWith (c :: r) sep then [] else c :: splitFirst sep r

/-- `_infer_name`: `name.split(".ih5")[0].split(".p")[0]` -/
def inferName (f : Name) : Name := splitFirst infix_ (splitFirst ext f)

def digitChar (d : Nat) : Char := Char.ofNat (48 + d)

/-- `str(n)` for a non-negative int (decimal, most significant digit first); fuel-recursive. -/
def decimalAux : Nat → Nat → List Char → List Char
  | 0, _, acc => acc
  | fuel + 1, n, acc =>
    if n < 10 then digitChar n :: acc else decimalAux fuel (n / 10) (digitChar (n % 10) :: acc)

def decimal (n : Nat) : List Char := decimalAux (n + 1) n []

/-- canonical patch file name `<n>.p<k>.ih5` (`_next_patch_filepath`) -/
def patchFile (n : Name) (k : Nat) : Name := n ++ infix_ ++ decimal k ++ ext

/-- `IH5MFRecord._manifest_filepath`: `<container file>mf.json` -/
def manifestFile (f : Name) : Name := f ++ mfExt

end MetadorModel.FindFiles
