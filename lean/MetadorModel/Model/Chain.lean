/-!
# Model of the record-opening check (properties C04, C11)

Mirrors `metador_core/ih5/record.py`

* `IH5Record._open` (lines 332–387): empty list refused, user blocks loaded, every file
  opened with h5py, **stable** sort by `patch_index`, base must have no `prev_patch`
  (unless `allow_baseless`), `_check_ublock` on the first container (hash required iff
  there are patches), on every inner container (hash required), on the newest container
  (hash *not* required, but verified when present), finally distinct `patch_uuid`s;
* `IH5Record._check_ublock` (lines 248–288), in its order: record uuid = uuid of the first
  container after sorting, hash present if required, stored hash = hash of the payload
  (string comparison), index strictly greater than the predecessor's, `prev_patch`
  present and equal to the predecessor's `patch_uuid`;

and `metador_core/ih5/manifest.py`

* `IH5MFRecord._check_ublock` (lines 176–191): the assertion that only the first
  container may be marked as stub;
* `IH5MFRecord._open` (lines 146–173): for the newest container, if its user block carries
  the `ih5mf_v01` extension, the sidecar manifest must exist and hash to the stored
  `manifest_hashsum`.

External calls are parameters: `H : P → Digest` is `hashsum_file(path, skip_bytes=1024)`
on the payload, `HM : M → Digest` is `hashsum_file(manifest)`. `h5ok` says whether
`h5py.File(path, "r")` succeeds on the file (line 351).

Import-free: only core Lean.
-/
namespace MetadorModel.Chain

abbrev Uuid := List Char
abbrev Digest := List Char

/-- `IH5UBExtManifest` (the `ih5mf_v01` section of `ub_exts`). -/
structure Ext where
  isStub : Bool
  muuid  : Uuid
  mhash  : Digest
deriving DecidableEq, Repr, Inhabited

/-- `IH5UserBlock` after parsing. -/
structure UB where
  rid  : Uuid            -- record_uuid
  idx  : Nat             -- patch_index (ge=0)
  pid  : Uuid            -- patch_uuid
  prev : Option Uuid     -- prev_patch
  hash : Option Digest   -- hdf5_hashsum
  ext  : Option Ext      -- ub_exts["ih5mf_v01"], when present
deriving DecidableEq, Repr, Inhabited

/-- One container file as `_open` sees it: parsed user block, payload (everything after the
user block), whether h5py can open it, and the sidecar manifest found at the inferred
path `<file>mf.json` (`none` = no such file). -/
structure File (P M : Type) where
  ub      : UB
  payload : P
  h5ok    : Bool := true
  mf      : Option M := none
deriving DecidableEq, Repr

inductive Err
  | empty          -- "Cannot open empty list of containers!"
  | load           -- IH5UserBlock.load failed for some file
  | h5open         -- h5py.File(path, "r") failed
  | basePrev       -- "base container must not have attribute 'prev_patch'!"
  | recordUuid     -- "'record_uuid' inconsistent! Mixed up records?"
  | hashMissing    -- "hdf5_checksum is missing!"
  | hashMismatch   -- "file has been modified, stored and computed checksum are different!"
  | index          -- "patch container must have greater index than predecessor!"
  | prevMissing    -- "patch must have an attribute 'prev_patch'!"
  | prevMismatch   -- "patch for …, but predecessor is …"
  | stubPatch      -- AssertionError in IH5MFRecord._check_ublock
  | dupPid         -- "Some patch_uuid is not unique, invalid file set!"
  | mfMissing      -- "Manifest file … does not exist, cannot open!"
  | mfMismatch     -- "Manifest has been modified, unexpected hashsum!"
deriving DecidableEq, Repr, Inhabited

section
variable {P M : Type}

/-- insertion into a list sorted by `patch_index`, *after* all elements with an index
`≤` the new one (what a stable sort does with the element that came later). -/
def insertByIdx (f : File P M) : List (File P M) → List (File P M)
  | [] => [f]
  | g :: rest => if f.ub.idx < g.ub.idx then f :: g :: rest else g :: insertByIdx f rest

/-- `files.sort(key=lambda f: ublock(f).patch_index)` — Python's sort is stable. -/
def sortByIdx (fs : List (File P M)) : List (File P M) :=
  fs.foldl (fun acc f => insertByIdx f acc) []

variable (H : P → Digest) (HM : M → Digest)

/-- `_check_ublock(filename, ub, prev, check_hashsum)`; `rid0` is `self.ih5_uuid`,
`mfAware` selects the `IH5MFRecord` override. -/
def checkUB (mfAware : Bool) (rid0 : Uuid) (f : File P M) (prev : Option UB) (checkHash : Bool) :
    Except Err Unit := do
  if f.ub.rid ≠ rid0 then throw .recordUuid
  if checkHash && f.ub.hash.isNone then throw .hashMissing
  match f.ub.hash with
  | some h => if h ≠ H f.payload then throw .hashMismatch
  | none => pure ()
  match prev with
  | some p =>
    if f.ub.idx ≤ p.idx then throw .index
    match f.ub.prev with
    | none => throw .prevMissing
    | some q => if q ≠ p.pid then throw .prevMismatch
  | none => pure ()
  -- IH5MFRecord._check_ublock: assert prev is None or ubext is None or not ubext.is_stub_container
  if mfAware then
    match prev, f.ub.ext with
    | some _, some e => if e.isStub then throw .stubPatch
    | _, _ => pure ()

/-- the loop `for i in range(1, len-1)` (hash required) followed by the check of the newest
container (hash not required). `p` is the predecessor of the first element of the list. -/
def checkRest (mfAware : Bool) (rid0 : Uuid) : File P M → List (File P M) → Except Err Unit
  | _, [] => pure ()
  | p, [l] => checkUB H mfAware rid0 l (some p.ub) false
  | p, f :: g :: rest => do
    checkUB H mfAware rid0 f (some p.ub) true
    checkRest mfAware rid0 f (g :: rest)

/-- `len({patch_uuid …}) != len(files)` -/
def pidsDistinct : List (File P M) → Bool
  | [] => true
  | f :: rest => !(rest.any (fun g => g.ub.pid == f.ub.pid)) && pidsDistinct rest

/-- manifest part of `IH5MFRecord._open`, applied to the newest container. -/
def checkManifest (l : File P M) : Except Err Unit :=
  match l.ub.ext with
  | none => pure ()
  | some e =>
    match l.mf with
    | none => throw .mfMissing
    | some m => if e.mhash ≠ HM m then throw .mfMismatch else pure ()

/-- the newest container of a non-empty sorted list -/
def lastOf (b : File P M) : List (File P M) → File P M
  | [] => b
  | f :: rest => lastOf f rest

/-- the checks of `_open` on the sorted list `b :: rest`, in the order of the code -/
def checkSorted (mfAware allowBaseless : Bool) (b : File P M) (rest : List (File P M)) :
    Except Err Unit :=
  if !allowBaseless && b.ub.prev.isSome then .error .basePrev
  else do
    checkUB H mfAware b.ub.rid b none (!rest.isEmpty)
    checkRest H mfAware b.ub.rid b rest
    if !pidsDistinct (b :: rest) then .error .dupPid
    else if mfAware then checkManifest HM (lastOf b rest)
    else pure ()

/-- `IH5Record._open` / `IH5MFRecord._open` after the user blocks have been loaded.
Returns the files in patch order. -/
def validate (mfAware allowBaseless : Bool) (fs : List (File P M)) :
    Except Err (List (File P M)) :=
  if fs.isEmpty then .error .empty
  else if fs.any (fun f => !f.h5ok) then .error .h5open
  else match sortByIdx fs with
    | [] => .error .empty
    | b :: rest => (checkSorted H HM mfAware allowBaseless b rest).map (fun _ => b :: rest)

/-- files whose user block could not be loaded are `none` (`IH5UserBlock.load` raised);
`_open` loads all user blocks before anything else. -/
def openFiles (mfAware allowBaseless : Bool) (fs : List (Option (File P M))) :
    Except Err (List (File P M)) :=
  if fs.isEmpty then throw .empty
  else match fs.mapM id with
    | none => throw .load
    | some l => validate H HM mfAware allowBaseless l

/-! ## The specification: a coherent file set

"one base plus a gap-free chain of patches of the same record whose committed payloads are
byte-for-byte what was committed" — stated on the list in patch order. -/

/-- `b` directly continues `a`: it names `a`'s state as its predecessor (and has a larger index). -/
def Linked (a b : File P M) : Prop := a.ub.idx < b.ub.idx ∧ b.ub.prev = some a.ub.pid

/-- every element continues the one before it (no gap, no fork) -/
def ChainFrom : File P M → List (File P M) → Prop
  | _, [] => True
  | p, f :: r => Linked p f ∧ ChainFrom f r

/-- the stored hash is the hash of the payload as it is now -/
def HashOK (f : File P M) : Prop := f.ub.hash = some (H f.payload)

def Coherent (mfAware allowBaseless : Bool) : List (File P M) → Prop
  | [] => False
  | b :: rest =>
    (∀ f ∈ b :: rest, f.h5ok = true) ∧                      -- every file is an HDF5 file
    (allowBaseless = false → b.ub.prev = none) ∧            -- one base
    (∀ f ∈ rest, f.ub.rid = b.ub.rid) ∧                     -- same record
    ChainFrom b rest ∧                                      -- gap-free chain linked by patch uuids
    (∀ f ∈ (b :: rest).dropLast, HashOK H f) ∧              -- all but the newest: committed and untampered
    ((lastOf b rest).ub.hash = none ∨ HashOK H (lastOf b rest)) ∧  -- newest: uncommitted, or untampered
    ((b :: rest).map (fun f => f.ub.pid)).Nodup ∧           -- distinct patch uuids
    (mfAware = true →
      (∀ f ∈ rest, ∀ e, f.ub.ext = some e → e.isStub = false) ∧   -- only the base may be a stub
      (∀ e, (lastOf b rest).ub.ext = some e →                     -- manifest matches its container
        ∃ m, (lastOf b rest).mf = some m ∧ e.mhash = HM m))

end

end MetadorModel.Chain
