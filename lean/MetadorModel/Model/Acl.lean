/-!
# Model of the node restrictions (soft ACL) of the container wrappers (property C15)

Mirrors `metador_core/container/wrappers.py`:
`MetadorNode.__init__/_child_node_kwargs/restrict/acl/_guard_path/_guard_acl/_wrap_if_node`
(l. 119–195), `attrs`, `parent`, `file` (l. 235–263), `WrappedAttributeManager` (l. 19–80),
`MetadorDataset.__getitem__/__setitem__` (l. 283–291), `_wrap_method` (l. 297–314), the
hand-written `MetadorGroup` methods (`items … visititems`, `__delitem__`, `move`, `copy`), and
`metador_core/container/interface.py`: the `_guard_acl` calls of `MetadorMeta`
(`values/items/get/__setitem__/__delitem__`) and `MetadorContainerTOC.query`.

A wrapper object is `(path, flags, lps)`: the node it wraps, its ACL flags and the chain of
remembered local parents (`_self_local_parent`, nearest first; each with the flags that wrapper
object had). Everything is generic over a *guard table* `AclTable` (which methods wrap their
results with the inherited flags, which flag each operation checks before touching
`__wrapped__`, how `restrict` combines flags, what `parent` returns under `local_only`, the
attribute-manager whitelist). The table of the current source is extracted on every run
(`Gen.aclTable`); the theorems hold for every table that satisfies `TableOk`.
Import-free: only core Lean.
-/
namespace MetadorModel.Acl

inductive Flag where
  | ro | loc | skel
deriving DecidableEq, Repr

structure Flags where
  ro : Bool := false
  loc : Bool := false
  skel : Bool := false
deriving DecidableEq, Repr

def Flags.has (f : Flags) : Flag → Bool
  | .ro => f.ro
  | .loc => f.loc
  | .skel => f.skel

def Flags.le (a b : Flags) : Bool :=
  (!a.ro || b.ro) && (!a.loc || b.loc) && (!a.skel || b.skel)

def Flags.union (a b : Flags) : Flags := ⟨a.ro || b.ro, a.loc || b.loc, a.skel || b.skel⟩

def Flags.empty : Flags := {}

abbrev Path := List String

structure Wrapper where
  path : Path
  flags : Flags
  lps : List (Path × Flags)
deriving DecidableEq, Repr

/-- the (fixed) user tree: paths with `true` = group; the root `[]` is a group -/
abbrev Tree := List (Path × Bool)

def Tree.kind (T : Tree) (p : Path) : Option Bool :=
  if p = [] then some true else (T.find? fun e => e.1 == p).map (·.2)

inductive NavErr where
  | unsupported   -- UnsupportedOperationError (ACL)
  | value         -- ValueError (absolute path under local_only)
  | other         -- KeyError / None / TypeError: nothing there
deriving DecidableEq, Repr

/-- navigation primitives that produce a node below (or at) the current one -/
inductive Prim where
  | getitem | get | items | values | keys | iter | visititems | query | requireGroup | requireDataset
deriving DecidableEq, Repr

def Prim.name : Prim → String
  | .getitem => "__getitem__" | .get => "get" | .items => "items" | .values => "values"
  | .keys => "keys" | .iter => "__iter__" | .visititems => "visititems" | .query => "query"
  | .requireGroup => "require_group" | .requireDataset => "require_dataset"

def allPrims : List Prim :=
  [.getitem, .get, .items, .values, .keys, .iter, .visititems, .query, .requireGroup, .requireDataset]

inductive Step where
  | child (p : Prim) (rel : Path)
  | abs (p : Prim) (path : Path)
  | parent
  | restrict (f : Flags)
deriving DecidableEq, Repr

/-- what `parent` returns for a `local_only` node that remembers its local parent -/
inductive ParentMode where
  | lpAsIs    -- the remembered parent object itself, with the flags it has
  | lpUnion   -- a wrapper of the remembered parent carrying its flags ∪ this node's flags
deriving DecidableEq, Repr

/-- the guard table -/
structure AclTable where
  /-- navigation primitive (by method name) ↦ result goes through `_wrap_if_node` /
  `MetadorGroup(…, **self._child_node_kwargs())` -/
  wraps : List (String × Bool)
  /-- `_child_node_kwargs` passes on every set flag and remembers `self` iff `local_only` -/
  childKwargsInheritAll : Bool
  /-- `restrict` only ever sets flags (`update({k: True …})`) -/
  restrictOrs : Bool
  parentMode : ParentMode
  /-- `_guard_path` refuses absolute paths under `local_only` -/
  absGuardLocal : Bool
  /-- operation (by name) ↦ flags checked with `_guard_acl` (or the attribute manager's own
  checks) before `__wrapped__` is touched -/
  opGuards : List (String × List Flag)
  /-- flags for which `attrs` is wrapped in `WrappedAttributeManager` -/
  attrsWrappedFor : List Flag
  /-- `_self_acl_whitelist` -/
  attrWhitelist : List (Flag × List String)
  /-- a property of the wrapper (`parent`, `file`) that raises `UnsupportedOperationError` — an
  `AttributeError` — makes Python fall back to `__getattr__`; `MetadorDataset.__getattr__`
  refuses names of wrapper attributes instead of forwarding them to the raw dataset -/
  propertyFallbackRefused : Bool
deriving Repr

def AclTable.wrapsPrim (t : AclTable) (n : String) : Bool :=
  match t.wraps.find? (·.1 == n) with
  | some e => e.2
  | none => false

def AclTable.guardsOf (t : AclTable) (op : String) : List Flag :=
  match t.opGuards.find? (·.1 == op) with
  | some e => e.2
  | none => []

/-- does the ACL refuse `op` on a wrapper with these flags? -/
def AclTable.refuses (t : AclTable) (op : String) (f : Flags) : Bool :=
  (t.guardsOf op).any f.has

/-- … on a group (`isGroup`) or dataset wrapper: the refusal raised inside the properties
`parent` / `file` of a dataset wrapper only stands if `__getattr__` does not forward the name -/
def AclTable.refusesOn (t : AclTable) (isGroup : Bool) (op : String) (f : Flags) : Bool :=
  t.refuses op f && (isGroup || t.propertyFallbackRefused || !(op == "parent" || op == "file"))

/-- flags and remembered parents of a wrapper created from `w` for the node `target`
(`_wrap_if_node` / `_child_node_kwargs`) -/
def childWrapper (t : AclTable) (viaWrap : Bool) (w : Wrapper) (target : Path) : Wrapper :=
  if viaWrap && t.childKwargsInheritAll then
    ⟨target, w.flags, if w.flags.loc then (w.path, w.flags) :: w.lps else []⟩
  else ⟨target, Flags.empty, []⟩

def singleSeg (rel : Path) : Bool := rel.length == 1

/-- one navigation step -/
def step (t : AclTable) (T : Tree) (w : Wrapper) : Step → Except NavErr Wrapper
  | .child p rel =>
    if rel == [] then (if p == .query then .ok w else .error .other)
    else if T.kind w.path != some true then .error .other
    else if (p == .requireGroup || p == .requireDataset) && t.refuses p.name w.flags then
      .error .unsupported
    else if (p == .items || p == .values || p == .keys || p == .iter) && !singleSeg rel then
      .error .other
    else
      match T.kind (w.path ++ rel) with
      | none => .error .other
      | some isG =>
        if p == .requireGroup && !isG then .error .other
        else if p == .requireDataset && isG then .error .other
        else .ok (childWrapper t (t.wrapsPrim p.name) w (w.path ++ rel))
  | .abs p path =>
    if T.kind w.path != some true then .error .other
    else if !(p == .getitem || p == .get) then .error .other
    else if t.absGuardLocal && w.flags.loc then .error .value
    else
      match T.kind path with
      | none => .error .other
      | some _ => .ok (childWrapper t (t.wrapsPrim p.name) w path)
  | .parent =>
    if w.flags.loc then
      match w.lps with
      | (p, f) :: rest =>
        .ok ⟨p, (match t.parentMode with | .lpAsIs => f | .lpUnion => f.union w.flags), rest⟩
      | [] =>
        if t.refusesOn (T.kind w.path != some false) "parent" w.flags then .error .unsupported
        else if t.refuses "parent" w.flags then
          -- dataset wrapper, fallback to `__getattr__`: the raw parent group, no restrictions
          .ok ⟨w.path.dropLast, Flags.empty, []⟩
        else .ok (childWrapper t (t.wrapsPrim "parent") w w.path.dropLast)
    else .ok (childWrapper t (t.wrapsPrim "parent") w w.path.dropLast)
  | .restrict f =>
    .ok ⟨w.path, if t.restrictOrs then w.flags.union f else f, if f.loc then [] else w.lps⟩

/-- the error of an outcome, if any (for stating concrete examples) -/
def errOf {α : Type} : Except NavErr α → Option NavErr
  | .error e => some e
  | .ok _ => none

/-- a navigation chain -/
def nav (t : AclTable) (T : Tree) : List Step → Wrapper → Except NavErr Wrapper
  | [], w => .ok w
  | s :: ss, w =>
    match step t T w s with
    | .error e => .error e
    | .ok w' => nav t T ss w'

/-! ## Operations -/

/-- mutating operations of the group / dataset / attribute / metadata protocol -/
def mutatingOps : List String :=
  ["__setitem__", "__delitem__", "create_group", "require_group", "create_dataset", "require_dataset",
   "move", "copy", "dataset.__setitem__", "attrs.__setitem__", "attrs.__delitem__",
   "meta.__setitem__", "meta.__delitem__"]

/-- operations that yield dataset contents, attribute values or metadata objects -/
def readingOps : List String :=
  ["dataset.__getitem__", "attrs.__getitem__", "meta.get", "meta.__getitem__", "meta.values", "meta.items"]

/-- operations that leave the node upwards (besides absolute paths, handled by `_guard_path`) -/
def upwardOps : List String := ["parent", "file"]

/-- methods of the attribute manager reached through `WrappedAttributeManager.__getattr__` -/
def attrValueMethods : List String := ["get", "values", "items", "pop", "popitem", "setdefault"]
def attrMutMethods : List String := ["pop", "popitem", "clear", "update", "setdefault", "create", "modify"]

def AclTable.attrsWrapped (t : AclTable) (f : Flags) : Bool := t.attrsWrappedFor.any f.has

/-- `WrappedAttributeManager.__init__`: intersection of the whitelists of the set flags
(`None` when no set flag has a whitelist); `allowed or set()` -/
def AclTable.attrAllowed (t : AclTable) (f : Flags) : List String :=
  let ws := (t.attrWhitelist.filter fun e => f.has e.1).map (·.2)
  match ws with
  | [] => []
  | a :: rest => rest.foldl (fun acc l => acc.filter l.contains) a

/-- `WrappedAttributeManager.__getattr__(m)` raises (for a method `m` the raw manager has) -/
def AclTable.attrMethodRefused (t : AclTable) (f : Flags) (m : String) : Bool :=
  t.attrsWrapped f && !(t.attrAllowed f).isEmpty && !(t.attrAllowed f).contains m

/-- outcome of an operation on a wrapper: refused by the ACL (nothing touched), or whatever the
raw operation does to the raw state -/
def runOp {σ α : Type} (t : AclTable) (isGroup : Bool) (w : Wrapper) (op : String)
    (raw : σ → Except NavErr (σ × α)) (s : σ) : Except NavErr (σ × α) :=
  if t.refusesOn isGroup op w.flags then .error .unsupported else raw s

def runAttrMethod {σ α : Type} (t : AclTable) (w : Wrapper) (m : String)
    (raw : σ → Except NavErr (σ × α)) (s : σ) : Except NavErr (σ × α) :=
  if t.attrMethodRefused w.flags m then .error .unsupported else raw s

def stateAfter {σ α : Type} (s : σ) : Except NavErr (σ × α) → σ
  | .ok r => r.1
  | .error _ => s

/-! ## Well-formed tables -/

def subset (a b : List String) : Bool := a.all b.contains

/-- the conditions of a well-formed table, one per entry -/
def tableConds (t : AclTable) : List Bool := [
  allPrims.all fun p => t.wrapsPrim p.name,
  t.wrapsPrim "parent",
  t.childKwargsInheritAll,
  t.restrictOrs,
  t.parentMode == .lpUnion,
  t.absGuardLocal,
  t.propertyFallbackRefused,
  mutatingOps.all fun op => (t.guardsOf op).contains .ro,
  readingOps.all fun op => (t.guardsOf op).contains .skel,
  upwardOps.all fun op => (t.guardsOf op).contains .loc,
  -- attribute manager: wrapped for ro and skel; whitelists never empty out (the
  -- `allowed or set()` trap would switch all checks off); skel admits no value-yielding
  -- method, ro admits no mutating method
  t.attrsWrappedFor.contains .ro,
  t.attrsWrappedFor.contains .skel,
  t.attrWhitelist.all fun e => e.1 == .ro || e.1 == .skel,
  !(t.attrAllowed ⟨true, false, false⟩).isEmpty,
  !(t.attrAllowed ⟨false, false, true⟩).isEmpty,
  !(t.attrAllowed ⟨true, false, true⟩).isEmpty,
  attrMutMethods.all fun m => !(t.attrAllowed ⟨true, false, false⟩).contains m,
  attrMutMethods.all fun m => !(t.attrAllowed ⟨true, false, true⟩).contains m,
  attrValueMethods.all fun m => !(t.attrAllowed ⟨false, false, true⟩).contains m,
  attrValueMethods.all fun m => !(t.attrAllowed ⟨true, false, true⟩).contains m]

def TableOk (t : AclTable) : Bool := (tableConds t).all id

/-- the table of the current source, written by hand (used by the driver; the extracted
`Gen.aclTable` is checked against `TableOk` on every run) -/
def currentTable : AclTable where
  wraps := [("__getitem__", true), ("get", true), ("items", true), ("values", true), ("keys", true),
    ("__iter__", true), ("visititems", true), ("query", true), ("require_group", true),
    ("require_dataset", true), ("create_group", true), ("create_dataset", true), ("parent", true)]
  childKwargsInheritAll := true
  restrictOrs := true
  parentMode := .lpUnion
  absGuardLocal := true
  opGuards := [
    ("__setitem__", [.ro]), ("__delitem__", [.ro]), ("create_group", [.ro]), ("require_group", [.ro]),
    ("create_dataset", [.ro]), ("require_dataset", [.ro]), ("move", [.ro]), ("copy", [.ro]),
    ("dataset.__setitem__", [.ro]), ("dataset.__getitem__", [.skel]),
    ("attrs.__setitem__", [.ro]), ("attrs.__delitem__", [.ro]), ("attrs.__getitem__", [.skel]),
    ("meta.__setitem__", [.ro]), ("meta.__delitem__", [.ro]),
    ("meta.get", [.skel]), ("meta.__getitem__", [.skel]), ("meta.values", [.skel]), ("meta.items", [.skel]),
    ("parent", [.loc]), ("file", [.loc])]
  attrsWrappedFor := [.ro, .skel]
  attrWhitelist := [(.skel, ["keys"]), (.ro, ["keys", "values", "items", "get"])]
  propertyFallbackRefused := true

namespace Legacy
/-- `parent` before the repair: the remembered local parent object is returned as it is -/
def table : AclTable := { currentTable with parentMode := .lpAsIs }
/-- `MetadorDataset.__getattr__` before the repair: forwards every name to the raw dataset -/
def tableFallback : AclTable := { currentTable with propertyFallbackRefused := false }
end Legacy

end MetadorModel.Acl
