import MetadorModel.Model.Codec
/-!
# Model of the override check of schema classes (property C13)

* `isSubtype T a b` mirrors `metador_core/util/typing.py:207-234` (`is_subtype`: the
  Annotated / Literal pre-checks, the refusal of Literals nested below a non-literal type
  (`_has_literal`, since `fix: is_subtype refuses literals nested below a non-literal type`), then `runtype.validation.is_subtype`, i.e. `canon a <= canon b`
  on runtype 0.3.5's canonical types: `PythonDataType` (nominal `issubclass`), `OneOf`
  (literal value sets with Python `==`, validated against the other type when that is not a
  `OneOf`), `SumType` (with the merge of all `OneOf` members that `pytypes.SumType.__init__`
  performs, `None` being `OneOf([None])`), `SequenceType` generics for `List`/`Set`), with the
  Python comparison protocol (`__le__`, reflected `__ge__`) resolved per pair of classes.
* `Table` / `ClassDef`: schema classes as declared (own annotations, parent, `Config.extra`,
  decorators `add_const_fields`, `override`, `make_mandatory`), `build` = the rules of
  `SchemaMagic.__new__` (`schema/core.py:118-174`) and of the decorators
  (`schema/decorators.py`) that refuse a class definition.
* `checkTypes` mirrors `schema/core.py:368-395` (`check_types`: bases first, then the schemas
  nested in fields, then `check_allowed_types` (`partial.py:60-116`) and `check_overrides`
  (`core.py:452-492`, `detect_field_overrides` `:445-449`); `loadPlugin` adds what the top-level
  call does since `fix: check_types forgets all marks set during a refused walk`: every mark set
  during a call that raises is cleared again.
* `constOk` mirrors `add_const_fields` (`schema/decorators.py:73-111`), since `fix: add_const_fields
  does not treat collection-valued fields as enum/literal specialisation` with the test
  `field_def.shape == SHAPE_SINGLETON` (`singletonTy`).

Inside a `ClassDef` a nested schema is referred to by name only: `Ty.model name .allow [] []`.
Import-free apart from `Model.Codec`.
-/
namespace MetadorModel.Subtype
open MetadorModel.Codec

/-! ## canonical types of runtype -/

/-- kernels of `PythonDataType` -/
inductive Atom
  | bool | int | float | str
  | cstr (k : CStr)
  | opq (k : Opq)
  | cls (name : Str)
deriving DecidableEq, Repr, Inhabited

/-- values of `OneOf` (`None` for `NoneType`) -/
abbrev LitN := Option Lit

inductive Cont
  | list | set
deriving DecidableEq, Repr, Inhabited

inductive CT
  | data (k : Atom)
  | oneOf (vs : List LitN)
  | sum (ts : List CT)
  | gen (c : Cont) (item : CT)
deriving Repr, Inhabited

def CT.flat : CT → List CT
  | .sum ts => ts
  | c => [c]

def CT.oneOfVals : CT → Option (List LitN)
  | .oneOf vs => some vs
  | _ => none

/-- `pytypes.SumType.__init__`: more than one `OneOf` member → one merged `OneOf` at the end -/
def mkSum (ts : List CT) : CT :=
  let ones := ts.filterMap CT.oneOfVals
  if ones.length > 1 then
    .sum (ts.filter (fun t => t.oneOfVals.isNone) ++ [.oneOf ones.flatten])
  else .sum ts

mutual
/-- `type_caster.to_canon` after `typing` flattened nested unions -/
def canon : Ty → CT
  | .bool => .data .bool
  | .int => .data .int
  | .float => .data .float
  | .str => .data .str
  | .cstr k => .data (.cstr k)
  | .opq k => .data (.opq k)
  | .lit vs => .oneOf (vs.map some)
  | .opt t => mkSum ((canon t).flat ++ [.oneOf [none]])
  | .union ts => mkSum (canonAlts ts)
  | .list t => .gen .list (canon t)
  | .set t => .gen .set (canon t)
  | .ann t => canon t
  | .model name _ _ _ => .data (.cls name)
def canonAlts : List Ty → List CT
  | [] => []
  | t :: ts => (canon t).flat ++ canonAlts ts
end

/-! ## class table -/

structure ClassDef where
  name : Str
  parent : Option Str := none
  extra : Option Extra := none
  /-- own annotations in source order, with default values -/
  fields : List (Str × Ty × Option Json) := []
  /-- `@add_const_fields` -/
  consts : List (Str × Json) := []
  /-- `@override` -/
  overrides : List Str := []
  /-- `@make_mandatory` -/
  mandatory : List Str := []
  /-- `add_const_fields(..., override=True)` -/
  constOverride : Bool := false
deriving Inhabited

abbrev Table := List ClassDef

def find (T : Table) (n : Str) : Option ClassDef := List.find? (fun c => c.name == n) T

/-- proper ancestors, nearest first (single inheritance; fuel = table size) -/
def ancestorsF (T : Table) : Nat → Str → List Str
  | 0, _ => []
  | fuel + 1, n =>
    match find T n with
    | some c =>
      match c.parent with
      | some p => p :: ancestorsF T fuel p
      | none => []
    | none => []

def ancestors (T : Table) (n : Str) : List Str := ancestorsF T T.length n

/-- `issubclass` on kernels: only the phantom string chain and schema classes are related -/
def cstrSub : CStr → CStr → Bool
  | a, b => a == b || (match a, b with
    | .mime, .nes => true
    | .hash, .nes => true
    | .qhash, .hash => true
    | .qhash, .nes => true
    | _, _ => false)

def atomSub (T : Table) : Atom → Atom → Bool
  | .cstr a, .cstr b => cstrSub a b
  | .cls a, .cls b => a == b || (ancestors T a).contains b
  | a, b => a == b

/-! ## `<=` on canonical types -/

/-- Python `==` between members of `OneOf` (`True == 1`) -/
def litNEq : LitN → LitN → Bool
  | none, none => true
  | some (.str s), some (.str s') => s == s'
  | some (.int i), some (.int i') => i == i'
  | some (.bool b), some (.bool b') => b == b'
  | some (.int i), some (.bool b) => i == boolInt b
  | some (.bool b), some (.int i) => i == boolInt b
  | _, _ => false

/-- `isinstance(value, kernel)` for a literal value: only phantom types have instances among
plain strings; no value is an instance of the strict pydantic classes -/
def isaAtom : LitN → Atom → Bool
  | some (.str s), .cstr k => recog k s
  | _, _ => false

mutual
/-- `t.validate_instance(v)` succeeds -/
def isa (v : LitN) : CT → Bool
  | .data k => isaAtom v k
  | .oneOf ws => ws.any (fun w => litNEq v w)
  | .sum ts => isaAny v ts
  | .gen _ _ => false
def isaAny (v : LitN) : List CT → Bool
  | [] => false
  | t :: ts => isa v t || isaAny v ts
end

mutual
/-- `PythonDataType(k) <= b` -/
def dataLe (T : Table) (k : Atom) : CT → Bool
  | .data k' => atomSub T k k'
  | .sum bs => dataLeAny T k bs
  | .oneOf _ => false
  | .gen _ _ => false
def dataLeAny (T : Table) (k : Atom) : List CT → Bool
  | [] => false
  | b :: bs => dataLe T k b || dataLeAny T k bs
end

mutual
/-- `GenericType(c, item) <= b`, `f` = "item `<=`" -/
def genLe (c : Cont) (f : CT → Bool) : CT → Bool
  | .gen c' i' => c == c' && f i'
  | .sum bs => genLeAny c f bs
  | .data _ => false
  | .oneOf _ => false
def genLeAny (c : Cont) (f : CT → Bool) : List CT → Bool
  | [] => false
  | b :: bs => genLe c f b || genLeAny c f bs
end

mutual
/-- `a <= b` -/
def le (T : Table) : CT → CT → Bool
  | .sum as, b => leAll T as b
  | .data k, b => dataLe T k b
  | .oneOf vs, b =>
    match b with
    | .oneOf ws => vs.all (fun v => ws.any (fun w => litNEq v w))
    | b => vs.all (fun v => isa v b)
  | .gen c i, b => genLe c (le T i) b
def leAll (T : Table) : List CT → CT → Bool
  | [], _ => true
  | a :: as, b => le T a b && leAll T as b
end

def isAnn : Ty → Bool
  | .ann _ => true
  | _ => false

def isLit : Ty → Bool
  | .lit _ => true
  | _ => false

mutual
/-- `_has_literal` (`util/typing.py:207`): a `Literal` anywhere in the hint (`traverse_typehint`
follows `get_args`, i.e. also through `Annotated`; a schema class has no arguments) -/
def hasLit : Ty → Bool
  | .lit _ => true
  | .opt t => hasLit t
  | .list t => hasLit t
  | .set t => hasLit t
  | .ann t => hasLit t
  | .union ts => hasLitAny ts
  | _ => false
def hasLitAny : List Ty → Bool
  | [] => false
  | t :: ts => hasLit t || hasLitAny ts
end

/-- `metador_core.util.typing.is_subtype` (`util/typing.py:211-234`): equal Annotated / Literal
status of the outermost types; a Literal nested below a non-literal type is refused unless the
base type has a Literal somewhere as well; then runtype's `<=` -/
def isSubtype (T : Table) : Ty → Ty → Bool
  | .ann a, .ann b => isSubtype T a b
  | a, b =>
    if isAnn a != isAnn b || isLit a != isLit b then false
    else if !isLit a && hasLit a && !hasLit b then false
    else le T (canon a) (canon b)

/-! ## class construction -/

inductive Refusal
  | typeError
  | valueError
deriving DecidableEq, Repr, Inhabited

def effExtra (T : Table) (c : ClassDef) : Extra :=
  match c.extra with
  | some e => e
  | none =>
    match ((ancestors T c.name).filterMap (fun a => (find T a).bind (·.extra))).head? with
    | some e => e
    | none => .allow

def unopt : Ty → Ty
  | .opt t => t
  | .ann t => .ann (unopt t)
  | t => t

/-- `d[k] = v` on an association list keeping the position of an existing key -/
def setHint (k : Str) (v : Ty) : List (Str × Ty) → List (Str × Ty)
  | [] => [(k, v)]
  | (k', v') :: r => if k == k' then (k', v) :: r else (k', v') :: setHint k v r

def getHint (k : Str) : List (Str × Ty) → Option Ty
  | [] => none
  | (k', v) :: r => if k == k' then some v else getHint k r

/-- own annotations of a class: declared fields plus what `make_mandatory` writes -/
def ownHints (base : List (Str × Ty)) (c : ClassDef) : List (Str × Ty) :=
  c.fields.map (fun f => (f.1, f.2.1)) ++
    c.mandatory.filterMap (fun n => (getHint n base).map (fun t => (n, unopt t)))

/-- `get_type_hints(cls)` for the non-constant fields: base classes first, later ones
overwrite in place (fuel = table size) -/
def typeHintsF (T : Table) : Nat → Str → List (Str × Ty)
  | 0, _ => []
  | fuel + 1, n =>
    match find T n with
    | none => []
    | some c =>
      let base := match c.parent with
        | some p => typeHintsF T fuel p
        | none => []
      -- a field that `add_const_fields` turned into a constant is annotated `Any` from here on
      ((ownHints base c).foldl (fun acc (p : Str × Ty) => setHint p.1 p.2 acc) base).filter
        (fun p => !hasKey p.1 c.consts)

def typeHints (T : Table) (n : Str) : List (Str × Ty) := typeHintsF T (T.length + 1) n

def baseHints (T : Table) (c : ClassDef) : List (Str × Ty) :=
  match c.parent with
  | some p => typeHints T p
  | none => []

/-- all constants of a class (inherited, then own) -/
def allConstsF (T : Table) : Nat → Str → List (Str × Json)
  | 0, _ => []
  | fuel + 1, n =>
    match find T n with
    | none => []
    | some c =>
      let base := match c.parent with
        | some p => allConstsF T fuel p
        | none => []
      c.consts.foldl (fun acc (p : Str × Json) => setKey p.1 p.2 acc) base

def allConsts (T : Table) (n : Str) : List (Str × Json) := allConstsF T (T.length + 1) n

def baseConsts (T : Table) (c : ClassDef) : List (Str × Json) :=
  match c.parent with
  | some p => allConsts T p
  | none => []

/-- pydantic's `ModelField.type_` for a field with `shape == SHAPE_SINGLETON` (`Optional` and
`Annotated` are transparent for both); `none` for a collection-valued field (`List[..]`, `Set[..]`,
also below `Optional` / `Annotated`: `SHAPE_LIST` / `SHAPE_SET`, `type_` is the *item* type there) -/
def singletonTy : Ty → Option Ty
  | .opt t => singletonTy t
  | .ann t => singletonTy t
  | .list _ => none
  | .set _ => none
  | t => some t

def jsonLit? : Json → Option Lit
  | .str s => some (.str s)
  | .int i => some (.int i)
  | .bool b => some (.bool b)
  | _ => none

/-- one constant of `add_const_fields(consts, override=c.constOverride)` on a class whose
(non-constant) hints are `hints`, whose inherited constants are `bconsts`
(`decorators.py:73-111`) -/
def constOk (T : Table) (c : ClassDef) (hints : List (Str × Ty)) (bconsts : List (Str × Json))
    (parentForbids : Bool) (kv : Str × Json) : Except Refusal Unit :=
  let k := kv.1
  match getHint k hints with
  | some t =>
    -- turning a field into a constant: silently allowed for a member of the Literal of a *plain*
    -- (singleton) field - checked also when override=True -, anything else needs override=True
    match singletonTy t with
    | some (.lit vs) =>
      match jsonLit? kv.2 with
      | some l => if le T (.oneOf [some l]) (.oneOf (vs.map some)) then .ok () else .error .typeError
      | none => .error .typeError
    | _ => if c.constOverride then .ok () else .error .valueError
  | none =>
    if hasKey k bconsts then
      -- an inherited constant is a field (`Optional[Any]`) too: replacing it needs override=True
      if c.constOverride then .ok () else .error .valueError
    else if parentForbids then .error .typeError  -- new field below a parent that forbids extras
    else .ok ()

def firstErr : List (Except Refusal Unit) → Except Refusal Unit
  | [] => .ok ()
  | .ok () :: r => firstErr r
  | .error e :: _ => .error e

/-- Is the definition of class `c` accepted (metaclass, then decorators in the order
`make_mandatory`, `override`, `add_const_fields`)? -/
def defineOk (T : Table) (c : ClassDef) : Except Refusal Unit :=
  let bhints := baseHints T c
  let bconsts := baseConsts T c
  let own := c.fields.map (fun f => f.1)
  let parentExtra : Extra := match c.parent.bind (find T) with
    | some p => effExtra T p
    | none => .allow
  let parentForbids := parentExtra == .forbid
  -- a field named like an inherited constant
  if own.any (fun n => hasKey n bconsts) then .error .typeError
  -- extra policy cannot be loosened, no new fields below a forbidding parent
  else if parentForbids && effExtra T c != .forbid then .error .typeError
  else if parentForbids && own.any (fun n => (getHint n bhints).isNone) then .error .typeError
  -- make_mandatory: the field must exist in a base (`name in mcls.__fields__`: an inherited constant is a
  -- field too and `field_parent_type` finds the `Any` that `add_const_fields` wrote) and must not be annotated here
  else if c.mandatory.any (fun n => ((getHint n bhints).isNone && !hasKey n bconsts) || own.contains n) then .error .valueError
  else
    -- the fields as the decorator sees them (before any of them becomes a constant)
    let hints := (ownHints bhints c).foldl (fun acc (p : Str × Ty) => setHint p.1 p.2 acc) bhints
    firstErr (c.consts.map (constOk T c hints bconsts parentForbids))

/-- all classes of the table can be defined, in order -/
def build (T : Table) : Except Refusal Unit := firstErr (T.map (defineOk T))

/-! ## check_types -/

def isListOrSet : Ty → Bool
  | .list _ => true
  | .set _ => true
  | _ => false

def tyArgs : Ty → List Ty
  | .opt t => (match t with
      | .union ts => ts
      | t => [t])
  | .union ts => ts
  | .list t => [t]
  | .set t => [t]
  | _ => []

def isUnionLike : Ty → Bool
  | .opt _ => true
  | .union _ => true
  | _ => false

/-- number of `typing` arguments of a Union (`Optional[X]` has two) -/
def unionArity : Ty → Nat
  | .opt (.union ts) => ts.length + 1
  | .opt _ => 2
  | .union ts => ts.length
  | _ => 0

mutual
/-- `_check_type_mergeable` (`partial.py:60-116`); structural recursion (the arguments of
`Optional[t]` other than `None` are looked at in place), so that concrete tables evaluate -/
def mergeable (allowNone : Bool) : Ty → Bool
  | .list t => mergeable false t
  | .set t => mergeable false t
  | .ann _ => true  -- `Annotated` is neither list/set nor Union: accepted as it is
  | .opt t =>
    if !allowNone then false
    else
      let args := tyArgs (.opt t)
      let primUnion := !(args.any isListOrSet)
      let optSetOrList := unionArity (.opt t) == 2
      if !(primUnion || optSetOrList) then false
      else
        -- arguments of `Optional[t]` other than `None`
        match t with
        | .union ts => mergeableAll ts
        | .list t' => mergeable false t'
        | .set t' => mergeable false t'
        | .ann _ => true
        | .opt _ => false
        | _ => true
  | .union ts =>
    let primUnion := !(ts.any isListOrSet)
    if !primUnion then false else mergeableAll ts
  | _ => true
def mergeableAll : List Ty → Bool
  | [] => true
  | t :: ts => mergeable false t && mergeableAll ts
end

mutual
/-- schema classes named in a field type (`field_atomic_types(..., bound=MetadataSchema)`) -/
def nestedNames : Ty → List Str
  | .model n _ _ _ => [n]
  | .opt t => nestedNames t
  | .list t => nestedNames t
  | .set t => nestedNames t
  | .ann t => nestedNames t
  | .union ts => nestedNamesAll ts
  | _ => []
def nestedNamesAll : List Ty → List Str
  | [] => []
  | t :: ts => nestedNames t ++ nestedNamesAll ts
end

/-- `detect_field_overrides`: own public non-constant annotations that a base also has -/
def detectOverrides (T : Table) (c : ClassDef) : List Str :=
  let consts := allConsts T c.name
  ((ownHints (baseHints T c) c).map (·.1)).filter
    (fun n => !hasKey n consts && (getHint n (baseHints T c)).isSome)

/-- `check_overrides` -/
def checkOverrides (T : Table) (c : ClassDef) : Except Refusal Unit :=
  let hints := typeHints T c.name
  let bhints := baseHints T c
  let bconsts := baseConsts T c
  let actual := detectOverrides T c
  let undecl := actual.filter (fun n => !c.overrides.contains n)
  -- `base_hints` also has the annotations `add_const_fields` wrote into the bases
  if c.overrides.any (fun n => (getHint n bhints).isNone && !hasKey n bconsts) then .error .valueError
  else if c.overrides.any (fun n => !actual.contains n) then .error .valueError
  else
    firstErr (undecl.map (fun n =>
      match getHint n hints, getHint n bhints with
      | some h, some ph => if isSubtype T h ph then .ok () else .error .typeError
      | _, _ => .ok ()))

/-- `check_allowed_types` -/
def checkAllowed (T : Table) (c : ClassDef) : Except Refusal Unit :=
  if (typeHints T c.name).all (fun p => mergeable true p.2) then .ok () else .error .typeError

/-- schemas nested in the fields, in `Fields` order: own annotations, then the bases' -/
def fieldSchemasF (T : Table) : Nat → Str → List Str
  | 0, _ => []
  | fuel + 1, n =>
    match find T n with
    | none => []
    | some c =>
      let consts := allConsts T n
      let own := (ownHints (baseHints T c) c).filter (fun p => !hasKey p.1 consts)
      own.flatMap (fun p => nestedNames p.2) ++
        (match c.parent with
         | some p => fieldSchemasF T fuel p
         | none => [])

/-- `check_types` as a depth-first walk with the `__types_checked__` marks (`seen`): one call
including the calls it makes for the dependencies (`core.py:368-389`; the `except` of an inner
level re-raises unchanged). Returns the marks and the first refusal; the mark of a class is set
before the class is examined (`core.py:374`). -/
def checkTypesF (T : Table) : Nat → List Str → Str → List Str × Except Refusal Unit
  | 0, seen, _ => (seen, .ok ())
  | fuel + 1, seen, n =>
    if seen.contains n then (seen, .ok ())
    else
      match find T n with
      | none => (seen, .ok ())
      | some c =>
        let seen := n :: seen
        let deps := (match c.parent with
          | some p => [p]
          | none => []) ++ (fieldSchemasF T (T.length + 1) n).filter (fun s => s != n)
        let r := deps.foldl (fun (acc : List Str × Except Refusal Unit) d =>
          match acc.2 with
          | .error e => (acc.1, .error e)
          | .ok () => checkTypesF T fuel acc.1 d) (seen, .ok ())
        match r.2 with
        | .error e => (r.1, .error e)
        | .ok () =>
          match checkAllowed T c with
          | .error e => (r.1, .error e)
          | .ok () => (r.1, checkOverrides T c)

def checkTypes (T : Table) (n : Str) : Except Refusal Unit :=
  (checkTypesF T (2 * T.length + 2) [] n).2

/-- One plugin load (`PGSchema.check_plugin`, `pg.py:158`): `check_types(n)` *without* `recheck`,
i.e. starting from the `__types_checked__` marks that the earlier loads of the process left
behind (`core.py:369-371`: a marked class returns at once). The top-level call records every class
it marks (`_walk`) and, when it raises, clears all of them again (`core.py:390-395`, since
`fix: check_types forgets all marks set during a refused walk`): after a refused load the marks are
those from before the load. Returns the marks afterwards and the outcome. -/
def loadPlugin (T : Table) (marks : List Str) (n : Str) : List Str × Except Refusal Unit :=
  let r := checkTypesF T (2 * T.length + 2) marks n
  match r.2 with
  | .error e => (marks, .error e)
  | .ok () => (r.1, .ok ())

/-- plugin loads one after the other: final marks and the outcome of every load -/
def loadAll (T : Table) : List Str → List Str → List Str × List (Except Refusal Unit)
  | marks, [] => (marks, [])
  | marks, n :: ns =>
    let r := loadPlugin T marks n
    let rest := loadAll T r.1 ns
    (rest.1, r.2 :: rest.2)

/-! ## effective schema of a class as a codec type -/

/-- fields of the pydantic model in `__fields__` order without the constants:
`(name, type, required, default)` -/
def effFieldsF (T : Table) : Nat → Str → List (Str × Ty × Bool × Option Json)
  | 0, _ => []
  | fuel + 1, n =>
    match find T n with
    | none => []
    | some c =>
      let base := match c.parent with
        | some p => effFieldsF T fuel p
        | none => []
      let isNullable : Ty → Bool := fun t => match t with
        | .opt _ => true
        | .ann (.opt _) => true
        | _ => false
      let upd := c.fields.foldl (fun acc (f : Str × Ty × Option Json) =>
        let entry := (f.1, f.2.1, (f.2.2.isNone && !isNullable f.2.1), f.2.2)
        if acc.any (fun g => g.1 == f.1) then acc.map (fun g => if g.1 == f.1 then entry else g)
        else acc ++ [entry]) base
      let upd := upd.map (fun g => if c.mandatory.contains g.1 then (g.1, unopt g.2.1, true, g.2.2.2) else g)
      upd.filter (fun g => !hasKey g.1 c.consts)

def effFields (T : Table) (n : Str) := effFieldsF T (T.length + 1) n

end MetadorModel.Subtype
