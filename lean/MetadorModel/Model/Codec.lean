/-!
# Model of the schema codec (properties C12, C13, C20)

Field-type grammar `Ty`, validated python values `PyVal`, JSON trees `Json`, and the two
directions pydantic implements for a `MetadataSchema`:

* `decode env t j`  — validation of a JSON value `j` (what `json.loads` produced) against
  a field type `t` (pydantic 1.10 with the `BaseModelPlus.Config` of
  `metador_core/schema/base.py:28-49`: strict primitives of `schema/types.py:21-25`,
  `anystr_strip_whitespace` + `min_anystr_length = 1` for `StrictStr`, phantom `FullMatch`
  types of `schema/types.py:33-51` as recognisers, `Literal` membership with Python `==`,
  `Optional`, `Union` left to right, `List`, `Set` (hashable items, first of equal items kept),
  nested schema classes (`BaseModel.validate`: dicts, and whatever `dict(value)` accepts),
  the custom parsers of `Duration`, `PintUnit`, `PintQuantity` (`schema/types.py:57-150`,
  `schema/parser.py:69-103`), the constants rule `SchemaBase.override_consts`
  (`schema/core.py:100-107`: `values.update(cls.__constants__)` before validation) and the
  extra-field policy.
* `encode v` — `BaseModelPlus.json()` (`schema/base.py:51-60`: `by_alias`, `exclude_none`)
  with the dynamic encoder registry of `schema/encoder.py` (value directed: the class of the
  value decides; `Duration`/`PintUnit`/`PintQuantity` become strings, sets become arrays).

External libraries are parameters (`Env`): `norm k s` is "parse the string `s` as the opaque
type `k` (isodate / pint), then encode the result" (`none` = the parser refuses `s`);
`normFloat tok` is "read the JSON number token, print it with `float.__repr__`" (`none` for
the non-finite values `allow_inf_nan = False` refuses). Their laws are hypotheses of the
theorems (`Proofs/Codec.lean`), never axioms.

Strings are `List Char` (UTF-8 bytes of non-ASCII text travel as one char each; only ASCII
white space is white space here). Import-free.
-/
namespace MetadorModel.Codec

abbrev Str := List Char

/-- what `json.loads` returns; floats are kept as tokens -/
inductive Json
  | null
  | bool (b : Bool)
  | int (i : Int)
  | float (tok : Str)
  | str (s : Str)
  | arr (xs : List Json)
  | obj (kvs : List (Str × Json))
deriving Repr, Inhabited

/-- `Literal[...]` members -/
inductive Lit
  | str (s : Str)
  | int (i : Int)
  | bool (b : Bool)
deriving DecidableEq, Repr, Inhabited

/-- the phantom `FullMatch` string types of `schema/types.py` -/
inductive CStr
  | nes | mime | hash | qhash
deriving DecidableEq, Repr, Inhabited

/-- value types with a string codec from a library -/
inductive Opq
  | dur | unit | qty
deriving DecidableEq, Repr, Inhabited

inductive Extra
  | allow | ignore | forbid
deriving DecidableEq, Repr, Inhabited

mutual
/-- field types -/
inductive Ty
  | bool | int | float | str
  | cstr (k : CStr)
  | opq (k : Opq)
  | lit (vs : List Lit)
  | opt (t : Ty)
  | union (ts : List Ty)
  | list (t : Ty)
  | set (t : Ty)
  | ann (t : Ty)
  /-- a schema class: its name, extra policy, (effective) non-constant fields in
  `__fields__` order, and constants -/
  | model (name : Str) (extra : Extra) (fields : List Field) (consts : List (Str × Json))
/-- `required`: no default and not Optional (or made mandatory); `dflt`: the declared default
as the raw value that pydantic validates (`validate_all = True`) when the key is missing -/
inductive Field
  | mk (name : Str) (ty : Ty) (required : Bool) (dflt : Option Json)
end

instance : Inhabited Ty := ⟨.bool⟩

/-- validated values -/
inductive PyVal
  | none
  | bool (b : Bool)
  | int (i : Int)
  | float (tok : Str)
  | str (s : Str)
  | opq (k : Opq) (s : Str)
  | list (vs : List PyVal)
  | set (vs : List PyVal)
  | obj (cls : Str) (fields : List (Str × PyVal)) (consts : List (Str × Json)) (extras : List (Str × Json))
deriving Repr, Inhabited

structure Env where
  norm : Opq → Str → Option Str
  normFloat : Str → Option Str
  /-- the library parser raises something pydantic does not turn into a validation error
  (pint: `tokenize.TokenError`, `AttributeError`): the whole validation is aborted -/
  crash : Opq → Str → Bool := fun _ _ => false

inductive Err
  | type      -- wrong kind of value
  | value     -- right kind, refused (pattern, literal, parser)
  | missing   -- required field missing
  | extra     -- extra fields not permitted
  | unhashable
  | crash     -- an exception that is no validation error: aborts, no Union fall-through
deriving DecidableEq, Repr, Inhabited

/-! ## Python helpers -/

/-- `str.isspace` / regex `\s` on ASCII -/
def isSpace (c : Char) : Bool :=
  c == ' ' || (9 ≤ c.toNat && c.toNat ≤ 13) || (28 ≤ c.toNat && c.toNat ≤ 31)

def dropWs : Str → Str
  | [] => []
  | c :: r => if isSpace c then dropWs r else c :: r

/-- `str.strip()` -/
def stripWs (s : Str) : Str := (dropWs (dropWs s).reverse).reverse

def isHex (c : Char) : Bool :=
  ('0' ≤ c && c ≤ '9') || ('a' ≤ c && c ≤ 'f') || ('A' ≤ c && c ≤ 'F')

/-- `str.split(sep)` for a one-character separator -/
def splitOn (sep : Char) : Str → List Str
  | [] => [[]]
  | c :: r =>
    match splitOn sep r with
    | [] => [[]]  -- unreachable
    | h :: t => if c == sep then [] :: h :: t else (c :: h) :: t

def isTokChar (c : Char) : Bool := !(c == ' ' || c == '/' || c == ';')
def isTok (s : Str) : Bool := !s.isEmpty && s.all isTokChar

/-- recogniser of `\s*\S[\S\s]*` -/
def recNes (s : Str) : Bool := s.any (fun c => !isSpace c)

/-- recogniser of `[^ /;]+/[^ /;]+(;[^ /;]+)*` -/
def recMime (s : Str) : Bool :=
  match splitOn '/' s with
  | [a, b] => isTok a && (splitOn ';' b).all isTok
  | _ => false

/-- recogniser of `[0-9a-fA-F]+` -/
def recHash (s : Str) : Bool := !s.isEmpty && s.all isHex

def dropPrefix? : Str → Str → Option Str
  | [], s => some s
  | _ :: _, [] => none
  | p :: ps, c :: cs => if p == c then dropPrefix? ps cs else none

/-- recogniser of `(?:sha256|sha512):[0-9a-fA-F]+` -/
def recQHash (s : Str) : Bool :=
  match dropPrefix? "sha256:".toList s with
  | some h => recHash h
  | none =>
    match dropPrefix? "sha512:".toList s with
    | some h => recHash h
    | none => false

def recog : CStr → Str → Bool
  | .nes => recNes
  | .mime => recMime
  | .hash => recHash
  | .qhash => recQHash

/-! ### integral value of a `float.__repr__` token (`1.0`, `-0.0`, `1e+16`, `1.5e+20`) -/

def digitVal? (c : Char) : Option Nat :=
  if '0' ≤ c && c ≤ '9' then some (c.toNat - '0'.toNat) else none

def natOfDigits? : Str → Option Nat
  | [] => none
  | s => s.foldl (fun acc c => match acc, digitVal? c with
      | some a, some d => some (a * 10 + d)
      | _, _ => none) (some 0)

def intOfStr? : Str → Option Int
  | '-' :: r => (natOfDigits? r).map (fun n => -(Int.ofNat n))
  | '+' :: r => (natOfDigits? r).map Int.ofNat
  | s => (natOfDigits? s).map Int.ofNat

/-- the integer a finite float token denotes, if it denotes one -/
def floatTokInt? (tok : Str) : Option Int :=
  let (neg, body) := match tok with
    | '-' :: r => (true, r)
    | r => (false, r)
  let (mant, ex) := match splitOn 'e' body with
    | [m] => (m, some (0 : Int))
    | [m, e] => (m, intOfStr? e)
    | _ => (body, none)
  let (ip, fp) := match splitOn '.' mant with
    | [i] => (i, ([] : Str))
    | [i, f] => (i, f)
    | _ => (mant, [])
  match ex, natOfDigits? (ip ++ fp) with
  | some e, some n =>
    let adj : Int := e - Int.ofNat fp.length
    let mag : Option Nat :=
      if adj ≥ 0 then some (n * 10 ^ adj.toNat)
      else
        let d := 10 ^ (-adj).toNat
        if n % d == 0 then some (n / d) else none
    mag.map (fun m => if neg then -(Int.ofNat m) else Int.ofNat m)
  | _, _ => none

def boolInt (b : Bool) : Int := if b then 1 else 0

/-- the number a JSON scalar denotes when it is an integer (`True == 1 == 1.0`) -/
def jsonInt? : Json → Option Int
  | .bool b => some (boolInt b)
  | .int i => some i
  | .float t => floatTokInt? t
  | _ => none

/-! ## Literal -/

/-- Python `lit == value` for a literal and a JSON scalar -/
def litMatch (l : Lit) (j : Json) : Bool :=
  match l, j with
  | .str s, .str s' => s == s'
  | .str _, _ => false
  | .int i, j => jsonInt? j == some i
  | .bool b, j => jsonInt? j == some (boolInt b)

def litVal : Lit → PyVal
  | .str s => .str s
  | .int i => .int i
  | .bool b => .bool b

/-- pydantic's literal validator (`make_literal_validator`): a dict `{v: v for v in members}`
is indexed with the input, so of several members that are `==` (`Literal[1, True]`) the *last*
one is returned -/
def decodeLit (vs : List Lit) (j : Json) : Except Err PyVal :=
  match (vs.filter (fun l => litMatch l j)).getLast? with
  | some l => .ok (litVal l)
  | none => .error .value

/-! ## Sets: hashability and Python equality of hashable values -/

def hashable : PyVal → Bool
  | .list _ => false
  | .set _ => false
  | .obj _ _ _ _ => false
  | _ => true

def pyNum? : PyVal → Option Int
  | .bool b => some (boolInt b)
  | .int i => some i
  | .float t => floatTokInt? t
  | _ => none

/-- Python `==` (and equal hash) on hashable values -/
def pyEq (a b : PyVal) : Bool :=
  match a, b with
  | .none, .none => true
  | .str s, .str s' => s == s'
  | .opq k s, .opq k' s' => k == k' && s == s'
  | .float t, .float t' => t == t' || (match floatTokInt? t, floatTokInt? t' with
      | some i, some i' => i == i'
      | _, _ => false)
  | a, b =>
    match pyNum? a, pyNum? b with
    | some i, some i' => i == i'
    | _, _ => false

/-- `set(list)`: the first of equal items is kept -/
def dedup : List PyVal → List PyVal
  | [] => []
  | v :: vs => v :: (dedup vs).filter (fun w => !pyEq v w)

/-! ## dict-like inputs of a schema class (`BaseModel.validate`, `parse_obj`) -/

def lookup (k : Str) : List (Str × Json) → Option Json
  | [] => none
  | (k', v) :: r => if k == k' then some v else lookup k r

/-- `d[k] = v` on an insertion-ordered dict -/
def setKey (k : Str) (v : Json) : List (Str × Json) → List (Str × Json)
  | [] => [(k, v)]
  | (k', v') :: r => if k == k' then (k', v) :: r else (k', v') :: setKey k v r

/-- `dict(pairs)` -/
def dictOf (ps : List (Str × Json)) : List (Str × Json) :=
  ps.foldl (fun d (p : Str × Json) => setKey p.1 p.2 d) []

/-- an item `dict(iterable)` accepts as a key/value pair with a `str` key -/
def pairOf : Json → Option (Str × Json)
  | .arr [.str k, v] => some (k, v)
  | .str [a, b] => some ([a], .str [b])
  | .obj [(k1, _), (k2, _)] => some (k1, .str k2)
  | _ => none

def pairsOf : List Json → Option (List (Str × Json))
  | [] => some []
  | x :: r =>
    match pairOf x, pairsOf r with
    | some p, some ps => some (p :: ps)
    | _, _ => none

/-- what pydantic turns into keyword arguments: a dict, or anything `dict(value)` accepts
(`""`, a sequence of pairs) -/
def asDict : Json → Option (List (Str × Json))
  | .obj kvs => some kvs
  | .str [] => some []
  | .arr xs => (pairsOf xs).map dictOf
  | _ => none

def fieldName : Field → Str
  | .mk n _ _ _ => n

def hasKey (k : Str) (l : List (Str × Json)) : Bool := l.any (fun p => p.1 == k)

/-! ## decode -/

def mapOk {α β : Type} (f : α → β) : Except Err α → Except Err β
  | .ok a => .ok (f a)
  | .error e => .error e

/-- sequence a list of results: pydantic validates every item and collects the validation
errors, so a crash anywhere wins; otherwise the first error -/
def allOk {α : Type} : List (Except Err α) → Except Err (List α)
  | [] => .ok []
  | .ok a :: r => mapOk (fun l => a :: l) (allOk r)
  | .error e :: r =>
    match allOk r with
    | .error .crash => .error .crash
    | _ => .error e

def mkSet (vs : List PyVal) : Except Err PyVal :=
  if vs.all hashable then .ok (.set (dedup vs)) else .error .unhashable

mutual
def decode (env : Env) : Ty → Json → Except Err PyVal
  | .bool, .bool b => .ok (.bool b)
  | .bool, _ => .error .type
  | .int, .int i => .ok (.int i)
  | .int, _ => .error .type
  | .float, .float t =>
    match env.normFloat t with
    | some r => .ok (.float r)
    | none => .error .value
  | .float, _ => .error .type
  | .str, .str s => if (stripWs s).isEmpty then .error .value else .ok (.str (stripWs s))
  | .str, _ => .error .type
  | .cstr k, .str s => if recog k s then .ok (.str s) else .error .value
  | .cstr _, _ => .error .type
  | .opq k, .str s =>
    if env.crash k s then .error .crash
    else
      match env.norm k s with
      | some n => .ok (.opq k n)
      | none => .error .value
  | .opq _, _ => .error .type
  | .lit vs, j => decodeLit vs j
  | .opt _, .null => .ok .none
  | .opt t, j => decode env t j
  | .ann t, j => decode env t j
  | .union ts, j => decodeUnion env ts j
  | .list t, .arr xs => mapOk .list (allOk (xs.map (fun x => decode env t x)))
  | .list _, _ => .error .type
  | .set t, .arr xs =>
    match allOk (xs.map (fun x => decode env t x)) with
    | .ok vs => mkSet vs
    | .error e => .error e
  | .set _, _ => .error .type
  | .model name extra fields consts, j =>
    match asDict j with
    | none => .error .type
    | some kvs =>
      -- `values.update(cls.__constants__)`: constants supplied on input are overwritten
      let xs := kvs.filter (fun p => !(fields.any (fun f => fieldName f == p.1)) && !hasKey p.1 consts)
      match decodeFields env fields kvs with
      | .error e => .error e
      | .ok fvs =>
        match extra with
        | .allow => .ok (.obj name fvs consts xs)
        | .ignore => .ok (.obj name fvs consts [])
        | .forbid => if xs.isEmpty then .ok (.obj name fvs consts []) else .error .extra
/-- `Union`: the first alternative that validates wins -/
def decodeUnion (env : Env) : List Ty → Json → Except Err PyVal
  | [], _ => .error .type
  | t :: ts, j =>
    match decode env t j with
    | .ok v => .ok v
    | .error .crash => .error .crash
    | .error _ => decodeUnion env ts j
def decodeFields (env : Env) : List Field → List (Str × Json) → Except Err (List (Str × PyVal))
  | [], _ => .ok []
  | f :: fs, kvs =>
    match decodeField env f kvs, decodeFields env fs kvs with
    | .ok v, .ok r => .ok (v :: r)
    | _, .error .crash => .error .crash
    | .error e, _ => .error e
    | _, .error e => .error e
def decodeField (env : Env) : Field → List (Str × Json) → Except Err (Str × PyVal)
  | .mk n t req d, kvs =>
    match lookup n kvs with
    | some j => mapOk (fun v => (n, v)) (decode env t j)
    | none =>
      if req then .error .missing
      else
        match d with
        | none => .ok (n, .none)
        | some dj => mapOk (fun v => (n, v)) (decode env t dj)
end

/-- pydantic accepts the value -/
def accepts (env : Env) (t : Ty) (j : Json) : Bool :=
  match decode env t j with
  | .ok _ => true
  | .error _ => false

/-! ## encode -/

def isNull : Json → Bool
  | .null => true
  | _ => false

mutual
/-- `.json()` of a value (value directed; `exclude_none` drops `None` fields and extras) -/
def encode : PyVal → Json
  | .none => .null
  | .bool b => .bool b
  | .int i => .int i
  | .float t => .float t
  | .str s => .str s
  | .opq _ s => .str s
  | .list vs => .arr (encodeList vs)
  | .set vs => .arr (encodeList vs)
  | .obj _ fs cs xs => .obj (encodeFields fs ++ cs ++ xs.filter (fun p => !isNull p.2))
def encodeList : List PyVal → List Json
  | [] => []
  | v :: vs => encode v :: encodeList vs
def encodeFields : List (Str × PyVal) → List (Str × Json)
  | [] => []
  | (k, v) :: r =>
    match v with
    | .none => encodeFields r
    | v => (k, encode v) :: encodeFields r
end

namespace Legacy
/-! The encoder of the pinned tree: `SchemaMagic.__init__` did not chain to
`DynJsonEncoderMetaMixin.__init__`, so schema classes kept pydantic's own encoder, which raises
`TypeError` for every value whose class only has a *registered* encoder. -/
mutual
def encode? : PyVal → Option Json
  | .none => some .null
  | .bool b => some (.bool b)
  | .int i => some (.int i)
  | .float t => some (.float t)
  | .str s => some (.str s)
  | .opq _ _ => none
  | .list vs => (encodeList? vs).map .arr
  | .set vs => (encodeList? vs).map .arr
  | .obj _ fs cs xs =>
    (encodeFields? fs).map (fun l => .obj (l ++ cs ++ xs.filter (fun p => !isNull p.2)))
def encodeList? : List PyVal → Option (List Json)
  | [] => some []
  | v :: vs =>
    match encode? v, encodeList? vs with
    | some j, some js => some (j :: js)
    | _, _ => none
def encodeFields? : List (Str × PyVal) → Option (List (Str × Json))
  | [] => some []
  | (k, v) :: r =>
    match v with
    | .none => encodeFields? r
    | v =>
      match encode? v, encodeFields? r with
      | some j, some js => some ((k, j) :: js)
      | _, _ => none
end
end Legacy

/-- `encode : Ty → PyVal → Json` of the design: the type plays no role, the registered
encoders are selected by the class of the value (`encoder.py:72-82`). -/
def encodeAt (_ : Ty) (v : PyVal) : Json := encode v

/-- `S.parse_raw(o.json())` for a schema type -/
def reparse (env : Env) (t : Ty) (v : PyVal) : Except Err PyVal := decode env t (encode v)

end MetadorModel.Codec
