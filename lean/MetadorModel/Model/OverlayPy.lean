import MetadorModel.Model.Overlay
/-!
# Value dictionary of the C01 translation (`harness/translate_c01.py` → `Gen/OverlayScan.lean`)

`Gen/OverlayScan.lean` is regenerated from `src/metador_core/ih5/overlay.py` on every run. Its
definitions are over the data types of `Model/Overlay.lean` (`Cont`, `RNode`, `RKind`, `Path`, `Key`);
this file fixes, once and by hand, how the Python values the translated functions handle are read as
values over those types, and gives every Python primitive that occurs a *total* Lean function that
returns the Python exception where Python raises one. Nothing here depends on the source text.

| Python                                             | Lean                                                        |
|----------------------------------------------------|-------------------------------------------------------------|
| `int`                                              | `Int` (container indices included; `-1` sentinels and negative list indices keep their Python meaning) |
| `self._files` / `self._record.__files__`           | `self.files : List (Cont V)`, **oldest first** (Python list order; the model's record is newest first: `files = r.reverse`) |
| `len(x)`                                           | `(x.length : Int)`                                          |
| `range(a, b)`, `reversed(l)`                       | `pyRange a b`, `pyReversed l`                               |
| `l[i]` (list)                                      | `pyListGet l i` (negative `i` counts from the end, `IndexError`) |
| `p in f`, `f[p]` (`f` an `h5py.File`)              | `pyFileIn p f`, `pyFileGet f p` (`KeyError`)                |
| an `h5py.Group` / `h5py.Dataset` object            | `PyObj.group file path subst attrs` / `PyObj.dataset content attrs` built from the raw node by `PyObj.ofNode` (`vgroup` ↦ `subst = false`, `sgroup` ↦ `subst = true`, `data v` ↦ `content = some v`, `del` ↦ `content = none`) |
| `x.attrs` (an `h5py.AttributeManager`)             | `pyGetAttrs x = PyObj.attrs subst as` (`AttributeError` on values) |
| `SUBST_KEY in a`, `a[k]`, `a.keys()`               | `pyIn`, `pyAttrsGet`, `pyKeys`: the SUBST attribute is the `subst` flag (the model keeps it in the node kind, not in the attribute list); its value is `PyObj.empty` (`h5py.Empty(None)`) |
| `g.keys()` (`g` a group)                           | `childKeys file path`: the `k` with `path ++ [k]` present in the file, duplicate-free |
| `d[()]` (`d` a dataset)                            | `pyGetItemUnit d = PyObj.value content`                     |
| a numpy value / attribute value                    | `PyObj.value v`, `v = none` is `DEL_VALUE`                  |
| `_is_del_mark(x)`                                  | `pyIsDelMark x` (true exactly on `PyObj.value none`; the byte-level test is translated for property C17, `Bridge/BytesFnsDel.lean`) |
| `isinstance(x, h5py.Group)` …                      | `pyIsInstance x .Group` …                                   |
| `Dict[str, int]`, `Dict[str, bool]`                | association lists `List (Key × Int)`, `List (Key × Bool)` with `aget/aput` of `Model/Tree` (`k in d` ↦ `pyDictIn`, `d[k]` ↦ `pyDictGet` (`KeyError`), `d[k] = v` ↦ `pyDictSet`, `d.get(k, x)` ↦ `pyDictGetD`, `d.get(k, None)` ↦ `pyDictGetOpt`, `sorted(d.items(), key=lambda x: x[0])` ↦ `pySortedItems`, `{k: v for k, v in items if c}` ↦ `pyFilterM`) |
| `for x in l: body`                                 | `pyFor l state body` (`continue` ↦ the state so far), with a `return` inside: `pyForRet` (`PyStep.ret`) |
| `self` (an `IH5InnerNode`)                         | `PySelf`: `files`, `gpath : Path`, `cidx : Int`, `isAttrs : Bool` |
| `self._gpath` (absolute path string)               | `Path` (list of segments, `"/"` ↦ `[]`)                     |
| a child name / attribute name (`str`)              | `Key`                                                       |
| a path argument (`str`, absolute or relative)      | `PyPath`: `abs` (starts with `/`) and `segs`; `path[0] == "/"` ↦ `pyPathIsAbs` (`IndexError` on `""`), `path == "/"`, `path == "."` ↦ `pyPathIs…`, `path.strip("/").split("/")` ↦ `pyPathSegs` (`[""]` for no segment) |
| `self._abs_path(k)`                                | `pyAbsKey self k = self.gpath ++ [k]` for a child name, `pyAbsPath self p` for a path (not translated: string concatenation) |
| `IH5Group(rec[, path, cidx])`, `IH5Dataset(rec, path, cidx)` | `pyMkGroup`, `pyMkDataset` (constructors not translated: root ↦ creation index 0, `ValueError` for a negative index) |
| an `IH5Node` held in a variable                    | `PyNode`: `.inner s` (group / attribute manager), `.dataset …`, `.raw o` (`_get_child` returns other values unwrapped) |
| `n._children()`, `n._get_child(..)` on such a node | `pyAsInner n` first (`AttributeError` if it is not an inner node) |
| `not self` (`IH5Node.__bool__`)                    | translated `__bool__`; `bool(files)` ↦ `pyTruthyList`, `all(map(bool, files))` ↦ `files.all pyFileOpen` (files of the record are open: closing is not modelled) |
| `raise E(..)`, `assert c`                          | `.error .e`, `.error .assertionError` when `c` is false     |

Import-free apart from `Model/Overlay`.
-/
namespace MetadorModel.OverlayPy
open MetadorModel.Tree MetadorModel.Overlay

inductive PyErr where
  | keyError | indexError | valueError | assertionError | attributeError | typeError
deriving DecidableEq, Repr

/-- outcome of one loop iteration / of a loop that contains a `return` -/
inductive PyStep (ρ σ : Type) where
  | next (s : σ)
  | ret (v : ρ)

variable {V : Type}

/-- the value the dictionary fixes for `SUBST_KEY`; `Gen.OverlayScan.SUBST_KEY` (from the source) is
proved equal to it in the bridge -/
def substKey : Key := "\x1a"

inductive PyObj (V : Type) where
  | group (file : Cont V) (path : Path) (subst : Bool) (attrs : List (Key × Option V))
  | dataset (content : Option V) (attrs : List (Key × Option V))
  | attrs (subst : Bool) (as : List (Key × Option V))
  | value (v : Option V)
  | empty

inductive PyClass where
  | Group | Dataset | AttributeManager
deriving DecidableEq

def PyObj.ofNode (file : Cont V) (path : Path) (n : RNode V) : PyObj V :=
  match n.kind with
  | .vgroup => .group file path false n.attrs
  | .sgroup => .group file path true n.attrs
  | .data v => .dataset (some v) n.attrs
  | .del => .dataset none n.attrs

def pyIsInstance : PyObj V → PyClass → Bool
  | .group _ _ _ _, .Group => true
  | .dataset _ _, .Dataset => true
  | .attrs _ _, .AttributeManager => true
  | _, _ => false

/-! ## lists, ranges -/

def pyListGet {α : Type} (l : List α) (i : Int) : Except PyErr α :=
  let j : Int := if i < 0 then i + (l.length : Int) else i
  if j < 0 then .error .indexError
  else match l[j.toNat]? with
    | some x => .ok x
    | none => .error .indexError

def pyRange (a b : Int) : List Int := (List.range (b - a).toNat).map (fun (j : Nat) => a + (j : Int))

def pyReversed {α : Type} (l : List α) : List α := l.reverse

def pyTruthyList {α : Type} (l : List α) : Bool := !l.isEmpty

/-- `bool(f)` of a container file of the record (open) -/
def pyFileOpen (_ : Cont V) : Bool := true

/-! ## h5py objects -/

def pyFileIn (p : Path) (f : Cont V) : Bool := (aget p f).isSome

def pyFileGet (f : Cont V) (p : Path) : Except PyErr (PyObj V) :=
  match aget p f with
  | none => .error .keyError
  | some n => .ok (PyObj.ofNode f p n)

def pyGetAttrs : PyObj V → Except PyErr (PyObj V)
  | .group _ _ s as => .ok (.attrs s as)
  | .dataset _ as => .ok (.attrs false as)
  | _ => .error .attributeError

/-- `q = p ++ [k]` -/
def childKeyOf (p q : Path) : Option Key :=
  match q.getLast? with
  | some k => if q.dropLast = p then some k else none
  | none => none

def childKeys (f : Cont V) (p : Path) : List Key :=
  dedup (f.filterMap (fun e => childKeyOf p e.1))

def pyKeys : PyObj V → Except PyErr (List Key)
  | .group f p _ _ => .ok (childKeys f p)
  | .attrs s as => .ok (dedup (as.map (·.1)) ++ (if s then [substKey] else []))
  | _ => .error .attributeError

def pyIn (k : Key) : PyObj V → Except PyErr Bool
  | .attrs s as => .ok (if k = substKey then s else (aget k as).isSome)
  | _ => .error .typeError

def pyAttrsGet (a : PyObj V) (k : Key) : Except PyErr (PyObj V) :=
  match a with
  | .attrs s as =>
    if k = substKey then (if s then .ok .empty else .error .keyError)
    else match aget k as with
      | some v => .ok (.value v)
      | none => .error .keyError
  | _ => .error .typeError

def pyGetItemUnit : PyObj V → Except PyErr (PyObj V)
  | .dataset c _ => .ok (.value c)
  | _ => .error .typeError

def pyIsDelMark : PyObj V → Bool
  | .value none => true
  | _ => false

/-! ## dicts -/

def pyDictIn {β : Type} (k : Key) (d : List (Key × β)) : Bool := (aget k d).isSome

def pyDictGet {β : Type} (d : List (Key × β)) (k : Key) : Except PyErr β :=
  match aget k d with
  | some v => .ok v
  | none => .error .keyError

def pyDictSet {β : Type} (d : List (Key × β)) (k : Key) (v : β) : List (Key × β) := aput k v d

def pyDictGetD {β : Type} (d : List (Key × β)) (k : Key) (dflt : β) : β :=
  match aget k d with
  | some v => v
  | none => dflt

def pyDictGetOpt {β : Type} (d : List (Key × β)) (k : Key) : Option β := aget k d

def pySortedItems {β : Type} (d : List (Key × β)) : List (Key × β) :=
  sortBy (fun a b => decide (a.1 < b.1)) d

def pyFilterM {α : Type} (f : α → Except PyErr Bool) : List α → Except PyErr (List α)
  | [] => .ok []
  | x :: xs =>
    match f x with
    | .error e => .error e
    | .ok b =>
      match pyFilterM f xs with
      | .error e => .error e
      | .ok ys => .ok (if b then x :: ys else ys)

/-! ## loops -/

def pyFor {α σ : Type} (xs : List α) (s : σ) (f : σ → α → Except PyErr σ) : Except PyErr σ :=
  match xs with
  | [] => .ok s
  | x :: xs =>
    match f s x with
    | .error e => .error e
    | .ok s' => pyFor xs s' f

def pyForRet {α σ ρ : Type} (xs : List α) (s : σ) (f : σ → α → Except PyErr (PyStep ρ σ)) :
    Except PyErr (PyStep ρ σ) :=
  match xs with
  | [] => .ok (.next s)
  | x :: xs =>
    match f s x with
    | .error e => .error e
    | .ok (.ret v) => .ok (.ret v)
    | .ok (.next s') => pyForRet xs s' f

/-! ## overlay nodes -/

structure PySelf (V : Type) where
  files : List (Cont V)
  gpath : Path
  cidx : Int
  isAttrs : Bool

inductive PyNode (V : Type) where
  | inner (s : PySelf V)
  | dataset (files : List (Cont V)) (gpath : Path) (cidx : Int)
  | raw (o : PyObj V)

inductive PyNodeClass where
  | IH5Group | IH5Dataset | IH5AttributeManager
deriving DecidableEq

def pyNodeIsInstance : PyNode V → PyNodeClass → Bool
  | .inner s, .IH5Group => !s.isAttrs
  | .inner s, .IH5AttributeManager => s.isAttrs
  | .dataset _ _ _, .IH5Dataset => true
  | _, _ => false

def pyAsInner : PyNode V → Except PyErr (PySelf V)
  | .inner s => .ok s
  | _ => .error .attributeError

def pyNodeCidx : PyNode V → Except PyErr Int
  | .inner s => .ok s.cidx
  | .dataset _ _ c => .ok c
  | .raw _ => .error .attributeError

def pyNodeGpath : PyNode V → Except PyErr Path
  | .inner s => .ok s.gpath
  | .dataset _ p _ => .ok p
  | .raw _ => .error .attributeError

/-- `IH5Group(record, gpath="/", creation_idx=None)` (`__init__` l. 497–502 and `__post_init__`) -/
def pyMkGroup (files : List (Cont V)) (gpath : Path) (cidx : Option Int) : Except PyErr (PyNode V) :=
  let c : Option Int := if gpath = [] then some 0 else cidx
  match c with
  | none => .error .valueError
  | some c => if c < 0 then .error .valueError else .ok (.inner ⟨files, gpath, c, false⟩)

/-- `IH5Dataset(record, gpath, creation_idx)` -/
def pyMkDataset (files : List (Cont V)) (gpath : Path) (cidx : Int) : Except PyErr (PyNode V) :=
  if cidx < 0 then .error .valueError else .ok (.dataset files gpath cidx)

/-! ## path strings -/

structure PyPath where
  abs : Bool
  segs : List Key
deriving DecidableEq

/-- `path[0] == "/"` -/
def pyPathIsAbs (p : PyPath) : Except PyErr Bool :=
  if p.abs = false ∧ p.segs = [] then .error .indexError else .ok p.abs

/-- `path == "/"` -/
def pyPathIsRoot (p : PyPath) : Bool := p.abs && p.segs.isEmpty
/-- `path == "."` -/
def pyPathIsDot (p : PyPath) : Bool := !p.abs && p.segs == ["."]
/-- `path.strip("/").split("/")` -/
def pyPathSegs (p : PyPath) : List Key := if p.segs.isEmpty then [""] else p.segs
/-- the string itself (used where a path argument serves as attribute name) -/
def pyPathStr (p : PyPath) : Key := (if p.abs then "/" else "") ++ "/".intercalate p.segs

def pyAbsKey (self : PySelf V) (k : Key) : Path := self.gpath ++ [k]
def pyAbsPath (self : PySelf V) (p : PyPath) : Path := if p.abs then p.segs else self.gpath ++ p.segs

end MetadorModel.OverlayPy
