import MetadorModel.Model.Record
/-!
# Optional keyword arguments of the record API (properties C02, C03)

`Model/Record.lean` mirrors the calls with their default arguments. This file adds the calls
*with* the optional keyword arguments the classes accept:

* `IH5Record(record, mode, allow_baseless=…)` — `record.py:342` pops the keyword, `:359` skips the
  test "the container with the smallest patch index has no `prev_patch`" when it is true;
* `IH5MFRecord(record, mode, manifest_file=…)` — `manifest.py:147` pops the keyword, `:152-168`
  use the given path instead of the sidecar named after the newest container **only to check and
  load** the manifest the newest container links to (when that container carries the manifest
  extension; otherwise the keyword is not looked at). `IH5Record._open` never looks at keywords it
  does not know, so the plain class ignores `manifest_file=`; the creating branches of `__init__`
  (`w`, `w-`, `x`, `a` on an absent name) ignore every keyword;
* `IH5MFRecord.commit_patch(manifest_exts=…)` — `manifest.py:229` pops the keyword and puts the
  value into the fresh manifest (whose body is a fresh number here anyway); the plain class
  refuses any keyword before it looks at anything (`record.py:573`).

`close(commit=…)` is part of the base model already. Everything else (`create_patch`,
`discard_patch`, `merge_files`, `delete_files`, `find_files`) has no optional argument.

A keyworded call with the default values is the call of `Model/Record.lean`
(`Proofs/RecordKw.lean`: `openRecK_default`).

Import-free apart from `Model/Record`.
-/
namespace MetadorModel.Record
open MetadorModel.FindFiles

/-- the optional keyword arguments of the constructors -/
structure OpenKw where
  mfile    : Option Name := none   -- `manifest_file=` (a file of the directory, or any other name)
  baseless : Bool := false         -- `allow_baseless=`
deriving DecidableEq, Repr, Inhabited

/-- `IH5Record._open(paths, reopen_incomplete_patch=rw, allow_baseless=baseless)` -/
def openFilesK (d : Disk) (paths : List Name) (rw baseless : Bool) : Except Out (List (Name × UB) × Bool) :=
  if paths.isEmpty then .error .valueError else
  match loadAll d paths with
  | .error e => .error e
  | .ok ubs =>
    match sortByIdx ubs with
    | [] => .error .valueError
    | (f0, u0) :: rest =>
      if !baseless && u0.prev.isSome then .error .valueError
      else if !checkUB d u0.rid f0 u0 none (!rest.isEmpty) then .error .valueError
      else if !checkChain d u0.rid u0 rest then .error .valueError
      else if !distinctPids ((f0, u0) :: rest) then .error .valueError
      else
        match lastFile ((f0, u0) :: rest) with
        | none => .error .valueError
        | some (_, ul) => .ok ((f0, u0) :: rest, rw && ul.hash.isNone)

/-- `IH5MFRecord._open(…, manifest_file=mfile)`, the part after `super()._open`: the given file
(default: the sidecar named after the newest container) must exist and have the checksum the
newest container links to — it is only read. An uncommitted newest patch: as without keyword. -/
def loadManifestK (d : Disk) (files : List (Name × UB)) (mfile : Option Name) :
    Except Out (Option (Nat × Nat)) :=
  match lastFile files with
  | none => .ok none
  | some (f, ub) =>
    match ub.ext with
    | some (_, hsh) =>
      match getF d (mfile.getD (manifestFile f)) with
      | some (.mf u b) => if b = hsh then .ok (some (u, b)) else .error .valueError
      | _ => .error .valueError
    | none =>
      if ub.hash.isNone then
        match prevFile files with
        | some (g, ubp) =>
          match ubp.ext, getF d (manifestFile g) with
          | some (_, hsh), some (.mf u b) => if b = hsh then .ok (some (u, b)) else .ok none
          | _, _ => .ok none
        | none => .ok none
      else .ok none

/-- the branch `mode == "a" or mode[0] == "r"` of `__init__` with a non-empty list of paths -/
def openExistingK (s : State) (mfcls : Bool) (paths : List Name) (m : Mode) (kw : OpenKw) : Res :=
  let wantRW := m != .r
  match openFilesK s.disk paths wantRW kw.baseless with
  | .error e => fail s e
  | .ok (files, lastRW) =>
    match (if mfcls then loadManifestK s.disk files kw.mfile else .ok none) with
    | .error e => fail s e
    | .ok man =>
      let h : Handle := { files := files, lastRW := lastRW, allow := wantRW, closed := false,
                          mfcls := mfcls, manifest := man }
      let touched : List Name :=
        if lastRW then (match lastFile files with | some (f, _) => [f] | none => []) else []
      if wantRW && !hasWritable h then
        let r := createPatch { s with h := h }
        match r.out with
        | .ok => r
        | e => fail { s with next := r.st.next } e
      else { st := { s with h := h }, out := .ok, written := touched }

/-- `IH5Record(record, mode, **kw)` / `IH5MFRecord(record, mode, **kw)` -/
def openRecK (s : State) (mfcls : Bool) (t : Target) (m : Mode) (kw : OpenKw) : Res :=
  if !s.h.closed then fail s .busy else
  match t with
  | .list fs =>
    if m == .w || m == .wm || m == .x then fail s .valueError
    else if fs.isEmpty then fail s .unboundLocal
    else openExistingK s mfcls fs m kw
  | .name n =>
    match m with
    | .w => createRec s mfcls n true []
    | .wm => createRec s mfcls n false []
    | .x => createRec s mfcls n false []
    | _ =>
      match findFiles (names s.disk) n with
      | none => fail s .valueError
      | some [] => if m == .a then createRec s mfcls n false [] else fail s .fileNotFound
      | some (f :: fs) => openExistingK s mfcls (f :: fs) m kw

/-- `commit_patch(manifest_exts=…)` -/
def commitPatchExts (s : State) : Res :=
  if s.h.mfcls then commitMF s else fail s .valueError

/-! ## histories with keyword arguments -/

inductive OpK where
  | base (o : Op)
  | openKw (mfcls : Bool) (t : Target) (m : Mode) (kw : OpenKw)
  | commitExts
deriving DecidableEq, Repr

def stepK (s : State) : OpK → Res
  | .base o => step s o
  | .openKw c t m kw => openRecK s c t m kw
  | .commitExts => commitPatchExts s

def runK (s : State) : List OpK → State
  | [] => s
  | o :: r => runK (stepK s o).st r

/-- everything except the explicitly destructive calls (mode `w`, `delete_files`) -/
def OpK.safe : OpK → Bool
  | .base o => o.safe
  | .openKw _ _ .w _ => false
  | _ => true

end MetadorModel.Record
