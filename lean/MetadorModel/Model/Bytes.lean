/-!
# Model of opaque byte wrapping, chunked hashing and the IH5 deletion-marker guard
(property C17; the hashing part is shared with C19)

Mirrors

* `metador_core/util/hashsums.py`  `hashsum` (lines 18–33: `_hash_alg[alg]()` with `KeyError ↦
  ValueError`, the `while True: chunk = data.read(h.block_size) …` loop = `readLoop`, block size
  read in every iteration as in the source), `qualified_hashsum`
  (line 40–42: `f"{alg}:{hashsum(data, alg)}"`);
* `metador_core/packer/utils.py`   `_h5_wrap_bytes` (line 21–25: `numpy.void(bs) if len(bs) else
  h5py.Empty("b")`), `pack_file` (order of checks: `target in node` → harvest → wrap →
  `create_dataset` → attach metadata);
* `metador_core/harvester/common.py` `FileMetaHarvester.run` (`contentSize = stat().st_size`,
  `sha256 = hashsum(open(path,"rb"), "sha256")`);
* `metador_core/ih5/overlay.py`    `DEL_VALUE = np.void(b"\x7f")`, `_is_del_mark`
  (`isinstance(val, np.void) and val.tobytes() == DEL_VALUE.tobytes()`), `_guard_value`
  (first test; called first thing in `create_dataset` / `__setitem__`).

External calls: `hashlib` is the parameter `HashLib` (its streaming law is a *hypothesis* of
the theorems), the HDF5 round trip of one scalar value is the small concrete model `h5Store`
(validated against h5py by the correspondence harness on every run).

Besides the correspondence run, `wrapBytes`, `delMark`, `isDelMark`, `guardValue`, `hashAlgs`,
`readLoop`, `hashsum`, `qualifiedHashsum` are tied to the source by translation: `Gen/BytesFns.lean`
is regenerated from the Python text on every run (`harness/translate_c17.py`, value dictionary
`Model/BytesPy.lean`) and proved equal to them in `Bridge/BytesFns*.lean`.

Strings are `List Char`, bytes are `List UInt8`. Import-free: only core Lean.
-/
namespace MetadorModel.Bytes

abbrev Bytes := List UInt8
abbrev Str := List Char

/-- exception classes the modelled code raises -/
inductive Err where
  | valueError
  | typeError
deriving DecidableEq, Repr

/-! ## Chunked reading (`hashsum`) -/

/-- The chunks handed to `h.update` by
`while True: chunk = data.read(n); if not chunk: break; h.update(chunk)`.
`fuel` bounds the number of `read` calls (`chunks` supplies enough). Note `n = 0`:
`read(0)` returns `b""`, the loop stops at once and nothing is hashed. -/
def chunksAux (n : Nat) : Nat → Bytes → List Bytes
  | 0, _ => []
  | fuel + 1, bs =>
    let chunk := bs.take n
    if chunk.isEmpty then [] else chunk :: chunksAux n fuel (bs.drop n)

def chunks (n : Nat) (bs : Bytes) : List Bytes := chunksAux n (bs.length + 1) bs

/-- `hashlib` as far as `hashsum` uses it. `σ` is the state of a hash object. -/
structure HashLib (σ : Type) where
  /-- `hashlib.<alg>()` -/
  new : Str → σ
  /-- `h.block_size` -/
  blockSize : σ → Nat
  /-- `h.update(chunk)` -/
  update : σ → Bytes → σ
  /-- `h.hexdigest()` -/
  hexdigest : σ → Str

/-- the fold of `hashsum`: state after the read loop with chunk size `n` -/
def hashChunks {σ : Type} (upd : σ → Bytes → σ) (init : σ) (n : Nat) (bs : Bytes) : σ :=
  (chunks n bs).foldl upd init

def sha256 : Str := ['s', 'h', 'a', '2', '5', '6']
def sha512 : Str := ['s', 'h', 'a', '5', '1', '2']

/-- keys of `_hash_alg` -/
def hashAlgs : List Str := [sha256, sha512]

/-- The loop of `hashsum` as written: `while True: chunk = data.read(h.block_size); if not chunk:
break; h.update(chunk)`. The state is (rest of the stream, hash object); `h.block_size` is read
again in every iteration, on the updated object (for `hashlib` objects it is a constant and the
loop is `hashChunks … (blockSize h) …`, see `readLoop_eq_hashChunks` in `Proofs/Bytes.lean`).
`fuel` bounds the number of `read` calls; `data.length + 1` is always enough, because an iteration
that does not leave the loop has read at least one byte. -/
def readLoop {σ : Type} (hl : HashLib σ) : Nat → Bytes → σ → σ
  | 0, _, h => h
  | fuel + 1, data, h =>
    let chunk := data.take (hl.blockSize h)
    if chunk.isEmpty then h
    else readLoop hl fuel (data.drop (hl.blockSize h)) (hl.update h chunk)

/-- `hashsum(data, alg)`; `bs` is what the stream `data` (or the `bytes` object) holds -/
def hashsum {σ : Type} (hl : HashLib σ) (bs : Bytes) (alg : Str) : Except Err Str :=
  if alg ∈ hashAlgs then
    let h := hl.new alg
    .ok (hl.hexdigest (readLoop hl (bs.length + 1) bs h))
  else .error .valueError  -- `except KeyError: raise ValueError("Unsupported hashsum")`

/-- `qualified_hashsum(data, alg)` = `f"{alg}:{hashsum(data, alg)}"` -/
def qualifiedHashsum {σ : Type} (hl : HashLib σ) (bs : Bytes) (alg : Str) : Except Err Str :=
  match hashsum hl bs alg with
  | .ok h => .ok (alg ++ ':' :: h)
  | .error e => .error e

/-- the digest `hashlib.<alg>(bs).hexdigest()` computed in one go (what the property calls
"the standard digest of the file bytes") -/
def oneShot {σ : Type} (hl : HashLib σ) (alg : Str) (bs : Bytes) : Str :=
  hl.hexdigest (hl.update (hl.new alg) bs)

/-! ## Wrapping bytes for HDF5 -/

/-- the Python values that reach `create_dataset(data=…)` / come back from `node[()]` -/
inductive H5Val where
  /-- `numpy.void(bs)` (opaque, fixed size `len(bs)`) -/
  | void (bs : Bytes)
  /-- `h5py.Empty("b")` (null dataspace) -/
  | empty
  /-- a plain Python `bytes` object (h5py: variable-length string) -/
  | str (bs : Bytes)
  /-- `numpy.bytes_(bs)` (fixed-length `S` string) -/
  | fixed (bs : Bytes)
deriving DecidableEq, Repr

/-- `_h5_wrap_bytes` -/
def wrapBytes (bs : Bytes) : H5Val :=
  if bs.length ≠ 0 then .void bs else .empty

/-- what consumers get out of `node[()]`: `np.void.tobytes()` (= `.tolist()`), nothing for
`Empty`, the string bytes otherwise -/
def unwrap : H5Val → Bytes
  | .void bs => bs
  | .empty => []
  | .str bs => bs
  | .fixed bs => bs

/-- Python `bytes.rstrip(b"\0")` (what numpy does to `S` strings) -/
def rstripNul (bs : Bytes) : Bytes :=
  (bs.reverse.dropWhile (· == 0)).reverse

/-- HDF5 round trip of one scalar: `g.create_dataset(p, data=v); g[p][()]`
(observed h5py behaviour; validated by the correspondence on every run). -/
def h5Store : H5Val → Except Err H5Val
  | .void bs => if bs.length = 0 then .error .valueError  -- "Size must be positive"
                else .ok (.void bs)
  | .empty => .ok .empty
  | .str bs => if bs.contains 0 then .error .valueError  -- "VLEN strings do not support embedded NULLs"
               else .ok (.str bs)
  | .fixed bs => .ok (.fixed (rstripNul bs))

/-! ## The deletion marker of IH5 -/

/-- `DEL_VALUE = np.void(b"\x7f")` -/
def delMark : H5Val := .void [0x7f]

/-- `_is_del_mark(val)` -/
def isDelMark : H5Val → Bool
  | .void bs => bs == [0x7f]   -- `val.tobytes() == DEL_VALUE.tobytes()`
  | _ => false                 -- `isinstance(val, np.void)` fails

/-- first test of `IH5Node._guard_value` -/
def guardValue (v : H5Val) : Except Err Unit :=
  if isDelMark v then .error .valueError else .ok ()

/-! ## `pack_file` on a tiny container model -/

/-- `core.file` metadata as far as the property observes it -/
structure FileMeta where
  contentSize : Nat
  sha256 : Str
deriving DecidableEq, Repr

/-- `FileMetaHarvester.run` -/
def harvestFileMeta {σ : Type} (hl : HashLib σ) (bs : Bytes) : Except Err FileMeta :=
  match hashsum hl bs sha256 with
  | .ok h => .ok { contentSize := bs.length, sha256 := h }
  | .error e => .error e

inductive Driver where
  | h5
  | ih5
deriving DecidableEq, Repr

/-- datasets and their attached `core.file` objects, newest first -/
structure Store where
  data : List (Str × H5Val)
  fmeta : List (Str × FileMeta)
deriving DecidableEq, Repr

def Store.get (st : Store) (p : Str) : Option H5Val :=
  match st.data.find? (·.1 == p) with
  | some e => some e.2
  | none => none

def Store.getMeta (st : Store) (p : Str) : Option FileMeta :=
  match st.fmeta.find? (·.1 == p) with
  | some e => some e.2
  | none => none

/-- `create_dataset(path, data=v)` on a fresh path: IH5 guards the value first, then both
drivers hand the value to HDF5 -/
def createDataset (drv : Driver) (st : Store) (p : Str) (v : H5Val) : Except Err Store :=
  match (if drv = .ih5 then guardValue v else .ok ()) with
  | .error e => .error e
  | .ok () =>
    match h5Store v with
    | .error e => .error e
    | .ok v' => .ok { st with data := (p, v') :: st.data }

/-- `pack_file(node, file_path, target=p)` where the file holds `bs` -/
def packFile {σ : Type} (hl : HashLib σ) (drv : Driver) (st : Store) (p : Str) (bs : Bytes) :
    Except Err Store :=
  if (st.get p).isSome then .error .valueError   -- "already exists in given container"
  else
    match harvestFileMeta hl bs with
    | .error e => .error e
    | .ok m =>
      match createDataset drv st p (wrapBytes bs) with
      | .error e => .error e
      | .ok st' => .ok { st' with fmeta := (p, m) :: st'.fmeta }

/-- what a reader sees at `p`: the bytes of `node[()]` and the attached file metadata -/
def readFile (st : Store) (p : Str) : Option (Bytes × Option FileMeta) :=
  match st.get p with
  | some v => some (unwrap v, st.getMeta p)
  | none => none

end MetadorModel.Bytes
