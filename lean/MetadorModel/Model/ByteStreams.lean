import MetadorModel.Model.Bytes
/-!
# Binary streams that deliver short reads (property C19, clause "independent of … read chunking")

`Model/Bytes.lean` treats the argument of `hashsum` as the bytes it holds: `data.read(n)` returns
the next `n` bytes (all that is left when fewer remain). That is what `bytes`, `BytesIO` and a
buffered regular file do. A `BinaryIO` in general may hand out FEWER bytes than asked for before
the end of the stream — raw streams (`io.RawIOBase`), unbuffered pipes, sockets, wrappers with a
small transfer size; only `b""` means end of stream. This file models such a stream as the bytes
it holds plus a *delivery schedule* `cap : Nat → Nat`: the `i`-th `read(n)` call returns the next
`min n (cap i)` bytes. `cap i = 0` would be a read that returns `b""` although bytes are left,
i.e. a stream that announces its end early; the theorems assume `0 < cap i`.

Mirrors the same source lines as `Bytes.readLoop` (`metador_core/util/hashsums.py` `hashsum`,
lines 18–33: `while True: chunk = data.read(h.block_size); if not chunk: break; h.update(chunk)`),
`hashsum` and `qualified_hashsum`, with the stream parameterised by its schedule. `Bytes.readLoop`
is the instance "never short" (`readLoopS_full` in `Proofs/ByteStreams.lean`).

Import-free apart from `Model/Bytes.lean`.
-/
namespace MetadorModel.Bytes

/-- The loop of `hashsum` on a stream with delivery schedule `cap`; `i` counts the `read` calls
made so far. `fuel` bounds the number of `read` calls (`data.length + 1` is enough when every
`cap i` is positive: an iteration that does not leave the loop has read at least one byte). -/
def readLoopS {σ : Type} (hl : HashLib σ) (cap : Nat → Nat) : Nat → Nat → Bytes → σ → σ
  | 0, _, _, h => h
  | fuel + 1, i, data, h =>
    let m := min (hl.blockSize h) (cap i)
    let chunk := data.take m
    if chunk.isEmpty then h
    else readLoopS hl cap fuel (i + 1) (data.drop m) (hl.update h chunk)

/-- `hashsum(stream, alg)` where `stream` holds `bs` and delivers by `cap` -/
def hashsumS {σ : Type} (hl : HashLib σ) (cap : Nat → Nat) (bs : Bytes) (alg : Str) :
    Except Err Str :=
  if alg ∈ hashAlgs then
    let h := hl.new alg
    .ok (hl.hexdigest (readLoopS hl cap (bs.length + 1) 0 bs h))
  else .error .valueError

/-- `qualified_hashsum(stream, alg)` -/
def qualifiedHashsumS {σ : Type} (hl : HashLib σ) (cap : Nat → Nat) (bs : Bytes) (alg : Str) :
    Except Err Str :=
  match hashsumS hl cap bs alg with
  | .ok h => .ok (alg ++ ':' :: h)
  | .error e => .error e

/-- a schedule that repeats the list `cyc` for ever (`[]`: never short) -/
def cyclic (cyc : List Nat) (big : Nat) (i : Nat) : Nat :=
  match cyc[i % cyc.length]? with
  | some k => k
  | none => big

end MetadorModel.Bytes
