import MetadorModel.Model.Chain
/-!
# Model of the user-block byte codec (properties C04, C11)

Mirrors `metador_core/ih5/record.py`

* `IH5UserBlock._read_head_raw` (lines 104–120): read `ub_size` bytes from offset 0, decode,
  `split("\n")` must give exactly three parts and the first must be the magic string,
  `int(dat[1])`, and the text `dat[2][: dat[2].find("\x00")]` — **including the Python trap
  that `find` returns `-1` when there is no NUL, so the last character is dropped**;
* `IH5UserBlock.load` (lines 122–135): 512-byte probe, re-read with the stated size when it
  is larger than 512, `json.loads` + `parse_obj`;
* `IH5UserBlock.save` (lines 137–150): `magic \n size \n json`, must be shorter than 1024
  bytes, refused when the file starts with the HDF5 signature, written in place at offset 0
  followed by one NUL byte.

A file is a list of bytes; byte `b` is represented by `Char.ofNat b`. Only ASCII blocks are
modelled (`json()` of a user block is ASCII): a non-ASCII byte in the probed region gives
`Err.nonAscii` ("outside the model"; the real code raises `UnicodeDecodeError` on invalid
UTF-8 and goes on otherwise).

`json.loads` + pydantic are modelled for the **canonical serialisation** only, i.e. exactly
the texts `IH5UserBlock.json()` emits for blocks whose `ub_exts` is `{}` or holds the manifest
extension: fixed key order, separators `", "` / `": "`, lower-case uuids, canonical decimal
index, `sha256:`/`sha512:` hash strings. Any other text is `Err.nonCanonical` (the real parser
is more lenient: key order, white space, number/uuid spellings; the harness reports an
accepted non-canonical block as a diagnostic for C04 and as a disagreement for C11's torn
blocks, where it would be a third outcome).

Import-free apart from `Model.Chain` (record structures).
-/
namespace MetadorModel.UBlock
open MetadorModel.Chain

abbrev Bytes := List Char

def MAGIC : List Char :=  -- "ih5_v01"
  ['i', 'h', '5', '_', 'v', '0', '1']
def UBSIZE : Nat := 1024

inductive Err
  | nonAscii        -- outside the model
  | notIH5          -- `_read_head_raw` returned None on the 512-byte probe (ValueError)
  | badSize         -- `int(dat[1])` raised ValueError
  | reread          -- `assert head is not None` after the re-read
  | nonCanonical    -- text is not a canonical user-block serialisation (json/pydantic error, or lenient accept)
deriving DecidableEq, Repr, Inhabited

/-! ## Python string helpers -/

/-- `s.split(c)` for a one-character separator -/
def splitOn (c : Char) : List Char → List (List Char)
  | [] => [[]]
  | x :: xs =>
    if x = c then [] :: splitOn c xs
    else match splitOn c xs with
      | [] => [[x]]
      | h :: t => (x :: h) :: t

/-- the part before the first NUL, `none` when there is no NUL -/
def untilNul : List Char → Option (List Char)
  | [] => none
  | c :: cs => if c = '\x00' then some [] else (untilNul cs).map (c :: ·)

/-- `s[: s.find("\x00")]` — `find` gives `-1` when absent, so `s[:-1]` -/
def cutNul (s : List Char) : List Char :=
  match untilNul s with
  | some t => t
  | none => s.dropLast

/-- characters `int()` strips (ASCII part of `str.isspace`) -/
def isPySpace (c : Char) : Bool :=
  let n := c.toNat
  (9 ≤ n && n ≤ 13) || (28 ≤ n && n ≤ 32)

def isDigit (c : Char) : Bool := '0' ≤ c && c ≤ '9'

/-- digits with single underscores between digits (`1_000`), value accumulated -/
def digitsUS : Nat → Bool → List Char → Option Nat
  -- acc, "previous char was a digit", rest
  | acc, prevDigit, [] => if prevDigit then some acc else none
  | acc, prevDigit, c :: cs =>
    if isDigit c then digitsUS (acc * 10 + (c.toNat - 48)) true cs
    else if c = '_' && prevDigit then
      match cs with
      | d :: _ => if isDigit d then digitsUS acc false cs else none
      | [] => none
    else none

/-- Python `int(s)` for an ASCII string, base 10 -/
def pyInt (s : List Char) : Option Int :=
  let t := ((s.dropWhile isPySpace).reverse.dropWhile isPySpace).reverse
  match t with
  | '-' :: r => (digitsUS 0 false r).map (fun n => - (Int.ofNat n))
  | '+' :: r => (digitsUS 0 false r).map Int.ofNat
  | r => (digitsUS 0 false r).map Int.ofNat

/-! ## Framing: `_read_head_raw` and `load` -/

/-- `_read_head_raw(stream, n)`: `ok none` = returned `None`. -/
def readHeadRaw (file : Bytes) (n : Nat) : Except Err (Option (Int × List Char)) :=
  let probe := file.take n
  if probe.any (fun c => c.toNat ≥ 128) then throw .nonAscii
  else match splitOn '\n' probe with
    | [m, sz, txt] =>
      if m ≠ MAGIC then pure none
      else match pyInt sz with
        | none => throw .badSize
        | some k => pure (some (k, cutNul txt))
    | _ => pure none

/-- the framing part of `load`: stated size and embedded text -/
def loadText (file : Bytes) : Except Err (Int × List Char) := do
  match ← readHeadRaw file 512 with
  | none => throw .notIH5
  | some (sz, txt) =>
    if sz > 512 then
      match ← readHeadRaw file sz.toNat with
      | none => throw .reread
      | some h => pure h
    else pure (sz, txt)

/-! ## Canonical JSON text of a user block -/

/-- user block with its fields as they stand in the text -/
structure ExtT where
  isStub : Bool
  muuid  : List Char
  mhash  : List Char
deriving DecidableEq, Repr, Inhabited

structure UBT where
  rid  : List Char
  idx  : List Char
  pid  : List Char
  prev : Option (List Char)
  hash : Option (List Char)
  ext  : Option ExtT
deriving DecidableEq, Repr, Inhabited

def isHexL (c : Char) : Bool := ('0' ≤ c && c ≤ '9') || ('a' ≤ c && c ≤ 'f')
def isHex (c : Char) : Bool := isHexL c || ('A' ≤ c && c ≤ 'F')

/-- `n` lower-case hex digits, then `k` -/
def hexRun : Nat → List Char → Option (List Char)
  | 0, s => some s
  | n + 1, c :: s => if isHexL c then hexRun n s else none
  | _ + 1, [] => none

def dash : List Char → Option (List Char)
  | [] => none
  | c :: s => if c = '-' then some s else none

/-- canonical uuid text `8-4-4-4-12`, lower case (what `str(UUID)` / `json()` emit) -/
def isUuid (s : List Char) : Bool :=
  match (hexRun 8 s).bind dash |>.bind (hexRun 4) |>.bind dash |>.bind (hexRun 4) |>.bind dash
      |>.bind (hexRun 4) |>.bind dash |>.bind (hexRun 12) with
  | some [] => true
  | _ => false

/-- canonical decimal of a non-negative int -/
def isDec : List Char → Bool
  | [] => false
  | c :: cs => if c = '0' then cs.isEmpty else ('1' ≤ c && c ≤ '9' && cs.all isDigit)

/-! literal pieces of the canonical text (named, so that proofs can treat them as opaque) -/
def S_null : List Char :=  -- "null"
  ['n', 'u', 'l', 'l']
def S_true : List Char :=  -- "true"
  ['t', 'r', 'u', 'e']
def S_false : List Char :=  -- "false"
  ['f', 'a', 'l', 's', 'e']
def S_obj0 : List Char :=  -- "{}"
  ['{', '}']
def S_sha256 : List Char :=  -- "sha256:"
  ['s', 'h', 'a', '2', '5', '6', ':']
def S_sha512 : List Char :=  -- "sha512:"
  ['s', 'h', 'a', '5', '1', '2', ':']
def E1 : List Char :=  -- "{\"ih5mf_v01\": {\"is_stub_container\": "
  ['{', '"', 'i', 'h', '5', 'm', 'f', '_', 'v', '0', '1', '"', ':', ' ', '{', '"', 'i', 's', '_', 's', 't', 'u', 'b', '_', 'c', 'o', 'n', 't', 'a', 'i', 'n', 'e', 'r', '"', ':', ' ']
def E2 : List Char :=  -- ", \"manifest_uuid\": "
  [',', ' ', '"', 'm', 'a', 'n', 'i', 'f', 'e', 's', 't', '_', 'u', 'u', 'i', 'd', '"', ':', ' ']
def E3 : List Char :=  -- ", \"manifest_hashsum\": "
  [',', ' ', '"', 'm', 'a', 'n', 'i', 'f', 'e', 's', 't', '_', 'h', 'a', 's', 'h', 's', 'u', 'm', '"', ':', ' ']
def E4 : List Char :=  -- "}}"
  ['}', '}']
def S_close : List Char := ['}']

def hexOk (s : List Char) : Bool := !s.isEmpty && s.all isHex

/-- strip a literal prefix -/
def lit : List Char → List Char → Option (List Char)
  | [], s => some s
  | _ :: _, [] => none
  | p :: ps, c :: s => if p = c then lit ps s else none

/-- `QualHashsumStr`: `(?:sha256|sha512):[0-9a-fA-F]+` (full match) -/
def isQHash (s : List Char) : Bool :=
  match lit S_sha256 s with
  | some h => hexOk h
  | none =>
    match lit S_sha512 s with
    | some h => hexOk h
    | none => false

def decVal (s : List Char) : Nat := s.foldl (fun acc c => acc * 10 + (c.toNat - 48)) 0

/-! ### Rendering (`IH5UserBlock.json()`) -/

def q (s : List Char) : List Char := '"' :: s ++ ['"']

def optStr : Option (List Char) → List Char
  | none => S_null
  | some s => q s

def renderBool (b : Bool) : List Char := if b then S_true else S_false

def renderExt : Option ExtT → List Char
  | none => S_obj0
  | some e => E1 ++ renderBool e.isStub ++ E2 ++ q e.muuid ++ E3 ++ q e.mhash ++ E4

def K1 : List Char :=  -- "{\"record_uuid\": "
  ['{', '"', 'r', 'e', 'c', 'o', 'r', 'd', '_', 'u', 'u', 'i', 'd', '"', ':', ' ']
def K2 : List Char :=  -- ", \"patch_index\": "
  [',', ' ', '"', 'p', 'a', 't', 'c', 'h', '_', 'i', 'n', 'd', 'e', 'x', '"', ':', ' ']
def K3 : List Char :=  -- ", \"patch_uuid\": "
  [',', ' ', '"', 'p', 'a', 't', 'c', 'h', '_', 'u', 'u', 'i', 'd', '"', ':', ' ']
def K4 : List Char :=  -- ", \"prev_patch\": "
  [',', ' ', '"', 'p', 'r', 'e', 'v', '_', 'p', 'a', 't', 'c', 'h', '"', ':', ' ']
def K5 : List Char :=  -- ", \"hdf5_hashsum\": "
  [',', ' ', '"', 'h', 'd', 'f', '5', '_', 'h', 'a', 's', 'h', 's', 'u', 'm', '"', ':', ' ']
def K6 : List Char :=  -- ", \"ub_exts\": "
  [',', ' ', '"', 'u', 'b', '_', 'e', 'x', 't', 's', '"', ':', ' ']

def render (u : UBT) : List Char :=
  K1 ++ q u.rid ++ K2 ++ u.idx ++ K3 ++ q u.pid ++ K4 ++ optStr u.prev ++
  K5 ++ optStr u.hash ++ K6 ++ renderExt u.ext ++ S_close

/-- well-formed field texts (what pydantic guarantees for a block it serialises) -/
def ExtT.wf (e : ExtT) : Bool := isUuid e.muuid && isQHash e.mhash

def UBT.wf (u : UBT) : Bool :=
  isUuid u.rid && isDec u.idx && isUuid u.pid &&
  (match u.prev with | none => true | some p => isUuid p) &&
  (match u.hash with | none => true | some h => isQHash h) &&
  (match u.ext with | none => true | some e => e.wf)

/-! ### Parsing (`json.loads` + `parse_obj`, canonical texts only) -/

/-- characters up to (not including) the next `"`, and the rest after that quote -/
def untilQuote : List Char → Option (List Char × List Char)
  | [] => none
  | c :: cs => if c = '"' then some ([], cs) else (untilQuote cs).map (fun (a, r) => (c :: a, r))

/-- a JSON string `"…"` whose content satisfies `ok` (content without quote / escape) -/
def strP (ok : List Char → Bool) : List Char → Option (List Char × List Char)
  | [] => none
  | c :: s =>
    if c = '"' then
      match untilQuote s with
      | some (a, r) => if ok a then some (a, r) else none
      | none => none
    else none

/-- `null` or a string -/
def optP (ok : List Char → Bool) (s : List Char) : Option (Option (List Char) × List Char) :=
  match lit S_null s with
  | some r => some (none, r)
  | none => (strP ok s).map (fun (a, r) => (some a, r))

/-- maximal run of digits -/
def digitRun : List Char → List Char × List Char
  | [] => ([], [])
  | c :: cs => if isDigit c then let (a, r) := digitRun cs; (c :: a, r) else ([], c :: cs)

def decP (s : List Char) : Option (List Char × List Char) :=
  let (a, r) := digitRun s
  if isDec a then some (a, r) else none

def boolP (s : List Char) : Option (Bool × List Char) :=
  match lit S_true s with
  | some r => some (true, r)
  | none => (lit S_false s).map (fun r => (false, r))

def extP (s : List Char) : Option (Option ExtT × List Char) :=
  match lit S_obj0 s with
  | some r => some (none, r)
  | none => do
    let s ← lit E1 s
    let (b, s) ← boolP s
    let s ← lit E2 s
    let (mu, s) ← strP isUuid s
    let s ← lit E3 s
    let (mh, s) ← strP isQHash s
    let s ← lit E4 s
    pure (some ⟨b, mu, mh⟩, s)

/-- parser with remainder -/
def parseP (s : List Char) : Option (UBT × List Char) := do
  let s ← lit K1 s
  let (rid, s) ← strP isUuid s
  let s ← lit K2 s
  let (idx, s) ← decP s
  let s ← lit K3 s
  let (pid, s) ← strP isUuid s
  let s ← lit K4 s
  let (prev, s) ← optP isUuid s
  let s ← lit K5 s
  let (hash, s) ← optP isQHash s
  let s ← lit K6 s
  let (ext, s) ← extP s
  let s ← lit S_close s
  pure (⟨rid, idx, pid, prev, hash, ext⟩, s)

def parseUBT (s : List Char) : Except Err UBT :=
  match parseP s with
  | some (u, []) => pure u
  | _ => throw .nonCanonical

def ExtT.toExt (e : ExtT) : Ext := ⟨e.isStub, e.muuid, e.mhash⟩

def UBT.toUB (u : UBT) : UB :=
  ⟨u.rid, decVal u.idx, u.pid, u.prev, u.hash, u.ext.map ExtT.toExt⟩

/-- `IH5UserBlock.load`, text level -/
def loadUBT (file : Bytes) : Except Err UBT := do
  let (_, txt) ← loadText file
  parseUBT txt

/-- `IH5UserBlock.load` -/
def loadUB (file : Bytes) : Except Err UB := (loadUBT file).map UBT.toUB

/-! ## Writing: `save` -/

/-- decimal text of `_userblock_size` for blocks made by `create` -/
def SZ1024 : List Char :=  -- "1024"
  ['1', '0', '2', '4']

/-- the bytes `save` writes at offset 0: `magic \n size \n json` and one NUL
(`size` = `str(self._userblock_size)`) -/
def frame (size : List Char) (u : UBT) : Bytes :=
  MAGIC ++ ['\n'] ++ size ++ ['\n'] ++ render u ++ ['\x00']

/-- an in-place write at offset 0 that is cut after `k` bytes (`k ≥ data.length`: complete) -/
def torn (k : Nat) (old data : Bytes) : Bytes := data.take k ++ old.drop k

inductive SaveErr
  | tooLong      -- `assert len(data) < USER_BLOCK_SIZE`
  | noUserBlock  -- file starts with `\x89HDF`
deriving DecidableEq, Repr

/-- `IH5UserBlock.save` on the first bytes of a file -/
def saveUB (old : Bytes) (size : List Char) (u : UBT) : Except SaveErr Bytes :=
  let data := frame size u
  if data.length - 1 ≥ UBSIZE then throw .tooLong
  else if old.take 4 = ['\x89', 'H', 'D', 'F'] then throw .noUserBlock
  else pure (torn data.length old data)

end MetadorModel.UBlock
