import MetadorModel.Model.UBlock
/-!
# Crash states of a patching session (property C11)

`create_patch` and `commit_patch` of `metador_core/ih5/record.py`, unfolded into the
file-system steps they perform on the **one new container file** `nn` (and, for
`IH5MFRecord.commit_patch`, its sidecar manifest):

```
create_patch → _new_container(path, ub)           record.py:238-246, 532-542
  1. h5py.File(path, "x", userblock_size=1024); close     file appears, user block all zero
  2. ub.save(path)                                        in-place write of `frame ub` at offset 0
  3. h5py.File(path, "r+"), writes through HDF5           payload changes, user block untouched
commit_patch                                              record.py:565-590
  4. cfile.close()                                        payload final (`pf`)
  5. chksum = hashsum_file(path, skip_bytes=1024)         nothing written
  6. ublock.hdf5_hashsum = chksum; ublock.save(path)      in-place write of `frame ub'` at offset 0
  7. h5py.File(path, "r")                                 nothing written
IH5MFRecord.commit_patch                                  manifest.py:218-249
  8. mf.save(<path>mf.json)                               sidecar manifest written
discard_patch → unlink(path)                              record.py:544-563
```

A crash state is the disk after any prefix of these steps, with
* an in-place write cut after any number `k` of bytes: `torn k old data = data.take k ++ old.drop k`;
* the payload of the uncommitted container arbitrary while HDF5 may be writing (`∀ p, ok`);
* the file under creation shorter than its user block (`n ≤ 1024` zero bytes);
* the manifest file absent or with arbitrary content (`m : Option M`).

Every step touches only `nn` (and `nn`'s manifest): that is `Reach` by construction and
`crash_frame` states it.
-/
namespace MetadorModel.Crash
open MetadorModel.Chain MetadorModel.UBlock

abbrev Name := String

/-- a container file on disk: the bytes of the user-block region, the rest, "is HDF5" -/
structure CFile (P : Type) where
  head    : Bytes
  payload : P
  h5ok    : Bool

structure Disk (P M : Type) where
  cont : Name → Option (CFile P)
  mf   : Name → Option M

variable {P M : Type}

def Disk.setC (d : Disk P M) (n : Name) (c : CFile P) : Disk P M :=
  { d with cont := fun x => if x = n then some c else d.cont x }

def Disk.setM (d : Disk P M) (n : Name) (m : Option M) : Disk P M :=
  { d with mf := fun x => if x = n then m else d.mf x }

/-- what `_open` gets to see of file `n`: `none` = the user block does not load.
(The files named are those found in the directory; a name without file also gives `none`.) -/
def loadFile (d : Disk P M) (n : Name) : Option (File P M) :=
  match d.cont n with
  | none => none
  | some c =>
    match loadUB c.head with
    | .ok u => some { ub := u, payload := c.payload, h5ok := c.h5ok, mf := d.mf n }
    | .error _ => none

/-- `IH5Record(names, "r")` / `IH5MFRecord(names, "r")` on a disk -/
def openRec (H : P → Digest) (HM : M → Digest) (mfAware : Bool) (d : Disk P M) (names : List Name) :
    Except Chain.Err (List (File P M)) :=
  openFiles H HM mfAware false (names.map (loadFile d))

def zeros (n : Nat) : Bytes := List.replicate n '\x00'

/-- a user-block region after a complete `save` of `u` over `old` -/
def written (old : Bytes) (u : UBT) : Bytes := torn (frame SZ1024 u).length old (frame SZ1024 u)

/-- The crash states of one patching session on top of the disk `d0`: new container `nn`,
user block `uOld` as made by `IH5UserBlock.create` (no hash), `uNew` as written by commit,
final payload `pf`. -/
inductive Reach (d0 : Disk P M) (nn : Name) (uOld uNew : UBT) (pf : P) : Disk P M → Prop
  /-- before step 1, or after `discard_patch` -/
  | absent : Reach d0 nn uOld uNew pf d0
  /-- during / after step 1: the file exists, its user-block region is (a prefix of) zeros -/
  | creating (n : Nat) (hn : n ≤ UBSIZE) (p : P) (ok : Bool) :
      Reach d0 nn uOld uNew pf (d0.setC nn ⟨zeros n, p, ok⟩)
  /-- during step 2: the first `save`, cut after `k` bytes -/
  | initUB (k : Nat) (p : P) (ok : Bool) :
      Reach d0 nn uOld uNew pf (d0.setC nn ⟨torn k (zeros UBSIZE) (frame SZ1024 uOld), p, ok⟩)
  /-- steps 3–5: uncommitted block in place, payload arbitrary -/
  | filling (p : P) (ok : Bool) :
      Reach d0 nn uOld uNew pf (d0.setC nn ⟨written (zeros UBSIZE) uOld, p, ok⟩)
  /-- during step 6: the committing `save`, cut after `k` bytes; payload final -/
  | committing (k : Nat) (ok : Bool) :
      Reach d0 nn uOld uNew pf
        (d0.setC nn ⟨torn k (written (zeros UBSIZE) uOld) (frame SZ1024 uNew), pf, ok⟩)
  /-- steps 7–8: committed block in place; manifest absent, partial or complete -/
  | manifest (m : Option M) (ok : Bool) :
      Reach d0 nn uOld uNew pf
        ((d0.setC nn ⟨written (written (zeros UBSIZE) uOld) uNew, pf, ok⟩).setM nn m)

/-! ## Opening a record for writing (recovery after a crash, patching on)

`IH5Record.__init__(record, mode)` with a writable mode (record.py:496-504): `want_rw = mode != "r"`,
so **both** `"r+"` and `"a"` take the same path:

```
ret = _open(paths, reopen_incomplete_patch=True)   newest container without hash → reopened "r+"   (374-380)
if not _has_writable: create_patch()               otherwise a new container is created            (502-504)
   path = <name>.p<newest index + 1>.ih5           _next_patch_filepath                            (220-226)
   h5py.File(path, "x", …)                         fails with FileExistsError when the name is taken (241)
```
`taken` says whether a file with the computed name of the next patch exists in the directory (it
does, for instance, whenever a strict prefix of the file list is opened). -/

/-- what a writable open does once `_open` accepted the files -/
inductive WAct
  /-- the interrupted (uncommitted) newest container is opened `r+` again; nothing is created -/
  | reopen
  /-- a new patch container is created under a name that did not exist -/
  | create
  /-- `FileExistsError`: the name of the next patch is taken; nothing is written -/
  | refuse
deriving DecidableEq, Repr

/-- `_has_writable` after `_open(…, reopen_incomplete_patch=True)`, then `create_patch` -/
def writableAct (s : List (File P M)) (taken : Bool) : WAct :=
  match s.getLast? with
  | none => .refuse   -- `_open` never returns an empty list
  | some f => if f.ub.hash.isNone then .reopen else if taken then .refuse else .create

/-- `IH5Record(names, "r+" | "a")` on loaded files -/
def openW (H : P → Digest) (HM : M → Digest) (mfAware : Bool) (fs : List (Option (File P M))) (taken : Bool) :
    Except Chain.Err WAct :=
  (openFiles H HM mfAware false fs).map (fun s => writableAct s taken)

/-- `IH5Record(names, "r+" | "a")` on a disk; `next i` is the file name of patch number `i` -/
def openRecW (H : P → Digest) (HM : M → Digest) (mfAware : Bool) (next : Nat → Name) (d : Disk P M)
    (names : List Name) : Except Chain.Err WAct :=
  (openRec H HM mfAware d names).map (fun s =>
    writableAct s (match s.getLast? with
      | none => false
      | some f => (d.cont (next (f.ub.idx + 1))).isSome))

end MetadorModel.Crash
