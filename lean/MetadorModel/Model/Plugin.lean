/-!
# Model of plugin references and plugin-group version tables (property C16)

Mirrors `metador_core/schema/plugins.py` (`PluginRef.__eq__/__ge__/__hash__/supports`,
the operators `functools.total_ordering` derives from `__ge__`),
`metador_core/plugin/interface.py` (`PluginGroup._add_ep`, `versions`, `resolve`,
`__contains__`, `keys`, `get`, `__getitem__`), `metador_core/plugin/util.py` (`register_in_group`) and
`metador_core/plugin/types.py` (`to_ep_name`, `from_ep_name`, name / semver grammars).

Import-free: only core Lean.
-/
namespace MetadorModel.Plugin

/-- A semantic version triple (`SemVerTuple`, non-negative ints). -/
abbrev Ver := Nat × Nat × Nat

/-- `PluginRef(group, name, version)`. Strings are compared like Python `str`
(lexicographically by code point), which is what Lean's `String` order does. -/
structure Ref where
  group : String
  name  : String
  ver   : Ver
deriving DecidableEq, Repr, Inhabited

/-- Python tuple comparison `a >= b` on int triples (lexicographic). -/
def verGe (a b : Ver) : Bool :=
  if a.1 ≠ b.1 then decide (a.1 ≥ b.1)
  else if a.2.1 ≠ b.2.1 then decide (a.2.1 ≥ b.2.1)
  else decide (a.2.2 ≥ b.2.2)

/-- `PluginRef.__eq__`. -/
def eq (a b : Ref) : Bool :=
  a.group == b.group && a.name == b.name && a.ver == b.ver

/-- `PluginRef.__hash__` hashes the triple `(group, name, version)`; modelled as that triple. -/
def hashKey (a : Ref) : String × String × Ver := (a.group, a.name, a.ver)

/-- `PluginRef.__ge__` (current code). -/
def ge (a b : Ref) : Bool :=
  if a.group ≠ b.group then decide (a.group ≥ b.group)
  else if a.name ≠ b.name then decide (a.name ≥ b.name)
  else verGe a.ver b.ver

/-- Python truthiness of an `Optional[bool]` result (`None` is falsy). -/
def truthy : Option Bool → Bool
  | some b => b
  | none => false

/-! The operators that `functools.total_ordering` derives from a user `__ge__`
(`_gt_from_ge`, `_le_from_ge`, `_lt_from_ge`), for an arbitrary `__ge__` that may
return `None`. -/
section Derived
variable (geF : Ref → Ref → Option Bool)
def gtFrom (a b : Ref) : Bool := truthy (geF a b) && !eq a b
def leFrom (a b : Ref) : Bool := !truthy (geF a b) || eq a b
def ltFrom (a b : Ref) : Bool := !truthy (geF a b)
end Derived

def geO (a b : Ref) : Option Bool := some (ge a b)
def gt := gtFrom geO
def le := leFrom geO
def lt := ltFrom geO

/-- `PluginRef.supports`. -/
def supports (a b : Ref) : Bool :=
  if a.group ≠ b.group then false
  else if a.name ≠ b.name then false
  else if a.ver.1 ≠ b.ver.1 then false
  else if a.ver.2.1 < b.ver.2.1 then false
  else true

namespace Legacy
/-- The `__ge__` of the pinned tree: falls off the end (returns `None`) on equal refs. -/
def geO (a b : Ref) : Option Bool :=
  if a.group ≠ b.group then some (decide (a.group ≥ b.group))
  else if a.name ≠ b.name then some (decide (a.name ≥ b.name))
  else if a.ver ≠ b.ver then some (verGe a.ver b.ver)
  else none
def lt := ltFrom geO
end Legacy

/-! ## Version tables -/

/-- Insert into an ascending list *after* all elements that are not greater
(what a stable sort does with an element appended at the end). -/
def insertSorted (ltF : Ref → Ref → Bool) (x : Ref) : List Ref → List Ref
  | [] => [x]
  | y :: ys => if ltF x y then x :: y :: ys else y :: insertSorted ltF x ys

/-- Python `list.sort()` (stable, uses only `<`): stable insertion sort. -/
def sortWith (ltF : Ref → Ref → Bool) (l : List Ref) : List Ref :=
  l.foldl (fun acc x => insertSorted ltF x acc) []

def sortRefs : List Ref → List Ref := sortWith lt

/-- `_VERSIONS`: plugin name ↦ list of refs, as an association list in insertion order. -/
abbrev Table := List (String × List Ref)

def Table.get : Table → String → List Ref
  | [], _ => []
  | (k, l) :: t, n => if k == n then l else Table.get t n

/-- `d[n] = l` on an insertion-ordered dict. -/
def Table.set : Table → String → List Ref → Table
  | [], n, l => [(n, l)]
  | (k, l') :: t, n, l => if k == n then (k, l) :: t else (k, l') :: Table.set t n l

/-- `_add_ep` / `register_in_group`: append the new ref to the list of its name, sort. -/
def register (t : Table) (r : Ref) : Table :=
  t.set r.name (sortRefs (t.get r.name ++ [r]))

/-- `PluginGroup.versions(name, version)` for a group called `grp`. -/
def versions (grp : String) (t : Table) (n : String) (v : Option Ver) : List Ref :=
  match v with
  | none => t.get n
  | some v => (t.get n).filter (fun r => supports r ⟨grp, n, v⟩)

/-- `PluginGroup.resolve`. -/
def resolve (grp : String) (t : Table) (n : String) (v : Option Ver) : Option Ref :=
  (versions grp t n v).getLast?

/-- `PluginGroup.__contains__` for `(name, version?)`. -/
def contains (grp : String) (t : Table) (n : String) (v : Option Ver) : Bool :=
  match t.get n, v with
  | [], _ => false
  | _ :: _, none => true
  | l, some v => l.any (fun r => eq ⟨grp, n, v⟩ r)

/-- `PluginGroup.keys()`: `for pgs in self._VERSIONS.values(): yield from pgs` — all
references, name by name in dict (first registration) order. -/
def Table.keys : Table → List Ref
  | [] => []
  | (_, l) :: t => l ++ Table.keys t

/-- `PluginGroup.get(name, version)` / `_get_unsafe`: the plugin that `resolve` picks
(`none` = `KeyError` inside, `None` outside). The loaded class is identified by its reference. -/
def getPlugin (grp : String) (t : Table) (n : String) (v : Option Ver) : Option Ref :=
  resolve grp t n v

/-- `PluginGroup.__getitem__`: `KeyError` (outer `none`) unless `key in self`, else `get(key)`. -/
def getItem (grp : String) (t : Table) (n : String) (v : Option Ver) : Option (Option Ref) :=
  if contains grp t n v then some (getPlugin grp t n v) else none

/-! ## Entry-point names -/

def isLetter (c : Char) : Bool := 'a' ≤ c && c ≤ 'z'
def isDigit (c : Char) : Bool := '0' ≤ c && c ≤ '9'
def isAlnum (c : Char) : Bool := isLetter c || isDigit c
def isSep (c : Char) : Bool := c == '_' || c == '-'

/-- Recogniser for `({LETSEP}?{ALNUM})*`, i.e. the tail of `NAME` after the first two chars. -/
def nameTail : List Char → Bool
  | [] => true
  | [c] => isAlnum c
  | c :: d :: rest =>
    if isAlnum c then nameTail (d :: rest)
    else if isSep c && isAlnum d then nameTail rest
    else false

/-- Recogniser for `NAME = [a-z][a-z0-9]([_-]?[a-z0-9])*`. -/
def isName : List Char → Bool
  | c :: d :: rest => isLetter c && isAlnum d && nameTail rest
  | _ => false

/-- Python `str.split(sep)` for a single-character separator. -/
def splitChar (sep : Char) : List Char → List (List Char)
  | [] => [[]]
  | c :: cs =>
    if c == sep then [] :: splitChar sep cs
    else match splitChar sep cs with
      | [] => [[c]]
      | h :: t => (c :: h) :: t

/-- `QUAL_NAME = NAME([.]NAME)*`. -/
def isQualName (s : List Char) : Bool := (splitChar '.' s).all isName

def isDigits (s : List Char) : Bool := !s.isEmpty && s.all isDigit

/-- `SEMVER_STR_REGEX` as full match. -/
def isSemVer (s : List Char) : Bool :=
  match splitChar '.' s with
  | [a, b, c] => isDigits a && isDigits b && isDigits c
  | _ => false

/-- Python `str.split("__")` (leftmost, non-overlapping occurrences). `acc` is the current
piece in reverse. -/
def splitUU : List Char → List Char → List (List Char)
  | [], acc => [acc.reverse]
  | '_' :: '_' :: rest, acc => acc.reverse :: splitUU rest []
  | c :: rest, acc => splitUU rest (c :: acc)

def digitChar (d : Nat) : Char := Char.ofNat ('0'.toNat + d)

/-- Python `str(n)` for a non-negative int: decimal digits, most significant first. -/
def natToDigits (n : Nat) : List Char :=
  if _h : n < 10 then [digitChar n] else natToDigits (n / 10) ++ [digitChar (n % 10)]
termination_by n
decreasing_by omega

def digitsToNat (s : List Char) : Nat :=
  s.foldl (fun acc c => acc * 10 + (c.toNat - '0'.toNat)) 0

/-- `to_semver_str`. -/
def semverStr (v : Ver) : List Char :=
  natToDigits v.1 ++ ('.' :: (natToDigits v.2.1 ++ ('.' :: natToDigits v.2.2)))

/-- `from_semver_str (SemVerStr s)`; `none` = the constructor raises. -/
def parseSemVer (s : List Char) : Option Ver :=
  if isSemVer s then
    match splitChar '.' s with
    | [a, b, c] => some (digitsToNat a, digitsToNat b, digitsToNat c)
    | _ => none
  else none

/-- `to_ep_name` (without the `EPName(...)` validation, see `isEpName`). -/
def toEpName (n : List Char) (v : Ver) : List Char := n ++ '_' :: '_' :: semverStr v

/-- `EP_NAME_REGEX` as full match. -/
def isEpName (s : List Char) : Bool :=
  match splitUU s [] with
  | [n, v] => isQualName n && isSemVer v
  | _ => false

/-- `from_ep_name`; `none` = raises (unpacking a split of the wrong arity, bad semver). -/
def fromEpName (s : List Char) : Option (List Char × Ver) :=
  match splitUU s [] with
  | [n, v] => (parseSemVer v).map (fun ver => (n, ver))
  | _ => none

/-! ## The two registration paths, from the strings they are given -/

/-- `ep_name_has_namespace`, on the name part: `len(name.split(".", 1)) > 1`. -/
def hasNamespace (n : List Char) : Bool := n.contains '.'

/-- `PluginGroup._add_ep(epname_str, ep_obj)` on the version table of the group `grp` (`isBase`:
`type(self) is PluginGroup`): `none` = raises (`ValueError`: not an entry point name, or a name
without namespace in a group other than the group of plugin groups), else the reference parsed
from the entry point name is registered. -/
def addEp (grp : String) (isBase : Bool) (t : Table) (e : List Char) : Option Table :=
  if isEpName e then
    match fromEpName e with
    | some (n, v) =>
      if !isBase && !hasNamespace n then none else some (register t ⟨grp, String.ofList n, v⟩)
    | none => none
  else none

/-- `register_in_group(pgroup, plugin, violently=True)` for a class whose inner `Plugin` says
`name = n`, `version = v`: `none` = raises (`TypeError` from `to_ep_name`: the name is not a valid
plugin name), else the reference is registered. -/
def registerManual (grp : String) (t : Table) (n : List Char) (v : Ver) : Option Table :=
  if isEpName (toEpName n v) then some (register t ⟨grp, String.ofList n, v⟩) else none

end MetadorModel.Plugin

namespace MetadorModel.Plugin

/-- `PluginMetaclassMixin.__new__`: creating a class raises `TypeError` iff one of the bases
(given as the list of "is marked by `UndefVersion`" flags, in order) is marked. -/
def newRaises (marked : List Bool) : Bool := marked.any id

end MetadorModel.Plugin
