/-!
# Model of directory diffs (property C18)

Mirrors `metador_core/util/diff.py`:

* `DiffNode.compare` (l. 108–176)  ↦ `addT`/`remT`/`cmpT`/`compare`
* `DiffNode.nodes` (l. 78–93)      ↦ `nodes`
* `DiffNode.status` (l. 95–105)    ↦ `Rec.status`
* `DiffNode._type` (l. 54–62)      ↦ `objType`
* `DiffNode.children`, `DirDiff.get` (l. 71–76, 207–223) ↦ `children`, `getFrom`, `get`

A `DirHashsums` value (nested dict; `str` = file hashsum or `"symlink:<target>"`, `dict` =
directory) is a `DirTree`. A Python `dict` has unique keys and compares without regard to
insertion order; `nodes()` sorts the children of every bucket by path. The model therefore takes a
directory as an association list **sorted strictly by key** (`wf`); with that, walking the entries
in list order is the sorted order the real code produces. The single recursive Python function
`compare(prev, curr, path)` is split by the shape of its arguments (`prev is None` ↦ `addT`,
`curr is None` ↦ `remT`, both present ↦ `cmpT`) so that every function is structurally recursive.

The second half is the *specification side* of "processing the nodes in order is safe": a
simulator `applyAll` that refuses to remove a non-empty directory, to add below a missing
parent or over an existing entry.

Also contains the small library of key-sorted association lists (`AL.get/ins/erase`) that
`Model/Partial.lean` reuses. Import-free.
-/
namespace MetadorModel

/-! ## Association lists sorted by key -/
namespace AL
variable {V : Type}

/-- `d.get(n)` -/
def get : List (String × V) → String → Option V
  | [], _ => none
  | (k, v) :: r, n => if k = n then some v else get r n

/-- `d[n] = x` on a key-sorted list (insert in place or replace). -/
def ins (n : String) (x : V) : List (String × V) → List (String × V)
  | [] => [(n, x)]
  | (k, v) :: r =>
    if n < k then (n, x) :: (k, v) :: r
    else if n = k then (k, x) :: r
    else (k, v) :: ins n x r

/-- `del d[n]` -/
def erase (n : String) : List (String × V) → List (String × V)
  | [] => []
  | (k, v) :: r => if k = n then r else (k, v) :: erase n r

/-- all keys greater than `n` -/
def above (n : String) : List (String × V) → Bool
  | [] => true
  | (k, _) :: r => decide (n < k) && above n r

/-- keys strictly ascending -/
def sorted : List (String × V) → Bool
  | [] => true
  | (k, _) :: r => above k r && sorted r

end AL

namespace Diff

abbrev Path := List String

/-- `DirHashsums`: a file / symlink entry (the stored string) or a directory. -/
inductive DirTree where
  | file (s : String)
  | dir (es : List (String × DirTree))
deriving Repr, Inhabited

abbrev Entries := List (String × DirTree)

mutual
/-- every directory is key-sorted (hence has unique keys) -/
def DirTree.wf : DirTree → Bool
  | .file _ => true
  | .dir es => AL.sorted es && wfEs es
def wfEs : Entries → Bool
  | [] => true
  | (_, t) :: r => t.wf && wfEs r
end

/-- the entry at a relative path (`[]` = the tree itself) -/
def lookup : DirTree → Path → Option DirTree
  | t, [] => some t
  | .file _, _ :: _ => none
  | .dir es, k :: p =>
    match AL.get es k with
    | none => none
    | some t => lookup t p

def DirTree.isDir : DirTree → Bool
  | .dir _ => true
  | .file _ => false

/-! ## `DiffNode` -/

inductive DNode where
  | mk (path : Path) (prev curr : Option DirTree) (removed modified added : List DNode)
deriving Inhabited

def DNode.path : DNode → Path
  | .mk p _ _ _ _ _ => p
def DNode.prev : DNode → Option DirTree
  | .mk _ p _ _ _ _ => p
def DNode.curr : DNode → Option DirTree
  | .mk _ _ c _ _ _ => c

mutual
/-- `compare(None, t, path)`: everything is added. -/
def addT (path : Path) : DirTree → DNode
  | .file s => .mk path none (some (.file s)) [] [] []
  | .dir es => .mk path none (some (.dir es)) [] [] (addEs path es)
def addEs (path : Path) : Entries → List DNode
  | [] => []
  | (k, t) :: r => addT (path ++ [k]) t :: addEs path r
end

mutual
/-- `compare(t, None, path)`: everything is removed. -/
def remT (path : Path) : DirTree → DNode
  | .file s => .mk path (some (.file s)) none [] [] []
  | .dir es => .mk path (some (.dir es)) none (remEs path es) [] []
def remEs (path : Path) : Entries → List DNode
  | [] => []
  | (k, t) :: r => remT (path ++ [k]) t :: remEs path r
end

/-- `for k in prev_keys - curr_keys: removed[path/k] = compare(prev[k], None, path/k)` -/
def remSel (path : Path) : Entries → Entries → List DNode
  | [], _ => []
  | (k, t) :: r, fs =>
    match AL.get fs k with
    | none => remT (path ++ [k]) t :: remSel path r fs
    | some _ => remSel path r fs

/-- `for k in curr_keys - prev_keys: added[path/k] = compare(None, curr[k], path/k)` -/
def addSel (path : Path) : Entries → Entries → List DNode
  | [], _ => []
  | (k, t) :: r, es =>
    match AL.get es k with
    | none => addT (path ++ [k]) t :: addSel path r es
    | some _ => addSel path r es

mutual
/-- `compare(a, b, path)` for two present entries. -/
def cmpT (path : Path) : DirTree → DirTree → Option DNode
  | .file s, .file s' =>
    if s = s' then none else some (.mk path (some (.file s)) (some (.file s')) [] [] [])
  | .file s, .dir fs =>
    some (.mk path (some (.file s)) (some (.dir fs)) [] [] (addEs path fs))
  | .dir es, .file s' =>
    some (.mk path (some (.dir es)) (some (.file s')) (remEs path es) [] [])
  | .dir es, .dir fs =>
    let removed := remSel path es fs
    let modified := cmpEs path es fs
    let added := addSel path fs es
    if removed.isEmpty && modified.isEmpty && added.isEmpty then none
    else some (.mk path (some (.dir es)) (some (.dir fs)) removed modified added)
/-- `for k in intersection: d = compare(prev[k], curr[k], path/k); if d is not None: modified[path/k] = d` -/
def cmpEs (path : Path) : Entries → Entries → List DNode
  | [], _ => []
  | (k, t) :: r, fs =>
    match AL.get fs k with
    | none => cmpEs path r fs
    | some u =>
      match cmpT (path ++ [k]) t u with
      | none => cmpEs path r fs
      | some d => d :: cmpEs path r fs
end

/-- `DiffNode.compare(prev, curr, Path(""))` with `None` for a missing side. -/
def compareAt (path : Path) : Option DirTree → Option DirTree → Option DNode
  | none, none => none
  | none, some b => some (addT path b)
  | some a, none => some (remT path a)
  | some a, some b => cmpT path a b

/-- `DirDiff.compare(prev, curr)._diff_root` -/
def compare (a b : DirTree) : Option DNode := cmpT [] a b

/-- what the listing shows of one node -/
structure Rec where
  path : Path
  prev : Option DirTree
  curr : Option DirTree

inductive Status where
  | added | removed | modified | invalid
deriving DecidableEq, Repr

/-- `DiffNode.status()` (l. 95–105): `prev is None` is tested first, so a node without either
entry (never built by `compare`) counts as added; `Status.invalid` is not produced by the code
(the constructor only remains for the driver's output table). Tied to the source by translation
(`Bridge/Diff.lean`, `gen_status`). -/
def Rec.status (r : Rec) : Status :=
  match r.prev, r.curr with
  | none, _ => .added
  | some _, none => .removed
  | some _, some _ => .modified

/-- `DiffNode.ObjType` -/
inductive ObjType where
  | directory | file | symlink
deriving DecidableEq, Repr

/-- `DiffNode._type(entity)` (l. 54–62): a dict is a directory; a non-empty string is a symlink
iff it starts with `symlink:` and a file otherwise; `None` and the empty string have no type.
Tied to the source by translation (`Bridge/Diff.lean`, `gen_type`). -/
def objType : Option DirTree → Option ObjType
  | none => none
  | some (.dir _) => some .directory
  | some (.file s) =>
    if s = "" then none
    else if "symlink:".toList.isPrefixOf s.toList then some .symlink
    else some .file

mutual
/-- `DiffNode.nodes()`: removed children, modified children, the node itself, added children. -/
def nodes : DNode → List Rec
  | .mk p pv cv rm md ad => nodesL rm ++ (nodesL md ++ (⟨p, pv, cv⟩ :: nodesL ad))
def nodesL : List DNode → List Rec
  | [] => []
  | d :: r => nodes d ++ nodesL r
end

def nodesO : Option DNode → List Rec
  | none => []
  | some d => nodes d

/-- `DiffNode.children()` -/
def children : DNode → List DNode
  | .mk _ _ _ rm md ad => rm ++ (md ++ ad)

/-- `next((x for x in curr.children() if x.path == path), None)` -/
def findPath (p : Path) : List DNode → Option DNode
  | [] => none
  | d :: r => if d.path = p then some d else findPath p r

/-- the loop of `DirDiff.get`: walk down along the prefixes of the requested path. -/
def getFrom (cur : DNode) (pre : Path) : Path → Option DNode
  | [] => some cur
  | k :: rest =>
    match findPath (pre ++ [k]) (children cur) with
    | none => none
    | some c => getFrom c (pre ++ [k]) rest

/-- `DirDiff.get(path)` -/
def get (root : Option DNode) (p : Path) : Option DNode :=
  match root with
  | none => none
  | some r => getFrom r [] p

def DNode.rec' (d : DNode) : Rec := ⟨d.path, d.prev, d.curr⟩

/-! ## Specification side: applying a listing in order -/

/-- what an "add" / "replace" step creates: the file, or an empty directory -/
def shell : DirTree → DirTree
  | .file s => .file s
  | .dir _ => .dir []

/-- only files and *empty* directories may be removed -/
def removable : DirTree → Bool
  | .file _ => true
  | .dir [] => true
  | .dir (_ :: _) => false

/-- remove the entry at `p`; fails on the root, a missing entry, a parent that is not a
directory, or a non-empty directory. -/
def removeAt : DirTree → Path → Option DirTree
  | _, [] => none
  | .file _, _ :: _ => none
  | .dir es, [k] =>
    match AL.get es k with
    | none => none
    | some t => if removable t then some (.dir (AL.erase k es)) else none
  | .dir es, k :: k2 :: p =>
    match AL.get es k with
    | none => none
    | some t =>
      match removeAt t (k2 :: p) with
      | none => none
      | some t' => some (.dir (AL.ins k t' es))

/-- create `x` at `p`; fails on the root, an existing entry, a missing parent or a parent that
is not a directory. -/
def addAt (x : DirTree) : DirTree → Path → Option DirTree
  | _, [] => none
  | .file _, _ :: _ => none
  | .dir es, [k] =>
    match AL.get es k with
    | none => some (.dir (AL.ins k x es))
    | some _ => none
  | .dir es, k :: k2 :: p =>
    match AL.get es k with
    | none => none
    | some t =>
      match addAt x t (k2 :: p) with
      | none => none
      | some t' => some (.dir (AL.ins k t' es))

def bothDir : Option DirTree → Option DirTree → Bool
  | some (.dir _), some (.dir _) => true
  | _, _ => false

/-- process one listed node the way a packer does (`packer/example.py`, `update`):
removed ↦ delete; added ↦ create; modified directory that stays a directory ↦ nothing (it
must exist); any other modification ↦ delete, then create. -/
def applyRec (t : DirTree) (r : Rec) : Option DirTree :=
  match r.prev, r.curr with
  | none, none => none
  | none, some c => addAt (shell c) t r.path
  | some _, none => removeAt t r.path
  | some pv, some c =>
    if bothDir (some pv) (some c) then
      match lookup t r.path with
      | some (.dir _) => some t
      | _ => none
    else
      match removeAt t r.path with
      | none => none
      | some t' => addAt (shell c) t' r.path

def applyAll : DirTree → List Rec → Option DirTree
  | t, [] => some t
  | t, r :: rs =>
    match applyRec t r with
    | none => none
    | some t' => applyAll t' rs

end Diff
end MetadorModel
