import MetadorModel.Model.Record
/-! Helper lemmas for the record model: the directory as an association list, frame
conditions of every API call (C02). No Mathlib needed. -/
namespace MetadorModel.Record
open MetadorModel.FindFiles

/-! ## association list -/

theorem getF_setF_eq (d : Disk) (f : Name) (v : File) : getF (setF d f v) f = some v := by
  induction d with
  | nil => simp [setF, getF]
  | cons x r ih =>
    obtain ⟨k, w⟩ := x
    by_cases h : k = f <;> simp [setF, getF, h, ih]

theorem getF_setF_ne (d : Disk) (f g : Name) (v : File) (h : g ≠ f) : getF (setF d f v) g = getF d g := by
  induction d with
  | nil => simp [setF, getF, Ne.symm h]
  | cons x r ih =>
    obtain ⟨k, w⟩ := x
    by_cases hk : k = f
    · subst hk; simp [setF, getF, Ne.symm h]
    · by_cases hg : k = g
      · subst hg; simp [setF, getF, hk]
      · simp [setF, getF, hk, hg, ih]

theorem getF_eraseF_eq (d : Disk) (f : Name) : getF (eraseF d f) f = none := by
  induction d with
  | nil => simp [eraseF, getF]
  | cons x r ih =>
    obtain ⟨k, w⟩ := x
    by_cases h : k = f <;> simp [eraseF, getF, h, ih]

theorem getF_eraseF_ne (d : Disk) (f g : Name) (h : g ≠ f) : getF (eraseF d f) g = getF d g := by
  induction d with
  | nil => simp [eraseF, getF]
  | cons x r ih =>
    obtain ⟨k, w⟩ := x
    by_cases hk : k = f
    · subst hk; simp [eraseF, getF, Ne.symm h, ih]
    · by_cases hg : k = g
      · subst hg; simp [eraseF, getF, hk]
      · simp [eraseF, getF, hk, hg, ih]

theorem getF_eraseAll_not_mem (fs : List Name) (d : Disk) (g : Name) (h : g ∉ fs) :
    getF (eraseAll d fs) g = getF d g := by
  induction fs generalizing d with
  | nil => simp [eraseAll]
  | cons f r ih =>
    simp only [List.mem_cons, not_or] at h
    simp [eraseAll, ih _ h.2, getF_eraseF_ne _ _ _ h.1]

theorem getF_eraseAll_mem (fs : List Name) (d : Disk) (g : Name) (h : g ∈ fs) :
    getF (eraseAll d fs) g = none := by
  induction fs generalizing d with
  | nil => simp at h
  | cons f r ih =>
    simp only [eraseAll]
    by_cases hr : g ∈ r
    · exact ih _ hr
    · have : g = f := by simpa [hr] using h
      subst this
      rw [getF_eraseAll_not_mem _ _ _ hr, getF_eraseF_eq]

theorem getF_isSome_iff_mem_names (d : Disk) (f : Name) : (getF d f).isSome = true ↔ f ∈ names d := by
  induction d with
  | nil => simp [getF, names]
  | cons x r ih =>
    obtain ⟨k, w⟩ := x
    by_cases h : k = f
    · subst h; simp [getF, names]
    · simp only [getF, h, if_false, ih, names, List.map_cons, List.mem_cons]
      constructor
      · intro h1; exact Or.inr h1
      · rintro (h1 | h1)
        · exact absurd h1.symm h
        · exact h1

theorem getF_none_iff_not_mem_names (d : Disk) (f : Name) : getF d f = none ↔ f ∉ names d := by
  rw [← getF_isSome_iff_mem_names]
  cases getF d f <;> simp

theorem getF_setPayload_ne (d : Disk) (f g : Name) (p : List Nat) (h : g ≠ f) :
    getF (setPayload d f p) g = getF d g := by
  unfold setPayload
  split
  · exact getF_setF_ne _ _ _ _ h
  · rfl

/-! ## lists of handle files -/

theorem lastFile_mem : ∀ (l : List (Name × UB)) (x : Name × UB), lastFile l = some x → x ∈ l
  | [], x, h => by simp [lastFile] at h
  | [y], x, h => by simp [lastFile] at h; simp [h]
  | y :: z :: r, x, h => by
    simp only [lastFile] at h
    exact List.mem_cons_of_mem _ (lastFile_mem (z :: r) x h)

theorem lastFile_eq_none : ∀ (l : List (Name × UB)), lastFile l = none ↔ l = []
  | [] => by simp [lastFile]
  | [y] => by simp [lastFile]
  | y :: z :: r => by
    simp only [lastFile]
    have := lastFile_eq_none (z :: r)
    simp at this
    simp [this]

theorem lastFile_append_single : ∀ (l : List (Name × UB)) (x : Name × UB), lastFile (l ++ [x]) = some x
  | [], x => by simp [lastFile]
  | [y], x => by simp [lastFile]
  | y :: z :: r, x => by
    have := lastFile_append_single (z :: r) x
    simpa [lastFile] using this

/-! ## frame conditions -/

/-- the call `r` issued in state `s` leaves every file outside its write set alone -/
def Frame (s : State) (r : Res) : Prop :=
  ∀ g, g ∉ r.W → getF r.st.disk g = getF s.disk g

theorem frame_fail (s : State) (e : Out) : Frame s (fail s e) := by
  intro g _; rfl

theorem deleteFiles_frame (s : State) (n : Name) : Frame s (deleteFiles s n) := by
  unfold deleteFiles
  split
  · exact frame_fail _ _
  · intro g hg
    simp only [Res.W, List.nil_append, List.append_nil] at hg
    exact getF_eraseAll_not_mem _ _ _ hg

end MetadorModel.Record
