import MetadorModel.Proofs.ContainerDrvCong
/-!
# `ObsEq` is a congruence for links, handles, node operations and `step` (C09, reopen points)

Above `TOCSchemas` the container code reads the caches only through `alGet s.c.tocPath`,
`findMissing`, `linkResolve`, `Handle.get`; everything else is the raw tree. After every
`let s ← getSt` the reads of the left snapshot are rewritten into reads of the right one
(`c9_nodeKind_congr`, `openHandle_congr`, `findMissing_congr`, …); then both sides are the same
program and the descent is structural.
-/
namespace MetadorModel.Container

/-- `Cong` with `ObsEq` before and after -/
abbrev CongO {α : Type} (m m' : M α) : Prop := Cong ObsEq m m' ObsEq

theorem CongO.bind {α β : Type} {m m' : M α} {f f' : α → M β} (h : CongO m m')
    (hf : ∀ a, CongO (f a) (f' a)) : CongO (m >>= f) (m' >>= f') := Cong.bind h hf

theorem CongO.liftRaw (g : Tree → Except Err Tree) : CongO (liftRaw g) (liftRaw g) :=
  Cong.liftRaw g (fun _ _ h => h.1) (fun _ _ h => h) (fun _ _ _ h => ⟨rfl, h.2.1, h.2.2⟩)

theorem CongO.freshUuid : CongO freshUuid freshUuid := by
  intro s s' h
  unfold MetadorModel.Container.freshUuid
  rw [h.2.1]
  exact .ok _ ⟨h.1, rfl, h.2.2⟩

theorem CongO.guardPath (p : Path) : CongO (guardPath p) (guardPath p) := by
  unfold MetadorModel.Container.guardPath
  split
  · exact Cong.raise _ (fun _ _ h => h)
  · exact Cong.pure _ (fun _ _ h => h)

theorem CachesEqv.setTocPath {c c' : Caches} (h : CachesEqv c c') (u : Nat) (tp : Path) :
    CachesEqv { c with tocPath := alSet c.tocPath u tp } { c' with tocPath := alSet c'.tocPath u tp } :=
  ⟨fun k => by
      show alGet (alSet c.tocPath u tp) k = alGet (alSet c'.tocPath u tp) k
      rw [c9_alGet_alSet, c9_alGet_alSet, h.tocPath k],
   h.parents, h.pkginfos, h.providers, h.schemas, h.children, h.used⟩

theorem CachesEqv.eraseTocPath {c c' : Caches} (h : CachesEqv c c') (u : Nat) :
    CachesEqv { c with tocPath := alErase c.tocPath u } { c' with tocPath := alErase c'.tocPath u } :=
  ⟨fun k => by
      show alGet (alErase c.tocPath u) k = alGet (alErase c'.tocPath u) k
      rw [c9_alGet_alErase, c9_alGet_alErase, h.tocPath k],
   h.parents, h.pkginfos, h.providers, h.schemas, h.children, h.used⟩

theorem CongO.setTocPath (u : Nat) (tp : Path) :
    CongO (modC fun c => { c with tocPath := alSet c.tocPath u tp })
      (modC fun c => { c with tocPath := alSet c.tocPath u tp }) :=
  Cong.modC (fun _ _ h => ⟨h.1, h.2.1, h.2.2.setTocPath u tp⟩)

theorem CongO.eraseTocPath (u : Nat) :
    CongO (modC fun c => { c with tocPath := alErase c.tocPath u })
      (modC fun c => { c with tocPath := alErase c.tocPath u }) :=
  Cong.modC (fun _ _ h => ⟨h.1, h.2.1, h.2.2.eraseTocPath u⟩)

/-! ## Proof automation -/

syntax "cong_leaf" : tactic
macro_rules
  | `(tactic| cong_leaf) => `(tactic| first
      | with_reducible exact Cong.pure _ (fun _ _ h => h)
      | with_reducible exact Cong.raise _ (fun _ _ h => h)
      | with_reducible exact Cong.raise_bind _ (fun _ _ h => h)
      | with_reducible exact Cong.ofOpt _ _ (fun _ _ h => h)
      | with_reducible exact CongO.liftRaw _
      | with_reducible exact CongO.freshUuid
      | with_reducible exact CongO.guardPath _
      | with_reducible exact CongO.setTocPath _ _
      | with_reducible exact CongO.eraseTocPath _
      | with_reducible exact schemaRegister_cong _ _
      | with_reducible exact schemaUnregister_cong _)

syntax "cong_step" : tactic
macro_rules
  | `(tactic| cong_step) => `(tactic| first
      | cong_leaf
      | (with_reducible refine Cong.getSt_bind (fun s s' h => ?_)
         try simp only [c9_nodeKind_congr h, openHandle_congr h, findMissing_congr h, h.1, h.2.2.tocPath])
      | with_reducible refine CongO.bind ?_ (fun _ => ?_)
      | with_reducible refine Cong.forEachM _ (fun _ _ => ?_)
      | (split <;> try (rename_i hq; rw [hq]))
      | dsimp only)

macro "cong" : tactic => `(tactic| repeat' cong_step)

/-! ## TOCLinks -/

theorem linkRegister_cong (e : Env) (ref : SRef) (u : Nat) (objPath : Path) :
    CongO (linkRegister e ref u objPath) (linkRegister e ref u objPath) := by
  unfold linkRegister
  cong

macro_rules | `(tactic| cong_leaf) => `(tactic| with_reducible exact linkRegister_cong _ _ _ _)

theorem linkUnregister_cong (u : Nat) : CongO (linkUnregister u) (linkUnregister u) := by
  unfold linkUnregister
  cong

macro_rules | `(tactic| cong_leaf) => `(tactic| with_reducible exact linkUnregister_cong _)

theorem linkUpdate_cong (u : Nat) (newTarget : Path) :
    CongO (linkUpdate u newTarget) (linkUpdate u newTarget) := by
  unfold linkUpdate
  cong

macro_rules | `(tactic| cong_leaf) => `(tactic| with_reducible exact linkUpdate_cong _ _)

theorem repairMissing_cong (e : Env) (missing : List Path) (update : Bool) :
    CongO (repairMissing e missing update) (repairMissing e missing update) := by
  unfold repairMissing
  cong

macro_rules | `(tactic| cong_leaf) => `(tactic| with_reducible exact repairMissing_cong _ _ _)

/-! ## MetadorMeta -/

theorem Handle.setRaw_cong (e : Env) (h : Handle) (ref : SRef) (tok : String) :
    CongO (h.setRaw e ref tok) (h.setRaw e ref tok) := by
  unfold Handle.setRaw
  cong

macro_rules | `(tactic| cong_leaf) => `(tactic| with_reducible exact Handle.setRaw_cong _ _ _ _)

theorem Handle.delRaw_cong (h : Handle) (name : String) (unlink : Bool) :
    CongO (h.delRaw name unlink) (h.delRaw name unlink) := by
  unfold Handle.delRaw
  cong

macro_rules | `(tactic| cong_leaf) => `(tactic| with_reducible exact Handle.delRaw_cong _ _ _)

theorem Handle.set_cong (e : Env) (h : Handle) (name : String) (ver : Option Ver) (valid : Bool)
    (tok : String) : CongO (h.set e name ver valid tok) (h.set e name ver valid tok) := by
  unfold Handle.set
  cong

theorem Handle.del_cong (h : Handle) (name : String) : CongO (h.del name) (h.del name) := by
  unfold Handle.del
  cong

theorem Handle.destroy_go_cong (unlink : Bool) (ns : List String) (h : Handle) :
    CongO (Handle.destroy.go unlink h ns) (Handle.destroy.go unlink h ns) := by
  induction ns generalizing h with
  | nil => exact Cong.pure _ (fun _ _ h => h)
  | cons n ns ih =>
    unfold Handle.destroy.go
    exact CongO.bind (Handle.delRaw_cong _ _ _) (fun h' => ih h')

theorem Handle.destroy_cong (h : Handle) (unlink : Bool) :
    CongO (h.destroy unlink) (h.destroy unlink) :=
  Handle.destroy_go_cong unlink _ h

macro_rules | `(tactic| cong_leaf) => `(tactic| with_reducible exact Handle.destroy_cong _ _)

/-! ## Nodes -/

theorem destroyMeta_cong (p : Path) (isDs unlink : Bool) :
    CongO (destroyMeta p isDs unlink) (destroyMeta p isDs unlink) := by
  unfold destroyMeta
  cong

macro_rules | `(tactic| cong_leaf) => `(tactic| with_reducible exact destroyMeta_cong _ _ _)

theorem opCreateGroup_cong (p : Path) : CongO (opCreateGroup p) (opCreateGroup p) := by
  unfold opCreateGroup
  cong

theorem opCreateDataset_cong (p : Path) (tok : String) :
    CongO (opCreateDataset p tok) (opCreateDataset p tok) := by
  unfold opCreateDataset
  cong

theorem opDelete_cong (p : Path) : CongO (opDelete p) (opDelete p) := by
  unfold opDelete
  cong

theorem opMove_cong (e : Env) (src dst : Path) : CongO (opMove e src dst) (opMove e src dst) := by
  unfold opMove
  cong

theorem opCopy_cong (e : Env) (src dst : Path) (wm : Bool) :
    CongO (opCopy e src dst wm) (opCopy e src dst wm) := by
  unfold opCopy
  cong

theorem opReopen_cong : CongO opReopen opReopen := by
  intro s s' h
  unfold opReopen modifySt
  refine .ok () ⟨h.1, h.2.1, ?_⟩
  show CachesEqv (reload s.raw) (reload s'.raw)
  rw [h.1]
  exact CachesEqv.refl _

/-! ## Operations on a handle, `step` -/

theorem metaStep_cong (e : Env) (h : Handle) (o : MetaOp) {s s' : St} (hs : ObsEq s s') :
    (metaStep e h o s).1 = (metaStep e h o s').1 ∧ ObsEq (metaStep e h o s).2 (metaStep e h o s').2 := by
  cases o with
  | set n v ok tok =>
    have h1 := Handle.set_cong e h n v ok tok s s' hs
    dsimp only [metaStep]
    generalize h.set e n v ok tok s = x at h1 ⊢
    generalize h.set e n v ok tok s' = x' at h1 ⊢
    cases h1 with
    | ok a ht => exact ⟨rfl, ht⟩
    | err er ht => exact ⟨rfl, ht⟩
  | del n =>
    have h1 := Handle.del_cong h n s s' hs
    dsimp only [metaStep]
    generalize h.del n s = x at h1 ⊢
    generalize h.del n s' = x' at h1 ⊢
    cases h1 with
    | ok a ht => exact ⟨rfl, ht⟩
    | err er ht => exact ⟨rfl, ht⟩
  | get n v =>
    dsimp only [metaStep]
    rw [handleGet_congr e hs]
    cases h.get e s' n v <;> exact ⟨rfl, hs⟩

theorem metaSeqTrace_cong (e : Env) (ops : List MetaOp) (h : Handle) {s s' : St} (hs : ObsEq s s') :
    (metaSeqTrace e h ops s).1 = (metaSeqTrace e h ops s').1 ∧
    ObsEq (metaSeqTrace e h ops s).2 (metaSeqTrace e h ops s').2 := by
  induction ops generalizing h s s' with
  | nil => exact ⟨rfl, hs⟩
  | cons o os ih =>
    obtain ⟨h1, h2⟩ := metaStep_cong e h o hs
    unfold metaSeqTrace
    rcases hm : metaStep e h o s with ⟨⟨out, hd⟩, s1⟩
    rcases hm' : metaStep e h o s' with ⟨⟨out', hd'⟩, s1'⟩
    rw [hm, hm'] at h1 h2
    simp only [Prod.mk.injEq] at h1
    obtain ⟨rfl, rfl⟩ := h1
    obtain ⟨i1, i2⟩ := ih hd h2
    exact ⟨by simp only [i1], i2⟩

theorem metaSeq_cong (e : Env) (h : Handle) (ops : List MetaOp) :
    CongO (metaSeq e h ops) (metaSeq e h ops) :=
  fun _ _ hs => .ok () (metaSeqTrace_cong e ops h hs).2

macro_rules | `(tactic| cong_leaf) => `(tactic| with_reducible exact metaSeq_cong _ _ _)

theorem opMeta_cong (e : Env) (p : Path) (ops : List MetaOp) :
    CongO (opMeta e p ops) (opMeta e p ops) := by
  unfold opMeta
  cong

theorem step_cong (e : Env) (op : Op) : CongO (step e op) (step e op) := by
  cases op with
  | createGroup p => exact opCreateGroup_cong p
  | createDataset p tok => exact opCreateDataset_cong p tok
  | onMeta p ops => exact opMeta_cong e p ops
  | delete p => exact opDelete_cong p
  | copy src dst wm => exact opCopy_cong e src dst wm
  | move src dst => exact opMove_cong e src dst
  | reopen => exact opReopen_cong
  | patch => exact Cong.pure _ (fun _ _ h => h)

/-- **`ObsEq` is a congruence**: states with the same raw tree, the same uuid counter and
equivalent caches give the same observation for every operation and are taken to such states
again. Proved syntactically through every definition of the model; no invariant. -/
theorem obsEq_congruent (e : Env) : Congruent e ObsEq := by
  intro op s s' hs
  have h1 := step_cong e op s s' hs
  refine ⟨?_, h1.obsEq⟩
  unfold obs
  rw [h1.fst_eq]
  congr 1
  cases op with
  | onMeta p ops =>
    dsimp only
    rw [c9_nodeKind_congr hs]
    split
    · rfl
    · split
      · rfl
      · rw [openHandle_congr hs]
        exact (metaSeqTrace_cong e ops _ hs).1
  | _ => rfl

/-! ## Reachability -/

theorem run_append (e : Env) (s : St) (h h' : List Op) : run e s (h ++ h') = run e (run e s h) h' := by
  induction h generalizing s with
  | nil => rfl
  | cons op ops ih => simp only [List.cons_append, run, ih]

theorem Reachable.step {e : Env} {s : St} (hr : Reachable e s) (op : Op) :
    Reachable e (step e op s).2 := by
  obtain ⟨h, rfl⟩ := hr
  exact ⟨h ++ [op], by rw [run_append]; rfl⟩

end MetadorModel.Container
