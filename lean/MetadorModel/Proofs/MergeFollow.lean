import MetadorModel.Proofs.Listing
import MetadorModel.Proofs.OverlayWriteLook
/-!
# Follow-up patches on top of a merged container / a stub (helper lemmas for C05 and C10)

The record invariant `Inv (p :: r)` talks about the older containers `r` only through

* what `r` shows (`viewKind r`), and
* which paths no container of `r` mentions at all.

Hence a patch container that is a valid continuation of a record `r₁` is a valid continuation
of every record `r₂` that shows the same skeleton (`SameSkel`) and mentions no additional path
(`MentionSub`), and by `view_cons` it is read in the same way on top of both. The merged
container of `r` (property C05) and the stub of `r` (C10) are such records.
-/
namespace MetadorModel.Follow
open MetadorModel.Tree MetadorModel.Overlay MetadorModel.Merge

variable {V : Type}

/-- kind tag of a visible node: group or dataset -/
def kindTag : NKind V → Bool
  | .group => true
  | .data _ => false

/-- the two records show the same paths, node kinds (group / dataset) and attribute names -/
def SameSkel (r₁ r₂ : Rec V) : Prop :=
  ∀ q, (viewKind r₁ q).map kindTag = (viewKind r₂ q).map kindTag ∧
    ∀ k, (viewAttr r₁ q k).isSome = (viewAttr r₂ q k).isSome

/-- the two records show the same tree, values included -/
def SameView (r₁ r₂ : Rec V) : Prop :=
  ∀ q, viewKind r₁ q = viewKind r₂ q ∧ ∀ k, viewAttr r₁ q k = viewAttr r₂ q k

/-- a path (other than the root) that no container of `r₁` mentions is not mentioned in `r₂` -/
def MentionSub (r₁ r₂ : Rec V) : Prop :=
  ∀ x, x ≠ [] → (∀ c ∈ r₁, aget x c = none) → ∀ c ∈ r₂, aget x c = none

theorem SameView.skel {r₁ r₂ : Rec V} (h : SameView r₁ r₂) : SameSkel r₁ r₂ :=
  fun q => ⟨by rw [(h q).1], fun k => by rw [(h q).2 k]⟩

theorem SameView.symm {r₁ r₂ : Rec V} (h : SameView r₁ r₂) : SameView r₂ r₁ :=
  fun q => ⟨(h q).1.symm, fun k => ((h q).2 k).symm⟩

theorem SameSkel.symm {r₁ r₂ : Rec V} (h : SameSkel r₁ r₂) : SameSkel r₂ r₁ :=
  fun q => ⟨(h q).1.symm, fun k => ((h q).2 k).symm⟩

theorem SameSkel.group {r₁ r₂ : Rec V} (h : SameSkel r₁ r₂) (q : Path)
    (hq : viewKind r₁ q = some .group) : viewKind r₂ q = some .group := by
  have := (h q).1
  rw [hq] at this
  cases hk : viewKind r₂ q with
  | none => simp [hk] at this
  | some kd => cases kd <;> simp_all [kindTag]

theorem SameSkel.data {r₁ r₂ : Rec V} (h : SameSkel r₁ r₂) (q : Path) (v : V)
    (hq : viewKind r₁ q = some (.data v)) : ∃ w, viewKind r₂ q = some (.data w) := by
  have := (h q).1
  rw [hq] at this
  cases hk : viewKind r₂ q with
  | none => simp [hk] at this
  | some kd =>
    cases kd with
    | group => simp [hk, kindTag] at this
    | data w => exact ⟨w, rfl⟩

theorem SameSkel.none {r₁ r₂ : Rec V} (h : SameSkel r₁ r₂) (q : Path)
    (hq : viewKind r₁ q = none) : viewKind r₂ q = none := by
  have := (h q).1
  rw [hq] at this
  cases hk : viewKind r₂ q with
  | none => rfl
  | some kd => simp [hk] at this

/-! ## the invariant of the newest container only depends on skeleton and mentioned paths -/

theorem invLast_transfer (p : Cont V) (r₁ r₂ : Rec V) (hs : SameSkel r₁ r₂) (hm : MentionSub r₁ r₂)
    (h : InvLast p r₁) : InvLast p r₂ := by
  intro x n hx hn hnv
  rcases h x n hx hn hnv with h1 | ⟨⟨v, hv⟩, hch⟩ | h3
  · exact Or.inl (hs.group x h1)
  · exact Or.inr (Or.inl ⟨hs.data x v hv, hch⟩)
  · exact Or.inr (Or.inr (hm x hx h3))

theorem mentionSub_append (ps r₁ r₂ : Rec V) (h : MentionSub r₁ r₂) : MentionSub (ps ++ r₁) (ps ++ r₂) := by
  intro x hx hnone c hc
  rcases List.mem_append.1 hc with hc | hc
  · exact hnone c (List.mem_append_left _ hc)
  · exact h x hx (fun c' hc' => hnone c' (List.mem_append_right _ hc')) c hc

/-! ## the closed form of `view_cons` respects skeletons -/

theorem applyKind_tag (p : Cont V) (t₁ t₂ : Path → Option (NKind V)) (q : Path)
    (h : (t₁ q).map kindTag = (t₂ q).map kindTag) :
    (applyKind p t₁ q).map kindTag = (applyKind p t₂ q).map kindTag := by
  unfold applyKind
  by_cases hnv : nvPrefix p q = true
  · simp [hnv]
  · simp only [hnv, Bool.false_eq_true, ↓reduceIte]
    cases aget q p with
    | none => exact h
    | some n =>
      cases h1 : t₁ q <;> cases h2 : t₂ q <;> simp_all [kindTag]

theorem applyAttr_isSome (p : Cont V) (ta₁ ta₂ : Path → Key → Option V) (q : Path) (k : Key)
    (h : (ta₁ q k).isSome = (ta₂ q k).isSome) :
    (applyAttr p ta₁ q k).isSome = (applyAttr p ta₂ q k).isSome := by
  unfold applyAttr
  by_cases hnv : nvPrefix p q = true
  · simp [hnv]
  · simp only [hnv, Bool.false_eq_true, ↓reduceIte]
    cases aget q p with
    | none => exact h
    | some n =>
      dsimp only
      cases aget k n.attrs with
      | none => exact h
      | some v => rfl

/-- one more container on top of two records with the same skeleton: same skeleton again -/
theorem sameSkel_cons (p : Cont V) (r₁ r₂ : Rec V) (hwf : WF p) (h1 : InvLast p r₁) (h2 : InvLast p r₂)
    (hs : SameSkel r₁ r₂) : SameSkel (p :: r₁) (p :: r₂) := by
  intro q
  obtain ⟨a1, a2⟩ := view_cons p r₁ hwf h1 q
  obtain ⟨b1, b2⟩ := view_cons p r₂ hwf h2 q
  refine ⟨?_, fun k => ?_⟩
  · rw [a1, b1]; exact applyKind_tag p _ _ q (hs q).1
  · rw [a2, b2]; exact applyAttr_isSome p _ _ q k ((hs q).2 k)

/-- one more container on top of two records with the same view: same view again -/
theorem sameView_cons (p : Cont V) (r₁ r₂ : Rec V) (hwf : WF p) (h1 : InvLast p r₁) (h2 : InvLast p r₂)
    (hs : SameView r₁ r₂) : SameView (p :: r₁) (p :: r₂) := by
  have e1 : viewKind r₁ = viewKind r₂ := funext fun q => (hs q).1
  have e2 : viewAttr r₁ = viewAttr r₂ := funext fun q => funext fun k => (hs q).2 k
  intro q
  obtain ⟨a1, a2⟩ := view_cons p r₁ hwf h1 q
  obtain ⟨b1, b2⟩ := view_cons p r₂ hwf h2 q
  exact ⟨by rw [a1, b1, e1], fun k => by rw [a2, b2, e2]⟩

/-! ## `view_fold` for a list of patches on top of an arbitrary record -/

/-- the patches `ps` (newest first) are valid continuations of `r`; nothing is asked of `r` -/
def InvOver : List (Cont V) → Rec V → Prop
  | [], _ => True
  | p :: ps, r => WF p ∧ InvLast p (ps ++ r) ∧ InvOver ps r

theorem invOver_of_inv (ps r : Rec V) (h : Inv (ps ++ r)) : InvOver ps r := by
  induction ps with
  | nil => trivial
  | cons p ps ih => exact ⟨h.1, h.2.1, ih h.2.2⟩

theorem inv_append (ps r : Rec V) (h : InvOver ps r) (hr : Inv r) : Inv (ps ++ r) := by
  induction ps with
  | nil => exact hr
  | cons p ps ih => exact ⟨h.1, h.2.1, ih h.2.2⟩

/-- reading `ps ++ r` is applying the patches `ps`, oldest first, to what `r` shows -/
theorem view_fold_over (ps r : Rec V) (h : InvOver ps r) :
    viewKind (ps ++ r) = ps.foldr applyKind (viewKind r) ∧
    viewAttr (ps ++ r) = ps.foldr applyAttr (viewAttr r) := by
  induction ps with
  | nil => exact ⟨rfl, rfl⟩
  | cons p ps ih =>
    obtain ⟨ih1, ih2⟩ := ih h.2.2
    refine ⟨funext fun q => ?_, funext fun q => funext fun k => ?_⟩
    · rw [List.cons_append, (view_cons p (ps ++ r) h.1 h.2.1 q).1, List.foldr_cons, ih1]
    · rw [List.cons_append, (view_cons p (ps ++ r) h.1 h.2.1 q).2 k, List.foldr_cons, ih2]

/-! ## follow-up patches -/

/-- patches that continue `r₁` continue every record with the same skeleton that mentions no
additional paths, and the two extended records have the same skeleton -/
theorem follow_same_skel (r₁ r₂ : Rec V) (hs : SameSkel r₁ r₂) (hm : MentionSub r₁ r₂) :
    ∀ ps : List (Cont V), InvOver ps r₁ → InvOver ps r₂ ∧ SameSkel (ps ++ r₁) (ps ++ r₂) := by
  intro ps
  induction ps with
  | nil => intro _; exact ⟨trivial, hs⟩
  | cons p ps ih =>
    intro h
    obtain ⟨ih1, ih2⟩ := ih h.2.2
    have hl : InvLast p (ps ++ r₂) := invLast_transfer p _ _ ih2 (mentionSub_append ps _ _ hm) h.2.1
    exact ⟨⟨h.1, hl, ih1⟩, sameSkel_cons p _ _ h.1 h.2.1 hl ih2⟩

/-- … and when the two records show the same tree, so do the extended records -/
theorem follow_same_view (r₁ r₂ : Rec V) (hs : SameView r₁ r₂) (hm : MentionSub r₁ r₂) :
    ∀ ps : List (Cont V), InvOver ps r₁ → InvOver ps r₂ ∧ SameView (ps ++ r₁) (ps ++ r₂) := by
  intro ps
  induction ps with
  | nil => intro _; exact ⟨trivial, hs⟩
  | cons p ps ih =>
    intro h
    obtain ⟨ih1, ih2⟩ := ih h.2.2
    have hl : InvLast p (ps ++ r₂) :=
      invLast_transfer p _ _ ih2.skel (mentionSub_append ps _ _ hm) h.2.1
    exact ⟨⟨h.1, hl, ih1⟩, sameView_cons p _ _ h.1 h.2.1 hl ih2⟩

/-! ## single containers built by `materialise` -/

open MetadorModel.Single in
/-- a good single container with a plain root group is a record satisfying the invariant -/
theorem inv_single (c : Cont V) (g : Good c) (hroot : ∃ a, aget [] c = some ⟨.vgroup, a⟩) : Inv [c] := by
  refine ⟨⟨hroot, ?_⟩, ?_, trivial⟩
  · intro x k hne
    cases hx : aget (x ++ [k]) c with
    | none => exact absurd hx hne
    | some n =>
      obtain ⟨n', h1, h2⟩ := g.pc (x ++ [k]) n hx x.length (by simp)
      rw [List.take_left] at h1
      exact ⟨n', h1, h2⟩
  · intro x n _ _ _
    exact Or.inr (Or.inr (fun c hc => by cases hc))

open MetadorModel.Single in
/-- every path of a good single container that shows a node of `r` is mentioned in `r` -/
theorem mentionSub_single (c : Cont V) (g : Good c) (r : Rec V)
    (h : ∀ q, q ≠ [] → viewKind [c] q ≠ none → viewKind r q ≠ none) : MentionSub r [c] := by
  intro x hx hnone c' hc'
  simp only [List.mem_singleton] at hc'
  subst hc'
  cases hxc : aget x c' with
  | none => rfl
  | some n =>
    exfalso
    have hv : viewKind [c'] x ≠ none := by
      rw [viewKind_single c' g, hxc]
      exact plainKind_ne_none_of_notDel (g.nodel x n hxc)
    obtain ⟨i, n', hl⟩ := found_of_viewKind r x (h x hx hv)
    obtain ⟨p, hp, hsome⟩ := Listing.lookFrom_found_mem r x [] 0 vnode i n' hx hl
    simp only [List.nil_append] at hsome
    rw [hnone p hp] at hsome
    cases hsome

open MetadorModel.Single in
/-- what `materialise` builds: one good container with a plain root group -/
theorem materialise_shape (l : Listing V) (h : Replayable l) (m : Rec V) (hm : materialise l = .ok m) :
    ∃ c, m = [c] ∧ Good c ∧ ∃ a, aget [] c = some ⟨.vgroup, a⟩ := by
  obtain ⟨heq, g⟩ := materialise_eq l h
  rw [heq] at hm
  cases hm
  refine ⟨_, rfl, g, putAll (rootAttrsOf l) [], ?_⟩
  rw [foldl_apply1_get _ _ _ h]
  have hnone : aget [] (nonRoot l) = none :=
    chain_fresh _ _ [] { (vnode : RNode V) with attrs := putAll (rootAttrsOf l) [] } h
      (by simp [rootCont, aget_aput_same])
  simp [hnone, rootCont, aget_aput_same, vnode]

/-! ## a decidable check of the record invariant (used for the concrete examples) -/

def isGroupK : Option (NKind V) → Bool
  | some .group => true
  | _ => false

def isDataK : Option (NKind V) → Bool
  | some (.data _) => true
  | _ => false

def wfB (p : Cont V) : Bool :=
  (match aget [] p with
    | some n => n.kind.isVirtual
    | none => false) &&
  p.all (fun e => decide (e.1 = []) ||
    match aget e.1.dropLast p with
    | some m => m.kind.isGroup
    | none => false)

def invLastB (p : Cont V) (r : Rec V) : Bool :=
  p.all (fun e => decide (e.1 = []) || nvPrefix p e.1 || isGroupK (viewKind r e.1) ||
    (isDataK (viewKind r e.1) && p.all (fun e' => !(isPre e.1 e'.1) || decide (e'.1 = e.1))) ||
    r.all (fun c => (aget e.1 c).isNone))

def invB : Rec V → Bool
  | [] => true
  | p :: r => wfB p && invLastB p r && invB r

theorem wfB_sound (p : Cont V) (h : wfB p = true) : WF p := by
  simp only [wfB, Bool.and_eq_true] at h
  obtain ⟨h1, h2⟩ := h
  refine ⟨?_, ?_⟩
  · cases hr : aget [] p with
    | none => simp [hr] at h1
    | some n =>
      simp only [hr] at h1
      obtain ⟨kd, a⟩ := n
      have := (isVirtual_iff kd).1 h1
      subst this
      exact ⟨a, rfl⟩
  · intro x k hne
    cases hx : aget (x ++ [k]) p with
    | none => exact absurd hx hne
    | some n =>
      have := List.all_eq_true.1 h2 (x ++ [k], n) (Single.aget_mem p _ n hx)
      simp only [List.append_eq_nil_iff, List.cons_ne_self, and_false, decide_false, Bool.false_or,
        List.dropLast_concat] at this
      cases hp : aget x p with
      | none => simp [hp] at this
      | some m => exact ⟨m, rfl, by simpa [hp] using this⟩

theorem invLastB_sound (p : Cont V) (r : Rec V) (h : invLastB p r = true) : InvLast p r := by
  intro x n hx hn hnv
  have := List.all_eq_true.1 h (x, n) (Single.aget_mem p x n hn)
  simp only [hx, decide_false, hnv, Bool.false_or, Bool.or_eq_true, Bool.and_eq_true] at this
  rcases this with (hg | ⟨hd, hall⟩) | hnone
  · left
    cases hv : viewKind r x with
    | none => simp [hv, isGroupK] at hg
    | some kd => cases kd <;> simp_all [isGroupK]
  · right; left
    refine ⟨?_, ?_⟩
    · cases hv : viewKind r x with
      | none => simp [hv, isDataK] at hd
      | some kd =>
        cases kd with
        | group => simp [hv, isDataK] at hd
        | data v => exact ⟨v, rfl⟩
    · intro y hy
      cases hxy : aget (x ++ y) p with
      | none => rfl
      | some n' =>
        exfalso
        have := List.all_eq_true.1 hall (x ++ y, n') (Single.aget_mem p _ n' hxy)
        simp [isPre_append, hy] at this
  · right; right
    intro c hc
    have := List.all_eq_true.1 hnone c hc
    simpa using this

theorem invB_sound : ∀ (r : Rec V), invB r = true → Inv r
  | [], _ => trivial
  | p :: r, h => by
    simp only [invB, Bool.and_eq_true] at h
    exact ⟨wfB_sound p h.1.1, invLastB_sound p r h.1.2, invB_sound r h.2⟩

end MetadorModel.Follow
