import MetadorModel.Model.Chain
import Mathlib.Data.List.Basic
import Mathlib.Data.List.Perm.Basic
import Mathlib.Tactic.Ring
/-! Helper lemmas for the record-opening model (C04, C11): the stable sort by `patch_index`,
`checkUB`/`checkRest` as conjunctions, uniqueness of the strictly sorted order. -/
namespace MetadorModel.Chain
open List

variable {P M : Type}

/-! ## Sorting -/

theorem insertByIdx_perm (f : File P M) (l : List (File P M)) : insertByIdx f l ~ f :: l := by
  induction l with
  | nil => simp [insertByIdx]
  | cons g rest ih =>
    simp only [insertByIdx]
    split_ifs
    · exact Perm.refl _
    · exact (Perm.cons g ih).trans (Perm.swap f g rest)

theorem foldl_insert_perm (fs acc : List (File P M)) :
    fs.foldl (fun acc f => insertByIdx f acc) acc ~ acc ++ fs := by
  induction fs generalizing acc with
  | nil => simp
  | cons f rest ih =>
    simp only [foldl_cons]
    refine (ih _).trans ?_
    refine ((insertByIdx_perm f acc).append_right rest).trans ?_
    simpa using (perm_middle (a := f) (l₁ := acc) (l₂ := rest)).symm

theorem sortByIdx_perm (fs : List (File P M)) : sortByIdx fs ~ fs := by
  simpa [sortByIdx] using foldl_insert_perm fs []

/-- sorted by index (weakly) -/
def SortedLe (l : List (File P M)) : Prop := l.Pairwise (fun a b => a.ub.idx ≤ b.ub.idx)
/-- sorted by index (strictly) -/
def SortedLt (l : List (File P M)) : Prop := l.Pairwise (fun a b => a.ub.idx < b.ub.idx)

theorem insertByIdx_sorted (f : File P M) (l : List (File P M)) (h : SortedLe l) :
    SortedLe (insertByIdx f l) := by
  induction l with
  | nil => simp [insertByIdx, SortedLe]
  | cons g rest ih =>
    simp only [insertByIdx]
    split_ifs with hfg
    · simp only [SortedLe, pairwise_cons] at h ⊢
      refine ⟨?_, h⟩
      intro x hx
      rcases mem_cons.mp hx with rfl | hx
      · omega
      · have := h.1 x hx; omega
    · simp only [SortedLe, pairwise_cons] at h ⊢
      refine ⟨?_, ih h.2⟩
      intro x hx
      have hx' := (insertByIdx_perm f rest).subset hx
      rcases mem_cons.mp hx' with rfl | hx'
      · omega
      · exact h.1 x hx'

theorem sortByIdx_sorted (fs : List (File P M)) : SortedLe (sortByIdx fs) := by
  have : ∀ acc : List (File P M), SortedLe acc →
      SortedLe (fs.foldl (fun acc f => insertByIdx f acc) acc) := by
    induction fs with
    | nil => intro acc h; simpa using h
    | cons f rest ih => intro acc h; exact ih _ (insertByIdx_sorted f acc h)
  exact this [] (by simp [SortedLe])

/-- the strictly sorted arrangement of a file set is unique, and it is what the sort produces -/
theorem sortByIdx_eq_of_sortedLt {fs s : List (File P M)} (hp : s ~ fs) (hs : SortedLt s) :
    sortByIdx fs = s := by
  have hr := sortByIdx_sorted fs
  have hperm : sortByIdx fs ~ s := (sortByIdx_perm fs).trans hp.symm
  -- indices in `s` are pairwise different, hence also in the sorted list
  have hnd : (s.map (fun f => f.ub.idx)).Nodup := by
    rw [List.Nodup, pairwise_map]
    exact hs.imp (fun h => Nat.ne_of_lt h)
  have hnd' : ((sortByIdx fs).map (fun f => f.ub.idx)).Nodup := (hperm.map _).nodup_iff.mpr hnd
  have hlt : SortedLt (sortByIdx fs) := by
    rw [List.Nodup, pairwise_map] at hnd'
    exact (hr.and hnd').imp (fun ⟨h1, h2⟩ => Nat.lt_of_le_of_ne h1 h2)
  have hanti : ∀ a b : File P M, a ∈ sortByIdx fs → b ∈ s → a.ub.idx < b.ub.idx → b.ub.idx < a.ub.idx → a = b :=
    fun a b _ _ h1 h2 => absurd h1 (Nat.lt_asymm h2)
  exact Perm.eq_of_pairwise hanti hlt hs hperm

theorem sortByIdx_perm_invariant {fs fs' : List (File P M)} (hp : fs ~ fs')
    (hs : SortedLt (sortByIdx fs)) : sortByIdx fs' = sortByIdx fs :=
  sortByIdx_eq_of_sortedLt ((sortByIdx_perm fs).trans hp) hs

/-! ## `lastOf` -/

theorem lastOf_eq_getLast (b : File P M) (rest : List (File P M)) :
    lastOf b rest = (b :: rest).getLast (cons_ne_nil _ _) := by
  induction rest generalizing b with
  | nil => rfl
  | cons f r ih => simp [lastOf, ih f]

theorem lastOf_mem (b : File P M) (rest : List (File P M)) : lastOf b rest ∈ b :: rest := by
  rw [lastOf_eq_getLast]; exact getLast_mem _

theorem lastOf_append (b : File P M) (l : List (File P M)) (x : File P M) :
    lastOf b (l ++ [x]) = x := by
  rw [lastOf_eq_getLast]; simp

theorem dropLast_append_lastOf (b : File P M) (rest : List (File P M)) :
    (b :: rest).dropLast ++ [lastOf b rest] = b :: rest := by
  rw [lastOf_eq_getLast]; exact dropLast_append_getLast _

/-! ## `ChainFrom` -/

theorem ChainFrom.sortedLt {b : File P M} {rest : List (File P M)} (h : ChainFrom b rest) :
    SortedLt (b :: rest) := by
  induction rest generalizing b with
  | nil => simp [SortedLt]
  | cons f r ih =>
    obtain ⟨h1, h2⟩ := h
    have := ih h2
    simp only [SortedLt, pairwise_cons] at this ⊢
    refine ⟨?_, this⟩
    intro x hx
    rcases mem_cons.mp hx with rfl | hx
    · exact h1.1
    · exact Nat.lt_trans h1.1 (this.1 x hx)

theorem chainFrom_append {b : File P M} {l₁ l₂ : List (File P M)} :
    ChainFrom b (l₁ ++ l₂) ↔ ChainFrom b l₁ ∧ ChainFrom (lastOf b l₁) l₂ := by
  induction l₁ generalizing b with
  | nil => simp [ChainFrom, lastOf]
  | cons f r ih => simp [ChainFrom, lastOf, ih, and_assoc]

/-! ## The checks as conjunctions -/

section
variable (H : P → Digest) (HM : M → Digest)

/-- the conditions `_check_ublock` enforces -/
def CheckOK (mfAware : Bool) (rid0 : Uuid) (f : File P M) (prev : Option UB) (checkHash : Bool) : Prop :=
  f.ub.rid = rid0 ∧
  (checkHash = true → f.ub.hash ≠ none) ∧
  (∀ h, f.ub.hash = some h → h = H f.payload) ∧
  (∀ p, prev = some p → p.idx < f.ub.idx ∧ f.ub.prev = some p.pid) ∧
  (mfAware = true → ∀ p e, prev = some p → f.ub.ext = some e → e.isStub = false)

theorem checkUB_ok_iff (mfAware : Bool) (rid0 : Uuid) (f : File P M) (prev : Option UB) (ch : Bool) :
    checkUB H mfAware rid0 f prev ch = .ok () ↔ CheckOK H mfAware rid0 f prev ch := by
  unfold checkUB CheckOK
  rcases hh : f.ub.hash with _ | h <;> rcases prev with _ | p <;> rcases hp : f.ub.prev with _ | q <;>
    rcases he : f.ub.ext with _ | e <;> cases mfAware <;> cases ch <;>
    simp [bind, Except.bind, pure, Except.pure, throw, throwThe, MonadExceptOf.throw] <;>
    (try split_ifs) <;> simp_all

theorem except_seq_ok_iff {ε : Type} (x y : Except ε Unit) :
    (do x; y) = .ok () ↔ x = .ok () ∧ y = .ok () := by
  rcases x with e | ⟨⟩ <;> simp [bind, Except.bind]

theorem hash_cond_iff (f : File P M) :
    (∀ h, f.ub.hash = some h → h = H f.payload) ↔ (f.ub.hash = none ∨ HashOK H f) := by
  unfold HashOK
  rcases hh : f.ub.hash with _ | h <;> simp [eq_comm]

theorem hash_cond_strict_iff (f : File P M) :
    (f.ub.hash ≠ none ∧ ∀ h, f.ub.hash = some h → h = H f.payload) ↔ HashOK H f := by
  unfold HashOK
  rcases hh : f.ub.hash with _ | h <;> simp [eq_comm]

theorem checkRest_ok_iff (mfAware : Bool) (rid0 : Uuid) (p : File P M) (rest : List (File P M)) :
    checkRest H mfAware rid0 p rest = .ok () ↔
      (∀ f ∈ rest, f.ub.rid = rid0) ∧ ChainFrom p rest ∧ (∀ f ∈ rest.dropLast, HashOK H f) ∧
      (∀ l, rest.getLast? = some l → (l.ub.hash = none ∨ HashOK H l)) ∧
      (mfAware = true → ∀ f ∈ rest, ∀ e, f.ub.ext = some e → e.isStub = false) := by
  induction rest generalizing p with
  | nil => simp [checkRest, ChainFrom, pure, Except.pure]
  | cons f r ih =>
    cases r with
    | nil =>
      simp only [checkRest, checkUB_ok_iff, CheckOK, ChainFrom, Linked, hash_cond_iff]
      simp
      tauto
    | cons g r' =>
      rw [checkRest, except_seq_ok_iff, ih f, checkUB_ok_iff]
      simp only [CheckOK, ChainFrom, Linked, dropLast_cons_cons, mem_cons, getLast?_cons_cons]
      constructor
      · rintro ⟨⟨h1, h2, h3, h4, h5⟩, k1, k2, k3, k4, k5⟩
        have hp := h4 p.ub rfl
        refine ⟨?_, ⟨hp, k2⟩, ?_, k4, ?_⟩
        · rintro x (rfl | hx)
          · exact h1
          · exact k1 x hx
        · rintro x (rfl | hx)
          · exact (hash_cond_strict_iff H x).mp ⟨h2 trivial, h3⟩
          · exact k3 x hx
        · intro hm x hx e he
          rcases hx with rfl | hx
          · exact h5 hm p.ub e rfl he
          · exact k5 hm x hx e he
      · rintro ⟨k1, ⟨hp, k2⟩, k3, k4, k5⟩
        have hf := (hash_cond_strict_iff H f).mpr (k3 f (Or.inl rfl))
        refine ⟨⟨k1 f (Or.inl rfl), fun _ => hf.1, hf.2, ?_, ?_⟩, fun x hx => k1 x (Or.inr hx), k2,
          fun x hx => k3 x (Or.inr hx), k4, fun hm x hx => k5 hm x (Or.inr hx)⟩
        · intro q hq; cases hq; exact hp
        · intro hm q e _ he; exact k5 hm f (Or.inl rfl) e he

theorem pidsDistinct_iff (l : List (File P M)) :
    pidsDistinct l = true ↔ (l.map (fun f => f.ub.pid)).Nodup := by
  induction l with
  | nil => simp [pidsDistinct]
  | cons f r ih =>
    simp only [pidsDistinct, Bool.and_eq_true, Bool.not_eq_true', ih, map_cons, nodup_cons, mem_map]
    constructor
    · rintro ⟨h1, h2⟩
      refine ⟨?_, h2⟩
      rintro ⟨g, hg, hgf⟩
      have : r.any (fun g => g.ub.pid == f.ub.pid) = true := any_eq_true.mpr ⟨g, hg, by simp [hgf]⟩
      simp [this] at h1
    · rintro ⟨h1, h2⟩
      refine ⟨?_, h2⟩
      cases hany : r.any (fun g => g.ub.pid == f.ub.pid)
      · rfl
      · obtain ⟨g, hg, hgf⟩ := any_eq_true.mp hany
        exact absurd ⟨g, hg, by simpa using hgf⟩ h1

theorem checkManifest_ok_iff (l : File P M) :
    checkManifest HM l = .ok () ↔ ∀ e, l.ub.ext = some e → ∃ m, l.mf = some m ∧ e.mhash = HM m := by
  unfold checkManifest
  rcases he : l.ub.ext with _ | e <;> rcases hm : l.mf with _ | m <;>
    simp [pure, Except.pure, throw, throwThe, MonadExceptOf.throw]

theorem checkSorted_ok_iff (mfAware ab : Bool) (b : File P M) (rest : List (File P M)) :
    checkSorted H HM mfAware ab b rest = .ok () ↔
      (ab = false → b.ub.prev = none) ∧
      (∀ f ∈ rest, f.ub.rid = b.ub.rid) ∧
      ChainFrom b rest ∧
      (∀ f ∈ (b :: rest).dropLast, HashOK H f) ∧
      ((lastOf b rest).ub.hash = none ∨ HashOK H (lastOf b rest)) ∧
      ((b :: rest).map (fun f => f.ub.pid)).Nodup ∧
      (mfAware = true →
        (∀ f ∈ rest, ∀ e, f.ub.ext = some e → e.isStub = false) ∧
        (∀ e, (lastOf b rest).ub.ext = some e →
          ∃ m, (lastOf b rest).mf = some m ∧ e.mhash = HM m)) := by
  unfold checkSorted
  by_cases hb : (!ab && b.ub.prev.isSome) = true
  · rw [if_pos hb]
    have : ¬ (ab = false → b.ub.prev = none) := by
      cases ab <;> rcases hp : b.ub.prev with _ | q <;> simp_all
    simp [this]
  · rw [if_neg hb]
    have hbase : (ab = false → b.ub.prev = none) := by
      cases ab <;> rcases hp : b.ub.prev with _ | q <;> simp_all
    rw [except_seq_ok_iff, except_seq_ok_iff, checkUB_ok_iff, checkRest_ok_iff]
    have hpd : (if (!pidsDistinct (b :: rest)) = true then Except.error Err.dupPid
          else if mfAware = true then checkManifest HM (lastOf b rest) else pure ()) = Except.ok () ↔
        ((b :: rest).map (fun f => f.ub.pid)).Nodup ∧
          (mfAware = true → ∀ e, (lastOf b rest).ub.ext = some e →
            ∃ m, (lastOf b rest).mf = some m ∧ e.mhash = HM m) := by
      rw [← pidsDistinct_iff]
      cases hd : pidsDistinct (b :: rest) <;> cases mfAware <;>
        simp [checkManifest_ok_iff, pure, Except.pure]
    rw [hpd]
    simp only [CheckOK]
    cases rest with
    | nil =>
      simp [lastOf, ChainFrom, hash_cond_iff]
      intro _ _; exact hbase
    | cons f r =>
      have hl : lastOf b (f :: r) = (f :: r).getLast (cons_ne_nil _ _) := by
        rw [lastOf_eq_getLast]; simp
      have hgl : (f :: r).getLast? = some (lastOf b (f :: r)) := by
        rw [hl]; exact getLast?_eq_getLast_of_ne_nil _
      simp only [hgl, dropLast_cons_cons, mem_cons, isEmpty_cons, Bool.not_false]
      constructor
      · rintro ⟨⟨-, h2, h3, -, -⟩, ⟨k1, k2, k3, k4, k5⟩, hn, hm⟩
        refine ⟨hbase, k1, k2, ?_, k4 _ rfl, hn, fun hmf => ⟨k5 hmf, hm hmf⟩⟩
        rintro x (rfl | hx)
        · exact (hash_cond_strict_iff H x).mp ⟨h2 trivial, h3⟩
        · exact k3 x hx
      · rintro ⟨-, k1, k2, k3, k4, hn, hm⟩
        have hf := (hash_cond_strict_iff H b).mpr (k3 b (Or.inl rfl))
        refine ⟨⟨trivial, fun _ => hf.1, hf.2, by simp, by simp⟩,
          ⟨k1, k2, fun x hx => k3 x (Or.inr hx), ?_, fun hmf => (hm hmf).1⟩, hn, fun hmf => (hm hmf).2⟩
        intro l hl'; cases hl'; exact k4

theorem Coherent.sortedLt {mfAware ab : Bool} {s : List (File P M)}
    (h : Coherent H HM mfAware ab s) : SortedLt s := by
  cases s with
  | nil => exact absurd h (by simp [Coherent])
  | cons b rest => exact h.2.2.2.1.sortedLt

theorem coherent_cons_iff (mfAware ab : Bool) (b : File P M) (rest : List (File P M)) :
    Coherent H HM mfAware ab (b :: rest) ↔
      (∀ f ∈ b :: rest, f.h5ok = true) ∧ checkSorted H HM mfAware ab b rest = .ok () := by
  rw [checkSorted_ok_iff]; rfl

/-- **Characterisation of `_open`**: a file list is accepted, with result `s`, exactly when `s`
is an arrangement of the files that is coherent. -/
theorem validate_ok_iff (mfAware ab : Bool) (fs s : List (File P M)) :
    validate H HM mfAware ab fs = .ok s ↔ s ~ fs ∧ Coherent H HM mfAware ab s := by
  unfold validate
  by_cases hemp : fs = []
  · subst hemp
    simp only [isEmpty_nil, if_true, perm_nil]
    constructor
    · intro h; cases h
    · rintro ⟨rfl, h⟩; exact absurd h (by simp [Coherent])
  · have hne : fs.isEmpty = false := by cases fs <;> simp_all
    rw [hne]
    simp only [Bool.false_eq_true, if_false]
    by_cases h5 : (fs.any fun f => !f.h5ok) = true
    · rw [if_pos h5]
      constructor
      · intro h; cases h
      · rintro ⟨hp, hc⟩
        obtain ⟨f, hf, hbad⟩ := any_eq_true.mp h5
        have hfs : f ∈ s := hp.symm.subset hf
        cases s with
        | nil => cases hfs
        | cons b rest =>
          have := hc.1 f hfs
          simp [this] at hbad
    · rw [if_neg h5]
      have hall : ∀ f ∈ fs, f.h5ok = true := by
        intro f hf
        cases hok : f.h5ok
        · exact absurd (any_eq_true.mpr ⟨f, hf, by simp [hok]⟩) h5
        · rfl
      have hsp := sortByIdx_perm fs
      rcases hsort : sortByIdx fs with _ | ⟨b, rest⟩
      · rw [hsort] at hsp
        exact absurd hsp.symm.eq_nil hemp
      · simp only
        constructor
        · intro h
          rcases hcs : checkSorted H HM mfAware ab b rest with e | ⟨⟩
          · rw [hcs] at h; cases h
          · rw [hcs] at h
            have hs : b :: rest = s := by simpa [Except.map] using h
            subst hs
            rw [hsort] at hsp
            exact ⟨hsp, (coherent_cons_iff H HM mfAware ab b rest).mpr
              ⟨fun f hf => hall f (hsp.subset hf), hcs⟩⟩
        · rintro ⟨hp, hc⟩
          have hs : sortByIdx fs = s := sortByIdx_eq_of_sortedLt hp (hc.sortedLt H HM)
          rw [hsort] at hs
          subst hs
          rw [((coherent_cons_iff H HM mfAware ab b rest).mp hc).2]
          rfl

end
end MetadorModel.Chain
