import MetadorModel.Proofs.DiffMap
/-! Helper lemmas for the directory-diff model (C18), part 1: well-formedness, path prefixes,
locality of the in-order simulator. -/
namespace MetadorModel.Diff
open MetadorModel

/-! ## well-formedness -/

theorem wf_dir (es : Entries) : (DirTree.dir es).wf = true ↔ AL.sorted es = true ∧ wfEs es = true := by
  simp [DirTree.wf]

theorem wfEs_cons (k : String) (t : DirTree) (r : Entries) :
    wfEs ((k, t) :: r) = true ↔ t.wf = true ∧ wfEs r = true := by
  simp [wfEs]

theorem wfEs_get {es : Entries} (h : wfEs es = true) {k : String} {t : DirTree}
    (hg : AL.get es k = some t) : t.wf = true := by
  induction es with
  | nil => simp at hg
  | cons a r ih =>
    obtain ⟨k', t'⟩ := a
    rw [wfEs_cons] at h
    rw [AL.get_cons] at hg
    split_ifs at hg with h1
    · cases hg; exact h.1
    · exact ih h.2 hg

theorem wfEs_mem {es : Entries} (h : wfEs es = true) {k : String} {t : DirTree}
    (hm : (k, t) ∈ es) : t.wf = true := by
  induction es with
  | nil => simp at hm
  | cons a r ih =>
    obtain ⟨k', t'⟩ := a
    rw [wfEs_cons] at h
    rcases List.mem_cons.mp hm with e | e
    · cases e; exact h.1
    · exact ih h.2 e

theorem wfEs_ins {es : Entries} (h : wfEs es = true) (k : String) {t : DirTree} (ht : t.wf = true) :
    wfEs (AL.ins k t es) = true := by
  induction es with
  | nil => simp [AL.ins, wfEs, ht]
  | cons a r ih =>
    obtain ⟨k', t'⟩ := a
    rw [wfEs_cons] at h
    simp only [AL.ins]
    split_ifs
    · simp [wfEs, ht, h.1, h.2]
    · simp [wfEs, ht, h.2]
    · rw [wfEs_cons]; exact ⟨h.1, ih h.2⟩

theorem wfEs_erase {es : Entries} (h : wfEs es = true) (k : String) : wfEs (AL.erase k es) = true := by
  induction es with
  | nil => rfl
  | cons a r ih =>
    obtain ⟨k', t'⟩ := a
    rw [wfEs_cons] at h
    simp only [AL.erase]
    split_ifs
    · exact h.2
    · rw [wfEs_cons]; exact ⟨h.1, ih h.2⟩

/-! ## path prefixes -/

/-- the record seen from `p` levels further up -/
def Rec.pre (p : Path) (r : Rec) : Rec := ⟨p ++ r.path, r.prev, r.curr⟩

@[simp] theorem Rec.pre_path (p : Path) (r : Rec) : (Rec.pre p r).path = p ++ r.path := rfl
@[simp] theorem Rec.pre_prev (p : Path) (r : Rec) : (Rec.pre p r).prev = r.prev := rfl
@[simp] theorem Rec.pre_curr (p : Path) (r : Rec) : (Rec.pre p r).curr = r.curr := rfl

theorem Rec.pre_pre (p q : Path) (r : Rec) : Rec.pre p (Rec.pre q r) = Rec.pre (p ++ q) r := by
  simp [Rec.pre, List.append_assoc]

theorem Rec.pre_nil (r : Rec) : Rec.pre [] r = r := by
  cases r; simp [Rec.pre]

theorem nodes_mk (p : Path) (pv cv : Option DirTree) (rm md ad : List DNode) :
    nodes (.mk p pv cv rm md ad) = nodesL rm ++ (nodesL md ++ (⟨p, pv, cv⟩ :: nodesL ad)) := by
  simp [nodes]

@[simp] theorem nodesL_nil : nodesL [] = [] := by simp [nodesL]
theorem nodesL_cons (d : DNode) (r : List DNode) : nodesL (d :: r) = nodes d ++ nodesL r := by
  simp [nodesL]

mutual
theorem nodes_addT_pre : (t : DirTree) → (p q : Path) →
    nodes (addT (p ++ q) t) = (nodes (addT q t)).map (Rec.pre p)
  | .file s, p, q => by simp [addT, nodes_mk, Rec.pre]
  | .dir es, p, q => by
    simp only [addT, nodes_mk, nodesL_nil, List.nil_append, List.map_cons]
    rw [nodesL_addEs_pre es p q]
    simp [Rec.pre]
theorem nodesL_addEs_pre : (es : Entries) → (p q : Path) →
    nodesL (addEs (p ++ q) es) = (nodesL (addEs q es)).map (Rec.pre p)
  | [], p, q => by simp [addEs]
  | (k, t) :: r, p, q => by
    simp only [addEs, nodesL_cons, List.map_append]
    rw [List.append_assoc, nodes_addT_pre t p (q ++ [k]), nodesL_addEs_pre r p q]
end

mutual
theorem nodes_remT_pre : (t : DirTree) → (p q : Path) →
    nodes (remT (p ++ q) t) = (nodes (remT q t)).map (Rec.pre p)
  | .file s, p, q => by simp [remT, nodes_mk, Rec.pre]
  | .dir es, p, q => by
    simp only [remT, nodes_mk, nodesL_nil, List.nil_append, List.map_append, List.map_cons, List.map_nil]
    rw [nodesL_remEs_pre es p q]
    simp [Rec.pre]
theorem nodesL_remEs_pre : (es : Entries) → (p q : Path) →
    nodesL (remEs (p ++ q) es) = (nodesL (remEs q es)).map (Rec.pre p)
  | [], p, q => by simp [remEs]
  | (k, t) :: r, p, q => by
    simp only [remEs, nodesL_cons, List.map_append]
    rw [List.append_assoc, nodes_remT_pre t p (q ++ [k]), nodesL_remEs_pre r p q]
end

theorem nodesL_remSel_pre (es fs : Entries) (p q : Path) :
    nodesL (remSel (p ++ q) es fs) = (nodesL (remSel q es fs)).map (Rec.pre p) := by
  induction es with
  | nil => simp [remSel]
  | cons a r ih =>
    obtain ⟨k, t⟩ := a
    simp only [remSel]
    cases AL.get fs k with
    | none =>
      simp only [nodesL_cons, List.map_append]
      rw [List.append_assoc, nodes_remT_pre t p (q ++ [k]), ih]
    | some u => simpa using ih

theorem nodesL_addSel_pre (fs es : Entries) (p q : Path) :
    nodesL (addSel (p ++ q) fs es) = (nodesL (addSel q fs es)).map (Rec.pre p) := by
  induction fs with
  | nil => simp [addSel]
  | cons a r ih =>
    obtain ⟨k, t⟩ := a
    simp only [addSel]
    cases AL.get es k with
    | none =>
      simp only [nodesL_cons, List.map_append]
      rw [List.append_assoc, nodes_addT_pre t p (q ++ [k]), ih]
    | some u => simpa using ih

theorem nodesO_map_none : (nodesO none).map (Rec.pre p) = nodesO none := by simp [nodesO]

theorem cmpT_dir_dir (path : Path) (es fs : Entries) :
    cmpT path (.dir es) (.dir fs) =
      if (remSel path es fs).isEmpty && (cmpEs path es fs).isEmpty && (addSel path fs es).isEmpty then none
      else some (.mk path (some (.dir es)) (some (.dir fs)) (remSel path es fs) (cmpEs path es fs)
        (addSel path fs es)) := by
  simp [cmpT]

theorem cmpEs_cons (path : Path) (k : String) (t : DirTree) (r fs : Entries) :
    cmpEs path ((k, t) :: r) fs =
      match AL.get fs k with
      | none => cmpEs path r fs
      | some u =>
        match cmpT (path ++ [k]) t u with
        | none => cmpEs path r fs
        | some d => d :: cmpEs path r fs := by
  rw [cmpEs]
  cases AL.get fs k with
  | none => rfl
  | some u => cases cmpT (path ++ [k]) t u <;> rfl

theorem isEmpty_nodesL_of_isEmpty {l : List DNode} (h : l.isEmpty = true) : nodesL l = [] := by
  cases l with
  | nil => simp
  | cons a r => simp at h

/-- emptiness of the three buckets does not depend on the path prefix -/
theorem remSel_isEmpty_pre (es fs : Entries) (p q : Path) :
    (remSel p es fs).isEmpty = (remSel q es fs).isEmpty := by
  induction es with
  | nil => simp [remSel]
  | cons a r ih =>
    obtain ⟨k, t⟩ := a
    simp only [remSel]
    cases AL.get fs k with
    | none => simp
    | some u => simpa using ih

theorem addSel_isEmpty_pre (fs es : Entries) (p q : Path) :
    (addSel p fs es).isEmpty = (addSel q fs es).isEmpty := by
  induction fs with
  | nil => simp [addSel]
  | cons a r ih =>
    obtain ⟨k, t⟩ := a
    simp only [addSel]
    cases AL.get es k with
    | none => simp
    | some u => simpa using ih

mutual
theorem cmpT_pre : (a : DirTree) → (b : DirTree) → (p q : Path) →
    (cmpT (p ++ q) a b).isNone = (cmpT q a b).isNone ∧
    nodesO (cmpT (p ++ q) a b) = (nodesO (cmpT q a b)).map (Rec.pre p)
  | .file s, .file s', p, q => by
    simp only [cmpT]
    split_ifs <;> simp [nodesO, nodes_mk, Rec.pre]
  | .file s, .dir fs, p, q => by
    simp only [cmpT, nodesO, nodes_mk, nodesL_nil, List.nil_append, List.map_cons]
    rw [nodesL_addEs_pre fs p q]
    simp [Rec.pre]
  | .dir es, .file s', p, q => by
    simp only [cmpT, nodesO, nodes_mk, nodesL_nil, List.nil_append, List.map_append, List.map_cons, List.map_nil]
    rw [nodesL_remEs_pre es p q]
    simp [Rec.pre]
  | .dir es, .dir fs, p, q => by
    have h1 := remSel_isEmpty_pre es fs (p ++ q) q
    have h2 := (cmpEs_pre es fs p q).1
    have h3 := addSel_isEmpty_pre fs es (p ++ q) q
    rw [cmpT_dir_dir, cmpT_dir_dir, h1, h2, h3]
    split_ifs with hc
    · simp [nodesO]
    · simp only [nodesO, nodes_mk, List.map_append, List.map_cons, Option.isNone_some, true_and]
      rw [nodesL_remSel_pre es fs p q, (cmpEs_pre es fs p q).2, nodesL_addSel_pre fs es p q]
      simp [Rec.pre]
theorem cmpEs_pre : (es : Entries) → (fs : Entries) → (p q : Path) →
    (cmpEs (p ++ q) es fs).isEmpty = (cmpEs q es fs).isEmpty ∧
    nodesL (cmpEs (p ++ q) es fs) = (nodesL (cmpEs q es fs)).map (Rec.pre p)
  | [], fs, p, q => by simp [cmpEs]
  | (k, t) :: r, fs, p, q => by
    rw [cmpEs_cons, cmpEs_cons]
    cases hg : AL.get fs k with
    | none => simpa using cmpEs_pre r fs p q
    | some u =>
      have ht := cmpT_pre t u p (q ++ [k])
      rw [← List.append_assoc] at ht
      have hr := cmpEs_pre r fs p q
      simp only []
      generalize cmpT (p ++ q ++ [k]) t u = x at ht ⊢
      generalize cmpT (q ++ [k]) t u = y at ht ⊢
      cases x with
      | none =>
        cases y with
        | none => simpa using hr
        | some d => simp at ht
      | some d =>
        cases y with
        | none => simp at ht
        | some d' =>
          simp only [nodesO] at ht
          simp only [List.isEmpty_cons, nodesL_cons, List.map_append, true_and]
          rw [ht.2, hr.2]
end

theorem addSel_nil_right (p : Path) (fs : Entries) : addSel p fs [] = addEs p fs := by
  induction fs with
  | nil => simp [addSel, addEs]
  | cons a r ih => obtain ⟨k, t⟩ := a; simp [addSel, addEs, ih]

theorem remSel_nil_right (p : Path) (es : Entries) : remSel p es [] = remEs p es := by
  induction es with
  | nil => simp [remSel, remEs]
  | cons a r ih => obtain ⟨k, t⟩ := a; simp [remSel, remEs, ih]

