import MetadorModel.Proofs.RecordOpen
/-! Chains of containers: sorting by patch index, coherent chains, `_open` on permutations,
preservation of coherence by the API calls (C03 reopen). -/
namespace MetadorModel.Record
open MetadorModel.FindFiles

/-! ## sorting by patch index -/

def IdxLe (a b : Name × UB) : Prop := a.2.idx ≤ b.2.idx
def IdxLt (a b : Name × UB) : Prop := a.2.idx < b.2.idx

theorem insertByIdx_pairwise (x : Name × UB) : ∀ (l : List (Name × UB)),
    l.Pairwise IdxLe → (insertByIdx x l).Pairwise IdxLe
  | [], _ => by simp [insertByIdx]
  | y :: r, h => by
    simp only [insertByIdx]
    split
    · rename_i hxy
      refine List.Pairwise.cons ?_ h
      intro z hz
      simp only [List.mem_cons] at hz
      rcases hz with rfl | hz
      · exact hxy
      · exact Nat.le_trans hxy (List.rel_of_pairwise_cons h hz)
    · rename_i hxy
      have hyx : IdxLe y x := by unfold IdxLe; omega
      refine List.Pairwise.cons ?_ (insertByIdx_pairwise x r h.tail)
      intro z hz
      have := (insertByIdx_perm x r).mem_iff.mp hz
      simp only [List.mem_cons] at this
      rcases this with rfl | hz'
      · exact hyx
      · exact List.rel_of_pairwise_cons h hz'

theorem sortByIdx_pairwise : ∀ (l : List (Name × UB)), (sortByIdx l).Pairwise IdxLe
  | [] => by simp [sortByIdx]
  | x :: r => by
    simp only [sortByIdx]
    exact insertByIdx_pairwise x _ (sortByIdx_pairwise r)

theorem eq_of_idx_eq : ∀ (l : List (Name × UB)), l.Pairwise IdxLt →
    ∀ a b, a ∈ l → b ∈ l → a.2.idx = b.2.idx → a = b
  | [], _, a, _, ha, _, _ => by cases ha
  | x :: r, h, a, b, ha, hb, hab => by
    simp only [List.mem_cons] at ha hb
    rcases ha with rfl | ha <;> rcases hb with rfl | hb
    · rfl
    · have := List.rel_of_pairwise_cons h hb
      unfold IdxLt at this; omega
    · have := List.rel_of_pairwise_cons h ha
      unfold IdxLt at this; omega
    · exact eq_of_idx_eq r h.tail a b ha hb hab

/-- a permutation of a strictly index-sorted list sorts back to it -/
theorem sortByIdx_eq_of_perm (l files : List (Name × UB)) (hs : files.Pairwise IdxLt)
    (hp : l.Perm files) : sortByIdx l = files := by
  apply List.Perm.eq_of_pairwise (le := IdxLe) ?_ (sortByIdx_pairwise l)
    (hs.imp (fun h => Nat.le_of_lt h)) ((sortByIdx_perm l).trans hp)
  intro a b ha hb h1 h2
  have ha' : a ∈ files := hp.mem_iff.mp ((sortByIdx_perm l).mem_iff.mp ha)
  exact eq_of_idx_eq files hs a b ha' hb (Nat.le_antisymm h1 h2)

/-- **any permutation of the file list is sorted into the same order** -/
theorem sortByIdx_perm_invariant (l l' : List (Name × UB)) (hp : l.Perm l')
    (hs : (sortByIdx l').Pairwise IdxLt) : sortByIdx l = sortByIdx l' :=
  sortByIdx_eq_of_perm l _ hs (hp.trans (sortByIdx_perm l').symm)

/-! ## coherent chains -/

/-- the chain `files` (in patch order, with the user blocks found on disk) passes `_open` -/
structure Coherent (d : Disk) (files : List (Name × UB)) : Prop where
  onDisk : ∀ f ub, (f, ub) ∈ files → ∃ p, getF d f = some (.cont ub p)
  sorted : files.Pairwise IdxLt
  checks : ∃ f0 u0 rest, files = (f0, u0) :: rest ∧ u0.prev = none ∧
    checkUB d u0.rid f0 u0 none (!rest.isEmpty) = true ∧ checkChain d u0.rid u0 rest = true ∧
    distinctPids files = true

theorem loadAll_of_onDisk (d : Disk) : ∀ (paths : List Name) (g : Name → UB),
    (∀ f ∈ paths, ∃ p, getF d f = some (.cont (g f) p)) →
    loadAll d paths = .ok (paths.map (fun f => (f, g f)))
  | [], _, _ => rfl
  | f :: r, g, h => by
    obtain ⟨p, hp⟩ := h f (by simp)
    simp only [loadAll, hp, loadAll_of_onDisk d r g (fun x hx => h x (by simp [hx])), List.map_cons]

theorem Coherent.names_nodup {d : Disk} {files : List (Name × UB)} (hc : Coherent d files) :
    ∀ a b, a ∈ files → b ∈ files → a.1 = b.1 → a = b := by
  intro a b ha hb hab
  obtain ⟨fa, ua⟩ := a
  obtain ⟨fb, ub⟩ := b
  simp only at hab
  subst hab
  obtain ⟨p, hp⟩ := hc.onDisk _ _ ha
  obtain ⟨q, hq⟩ := hc.onDisk _ _ hb
  rw [hp] at hq
  cases hq
  rfl

/-- **validate_perm**: `_open` on any permutation of the file names of a coherent chain
succeeds and returns the chain in patch order. -/
theorem openFiles_of_coherent {d : Disk} {files : List (Name × UB)} (hc : Coherent d files)
    (paths : List Name) (hp : paths.Perm (files.map Prod.fst)) (rw : Bool) :
    ∃ fl ul, lastFile files = some (fl, ul) ∧
      openFiles d paths rw = .ok (files, rw && ul.hash.isNone) := by
  obtain ⟨f0, u0, rest, hfiles, hprev, hc0, hcc, hdp⟩ := hc.checks
  -- the user block found on disk under a name
  let g : Name → UB := fun f => match getF d f with
    | some (.cont ub _) => ub
    | _ => default
  have hg : ∀ f ub, (f, ub) ∈ files → g f = ub := by
    intro f ub hm
    obtain ⟨p, hp⟩ := hc.onDisk f ub hm
    simp only [g, hp]
  have hfiles_g : files = (files.map Prod.fst).map (fun f => (f, g f)) := by
    rw [List.map_map]
    conv => lhs; rw [← List.map_id files]
    apply List.map_congr_left
    intro x hx
    obtain ⟨f, ub⟩ := x
    simp [hg f ub hx]
  have hload : loadAll d paths = .ok (paths.map (fun f => (f, g f))) := by
    apply loadAll_of_onDisk
    intro f hf
    have hf' := hp.mem_iff.mp hf
    obtain ⟨x, hx, rfl⟩ := List.mem_map.mp hf'
    obtain ⟨f, ub⟩ := x
    obtain ⟨p, hpp⟩ := hc.onDisk f ub hx
    exact ⟨p, by rw [hg f ub hx]; exact hpp⟩
  have hperm : (paths.map (fun f => (f, g f))).Perm files := by
    have := hp.map (fun f => (f, g f))
    rw [← hfiles_g] at this
    exact this
  have hsort := sortByIdx_eq_of_perm _ _ hc.sorted hperm
  have hne : paths.isEmpty = false := by
    cases paths with
    | nil =>
      have := hp.length_eq
      rw [hfiles] at this; simp at this
    | cons x r => rfl
  cases hl : lastFile files with
  | none => rw [hfiles] at hl; exact absurd ((lastFile_eq_none _).mp hl) (by simp)
  | some y =>
    obtain ⟨fl, ul⟩ := y
    refine ⟨fl, ul, rfl, ?_⟩
    unfold openFiles
    simp only [hne, Bool.false_eq_true, if_false, hload, hsort]
    rw [hfiles] at hl hdp
    simp only [hfiles, hprev, Option.isSome_none, Bool.false_eq_true, if_false, hc0, Bool.not_true, hcc, hdp, hl]

end MetadorModel.Record
