import MetadorModel.Proofs.RecordOpen
/-! Chains of containers: sorting by patch index, coherent chains, `_open` on permutations,
preservation of coherence by the API calls (C03 reopen). -/
namespace MetadorModel.Record
open MetadorModel.FindFiles

/-! ## sorting by patch index -/

def IdxLe (a b : Name × UB) : Prop := a.2.idx ≤ b.2.idx
def IdxLt (a b : Name × UB) : Prop := a.2.idx < b.2.idx

theorem insertByIdx_pairwise (x : Name × UB) : ∀ (l : List (Name × UB)),
    l.Pairwise IdxLe → (insertByIdx x l).Pairwise IdxLe
  | [], _ => by simp [insertByIdx]
  | y :: r, h => by
    simp only [insertByIdx]
    split
    · rename_i hxy
      refine List.Pairwise.cons ?_ h
      intro z hz
      simp only [List.mem_cons] at hz
      rcases hz with rfl | hz
      · exact hxy
      · exact Nat.le_trans hxy (List.rel_of_pairwise_cons h hz)
    · rename_i hxy
      have hyx : IdxLe y x := by unfold IdxLe; omega
      refine List.Pairwise.cons ?_ (insertByIdx_pairwise x r h.tail)
      intro z hz
      have := (insertByIdx_perm x r).mem_iff.mp hz
      simp only [List.mem_cons] at this
      rcases this with rfl | hz'
      · exact hyx
      · exact List.rel_of_pairwise_cons h hz'

theorem sortByIdx_pairwise : ∀ (l : List (Name × UB)), (sortByIdx l).Pairwise IdxLe
  | [] => by simp [sortByIdx]
  | x :: r => by
    simp only [sortByIdx]
    exact insertByIdx_pairwise x _ (sortByIdx_pairwise r)

theorem eq_of_idx_eq : ∀ (l : List (Name × UB)), l.Pairwise IdxLt →
    ∀ a b, a ∈ l → b ∈ l → a.2.idx = b.2.idx → a = b
  | [], _, a, _, ha, _, _ => by cases ha
  | x :: r, h, a, b, ha, hb, hab => by
    simp only [List.mem_cons] at ha hb
    rcases ha with rfl | ha <;> rcases hb with rfl | hb
    · rfl
    · have := List.rel_of_pairwise_cons h hb
      unfold IdxLt at this; omega
    · have := List.rel_of_pairwise_cons h ha
      unfold IdxLt at this; omega
    · exact eq_of_idx_eq r h.tail a b ha hb hab

/-- a permutation of a strictly index-sorted list sorts back to it -/
theorem sortByIdx_eq_of_perm (l files : List (Name × UB)) (hs : files.Pairwise IdxLt)
    (hp : l.Perm files) : sortByIdx l = files := by
  apply List.Perm.eq_of_pairwise (le := IdxLe) ?_ (sortByIdx_pairwise l)
    (hs.imp (fun h => Nat.le_of_lt h)) ((sortByIdx_perm l).trans hp)
  intro a b ha hb h1 h2
  have ha' : a ∈ files := hp.mem_iff.mp ((sortByIdx_perm l).mem_iff.mp ha)
  exact eq_of_idx_eq files hs a b ha' hb (Nat.le_antisymm h1 h2)

/-- **any permutation of the file list is sorted into the same order** -/
theorem sortByIdx_perm_invariant (l l' : List (Name × UB)) (hp : l.Perm l')
    (hs : (sortByIdx l').Pairwise IdxLt) : sortByIdx l = sortByIdx l' :=
  sortByIdx_eq_of_perm l _ hs (hp.trans (sortByIdx_perm l').symm)

/-! ## coherent chains -/

/-- the chain `files` (in patch order, with the user blocks found on disk) passes `_open` -/
structure Coherent (d : Disk) (files : List (Name × UB)) : Prop where
  onDisk : ∀ f ub, (f, ub) ∈ files → ∃ p, getF d f = some (.cont ub p)
  sorted : files.Pairwise IdxLt
  checks : ∃ f0 u0 rest, files = (f0, u0) :: rest ∧ u0.prev = none ∧
    checkUB d u0.rid f0 u0 none (!rest.isEmpty) = true ∧ checkChain d u0.rid u0 rest = true ∧
    distinctPids files = true

theorem loadAll_of_onDisk (d : Disk) : ∀ (paths : List Name) (g : Name → UB),
    (∀ f ∈ paths, ∃ p, getF d f = some (.cont (g f) p)) →
    loadAll d paths = .ok (paths.map (fun f => (f, g f)))
  | [], _, _ => rfl
  | f :: r, g, h => by
    obtain ⟨p, hp⟩ := h f (by simp)
    simp only [loadAll, hp, loadAll_of_onDisk d r g (fun x hx => h x (by simp [hx])), List.map_cons]

theorem Coherent.names_nodup {d : Disk} {files : List (Name × UB)} (hc : Coherent d files) :
    ∀ a b, a ∈ files → b ∈ files → a.1 = b.1 → a = b := by
  intro a b ha hb hab
  obtain ⟨fa, ua⟩ := a
  obtain ⟨fb, ub⟩ := b
  simp only at hab
  subst hab
  obtain ⟨p, hp⟩ := hc.onDisk _ _ ha
  obtain ⟨q, hq⟩ := hc.onDisk _ _ hb
  rw [hp] at hq
  cases hq
  rfl

/-- **validate_perm**: `_open` on any permutation of the file names of a coherent chain
succeeds and returns the chain in patch order. -/
theorem openFiles_of_coherent {d : Disk} {files : List (Name × UB)} (hc : Coherent d files)
    (paths : List Name) (hp : paths.Perm (files.map Prod.fst)) (rw : Bool) :
    ∃ fl ul, lastFile files = some (fl, ul) ∧
      openFiles d paths rw = .ok (files, rw && ul.hash.isNone) := by
  obtain ⟨f0, u0, rest, hfiles, hprev, hc0, hcc, hdp⟩ := hc.checks
  -- the user block found on disk under a name
  let g : Name → UB := fun f => match getF d f with
    | some (.cont ub _) => ub
    | _ => default
  have hg : ∀ f ub, (f, ub) ∈ files → g f = ub := by
    intro f ub hm
    obtain ⟨p, hp⟩ := hc.onDisk f ub hm
    simp only [g, hp]
  have hfiles_g : files = (files.map Prod.fst).map (fun f => (f, g f)) := by
    rw [List.map_map]
    conv => lhs; rw [← List.map_id files]
    apply List.map_congr_left
    intro x hx
    obtain ⟨f, ub⟩ := x
    simp [hg f ub hx]
  have hload : loadAll d paths = .ok (paths.map (fun f => (f, g f))) := by
    apply loadAll_of_onDisk
    intro f hf
    have hf' := hp.mem_iff.mp hf
    obtain ⟨x, hx, rfl⟩ := List.mem_map.mp hf'
    obtain ⟨f, ub⟩ := x
    obtain ⟨p, hpp⟩ := hc.onDisk f ub hx
    exact ⟨p, by rw [hg f ub hx]; exact hpp⟩
  have hperm : (paths.map (fun f => (f, g f))).Perm files := by
    have := hp.map (fun f => (f, g f))
    rw [← hfiles_g] at this
    exact this
  have hsort := sortByIdx_eq_of_perm _ _ hc.sorted hperm
  have hne : paths.isEmpty = false := by
    cases paths with
    | nil =>
      have := hp.length_eq
      rw [hfiles] at this; simp at this
    | cons x r => rfl
  cases hl : lastFile files with
  | none => rw [hfiles] at hl; exact absurd ((lastFile_eq_none _).mp hl) (by simp)
  | some y =>
    obtain ⟨fl, ul⟩ := y
    refine ⟨fl, ul, rfl, ?_⟩
    unfold openFiles
    simp only [hne, Bool.false_eq_true, if_false, hload, hsort]
    rw [hfiles] at hl hdp
    simp only [hfiles, hprev, Option.isSome_none, Bool.false_eq_true, if_false, hc0, Bool.not_true, hcc, hdp, hl]


theorem checkUB_prev_lt {d : Disk} {rid : Nat} {f : Name} {ub p : UB} {ch : Bool}
    (h : checkUB d rid f ub (some p) ch = true) : p.idx < ub.idx := by
  unfold checkUB at h
  simp only [Bool.and_eq_true, decide_eq_true_eq] at h
  exact h.2.1

theorem checkChain_sorted (d : Disk) (rid : Nat) : ∀ (l : List (Name × UB)) (p : UB),
    checkChain d rid p l = true → (∀ x ∈ l, p.idx < x.2.idx) ∧ l.Pairwise IdxLt
  | [], _, _ => by simp
  | (f, ub) :: r, p, h => by
    cases r with
    | nil =>
      simp only [checkChain] at h
      have := checkUB_prev_lt h
      simp [this]
    | cons y r' =>
      simp only [checkChain, Bool.and_eq_true] at h
      have h1 := checkUB_prev_lt h.1
      obtain ⟨h2, h3⟩ := checkChain_sorted d rid (y :: r') ub h.2
      constructor
      · intro x hx
        simp only [List.mem_cons] at hx
        rcases hx with rfl | hx
        · exact h1
        · exact Nat.lt_trans h1 (h2 x (by simpa using hx))
      · exact List.Pairwise.cons (fun x hx => h2 x hx) h3

/-- **soundness of `_open`**: what it returns is a coherent chain -/
theorem openFiles_sound {d : Disk} {paths : List Name} {rw : Bool} {files : List (Name × UB)} {b : Bool}
    (h : openFiles d paths rw = .ok (files, b)) : Coherent d files := by
  have hmem := openFiles_mem h
  unfold openFiles at h
  split at h
  · cases h
  · cases hl : loadAll d paths with
    | error e => simp [hl] at h
    | ok ubs =>
      simp only [hl] at h
      cases hs : sortByIdx ubs with
      | nil => simp [hs] at h
      | cons x rest =>
        obtain ⟨f0, u0⟩ := x
        simp only [hs] at h
        split at h
        · cases h
        · rename_i hprev
          split at h
          · cases h
          · rename_i hc0
            split at h
            · cases h
            · rename_i hcc
              split at h
              · cases h
              · rename_i hdp
                cases hlast : lastFile ((f0, u0) :: rest) with
                | none => simp [hlast] at h
                | some y =>
                  simp only [hlast, Except.ok.injEq, Prod.mk.injEq] at h
                  obtain ⟨rfl, _⟩ := h
                  have hcc' : checkChain d u0.rid u0 rest = true := by simpa using hcc
                  obtain ⟨hlt, hpw⟩ := checkChain_sorted d u0.rid rest u0 hcc'
                  refine ⟨hmem, List.Pairwise.cons (fun x hx => hlt x hx) hpw, f0, u0, rest, rfl, ?_, ?_, hcc', ?_⟩
                  · cases hp : u0.prev <;> simp_all
                  · simpa using hc0
                  · simpa using hdp


theorem coherent_congr {d d' : Disk} {files : List (Name × UB)}
    (h : ∀ x ∈ files, getF d' x.1 = getF d x.1) (hc : Coherent d files) : Coherent d' files := by
  obtain ⟨f0, u0, rest, hfiles, hprev, hc0, hcc, hdp⟩ := hc.checks
  refine ⟨?_, hc.sorted, f0, u0, rest, hfiles, hprev, ?_, ?_, hdp⟩
  · intro f ub hm
    obtain ⟨p, hp⟩ := hc.onDisk f ub hm
    exact ⟨p, by rw [h (f, ub) hm]; exact hp⟩
  · rw [checkUB_congr (h (f0, u0) (by rw [hfiles]; simp))]; exact hc0
  · rw [checkChain_congr d d' u0.rid rest u0 (fun x hx => h x (by rw [hfiles]; simp [hx]))]; exact hcc

theorem viewFiles_names (d : Disk) : ∀ (l l' : List (Name × UB)), l.map Prod.fst = l'.map Prod.fst →
    viewFiles d l = viewFiles d l'
  | [], [], _ => rfl
  | [], _ :: _, h => by simp at h
  | _ :: _, [], h => by simp at h
  | (f, u) :: r, (g, v) :: r', h => by
    simp only [List.map_cons, List.cons.injEq] at h
    simp only [viewFiles, h.1, viewFiles_names d r r' h.2]

/-- membership in a list whose last user block was replaced -/
theorem mem_setLastUB : ∀ (l : List (Name × UB)) (fl : Name) (ul u : UB) (x : Name × UB),
    lastFile l = some (fl, ul) → x ∈ setLastUB l u → x = (fl, u) ∨ x ∈ dropLastF l
  | [], _, _, _, _, h, _ => by simp [lastFile] at h
  | [(g, v)], fl, ul, u, x, h, hx => by
    simp only [lastFile, Option.some.injEq, Prod.mk.injEq] at h
    simp only [setLastUB, List.mem_cons, List.not_mem_nil, or_false] at hx
    left; rw [hx, h.1]
  | a :: b :: r, fl, ul, u, x, h, hx => by
    simp only [lastFile] at h
    simp only [setLastUB, List.mem_cons] at hx
    rcases hx with rfl | hx
    · right; simp [dropLastF]
    · rcases mem_setLastUB (b :: r) fl ul u x h (by simpa using hx) with h1 | h1
      · left; exact h1
      · right; simp only [dropLastF, List.mem_cons]; right; exact h1

theorem dropLastF_append_last : ∀ (l : List (Name × UB)) (x : Name × UB),
    lastFile l = some x → dropLastF l ++ [x] = l
  | [], _, h => by simp [lastFile] at h
  | [y], x, h => by simp only [lastFile, Option.some.injEq] at h; simp [dropLastF, h]
  | a :: b :: r, x, h => by
    simp only [lastFile] at h
    simp only [dropLastF, List.cons_append, dropLastF_append_last (b :: r) x h]

theorem setLastUB_eq_dropLast_append : ∀ (l : List (Name × UB)) (fl : Name) (ul u : UB),
    lastFile l = some (fl, ul) → setLastUB l u = dropLastF l ++ [(fl, u)]
  | [], _, _, _, h => by simp [lastFile] at h
  | [(g, v)], fl, ul, u, h => by
    simp only [lastFile, Option.some.injEq, Prod.mk.injEq] at h
    simp [setLastUB, dropLastF, h.1]
  | a :: b :: r, fl, ul, u, h => by
    simp only [lastFile] at h
    have := setLastUB_eq_dropLast_append (b :: r) fl ul u h
    simp only [setLastUB, dropLastF, List.cons_append] at this ⊢
    rw [this]


/-- `u'` is `u` with a checksum (and possibly another manifest extension) -/
def SameLink (u u' : UB) : Prop := u'.rid = u.rid ∧ u'.idx = u.idx ∧ u'.pid = u.pid ∧ u'.prev = u.prev

theorem checkUB_committed {d : Disk} {rid : Nat} {fl : Name} {ul ul' : UB} {prev : Option UB} {ch ch' : Bool}
    {p : List Nat} (h : checkUB d rid fl ul prev ch = true) (hs : SameLink ul ul') (hh : ul'.hash = some p) :
    checkUB (setF d fl (.cont ul' p)) rid fl ul' prev ch' = true := by
  unfold checkUB at h ⊢
  obtain ⟨h1, h2, h3, h4⟩ := hs
  simp only [Bool.and_eq_true] at h
  obtain ⟨⟨⟨ha, _⟩, _⟩, hd⟩ := h
  simp only [h1, ha, hh, Option.isNone_some, Bool.and_false, Bool.not_false, payloadOf, getF_setF_eq,
    beq_self_eq_true, Bool.and_self, Bool.true_and]
  cases prev with
  | none => rfl
  | some q => simpa [h2, h4] using hd

theorem checkChain_commit_last (d : Disk) (rid : Nat) (fl : Name) (ul ul' : UB) (p : List Nat)
    (hs : SameLink ul ul') (hh : ul'.hash = some p) :
    ∀ (rest : List (Name × UB)) (prev : UB), checkChain d rid prev rest = true →
      lastFile rest = some (fl, ul) → (∀ x ∈ dropLastF rest, x.1 ≠ fl) →
      checkChain (setF d fl (.cont ul' p)) rid prev (setLastUB rest ul') = true
  | [], _, _, hl, _ => by simp [lastFile] at hl
  | [(g, v)], prev, hc, hl, _ => by
    simp only [lastFile, Option.some.injEq, Prod.mk.injEq] at hl
    obtain ⟨h1, h2⟩ := hl
    subst h1; subst h2
    simp only [checkChain] at hc
    simp only [setLastUB, checkChain]
    exact checkUB_committed hc hs hh
  | (g, v) :: y :: r, prev, hc, hl, hne => by
    simp only [lastFile] at hl
    simp only [checkChain, Bool.and_eq_true] at hc
    have hg : g ≠ fl := hne (g, v) (by simp [dropLastF])
    have ih := checkChain_commit_last d rid fl ul ul' p hs hh (y :: r) v hc.2 hl
      (fun x hx => hne x (by simp only [dropLastF, List.mem_cons]; right; exact hx))
    have hshape : ∃ y' r', setLastUB (y :: r) ul' = y' :: r' := by
      cases r with
      | nil => obtain ⟨a, b⟩ := y; exact ⟨_, _, rfl⟩
      | cons z r'' => exact ⟨_, _, rfl⟩
    obtain ⟨y', r', hy⟩ := hshape
    have : setLastUB ((g, v) :: y :: r) ul' = (g, v) :: y' :: r' := by
      simp only [setLastUB, hy]
    rw [this]
    simp only [checkChain, Bool.and_eq_true]
    rw [hy] at ih
    exact ⟨by rw [checkUB_congr (getF_setF_ne _ _ _ _ hg)]; exact hc.1, ih⟩

theorem map_pid_setLastUB : ∀ (l : List (Name × UB)) (fl : Name) (ul u : UB),
    lastFile l = some (fl, ul) → u.pid = ul.pid →
    (setLastUB l u).map (fun x => x.2.pid) = l.map (fun x => x.2.pid)
  | [], _, _, _, h, _ => by simp [lastFile] at h
  | [(g, v)], fl, ul, u, h, hp => by
    simp only [lastFile, Option.some.injEq, Prod.mk.injEq] at h
    simp [setLastUB, hp, h.2]
  | a :: b :: r, fl, ul, u, h, hp => by
    simp only [lastFile] at h
    have := map_pid_setLastUB (b :: r) fl ul u h hp
    simp only [setLastUB, List.map_cons] at this ⊢
    rw [this]

theorem map_idx_setLastUB : ∀ (l : List (Name × UB)) (fl : Name) (ul u : UB),
    lastFile l = some (fl, ul) → u.idx = ul.idx →
    (setLastUB l u).map (fun x => x.2.idx) = l.map (fun x => x.2.idx)
  | [], _, _, _, h, _ => by simp [lastFile] at h
  | [(g, v)], fl, ul, u, h, hp => by
    simp only [lastFile, Option.some.injEq, Prod.mk.injEq] at h
    simp [setLastUB, hp, h.2]
  | a :: b :: r, fl, ul, u, h, hp => by
    simp only [lastFile] at h
    have := map_idx_setLastUB (b :: r) fl ul u h hp
    simp only [setLastUB, List.map_cons] at this ⊢
    rw [this]

theorem distinctPids_map : ∀ (l l' : List (Name × UB)),
    l.map (fun x => x.2.pid) = l'.map (fun x => x.2.pid) → distinctPids l = distinctPids l'
  | [], [], _ => rfl
  | [], _ :: _, h => by simp at h
  | _ :: _, [], h => by simp at h
  | (f, u) :: r, (g, v) :: r', h => by
    simp only [List.map_cons, List.cons.injEq] at h
    have hany : r.any (fun y => y.2.pid == u.pid) = r'.any (fun y => y.2.pid == v.pid) := by
      have key : ∀ (l : List (Name × UB)) (q : Nat),
          l.any (fun y => y.2.pid == q) = (l.map (fun x => x.2.pid)).any (fun z => z == q) := by
        intro l q; rw [List.any_map]; rfl
      rw [key r, key r', h.2, h.1]
    simp only [distinctPids, hany, distinctPids_map r r' h.2]

theorem pairwise_idx_map : ∀ (l l' : List (Name × UB)),
    l.map (fun x => x.2.idx) = l'.map (fun x => x.2.idx) → l.Pairwise IdxLt → l'.Pairwise IdxLt := by
  intro l l' h hp
  have h1 : (l.map (fun x => x.2.idx)).Pairwise (· < ·) := by
    rw [List.pairwise_map]; exact hp
  rw [h, List.pairwise_map] at h1
  exact h1


theorem mem_of_mem_dropLastF : ∀ (l : List (Name × UB)) (x : Name × UB), x ∈ dropLastF l → x ∈ l
  | [], x, h => by simp [dropLastF] at h
  | [_], x, h => by simp [dropLastF] at h
  | a :: b :: r, x, h => by
    simp only [dropLastF, List.mem_cons] at h
    rcases h with rfl | h
    · simp
    · exact List.mem_cons_of_mem _ (mem_of_mem_dropLastF (b :: r) x h)

theorem Coherent.init_ne_last {d : Disk} {files : List (Name × UB)} (hc : Coherent d files)
    {fl : Name} {ul : UB} (hl : lastFile files = some (fl, ul)) :
    ∀ x ∈ dropLastF files, x.1 ≠ fl ∧ x.2.idx < ul.idx := by
  intro x hx
  have hsplit := dropLastF_append_last files (fl, ul) hl
  have hs := hc.sorted
  rw [← hsplit, List.pairwise_append] at hs
  have hlt : x.2.idx < ul.idx := hs.2.2 x hx (fl, ul) (by simp)
  refine ⟨?_, hlt⟩
  intro hname
  have := hc.names_nodup x (fl, ul) (mem_of_mem_dropLastF _ _ hx) (lastFile_mem _ _ hl) hname
  rw [this] at hlt
  exact Nat.lt_irrefl _ hlt

theorem coherent_commit_last {d : Disk} {files : List (Name × UB)} {fl : Name} {ul ul' : UB} {p : List Nat}
    (hc : Coherent d files) (hl : lastFile files = some (fl, ul)) (hp : payloadOf d fl = some p)
    (hs : SameLink ul ul') (hh : ul'.hash = some p) :
    Coherent (setF d fl (.cont ul' p)) (setLastUB files ul') := by
  have hinit := hc.init_ne_last hl
  obtain ⟨f0, u0, rest, hfiles, hprev, hc0, hcc, hdp⟩ := hc.checks
  refine ⟨?_, ?_, ?_⟩
  · intro f ub hm
    rcases mem_setLastUB files fl ul ul' (f, ub) hl hm with h | h
    · cases h; exact ⟨p, getF_setF_eq _ _ _⟩
    · obtain ⟨q, hq⟩ := hc.onDisk f ub (mem_of_mem_dropLastF _ _ h)
      exact ⟨q, by rw [getF_setF_ne _ _ _ _ (hinit _ h).1]; exact hq⟩
  · exact pairwise_idx_map _ _ (map_idx_setLastUB files fl ul ul' hl hs.2.1).symm hc.sorted
  · have hdp' : distinctPids (setLastUB files ul') = true := by
      rw [distinctPids_map _ files (map_pid_setLastUB files fl ul ul' hl hs.2.2.1)]; exact hdp
    subst hfiles
    cases rest with
    | nil =>
      simp only [lastFile, Option.some.injEq, Prod.mk.injEq] at hl
      obtain ⟨h1, h2⟩ := hl
      subst h1; subst h2
      refine ⟨f0, ul', [], rfl, by rw [hs.2.2.2]; exact hprev, ?_, rfl, hdp'⟩
      have := checkUB_committed (ch' := !([] : List (Name × UB)).isEmpty) hc0 hs hh
      rw [hs.1]; exact this
    | cons y r =>
      have hf0 : f0 ≠ fl := (hinit (f0, u0) (by simp [dropLastF])).1
      have hl' : lastFile (y :: r) = some (fl, ul) := by simpa [lastFile] using hl
      have hshape : ∃ y' r', setLastUB (y :: r) ul' = y' :: r' := by
        cases r with
        | nil => obtain ⟨a, b⟩ := y; exact ⟨_, _, rfl⟩
        | cons z r'' => exact ⟨_, _, rfl⟩
      obtain ⟨y', r', hy⟩ := hshape
      have hset : setLastUB ((f0, u0) :: y :: r) ul' = (f0, u0) :: setLastUB (y :: r) ul' := by
        simp only [setLastUB]
      refine ⟨f0, u0, setLastUB (y :: r) ul', hset, hprev, ?_, ?_, hdp'⟩
      · rw [hy]
        rw [checkUB_congr (getF_setF_ne _ _ _ _ hf0)]
        simpa using hc0
      · apply checkChain_commit_last d u0.rid fl ul ul' p hs hh (y :: r) u0 hcc hl'
        intro x hx
        exact (hinit x (by simp only [dropLastF, List.mem_cons]; right; exact hx)).1

theorem viewFiles_commit_last {d : Disk} {files : List (Name × UB)} {fl : Name} {ul ul' : UB} {p : List Nat}
    (hc : Coherent d files) (hl : lastFile files = some (fl, ul)) (hp : payloadOf d fl = some p) :
    viewFiles (setF d fl (.cont ul' p)) (setLastUB files ul') = viewFiles d files := by
  rw [viewFiles_names _ (setLastUB files ul') files (map_fst_setLastUB _ _)]
  have hinit := hc.init_ne_last hl
  have hsplit := dropLastF_append_last files (fl, ul) hl
  have key : ∀ (l : List (Name × UB)), (∀ x ∈ l, x.1 = fl ∨ x.1 ≠ fl) →
      viewFiles (setF d fl (.cont ul' p)) l = viewFiles d l := by
    intro l _
    induction l with
    | nil => rfl
    | cons x r ih =>
      obtain ⟨f, u⟩ := x
      simp only [viewFiles]
      rw [ih (fun y hy => Classical.em _)]
      by_cases hf : f = fl
      · subst hf
        simp only [payloadOf, getF_setF_eq] at hp ⊢
        cases hg : getF d f with
        | none => simp [hg] at hp
        | some v => cases v <;> simp_all
      · rw [payloadOf_congr (getF_setF_ne _ _ _ _ hf)]
  exact key files (fun x _ => Classical.em _)

end MetadorModel.Record
