import MetadorModel.Model.Hashsums
import Mathlib.Data.Char
import Mathlib.Order.Defs.LinearOrder
import Mathlib.Data.List.Infix
/-!
Helper lemmas for `Model/Hashsums.lean`, part 1: Python string order, laws of the canonical
dict representation (`dget`/`dset`), commutation of the dict-building tail `put`.
-/
namespace MetadorModel.Hashsums
open MetadorModel.Bytes

theorem strLt_cons (x y : Char) (a b : Str) :
    strLt (x :: a) (y :: b) = true ↔ x < y ∨ (x = y ∧ strLt a b = true) := by
  simp only [strLt]
  split_ifs with h1 h2
  · simp [h1]
  · subst h2; simp
  · simp [h1, h2]

theorem strLt_irrefl : ∀ a : Str, strLt a a = false
  | [] => rfl
  | c :: r => by
    have := strLt_irrefl r
    cases h : strLt (c :: r) (c :: r)
    · rfl
    · rcases (strLt_cons c c r r).mp h with h' | ⟨_, h'⟩
      · exact absurd h' (lt_irrefl c)
      · rw [this] at h'; cases h'

theorem strLt_trans : ∀ a b c : Str, strLt a b = true → strLt b c = true → strLt a c = true
  | [], [], _, h, _ => by simp [strLt] at h
  | [], _ :: _, [], _, h => by simp [strLt] at h
  | [], _ :: _, _ :: _, _, _ => by simp [strLt]
  | _ :: _, [], _, h, _ => by simp [strLt] at h
  | _ :: _, _ :: _, [], _, h => by simp [strLt] at h
  | x :: a, y :: b, z :: c, h1, h2 => by
    rw [strLt_cons] at h1 h2 ⊢
    rcases h1 with h1 | ⟨e1, h1⟩ <;> rcases h2 with h2 | ⟨e2, h2⟩
    · exact Or.inl (lt_trans h1 h2)
    · subst e2; exact Or.inl h1
    · subst e1; exact Or.inl h2
    · subst e1; subst e2; exact Or.inr ⟨rfl, strLt_trans a b c h1 h2⟩

theorem strLt_total : ∀ a b : Str, a ≠ b → strLt a b = true ∨ strLt b a = true
  | [], [], h => absurd rfl h
  | [], _ :: _, _ => Or.inl (by simp [strLt])
  | _ :: _, [], _ => Or.inr (by simp [strLt])
  | x :: a, y :: b, h => by
    rw [strLt_cons, strLt_cons]
    rcases lt_trichotomy x y with hxy | hxy | hxy
    · exact Or.inl (Or.inl hxy)
    · subst hxy
      have : a ≠ b := fun e => h (by rw [e])
      rcases strLt_total a b this with h' | h'
      · exact Or.inl (Or.inr ⟨rfl, h'⟩)
      · exact Or.inr (Or.inr ⟨rfl, h'⟩)
    · exact Or.inr (Or.inl hxy)

theorem strLt_asymm (a b : Str) (h : strLt a b = true) : strLt b a = false := by
  cases h' : strLt b a
  · rfl
  · have := strLt_trans a b a h h'
    rw [strLt_irrefl] at this; cases this

theorem strLt_ne (a b : Str) (h : strLt a b = true) : a ≠ b := by
  intro e; subst e; rw [strLt_irrefl] at h; cases h

/-! ### dict laws -/

theorem dget_dset_same (k : Name) (v : HT) : ∀ d, dget k (dset k v d) = some v
  | [] => by simp [dset, dget]
  | (k', v') :: r => by
    simp only [dset]
    split_ifs with h1 h2
    · simp [dget]
    · simp [dget]
    · simp only [dget, if_neg h2]; exact dget_dset_same k v r

theorem dget_dset_ne (k k' : Name) (v : HT) (hne : k ≠ k') : ∀ d, dget k' (dset k v d) = dget k' d
  | [] => by simp [dset, dget, Ne.symm hne]
  | (k'', v'') :: r => by
    simp only [dset]
    split_ifs with h1 h2
    · simp [dget, Ne.symm hne]
    · subst h2; simp [dget, Ne.symm hne]
    · simp only [dget]; rw [dget_dset_ne k k' v hne r]

theorem dset_dset_same (k : Name) (v₁ v₂ : HT) : ∀ d, dset k v₂ (dset k v₁ d) = dset k v₂ d
  | [] => by simp [dset, strLt_irrefl]
  | (k', v') :: r => by
    simp only [dset]
    split_ifs with h1 h2
    · simp [dset, strLt_irrefl]
    · simp [dset, strLt_irrefl]
    · simp only [dset, if_neg h1, if_neg h2]; rw [dset_dset_same k v₁ v₂ r]

theorem dset_comm (k₁ k₂ : Name) (v₁ v₂ : HT) (hne : k₁ ≠ k₂) :
    ∀ d, dset k₁ v₁ (dset k₂ v₂ d) = dset k₂ v₂ (dset k₁ v₁ d)
  | [] => by
    rcases strLt_total k₁ k₂ hne with h | h
    · simp [dset, h, strLt_asymm _ _ h, Ne.symm hne]
    · simp [dset, h, strLt_asymm _ _ h, hne]
  | (k', v') :: r => by
    have ih := dset_comm k₁ k₂ v₁ v₂ hne r
    by_cases h1 : strLt k₁ k' = true <;> by_cases h2 : strLt k₂ k' = true
    · rcases strLt_total k₁ k₂ hne with h | h
      · simp [dset, h1, h2, h, strLt_asymm _ _ h, Ne.symm hne]
      · simp [dset, h1, h2, h, strLt_asymm _ _ h, hne]
    · by_cases e2 : k₂ = k'
      · subst e2
        simp [dset, h1, strLt_irrefl, strLt_asymm _ _ h1, Ne.symm hne]
      · have h3 : strLt k' k₂ = true := (strLt_total k₂ k' e2).resolve_left h2
        have h4 : strLt k₁ k₂ = true := strLt_trans _ _ _ h1 h3
        simp [dset, h1, h2, e2, strLt_asymm _ _ h4, Ne.symm hne]
    · by_cases e1 : k₁ = k'
      · subst e1
        simp [dset, h2, strLt_irrefl, strLt_asymm _ _ h2, hne]
      · have h3 : strLt k' k₁ = true := (strLt_total k₁ k' e1).resolve_left h1
        have h4 : strLt k₂ k₁ = true := strLt_trans _ _ _ h2 h3
        simp [dset, h1, h2, e1, strLt_asymm _ _ h4, hne]
    · by_cases e1 : k₁ = k' <;> by_cases e2 : k₂ = k'
      · exact absurd (e1.trans e2.symm) hne
      · subst e1; simp [dset, h2, e2, strLt_irrefl]
      · subst e2; simp [dset, h1, e1, strLt_irrefl]
      · simp [dset, h1, h2, e1, e2, ih]



/-- arguments of `put` for one entry: the directory segments and the optional leaf -/
abbrev Item := List Name × Option (Name × Str)

/-- the path an item touches last -/
def Item.full (i : Item) : Path :=
  match i.2 with
  | none => i.1
  | some kv => i.1 ++ [kv.1]

/-- the leaf of `i` (if any) does not lie on the path of `j` -/
def NoClash (i j : Item) : Prop := ∀ kv, i.2 = some kv → ¬ (i.1 ++ [kv.1]) <+: j.full

def Compat (i j : Item) : Prop := NoClash i j ∧ NoClash j i

theorem Compat.symm {i j : Item} (h : Compat i j) : Compat j i := ⟨h.2, h.1⟩

def bindE (x : Except Err HT) (f : HT → Except Err HT) : Except Err HT :=
  match x with
  | .ok t => f t
  | .error e => .error e

theorem put_err : ∀ (segs : List Name) (t : HT) (lf : Option (Name × Str)) (e : Err),
    put t segs lf = .error e → e = .typeError
  | [], t, none, e, h => by simp [put] at h
  | [], .leaf _, some _, e, h => by simp [put] at h; exact h.symm
  | [], .node d, some (k, v), e, h => by simp [put] at h
  | _ :: _, .leaf _, _, e, h => by simp [put] at h; exact h.symm
  | s :: r, .node d, lf, e, h => by
    simp only [put] at h
    cases h1 : put ((dget s d).getD (.node [])) r lf with
    | error e' =>
      rw [h1] at h; simp at h; subst h
      exact put_err r _ lf e' h1
    | ok c => rw [h1] at h; simp at h

theorem put_nil_none (t : HT) : put t [] none = .ok t := by
  cases t <;> rfl

theorem put_cons_node (d : List (Name × HT)) (s : Name) (r : List Name) (lf : Option (Name × Str)) :
    put (.node d) (s :: r) lf =
      bindE (put ((dget s d).getD (.node [])) r lf) (fun c => .ok (.node (dset s c d))) := by
  simp only [put, bindE]
  cases put ((dget s d).getD (.node [])) r lf <;> rfl

theorem put_cons_leaf (x : Str) (s : Name) (r : List Name) (lf : Option (Name × Str)) :
    put (.leaf x) (s :: r) lf = .error .typeError := rfl

theorem compat_tail {s : Name} {ra rb : List Name} {la lb : Option (Name × Str)}
    (h : Compat (s :: ra, la) (s :: rb, lb)) : Compat (ra, la) (rb, lb) := by
  constructor
  · intro kv hkv hp
    refine h.1 kv hkv ?_
    cases lb <;> simp_all [Item.full, List.cons_prefix_cons]
  · intro kv hkv hp
    refine h.2 kv hkv ?_
    cases la <;> simp_all [Item.full, List.cons_prefix_cons]

/-- an item consisting of a leaf only, against anything -/
theorem put_comm_nil (k : Name) (v : Str) (b : List Name) (lb : Option (Name × Str))
    (h : Compat ([], some (k, v)) (b, lb)) (t : HT) :
    bindE (put t [] (some (k, v))) (fun t' => put t' b lb) =
    bindE (put t b lb) (fun t' => put t' [] (some (k, v))) := by
  cases t with
  | leaf x =>
    cases b with
    | nil => cases lb <;> simp [put, bindE]
    | cons s r => simp [put, bindE]
  | node d =>
    cases b with
    | nil =>
      cases lb with
      | none => simp [put, bindE]
      | some kv' =>
        obtain ⟨k', v'⟩ := kv'
        have hne : k ≠ k' := by
          intro e; subst e
          exact h.1 (k, v) rfl (by simp [Item.full])
        simp only [put, bindE]
        rw [dset_comm k k' _ _ hne]
    | cons s r =>
      have hne : k ≠ s := by
        intro e; subst e
        refine h.1 (k, v) rfl ?_
        cases lb <;> simp [Item.full, List.cons_prefix_cons]
      simp only [put, bindE]
      rw [dget_dset_ne k s _ hne]
      cases h1 : put ((dget s d).getD (.node [])) r lb with
      | error e => simp
      | ok c => simp only [put]; rw [dset_comm k s _ _ hne]

theorem put_comm : ∀ (a : List Name) (la : Option (Name × Str)) (b : List Name)
    (lb : Option (Name × Str)), Compat (a, la) (b, lb) → ∀ t : HT,
    bindE (put t a la) (fun t' => put t' b lb) = bindE (put t b lb) (fun t' => put t' a la)
  | [], none, b, lb, _, t => by
    rw [put_nil_none]
    simp only [bindE]
    cases put t b lb with
    | error e => rfl
    | ok t' => simp [put_nil_none]
  | [], some (k, v), b, lb, h, t => put_comm_nil k v b lb h t
  | s :: ra, la, [], none, _, t => by
    rw [put_nil_none]
    simp only [bindE]
    cases put t (s :: ra) la with
    | error e => rfl
    | ok t' => simp [put_nil_none]
  | s :: ra, la, [], some (k, v), h, t => (put_comm_nil k v (s :: ra) la h.symm t).symm
  | s :: ra, la, s' :: rb, lb, h, .leaf x => by simp [put, bindE]
  | s :: ra, la, s' :: rb, lb, h, .node d => by
    by_cases hs : s = s'
    · subst hs
      have ih := put_comm ra la rb lb (compat_tail h) ((dget s d).getD (.node []))
      rw [put_cons_node, put_cons_node]
      cases h1 : put ((dget s d).getD (.node [])) ra la with
      | error e =>
        rw [h1] at ih
        cases h2 : put ((dget s d).getD (.node [])) rb lb with
        | error e' =>
          simp only [bindE]
          rw [put_err _ _ _ _ h1, put_err _ _ _ _ h2]
        | ok c₂ =>
          rw [h2] at ih
          simp only [bindE] at ih ⊢
          rw [put_cons_node, dget_dset_same]
          simp only [Option.getD_some, ← ih, bindE]
      | ok c₁ =>
        rw [h1] at ih
        simp only [bindE] at ih ⊢
        rw [put_cons_node, dget_dset_same]
        simp only [Option.getD_some]
        rw [ih]
        cases h2 : put ((dget s d).getD (.node [])) rb lb with
        | error e' => simp [bindE]
        | ok c₂ =>
          simp only [bindE]
          rw [put_cons_node, dget_dset_same]
          simp only [Option.getD_some]
          cases put c₂ ra la with
          | error e => simp [bindE]
          | ok c => simp [bindE, dset_dset_same]
    · rw [put_cons_node, put_cons_node]
      cases h1 : put ((dget s d).getD (.node [])) ra la with
      | error e =>
        cases h2 : put ((dget s' d).getD (.node [])) rb lb with
        | error e' =>
          simp only [bindE]
          rw [put_err _ _ _ _ h1, put_err _ _ _ _ h2]
        | ok c₂ =>
          simp only [bindE]
          rw [put_cons_node, dget_dset_ne s' s _ (Ne.symm hs), h1]
          rfl
      | ok c₁ =>
        simp only [bindE]
        rw [put_cons_node, dget_dset_ne s s' _ hs]
        cases h2 : put ((dget s' d).getD (.node [])) rb lb with
        | error e' => simp [bindE]
        | ok c₂ =>
          simp only [bindE]
          rw [put_cons_node, dget_dset_ne s' s _ (Ne.symm hs), h1]
          simp only [bindE]
          rw [dset_comm s s' _ _ hs]

end MetadorModel.Hashsums
