import MetadorModel.Proofs.OverlayDefs
namespace MetadorModel.Tree
variable {κ β α : Type} [DecidableEq κ]

theorem aget_aput (k k' : κ) (v : β) (l : List (κ × β)) :
    aget k' (aput k v l) = if k' = k then some v else aget k' l := by
  induction l with
  | nil => simp [aput, aget, eq_comm]
  | cons e l ih =>
    obtain ⟨a, b⟩ := e
    by_cases h : a = k
    · subst h
      by_cases h2 : k' = a
      · simp [aput, aget, h2]
      · have : ¬ a = k' := fun h3 => h2 h3.symm
        simp [aput, aget, h2, this]
    · by_cases h2 : k' = k
      · subst h2; simp [aput, aget, h, ih]
      · simp [aput, aget, h, ih, h2]

theorem aget_aerase (k k' : κ) (l : List (κ × β)) :
    aget k' (aerase k l) = if k' = k then none else aget k' l := by
  induction l with
  | nil => simp [aerase, aget]
  | cons e l ih =>
    obtain ⟨a, b⟩ := e
    by_cases h : a = k
    · subst h; by_cases h2 : k' = a
      · subst h2; simp [aerase, ih]
      · have : ¬ a = k' := fun h3 => h2 h3.symm
        simp [aerase, aget, ih, h2, this]
    · by_cases h2 : k' = k
      · subst h2; simp [aerase, aget, h, ih]
      · simp [aerase, aget, h, ih, h2]

theorem isPre_iff (a b : Path) : isPre a b = true ↔ ∃ s, b = a ++ s := by
  induction a generalizing b with
  | nil => simp [isPre]
  | cons x xs ih =>
    cases b with
    | nil => simp [isPre]
    | cons y ys =>
      by_cases h : x = y
      · subst h; simp [isPre, ih]
      · simp [isPre, h]
        intro h'; exact absurd h'.symm h

theorem isPre_refl (a : Path) : isPre a a = true := (isPre_iff a a).2 ⟨[], by simp⟩
theorem isPre_append (a s : Path) : isPre a (a ++ s) = true := (isPre_iff _ _).2 ⟨s, rfl⟩

theorem aget_removeSub (p q : Path) (m : List (Path × α)) :
    aget q (removeSub p m) = if isPre p q then none else aget q m := by
  induction m with
  | nil => simp [removeSub, aget]
  | cons e m ih =>
    obtain ⟨a, b⟩ := e
    simp only [removeSub] at ih ⊢
    by_cases h : isPre p a = true
    · simp only [List.filter, h, Bool.not_true]
      rw [ih]
      by_cases h2 : a = q
      · subst h2; simp [h]
      · simp [aget, h2]
    · simp only [List.filter, h, Bool.not_false, aget]
      by_cases h2 : a = q
      · subst h2; simp [h]
      · simp [h2, ih]

theorem mem_properPrefixes (x p : Path) : x ∈ properPrefixes p ↔ ∃ s, s ≠ [] ∧ p = x ++ s := by
  induction p generalizing x with
  | nil => simp [properPrefixes]
  | cons k rest ih =>
    simp only [properPrefixes, List.mem_cons, List.mem_map]
    constructor
    · rintro (h | ⟨y, hy, rfl⟩)
      · subst h; exact ⟨k :: rest, by simp, by simp⟩
      · obtain ⟨s, hs, rfl⟩ := (ih y).1 hy
        exact ⟨s, hs, by simp⟩
    · rintro ⟨s, hs, h⟩
      cases x with
      | nil => left; rfl
      | cons a x' =>
        right
        simp at h
        obtain ⟨rfl, h⟩ := h
        exact ⟨x', (ih x').2 ⟨s, hs, h⟩, rfl⟩

theorem aget_ensureAll (d : α) (qs : List Path) (m : List (Path × α)) (q : Path) :
    aget q (ensureAll d qs m) = match aget q m with
      | some v => some v
      | none => if q ∈ qs then some d else none := by
  induction qs generalizing m with
  | nil => simp [ensureAll]; cases aget q m <;> rfl
  | cons x qs ih =>
    simp only [ensureAll]
    rw [ih]
    cases hx : aget x m with
    | some w =>
      simp only
      cases hq : aget q m with
      | some v => rfl
      | none =>
        have : q ≠ x := by rintro rfl; simp [hx] at hq
        simp [this]
    | none =>
      simp only [aget_aput]
      by_cases h : q = x
      · subst h; simp [hx]
      · simp [h]

theorem aget_ensure (d : α) (p : Path) (m : List (Path × α)) (q : Path) :
    aget q (ensure d p m) = match aget q m with
      | some v => some v
      | none => if q ∈ properPrefixes p then some d else none := by
  unfold ensure
  rw [aget_ensureAll]

theorem mem_properPrefixes' (x p : Path) : x ∈ properPrefixes p ↔ (isPre x p = true ∧ x ≠ p) := by
  rw [mem_properPrefixes, isPre_iff]
  constructor
  · rintro ⟨s, hs, rfl⟩
    refine ⟨⟨s, rfl⟩, ?_⟩
    intro h
    exact hs (by simpa using h)
  · rintro ⟨⟨s, rfl⟩, h⟩
    refine ⟨s, ?_, rfl⟩
    rintro rfl
    simp at h

end MetadorModel.Tree
