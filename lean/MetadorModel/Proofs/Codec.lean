import MetadorModel.Model.Codec
/-!
# Helper definitions and lemmas for the codec model (C12, used by C13)

* `Valid env t v` — `v` is a validated instance value of field type `t`: what pydantic holds
  after validation (normal forms of the library codecs, stripped strings, de-duplicated sets,
  all declared fields present with `none` for a missing optional, constants of the class,
  extras according to the policy), with a missing optional expressed by omission
  (`ValidF`: `none` only for a field without default) and every Union value stored at the
  first alternative that accepts its encoding (`ValidU`).
* `roundtrip_core`: `Valid env t v → decode env t (encode v) = ok v`, by mutual structural
  recursion over `Ty` / `List Ty` / `List Field` / `Field`.
-/
namespace MetadorModel.Codec

/-! ## small facts -/

theorem encode_null (v : PyVal) (h : encode v = .null) : v = .none := by
  cases v <;> simp [encode] at h ⊢

theorem isNull_encode (v : PyVal) : isNull (encode v) = true ↔ v = .none := by
  cases v <;> simp [encode, isNull]

theorem decode_opt_nonnull (env : Env) (t : Ty) (j : Json) (h : j ≠ .null) :
    decode env (.opt t) j = decode env t j := by
  cases j <;> simp [decode] at h ⊢

theorem mapOk_ok {α β : Type} (f : α → β) (r : Except Err α) (a : α) (h : r = .ok a) :
    mapOk f r = .ok (f a) := by
  subst h; rfl

/-- `None` is kept out of the serialised object (`exclude_none`) -/
def encOpt : PyVal → Option Json
  | .none => none
  | v => some (encode v)

theorem encOpt_of_ne_none (v : PyVal) (h : v ≠ .none) : encOpt v = some (encode v) := by
  cases v <;> simp [encOpt] at h ⊢

/-! ## validity -/

/-- extras an object of the schema may carry: none unless the policy is `allow`; then keys
other than the declared names, values other than `None` (`exclude_none` drops those) -/
def ExtrasOk (e : Extra) (fs : List Field) (cs : List (Str × Json)) (xs : List (Str × Json)) : Prop :=
  match e with
  | .allow => ∀ p ∈ xs, isNull p.2 = false ∧ fs.any (fun f => fieldName f == p.1) = false ∧ hasKey p.1 cs = false
  | _ => xs = []

mutual
def Valid (env : Env) : Ty → PyVal → Prop
  | .bool, v => ∃ b, v = .bool b
  | .int, v => ∃ i, v = .int i
  | .float, v => ∃ t, v = .float t ∧ env.normFloat t = some t
  | .str, v => ∃ s, v = .str s ∧ stripWs s = s ∧ s ≠ []
  | .cstr k, v => ∃ s, v = .str s ∧ recog k s = true
  | .opq k, v => ∃ s, v = .opq k s ∧ env.norm k s = some s ∧ env.crash k s = false
  | .lit vs, v => ∃ l, v = litVal l ∧
      (vs.filter (fun l' => litMatch l' (encode (litVal l)))).getLast? = some l
  | .opt t, v => v = .none ∨ Valid env t v
  | .ann t, v => Valid env t v
  | .union ts, v => ValidU env ts v
  | .list t, v => ∃ vs, v = .list vs ∧ ∀ x ∈ vs, Valid env t x
  | .set t, v => ∃ vs, v = .set vs ∧ (∀ x ∈ vs, Valid env t x) ∧ vs.all hashable = true ∧ dedup vs = vs
  | .model n e fs cs, v => ∃ fvs xs, v = .obj n fvs cs xs ∧ ValidFs env fs fvs ∧ ExtrasOk e fs cs xs
      ∧ (fs.map fieldName).Nodup ∧ (∀ f ∈ fs, hasKey (fieldName f) cs = false)
      ∧ (∀ p ∈ cs, isNull p.2 = false)
/-- the value sits at the first alternative that accepts its encoding -/
def ValidU (env : Env) : List Ty → PyVal → Prop
  | [], _ => False
  | t :: ts, v => Valid env t v ∨
      ((∃ e, decode env t (encode v) = .error e ∧ e ≠ .crash) ∧ ValidU env ts v)
def ValidFs (env : Env) : List Field → List (Str × PyVal) → Prop
  | [], fvs => fvs = []
  | f :: fs, fvs => ∃ v rest, fvs = (fieldName f, v) :: rest ∧ ValidF env f v ∧ ValidFs env fs rest
/-- a missing optional is `none` only where no default is declared (an explicit `None` for a
field with a non-`None` default legitimately reads back as that default) -/
def ValidF (env : Env) : Field → PyVal → Prop
  | .mk _ t req d, v => (v = .none ∧ req = false ∧ d = none) ∨ (v ≠ .none ∧ Valid env t v)
end

/-! ## lists -/

theorem allOk_roundtrip (env : Env) (t : Ty) :
    ∀ vs : List PyVal, (∀ x ∈ vs, decode env t (encode x) = .ok x) →
      allOk ((encodeList vs).map (fun j => decode env t j)) = .ok vs
  | [], _ => by simp [encodeList, allOk]
  | v :: vs, h => by
    have h1 := h v (by simp)
    have h2 := allOk_roundtrip env t vs (fun x hx => h x (by simp [hx]))
    simp [encodeList, allOk, h1, h2, mapOk]

/-! ## lookup in the serialised object -/

theorem lookup_append (k : Str) (a b : List (Str × Json)) :
    lookup k (a ++ b) = match lookup k a with
      | some v => some v
      | none => lookup k b := by
  induction a with
  | nil => simp [lookup]
  | cons p a ih =>
    obtain ⟨k', v⟩ := p
    by_cases h : k = k'
    · simp [lookup, h]
    · simp [lookup, h, ih]

theorem lookup_none_of_hasKey (k : Str) (l : List (Str × Json)) (h : hasKey k l = false) :
    lookup k l = none := by
  induction l with
  | nil => simp [lookup]
  | cons p l ih =>
    obtain ⟨k', v⟩ := p
    simp only [hasKey, List.any_cons, Bool.or_eq_false_iff] at h
    have hk : ¬ (k = k') := by
      intro e
      have := h.1
      simp [e] at this
    have h2 : hasKey k l = false := h.2
    simp [lookup, hk, ih h2]

theorem lookup_none_of_notin (k : Str) (l : List (Str × Json)) (h : ∀ p ∈ l, p.1 ≠ k) :
    lookup k l = none := by
  induction l with
  | nil => simp [lookup]
  | cons p l ih =>
    obtain ⟨k', v⟩ := p
    have hk : ¬ (k = k') := fun e => h (k', v) (by simp) e.symm
    simp [lookup, hk]
    exact ih (fun q hq => h q (by simp [hq]))

theorem encodeFields_cons_none (k : Str) (r : List (Str × PyVal)) :
    encodeFields ((k, .none) :: r) = encodeFields r := by
  simp [encodeFields]

theorem encodeFields_cons_ne (k : Str) (v : PyVal) (r : List (Str × PyVal)) (h : v ≠ .none) :
    encodeFields ((k, v) :: r) = (k, encode v) :: encodeFields r := by
  cases v <;> simp [encodeFields] at h ⊢

/-- keys of `encodeFields fvs` are among the keys of `fvs` -/
theorem encodeFields_keys (fvs : List (Str × PyVal)) :
    ∀ p ∈ encodeFields fvs, ∃ q ∈ fvs, q.1 = p.1 := by
  induction fvs with
  | nil => simp [encodeFields]
  | cons q fvs ih =>
    obtain ⟨k, v⟩ := q
    intro p hp
    by_cases hv : v = .none
    · subst hv
      rw [encodeFields_cons_none] at hp
      obtain ⟨q, hq, e⟩ := ih p hp
      exact ⟨q, by simp [hq], e⟩
    · rw [encodeFields_cons_ne k v fvs hv] at hp
      simp only [List.mem_cons] at hp
      rcases hp with hp | hp
      · exact ⟨(k, v), by simp, by rw [hp]⟩
      · obtain ⟨q, hq, e⟩ := ih p hp
        exact ⟨q, by simp [hq], e⟩

theorem lookup_encodeFields (fvs : List (Str × PyVal)) (hnd : (fvs.map (·.1)).Nodup) :
    ∀ p ∈ fvs, lookup p.1 (encodeFields fvs) = encOpt p.2 := by
  induction fvs with
  | nil => simp
  | cons q fvs ih =>
    obtain ⟨k, v⟩ := q
    simp only [List.map_cons, List.nodup_cons] at hnd
    intro p hp
    simp only [List.mem_cons] at hp
    rcases hp with hp | hp
    · subst hp
      have hnone : lookup k (encodeFields fvs) = none := by
        apply lookup_none_of_notin
        intro p hp e
        obtain ⟨q, hq, e2⟩ := encodeFields_keys fvs p hp
        exact hnd.1 (List.mem_map.mpr ⟨q, hq, by rw [e2, e]⟩)
      by_cases hv : v = .none
      · subst hv
        simp [encodeFields_cons_none, encOpt, hnone]
      · simp [encodeFields_cons_ne k v fvs hv, lookup, encOpt_of_ne_none v hv]
    · have hne : ¬ (p.1 = k) := by
        intro e
        exact hnd.1 (List.mem_map.mpr ⟨p, hp, e⟩)
      have := ih hnd.2 p hp
      by_cases hv : v = .none
      · subst hv
        simpa [encodeFields_cons_none] using this
      · simp [encodeFields_cons_ne k v fvs hv, lookup, hne, this]

/-! ## the round trip -/

theorem ValidFs_keys (env : Env) : ∀ (fs : List Field) (fvs : List (Str × PyVal)),
    ValidFs env fs fvs → fvs.map (·.1) = fs.map fieldName
  | [], fvs, h => by
    simp only [ValidFs] at h
    simp [h]
  | f :: fs, fvs, h => by
    simp only [ValidFs] at h
    obtain ⟨v, rest, e, _, hr⟩ := h
    subst e
    simp [ValidFs_keys env fs rest hr]

mutual
theorem roundtrip_core (env : Env) : ∀ (t : Ty) (v : PyVal), Valid env t v →
    decode env t (encode v) = .ok v
  | .bool, v, h => by
    simp only [Valid] at h
    obtain ⟨b, rfl⟩ := h
    simp [encode, decode]
  | .int, v, h => by
    simp only [Valid] at h
    obtain ⟨i, rfl⟩ := h
    simp [encode, decode]
  | .float, v, h => by
    simp only [Valid] at h
    obtain ⟨t, rfl, ht⟩ := h
    simp [encode, decode, ht]
  | .str, v, h => by
    simp only [Valid] at h
    obtain ⟨s, rfl, h1, h2⟩ := h
    simp [encode, decode, h1, h2]
  | .cstr k, v, h => by
    simp only [Valid] at h
    obtain ⟨s, rfl, h1⟩ := h
    simp [encode, decode, h1]
  | .opq k, v, h => by
    simp only [Valid] at h
    obtain ⟨s, rfl, h1, h2⟩ := h
    simp [encode, decode, h1, h2]
  | .lit vs, v, h => by
    simp only [Valid] at h
    obtain ⟨l, rfl, h1⟩ := h
    simp [decode, decodeLit, h1]
  | .opt t, v, h => by
    simp only [Valid] at h
    by_cases hv : v = .none
    · subst hv
      simp [encode, decode]
    · have ht : Valid env t v := by
        rcases h with h | h
        · exact absurd h hv
        · exact h
      have hn : encode v ≠ .null := fun e => hv (encode_null v e)
      rw [decode_opt_nonnull env t _ hn]
      exact roundtrip_core env t v ht
  | .ann t, v, h => by
    simp only [Valid] at h
    simp only [decode]
    exact roundtrip_core env t v h
  | .union ts, v, h => by
    simp only [Valid] at h
    simp only [decode]
    exact roundtripU_core env ts v h
  | .list t, v, h => by
    simp only [Valid] at h
    obtain ⟨vs, rfl, hvs⟩ := h
    have := allOk_roundtrip env t vs (fun x hx => roundtrip_core env t x (hvs x hx))
    simp [encode, decode, this, mapOk]
  | .set t, v, h => by
    simp only [Valid] at h
    obtain ⟨vs, rfl, hvs, hh, hd⟩ := h
    have := allOk_roundtrip env t vs (fun x hx => roundtrip_core env t x (hvs x hx))
    simp [encode, decode, this, mkSet, hh, hd]
  | .model n ex fs cs, v, h => by
    simp only [Valid] at h
    obtain ⟨fvs, xs, rfl, hfs, hxs, hnd, hdisj, hcs⟩ := h
    have hkeys := ValidFs_keys env fs fvs hfs
    have hxs' : xs.filter (fun p => !isNull p.2) = xs := by
      cases ex with
      | allow =>
        apply List.filter_eq_self.mpr
        intro q hq
        simp [(hxs q hq).1]
      | ignore => simp only [ExtrasOk] at hxs; subst hxs; rfl
      | forbid => simp only [ExtrasOk] at hxs; subst hxs; rfl
    -- a declared name is no key of the extras
    have hxkey : ∀ f ∈ fs, ∀ q ∈ xs, q.1 ≠ fieldName f := by
      intro f hf q hq e
      cases ex with
      | allow =>
        have := (hxs q hq).2.1
        rw [List.any_eq_false] at this
        have := this f hf
        simp [e] at this
      | ignore => simp only [ExtrasOk] at hxs; subst hxs; simp at hq
      | forbid => simp only [ExtrasOk] at hxs; subst hxs; simp at hq
    -- what `lookup` finds in the serialised object
    have hlook : ∀ p ∈ fvs, lookup p.1 (encodeFields fvs ++ cs ++ xs) = encOpt p.2 := by
      intro p hp
      have h1 := lookup_encodeFields fvs (by rw [hkeys]; exact hnd) p hp
      rw [List.append_assoc, lookup_append, h1]
      cases hv : encOpt p.2 with
      | some j => rfl
      | none =>
        have hmem : p.1 ∈ fs.map fieldName := by
          rw [← hkeys]; exact List.mem_map.mpr ⟨p, hp, rfl⟩
        obtain ⟨f, hf, hfn⟩ := List.mem_map.mp hmem
        have hc : lookup p.1 cs = none := lookup_none_of_hasKey _ _ (by rw [← hfn]; exact hdisj f hf)
        have hx : lookup p.1 xs = none := by
          apply lookup_none_of_notin
          intro q hq e
          exact hxkey f hf q hq (by rw [e, hfn])
        simp [lookup_append, hc, hx]
    have hdec := roundtripFs_core env fs fvs _ hfs hlook
    -- the extras found again
    have hfilt : (encodeFields fvs ++ cs ++ xs).filter
        (fun p => !(fs.any (fun f => fieldName f == p.1)) && !hasKey p.1 cs) = xs := by
      rw [List.filter_append, List.filter_append]
      have e1 : (encodeFields fvs).filter
          (fun p => !(fs.any (fun f => fieldName f == p.1)) && !hasKey p.1 cs) = [] := by
        apply List.filter_eq_nil_iff.mpr
        intro p hp
        obtain ⟨q, hq, e⟩ := encodeFields_keys fvs p hp
        have hmem : p.1 ∈ fs.map fieldName := by
          rw [← hkeys, ← e]; exact List.mem_map.mpr ⟨q, hq, rfl⟩
        obtain ⟨f, hf, hfn⟩ := List.mem_map.mp hmem
        have : fs.any (fun f => fieldName f == p.1) = true :=
          List.any_eq_true.mpr ⟨f, hf, by simp [hfn]⟩
        simp [this]
      have e2 : cs.filter
          (fun p => !(fs.any (fun f => fieldName f == p.1)) && !hasKey p.1 cs) = [] := by
        apply List.filter_eq_nil_iff.mpr
        intro p hp
        have : hasKey p.1 cs = true := List.any_eq_true.mpr ⟨p, hp, by simp⟩
        simp [this]
      have e3 : xs.filter
          (fun p => !(fs.any (fun f => fieldName f == p.1)) && !hasKey p.1 cs) = xs := by
        cases ex with
        | allow =>
          apply List.filter_eq_self.mpr
          intro q hq
          simp [(hxs q hq).2.1, (hxs q hq).2.2]
        | ignore => simp only [ExtrasOk] at hxs; subst hxs; rfl
        | forbid => simp only [ExtrasOk] at hxs; subst hxs; rfl
      rw [e1, e2, e3]; rfl
    simp only [encode, hxs', decode, asDict, hdec, hfilt]
    cases ex with
    | allow => rfl
    | ignore => simp only [ExtrasOk] at hxs; subst hxs; rfl
    | forbid => simp only [ExtrasOk] at hxs; subst hxs; rfl
theorem roundtripU_core (env : Env) : ∀ (ts : List Ty) (v : PyVal), ValidU env ts v →
    decodeUnion env ts (encode v) = .ok v
  | [], v, h => by simp [ValidU] at h
  | t :: ts, v, h => by
    simp only [ValidU] at h
    rcases h with h | ⟨⟨e, he, hne⟩, h⟩
    · simp [decodeUnion, roundtrip_core env t v h]
    · have := roundtripU_core env ts v h
      cases e <;> simp_all [decodeUnion]
theorem roundtripFs_core (env : Env) : ∀ (fs : List Field) (fvs : List (Str × PyVal))
    (kvs : List (Str × Json)), ValidFs env fs fvs → (∀ p ∈ fvs, lookup p.1 kvs = encOpt p.2) →
    decodeFields env fs kvs = .ok fvs
  | [], fvs, kvs, h, _ => by
    simp only [ValidFs] at h
    simp [h, decodeFields]
  | f :: fs, fvs, kvs, h, hl => by
    simp only [ValidFs] at h
    obtain ⟨v, rest, rfl, hf, hr⟩ := h
    have h1 := roundtripF_core env f v kvs hf (hl (fieldName f, v) (by simp))
    have h2 := roundtripFs_core env fs rest kvs hr (fun p hp => hl p (by simp [hp]))
    simp [decodeFields, h1, h2]
theorem roundtripF_core (env : Env) : ∀ (f : Field) (v : PyVal) (kvs : List (Str × Json)),
    ValidF env f v → lookup (fieldName f) kvs = encOpt v →
    decodeField env f kvs = .ok (fieldName f, v)
  | .mk n t req d, v, kvs, h, hl => by
    simp only [ValidF] at h
    simp only [fieldName] at hl ⊢
    rcases h with ⟨rfl, hreq, hd⟩ | ⟨hv, ht⟩
    · simp [encOpt] at hl
      simp [decodeField, hl, hreq, hd]
    · rw [encOpt_of_ne_none v hv] at hl
      have := roundtrip_core env t v ht
      simp [decodeField, hl, this, mapOk]
end

end MetadorModel.Codec

namespace MetadorModel.Codec

/-! ## constants and omitted optionals -/

theorem decodeField_congr (env : Env) (f : Field) (kvs kvs' : List (Str × Json))
    (h : lookup (fieldName f) kvs = lookup (fieldName f) kvs') :
    decodeField env f kvs = decodeField env f kvs' := by
  obtain ⟨n, t, req, d⟩ := f
  simp only [fieldName] at h
  simp only [decodeField, h]

theorem decodeFields_congr (env : Env) : ∀ (fs : List Field) (kvs kvs' : List (Str × Json)),
    (∀ f ∈ fs, lookup (fieldName f) kvs = lookup (fieldName f) kvs') →
    decodeFields env fs kvs = decodeFields env fs kvs'
  | [], _, _, _ => by simp [decodeFields]
  | f :: fs, kvs, kvs', h => by
    have h1 := decodeField_congr env f kvs kvs' (h f (by simp))
    have h2 := decodeFields_congr env fs kvs kvs' (fun g hg => h g (by simp [hg]))
    simp only [decodeFields, h1, h2]

theorem decodeField_key (env : Env) (f : Field) (kvs : List (Str × Json)) (p : Str × PyVal)
    (h : decodeField env f kvs = .ok p) : p.1 = fieldName f := by
  obtain ⟨n, t, req, d⟩ := f
  simp only [decodeField, fieldName] at h ⊢
  split at h
  · cases hd : decode env t ‹Json› with
    | ok v => simp [hd, mapOk] at h; rw [← h]
    | error e => simp [hd, mapOk] at h
  · split at h
    · cases h
    · split at h
      · simp at h; rw [← h]
      · cases hd : decode env t ‹Json› with
        | ok v => simp [hd, mapOk] at h; rw [← h]
        | error e => simp [hd, mapOk] at h

theorem decodeFields_keys (env : Env) : ∀ (fs : List Field) (kvs : List (Str × Json))
    (fvs : List (Str × PyVal)), decodeFields env fs kvs = .ok fvs → fvs.map (·.1) = fs.map fieldName
  | [], kvs, fvs, h => by
    simp [decodeFields] at h
    simp [← h]
  | f :: fs, kvs, fvs, h => by
    simp only [decodeFields] at h
    cases h1 : decodeField env f kvs with
    | error e =>
      rw [h1] at h
      cases h2 : decodeFields env fs kvs with
      | ok r => rw [h2] at h; cases h
      | error e' => rw [h2] at h; cases e' <;> cases h
    | ok p =>
      rw [h1] at h
      cases h2 : decodeFields env fs kvs with
      | error e' => rw [h2] at h; cases e' <;> cases h
      | ok r =>
        rw [h2] at h
        simp at h
        subst h
        simp [decodeField_key env f kvs p h1, decodeFields_keys env fs kvs r h2]

theorem lookup_setKey_ne (k n : Str) (x : Json) (l : List (Str × Json)) (h : n ≠ k) :
    lookup n (setKey k x l) = lookup n l := by
  induction l with
  | nil => simp [setKey, lookup, h]
  | cons p l ih =>
    obtain ⟨k', v⟩ := p
    by_cases hk : k = k'
    · subst hk
      simp [setKey, lookup, h]
    · by_cases hn : n = k'
      · simp [setKey, hk, lookup, hn]
      · simp [setKey, hk, lookup, hn, ih]

theorem filter_setKey (P : Str × Json → Bool) (k : Str) (x : Json) (l : List (Str × Json))
    (h : ∀ y, P (k, y) = false) : (setKey k x l).filter P = l.filter P := by
  induction l with
  | nil => simp [setKey, h]
  | cons p l ih =>
    obtain ⟨k', v⟩ := p
    by_cases hk : k = k'
    · subst hk
      simp [setKey, List.filter_cons, h]
    · simp [setKey, hk, List.filter_cons, ih]

end MetadorModel.Codec

namespace MetadorModel.Codec

/-! ## the serialised form of a valid schema instance (used by C13) -/

theorem valid_model_inv (env : Env) (n : Str) (ex : Extra) (fs : List Field) (cs : List (Str × Json))
    (v : PyVal) (h : Valid env (.model n ex fs cs) v) :
    ∃ fvs xs, v = .obj n fvs cs xs ∧ ValidFs env fs fvs ∧ ExtrasOk ex fs cs xs
      ∧ (fs.map fieldName).Nodup ∧ (∀ f ∈ fs, hasKey (fieldName f) cs = false)
      ∧ (∀ p ∈ cs, isNull p.2 = false) := by
  simpa only [Valid] using h

theorem extras_filter_self (ex : Extra) (fs : List Field) (cs xs : List (Str × Json))
    (hxs : ExtrasOk ex fs cs xs) : xs.filter (fun p => !isNull p.2) = xs := by
  cases ex with
  | allow =>
    apply List.filter_eq_self.mpr
    intro q hq
    simp [(hxs q hq).1]
  | ignore => simp only [ExtrasOk] at hxs; subst hxs; rfl
  | forbid => simp only [ExtrasOk] at hxs; subst hxs; rfl

theorem extras_key_ne (ex : Extra) (fs : List Field) (cs xs : List (Str × Json))
    (hxs : ExtrasOk ex fs cs xs) : ∀ f ∈ fs, ∀ q ∈ xs, q.1 ≠ fieldName f := by
  intro f hf q hq e
  cases ex with
  | allow =>
    have := (hxs q hq).2.1
    rw [List.any_eq_false] at this
    have := this f hf
    simp [e] at this
  | ignore => simp only [ExtrasOk] at hxs; subst hxs; simp at hq
  | forbid => simp only [ExtrasOk] at hxs; subst hxs; simp at hq

/-- what `lookup` finds in the dump of a valid instance: a declared field's encoding, or
nothing when the value is `none` -/
theorem dump_lookup (env : Env) (ex : Extra) (fs : List Field) (cs xs : List (Str × Json))
    (fvs : List (Str × PyVal)) (hfs : ValidFs env fs fvs) (hxs : ExtrasOk ex fs cs xs)
    (hnd : (fs.map fieldName).Nodup) (hdisj : ∀ f ∈ fs, hasKey (fieldName f) cs = false) :
    ∀ p ∈ fvs, lookup p.1 (encodeFields fvs ++ cs ++ xs) = encOpt p.2 := by
  have hkeys := ValidFs_keys env fs fvs hfs
  intro p hp
  have h1 := lookup_encodeFields fvs (by rw [hkeys]; exact hnd) p hp
  rw [List.append_assoc, lookup_append, h1]
  cases hv : encOpt p.2 with
  | some j => rfl
  | none =>
    have hmem : p.1 ∈ fs.map fieldName := by
      rw [← hkeys]; exact List.mem_map.mpr ⟨p, hp, rfl⟩
    obtain ⟨f, hf, hfn⟩ := List.mem_map.mp hmem
    have hc : lookup p.1 cs = none := lookup_none_of_hasKey _ _ (by rw [← hfn]; exact hdisj f hf)
    have hx : lookup p.1 xs = none := by
      apply lookup_none_of_notin
      intro q hq e
      exact extras_key_ne ex fs cs xs hxs f hf q hq (by rw [e, hfn])
    simp [lookup_append, hc, hx]

/-- the value stored for a declared field -/
theorem ValidFs_mem (env : Env) : ∀ (fs : List Field) (fvs : List (Str × PyVal)), ValidFs env fs fvs →
    ∀ f ∈ fs, ∃ v, (fieldName f, v) ∈ fvs ∧ ValidF env f v
  | [], _, _, f, hf => by simp at hf
  | g :: fs, fvs, h, f, hf => by
    simp only [ValidFs] at h
    obtain ⟨v, rest, rfl, hv, hr⟩ := h
    simp only [List.mem_cons] at hf
    rcases hf with rfl | hf
    · exact ⟨v, by simp, hv⟩
    · obtain ⟨w, hw, hvw⟩ := ValidFs_mem env fs rest hr f hf
      exact ⟨w, by simp [hw], hvw⟩

theorem decodeFields_ok_of_all (env : Env) : ∀ (fs : List Field) (kvs : List (Str × Json)),
    (∀ f ∈ fs, ∃ r, decodeField env f kvs = .ok r) → ∃ fvs, decodeFields env fs kvs = .ok fvs
  | [], _, _ => ⟨[], by simp [decodeFields]⟩
  | f :: fs, kvs, h => by
    obtain ⟨r, hr⟩ := h f (by simp)
    obtain ⟨rs, hrs⟩ := decodeFields_ok_of_all env fs kvs (fun g hg => h g (by simp [hg]))
    exact ⟨r :: rs, by simp [decodeFields, hr, hrs]⟩

end MetadorModel.Codec
