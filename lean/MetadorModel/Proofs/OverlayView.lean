import MetadorModel.Proofs.OverlayBase
import Mathlib.Tactic.ByContra
import Mathlib.Tactic.SplitIfs
namespace MetadorModel.Overlay
open MetadorModel.Tree
variable {V : Type}

def Look.kind : Look V → Option (NKind V)
  | .found _ n => plainKind n.kind
  | _ => none

def Look.attr (r : Rec V) (q : Path) (k : Key) : Look V → Option V
  | .found c _ => attrOf r q c k
  | _ => none

theorem viewKind_eq (r : Rec V) (q : Path) : viewKind r q = (look r q).kind := by
  unfold viewKind Look.kind; cases look r q <;> rfl

theorem viewAttr_eq (r : Rec V) (q : Path) (k : Key) : viewAttr r q k = (look r q).attr r q k := by
  unfold viewAttr Look.attr; cases look r q <;> rfl

/-! ### scan -/

theorem scan_none_of_le (q : Path) (c : Nat) (r : Rec V) (h : r.length ≤ c) : scan q c r = none := by
  cases r with
  | nil => rfl
  | cons p rest =>
    have : rest.length < c := by simp at h; omega
    simp [scan, this]

theorem scan_cons (q : Path) (c : Nat) (p : Cont V) (r : Rec V) (h : c ≤ r.length) :
    scan q c (p :: r) = match aget q p with
      | none => scan q c r
      | some n => if n.kind.isVirtual then some ((scan q c r).getD (r.length, n)) else some (r.length, n) := by
  have : ¬ r.length < c := by omega
  simp only [scan, this, ↓reduceIte]
  cases aget q p <;> rfl

theorem scan_idx_lt (q : Path) (c : Nat) (r : Rec V) (i : Nat) (n : RNode V)
    (h : scan q c r = some (i, n)) : i < r.length := by
  induction r with
  | nil => simp [scan] at h
  | cons p rest ih =>
    simp only [scan] at h
    split at h
    · simp at h
    · split at h
      · have := ih h; simp; omega
      · split at h
        · cases hs : scan q c rest with
          | none => simp [hs] at h; simp; omega
          | some x =>
            simp [hs] at h
            subst h
            have := ih hs; simp; omega
        · simp at h; simp; omega

theorem scan_some_mem (q : Path) (c : Nat) (r : Rec V) (i : Nat) (n : RNode V)
    (h : scan q c r = some (i, n)) : ∃ cont ∈ r, aget q cont ≠ none := by
  induction r with
  | nil => simp [scan] at h
  | cons p rest ih =>
    simp only [scan] at h
    split at h
    · simp at h
    · split at h
      · obtain ⟨ct, hm, hc⟩ := ih h
        exact ⟨ct, List.mem_cons_of_mem _ hm, hc⟩
      · rename_i m hm
        exact ⟨p, List.mem_cons_self, by simp [hm]⟩

theorem attrFind_none_of_le (q : Path) (k : Key) (c : Nat) (r : Rec V) (h : r.length ≤ c) :
    attrFind q k c r = none := by
  cases r with
  | nil => rfl
  | cons p rest =>
    have : rest.length < c := by simp at h; omega
    simp [attrFind, this]

theorem attrFind_cons (q : Path) (k : Key) (c : Nat) (p : Cont V) (r : Rec V) (h : c ≤ r.length) :
    attrFind q k c (p :: r) = match aget q p with
      | none => attrFind q k c r
      | some n => match aget k n.attrs with
        | some v => some (r.length, v)
        | none => attrFind q k c r := by
  have : ¬ r.length < c := by omega
  simp only [attrFind, this, ↓reduceIte]
  cases aget q p <;> rfl

/-! ### well-formed containers -/

theorem WF.anc {p : Cont V} (h : WF p) (s : Path) : ∀ x : Path, s ≠ [] → aget (x ++ s) p ≠ none →
    ∃ m, aget x p = some m ∧ m.kind.isGroup = true := by
  induction s with
  | nil => intro x hs; exact absurd rfl hs
  | cons k s ih =>
    intro x _ hne
    by_cases hs : s = []
    · subst hs; exact h.parent x k hne
    · have : x ++ k :: s = (x ++ [k]) ++ s := by simp
      rw [this] at hne
      obtain ⟨m, hm, _⟩ := ih (x ++ [k]) hs hne
      exact h.parent x k (by simp [hm])

theorem WF.below_none {p : Cont V} (h : WF p) (x s : Path) (hx : aget x p = none) :
    aget (x ++ s) p = none := by
  by_cases hs : s = []
  · subst hs; simpa using hx
  · by_contra hne
    obtain ⟨m, hm, _⟩ := h.anc s x hs hne
    simp [hx] at hm

theorem WF.below_nongroup {p : Cont V} (h : WF p) (x s : Path) (m : RNode V) (hx : aget x p = some m)
    (hg : m.kind.isGroup = false) (hs : s ≠ []) : aget (x ++ s) p = none := by
  by_contra hne
  obtain ⟨m', hm, hg'⟩ := h.anc s x hs hne
  rw [hx] at hm
  cases hm
  simp [hg] at hg'

/-! ### nvFrom -/

theorem nvFrom_append (p : Cont V) (a b c : Path) :
    nvFrom p a (b ++ c) = (nvFrom p a b || nvFrom p (a ++ b) c) := by
  induction b generalizing a with
  | nil => simp [nvFrom]
  | cons k b ih =>
    simp only [List.cons_append, nvFrom, ih, Bool.or_assoc]
    simp

theorem nvFrom_false_of_none (p : Cont V) (pre rest : Path)
    (h : ∀ s, s ≠ [] → aget (pre ++ s) p = none) : nvFrom p pre rest = false := by
  induction rest generalizing pre with
  | nil => rfl
  | cons k rest ih =>
    simp only [nvFrom]
    rw [h [k] (by simp)]
    simp only [Bool.false_or]
    apply ih
    intro s hs
    have := h (k :: s) (by simp)
    simpa using this

theorem virtual_of_not_nv (p : Cont V) (q : Path) (n : RNode V) (hq : q ≠ [])
    (hnv : nvPrefix p q = false) (hn : aget q p = some n) : n.kind.isVirtual = true := by
  obtain ⟨a, k, rfl⟩ : ∃ a k, q = a ++ [k] := by
    rcases List.eq_nil_or_concat q with h | ⟨a, k, h⟩
    · exact absurd h hq
    · exact ⟨a, k, by simpa using h⟩
  unfold nvPrefix at hnv
  rw [nvFrom_append] at hnv
  simp only [Bool.or_eq_false_iff] at hnv
  have := hnv.2
  simp [nvFrom, hn] at this
  exact this


/-! ### child / lookFrom -/

theorem child_some_nondel (r : Rec V) (q : Path) (c i : Nat) (n : RNode V)
    (h : child r q c = some (i, n)) : n.kind.isDel = false ∧ scan q c r = some (i, n) := by
  unfold child at h
  split at h
  · simp at h
  · rename_i j m hs
    split at h
    · simp at h
    · rename_i hd
      simp at h
      obtain ⟨rfl, rfl⟩ := h
      exact ⟨by simpa using hd, hs⟩

theorem lookFrom_append (r : Rec V) (b rest : Path) : ∀ (a : Path) (c0 : Nat) (n0 : RNode V),
    lookFrom r a c0 n0 (b ++ rest) = match lookFrom r a c0 n0 b with
      | .found c cur => lookFrom r (a ++ b) c cur rest
      | .part x y => .part x (y ++ rest)
      | .insideValue => .insideValue := by
  induction b with
  | nil => intro a c0 n0; simp [lookFrom]
  | cons k b ih =>
    intro a c0 n0
    simp only [List.cons_append, lookFrom]
    split
    · cases hc : child r (a ++ [k]) c0 with
      | none => simp
      | some x =>
        obtain ⟨i, n⟩ := x
        simp only [ih]
        have : a ++ [k] ++ b = a ++ k :: b := by simp
        rw [this]
    · rfl

theorem lookFrom_found_props (r : Rec V) (rest : Path) : ∀ (pre : Path) (c0 : Nat) (n0 : RNode V) (c : Nat) (cur : RNode V),
    lookFrom r pre c0 n0 rest = .found c cur → c0 ≤ r.length → n0.kind.isDel = false →
    c ≤ r.length ∧ cur.kind.isDel = false := by
  induction rest with
  | nil =>
    intro pre c0 n0 c cur h h1 h2
    simp [lookFrom] at h
    obtain ⟨rfl, rfl⟩ := h
    exact ⟨h1, h2⟩
  | cons k rest ih =>
    intro pre c0 n0 c cur h h1 h2
    simp only [lookFrom] at h
    split at h
    · cases hc : child r (pre ++ [k]) c0 with
      | none => simp [hc] at h
      | some x =>
        obtain ⟨i, n⟩ := x
        simp only [hc] at h
        obtain ⟨hd, hs⟩ := child_some_nondel r _ _ _ _ hc
        exact ih _ _ _ _ _ h (Nat.le_of_lt (scan_idx_lt _ _ _ _ _ hs)) hd
    · simp at h

/-- a resolved non-root path is mentioned by some container -/
theorem lookFrom_found_mem (r : Rec V) (rest : Path) : ∀ (pre : Path) (c0 : Nat) (n0 : RNode V) (c : Nat) (cur : RNode V),
    lookFrom r pre c0 n0 rest = .found c cur → rest ≠ [] → ∃ cont ∈ r, aget (pre ++ rest) cont ≠ none := by
  induction rest with
  | nil => intro _ _ _ _ _ _ h; exact absurd rfl h
  | cons k rest ih =>
    intro pre c0 n0 c cur h _
    simp only [lookFrom] at h
    split at h
    · cases hc : child r (pre ++ [k]) c0 with
      | none => simp [hc] at h
      | some x =>
        obtain ⟨i, n⟩ := x
        simp only [hc] at h
        by_cases hr : rest = []
        · subst hr
          obtain ⟨_, hs⟩ := child_some_nondel r _ _ _ _ hc
          exact scan_some_mem _ _ _ _ _ hs
        · have := ih _ _ _ _ _ h hr
          simpa using this
    · simp at h

/-! ### below a node of the newest container only that container counts -/

theorem child_top (p : Cont V) (r : Rec V) (q : Path) :
    child (p :: r) q r.length = match aget q p with
      | none => none
      | some m => if m.kind.isDel then none else some (r.length, m) := by
  unfold child
  rw [scan_cons _ _ _ _ (Nat.le_refl _), scan_none_of_le _ _ r (Nat.le_refl _)]
  cases aget q p with
  | none => rfl
  | some m =>
    by_cases hv : m.kind.isVirtual = true
    · simp [hv]
    · simp [hv]

theorem lookFrom_top (p : Cont V) (r : Rec V) (hwf : WF p) (rest : Path) :
    ∀ (pre : Path) (cur : RNode V), aget pre p = some cur → cur.kind.isDel = false →
      (lookFrom (p :: r) pre r.length cur rest).kind = plainK (aget (pre ++ rest) p) ∧
      ∀ k, (lookFrom (p :: r) pre r.length cur rest).attr (p :: r) (pre ++ rest) k = plainA (aget (pre ++ rest) p) k := by
  induction rest with
  | nil =>
    intro pre cur hcur hd
    have hpk : ∃ kd, plainKind cur.kind = some kd := by
      cases hk : cur.kind <;> simp [plainKind, hk, RKind.isDel] at hd ⊢
    obtain ⟨kd, hkd⟩ := hpk
    refine ⟨by simp [lookFrom, Look.kind, plainK, hcur], ?_⟩
    intro k
    simp only [lookFrom, Look.attr, List.append_nil, plainA, hcur, Option.bind_some, hkd]
    unfold attrOf
    rw [attrFind_cons _ _ _ _ _ (Nat.le_refl _), attrFind_none_of_le _ _ _ r (Nat.le_refl _), hcur]
    cases hk : aget k cur.attrs with
    | none => simp [hk]
    | some v => cases v <;> simp [hk]
  | cons k rest ih =>
    intro pre cur hcur hd
    simp only [lookFrom]
    have hq : pre ++ k :: rest = (pre ++ [k]) ++ rest := by simp
    by_cases hg : cur.kind.isGroup = true
    · simp only [hg, ↓reduceIte]
      rw [child_top]
      cases hx : aget (pre ++ [k]) p with
      | none =>
        have := hwf.below_none (pre ++ [k]) rest hx
        rw [← hq] at this
        simp [Look.kind, Look.attr, this, plainK, plainA]
      | some m =>
        by_cases hmd : m.kind.isDel = true
        · simp only [hmd, ↓reduceIte]
          have hmg : m.kind.isGroup = false := by
            cases hk : m.kind <;> simp [hk, RKind.isDel, RKind.isGroup] at hmd ⊢
          by_cases hr : rest = []
          · subst hr
            have hpk : plainKind m.kind = none := by
              cases hk : m.kind <;> simp [hk, RKind.isDel, plainKind] at hmd ⊢
            simp [Look.kind, Look.attr, hx, plainK, plainA, hpk]
          · have := hwf.below_nongroup (pre ++ [k]) rest m hx hmg hr
            rw [← hq] at this
            simp [Look.kind, Look.attr, this, plainK, plainA]
        · have hmd' : m.kind.isDel = false := by simpa using hmd
          simp only [hmd', Bool.false_eq_true, ↓reduceIte]
          rw [hq]
          exact ih (pre ++ [k]) m hx hmd'
    · have hg' : cur.kind.isGroup = false := by simpa using hg
      simp only [hg', Bool.false_eq_true, ↓reduceIte]
      have := hwf.below_nongroup pre (k :: rest) cur hcur hg' (by simp)
      simp [Look.kind, Look.attr, this, plainK, plainA]


/-! ### evaluation of the closed form in the three situations of the walk -/

theorem apply_none (p : Cont V) (t : Path → Option (NKind V)) (ta : Path → Key → Option V) (q : Path)
    (hnv : nvPrefix p q = false) (hq : aget q p = none) :
    applyKind p t q = t q ∧ ∀ k, applyAttr p ta q k = ta q k := by
  simp [applyKind, applyAttr, hnv, hq]

theorem apply_nv (p : Cont V) (t : Path → Option (NKind V)) (ta : Path → Key → Option V) (q : Path)
    (hnv : nvPrefix p q = true) :
    applyKind p t q = plainK (aget q p) ∧ ∀ k, applyAttr p ta q k = plainA (aget q p) k := by
  simp [applyKind, applyAttr, hnv]

theorem isVirtual_iff (kd : RKind V) : kd.isVirtual = true ↔ kd = .vgroup := by
  cases kd <;> simp [RKind.isVirtual]

theorem apply_fresh (p : Cont V) (t : Path → Option (NKind V)) (ta : Path → Key → Option V) (q : Path)
    (hq : q ≠ []) (ht : t q = none) (hta : ∀ k, ta q k = none) :
    applyKind p t q = plainK (aget q p) ∧ ∀ k, applyAttr p ta q k = plainA (aget q p) k := by
  by_cases hnv : nvPrefix p q = true
  · exact apply_nv p t ta q hnv
  · have hnv' : nvPrefix p q = false := by simpa using hnv
    cases hn : aget q p with
    | none =>
      have := apply_none p t ta q hnv' hn
      simp [this, ht, hta, plainK, plainA]
    | some n =>
      have hv := (isVirtual_iff _).1 (virtual_of_not_nv p q n hq hnv' hn)
      refine ⟨by simp [applyKind, hnv', hn, ht, plainK, hv, plainKind], ?_⟩
      intro k
      simp only [applyAttr, hnv', hn, plainA, hv, plainKind, Option.bind_some, Bool.false_eq_true, ↓reduceIte]
      cases hk : aget k n.attrs with
      | none => simp [hta]
      | some v => simp

/-! ### through phase: as long as the newest container only holds pass-through groups on the way,
the walk is the walk through the older containers -/

theorem lookFrom_thru (p : Cont V) (r : Rec V) (hwf : WF p) (hinv : InvLast p r) (rest : Path) :
    ∀ (pre : Path) (c : Nat) (cur : RNode V),
      nvFrom p [] pre = false → lookFrom r [] 0 vnode pre = .found c cur →
      (lookFrom (p :: r) pre c cur rest).kind = applyKind p (viewKind r) (pre ++ rest) ∧
      ∀ k, (lookFrom (p :: r) pre c cur rest).attr (p :: r) (pre ++ rest) k
        = applyAttr p (viewAttr r) (pre ++ rest) k := by
  induction rest with
  | nil =>
    intro pre c cur hthru hlook
    obtain ⟨hc, hd⟩ := lookFrom_found_props r pre [] 0 vnode c cur hlook (Nat.zero_le _) rfl
    have hnv : nvPrefix p pre = false := hthru
    have htk : viewKind r pre = plainKind cur.kind := by
      rw [viewKind_eq]; unfold look; rw [hlook]; rfl
    have hta : ∀ k, viewAttr r pre k = attrOf r pre c k := by
      intro k; rw [viewAttr_eq]; unfold look; rw [hlook]; rfl
    obtain ⟨kd, hkd⟩ : ∃ kd, plainKind cur.kind = some kd := by
      cases hk : cur.kind <;> simp [plainKind, hk, RKind.isDel] at hd ⊢
    simp only [List.append_nil, lookFrom, Look.kind, Look.attr]
    constructor
    · cases hn : aget pre p with
      | none => simp [applyKind, hnv, hn, htk]
      | some n => simp [applyKind, hnv, hn, htk, hkd]
    · intro k
      unfold attrOf
      rw [attrFind_cons _ _ _ _ _ hc]
      cases hn : aget pre p with
      | none => simp [applyAttr, hnv, hn, hta, attrOf]
      | some n =>
        simp only [applyAttr, hnv, hn, Bool.false_eq_true, ↓reduceIte]
        cases hk : aget k n.attrs with
        | none => simp [hta, attrOf]
        | some v => cases v <;> simp
  | cons k rest ih =>
    intro pre c cur hthru hlook
    obtain ⟨hc, hd⟩ := lookFrom_found_props r pre [] 0 vnode c cur hlook (Nat.zero_le _) rfl
    have hq : pre ++ k :: rest = (pre ++ [k]) ++ rest := by simp
    -- the older view along this path is the continued walk
    have hview : ∀ s, look r (pre ++ s) = lookFrom r pre c cur s := by
      intro s; unfold look; rw [lookFrom_append, hlook]; simp
    have hnvq : ∀ s, nvPrefix p (pre ++ s) = nvFrom p pre s := by
      intro s; unfold nvPrefix; rw [nvFrom_append, hthru]; simp
    simp only [lookFrom]
    by_cases hg : cur.kind.isGroup = true
    · simp only [hg, ↓reduceIte]
      -- the walk through the older containers at this step
      have hold : lookFrom r pre c cur (k :: rest) = match child r (pre ++ [k]) c with
          | none => .part pre (k :: rest)
          | some (i, n) => lookFrom r (pre ++ [k]) i n rest := by
        simp only [lookFrom, hg, ↓reduceIte]
        cases child r (pre ++ [k]) c with
        | none => rfl
        | some x => rfl
      have hold1 : lookFrom r pre c cur [k] = match child r (pre ++ [k]) c with
          | none => .part pre [k]
          | some (i, n) => .found i n := by
        simp only [lookFrom, hg, ↓reduceIte]
        cases child r (pre ++ [k]) c with
        | none => rfl
        | some x => rfl
      cases hx : aget (pre ++ [k]) p with
      | none =>
        -- nothing of the newest container on this branch: same child
        have hch : child (p :: r) (pre ++ [k]) c = child r (pre ++ [k]) c := by
          unfold child; rw [scan_cons _ _ _ _ hc, hx]
        rw [hch]
        cases hcr : child r (pre ++ [k]) c with
        | none =>
          have hnone : ∀ s, aget (pre ++ [k] ++ s) p = none := fun s => hwf.below_none _ s hx
          have h1 : nvPrefix p (pre ++ k :: rest) = false := by
            rw [hnvq]; simp only [nvFrom, hx, Bool.false_or]
            exact nvFrom_false_of_none p _ _ (fun s _ => hnone s)
          have h2 : aget (pre ++ k :: rest) p = none := by rw [hq]; exact hnone rest
          obtain ⟨e1, e2⟩ := apply_none p (viewKind r) (viewAttr r) _ h1 h2
          rw [e1]
          refine ⟨?_, ?_⟩
          · rw [viewKind_eq, hview, hold, hcr]
          · intro k'; rw [e2, viewAttr_eq, hview, hold, hcr]; rfl
        | some x =>
          obtain ⟨i, n⟩ := x
          simp only
          have hthru' : nvFrom p [] (pre ++ [k]) = false := by
            rw [nvFrom_append, hthru]; simp [nvFrom, hx]
          have hlook' : lookFrom r [] 0 vnode (pre ++ [k]) = .found i n := by
            have := hview [k]; unfold look at this; rw [this, hold1, hcr]
          rw [hq]
          exact ih (pre ++ [k]) i n hthru' hlook'
      | some m =>
        by_cases hv : m.kind.isVirtual = true
        · -- a pass-through group of the newest container
          have hthru' : nvFrom p [] (pre ++ [k]) = false := by
            rw [nvFrom_append, hthru]; simp [nvFrom, hx, hv]
          cases hs : scan (pre ++ [k]) c r with
          | some x =>
            obtain ⟨j, m'⟩ := x
            have hch : child (p :: r) (pre ++ [k]) c = child r (pre ++ [k]) c := by
              unfold child; rw [scan_cons _ _ _ _ hc, hx]; simp [hv, hs]
            rw [hch]
            cases hcr : child r (pre ++ [k]) c with
            | none =>
              -- the older containers hold a deletion marker below the carrier: excluded by the invariant
              exfalso
              have hvk : viewKind r (pre ++ [k]) = none := by
                rw [viewKind_eq, hview, hold1, hcr]; rfl
              rcases hinv (pre ++ [k]) m (by simp) hx hthru' with h | ⟨⟨v, h⟩, _⟩ | h
              · rw [hvk] at h; cases h
              · rw [hvk] at h; cases h
              · obtain ⟨ct, hm, hne⟩ := scan_some_mem _ _ _ _ _ hs
                exact hne (h ct hm)
            | some x =>
              obtain ⟨i, n⟩ := x
              simp only
              have hlook' : lookFrom r [] 0 vnode (pre ++ [k]) = .found i n := by
                have := hview [k]; unfold look at this; rw [this, hold1, hcr]
              rw [hq]
              exact ih (pre ++ [k]) i n hthru' hlook'
          | none =>
            -- a fresh group: nothing older on this branch
            have hvd : m.kind.isDel = false := by
              rw [(isVirtual_iff _).1 hv]; rfl
            have hch : child (p :: r) (pre ++ [k]) c = some (r.length, m) := by
              unfold child; rw [scan_cons _ _ _ _ hc, hx]; simp [hv, hs, hvd]
            have hcr : child r (pre ++ [k]) c = none := by unfold child; rw [hs]
            rw [hch]
            simp only
            obtain ⟨a1, a2⟩ := lookFrom_top p r hwf rest (pre ++ [k]) m hx hvd
            rw [hq, a1]
            have ht : viewKind r (pre ++ [k] ++ rest) = none := by
              rw [← hq, viewKind_eq, hview, hold, hcr]; rfl
            have hta : ∀ k', viewAttr r (pre ++ [k] ++ rest) k' = none := by
              intro k'; rw [← hq, viewAttr_eq, hview, hold, hcr]; rfl
            obtain ⟨e1, e2⟩ := apply_fresh p (viewKind r) (viewAttr r) (pre ++ [k] ++ rest) (by simp) ht hta
            exact ⟨e1.symm, fun k' => by rw [a2, e2]⟩
        · -- the first non-virtual entry of the newest container: from here on only it counts
          have hv' : m.kind.isVirtual = false := by simpa using hv
          have hnvt : nvPrefix p (pre ++ [k] ++ rest) = true := by
            rw [← hq, hnvq]; simp [nvFrom, hx, hv']
          obtain ⟨e1, e2⟩ := apply_nv p (viewKind r) (viewAttr r) _ hnvt
          have hsc : scan (pre ++ [k]) c (p :: r) = some (r.length, m) := by
            rw [scan_cons _ _ _ _ hc, hx]; simp [hv']
          rw [hq, e1]
          by_cases hmd : m.kind.isDel = true
          · have hch : child (p :: r) (pre ++ [k]) c = none := by
              unfold child; rw [hsc]; simp [hmd]
            rw [hch]
            have hmg : m.kind.isGroup = false := by
              cases hk : m.kind <;> simp [hk, RKind.isDel, RKind.isGroup] at hmd ⊢
            have hpk : plainKind m.kind = none := by
              cases hk : m.kind <;> simp [hk, RKind.isDel, plainKind] at hmd ⊢
            by_cases hr : rest = []
            · subst hr
              refine ⟨by simp [Look.kind, hx, plainK, hpk], fun k' => ?_⟩
              rw [e2]; simp [Look.attr, hx, plainA, hpk]
            · have hb := hwf.below_nongroup (pre ++ [k]) rest m hx hmg hr
              refine ⟨by rw [hb]; rfl, fun k' => ?_⟩
              rw [e2, hb]; rfl
          · have hmd' : m.kind.isDel = false := by simpa using hmd
            have hch : child (p :: r) (pre ++ [k]) c = some (r.length, m) := by
              unfold child; rw [hsc]; simp [hmd']
            rw [hch]
            simp only
            obtain ⟨a1, a2⟩ := lookFrom_top p r hwf rest (pre ++ [k]) m hx hmd'
            exact ⟨a1, fun k' => by rw [a2, e2]⟩
    · -- the node reached so far is a dataset: nothing can be below it
      have hg' : cur.kind.isGroup = false := by simpa using hg
      simp only [hg', Bool.false_eq_true, ↓reduceIte]
      have hold : lookFrom r pre c cur (k :: rest) = .insideValue := by simp [lookFrom, hg']
      have hkd : viewKind r pre = plainKind cur.kind := by
        have := hview []; simp only [List.append_nil] at this
        rw [viewKind_eq, this]; rfl
      have hnone : ∀ s, s ≠ [] → aget (pre ++ s) p = none := by
        intro s hs
        cases hpre : aget pre p with
        | none => exact hwf.below_none pre s hpre
        | some n =>
          by_cases hp0 : pre = []
          · subst hp0
            simp [lookFrom] at hlook
            obtain ⟨_, rfl⟩ := hlook
            simp [vnode, RKind.isGroup] at hg'
          · rcases hinv pre n hp0 hpre hthru with h | ⟨_, h⟩ | h
            · rw [hkd] at h
              cases hk : cur.kind <;> simp [hk, plainKind, RKind.isGroup] at h hg'
            · exact h s hs
            · obtain ⟨ct, hm, hne⟩ := lookFrom_found_mem r pre [] 0 vnode c cur hlook hp0
              simp only [List.nil_append] at hne
              exact absurd (h ct hm) hne
      have h1 : nvPrefix p (pre ++ k :: rest) = false := by
        rw [hnvq]; exact nvFrom_false_of_none p _ _ hnone
      have h2 : aget (pre ++ k :: rest) p = none := hnone _ (by simp)
      obtain ⟨e1, e2⟩ := apply_none p (viewKind r) (viewAttr r) _ h1 h2
      refine ⟨?_, fun k' => ?_⟩
      · rw [e1, viewKind_eq, hview, hold]
      · rw [e2, viewAttr_eq, hview, hold]; rfl


/-! ### the key lemma -/

/-- Adding the container `p` on top of the record `r` is applying the patch `p` to the view of `r`
(point-wise, kinds/values and attributes). Records are newest-first: `p :: r` is `r ++ [p]` in
file order. -/
theorem view_cons (p : Cont V) (r : Rec V) (hwf : WF p) (hinv : InvLast p r) (q : Path) :
    viewKind (p :: r) q = applyKind p (viewKind r) q ∧
    ∀ k, viewAttr (p :: r) q k = applyAttr p (viewAttr r) q k := by
  have h := lookFrom_thru p r hwf hinv q [] 0 vnode rfl (by simp [lookFrom])
  simp only [List.nil_append] at h
  refine ⟨?_, fun k => ?_⟩
  · rw [viewKind_eq]; exact h.1
  · rw [viewAttr_eq]; exact h.2 k

theorem wf_init : WF (Cont.init : Cont V) :=
  ⟨⟨[], rfl⟩, by intro x k h; simp [Cont.init, aget] at h⟩

theorem aget_init (q : Path) : aget q (Cont.init : Cont V) = if q = [] then some vnode else none := by
  by_cases h : q = []
  · subst h; rfl
  · have : ¬ ([] : Path) = q := fun h' => h h'.symm
    simp [Cont.init, aget, h, this]

theorem invLast_init (r : Rec V) : InvLast (Cont.init : Cont V) r := by
  intro x n hx hn _
  rw [aget_init] at hn
  simp [hx] at hn

theorem viewKind_root (r : Rec V) : viewKind r [] = some .group := rfl

/-- an empty patch container is unobservable -/
theorem view_newPatch' (r : Rec V) (q : Path) :
    viewKind (newPatch r) q = viewKind r q ∧ ∀ k, viewAttr (newPatch r) q k = viewAttr r q k := by
  obtain ⟨h1, h2⟩ := view_cons Cont.init r wf_init (invLast_init r) q
  have hnv : nvPrefix (Cont.init : Cont V) q = false := by
    apply nvFrom_false_of_none
    intro s hs
    rw [aget_init]; simp [hs]
  unfold newPatch
  refine ⟨?_, fun k => ?_⟩
  · rw [h1]
    by_cases hq : q = []
    · subst hq; simp [applyKind, hnv, aget_init, viewKind_root]
    · simp [applyKind, hnv, aget_init, hq]
  · rw [h2]
    by_cases hq : q = []
    · subst hq; simp [applyAttr, hnv, aget_init, vnode, aget]
    · simp [applyAttr, hnv, aget_init, hq]

end MetadorModel.Overlay
