import MetadorModel.Proofs.OverlayWriteCopy
/-!
# C01 write side, part 15: every record shows some tree; stability facts for all operations

* `rep_treeOf`  — the listing of a record, read as a plain tree, is shown by the record; hence
                  the refinement theorems need no tree in their hypotheses (`step_inv`);
* `run_stable`  — induction principle for facts about the plain tree along a history;
* `kind_stable_all`, `absent_stable_all` — a node stays what it is unless it or an ancestor is
                  deleted/moved; a removed subtree stays absent unless something is created,
                  copied or moved there.
-/
namespace MetadorModel.Overlay
open MetadorModel.Tree
variable {V : Type}

/-! ### the tree a record shows -/

def mkNode (x : NKind V × List (Key × V)) : Node V := ⟨x.1, x.2⟩

/-- the canonical listing as a plain tree (root first) -/
def treeOf (r : Rec V) : Tree V :=
  ([], ⟨.group, attrsList r []⟩) :: (Merge.nonRoot (listing r)).map (fun e => (e.1, mkNode e.2))

theorem aget_treeOf (r : Rec V) (q : Path) (hq : q ≠ []) :
    aget q (treeOf r) = (viewKind r q).map (fun kd => (⟨kd, attrsList r q⟩ : Node V)) := by
  have h0 : ¬ ([] : Path) = q := fun h => hq h.symm
  unfold treeOf
  simp only [aget, h0, ↓reduceIte]
  rw [Single.aget_map_val mkNode, Listing.aget_nonRoot _ q hq, Listing.aget_listing r q hq]
  cases viewKind r q <;> rfl

theorem rep_treeOf (r : Rec V) : Rep r (treeOf r) := by
  intro q
  by_cases hq : q = []
  · subst hq
    refine ⟨by simp [kindAt, treeOf, aget, viewKind_root], fun k => ?_⟩
    simp [attrAt, treeOf, aget, Listing.aget_attrsList]
  · refine ⟨?_, fun k => ?_⟩
    · unfold kindAt; rw [aget_treeOf r q hq]
      cases viewKind r q <;> rfl
    · unfold attrAt; rw [aget_treeOf r q hq]
      cases hv : viewKind r q with
      | none => simp [viewAttr_none_of_viewKind_none r q hv k]
      | some kd => simp [Listing.aget_attrsList]

theorem exists_rep (r : Rec V) : ∃ t, Rep r t := ⟨treeOf r, rep_treeOf r⟩

/-! ### a record without containers refuses everything -/

theorem look_nil (q : Path) (hq : q ≠ []) : ∃ k rest, look ([] : Rec V) q = .part [] (k :: rest) := by
  cases q with
  | nil => exact absurd rfl hq
  | cons k rest => exact ⟨k, rest, by simp [look, lookFrom, child, scan, vnode, RKind.isGroup]⟩

theorem copy_nil (s d : Path) : ∃ e, W.copy ([] : Rec V) s d = .error e := by
  by_cases hs : s = []
  · exact ⟨.root, by simp [W.copy, hs]⟩
  · obtain ⟨k, rest, hl⟩ := look_nil (V := V) s hs
    exact ⟨.missing, by simp only [W.copy, hs, ↓reduceIte, hl]⟩

theorem step_nil (op : Op V) : ∃ e, W.step ([] : Rec V) op = .error e := by
  cases op with
  | copy s d => exact copy_nil s d
  | move s d =>
    simp only [W.step, W.move]
    by_cases hp : isPre s d = true
    · exact ⟨.root, by simp [hp]⟩
    · obtain ⟨e, he⟩ := copy_nil (V := V) s d
      exact ⟨e, by simp [hp, he, bind, Except.bind]⟩
  | set p v => exact step_nil_basic _ rfl
  | grp p => exact step_nil_basic _ rfl
  | del p => exact step_nil_basic _ rfl
  | sattr p k v => exact step_nil_basic _ rfl
  | dattr p k => exact step_nil_basic _ rfl
  | patch => exact step_nil_basic _ rfl

/-- every successful operation of the alphabet re-establishes the invariant -/
theorem step_inv (r r' : Rec V) (op : Op V) (hinv : Inv r) (h : W.step r op = .ok r') : Inv r' ∧ r' ≠ [] := by
  by_cases hne : r = []
  · subst hne; exact (ok_ne_err h (step_nil op)).elim
  · rcases (step_sim r (treeOf r) op hne hinv (rep_treeOf r)).cases with ⟨r1, t1, h1, _, _, h4, h5⟩ | ⟨e, _, h1, _⟩
    · rw [← ok_inj h1 h]; exact ⟨h4, h5⟩
    · rw [h1] at h; cases h

/-! ### facts about the plain tree along a history -/

theorem run_stable (P : Tree V → Prop) (ok : Op V → Prop)
    (hstep : ∀ r t t' op, r ≠ [] → Inv r → Rep r t → ok op → Spec.step t op = .ok t' → P t → P t')
    (h : List (Op V)) : ∀ (r : Rec V) (t : Tree V), r ≠ [] → Inv r → Rep r t → (∀ op ∈ h, ok op) → P t →
      P (Spec.run t h).1 := by
  induction h with
  | nil => intro r t _ _ _ _ hp; exact hp
  | cons op ops ih =>
    intro r t hne hinv hrep hok hp
    have hok2 : ∀ op' ∈ ops, ok op' := fun op' h' => hok op' (by simp [h'])
    have hop := hok op (by simp)
    by_cases hpat : op = .patch
    · subst hpat
      rw [srun_patch]
      rcases (step_sim r t .patch hne hinv hrep).cases with ⟨r', t', _, h2, hrep', hinv', hne'⟩ | ⟨_, _, _, h2⟩
      · simp only [Spec.step, Except.ok.injEq] at h2
        subst h2
        exact ih r' t hne' hinv' hrep' hok2 hp
      · simp [Spec.step] at h2
    · rcases (step_sim r t op hne hinv hrep).cases with ⟨r', t', _, h2, hrep', hinv', hne'⟩ | ⟨_, e', _, h2⟩
      · rw [srun_ok t t' op ops hpat h2]
        exact ih r' t' hne' hinv' hrep' hok2 (hstep r t t' op hne hinv hrep hop h2 hp)
      · rw [srun_err t e' op ops hpat h2]
        exact ih r t hne hinv hrep hok2 hp

theorem spec_copy_inv (t t' : Tree V) (s d : Path) (h : Spec.copy t s d = .ok t') :
    s ≠ [] ∧ (∃ n, aget s t = some n) ∧ Spec.checkFresh t d = .ok () ∧
      t' = Spec.regraft s d t ++ ensure emptyGroup d t := by
  unfold Spec.copy at h
  by_cases hs : s = []
  · simp [hs] at h
  · cases hn : aget s t with
    | none => simp [hs, hn] at h
    | some n =>
      cases hc : Spec.checkFresh t d with
      | error e => simp [hs, hn, hc, bind, Except.bind] at h
      | ok u =>
        simp [hs, hn, hc, bind, Except.bind, pure, Except.pure] at h
        exact ⟨hs, ⟨n, rfl⟩, rfl, h.symm⟩

theorem spec_copy_res (r : Rec V) (t t' : Tree V) (s d : Path) (hrep : Rep r t) (h : Spec.copy t s d = .ok t') :
    CopyRes t s d t' ∧ ∀ x, kindAt t (d ++ x) = none := by
  obtain ⟨_, _, hcf, rfl⟩ := spec_copy_inv t _ s d h
  obtain ⟨_, hdn, _⟩ := checkFresh_anc t d hcf
  have hfree : ∀ x, aget (d ++ x) t = none := fun x => hrep.below_none d x ((kindAt_none_iff _ _).2 hdn)
  exact ⟨specCopy_res t s d hfree, fun x => (kindAt_none_iff _ _).2 (hfree x)⟩

theorem spec_move_inv (t t' : Tree V) (s d : Path) (h : Spec.move t s d = .ok t') :
    ∃ t1, Spec.copy t s d = .ok t1 ∧ t' = removeSub s t1 := by
  unfold Spec.move at h
  by_cases hp : isPre s d = true
  · simp [hp] at h
  · cases hc : Spec.copy t s d with
    | error e => simp [hp, hc, bind, Except.bind] at h
    | ok t1 =>
      simp only [hp, Bool.false_eq_true, ↓reduceIte, hc, bind, Except.bind, Spec.delete] at h
      split at h
      · cases h
      · split at h
        · cases h
        · cases h; exact ⟨t1, rfl, rfl⟩

/-- the operation deletes or moves away `p` or one of its ancestors -/
def removesAbove (p : Path) : Op V → Bool
  | .del q => isPre q p
  | .move s _ => isPre s p
  | _ => false

/-- the operation creates something at, below or above `p` (`set`/`grp` at or below `p`;
`copy`/`move` to a destination on the same branch as `p`) -/
def createsAt (p : Path) : Op V → Bool
  | .set q _ => isPre p q
  | .grp q => isPre p q
  | .copy _ d => isPre p d || isPre d p
  | .move _ d => isPre p d || isPre d p
  | _ => false

theorem prefixes_comparable (a b c : Path) (h1 : isPre a c = true) (h2 : isPre b c = true) :
    isPre a b = true ∨ isPre b a = true := by
  obtain ⟨x, hx⟩ := (isPre_iff _ _).1 h1
  obtain ⟨y, hy⟩ := (isPre_iff _ _).1 h2
  rw [hx] at hy
  rcases List.append_eq_append_iff.1 hy with ⟨a', h5, _⟩ | ⟨c', h5, _⟩
  · exact Or.inl ((isPre_iff _ _).2 ⟨a', h5⟩)
  · exact Or.inr ((isPre_iff _ _).2 ⟨c', h5⟩)

/-- a node stays what it is unless it or an ancestor is deleted or moved away -/
theorem kind_stable_all (r : Rec V) (t t' : Tree V) (op : Op V) (p : Path) (kd : NKind V) (hrep : Rep r t)
    (hd : removesAbove p op = false) (h : Spec.step t op = .ok t') (hk : kindAt t p = some kd) :
    kindAt t' p = some kd := by
  have copy_case : ∀ s d t1, Spec.copy t s d = .ok t1 → kindAt t1 p = some kd := by
    intro s d t1 hc
    obtain ⟨hres, hfree⟩ := spec_copy_res r t t1 s d hrep hc
    have hb : isPre d p = false := by
      cases hx : isPre d p with
      | false => rfl
      | true =>
        obtain ⟨x, rfl⟩ := (isPre_iff _ _).1 hx
        rw [hfree x] at hk; cases hk
    rw [(hres.other p hb).1]
    simp [withAnc, hk]
  cases op with
  | copy s d => exact copy_case s d t' h
  | move s d =>
    obtain ⟨t1, hc, rfl⟩ := spec_move_inv t t' s d h
    simp only [removesAbove] at hd
    rw [kindAt_removeSub, hd]
    exact copy_case s d t1 hc
  | set q v => exact spec_step_kind_stable t t' _ p kd rfl (by simp [deletesAbove]) h hk
  | grp q => exact spec_step_kind_stable t t' _ p kd rfl (by simp [deletesAbove]) h hk
  | del q => exact spec_step_kind_stable t t' _ p kd rfl (by simpa [deletesAbove, removesAbove] using hd) h hk
  | sattr q k v => exact spec_step_kind_stable t t' _ p kd rfl (by simp [deletesAbove]) h hk
  | dattr q k => exact spec_step_kind_stable t t' _ p kd rfl (by simp [deletesAbove]) h hk
  | patch => exact spec_step_kind_stable t t' _ p kd rfl (by simp [deletesAbove]) h hk

/-- a removed subtree stays absent unless something is created, copied or moved there -/
theorem absent_stable_all (r : Rec V) (t t' : Tree V) (op : Op V) (p : Path) (hrep : Rep r t)
    (hc : createsAt p op = false) (h : Spec.step t op = .ok t') (hk : ∀ x, kindAt t (p ++ x) = none) :
    ∀ x, kindAt t' (p ++ x) = none := by
  have copy_case : ∀ s d t1, (isPre p d || isPre d p) = false → Spec.copy t s d = .ok t1 →
      ∀ x, kindAt t1 (p ++ x) = none := by
    intro s d t1 hpd hcp x
    simp only [Bool.or_eq_false_iff] at hpd
    obtain ⟨hres, _⟩ := spec_copy_res r t t1 s d hrep hcp
    have hb : isPre d (p ++ x) = false := by
      cases hx : isPre d (p ++ x) with
      | false => rfl
      | true =>
        rcases prefixes_comparable d p (p ++ x) hx (isPre_append p x) with h1 | h1
        · rw [hpd.2] at h1; cases h1
        · rw [hpd.1] at h1; cases h1
    rw [(hres.other _ hb).1]
    have : p ++ x ∉ properPrefixes d := by
      intro hm
      obtain ⟨y, _, hy⟩ := (mem_properPrefixes _ _).1 hm
      have : isPre p d = true := (isPre_iff _ _).2 ⟨x ++ y, by rw [hy]; simp⟩
      rw [hpd.1] at this; cases this
    simp [withAnc, hk x, this]
  cases op with
  | copy s d => exact copy_case s d t' (by simpa [createsAt] using hc) h
  | move s d =>
    obtain ⟨t1, hcp, rfl⟩ := spec_move_inv t t' s d h
    intro x
    rw [kindAt_removeSub, copy_case s d t1 (by simpa [createsAt] using hc) hcp x]
    simp
  | set q v => exact spec_step_absent_stable t t' _ p rfl (by simpa [createsBelow, createsAt] using hc) h hk
  | grp q => exact spec_step_absent_stable t t' _ p rfl (by simpa [createsBelow, createsAt] using hc) h hk
  | del q => exact spec_step_absent_stable t t' _ p rfl (by simp [createsBelow]) h hk
  | sattr q k v => exact spec_step_absent_stable t t' _ p rfl (by simp [createsBelow]) h hk
  | dattr q k => exact spec_step_absent_stable t t' _ p rfl (by simp [createsBelow]) h hk
  | patch => exact spec_step_absent_stable t t' _ p rfl (by simp [createsBelow]) h hk

end MetadorModel.Overlay
