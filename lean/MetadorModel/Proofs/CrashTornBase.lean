import MetadorModel.Proofs.ChainUBlock
import MetadorModel.Model.Crash
import Mathlib.Tactic.IntervalCases
/-! Torn user-block writes (C11): what `IH5UserBlock.load` makes of `data.take k ++ old.drop k`.

* framing: a block `magic \n 1024 \n x` loads the text of `x` up to its first NUL;
* `torn_text`: the text of a torn block is the old text, an interleaving `new.take j ++ old.drop j`,
  a proper prefix of the new text, or the new text;
* a proper prefix of a rendered block never parses (`parseUBT_take_error`), and neither does the
  interleaving of a commit write (`tailP_mix`): after the first quote inside the old tail
  `null, "ub_exts": {}}` nothing follows that the parser accepts;
* `torn_create_classified`, `torn_classified`: the results used by `Props/C11.lean`. -/
namespace MetadorModel.UBlock
open List

/-- the two framing lines `magic \n 1024 \n` -/
def HDR : List Char := MAGIC ++ ['\n'] ++ SZ1024 ++ ['\n']

theorem HDR_length : HDR.length = 13 := by decide

theorem frame_eq (u : UBT) : frame SZ1024 u = HDR ++ (render u ++ ['\x00']) := by
  simp [frame, HDR, append_assoc]

/-- text that may stand in the third line: ASCII, no newline -/
def Clean (x : List Char) : Prop := ∀ c ∈ x, c ≠ '\n' ∧ c.toNat < 128

theorem Clean.take {x : List Char} (h : Clean x) (n : Nat) : Clean (x.take n) :=
  fun c hc => h c (mem_of_mem_take hc)

theorem Clean.drop {x : List Char} (h : Clean x) (n : Nat) : Clean (x.drop n) :=
  fun c hc => h c (mem_of_mem_drop hc)

theorem Clean.append {x y : List Char} (hx : Clean x) (hy : Clean y) : Clean (x ++ y) := by
  intro c hc
  rcases mem_append.mp hc with h | h
  · exact hx c h
  · exact hy c h

theorem splitOn_clean {x : List Char} (h : ∀ c ∈ x, c ≠ '\n') : splitOn '\n' x = [x] := by
  induction x with
  | nil => rfl
  | cons c x ih =>
    have hc : c ≠ '\n' := h c mem_cons_self
    simp [splitOn, hc, ih (fun d hd => h d (mem_cons_of_mem _ hd))]

theorem pyInt_1024 : pyInt SZ1024 = some 1024 := by decide

theorem readHeadRaw_hdr (x : List Char) (n : Nat) (hn : 13 ≤ n) (hx : Clean (x.take (n - 13))) :
    readHeadRaw (HDR ++ x) n = .ok (some (1024, cutNul (x.take (n - 13)))) := by
  have htake : (HDR ++ x).take n = HDR ++ x.take (n - 13) := by
    rw [take_append, take_of_length_le (by rw [HDR_length]; exact hn), HDR_length]
  unfold readHeadRaw
  simp only [htake]
  have hascii : (HDR ++ x.take (n - 13)).any (fun c => decide (c.toNat ≥ 128)) = false := by
    rw [any_eq_false]
    intro c hc
    rcases mem_append.mp hc with h | h
    · have : ∀ d ∈ HDR, ¬ decide (d.toNat ≥ 128) = true := by decide
      exact this c h
    · have := (hx c h).2; simp; omega
  rw [hascii]
  have hsplit : splitOn '\n' (HDR ++ x.take (n - 13)) = [MAGIC, SZ1024, x.take (n - 13)] := by
    have := splitOn_clean (fun c hc => (hx c hc).1)
    simp [HDR, MAGIC, SZ1024, splitOn, this]
  simp only [hsplit, Bool.false_eq_true, if_false, ne_eq, not_true_eq_false, pyInt_1024]
  rfl

theorem loadText_hdr (x : List Char) (hx : Clean (x.take 1011)) :
    loadText (HDR ++ x) = .ok (1024, cutNul (x.take 1011)) := by
  have h499 : Clean (x.take (512 - 13)) := by
    intro c hc
    have : c ∈ x.take 1011 := by
      have := take_subset_take_left x (show 512 - 13 ≤ 1011 by omega) hc
      exact this
    exact hx c this
  unfold loadText
  rw [readHeadRaw_hdr x 512 (by omega) h499]
  simp only [bind, Except.bind]
  have : ((1024 : Int) > 512) = True := by simp
  simp only [this, if_true]
  have h1024 : (1024 : Int).toNat = 1024 := rfl
  rw [h1024, readHeadRaw_hdr x 1024 (by omega) hx]
  rfl

/-! ## text up to the first NUL -/

theorem untilNul_append {a : List Char} (ha : '\x00' ∉ a) (z : List Char) :
    untilNul (a ++ '\x00' :: z) = some a := by
  induction a with
  | nil => simp [untilNul]
  | cons c a ih =>
    have hc : c ≠ '\x00' := fun h => ha (h ▸ mem_cons_self)
    simp [untilNul, hc, ih (fun h => ha (mem_cons_of_mem _ h))]

theorem cutNul_append {a : List Char} (ha : '\x00' ∉ a) (z : List Char) :
    cutNul (a ++ '\x00' :: z) = a := by
  simp [cutNul, untilNul_append ha]

theorem cutNul_take {a : List Char} (ha : '\x00' ∉ a) (z : List Char) {n : Nat} (hn : a.length < n) :
    cutNul ((a ++ '\x00' :: z).take n) = a := by
  have : (a ++ '\x00' :: z).take n = a ++ '\x00' :: z.take (n - a.length - 1) := by
    rw [take_append, take_of_length_le (by omega)]
    obtain ⟨m, hm⟩ : ∃ m, n - a.length = m + 1 := ⟨n - a.length - 1, by omega⟩
    rw [hm, take_succ_cons]; congr 2
  rw [this, cutNul_append ha]

/-! ## torn writes -/

theorem torn_prefix (h x y : List Char) (k : Nat) :
    torn k (h ++ x) (h ++ y) = h ++ torn (k - h.length) x y := by
  unfold torn
  by_cases hk : k ≤ h.length
  · have h0 : k - h.length = 0 := by omega
    rw [h0, take_zero, drop_zero, nil_append, take_append, drop_append, h0, take_zero, drop_zero,
      append_nil, ← append_assoc, take_append_drop]
  · have hk' : h.length ≤ k := by omega
    rw [take_append, drop_append, take_of_length_le hk', drop_eq_nil_of_le hk', nil_append, append_assoc]

theorem torn_zero (old data : List Char) : torn 0 old data = old := by simp [torn]

/-- the text `load` extracts from a block whose third line is `a NUL zeros`, after a write of
`b NUL` over it was cut after `j` bytes -/
theorem torn_text (a b Z : List Char) (ha : '\x00' ∉ a) (hb : '\x00' ∉ b)
    (hZ : ∀ c ∈ Z, c = '\x00') (hlen : a.length + 1 + Z.length = 1011)
    (hab : a.length ≤ b.length) (hb2 : b.length + 1 ≤ 1011) (j : Nat) :
    cutNul ((torn j (a ++ '\x00' :: Z) (b ++ ['\x00'])).take 1011) =
      if j ≤ a.length then b.take j ++ a.drop j else if j ≤ b.length then b.take j else b := by
  unfold torn
  split_ifs with h1 h2
  · -- new prefix, old suffix
    have e1 : (b ++ ['\x00']).take j = b.take j := by
      rw [take_append, show j - b.length = 0 by omega]; simp
    have e2 : (a ++ '\x00' :: Z).drop j = a.drop j ++ '\x00' :: Z := by
      rw [drop_append, show j - a.length = 0 by omega]; simp
    rw [e1, e2, ← append_assoc]
    apply cutNul_take
    · intro hm
      rcases mem_append.mp hm with hm | hm
      · exact hb (mem_of_mem_take hm)
      · exact ha (mem_of_mem_drop hm)
    · simp [length_take, length_drop]; omega
  · -- proper prefix of the new text, zeros behind
    have e1 : (b ++ ['\x00']).take j = b.take j := by
      rw [take_append, show j - b.length = 0 by omega]; simp
    have e2 : (a ++ '\x00' :: Z).drop j = Z.drop (j - a.length - 1) := by
      rw [drop_append, drop_eq_nil_of_le (by omega), nil_append]
      obtain ⟨m, hm⟩ : ∃ m, j - a.length = m + 1 := ⟨j - a.length - 1, by omega⟩
      rw [hm, drop_succ_cons]; congr 1
    have hne : Z.drop (j - a.length - 1) ≠ [] := by
      intro h; have := drop_eq_nil_iff.mp h; omega
    obtain ⟨c, Z', hZ'⟩ := exists_cons_of_ne_nil hne
    have hc : c = '\x00' := hZ c (mem_of_mem_drop (hZ' ▸ mem_cons_self))
    rw [e1, e2, hZ', hc]
    apply cutNul_take
    · exact fun hm => hb (mem_of_mem_take hm)
    · simp [length_take]; omega
  · -- complete write
    have e1 : (b ++ ['\x00']).take j = b ++ ['\x00'] := take_of_length_le (by simp; omega)
    rw [e1, append_assoc, singleton_append]
    exact cutNul_take hb _ (by omega)

theorem le_toNat {c d : Char} (h : c ≤ d) : c.toNat ≤ d.toNat := by
  simpa [Char.le_def, UInt32.le_iff_toNat_le] using h

/-- harmless inside the third line of a user block: ASCII, not a newline, not NUL -/
def GoodC (c : Char) : Prop := c ≠ '\n' ∧ c ≠ '\x00' ∧ c.toNat < 128

theorem isHex_good {c : Char} (h : isHex c = true) : GoodC c := by
  refine ⟨by rintro rfl; revert h; decide, by rintro rfl; revert h; decide, ?_⟩
  simp only [isHex, isHexL, Bool.or_eq_true, Bool.and_eq_true, decide_eq_true_eq] at h
  rcases h with (⟨-, h⟩ | ⟨-, h⟩) | ⟨-, h⟩ <;> have := le_toNat h <;> simp at this <;> omega

theorem isHexL_good {c : Char} (h : isHexL c = true) : GoodC c :=
  isHex_good (by simp [isHex, h])

theorem isDigit_good {c : Char} (h : isDigit c = true) : GoodC c := by
  refine ⟨by rintro rfl; revert h; decide, by rintro rfl; revert h; decide, ?_⟩
  simp only [isDigit, Bool.and_eq_true, decide_eq_true_eq] at h
  have := le_toNat h.2; simp at this; omega

def AllGood (s : List Char) : Prop := ∀ c ∈ s, GoodC c

theorem AllGood.append {x y : List Char} (hx : AllGood x) (hy : AllGood y) : AllGood (x ++ y) := by
  intro c hc
  rcases mem_append.mp hc with h | h
  · exact hx c h
  · exact hy c h

theorem allGood_const {s : List Char} (h : s.all (fun c => c != '\n' && c != '\x00' && decide (c.toNat < 128)) = true) :
    AllGood s := by
  intro c hc
  have := all_eq_true.mp h c hc
  simp only [Bool.and_eq_true, bne_iff_ne, ne_eq, decide_eq_true_eq] at this
  exact ⟨this.1.1, this.1.2, this.2⟩

theorem allGood_q {s : List Char} (h : AllGood s) : AllGood (q s) := by
  unfold q
  intro c hc
  rcases mem_cons.mp hc with rfl | hc
  · exact ⟨by decide, by decide, by decide⟩
  · rcases mem_append.mp hc with hc | hc
    · exact h c hc
    · rw [mem_singleton] at hc; subst hc; exact ⟨by decide, by decide, by decide⟩

theorem isUuid_good {s : List Char} (h : isUuid s = true) : AllGood s := by
  intro c hc
  rcases isUuid_chars h c hc with h | rfl
  · exact isHexL_good h
  · exact ⟨by decide, by decide, by decide⟩

theorem isQHash_good {s : List Char} (h : isQHash s = true) : AllGood s := by
  have hex : ∀ t, hexOk t = true → AllGood t := by
    intro t ht c hc
    simp only [hexOk, Bool.and_eq_true, all_eq_true] at ht
    exact isHex_good (ht.2 c hc)
  unfold isQHash at h
  rcases k1 : lit S_sha256 s with _ | r
  · rw [k1] at h
    rcases k2 : lit S_sha512 s with _ | r
    · simp [k2] at h
    · rw [k2] at h
      rw [lit_some k2]
      exact (allGood_const (by decide)).append (hex r h)
  · rw [k1] at h
    rw [lit_some k1]
    exact (allGood_const (by decide)).append (hex r h)

theorem isDec_good {s : List Char} (h : isDec s = true) : AllGood s :=
  fun c hc => isDigit_good (isDec_digits h c hc)

theorem render_good {u : UBT} (h : u.wf = true) : AllGood (render u) := by
  obtain ⟨h1, h2, h3, h4, h5, h6⟩ := wf_parts h
  have hopt : ∀ (o : Option (List Char)), (∀ a, o = some a → AllGood a) → AllGood (optStr o) := by
    intro o ho
    cases o with
    | none => exact allGood_const (by decide)
    | some a => exact allGood_q (ho a rfl)
  have hext : AllGood (renderExt u.ext) := by
    rcases he : u.ext with _ | e
    · exact allGood_const (by decide)
    · obtain ⟨⟨a1, -⟩, ⟨b1, -⟩⟩ := h6 e he
      have hb : AllGood (renderBool e.isStub) := by
        cases e.isStub <;> exact allGood_const (by decide)
      exact (((((((allGood_const (by decide : E1.all _ = true)).append hb).append
        (allGood_const (by decide : E2.all _ = true))).append (allGood_q (isUuid_good a1))).append
        (allGood_const (by decide : E3.all _ = true))).append (allGood_q (isQHash_good b1))).append
        (allGood_const (by decide : E4.all _ = true)))
  unfold render
  exact (((((((((((((allGood_const (by decide : K1.all _ = true)).append (allGood_q (isUuid_good h1))).append
    (allGood_const (by decide : K2.all _ = true))).append (isDec_good h2)).append
    (allGood_const (by decide : K3.all _ = true))).append (allGood_q (isUuid_good h3))).append
    (allGood_const (by decide : K4.all _ = true))).append (hopt _ (fun a ha => isUuid_good (h4 a ha).1))).append
    (allGood_const (by decide : K5.all _ = true))).append (hopt _ (fun a ha => isQHash_good (h5 a ha).1))).append
    (allGood_const (by decide : K6.all _ = true))).append hext).append
    (allGood_const (by decide : S_close.all _ = true)))

/-! ## no rendered block is a proper prefix of another -/

theorem parseUBT_take_error {u : UBT} (h : u.wf = true) {j : Nat} (hj : j < (render u).length)
    (v : UBT) : parseUBT ((render u).take j) ≠ .ok v := by
  intro hv
  obtain ⟨e, hw⟩ := (parseUBT_ok_iff _ _).mp hv
  have h1 := parseP_render hw ((render u).drop j)
  rw [← e, take_append_drop] at h1
  have h2 := parseP_render h []
  rw [append_nil] at h2
  rw [h1] at h2
  injection h2 with h2
  injection h2 with _ h3
  have := drop_eq_nil_iff.mp h3
  omega

/-! ## splitting the parser after the `prev_patch` field -/

/-- the text up to and including the key of `hdf5_hashsum` -/
def headText (u : UBT) : List Char :=
  K1 ++ q u.rid ++ K2 ++ u.idx ++ K3 ++ q u.pid ++ K4 ++ optStr u.prev ++ K5

/-- the rest of a block: value of `hdf5_hashsum`, `ub_exts`, closing brace -/
def tailText (hash : Option (List Char)) (ext : Option ExtT) : List Char :=
  optStr hash ++ K6 ++ renderExt ext ++ S_close

theorem render_split (u : UBT) : render u = headText u ++ tailText u.hash u.ext := by
  simp [render, headText, tailText, append_assoc]

/-- the parser from the value of `hdf5_hashsum` on -/
def tailP (rid idx pid : List Char) (prev : Option (List Char)) (s : List Char) :
    Option (UBT × List Char) := do
  let (hash, s) ← optP isQHash s
  let s ← lit K6 s
  let (ext, s) ← extP s
  let s ← lit S_close s
  pure (⟨rid, idx, pid, prev, hash, ext⟩, s)

theorem parseP_head {u : UBT} (h : u.wf = true) (m : List Char) :
    parseP (headText u ++ m) = tailP u.rid u.idx u.pid u.prev m := by
  obtain ⟨h1, h2, h3, h4, -, -⟩ := wf_parts h
  unfold parseP tailP
  simp only [headText, append_assoc]
  rw [lit_append]
  simp only [Option.bind_eq_bind, Option.bind_some, lit_append,
    strP_append h1 (isUuid_noQuote h1), strP_append h3 (isUuid_noQuote h3),
    decP_append_K3 h2, optP_append u.prev _ h4]

/-- `null, "ub_exts": {}}` — how the block of an uncommitted container ends -/
def TAIL0 : List Char := tailText none none

theorem TAIL0_length : TAIL0.length = 20 := by decide

theorem untilQuote_append_left {a : List Char} (ha : '"' ∉ a) (t : List Char) :
    untilQuote (a ++ t) = (untilQuote t).map (fun p => (a ++ p.1, p.2)) := by
  induction a with
  | nil => cases hu : untilQuote t <;> simp [hu]
  | cons c a ih =>
    have hc : c ≠ '"' := fun h => ha (h ▸ mem_cons_self)
    simp only [cons_append, untilQuote, hc, if_false, ih (fun h => ha (mem_cons_of_mem _ h))]
    cases hu : untilQuote t <;> simp

/-- after the first quote inside the old tail nothing follows that the parser could accept -/
def quoteOk (t : List Char) : Bool :=
  match untilQuote t with
  | none => true
  | some (_, r) => (lit K6 r).isNone

theorem tail0_quote (i : Nat) (h1 : 1 ≤ i) (h2 : i ≤ 20) : quoteOk (TAIL0.drop i) = true := by
  interval_cases i <;> decide

/-- **the interleaving region of a torn commit write**: a string that starts like the new hash
value (`"` and a quote-free piece) and goes on with the end of the old block does not parse -/
theorem tailP_mix (rid idx pid : List Char) (prev : Option (List Char)) (h' : List Char)
    (hq : '"' ∉ h') (i : Nat) (h1 : 1 ≤ i) (h2 : i ≤ 20) :
    tailP rid idx pid prev ('"' :: h' ++ TAIL0.drop i) = none := by
  unfold tailP optP
  have hn : lit S_null ('"' :: h' ++ TAIL0.drop i) = none := by simp [lit, S_null]
  rw [hn]
  simp only [cons_append, strP, if_true, untilQuote_append_left hq]
  have hq0 := tail0_quote i h1 h2
  unfold quoteOk at hq0
  rcases hu : untilQuote (TAIL0.drop i) with _ | ⟨a, r⟩
  · rfl
  · rw [hu] at hq0
    have hl : lit K6 r = none := by simpa using hq0
    simp only [Option.map_some]
    by_cases hok : isQHash (h' ++ a) = true
    · simp [hok, hl]
    · simp [hok]


end MetadorModel.UBlock
