import MetadorModel.Model.Acl
import Mathlib.Tactic.SplitIfs
import Mathlib.Tactic.Cases
/-! Helper lemmas for the node-restriction model (C15): the flag order, the facts a `TableOk`
table provides, and the one-step lemmas the chain theorems are folded from. -/
namespace MetadorModel.Acl

/-! ### flag order -/

theorem Flags.le_refl (a : Flags) : a.le a = true := by
  cases a with | mk r l s => cases r <;> cases l <;> cases s <;> rfl

theorem Flags.le_trans {a b c : Flags} (h1 : a.le b = true) (h2 : b.le c = true) : a.le c = true := by
  cases a with | mk r1 l1 s1 =>
  cases b with | mk r2 l2 s2 =>
  cases c with | mk r3 l3 s3 =>
  revert h1 h2
  cases r1 <;> cases l1 <;> cases s1 <;> cases r2 <;> cases l2 <;> cases s2 <;>
    cases r3 <;> cases l3 <;> cases s3 <;> simp [Flags.le]

theorem Flags.le_union_left (a b : Flags) : a.le (a.union b) = true := by
  cases a with | mk r1 l1 s1 =>
  cases b with | mk r2 l2 s2 =>
  cases r1 <;> cases l1 <;> cases s1 <;> cases r2 <;> cases l2 <;> cases s2 <;> rfl

theorem Flags.le_union_right (a b : Flags) : b.le (a.union b) = true := by
  cases a with | mk r1 l1 s1 =>
  cases b with | mk r2 l2 s2 =>
  cases r1 <;> cases l1 <;> cases s1 <;> cases r2 <;> cases l2 <;> cases s2 <;> rfl

theorem Flags.le_has {a b : Flags} (h : a.le b = true) (f : Flag) (hf : a.has f = true) :
    b.has f = true := by
  cases a with | mk r1 l1 s1 =>
  cases b with | mk r2 l2 s2 =>
  cases f <;> revert h hf <;>
  cases r1 <;> cases l1 <;> cases s1 <;> cases r2 <;> cases l2 <;> cases s2 <;> simp [Flags.le, Flags.has]

theorem Flags.union_empty (a : Flags) : a.union ⟨false, false, false⟩ = a := by
  cases a with | mk r l s => simp [Flags.union]

theorem mem_allPrims (p : Prim) : p ∈ allPrims := by cases p <;> simp [allPrims]

/-! ### what a well-formed table provides -/

structure Facts (t : AclTable) : Prop where
  wraps : ∀ p : Prim, t.wrapsPrim p.name = true
  wrapsParent : t.wrapsPrim "parent" = true
  inherit : t.childKwargsInheritAll = true
  restrictOrs : t.restrictOrs = true
  parentUnion : t.parentMode = .lpUnion
  absGuard : t.absGuardLocal = true
  fallback : t.propertyFallbackRefused = true
  mutG : ∀ op ∈ mutatingOps, (t.guardsOf op).contains Flag.ro = true
  readG : ∀ op ∈ readingOps, (t.guardsOf op).contains Flag.skel = true
  upG : ∀ op ∈ upwardOps, (t.guardsOf op).contains Flag.loc = true

theorem cond_of_tableOk (t : AclTable) (h : TableOk t = true) (c : Bool) (hc : c ∈ tableConds t) :
    c = true := by
  have := List.all_eq_true.mp h c hc
  simpa using this

theorem facts_of_tableOk (t : AclTable) (h : TableOk t = true) : Facts t := by
  have c := cond_of_tableOk t h
  refine ⟨?_, c _ (by simp [tableConds]), c _ (by simp [tableConds]), c _ (by simp [tableConds]), ?_,
    c _ (by simp [tableConds]), c _ (by simp [tableConds]), ?_, ?_, ?_⟩
  · have := c (allPrims.all fun p => t.wrapsPrim p.name) (by simp [tableConds])
    intro p
    exact List.all_eq_true.mp this p (mem_allPrims p)
  · have := c (t.parentMode == .lpUnion) (by simp [tableConds])
    simpa using this
  · have := c (mutatingOps.all fun op => (t.guardsOf op).contains .ro) (by simp [tableConds])
    exact fun op hop => List.all_eq_true.mp this op hop
  · have := c (readingOps.all fun op => (t.guardsOf op).contains .skel) (by simp [tableConds])
    exact fun op hop => List.all_eq_true.mp this op hop
  · have := c (upwardOps.all fun op => (t.guardsOf op).contains .loc) (by simp [tableConds])
    exact fun op hop => List.all_eq_true.mp this op hop

theorem refuses_of_guard (t : AclTable) (op : String) (f : Flags) (fl : Flag)
    (hg : (t.guardsOf op).contains fl = true) (hf : f.has fl = true) : t.refuses op f = true := by
  simp only [AclTable.refuses, List.any_eq_true]
  exact ⟨fl, by simpa using hg, hf⟩

theorem refusesOn_eq (t : AclTable) (hfb : t.propertyFallbackRefused = true) (g : Bool) (op : String)
    (f : Flags) : t.refusesOn g op f = t.refuses op f := by
  simp [AclTable.refusesOn, hfb]

theorem childWrapper_ok (t : AclTable) (hi : t.childKwargsInheritAll = true) (w : Wrapper) (p : Path) :
    childWrapper t true w p = ⟨p, w.flags, if w.flags.loc then (w.path, w.flags) :: w.lps else []⟩ := by
  simp [childWrapper, hi]

/-! ### one navigation step -/

/-- the possible results of one step under a well-formed table -/
theorem step_cases (t : AclTable) (F : Facts t) (T : Tree) (w w' : Wrapper) (s : Step)
    (h : step t T w s = .ok w') :
    -- same object (query yielding the start node)
    w' = w ∨
    -- a node below, or the true parent, or an absolute lookup by a non-local node: inherited flags
    (∃ p, w' = ⟨p, w.flags, if w.flags.loc then (w.path, w.flags) :: w.lps else []⟩ ∧
      ((∃ rel, p = w.path ++ rel) ∨ w.flags.loc = false)) ∨
    -- the remembered local parent with the united flags
    (w.flags.loc = true ∧ ∃ p f rest, w.lps = (p, f) :: rest ∧ w' = ⟨p, f.union w.flags, rest⟩) ∨
    -- restrict
    (∃ f, w' = ⟨w.path, w.flags.union f, if f.loc then [] else w.lps⟩) := by
  cases s with
  | child p rel =>
    simp only [step] at h
    split_ifs at h with h1 h2 h3 h4 h5
    · cases h; exact Or.inl rfl
    · cases hk : T.kind (w.path ++ rel) with
      | none => simp [hk] at h
      | some isG =>
        simp only [hk] at h
        split_ifs at h
        rw [F.wraps p, childWrapper_ok t F.inherit] at h
        cases h
        exact Or.inr (Or.inl ⟨_, rfl, Or.inl ⟨rel, rfl⟩⟩)
  | abs p path =>
    simp only [step] at h
    split_ifs at h with h1 h2 h3
    cases hk : T.kind path with
    | none => simp [hk] at h
    | some isG =>
      simp only [hk] at h
      rw [F.wraps p, childWrapper_ok t F.inherit] at h
      cases h
      refine Or.inr (Or.inl ⟨_, rfl, Or.inr ?_⟩)
      simp only [F.absGuard, Bool.true_and, Bool.not_eq_true] at h3
      exact h3
  | parent =>
    by_cases hl : w.flags.loc = true
    · cases hlps : w.lps with
      | nil =>
        have hr : t.refuses "parent" w.flags = true :=
          refuses_of_guard t "parent" w.flags .loc (F.upG "parent" (by simp [upwardOps])) hl
        simp [step, hl, hlps, refusesOn_eq t F.fallback, hr] at h
      | cons e rest =>
        obtain ⟨p, f⟩ := e
        simp only [step, hl, hlps, ↓reduceIte, F.parentUnion] at h
        cases h
        exact Or.inr (Or.inr (Or.inl ⟨hl, p, f, rest, rfl, rfl⟩))
    · simp only [step, hl, Bool.false_eq_true, ↓reduceIte] at h
      rw [F.wrapsParent, childWrapper_ok t F.inherit] at h
      cases h
      refine Or.inr (Or.inl ⟨_, rfl, Or.inr ?_⟩)
      simpa using hl
  | restrict f =>
    simp only [step, F.restrictOrs, ↓reduceIte] at h
    cases h
    exact Or.inr (Or.inr (Or.inr ⟨f, rfl⟩))

end MetadorModel.Acl
