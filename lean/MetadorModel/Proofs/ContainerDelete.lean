import MetadorModel.Proofs.ContainerOps
import MetadorModel.Proofs.ContainerTreeOK
/-!
# `del group[name]`: `_destroy_meta` recursion, then removal of the node
-/
namespace MetadorModel.Container

theorem destroyGo_cons (unlink : Bool) (h : Handle) (n : String) (ns : List String) :
    Handle.destroy.go unlink h (n :: ns) =
      (h.delRaw n unlink >>= fun h' => Handle.destroy.go unlink h' ns) := by
  rw [Handle.destroy.go]

/-- What the `_destroy_meta` recursion needs to know about `_del_raw(name, _unlink)`: it keeps a
state predicate `I` (the full invariant when unlinking, only the tree part when the objects are
unlinked copies), relates the states by a transitive frame relation `F`, leaves user nodes alone and
removes exactly the object. -/
structure DelSpec (e : Env) (unlink : Bool) (I : St → Prop) (F : St → St → Prop) : Prop where
  tree : ∀ s, I s → TreeOK e s.raw
  refl : ∀ s, F s s
  trans : ∀ a b c, F a b → F b c → F a c
  del : ∀ (s : St) (h : Handle) (name : String) (st : Stored), I s → HOK s h → alGet h.objs name = some st →
    ∃ s' h', h.delRaw name unlink s = (.ok h', s') ∧ I s' ∧ HOK s' h' ∧ h'.baseDir = h.baseDir ∧
      s'.next = s.next ∧ F s s' ∧ (∀ q, isInternal q = false → get? s'.raw q = get? s.raw q) ∧
      (∀ p r u, ObjAt s'.raw p r u ↔ (ObjAt s.raw p r u ∧ p ≠ st.path))

/-- outside `/metador_container` nodes only disappear, none is created or modified -/
def Mono (s s' : St) : Prop :=
  ∀ q, q.head? ≠ some .toc → get? s'.raw q = none ∨ get? s'.raw q = get? s.raw q

theorem Mono.refl (s : St) : Mono s s := fun _ _ => Or.inr rfl

theorem Mono.trans {a b c : St} (h1 : Mono a b) (h2 : Mono b c) : Mono a c := by
  intro q hq
  rcases h2 q hq with h | h
  · exact Or.inl h
  · rcases h1 q hq with h' | h'
    · exact Or.inl (h.trans h')
    · exact Or.inr (h.trans h')

/-- `_del_raw(name, _unlink=True)` on a state satisfying the invariant -/
theorem delSpec_inv {e : Env} (he : WFEnv e) : DelSpec e true (Inv e) Mono where
  tree := fun _ hi => hi.treeOK
  refl := Mono.refl
  trans := fun _ _ _ => Mono.trans
  del := fun s h name st hi hh hst => by
    obtain ⟨s', h', h1, h2, h3, h4, h5, h6, h7, h8⟩ := delRaw_spec he hi hh hst
    exact ⟨s', h', h1, h2, h3, h4, h5, h8, h6, h7⟩

section generic
variable {e : Env} {unlink : Bool} {I : St → Prop} {F : St → St → Prop}

/-- the loop of `MetadorMeta._destroy` over a list of (distinct, present) schema names -/
theorem destroyGo_spec (D : DelSpec e unlink I F) : ∀ (ns : List String) {s : St} {h : Handle},
    I s → HOK s h → (∀ n ∈ ns, (alGet h.objs n).isSome) → ns.Nodup →
    ∃ s', Handle.destroy.go unlink h ns s = (.ok (), s') ∧ I s' ∧ s'.next = s.next ∧ F s s' ∧
      (∀ q, isInternal q = false → get? s'.raw q = get? s.raw q) ∧
      (∀ p r u, ObjAt s'.raw p r u ↔ (ObjAt s.raw p r u ∧ ¬ (p = h.baseDir ++ [.obj r u] ∧ r.name ∈ ns)))
  | [], s, h, hi, _, _, _ => ⟨s, rfl, hi, rfl, D.refl s, fun _ _ => rfl, fun p r u => by simp⟩
  | n :: ns, s, h, hi, hh, hall, hnd => by
    obtain ⟨st, hst⟩ := alGet_some_of_isSome (hall n (by simp))
    obtain ⟨s1, h1, hrun, hi1, hh1, hbase1, hnext1, hF1, huser1, hobj1⟩ := D.del s h n st hi hh hst
    obtain ⟨⟨b, m, hb, hbase, -, -⟩, hobjs, -⟩ := hh
    obtain ⟨r0, u0, hname0, rfl, hex0⟩ := (hobjs n st).mp hst
    simp only at hobj1
    have hnd' := List.nodup_cons.mp hnd
    have hall1 : ∀ n' ∈ ns, (alGet h1.objs n').isSome := by
      intro n' hn'
      obtain ⟨st', hst'⟩ := alGet_some_of_isSome (hall n' (List.mem_cons_of_mem _ hn'))
      obtain ⟨r', u', hname', rfl, hex'⟩ := (hobjs n' st').mp hst'
      have ho : ObjAt s.raw (h.baseDir ++ [.obj r' u']) r' u' :=
        ⟨b, m, hb, by rw [hbase]; simp, hex'⟩
      have hne : h.baseDir ++ [Key.obj r' u'] ≠ h.baseDir ++ [Key.obj r0 u0] := by
        intro heq
        have := (List.append_inj' heq rfl).2
        simp at this
        rw [this.1, hname0] at hname'
        exact hnd'.1 (hname' ▸ hn')
      obtain ⟨_, _, _, _, hg1⟩ := (hobj1 _ _ _).mpr ⟨ho, hne⟩
      rw [(hh1.objs n' ⟨u', r', h1.baseDir ++ [.obj r' u']⟩).mpr ⟨r', u', hname', rfl, by rw [hbase1]; exact hg1⟩]
      rfl
    obtain ⟨s', hrun', hi', hnext', hF', huser', hobj'⟩ := destroyGo_spec D ns hi1 hh1 hall1 hnd'.2
    refine ⟨s', by rw [destroyGo_cons, run_bind, hrun]; exact hrun', hi', hnext'.trans hnext1,
      D.trans _ _ _ hF1 hF', fun q hq => (huser' q hq).trans (huser1 q hq), fun p r u => ?_⟩
    rw [hobj', hobj1, hbase1]
    constructor
    · rintro ⟨⟨ho, hne⟩, hno⟩
      refine ⟨ho, ?_⟩
      rintro ⟨hp, hmem⟩
      rcases List.mem_cons.mp hmem with hn | hn
      · -- same name in the same directory: the same object
        apply hne
        obtain ⟨rfl, rfl⟩ := (D.tree s hi).onename b m r u r0 u0 hb
          (by obtain ⟨_, _, _, _, hg⟩ := ho; rw [hp, hbase] at hg; simpa using hg)
          (by rw [hbase] at hex0; simpa using hex0) (hn.trans hname0.symm)
        exact hp
      · exact hno ⟨hp, hn⟩
    · rintro ⟨ho, hno⟩
      refine ⟨⟨ho, ?_⟩, fun ⟨hp, hmem⟩ => hno ⟨hp, List.mem_cons_of_mem _ hmem⟩⟩
      intro hp
      obtain ⟨b', m', hb', hp', -⟩ := ho
      have hk : Key.obj r u = Key.obj r0 u0 := by
        have h1 : (b' ++ [Key.metaDir m']) ++ [Key.obj r u] = h.baseDir ++ [Key.obj r0 u0] := by
          rw [← hp, hp']; simp
        exact (List.append_inj' h1 rfl).2 |> fun h => by simpa using h
      simp only [Key.obj.injEq] at hk
      obtain ⟨rfl, rfl⟩ := hk
      exact hno ⟨hp, by simp [hname0]⟩

/-- `MetadorMeta._destroy()` removes exactly the objects of the handle's directory -/
theorem destroy_spec (D : DelSpec e unlink I F) {s : St} {h : Handle} (hi : I s) (hh : HOK s h) :
    ∃ s', h.destroy unlink s = (.ok (), s') ∧ I s' ∧ s'.next = s.next ∧ F s s' ∧
      (∀ q, isInternal q = false → get? s'.raw q = get? s.raw q) ∧
      (∀ p r u, ObjAt s'.raw p r u ↔ (ObjAt s.raw p r u ∧ p.dropLast ≠ h.baseDir)) := by
  have hkeys : h.objs.map (·.1) = alKeys h.objs := rfl
  obtain ⟨s', hrun, hi', hnext, hF, huser, hobj⟩ := destroyGo_spec D (alKeys h.objs) hi hh
    (fun n hn => (alGet_isSome_iff _ _).mpr hn) hh.nodup
  refine ⟨s', by unfold Handle.destroy; rw [hkeys]; exact hrun, hi', hnext, hF, huser, fun p r u => ?_⟩
  rw [hobj]
  constructor
  · rintro ⟨ho, hno⟩
    refine ⟨ho, fun hd => hno ?_⟩
    obtain ⟨b', m', hb', rfl, hg⟩ := ho
    have hd' : b' ++ [Key.metaDir m'] = h.baseDir := by
      rw [← hd, show b' ++ [Key.metaDir m', Key.obj r u] = (b' ++ [Key.metaDir m']) ++ [Key.obj r u] by simp,
        List.dropLast_concat]
    have hp : b' ++ [Key.metaDir m', Key.obj r u] = h.baseDir ++ [Key.obj r u] := by rw [← hd']; simp
    refine ⟨hp, ?_⟩
    rw [← alGet_isSome_iff, (hh.objs r.name ⟨u, r, h.baseDir ++ [.obj r u]⟩).mpr ⟨r, u, rfl, rfl, by rw [← hp]; exact hg⟩]
    rfl
  · rintro ⟨ho, hne⟩
    refine ⟨ho, fun ⟨hp, _⟩ => hne ?_⟩
    rw [hp, List.dropLast_concat]

theorem nodeKind_congr {s s' : St} {q : Path} (h : get? s'.raw q = get? s.raw q) : nodeKind s' q = nodeKind s q := by
  simp [nodeKind, h]

/-- the loop `for child in …: child._destroy_meta()` over a fixed list of existing user nodes -/
theorem destroyNodes_spec (D : DelSpec e unlink I F) (f : Path × Bool → M Unit)
    (hf : ∀ x s, f x s = (openHandle s x.1 x.2).destroy unlink s) :
    ∀ (l : List (Path × Bool)) {s : St}, I s →
      (∀ x ∈ l, isInternal x.1 = false ∧ nodeKind s x.1 = some x.2) →
      ∃ s', forEachM l f s = (.ok (), s') ∧ I s' ∧ s'.next = s.next ∧ F s s' ∧
        (∀ q, isInternal q = false → get? s'.raw q = get? s.raw q) ∧
        (∀ p r u, ObjAt s'.raw p r u ↔ (ObjAt s.raw p r u ∧ ∀ x ∈ l, p.dropLast ≠ metaBase x.1 x.2))
  | [], s, hi, _ => ⟨s, rfl, hi, rfl, D.refl s, fun _ _ => rfl, fun p r u => by simp⟩
  | x :: l, s, hi, hl => by
    obtain ⟨hx1, hx2⟩ := hl x (by simp)
    obtain ⟨s1, hrun1, hi1, hnext1, hF1, huser1, hobj1⟩ := destroy_spec D hi (openHandle_HOK' (D.tree s hi) hx1 hx2)
    have hl1 : ∀ y ∈ l, isInternal y.1 = false ∧ nodeKind s1 y.1 = some y.2 := by
      intro y hy
      obtain ⟨hy1, hy2⟩ := hl y (List.mem_cons_of_mem _ hy)
      exact ⟨hy1, by rw [nodeKind_congr (huser1 _ hy1)]; exact hy2⟩
    obtain ⟨s', hrun', hi', hnext', hF', huser', hobj'⟩ := destroyNodes_spec D f hf l hi1 hl1
    refine ⟨s', ?_, hi', hnext'.trans hnext1, D.trans _ _ _ hF1 hF', fun q hq => (huser' q hq).trans (huser1 q hq),
      fun p r u => ?_⟩
    · rw [forEachM_cons]
      show (f x >>= fun _ => forEachM l f) s = _
      rw [run_bind, hf, hrun1]; exact hrun'
    · rw [hobj', hobj1]
      have hb : (openHandle s x.1 x.2).baseDir = metaBase x.1 x.2 := rfl
      rw [hb]
      constructor
      · rintro ⟨⟨ho, h1⟩, h2⟩
        exact ⟨ho, fun y hy => by
          rcases List.mem_cons.mp hy with rfl | hy
          · exact h1
          · exact h2 y hy⟩
      · rintro ⟨ho, h⟩
        exact ⟨⟨ho, h x (by simp)⟩, fun y hy => h y (List.mem_cons_of_mem _ hy)⟩

end generic

/-! ### the user nodes below a node -/

def kindOf : Node → Bool
  | .grp => false
  | .ds _ => true

theorem nodeKind_eq_kindOf {s : St} {q : Path} {n : Node} (h : get? s.raw q = some n) :
    nodeKind s q = some (kindOf n) := by
  cases n <;> simp [nodeKind, h, kindOf]

theorem mem_userNodesFrom {t : Tree} (hk : KeysOK t) {p q : Path} {d : Bool} :
    (q, d) ∈ userNodesFrom t p ↔
      ∃ n, get? t q = some n ∧ p <+: q ∧ q ≠ p ∧ isInternal (q.drop p.length) = false ∧ d = kindOf n := by
  simp only [userNodesFrom, List.mem_filterMap]
  constructor
  · rintro ⟨⟨q', n⟩, hm, hx⟩
    obtain ⟨hg, hpre, hne⟩ := (mem_descendants hk).mp hm
    simp only at hx
    split_ifs at hx with hint
    simp only [Option.some.injEq, Prod.mk.injEq] at hx
    obtain ⟨rfl, rfl⟩ := hx
    refine ⟨n, hg, hpre, hne, by simpa using hint, ?_⟩
    cases n <;> rfl
  · rintro ⟨n, hg, hpre, hne, hint, rfl⟩
    refine ⟨(q, n), (mem_descendants hk).mpr ⟨hg, hpre, hne⟩, ?_⟩
    simp only [hint, Bool.false_eq_true, if_false, Option.some.injEq, Prod.mk.injEq, true_and]
    cases n <;> rfl

theorem isInternal_drop {p q : Path} (hpre : p <+: q) (hq : isInternal q = false) :
    isInternal (q.drop p.length) = false := by
  obtain ⟨c, rfl⟩ := hpre
  rw [isInternal_append] at hq
  simp only [Bool.or_eq_false_iff] at hq
  simpa using hq.2

/-- a prefix without reserved names of an object or directory path lies at or above the host -/
theorem prefix_of_meta {p base : Path} {m : String} {rest : Path} (hp : isInternal p = false)
    (h : p <+: base ++ .metaDir m :: rest) : p <+: base := by
  rcases List.prefix_or_prefix_of_prefix h (List.prefix_append base _) with h1 | h1
  · exact h1
  · by_cases hpb : p = base
    · rw [hpb]
    · exfalso
      obtain ⟨c, rfl⟩ := h1
      cases c with
      | nil => simp at hpb
      | cons k c =>
        have : k = .metaDir m := by
          obtain ⟨d, hd⟩ := h
          simp only [List.append_assoc, List.cons_append] at hd
          have := List.append_cancel_left hd
          simp at this
          exact this.1
        subst this
        rw [isInternal_metaDir] at hp; cases hp

theorem prefix_snoc_iff' {dst q : Path} {k : Key} : dst <+: q ++ [k] ↔ (dst = q ++ [k] ∨ dst <+: q) := by
  constructor
  · rintro ⟨c, hc⟩
    cases c using List.reverseRecOn with
    | nil => left; simpa using hc
    | append_singleton c x _ =>
      right
      rw [← List.append_assoc] at hc
      exact ⟨c, (List.append_inj' hc rfl).1⟩
  · rintro (rfl | h)
    · exact List.prefix_refl _
    · exact h.trans (List.prefix_append _ _)

/-- `_destroy_meta()` of an existing user node: afterwards no metadata object is left in the
node's own directory nor anywhere below the node -/
theorem destroyMeta_spec {e : Env} {unlink : Bool} {I : St → Prop} {F : St → St → Prop}
    (D : DelSpec e unlink I F) {s : St} (hI : I s) {p : Path} {k : Bool}
    (hp : isInternal p = false) (hk : nodeKind s p = some k) :
    ∃ s', destroyMeta p k unlink s = (.ok (), s') ∧ I s' ∧ s'.next = s.next ∧ F s s' ∧
      (∀ q, isInternal q = false → get? s'.raw q = get? s.raw q) ∧
      (∀ pp r u, ObjAt s'.raw pp r u → ObjAt s.raw pp r u ∧ pp.dropLast ≠ metaBase p k ∧ ¬ p <+: pp) ∧
      (∀ pp r u, ObjAt s.raw pp r u → ¬ p <+: pp → pp.dropLast ≠ metaBase p k → ObjAt s'.raw pp r u) := by
  have hi := D.tree s hI
  obtain ⟨s1, hrun1, hi1, hnext1, hF1, huser1, hobj1⟩ := destroy_spec D hI (openHandle_HOK' hi hp hk)
  have hb : (openHandle s p k).baseDir = metaBase p k := rfl
  rw [hb] at hobj1
  cases k with
  | true =>
    refine ⟨s1, ?_, hi1, hnext1, hF1, huser1,
      fun pp r u ho => ⟨((hobj1 _ _ _).mp ho).1, ((hobj1 _ _ _).mp ho).2, ?_⟩,
      fun pp r u ho _ hd => (hobj1 _ _ _).mpr ⟨ho, hd⟩⟩
    · simp [destroyMeta, hrun1]
    · -- nothing lives below a dataset
      intro hpre
      obtain ⟨v, hv⟩ : ∃ v, get? s.raw p = some (.ds v) := by
        rcases nodeKind_some hk with ⟨h, -⟩ | ⟨-, v, hv⟩
        · cases h
        · exact ⟨v, hv⟩
      obtain ⟨⟨base, m, hbase, rfl, hg⟩, -⟩ := (hobj1 _ _ _).mp ho
      have hpb := prefix_of_meta hp hpre
      have hbg : get? s.raw base = some .grp :=
        prefix_grp hi.pclosed [.metaDir m, .obj r u] base hg (by simp)
      by_cases hpe : p = base
      · rw [hpe, hbg] at hv; cases hv
      · have := prefix_grp' hi.pclosed hpb hpe (by rw [hbg]; simp)
        rw [this] at hv; cases hv
  | false =>
    have hl : ∀ x ∈ userNodesFrom s.raw p, isInternal x.1 = false ∧ nodeKind s1 x.1 = some x.2 := by
      rintro ⟨q, d⟩ hx
      obtain ⟨n, hg, hpre, hne, hint, rfl⟩ := (mem_userNodesFrom hi.keys).mp hx
      have hq : isInternal q = false := by
        obtain ⟨c, rfl⟩ := hpre
        rw [isInternal_append, hp]
        simpa using hint
      exact ⟨hq, by rw [nodeKind_congr (huser1 _ hq)]; exact nodeKind_eq_kindOf hg⟩
    obtain ⟨s2, hrun2, hi2, hnext2, hF2, huser2, hobj2⟩ := destroyNodes_spec D
      (fun x => do let s ← getSt; (openHandle s x.1 x.2).destroy unlink) (fun _ _ => rfl) _ hi1 hl
    refine ⟨s2, ?_, hi2, hnext2.trans hnext1, D.trans _ _ _ hF1 hF2, fun q hq => (huser2 q hq).trans (huser1 q hq),
      fun pp r u ho => ?_, fun pp r u ho hnp hd => ?_⟩
    · simp only [destroyMeta, bind, M.bind, run_getSt, hrun1, Bool.not_false, if_true]
      exact hrun2
    · obtain ⟨ho1, hno2⟩ := (hobj2 _ _ _).mp ho
      obtain ⟨ho0, hno1⟩ := (hobj1 _ _ _).mp ho1
      refine ⟨ho0, hno1, fun hpre => ?_⟩
      obtain ⟨base, m, hbase, rfl, hg⟩ := ho0
      have hpb := prefix_of_meta hp hpre
      have hdl : (base ++ [Key.metaDir m, Key.obj r u]).dropLast = base ++ [.metaDir m] := by
        rw [show base ++ [Key.metaDir m, Key.obj r u] = (base ++ [Key.metaDir m]) ++ [Key.obj r u] by simp,
          List.dropLast_concat]
      rw [hdl] at hno1 hno2
      have hdir : get? s.raw (base ++ [.metaDir m]) ≠ none := by
        have := hi.pclosed (base ++ [.metaDir m]) (.obj r u) (by simpa using hg)
        rw [this]; simp
      have hbg : get? s.raw base = some .grp :=
        prefix_grp hi.pclosed [.metaDir m, .obj r u] base hg (by simp)
      rcases hi.host_ds base m hbase hdir (fun h => h) with rfl | ⟨v, hv⟩
      · -- the directory of the group `base`
        by_cases hpe : base = p
        · subst hpe; exact hno1 rfl
        · exact hno2 (base, false) ((mem_userNodesFrom hi.keys).mpr
            ⟨.grp, hbg, hpb, hpe, isInternal_drop hpb hbase, rfl⟩) rfl
      · -- the directory of the dataset `base ++ [user m]`
        have hq : isInternal (base ++ [.user m]) = false := user_internal_false' hi hbase hv
        have hpre' : p <+: base ++ [.user m] := hpb.trans (List.prefix_append _ _)
        have hne' : base ++ [Key.user m] ≠ p := by
          rintro rfl
          rcases nodeKind_some hk with ⟨-, h⟩ | ⟨h, -⟩
          · rw [hv] at h; cases h
          · cases h
        exact hno2 (base ++ [.user m], true) ((mem_userNodesFrom hi.keys).mpr
          ⟨.ds v, hv, hpre', hne', isInternal_drop hpre' hq, rfl⟩) (by rw [metaBase_ds])
    · -- objects elsewhere survive: every visited directory lies below `p`
      refine (hobj2 _ _ _).mpr ⟨(hobj1 _ _ _).mpr ⟨ho, hd⟩, ?_⟩
      rintro ⟨q, d⟩ hx heq
      obtain ⟨n, hg, hpre, hne, hint, rfl⟩ := (mem_userNodesFrom hi.keys).mp hx
      have hunder : p <+: metaBase q (kindOf n) := by
        cases n with
        | grp => exact hpre.trans (List.prefix_append _ _)
        | ds v =>
          have hq : isInternal q = false := by
            obtain ⟨c, rfl⟩ := hpre
            rw [isInternal_append, hp]; simpa using hint
          have hq0 : q ≠ [] := by rintro rfl; exact hne (List.prefix_nil.mp hpre).symm
          obtain ⟨b, m, rfl, hb⟩ := user_path_snoc hq0 hq
          simp only [kindOf]
          rw [metaBase_ds]
          rcases prefix_snoc_iff'.mp hpre with h | h
          · exact absurd h.symm hne
          · exact h.trans (List.prefix_append _ _)
      obtain ⟨base, m, hbase, rfl, hg'⟩ := ho
      apply hnp
      have hdl : (base ++ [Key.metaDir m, Key.obj r u]).dropLast = base ++ [.metaDir m] := by
        rw [show base ++ [Key.metaDir m, Key.obj r u] = (base ++ [Key.metaDir m]) ++ [Key.obj r u] by simp,
          List.dropLast_concat]
      rw [hdl] at heq
      rw [show base ++ [Key.metaDir m, Key.obj r u] = (base ++ [Key.metaDir m]) ++ [Key.obj r u] by simp, heq]
      exact hunder.trans (List.prefix_append _ _)

/-- removing a user node below which (and in whose own directory) no metadata is left -/
theorem rawDel_user_inv {e : Env} {s : St} (hi : Inv e s) {p : Path} {k : Bool} (hp : isInternal p = false)
    (hk : nodeKind s p = some k)
    (hno : ∀ pp r u, ObjAt s.raw pp r u → pp.dropLast ≠ metaBase p k ∧ ¬ p <+: pp)
    {t' : Tree} (h : rawDel s.raw p = .ok t') : Inv e ⟨t', s.c, s.next⟩ := by
  have hp0 : p ≠ [] := (rawDel_inv h).1
  -- no reserved name exists at or below `p`
  have hnone : ∀ q, isInternal q = true → p <+: q → get? s.raw q = none := by
    intro q hq hpre
    by_contra hc
    cases hg : get? s.raw q with
    | none => exact hc hg
    | some n =>
      have hq0 : q ≠ [] := by rintro rfl; simp [isInternal] at hq
      have hqt : q.head? ≠ some .toc := by
        obtain ⟨c, rfl⟩ := hpre
        cases p with
        | nil => exact absurd rfl hp0
        | cons x p => simpa using isInternal_head_ne_toc hp
      have := hi.mok.ushape q n hq0 hqt hg
      cases this with
      | user q n h' _ => rw [hq] at h'; cases h'
      | metaDir base m hb =>
        obtain ⟨-, r, u, h2⟩ := hi.mok.host base m hb (by rw [hg]; simp)
        exact (hno _ r u ⟨base, m, hb, rfl, h2⟩).2 (hpre.trans ⟨[.obj r u], by simp⟩)
      | obj base m r u tok hb =>
        exact (hno _ r u ⟨base, m, hb, rfl, by rw [hg]; simp⟩).2 hpre
  refine inv_of_user_change hi (rawDel_keys h hi.keys) (rawDel_pclosed h hi.pclosed) ?_ ?_ ?_
  · intro q hq
    have hq0 : q ≠ [] := by rintro rfl; simp [isInternal] at hq
    rw [rawDel_get? h q hq0]
    cases hu : under p q with
    | false => simp
    | true => simp [hnone q hq (under_iff.mp hu)]
  · intro q n hq0 hq hg
    rw [rawDel_get? h q hq0] at hg
    split_ifs at hg
    have := hi.mok.ushape q n hq0 (isInternal_head_ne_toc hq) hg
    cases this with
    | user q n _ h' => exact h'
    | metaDir base m _ => rw [isInternal_metaDir base m []] at hq; cases hq
    | obj base m r u tok _ => rw [isInternal_metaDir base m _] at hq; cases hq
  · intro base m v hb hdir hv
    refine ⟨v, ?_⟩
    rw [rawDel_get? h _ (by simp)]
    cases hu : under p (base ++ [.user m]) with
    | false => simpa using hv
    | true =>
      exfalso
      obtain ⟨-, r, u, h2⟩ := hi.mok.host base m hb hdir
      have ho : ObjAt s.raw (base ++ [.metaDir m, .obj r u]) r u := ⟨base, m, hb, rfl, h2⟩
      obtain ⟨hn1, hn2⟩ := hno _ r u ho
      have hpre := under_iff.mp hu
      by_cases hpe : p = base ++ [.user m]
      · -- `p` is the dataset that owns the directory
        subst hpe
        have hk' : k = true := by
          rcases nodeKind_some hk with ⟨-, h⟩ | ⟨h, -⟩
          · rw [hv] at h; cases h
          · exact h
        subst hk'
        apply hn1
        rw [metaBase_ds, show base ++ [Key.metaDir m, Key.obj r u] = (base ++ [Key.metaDir m]) ++ [Key.obj r u] by simp,
          List.dropLast_concat]
      · -- `p` lies above the host group
        have : p <+: base := by
          rcases List.prefix_or_prefix_of_prefix hpre (List.prefix_append base [.user m]) with h1 | h1
          · exact h1
          · obtain ⟨c, hc⟩ := hpre
            obtain ⟨d, hd⟩ := h1
            -- base ++ d = p, p ++ c = base ++ [user m]
            have : d ++ c = [Key.user m] := by
              have : base ++ (d ++ c) = base ++ [Key.user m] := by rw [← List.append_assoc, hd, hc]
              exact List.append_cancel_left this
            cases d with
            | nil => simp at hd; rw [← hd]
            | cons x d =>
              cases c with
              | nil => simp at hc; exact absurd hc hpe
              | cons y c => simp at this
        exact hn2 (this.trans (List.prefix_append _ _))

/-- `del group[name]`: success or failure -/
theorem opDelete_inv {e : Env} (he : WFEnv e) {s : St} (hi : Inv e s) (p : Path) : Inv e (opDelete p s).2 := by
  unfold opDelete guardPath
  cases hint : isInternal p with
  | true => simpa [hint] using hi
  | false =>
    simp only [Bool.false_eq_true, if_false, bind, M.bind, run_pure, run_getSt]
    cases hk : nodeKind s p with
    | none => simpa using hi
    | some k =>
      obtain ⟨s1, hrun1, hi1, -, -, huser1, hno1, -⟩ := destroyMeta_spec (delSpec_inv he) hi hint hk
      simp only [run_ofOpt_some, hrun1, run_liftRaw]
      cases h : rawDel s1.raw p with
      | error err => simpa using hi1
      | ok t' =>
        exact rawDel_user_inv hi1 hint (by rw [nodeKind_congr (huser1 _ hint)]; exact hk)
          (fun pp r u ho => (hno1 pp r u ho).2) h

/-- `del group[name]` does not touch the metadata of nodes that are neither the deleted node nor
below it: their objects stay, with their bytes -/
theorem opDelete_keeps {e : Env} (he : WFEnv e) {s : St} (hi : Inv e s) (p : Path) {k : Bool}
    (hk : nodeKind s p = some k) {pp : Path} {r : SRef} {u : Nat} {tok : String}
    (ho : ObjAt s.raw pp r u) (htok : get? s.raw pp = some (.ds (.data tok)))
    (hnp : ¬ p <+: pp) (hnd : pp.dropLast ≠ metaBase p k) :
    get? (opDelete p s).2.raw pp = some (.ds (.data tok)) := by
  unfold opDelete guardPath
  cases hint : isInternal p with
  | true => simpa [hint] using htok
  | false =>
    simp only [Bool.false_eq_true, if_false, bind, M.bind, run_pure, run_getSt, hk, run_ofOpt_some]
    obtain ⟨s1, hrun1, -, -, hmono, -, -, hsurv⟩ := destroyMeta_spec (delSpec_inv he) hi hint hk
    have ho1 := hsurv pp r u ho hnp hnd
    have htok1 : get? s1.raw pp = some (.ds (.data tok)) := by
      rcases hmono pp ho.head with h | h
      · obtain ⟨_, _, _, _, hg⟩ := ho1; exact absurd h hg
      · rw [h]; exact htok
    simp only [hrun1, run_liftRaw]
    cases h : rawDel s1.raw p with
    | error err => simpa using htok1
    | ok t' =>
      simp only
      have hpp0 : pp ≠ [] := by rintro rfl; simp [get?] at htok
      rw [rawDel_get? h pp hpp0, under_false_of_not_prefix hnp]
      simpa using htok1

/-- creating a node never changes an existing one -/
theorem rawCreate_keeps {t t' : Tree} {p : Path} {n : Node} (h : rawCreate t p n = .ok t') {q : Path} {x : Node}
    (hq : get? t q = some x) : get? t' q = some x := by
  by_cases hq0 : q = []
  · subst hq0; simpa using hq
  · rw [rawCreate_get? h q hq0]
    have : q ≠ p := by rintro rfl; rw [(rawCreate_inv h).2.1] at hq; cases hq
    rw [if_neg this, hq]

theorem opCreateGroup_keeps {s : St} (p : Path) {q : Path} {x : Node} (hq : get? s.raw q = some x) :
    get? (opCreateGroup p s).2.raw q = some x := by
  unfold opCreateGroup guardPath
  cases hint : isInternal p with
  | true => simpa [hint] using hq
  | false =>
    simp only [Bool.false_eq_true, if_false, bind, M.bind, run_pure, run_liftRaw]
    cases h : rawCreate s.raw p .grp with
    | error err => simpa using hq
    | ok t' => exact rawCreate_keeps h hq

theorem opCreateDataset_keeps {s : St} (p : Path) (tok : String) {q : Path} {x : Node}
    (hq : get? s.raw q = some x) : get? (opCreateDataset p tok s).2.raw q = some x := by
  unfold opCreateDataset guardPath
  cases hint : isInternal p with
  | true => simpa [hint] using hq
  | false =>
    simp only [Bool.false_eq_true, if_false, bind, M.bind, run_pure, run_liftRaw]
    cases h : rawCreate s.raw p (.ds (.data tok)) with
    | error err => simpa using hq
    | ok t' => exact rawCreate_keeps h hq

end MetadorModel.Container
