import MetadorModel.Proofs.ContainerTree
/-!
# TOC bookkeeping of the container model: specification of the `/metador_container` subtree and
of the in-memory caches as a function of the linked objects / used schemas, and its
preservation by `TOCSchemas._register/_unregister`, `TOCLinks.register/unregister/update`.
-/
namespace MetadorModel.Container

/-! ### running the state-and-exception monad -/
section Run
variable {α β : Type}
@[simp] theorem run_pure (a : α) (s : St) : (pure a : M α) s = (.ok a, s) := rfl
@[simp] theorem run_bind (m : M α) (f : α → M β) (s : St) :
    (m >>= f) s = match m s with
      | (.ok a, s') => f a s'
      | (.error e, s') => (.error e, s') := rfl
@[simp] theorem run_raise (e : Err) (s : St) : (raise e : M α) s = (.error e, s) := rfl
@[simp] theorem run_getSt (s : St) : getSt s = (.ok s, s) := rfl
@[simp] theorem run_modifySt (f : St → St) (s : St) : modifySt f s = (.ok (), f s) := rfl
@[simp] theorem run_modC (f : Caches → Caches) (s : St) : modC f s = (.ok (), { s with c := f s.c }) := rfl
theorem run_liftRaw (f : Tree → Except Err Tree) (s : St) :
    liftRaw f s = match f s.raw with
      | .ok t => (.ok (), { s with raw := t })
      | .error e => (.error e, s) := rfl
@[simp] theorem run_ofOpt_some (e : Err) (a : α) (s : St) : ofOpt e (some a) s = (.ok a, s) := rfl
@[simp] theorem run_ofOpt_none (e : Err) (s : St) : (ofOpt e (none : Option α)) s = (.error e, s) := rfl
end Run

/-! ### schema environment -/

/-- `schemas.parent_path(r)` of the environment (`[]` for a reference that is not installed) -/
def ppath (e : Env) (r : SRef) : List SRef :=
  match e.info r with
  | some i => i.parents
  | none => []

/-- requirements on the schema environment (checked on the real plugin system by the harness) -/
structure WFEnv (e : Env) : Prop where
  /-- parent paths end in the schema itself -/
  last : ∀ r i, e.info r = some i → i.parents.getLast? = some r
  /-- no schema occurs twice in a parent path -/
  nodup : ∀ r i, e.info r = some i → i.parents.Nodup
  /-- every non-empty prefix of a parent path is the parent path of its last element -/
  closed : ∀ r i a b, e.info r = some i → i.parents = a ++ b → a ≠ [] →
    ∃ p, a.getLast? = some p ∧ ppath e p = a
  /-- the providing package lists the schema -/
  prov : ∀ r i, e.info r = some i → r ∈ e.pkgPlugins i.pkg
  /-- a schema is listed by one package only -/
  disj : ∀ pk pk' r, r ∈ e.pkgPlugins pk → r ∈ e.pkgPlugins pk' → pk = pk'
  /-- … and only once -/
  plugins_nodup : ∀ pk, (e.pkgPlugins pk).Nodup

theorem info_ref {e : Env} {r : SRef} {i : SInfo} (h : e.info r = some i) : i.ref = r := by
  unfold Env.info at h
  have := List.find?_some h
  simpa using this

/-! ### the schema index `_parents` / `_children` -/

/-- the container-local schema index is exactly what the set `U` of used schemas determines -/
structure IndexOK (e : Env) (U : SRef → Prop) (par chi : List (SRef × List SRef)) : Prop where
  dom : ∀ P, (alGet chi P).isSome ↔ ∃ S, U S ∧ P ∈ ppath e S
  domp : ∀ P, (alGet par P).isSome ↔ (alGet chi P).isSome
  par_val : ∀ P l, alGet par P = some l → l = ppath e P
  chi_val : ∀ P cs, alGet chi P = some cs → cs.Nodup ∧ ∀ S, S ∈ cs ↔ (U S ∧ P ∈ ppath e S ∧ S ≠ P)

/-- loop invariant of `upcAdd`: `ref` already counts for the ancestors in `done` -/
structure IndexMid (e : Env) (U : SRef → Prop) (ref : SRef) (done : List SRef)
    (par chi : List (SRef × List SRef)) : Prop where
  dom : ∀ P, (alGet chi P).isSome ↔ ((∃ S, U S ∧ P ∈ ppath e S) ∨ P ∈ done)
  domp : ∀ P, (alGet par P).isSome ↔ (alGet chi P).isSome
  par_val : ∀ P l, alGet par P = some l → l = ppath e P
  chi_val : ∀ P cs, alGet chi P = some cs → cs.Nodup ∧
    ∀ S, S ∈ cs ↔ ((U S ∧ P ∈ ppath e S ∧ S ≠ P) ∨ (S = ref ∧ P ∈ done ∧ P ≠ ref))

theorem upcAdd_mid (e : Env) (he : WFEnv e) (U : SRef → Prop) (ref : SRef) (i : SInfo)
    (hi : e.info ref = some i) :
    ∀ (rest done : List SRef) (par chi : List (SRef × List SRef)),
      i.parents = done ++ rest → IndexMid e U ref done par chi →
      IndexMid e U ref i.parents (upcAdd ref par chi done rest).1 (upcAdd ref par chi done rest).2
  | [], done, par, chi, hl, hm => by
    simp only [List.append_nil] at hl
    simp only [upcAdd]
    rw [hl]; exact hm
  | p :: rest, done, par, chi, hl, hm => by
    simp only [upcAdd]
    apply upcAdd_mid e he U ref i hi rest (done ++ [p])
    · simp [hl]
    · -- one iteration of the loop
      have hpp : ppath e p = done ++ [p] := by
        obtain ⟨p', hp', hpp⟩ := he.closed ref i (done ++ [p]) rest hi (by simp [hl]) (by simp)
        simp at hp'; subst hp'; exact hpp
      have hpdone : p ∉ done := by
        have := he.nodup ref i hi
        rw [hl] at this
        intro hmem
        have := (List.nodup_append.mp this).2.2 p hmem p (by simp)
        exact this rfl
      set par1 := if (alGet par p).isNone then alSet par p (done ++ [p]) else par with hpar1
      set chi1 := if (alGet chi p).isNone then alSet chi p [] else chi with hchi1
      have hchi1_get : ∀ x, alGet chi1 x = if x = p then some ((alGet chi p).getD []) else alGet chi x := by
        intro x
        rw [hchi1]
        cases hc : alGet chi p with
        | none =>
          simp only [Option.isNone_none, if_true, alGet_alSet, Option.getD_none]
        | some cs =>
          simp only [Option.isNone_some, Bool.false_eq_true, if_false, Option.getD_some]
          by_cases hx : x = p
          · subst hx; simp [hc]
          · simp [hx]
      have hpar1_get : ∀ x, alGet par1 x = if x = p then some ((alGet par p).getD (done ++ [p])) else alGet par x := by
        intro x
        rw [hpar1]
        cases hc : alGet par p with
        | none => simp only [Option.isNone_none, if_true, alGet_alSet, Option.getD_none]
        | some cs =>
          simp only [Option.isNone_some, Bool.false_eq_true, if_false, Option.getD_some]
          by_cases hx : x = p
          · subst hx; simp [hc]
          · simp [hx]
      constructor
      · intro P
        by_cases hp : p ≠ ref
        · simp only [hp, ne_eq, not_false_eq_true, if_true, alGet_alSet, hchi1_get]
          by_cases hP : P = p
          · subst hP; simp
          · simp [hP, hm.dom P]
        · simp only [hp, if_false, hchi1_get]
          by_cases hP : P = p
          · subst hP; simp
          · simp [hP, hm.dom P]
      · intro P
        rw [hpar1_get]
        by_cases hp : p ≠ ref
        · simp only [hp, ne_eq, not_false_eq_true, if_true, alGet_alSet, hchi1_get]
          by_cases hP : P = p
          · subst hP; simp
          · simp [hP, hm.domp P]
        · simp only [hp, if_false, hchi1_get]
          by_cases hP : P = p
          · subst hP; simp
          · simp [hP, hm.domp P]
      · intro P l hl'
        rw [hpar1_get] at hl'
        by_cases hP : P = p
        · subst hP
          simp only [if_true, Option.some.injEq] at hl'
          cases hc : alGet par P with
          | none => rw [hc] at hl'; simp at hl'; rw [← hl', hpp]
          | some l0 => rw [hc] at hl'; simp at hl'; subst hl'; exact hm.par_val P l0 hc
        · simp only [hP, if_false] at hl'
          exact hm.par_val P l hl'
      · intro P cs hcs
        -- value of children[P] after the iteration
        have hold : ∀ cs0, alGet chi P = some cs0 → cs0.Nodup ∧
            ∀ S, S ∈ cs0 ↔ ((U S ∧ P ∈ ppath e S ∧ S ≠ P) ∨ (S = ref ∧ P ∈ done ∧ P ≠ ref)) := hm.chi_val P
        by_cases hp : p ≠ ref
        · simp only [hp, ne_eq, not_false_eq_true, if_true, alGet_alSet, hchi1_get] at hcs
          by_cases hP : P = p
          · subst hP
            simp only [if_true, Option.some.injEq] at hcs
            subst hcs
            cases hc : alGet chi P with
            | none =>
              have hnd : ¬ ((∃ S, U S ∧ P ∈ ppath e S) ∨ P ∈ done) := by
                rw [← hm.dom P, hc]; simp
              simp only [Option.getD_none, Option.getD_some]
              refine ⟨by simp [setAdd], fun S => ?_⟩
              simp only [mem_setAdd, List.not_mem_nil, false_or, List.mem_append, List.mem_singleton, or_true, true_and]
              constructor
              · rintro rfl; exact Or.inr ⟨rfl, hp⟩
              · rintro (⟨hU, hmem, -⟩ | ⟨rfl, -⟩)
                · exact absurd (Or.inl ⟨S, hU, hmem⟩) hnd
                · rfl
            | some cs0 =>
              obtain ⟨hnd, hmem⟩ := hold cs0 hc
              simp only [Option.getD_some]
              refine ⟨nodup_setAdd hnd _, fun S => ?_⟩
              simp only [mem_setAdd, hmem, List.mem_append, List.mem_singleton, or_true, true_and]
              constructor
              · rintro ((h | ⟨rfl, hd, -⟩) | rfl)
                · exact Or.inl h
                · exact absurd hd hpdone
                · exact Or.inr ⟨rfl, hp⟩
              · rintro (h | ⟨rfl, -⟩)
                · exact Or.inl (Or.inl h)
                · exact Or.inr rfl
          · simp only [hP, if_false] at hcs
            obtain ⟨hnd, hmem⟩ := hold cs hcs
            refine ⟨hnd, fun S => ?_⟩
            simp only [hmem, List.mem_append, List.mem_singleton, hP, or_false]
        · have hp' : p = ref := by simpa using hp
          simp only [hp, if_false, hchi1_get] at hcs
          by_cases hP : P = p
          · subst hP
            simp only [if_true, Option.some.injEq] at hcs
            subst hcs
            cases hc : alGet chi P with
            | none =>
              have hnd : ¬ ((∃ S, U S ∧ P ∈ ppath e S) ∨ P ∈ done) := by
                rw [← hm.dom P, hc]; simp
              simp only [Option.getD_none]
              refine ⟨List.nodup_nil, fun S => ?_⟩
              simp only [List.not_mem_nil, false_iff, not_or, not_and]
              refine ⟨fun hU hmem _ => hnd (Or.inl ⟨S, hU, hmem⟩), fun _ _ => fun h => h hp'⟩
            | some cs0 =>
              obtain ⟨hnd, hmem⟩ := hold cs0 hc
              simp only [Option.getD_some]
              refine ⟨hnd, fun S => ?_⟩
              simp only [hmem, List.mem_append, List.mem_singleton, or_true, true_and]
              constructor
              · rintro (h | ⟨rfl, hd, hne⟩)
                · exact Or.inl h
                · exact absurd hp' hne
              · rintro (h | ⟨rfl, hne⟩)
                · exact Or.inl h
                · exact absurd hp' hne
          · simp only [hP, if_false] at hcs
            obtain ⟨hnd, hmem⟩ := hold cs hcs
            refine ⟨hnd, fun S => ?_⟩
            simp only [hmem, List.mem_append, List.mem_singleton, hP, or_false]

theorem ppath_eq {e : Env} {r : SRef} {i : SInfo} (h : e.info r = some i) : ppath e r = i.parents := by
  simp [ppath, h]

theorem mem_ppath_self {e : Env} (he : WFEnv e) {r : SRef} {i : SInfo} (h : e.info r = some i) :
    r ∈ ppath e r := by
  rw [ppath_eq h]
  exact List.mem_of_getLast? (he.last r i h)

/-- `_update_parents_children(ref, parents)` turns the index for `U` into the index for `U ∪ {ref}` -/
theorem upcAdd_index {e : Env} (he : WFEnv e) {U : SRef → Prop} {ref : SRef} {i : SInfo}
    (hi : e.info ref = some i) {par chi : List (SRef × List SRef)} (h : IndexOK e U par chi) :
    IndexOK e (fun S => U S ∨ S = ref) (upcAdd ref par chi [] i.parents).1 (upcAdd ref par chi [] i.parents).2 := by
  have hm : IndexMid e U ref [] par chi :=
    ⟨fun P => by simpa using h.dom P, h.domp, h.par_val, fun P cs hcs => by
      obtain ⟨h1, h2⟩ := h.chi_val P cs hcs
      exact ⟨h1, fun S => by simpa using h2 S⟩⟩
  have := upcAdd_mid e he U ref i hi i.parents [] par chi (by simp) hm
  have hpp := ppath_eq hi
  have hself : ref ∈ i.parents := hpp ▸ mem_ppath_self he hi
  refine ⟨fun P => ?_, this.domp, this.par_val, fun P cs hcs => ?_⟩
  · rw [this.dom P]
    constructor
    · rintro (⟨S, hS, hx⟩ | hx)
      · exact ⟨S, Or.inl hS, hx⟩
      · exact ⟨ref, Or.inr rfl, hpp ▸ hx⟩
    · rintro ⟨S, hS | rfl, hx⟩
      · exact Or.inl ⟨S, hS, hx⟩
      · exact Or.inr (hpp ▸ hx)
  · obtain ⟨h1, h2⟩ := this.chi_val P cs hcs
    refine ⟨h1, fun S => ?_⟩
    rw [h2 S]
    constructor
    · rintro (⟨hS, hx, hne⟩ | ⟨rfl, hx, hne⟩)
      · exact ⟨Or.inl hS, hx, hne⟩
      · exact ⟨Or.inr rfl, hpp ▸ hx, fun h => hne h.symm⟩
    · rintro ⟨hS | rfl, hx, hne⟩
      · exact Or.inl ⟨hS, hx, hne⟩
      · by_cases hU : U S
        · exact Or.inl ⟨hU, hx, hne⟩
        · exact Or.inr ⟨rfl, hpp ▸ hx, fun h => hne h.symm⟩

/-! ### specification of the `/metador_container` subtree -/

/-- `o` is `some n` when `P` holds and `none` otherwise -/
def Holds (o : Option Node) (P : Prop) (n : Node) : Prop := (P → o = some n) ∧ (¬ P → o = none)

theorem Holds.congr {o o' : Option Node} {P P' : Prop} {n : Node} (h : Holds o P n) (ho : o' = o)
    (hp : P' ↔ P) : Holds o' P' n :=
  ⟨fun hp' => ho ▸ h.1 (hp.mp hp'), fun hp' => ho ▸ h.2 (fun x => hp' (hp.mpr x))⟩

theorem Holds.intro_some {o : Option Node} {P : Prop} {n : Node} (ho : o = some n) (hp : P) : Holds o P n :=
  ⟨fun _ => ho, fun h => absurd hp h⟩

inductive TocShape : Path → Prop
  | root : TocShape []
  | version : TocShape [.version]
  | uuid : TocShape [.uuid]
  | links : TocShape [.links]
  | linkDir (r) : TocShape [.links, .ep r]
  | link (r u) : TocShape [.links, .ep r, .link u]
  | schemas : TocShape [.schemas]
  | schemaDir (r) : TocShape [.schemas, .ep r]
  | json (r) : TocShape [.schemas, .ep r, .jsonschema]
  | compat (r) : TocShape [.schemas, .ep r, .compat]
  | packages : TocShape [.packages]
  | pkg (p) : TocShape [.packages, .pkg p]

/-- the package `pk` provides a registered schema -/
def RegP (e : Env) (U : SRef → Prop) (pk : PkgId) : Prop := ∃ r i, U r ∧ e.info r = some i ∧ i.pkg = pk

/-- The `/metador_container` subtree of `t` is exactly what the linked objects `L`
(`L p r u`: object at path `p`, schema `r`, uuid `u`) and the registered schemas `U` demand. -/
structure TocRaw (e : Env) (L : Path → SRef → Nat → Prop) (U : SRef → Prop) (t : Tree) : Prop where
  root : get? t tocP = some .grp
  ver : get? t versionP = some (.ds (.text "1.0"))
  uid : get? t uuidP = some (.ds (.text "uuid"))
  links : Holds (get? t linksP) (∃ p r u, L p r u) .grp
  ldir : ∀ r, Holds (get? t (linkDir r)) (∃ p u, L p r u) .grp
  link_some : ∀ p r u, L p r u → get? t (linkPath r u) = some (.ds (.target p))
  link_none : ∀ r u, (¬ ∃ p, L p r u) → get? t (linkPath r u) = none
  schemas : Holds (get? t schemasP) (∃ r, U r) .grp
  sdir : ∀ r, Holds (get? t (schemaDir r)) (U r) .grp
  json : ∀ r, Holds (get? t (schemaDir r ++ [.jsonschema])) (U r) (.ds (.jsonschema r))
  compat : ∀ r, Holds (get? t (schemaDir r ++ [.compat])) (U r) (.ds (.compat (ppath e r)))
  packages : Holds (get? t packagesP) (∃ r, U r) .grp
  pkg : ∀ pk, Holds (get? t (pkgPath pk)) (RegP e U pk) (.ds (.pkginfo pk (e.pkgPlugins pk)))
  shape : ∀ rest, get? t (.toc :: rest) ≠ none → TocShape rest

/-- The caches of `TOCSchemas` / `TOCPackages` are what the registered schemas `U` demand. -/
structure SchemaCache (e : Env) (U : SRef → Prop) (c : Caches) : Prop where
  schemas : ∀ r, r ∈ c.schemas ↔ U r
  schemas_nodup : c.schemas.Nodup
  index : IndexOK e U c.parents c.children
  pkginfos : ∀ pk pl, alGet c.pkginfos pk = some pl ↔ (RegP e U pk ∧ pl = e.pkgPlugins pk)
  providers : ∀ r ps, alGet c.providers r = some ps ↔ ∃ pk, ps = [pk] ∧ RegP e U pk ∧ r ∈ e.pkgPlugins pk
  /-- (`_used` keeps a stale empty entry for a package that was unregistered) -/
  used_dom : ∀ pk, RegP e U pk → (alGet c.used pk).isSome
  used_val : ∀ pk rs, alGet c.used pk = some rs → rs.Nodup ∧
    ∀ r, r ∈ rs ↔ (U r ∧ ∃ i, e.info r = some i ∧ i.pkg = pk)

/-- The cache of `TOCLinks` is what the linked objects demand. -/
def LinkCache (L : Path → SRef → Nat → Prop) (c : Caches) : Prop :=
  ∀ u tp, alGet c.tocPath u = some tp ↔ ∃ p r, L p r u ∧ tp = linkPath r u

/-- uuids identify linked objects -/
def LUniq (L : Path → SRef → Nat → Prop) : Prop :=
  ∀ p p' r r' u, L p r u → L p' r' u → p = p' ∧ r = r'

/-- loop of `_add_providers` for a package `pk` that no registered package shares schemas with -/
theorem addProviders_spec {e : Env} (he : WFEnv e) (Q : PkgId → Prop) (pk : PkgId) :
    ∀ (l done : List SRef) (prov : List (SRef × List PkgId)),
      (∀ r ∈ l, r ∈ e.pkgPlugins pk) →
      (∀ r ps, alGet prov r = some ps ↔
        ((∃ pk', ps = [pk'] ∧ Q pk' ∧ pk' ≠ pk ∧ r ∈ e.pkgPlugins pk') ∨ (ps = [pk] ∧ r ∈ done))) →
      ∀ r ps, alGet (addProviders prov pk l) r = some ps ↔
        ((∃ pk', ps = [pk'] ∧ Q pk' ∧ pk' ≠ pk ∧ r ∈ e.pkgPlugins pk') ∨ (ps = [pk] ∧ r ∈ done ++ l))
  | [], done, prov, _, h => by simpa [addProviders] using h
  | x :: l, done, prov, hl, h => by
    simp only [addProviders]
    have hx : x ∈ e.pkgPlugins pk := hl x (by simp)
    have := addProviders_spec he Q pk l (done ++ [x])
      (alSet prov x (setAdd ((alGet prov x).getD []) pk)) (fun r hr => hl r (by simp [hr])) (by
        intro r ps
        rw [alGet_alSet]
        by_cases hr : r = x
        · subst hr
          simp only [if_true, Option.some.injEq, List.mem_append, List.mem_singleton, or_true, and_true]
          have hval : setAdd ((alGet prov r).getD []) pk = [pk] := by
            cases hg : alGet prov r with
            | none => simp [setAdd]
            | some ps0 =>
              rcases (h r ps0).mp hg with ⟨pk', -, -, hne, hmem⟩ | ⟨rfl, -⟩
              · exact absurd (he.disj _ _ _ hmem hx) hne
              · simp [setAdd]
          rw [hval]
          constructor
          · intro h'; exact Or.inr h'.symm
          · rintro (⟨pk', -, -, hne, hmem⟩ | h')
            · exact absurd (he.disj _ _ _ hmem hx) hne
            · exact h'.symm
        · simp only [hr, if_false, h r ps, List.mem_append, List.mem_singleton, or_false])
    intro r ps
    rw [this r ps]
    simp [List.append_assoc]

theorem isMid_head {p q : Path} (h : isMid [] p q = true) : q.head? = p.head? := by
  obtain ⟨hq, ⟨b, rfl⟩, -⟩ := isMid_nil_iff.mp h
  cases q with
  | nil => exact absurd rfl hq
  | cons x q => rfl

/-- creating a node below `/metador_container` leaves everything else alone -/
theorem rawCreate_frame {t t' : Tree} {p : Path} {n : Node} (h : rawCreate t p n = .ok t')
    (q : Path) (hq : q.head? ≠ p.head?) : get? t' q = get? t q := by
  by_cases hq0 : q = []
  · subst hq0; simp
  · rw [rawCreate_get? h q hq0]
    have : q ≠ p := by rintro rfl; exact hq rfl
    rw [if_neg this]
    cases hg : get? t q with
    | some x => rfl
    | none =>
      have : isMid [] p q = false := by
        cases hm : isMid [] p q
        · rfl
        · exact absurd (isMid_head hm) hq
      simp [this]

theorem rawDel_frame {t t' : Tree} {p : Path} (h : rawDel t p = .ok t')
    (q : Path) (hq : q.head? ≠ p.head?) : get? t' q = get? t q := by
  by_cases hq0 : q = []
  · subst hq0; simp
  · rw [rawDel_get? h q hq0]
    have : under p q = false := by
      cases hu : under p q
      · rfl
      · exfalso
        obtain ⟨hp, -, -⟩ := rawDel_inv h
        obtain ⟨b, rfl⟩ := under_iff.mp hu
        cases p with
        | nil => exact hp rfl
        | cons x p => exact hq rfl
    simp [this]

theorem TocRaw.congr {e : Env} {L L' : Path → SRef → Nat → Prop} {U U' : SRef → Prop} {t : Tree}
    (h : TocRaw e L U t) (hL : ∀ p r u, L' p r u ↔ L p r u) (hU : ∀ r, U' r ↔ U r) : TocRaw e L' U' t := by
  have e1 : L' = L := by funext p r u; exact propext (hL p r u)
  have e2 : U' = U := by funext r; exact propext (hU r)
  rw [e1, e2]; exact h

theorem SchemaCache.congr {e : Env} {U U' : SRef → Prop} {c : Caches}
    (h : SchemaCache e U c) (hU : ∀ r, U' r ↔ U r) : SchemaCache e U' c := by
  have e2 : U' = U := by funext r; exact propext (hU r)
  rw [e2]; exact h

theorem Holds.not_ds {o : Option Node} {P : Prop} (h : Holds o P .grp) (v : Val) : o ≠ some (.ds v) := by
  by_cases hp : P
  · rw [h.1 hp]; exact fun h => by cases h
  · rw [h.2 hp]; exact fun h => by cases h

@[simp] theorem forEachM_nil {α} (f : α → M Unit) : forEachM [] f = pure () := rfl
@[simp] theorem forEachM_cons {α} (a : α) (l : List α) (f : α → M Unit) :
    forEachM (a :: l) f = (do f a; forEachM l f) := rfl

/-- caches after `TOCSchemas._register(ref)` when the providing package is already registered -/
def regCachesOld (c : Caches) (ref : SRef) (i : SInfo) (cur : List SRef) : Caches :=
  { c with schemas := setAdd c.schemas ref,
           parents := (upcAdd ref c.parents c.children [] i.parents).1,
           children := (upcAdd ref c.parents c.children [] i.parents).2,
           used := alSet c.used i.pkg (setAdd cur ref) }

theorem schemaRegister_old (e : Env) (ref : SRef) (s : St) (i : SInfo) (t1 t2 : Tree) (cur : List SRef)
    (hnew : ref ∉ s.c.schemas) (hi : e.info ref = some i)
    (h1 : rawCreate s.raw (schemaDir ref ++ [.jsonschema]) (.ds (.jsonschema ref)) = .ok t1)
    (h2 : rawCreate t1 (schemaDir ref ++ [.compat]) (.ds (.compat i.parents)) = .ok t2)
    (hp : alGet s.c.providers ref = some [i.pkg])
    (hu : alGet s.c.used i.pkg = some cur) :
    schemaRegister e ref s = (.ok (), ⟨t2, regCachesOld s.c ref i cur, s.next⟩) := by
  simp [schemaRegister, hnew, hi, run_liftRaw, h1, h2, hp, hu, regCachesOld]

/-- caches after `TOCSchemas._register(ref)` when the providing package gets registered too -/
def regCachesNew (e : Env) (c : Caches) (ref : SRef) (i : SInfo) : Caches :=
  { c with schemas := setAdd c.schemas ref,
           parents := (upcAdd ref c.parents c.children [] i.parents).1,
           children := (upcAdd ref c.parents c.children [] i.parents).2,
           pkginfos := alSet c.pkginfos i.pkg (e.pkgPlugins i.pkg),
           providers := addProviders c.providers i.pkg (e.pkgPlugins i.pkg),
           used := alSet (alSet c.used i.pkg []) i.pkg (setAdd [] ref) }

theorem schemaRegister_new (e : Env) (ref : SRef) (s : St) (i : SInfo) (t1 t2 t3 : Tree)
    (hnew : ref ∉ s.c.schemas) (hi : e.info ref = some i)
    (h1 : rawCreate s.raw (schemaDir ref ++ [.jsonschema]) (.ds (.jsonschema ref)) = .ok t1)
    (h2 : rawCreate t1 (schemaDir ref ++ [.compat]) (.ds (.compat i.parents)) = .ok t2)
    (hp : alGet s.c.providers ref = none)
    (h3 : rawCreate t2 (pkgPath i.pkg) (.ds (.pkginfo i.pkg (e.pkgPlugins i.pkg))) = .ok t3)
    (hp' : alGet (addProviders s.c.providers i.pkg (e.pkgPlugins i.pkg)) ref = some [i.pkg]) :
    schemaRegister e ref s = (.ok (), ⟨t3, regCachesNew e s.c ref i, s.next⟩) := by
  simp [schemaRegister, hnew, hi, run_liftRaw, h1, h2, hp, h3, hp', pkgRegister, regCachesNew, alGet_alSet]

theorem RegP_add {e : Env} {U : SRef → Prop} {ref : SRef} {i : SInfo} (hi : e.info ref = some i) (pk : PkgId) :
    RegP e (fun r => U r ∨ r = ref) pk ↔ (RegP e U pk ∨ pk = i.pkg) := by
  constructor
  · rintro ⟨r, j, hU | rfl, hj, rfl⟩
    · exact Or.inl ⟨r, j, hU, hj, rfl⟩
    · rw [hi] at hj; cases hj; exact Or.inr rfl
  · rintro (⟨r, j, hU, hj, rfl⟩ | rfl)
    · exact ⟨r, j, Or.inl hU, hj, rfl⟩
    · exact ⟨ref, i, Or.inr rfl, hi, rfl⟩

/-- the two datasets written by `TOCSchemas._register` for a schema that was not in use -/
theorem tocRaw_addSchema {e : Env} {L : Path → SRef → Nat → Prop} {U : SRef → Prop} {t t1 t2 : Tree}
    {ref : SRef} {i : SInfo} (hi : e.info ref = some i) (hr : TocRaw e L U t) (hnew : ¬ U ref)
    (h1 : rawCreate t (schemaDir ref ++ [.jsonschema]) (.ds (.jsonschema ref)) = .ok t1)
    (h2 : rawCreate t1 (schemaDir ref ++ [.compat]) (.ds (.compat i.parents)) = .ok t2) :
    (∀ q, q ≠ [] → get? t2 q =
      if q = schemaDir ref ++ [.compat] then some (.ds (.compat i.parents))
      else if q = schemaDir ref ++ [.jsonschema] then some (.ds (.jsonschema ref))
      else match get? t q with
        | some x => some x
        | none => if q = schemasP ∨ q = schemaDir ref then some .grp else none) := by
  intro q hq
  rw [rawCreate_get? h2 q hq, rawCreate_get? h1 q hq]
  have hroot := hr.root
  by_cases hc : q = schemaDir ref ++ [.compat]
  · simp [hc]
  · by_cases hj : q = schemaDir ref ++ [.jsonschema]
    · simp [hj, schemaDir]
    · simp only [hc, hj, if_false]
      cases hg : get? t q with
      | some x => rfl
      | none =>
        have hq1 : q ≠ tocP := by rintro rfl; rw [hroot] at hg; cases hg
        simp only [schemaDir, List.cons_append, List.nil_append, isMid, List.nil_append, Bool.or_false,
          Bool.or_eq_true, beq_iff_eq, schemasP, tocP] at hq1 ⊢
        by_cases ha : q = [.toc, .schemas]
        · simp [ha]
        · by_cases hb : q = [.toc, .schemas, .ep ref]
          · simp [hb]
          · simp [hq1, ha, hb]

theorem match_id (o : Option Node) : (match o with | some x => some x | none => none) = o := by
  cases o <;> rfl

/-- lookups after `TOCSchemas._register` of a new schema; `b`: the package record was written too -/
def RegGet (e : Env) (t t' : Tree) (ref : SRef) (i : SInfo) (b : Bool) : Prop :=
  ∀ q, q ≠ [] → get? t' q =
    if b = true ∧ q = pkgPath i.pkg then some (.ds (.pkginfo i.pkg (e.pkgPlugins i.pkg)))
    else if q = schemaDir ref ++ [.compat] then some (.ds (.compat i.parents))
    else if q = schemaDir ref ++ [.jsonschema] then some (.ds (.jsonschema ref))
    else match get? t q with
      | some x => some x
      | none => if q = schemasP ∨ q = schemaDir ref ∨ (b = true ∧ q = packagesP) then some .grp else none

theorem tocRaw_register {e : Env} {L : Path → SRef → Nat → Prop} {U : SRef → Prop} {t t' : Tree}
    {ref : SRef} {i : SInfo} {b : Bool} (hi : e.info ref = some i) (hr : TocRaw e L U t) (hnew : ¬ U ref)
    (hb : b = true ↔ ¬ RegP e U i.pkg) (hg : RegGet e t t' ref i b) :
    TocRaw e L (fun r => U r ∨ r = ref) t' := by
  have hU' : ∃ r, U r ∨ r = ref := ⟨ref, Or.inr rfl⟩
  have hpp : ppath e ref = i.parents := ppath_eq hi
  constructor
  · rw [hg _ (by simp [tocP])]; simp [tocP, pkgPath, schemaDir, hr.root, schemasP, packagesP]
    have := hr.root; simp only [tocP] at this; simp [this]
  · rw [hg _ (by simp [versionP])]
    have := hr.ver; simp only [versionP] at this
    simp [versionP, pkgPath, schemaDir, this]
  · rw [hg _ (by simp [uuidP])]
    have := hr.uid; simp only [uuidP] at this
    simp [uuidP, pkgPath, schemaDir, this]
  · refine hr.links.congr ?_ Iff.rfl
    rw [hg _ (by simp [linksP])]
    simp only [linksP, pkgPath, schemaDir, schemasP, packagesP]
    cases get? t [.toc, .links] <;> simp
  · intro r
    refine (hr.ldir r).congr ?_ Iff.rfl
    rw [hg _ (by simp [linkDir])]
    simp only [linkDir, pkgPath, schemaDir, schemasP, packagesP]
    cases get? t [.toc, .links, .ep r] <;> simp
  · intro p r u hL
    rw [hg _ (by simp [linkPath])]
    have := hr.link_some p r u hL
    simp only [linkPath] at this
    simp [linkPath, pkgPath, schemaDir, this]
  · intro r u hL
    rw [hg _ (by simp [linkPath])]
    have := hr.link_none r u hL
    simp only [linkPath] at this
    simp [linkPath, pkgPath, schemaDir, this, schemasP, packagesP]
  · refine Holds.intro_some ?_ hU'
    rw [hg _ (by simp [schemasP])]
    simp only [schemasP, pkgPath, schemaDir]
    rcases h : get? t [.toc, .schemas] with _ | x
    · simp
    · have := hr.schemas.not_ds
      simp only [schemasP, h] at this
      cases x with
      | grp => simp
      | ds v => exact absurd rfl (this v)
  · intro r
    by_cases hrr : r = ref
    · subst hrr
      refine Holds.intro_some ?_ (Or.inr rfl)
      rw [hg _ (by simp [schemaDir])]
      have := (hr.sdir r).2 hnew
      simp only [schemaDir] at this
      simp [schemaDir, pkgPath, this]
    · refine (hr.sdir r).congr ?_ (by simp [hrr])
      rw [hg _ (by simp [schemaDir])]
      simp only [schemaDir, pkgPath, schemasP, packagesP]
      cases get? t [.toc, .schemas, .ep r] <;> simp [hrr]
  · intro r
    by_cases hrr : r = ref
    · subst hrr
      refine Holds.intro_some ?_ (Or.inr rfl)
      rw [hg _ (by simp [schemaDir])]
      simp [schemaDir, pkgPath]
    · refine (hr.json r).congr ?_ (by simp [hrr])
      rw [hg _ (by simp [schemaDir])]
      simp only [schemaDir, pkgPath, schemasP, packagesP]
      simp [hrr, match_id]
  · intro r
    by_cases hrr : r = ref
    · subst hrr
      refine Holds.intro_some ?_ (Or.inr rfl)
      rw [hg _ (by simp [schemaDir])]
      simp [schemaDir, pkgPath, hpp]
    · refine (hr.compat r).congr ?_ (by simp [hrr])
      rw [hg _ (by simp [schemaDir])]
      simp only [schemaDir, pkgPath, schemasP, packagesP]
      simp [hrr, match_id]
  · refine Holds.intro_some ?_ hU'
    rw [hg _ (by simp [packagesP])]
    simp only [packagesP, pkgPath, schemaDir, schemasP]
    by_cases hreg : RegP e U i.pkg
    · obtain ⟨r, _, hUr, _, _⟩ := hreg
      have := hr.packages.1 ⟨r, hUr⟩
      simp only [packagesP] at this
      simp [this]
    · have hbt : b = true := hb.mpr hreg
      rcases h : get? t [.toc, .packages] with _ | x
      · simp [hbt]
      · have := hr.packages.not_ds
        simp only [packagesP, h] at this
        cases x with
        | grp => simp
        | ds v => exact absurd rfl (this v)
  · intro pk
    by_cases hpk : pk = i.pkg
    · subst hpk
      refine Holds.intro_some ?_ ((RegP_add hi _).mpr (Or.inr rfl))
      rw [hg _ (by simp [pkgPath])]
      by_cases hreg : RegP e U i.pkg
      · have := (hr.pkg i.pkg).1 hreg
        simp only [pkgPath] at this
        have hbf : b = false := by
          cases hbb : b
          · rfl
          · exact absurd hreg (hb.mp hbb)
        simp [pkgPath, schemaDir, this, hbf]
      · simp [hb.mpr hreg]
    · refine (hr.pkg pk).congr ?_ (by rw [RegP_add hi]; simp [hpk])
      rw [hg _ (by simp [pkgPath])]
      simp only [pkgPath, schemaDir, schemasP, packagesP]
      have hpk' : ¬ i.pkg = pk := fun h => hpk h.symm
      cases get? t [.toc, .packages, .pkg pk] <;> simp [hpk, hpk']
  · intro rest hne
    rw [hg _ (by simp)] at hne
    by_cases h1 : b = true ∧ Key.toc :: rest = pkgPath i.pkg
    · simp only [pkgPath, List.cons.injEq, true_and] at h1
      rw [h1.2]; exact .pkg _
    · by_cases h2 : Key.toc :: rest = schemaDir ref ++ [.compat]
      · simp only [schemaDir, List.cons_append, List.nil_append, List.cons.injEq, true_and] at h2
        rw [h2]; exact .compat _
      · by_cases h3 : Key.toc :: rest = schemaDir ref ++ [.jsonschema]
        · simp only [schemaDir, List.cons_append, List.nil_append, List.cons.injEq, true_and] at h3
          rw [h3]; exact .json _
        · simp only [h1, h2, h3, if_false] at hne
          cases hq : get? t (Key.toc :: rest) with
          | some x => exact hr.shape rest (by rw [hq]; simp)
          | none =>
            rw [hq] at hne
            simp only at hne
            split_ifs at hne with h4
            · simp only [schemasP, schemaDir, packagesP, List.cons.injEq, true_and] at h4
              rcases h4 with h4 | h4 | ⟨-, h4⟩ <;> rw [h4]
              · exact .schemas
              · exact .schemaDir _
              · exact .packages
            · exact absurd rfl hne

theorem alGet_some_of_isSome {α β : Type} [DecidableEq α] {l : List (α × β)} {a : α}
    (h : (alGet l a).isSome) : ∃ b, alGet l a = some b := by
  cases hg : alGet l a with
  | none => simp [hg] at h
  | some b => exact ⟨b, rfl⟩

theorem schemaCache_regOld {e : Env} (he : WFEnv e) {U : SRef → Prop} {c : Caches} {ref : SRef} {i : SInfo}
    {cur : List SRef} (hi : e.info ref = some i) (hs : SchemaCache e U c) (hreg : RegP e U i.pkg)
    (hu : alGet c.used i.pkg = some cur) :
    SchemaCache e (fun r => U r ∨ r = ref) (regCachesOld c ref i cur) := by
  have hregiff : ∀ pk, RegP e (fun r => U r ∨ r = ref) pk ↔ RegP e U pk := by
    intro pk
    rw [RegP_add hi]
    constructor
    · rintro (h | rfl)
      · exact h
      · exact hreg
    · exact Or.inl
  constructor
  · intro r; simp [regCachesOld, mem_setAdd, hs.schemas r]
  · exact nodup_setAdd hs.schemas_nodup _
  · exact upcAdd_index he hi hs.index
  · intro pk pl; simp only [regCachesOld, hregiff]; exact hs.pkginfos pk pl
  · intro r ps; simp only [regCachesOld, hregiff]; exact hs.providers r ps
  · intro pk hpk'
    simp only [regCachesOld, alGet_alSet]
    by_cases hpk : pk = i.pkg
    · subst hpk; simp
    · simp only [hpk, if_false]; exact hs.used_dom pk ((hregiff pk).mp hpk')
  · intro pk rs hrs
    simp only [regCachesOld, alGet_alSet] at hrs
    by_cases hpk : pk = i.pkg
    · subst hpk
      simp only [if_true, Option.some.injEq] at hrs
      subst hrs
      obtain ⟨hnd, hmem⟩ := hs.used_val _ _ hu
      refine ⟨nodup_setAdd hnd _, fun r => ?_⟩
      rw [mem_setAdd, hmem r]
      constructor
      · rintro (⟨hU, hex⟩ | rfl)
        · exact ⟨Or.inl hU, hex⟩
        · exact ⟨Or.inr rfl, i, hi, rfl⟩
      · rintro ⟨hU | rfl, hex⟩
        · exact Or.inl ⟨hU, hex⟩
        · exact Or.inr rfl
    · simp only [hpk, if_false] at hrs
      obtain ⟨hnd, hmem⟩ := hs.used_val _ _ hrs
      refine ⟨hnd, fun r => ?_⟩
      rw [hmem r]
      constructor
      · rintro ⟨hU, hex⟩; exact ⟨Or.inl hU, hex⟩
      · rintro ⟨hU | rfl, j, hj, hjp⟩
        · exact ⟨hU, j, hj, hjp⟩
        · rw [hi] at hj; cases hj; exact absurd hjp.symm hpk

theorem schemaCache_regNew {e : Env} (he : WFEnv e) {U : SRef → Prop} {c : Caches} {ref : SRef} {i : SInfo}
    (hi : e.info ref = some i) (hs : SchemaCache e U c) (hreg : ¬ RegP e U i.pkg) :
    SchemaCache e (fun r => U r ∨ r = ref) (regCachesNew e c ref i) := by
  have hprov : ∀ r ps, alGet (addProviders c.providers i.pkg (e.pkgPlugins i.pkg)) r = some ps ↔
      ∃ pk, ps = [pk] ∧ RegP e (fun r => U r ∨ r = ref) pk ∧ r ∈ e.pkgPlugins pk := by
    intro r ps
    have := addProviders_spec he (RegP e U) i.pkg (e.pkgPlugins i.pkg) [] c.providers (fun _ h => h) (by
      intro r ps
      rw [hs.providers r ps]
      constructor
      · rintro ⟨pk, rfl, hpk, hmem⟩
        exact Or.inl ⟨pk, rfl, hpk, fun h => hreg (h ▸ hpk), hmem⟩
      · rintro (⟨pk, rfl, hpk, -, hmem⟩ | ⟨-, hmem⟩)
        · exact ⟨pk, rfl, hpk, hmem⟩
        · simp at hmem) r ps
    rw [this]
    simp only [List.nil_append]
    constructor
    · rintro (⟨pk, rfl, hpk, -, hmem⟩ | ⟨rfl, hmem⟩)
      · exact ⟨pk, rfl, (RegP_add hi pk).mpr (Or.inl hpk), hmem⟩
      · exact ⟨i.pkg, rfl, (RegP_add hi _).mpr (Or.inr rfl), hmem⟩
    · rintro ⟨pk, rfl, hpk, hmem⟩
      rcases (RegP_add hi pk).mp hpk with h | rfl
      · exact Or.inl ⟨pk, rfl, h, fun h' => hreg (h' ▸ h), hmem⟩
      · exact Or.inr ⟨rfl, hmem⟩
  constructor
  · intro r; simp [regCachesNew, mem_setAdd, hs.schemas r]
  · exact nodup_setAdd hs.schemas_nodup _
  · exact upcAdd_index he hi hs.index
  · intro pk pl
    simp only [regCachesNew, alGet_alSet, RegP_add hi]
    by_cases hpk : pk = i.pkg
    · subst hpk
      simp only [if_true, Option.some.injEq, or_true, true_and]
      exact eq_comm
    · simp only [hpk, if_false, or_false]; exact hs.pkginfos pk pl
  · exact hprov
  · intro pk hpk'
    simp only [regCachesNew, alGet_alSet]
    by_cases hpk : pk = i.pkg
    · subst hpk; simp
    · simp only [hpk, if_false]
      rcases (RegP_add hi pk).mp hpk' with h | h
      · exact hs.used_dom pk h
      · exact absurd h hpk
  · intro pk rs hrs
    simp only [regCachesNew, alGet_alSet] at hrs
    by_cases hpk : pk = i.pkg
    · subst hpk
      simp only [if_true, Option.some.injEq] at hrs
      subst hrs
      refine ⟨by simp [setAdd], fun r => ?_⟩
      simp only [setAdd, List.not_mem_nil, if_false, List.nil_append, List.mem_singleton]
      constructor
      · rintro rfl; exact ⟨Or.inr rfl, i, hi, rfl⟩
      · rintro ⟨hU | rfl, j, hj, hjp⟩
        · exact absurd ⟨r, j, hU, hj, hjp⟩ hreg
        · rfl
    · simp only [hpk, if_false] at hrs
      obtain ⟨hnd, hmem⟩ := hs.used_val _ _ hrs
      refine ⟨hnd, fun r => ?_⟩
      rw [hmem r]
      constructor
      · rintro ⟨hU, hex⟩; exact ⟨Or.inl hU, hex⟩
      · rintro ⟨hU | rfl, j, hj, hjp⟩
        · exact ⟨hU, j, hj, hjp⟩
        · rw [hi] at hj; cases hj; exact absurd hjp.symm hpk

/-- what an operation on the TOC part guarantees for the rest of the state -/
structure TocStep (s s' : St) : Prop where
  keys : KeysOK s.raw → KeysOK s'.raw
  pclosed : PClosed s.raw → PClosed s'.raw
  frame : ∀ q, q.head? ≠ some .toc → get? s'.raw q = get? s.raw q
  next : s'.next = s.next

theorem TocStep.refl (s : St) : TocStep s s := ⟨id, id, fun _ _ => rfl, rfl⟩

theorem TocStep.trans {s1 s2 s3 : St} (h1 : TocStep s1 s2) (h2 : TocStep s2 s3) : TocStep s1 s3 :=
  ⟨fun h => h2.keys (h1.keys h), fun h => h2.pclosed (h1.pclosed h),
   fun q hq => (h2.frame q hq).trans (h1.frame q hq), h2.next.trans h1.next⟩

theorem TocStep.of_create {s : St} {p : Path} {n : Node} {t' : Tree} (h : rawCreate s.raw p n = .ok t')
    (hp : p.head? = some .toc) (c' : Caches) : TocStep s ⟨t', c', s.next⟩ :=
  ⟨rawCreate_keys h, rawCreate_pclosed h, fun q hq => rawCreate_frame h q (by rw [hp]; exact hq), rfl⟩

theorem TocStep.of_del {s : St} {p : Path} {t' : Tree} (h : rawDel s.raw p = .ok t')
    (hp : p.head? = some .toc) (c' : Caches) : TocStep s ⟨t', c', s.next⟩ :=
  ⟨rawDel_keys h, rawDel_pclosed h, fun q hq => rawDel_frame h q (by rw [hp]; exact hq), rfl⟩

/-- `TOCSchemas._register(ref)` -/
theorem schemaRegister_spec {e : Env} (he : WFEnv e) {L : Path → SRef → Nat → Prop} {U : SRef → Prop}
    {s : St} {ref : SRef} {i : SInfo} (hi : e.info ref = some i)
    (hr : TocRaw e L U s.raw) (hs : SchemaCache e U s.c) :
    ∃ s', schemaRegister e ref s = (.ok (), s') ∧
      TocRaw e L (fun r => U r ∨ r = ref) s'.raw ∧ SchemaCache e (fun r => U r ∨ r = ref) s'.c ∧
      s'.c.tocPath = s.c.tocPath ∧ TocStep s s' := by
  by_cases hU : U ref
  · -- already in use: nothing happens
    have hmem : ref ∈ s.c.schemas := (hs.schemas ref).mpr hU
    refine ⟨s, by simp [schemaRegister, hmem], hr.congr (fun _ _ _ => Iff.rfl) ?_, hs.congr ?_, rfl, TocStep.refl s⟩
    · intro r; constructor
      · rintro (h | rfl); exacts [h, hU]
      · exact Or.inl
    · intro r; constructor
      · rintro (h | rfl); exacts [h, hU]
      · exact Or.inl
  · have hnmem : ref ∉ s.c.schemas := fun h => hU ((hs.schemas ref).mp h)
    -- the two schema datasets
    have hjson_none : get? s.raw (schemaDir ref ++ [.jsonschema]) = none := (hr.json ref).2 hU
    obtain ⟨t1, h1⟩ := rawCreate_ok (t := s.raw) (p := schemaDir ref ++ [.jsonschema]) (n := .ds (.jsonschema ref))
      (by simp [schemaDir]) hjson_none (by
        intro q v hm
        simp only [schemaDir, List.cons_append, List.nil_append, isMid, Bool.or_false, Bool.or_eq_true, beq_iff_eq] at hm
        rcases hm with rfl | rfl | rfl
        · have := hr.root; simp only [tocP] at this; rw [this]; exact fun h => by cases h
        · exact hr.schemas.not_ds v
        · exact (hr.sdir ref).not_ds v)
    have hcompat_none : get? t1 (schemaDir ref ++ [.compat]) = none := by
      rw [rawCreate_get? h1 _ (by simp [schemaDir]), (hr.compat ref).2 hU]
      simp [schemaDir, isMid]
    obtain ⟨t2, h2⟩ := rawCreate_ok (t := t1) (p := schemaDir ref ++ [.compat]) (n := .ds (.compat i.parents))
      (by simp [schemaDir]) hcompat_none (by
        intro q v hm
        have hq := isMid_ne_nil hm
        rw [rawCreate_get? h1 q hq]
        simp only [schemaDir, List.cons_append, List.nil_append, isMid, Bool.or_false, Bool.or_eq_true, beq_iff_eq] at hm ⊢
        rcases hm with rfl | rfl | rfl
        · have := hr.root; simp only [tocP] at this; simp [this]
        · have := hr.schemas.not_ds v
          simp only [schemasP] at this
          cases hx : get? s.raw [.toc, .schemas] with
          | none => simp [isMid]
          | some x => rw [hx] at this; simpa using this
        · have := (hr.sdir ref).2 hU
          simp only [schemaDir] at this
          simp [this, isMid])
    have hget2 := tocRaw_addSchema hi hr hU h1 h2
    have step12 : TocStep s ⟨t2, s.c, s.next⟩ :=
      (TocStep.of_create h1 (by simp [schemaDir]) s.c).trans
        (TocStep.of_create (s := ⟨t1, s.c, s.next⟩) h2 (by simp [schemaDir]) s.c)
    by_cases hreg : RegP e U i.pkg
    · -- the providing package is registered already
      have hp : alGet s.c.providers ref = some [i.pkg] :=
        (hs.providers ref [i.pkg]).mpr ⟨i.pkg, rfl, hreg, he.prov ref i hi⟩
      obtain ⟨cur, hu⟩ := alGet_some_of_isSome (hs.used_dom i.pkg hreg)
      refine ⟨⟨t2, regCachesOld s.c ref i cur, s.next⟩, schemaRegister_old e ref s i t1 t2 cur hnmem hi h1 h2 hp hu,
        ?_, schemaCache_regOld he hi hs hreg hu, rfl, ?_⟩
      · refine tocRaw_register (b := false) hi hr hU (by simp [hreg]) ?_
        intro q hq
        rw [hget2 q hq]
        simp
      · exact ⟨step12.keys, step12.pclosed, step12.frame, rfl⟩
    · -- the package record is written as well
      have hp : alGet s.c.providers ref = none := by
        cases hg : alGet s.c.providers ref with
        | none => rfl
        | some ps =>
          obtain ⟨pk, -, hpk, hmem⟩ := (hs.providers ref ps).mp hg
          have := he.disj _ _ _ hmem (he.prov ref i hi)
          exact absurd (this ▸ hpk) hreg
      have hpkg_none : get? t2 (pkgPath i.pkg) = none := by
        rw [hget2 _ (by simp [pkgPath]), (hr.pkg i.pkg).2 hreg]
        simp [pkgPath, schemaDir, schemasP]
      obtain ⟨t3, h3⟩ := rawCreate_ok (t := t2) (p := pkgPath i.pkg)
        (n := .ds (.pkginfo i.pkg (e.pkgPlugins i.pkg))) (by simp [pkgPath]) hpkg_none (by
          intro q v hm
          have hq := isMid_ne_nil hm
          rw [hget2 q hq]
          simp only [pkgPath, isMid, List.nil_append, Bool.or_false, Bool.or_eq_true, beq_iff_eq] at hm
          rcases hm with rfl | rfl
          · have := hr.root; simp only [tocP] at this; simp [this, schemaDir]
          · have := hr.packages.not_ds v
            simp only [packagesP] at this
            intro hcontra
            cases hx : get? s.raw [.toc, .packages] with
            | none =>
              simp only [List.cons_append, List.nil_append] at hcontra
              rw [hx] at hcontra; simp [schemaDir, schemasP] at hcontra
            | some x =>
              simp only [List.cons_append, List.nil_append] at hcontra
              rw [hx] at hcontra this; simp [schemaDir] at hcontra; exact this (by rw [hcontra]))
      have hcache := schemaCache_regNew he hi hs hreg
      have hp' : alGet (addProviders s.c.providers i.pkg (e.pkgPlugins i.pkg)) ref = some [i.pkg] :=
        (hcache.providers ref [i.pkg]).mpr ⟨i.pkg, rfl, (RegP_add hi _).mpr (Or.inr rfl), he.prov ref i hi⟩
      refine ⟨⟨t3, regCachesNew e s.c ref i, s.next⟩, schemaRegister_new e ref s i t1 t2 t3 hnmem hi h1 h2 hp h3 hp',
        ?_, hcache, rfl, ?_⟩
      · refine tocRaw_register (b := true) hi hr hU (by simp [hreg]) ?_
        intro q hq
        rw [rawCreate_get? h3 q hq, hget2 q hq]
        by_cases hq1 : q = pkgPath i.pkg
        · simp [hq1]
        · simp only [hq1, if_false, and_false, true_and]
          by_cases hq2 : q = schemaDir ref ++ [.compat]
          · simp [hq2]
          · by_cases hq3 : q = schemaDir ref ++ [.jsonschema]
            · simp [hq2, hq3]
            · simp only [hq2, hq3, if_false]
              cases hx : get? s.raw q with
              | some x => rfl
              | none =>
                simp only [pkgPath, isMid, List.nil_append, Bool.or_false, Bool.or_eq_true, beq_iff_eq, packagesP]
                have hroot := hr.root
                have hq0 : q ≠ [.toc] := by rintro rfl; simp only [tocP] at hroot; rw [hroot] at hx; cases hx
                by_cases ha : q = schemasP ∨ q = schemaDir ref
                · rcases ha with ha | ha <;> simp [ha]
                · have ha' := not_or.mp ha
                  simp only [ha, if_false, false_or, hq0]
                  by_cases hb : q = [.toc, .packages]
                  · simp [hb]
                  · simp [hb, ha'.1, ha'.2]
      · have step3 := step12.trans (TocStep.of_create (s := ⟨t2, s.c, s.next⟩) h3 (by simp [pkgPath]) (regCachesNew e s.c ref i))
        exact ⟨step3.keys, step3.pclosed, step3.frame, rfl⟩

theorem unchanged_of {o : Option Node} {c1 c2 : Prop} [Decidable c1] [Decidable c2] {a b : Option Node}
    (h1 : ¬ c1) (h2 : ¬ c2) :
    (if c1 then a else match o with | some x => some x | none => if c2 then b else none) = o := by
  rw [if_neg h1]
  cases o with
  | none => simp [h2]
  | some x => rfl

/-- the link dataset written by `TOCLinks.register` -/
theorem tocRaw_addLink {e : Env} {L : Path → SRef → Nat → Prop} {U : SRef → Prop} {t t' : Tree}
    {ref : SRef} {u : Nat} {p0 : Path} (hr : TocRaw e L U t) (hfresh : ¬ ∃ p r, L p r u)
    (h : rawCreate t (linkPath ref u) (.ds (.target p0)) = .ok t') :
    TocRaw e (fun p r u' => L p r u' ∨ (p = p0 ∧ r = ref ∧ u' = u)) U t' := by
  have hg : ∀ q, q ≠ [] → get? t' q =
      if q = linkPath ref u then some (.ds (.target p0))
      else match get? t q with
        | some x => some x
        | none => if q = linksP ∨ q = linkDir ref then some .grp else none := by
    intro q hq
    rw [rawCreate_get? h q hq]
    by_cases h1 : q = linkPath ref u
    · simp [h1]
    · simp only [h1, if_false]
      cases hx : get? t q with
      | some x => rfl
      | none =>
        have hroot := hr.root
        have hq0 : q ≠ [.toc] := by rintro rfl; simp only [tocP] at hroot; rw [hroot] at hx; cases hx
        simp only [linkPath, isMid, List.nil_append, List.cons_append, Bool.or_false, Bool.or_eq_true, beq_iff_eq, linksP, linkDir, hq0, false_or]
        by_cases hc : q = [Key.toc, Key.links] ∨ q = [Key.toc, Key.links, Key.ep ref] <;> simp [hc]
  have hL' : ∃ p r u', L p r u' ∨ (p = p0 ∧ r = ref ∧ u' = u) := ⟨p0, ref, u, Or.inr ⟨rfl, rfl, rfl⟩⟩
  constructor
  · rw [hg _ (by simp [tocP])]
    have := hr.root; simp only [tocP] at this
    simp [tocP, linkPath, this]
  · rw [hg _ (by simp [versionP])]
    have := hr.ver; simp only [versionP] at this
    simp [versionP, linkPath, this]
  · rw [hg _ (by simp [uuidP])]
    have := hr.uid; simp only [uuidP] at this
    simp [uuidP, linkPath, this]
  · refine Holds.intro_some ?_ hL'
    rw [hg _ (by simp [linksP])]
    simp only [linksP, linkPath, linkDir]
    rcases hx : get? t [.toc, .links] with _ | x
    · simp
    · have := hr.links.not_ds
      simp only [linksP, hx] at this
      cases x with
      | grp => simp
      | ds v => exact absurd rfl (this v)
  · intro r
    by_cases hrr : r = ref
    · subst hrr
      refine Holds.intro_some ?_ ⟨p0, u, Or.inr ⟨rfl, rfl, rfl⟩⟩
      rw [hg _ (by simp [linkDir])]
      simp only [linksP, linkPath, linkDir]
      rcases hx : get? t [.toc, .links, .ep r] with _ | x
      · simp
      · have := (hr.ldir r).not_ds
        simp only [linkDir, hx] at this
        cases x with
        | grp => simp
        | ds v => exact absurd rfl (this v)
    · refine (hr.ldir r).congr ?_ ?_
      · rw [hg _ (by simp [linkDir])]
        exact unchanged_of (by simp [linkDir, linkPath]) (by simp [linkDir, linksP, hrr])
      · constructor
        · rintro ⟨p, u', h | ⟨-, h, -⟩⟩
          · exact ⟨p, u', h⟩
          · exact absurd h hrr
        · rintro ⟨p, u', h⟩; exact ⟨p, u', Or.inl h⟩
  · rintro p r u' (hL | ⟨rfl, rfl, rfl⟩)
    · rw [hg _ (by simp [linkPath])]
      have hne : ¬ (r = ref ∧ u' = u) := by
        rintro ⟨rfl, rfl⟩; exact hfresh ⟨p, r, hL⟩
      have := hr.link_some p r u' hL
      simp only [linkPath] at this
      simp [linkPath, this, hne]
    · rw [hg _ (by simp [linkPath])]; simp
  · intro r u' hno
    have hne : ¬ (r = ref ∧ u' = u) := by
      rintro ⟨rfl, rfl⟩; exact hno ⟨p0, Or.inr ⟨rfl, rfl, rfl⟩⟩
    rw [hg _ (by simp [linkPath])]
    have := hr.link_none r u' (fun ⟨p, hp⟩ => hno ⟨p, Or.inl hp⟩)
    simp only [linkPath] at this
    simp [linkPath, this, hne, linksP, linkDir]
  · refine hr.schemas.congr ?_ Iff.rfl
    rw [hg _ (by simp [schemasP])]
    exact unchanged_of (by simp [schemasP, linkPath]) (by simp [schemasP, linksP, linkDir])
  · intro r
    refine (hr.sdir r).congr ?_ Iff.rfl
    rw [hg _ (by simp [schemaDir])]
    exact unchanged_of (by simp [schemaDir, linkPath]) (by simp [schemaDir, linksP, linkDir])
  · intro r
    refine (hr.json r).congr ?_ Iff.rfl
    rw [hg _ (by simp [schemaDir])]
    exact unchanged_of (by simp [schemaDir, linkPath]) (by simp [schemaDir, linksP, linkDir])
  · intro r
    refine (hr.compat r).congr ?_ Iff.rfl
    rw [hg _ (by simp [schemaDir])]
    exact unchanged_of (by simp [schemaDir, linkPath]) (by simp [schemaDir, linksP, linkDir])
  · refine hr.packages.congr ?_ Iff.rfl
    rw [hg _ (by simp [packagesP])]
    exact unchanged_of (by simp [packagesP, linkPath]) (by simp [packagesP, linksP, linkDir])
  · intro pk
    refine (hr.pkg pk).congr ?_ Iff.rfl
    rw [hg _ (by simp [pkgPath])]
    exact unchanged_of (by simp [pkgPath, linkPath]) (by simp [pkgPath, linksP, linkDir])
  · intro rest hne
    rw [hg _ (by simp)] at hne
    by_cases h1 : Key.toc :: rest = linkPath ref u
    · simp only [linkPath, List.cons.injEq, true_and] at h1
      rw [h1]; exact .link _ _
    · simp only [h1, if_false] at hne
      cases hq : get? t (Key.toc :: rest) with
      | some x => exact hr.shape rest (by rw [hq]; simp)
      | none =>
        rw [hq] at hne
        simp only at hne
        split_ifs at hne with h4
        · simp only [linksP, linkDir, List.cons.injEq, true_and] at h4
          rcases h4 with h4 | h4 <;> rw [h4]
          · exact .links
          · exact .linkDir _
        · exact absurd rfl hne

/-- `TOCLinks.register(obj)` -/
theorem linkRegister_spec {e : Env} (he : WFEnv e) {L : Path → SRef → Nat → Prop} {U : SRef → Prop}
    {s : St} {ref : SRef} {i : SInfo} {u : Nat} {p0 : Path} (hi : e.info ref = some i)
    (hr : TocRaw e L U s.raw) (hs : SchemaCache e U s.c) (hl : LinkCache L s.c)
    (hfresh : ¬ ∃ p r, L p r u) :
    ∃ s', linkRegister e ref u p0 s = (.ok (), s') ∧
      TocRaw e (fun p r u' => L p r u' ∨ (p = p0 ∧ r = ref ∧ u' = u)) (fun r => U r ∨ r = ref) s'.raw ∧
      SchemaCache e (fun r => U r ∨ r = ref) s'.c ∧
      LinkCache (fun p r u' => L p r u' ∨ (p = p0 ∧ r = ref ∧ u' = u)) s'.c ∧ TocStep s s' := by
  obtain ⟨s1, hrun, hr1, hs1, htp, hstep⟩ := schemaRegister_spec he hi hr hs
  have hnone : get? s1.raw (linkPath ref u) = none := hr1.link_none ref u (fun ⟨p, hp⟩ => hfresh ⟨p, ref, hp⟩)
  obtain ⟨t2, h2⟩ := rawCreate_ok (t := s1.raw) (p := linkPath ref u) (n := .ds (.target p0))
    (by simp [linkPath]) hnone (by
      intro q v hm
      simp only [linkPath, isMid, List.nil_append, Bool.or_false, Bool.or_eq_true, beq_iff_eq] at hm
      rcases hm with rfl | rfl | rfl
      · have := hr1.root; simp only [tocP] at this; rw [this]; exact fun h => by cases h
      · exact hr1.links.not_ds v
      · exact (hr1.ldir ref).not_ds v)
  refine ⟨⟨t2, { s1.c with tocPath := alSet s1.c.tocPath u (linkPath ref u) }, s1.next⟩, ?_,
    tocRaw_addLink hr1 hfresh h2, ?_, ?_, ?_⟩
  · simp [linkRegister, hrun, run_liftRaw, h2]
  · exact ⟨hs1.schemas, hs1.schemas_nodup, hs1.index, hs1.pkginfos, hs1.providers, hs1.used_dom, hs1.used_val⟩
  · intro u' tp
    show alGet (alSet s1.c.tocPath u (linkPath ref u)) u' = some tp ↔ _
    rw [alGet_alSet, htp]
    by_cases hu : u' = u
    · subst hu
      rw [if_pos rfl]
      constructor
      · intro h; cases h; exact ⟨p0, ref, Or.inr ⟨rfl, rfl, rfl⟩, rfl⟩
      · rintro ⟨p, r, hL | ⟨-, rfl, -⟩, rfl⟩
        · exact absurd ⟨p, r, hL⟩ hfresh
        · rfl
    · rw [if_neg hu, hl u' tp]
      constructor
      · rintro ⟨p, r, hL, rfl⟩; exact ⟨p, r, Or.inl hL, rfl⟩
      · rintro ⟨p, r, hL | ⟨-, -, h⟩, rfl⟩
        · exact ⟨p, r, hL, rfl⟩
        · exact absurd h hu
  · exact hstep.trans (TocStep.of_create (s := s1) h2 (by simp [linkPath]) _)

/-- loop invariant of `upcRemove`: `ref` still counts for the ancestors in `rest` -/
structure IndexRem (e : Env) (U' : SRef → Prop) (ref : SRef) (rest : List SRef)
    (par chi : List (SRef × List SRef)) : Prop where
  dom : ∀ P, (alGet chi P).isSome ↔ ((∃ S, U' S ∧ P ∈ ppath e S) ∨ P ∈ rest)
  domp : ∀ P, (alGet par P).isSome ↔ (alGet chi P).isSome
  par_val : ∀ P l, alGet par P = some l → l = ppath e P
  chi_val : ∀ P cs, alGet chi P = some cs → cs.Nodup ∧
    ∀ S, S ∈ cs ↔ ((U' S ∧ P ∈ ppath e S ∧ S ≠ P) ∨ (S = ref ∧ P ∈ rest ∧ P ≠ ref))

theorem upcRemove_rem (e : Env) (he : WFEnv e) (U' : SRef → Prop) (ref : SRef)
    (hUref : ¬ U' ref) (hUenv : ∀ r, U' r → ∃ i, e.info r = some i)
    (schemas : List SRef) (hsch : ∀ r, r ∈ schemas ↔ U' r) :
    ∀ (rest : List SRef) (par chi : List (SRef × List SRef)),
      rest.Nodup → IndexRem e U' ref rest par chi →
      ∃ par' chi', upcRemove ref schemas par chi rest = .ok (par', chi') ∧ IndexRem e U' ref [] par' chi'
  | [], par, chi, _, hm => ⟨par, chi, rfl, hm⟩
  | p :: rest, par, chi, hnd, hm => by
    have hprest : p ∉ rest := (List.nodup_cons.mp hnd).1
    have hndr : rest.Nodup := (List.nodup_cons.mp hnd).2
    obtain ⟨cs, hcs⟩ := alGet_some_of_isSome ((hm.dom p).mpr (Or.inr (by simp)))
    obtain ⟨hcsnd, hcsmem⟩ := hm.chi_val p cs hcs
    simp only [upcRemove, hcs]
    -- children[p] after discarding `ref`
    set cs' := if p ≠ ref then setRemove cs ref else cs with hcs'
    have hcs'mem : ∀ S, S ∈ cs' ↔ (U' S ∧ p ∈ ppath e S ∧ S ≠ p) := by
      intro S
      by_cases hp : p ≠ ref
      · simp only [hcs', hp, ne_eq, not_false_eq_true, if_true, mem_setRemove, hcsmem S]
        constructor
        · rintro ⟨h | ⟨rfl, -, -⟩, hne⟩
          · exact h
          · exact absurd rfl hne
        · intro h; exact ⟨Or.inl h, fun hS => hUref (hS ▸ h.1)⟩
      · have hp' : p = ref := by simpa using hp
        simp only [hcs', hp, if_false, hcsmem S]
        constructor
        · rintro (h | ⟨-, -, hne⟩)
          · exact h
          · exact hne.elim
        · exact Or.inl
    have hcs'nd : cs'.Nodup := by
      rw [hcs']; split_ifs
      · exact nodup_setRemove hcsnd _
      · exact hcsnd
    set chi1 := if p ≠ ref then alSet chi p cs' else chi with hchi1
    have hchi1_get : ∀ x, alGet chi1 x = if x = p then some cs' else alGet chi x := by
      intro x
      by_cases hp : p ≠ ref
      · simp only [hchi1, hp, ne_eq, not_false_eq_true, if_true, alGet_alSet]
      · simp only [hchi1, hp, if_false]
        by_cases hx : x = p
        · subst hx; simp [hcs, hcs', hp]
        · simp [hx]
    -- the index with `p` kept
    have keep : (∃ S, U' S ∧ p ∈ ppath e S) → IndexRem e U' ref rest par chi1 := by
      intro hex
      refine ⟨fun P => ?_, fun P => ?_, hm.par_val, fun P cs0 h0 => ?_⟩
      · rw [hchi1_get]
        by_cases hP : P = p
        · subst hP; simp [hex]
        · simp only [hP, if_false, hm.dom P, List.mem_cons, false_or]
      · rw [hchi1_get, hm.domp P]
        by_cases hP : P = p
        · subst hP; simp [hcs]
        · simp [hP]
      · rw [hchi1_get] at h0
        by_cases hP : P = p
        · subst hP
          simp only [if_true, Option.some.injEq] at h0
          subst h0
          refine ⟨hcs'nd, fun S => ?_⟩
          rw [hcs'mem S]
          constructor
          · exact Or.inl
          · rintro (h | ⟨-, h, -⟩)
            · exact h
            · exact absurd h hprest
        · simp only [hP, if_false] at h0
          obtain ⟨h1, h2⟩ := hm.chi_val P cs0 h0
          refine ⟨h1, fun S => ?_⟩
          rw [h2 S]
          simp only [List.mem_cons, hP, false_or]
    -- the index with `p` dropped
    have drop : (¬ ∃ S, U' S ∧ p ∈ ppath e S) → IndexRem e U' ref rest (alErase par p) (alErase chi1 p) := by
      intro hnex
      refine ⟨fun P => ?_, fun P => ?_, fun P l hl => ?_, fun P cs0 h0 => ?_⟩
      · rw [alGet_alErase, hchi1_get]
        by_cases hP : P = p
        · subst hP; simp [hnex, hprest]
        · simp only [hP, if_false, hm.dom P, List.mem_cons, false_or]
      · rw [alGet_alErase, alGet_alErase, hchi1_get]
        by_cases hP : P = p
        · simp [hP]
        · simp only [hP, if_false]; exact hm.domp P
      · rw [alGet_alErase] at hl
        by_cases hP : P = p
        · simp [hP] at hl
        · simp only [hP, if_false] at hl; exact hm.par_val P l hl
      · rw [alGet_alErase, hchi1_get] at h0
        by_cases hP : P = p
        · simp [hP] at h0
        · simp only [hP, if_false] at h0
          obtain ⟨h1, h2⟩ := hm.chi_val P cs0 h0
          refine ⟨h1, fun S => ?_⟩
          rw [h2 S]
          simp only [List.mem_cons, hP, false_or]
    by_cases hpU : p ∈ schemas
    · -- `p` itself is still in use
      simp only [hpU, if_true]
      have hex : ∃ S, U' S ∧ p ∈ ppath e S := by
        have hU := (hsch p).mp hpU
        obtain ⟨i, hi⟩ := hUenv p hU
        exact ⟨p, hU, mem_ppath_self he hi⟩
      exact upcRemove_rem e he U' ref hUref hUenv schemas hsch rest par chi1 hndr (keep hex)
    · simp only [hpU, if_false]
      by_cases hall : cs'.all (fun ch => ch ∉ schemas) = true
      · -- no used descendant left: the entry goes
        simp only [hall, if_true]
        have hparp : (alGet par p).isNone = false := by
          have := (hm.domp p).mpr (by rw [hcs]; rfl)
          cases hx : alGet par p <;> simp_all
        simp only [hparp, Bool.false_eq_true, if_false]
        have hnex : ¬ ∃ S, U' S ∧ p ∈ ppath e S := by
          rintro ⟨S, hS, hmem⟩
          have hne : S ≠ p := by rintro rfl; exact hpU ((hsch S).mpr hS)
          have hin : S ∈ cs' := (hcs'mem S).mpr ⟨hS, hmem, hne⟩
          have := List.all_eq_true.mp hall S hin
          simp only [decide_eq_true_eq] at this
          exact this ((hsch S).mpr hS)
        exact upcRemove_rem e he U' ref hUref hUenv schemas hsch rest _ _ hndr (drop hnex)
      · simp only [hall, if_false, Bool.false_eq_true]
        have hex : ∃ S, U' S ∧ p ∈ ppath e S := by
          simp only [List.all_eq_true, decide_eq_true_eq, not_forall, Classical.not_not] at hall
          obtain ⟨S, hin, hS⟩ := hall
          exact ⟨S, (hsch S).mp (by simpa using hS), ((hcs'mem S).mp hin).2.1⟩
        exact upcRemove_rem e he U' ref hUref hUenv schemas hsch rest par chi1 hndr (keep hex)

/-- `_update_parents_children(ref, None)` turns the index for `U` into the index for `U \ {ref}` -/
theorem upcRemove_index {e : Env} (he : WFEnv e) {U : SRef → Prop} {ref : SRef} {i : SInfo}
    (hi : e.info ref = some i) (hUenv : ∀ r, U r → ∃ i, e.info r = some i)
    {par chi : List (SRef × List SRef)} (h : IndexOK e U par chi) (hU : U ref)
    (schemas : List SRef) (hsch : ∀ r, r ∈ schemas ↔ (U r ∧ r ≠ ref)) :
    ∃ par' chi', upcRemove ref schemas par chi i.parents = .ok (par', chi') ∧
      IndexOK e (fun r => U r ∧ r ≠ ref) par' chi' := by
  have hpp := ppath_eq hi
  have hm : IndexRem e (fun r => U r ∧ r ≠ ref) ref i.parents par chi := by
    refine ⟨fun P => ?_, h.domp, h.par_val, fun P cs hcs => ?_⟩
    · rw [h.dom P]
      constructor
      · rintro ⟨S, hS, hmem⟩
        by_cases hSr : S = ref
        · subst hSr; exact Or.inr (hpp ▸ hmem)
        · exact Or.inl ⟨S, ⟨hS, hSr⟩, hmem⟩
      · rintro (⟨S, ⟨hS, -⟩, hmem⟩ | hmem)
        · exact ⟨S, hS, hmem⟩
        · exact ⟨ref, hU, hpp ▸ hmem⟩
    · obtain ⟨h1, h2⟩ := h.chi_val P cs hcs
      refine ⟨h1, fun S => ?_⟩
      rw [h2 S]
      constructor
      · rintro ⟨hS, hmem, hne⟩
        by_cases hSr : S = ref
        · subst hSr; exact Or.inr ⟨rfl, hpp ▸ hmem, fun h => hne h.symm⟩
        · exact Or.inl ⟨⟨hS, hSr⟩, hmem, hne⟩
      · rintro (⟨⟨hS, -⟩, hmem, hne⟩ | ⟨rfl, hmem, hne⟩)
        · exact ⟨hS, hmem, hne⟩
        · exact ⟨hU, hpp ▸ hmem, fun h => hne h.symm⟩
  obtain ⟨par', chi', hrun, hm'⟩ := upcRemove_rem e he (fun r => U r ∧ r ≠ ref) ref (fun h => h.2 rfl)
    (fun r hr => hUenv r hr.1) schemas hsch i.parents par chi (he.nodup ref i hi) hm
  refine ⟨par', chi', hrun, fun P => ?_, hm'.domp, hm'.par_val, fun P cs hcs => ?_⟩
  · simpa using hm'.dom P
  · obtain ⟨h1, h2⟩ := hm'.chi_val P cs hcs
    exact ⟨h1, fun S => by simpa using h2 S⟩

/-- loop of `TOCPackages._unregister` over the plugin list of `pk` -/
theorem removeProviders_spec {e : Env} (he : WFEnv e) (Q : PkgId → Prop) (pk : PkgId) :
    ∀ (l : List SRef) (prov : List (SRef × List PkgId)),
      l.Nodup → (∀ r ∈ l, r ∈ e.pkgPlugins pk) →
      (∀ r ps, alGet prov r = some ps ↔
        ((∃ pk', ps = [pk'] ∧ Q pk' ∧ pk' ≠ pk ∧ r ∈ e.pkgPlugins pk') ∨ (ps = [pk] ∧ r ∈ l))) →
      ∃ prov', removeProviders prov pk l = .ok prov' ∧
        ∀ r ps, alGet prov' r = some ps ↔ (∃ pk', ps = [pk'] ∧ Q pk' ∧ pk' ≠ pk ∧ r ∈ e.pkgPlugins pk')
  | [], prov, _, _, h => ⟨prov, rfl, fun r ps => by simpa using h r ps⟩
  | x :: l, prov, hnd, hl, h => by
    have hx : alGet prov x = some [pk] := (h x [pk]).mpr (Or.inr ⟨rfl, by simp⟩)
    have hxl : x ∉ l := (List.nodup_cons.mp hnd).1
    simp only [removeProviders, hx, List.mem_singleton, not_true_eq_false, if_false, setRemove,
      List.filter_cons, ne_eq, decide_false, Bool.false_eq_true, List.filter_nil, List.isEmpty_nil, if_true]
    apply removeProviders_spec he Q pk l (alErase prov x) (List.nodup_cons.mp hnd).2 (fun r hr => hl r (by simp [hr]))
    intro r ps
    rw [alGet_alErase]
    by_cases hr : r = x
    · subst hr
      simp only [if_true, hxl, and_false, or_false]
      constructor
      · intro h; cases h
      · rintro ⟨pk', -, -, hne, hmem⟩
        exact absurd (he.disj _ _ _ hmem (hl r (by simp))) hne
    · simp only [hr, if_false, h r ps, List.mem_cons, false_or]

theorem children_isEmpty_iff {t : Tree} (hk : KeysOK t) (p : Path) :
    (children t p).isEmpty = true ↔ ∀ k, get? t (p ++ [k]) = none := by
  rw [List.isEmpty_iff]
  constructor
  · intro h k
    cases hg : get? t (p ++ [k]) with
    | none => rfl
    | some n =>
      have := (mem_children hk).mpr hg
      rw [h] at this; simp at this
  · intro h
    apply List.eq_nil_iff_forall_not_mem.mpr
    rintro ⟨k, n⟩ hm
    have := (mem_children hk).mp hm
    rw [h k] at this; cases this

/-- lookups after deleting the subtrees rooted at the paths in `D` -/
def DelGet (t t' : Tree) (D : List Path) : Prop :=
  ∀ q, q ≠ [] → get? t' q = if D.any (fun d => under d q) then none else get? t q

theorem DelGet.nil (t : Tree) : DelGet t t [] := fun q _ => by simp

theorem DelGet.of_del {t t' : Tree} {p : Path} (h : rawDel t p = .ok t') : DelGet t t' [p] := by
  intro q hq
  rw [rawDel_get? h q hq]
  simp

theorem DelGet.trans {t t1 t2 : Tree} {D1 D2 : List Path} (h1 : DelGet t t1 D1) (h2 : DelGet t1 t2 D2) :
    DelGet t t2 (D1 ++ D2) := by
  intro q hq
  rw [h2 q hq, h1 q hq, List.any_append]
  cases D2.any (fun d => under d q) <;> cases D1.any (fun d => under d q) <;> simp

/-! the three parts of `TocRaw` -/
structure TocBase (t : Tree) : Prop where
  root : get? t tocP = some .grp
  ver : get? t versionP = some (.ds (.text "1.0"))
  uid : get? t uuidP = some (.ds (.text "uuid"))
  shape : ∀ rest, get? t (.toc :: rest) ≠ none → TocShape rest

structure TocLnk (L : Path → SRef → Nat → Prop) (t : Tree) : Prop where
  links : Holds (get? t linksP) (∃ p r u, L p r u) .grp
  ldir : ∀ r, Holds (get? t (linkDir r)) (∃ p u, L p r u) .grp
  link_some : ∀ p r u, L p r u → get? t (linkPath r u) = some (.ds (.target p))
  link_none : ∀ r u, (¬ ∃ p, L p r u) → get? t (linkPath r u) = none

structure TocSch (e : Env) (U : SRef → Prop) (t : Tree) : Prop where
  schemas : Holds (get? t schemasP) (∃ r, U r) .grp
  sdir : ∀ r, Holds (get? t (schemaDir r)) (U r) .grp
  json : ∀ r, Holds (get? t (schemaDir r ++ [.jsonschema])) (U r) (.ds (.jsonschema r))
  compat : ∀ r, Holds (get? t (schemaDir r ++ [.compat])) (U r) (.ds (.compat (ppath e r)))
  packages : Holds (get? t packagesP) (∃ r, U r) .grp
  pkg : ∀ pk, Holds (get? t (pkgPath pk)) (RegP e U pk) (.ds (.pkginfo pk (e.pkgPlugins pk)))

theorem tocRaw_iff {e : Env} {L : Path → SRef → Nat → Prop} {U : SRef → Prop} {t : Tree} :
    TocRaw e L U t ↔ (TocBase t ∧ TocLnk L t ∧ TocSch e U t) := by
  constructor
  · intro h
    exact ⟨⟨h.root, h.ver, h.uid, h.shape⟩, ⟨h.links, h.ldir, h.link_some, h.link_none⟩,
      ⟨h.schemas, h.sdir, h.json, h.compat, h.packages, h.pkg⟩⟩
  · rintro ⟨hb, hl, hs⟩
    exact ⟨hb.root, hb.ver, hb.uid, hl.links, hl.ldir, hl.link_some, hl.link_none,
      hs.schemas, hs.sdir, hs.json, hs.compat, hs.packages, hs.pkg, hb.shape⟩

theorem pkgUnregister_run (pk : PkgId) (s : St) (t1 : Tree) (info : List SRef) (prov' : List (SRef × List PkgId))
    (h1 : rawDel s.raw (pkgPath pk) = .ok t1)
    (hinfo : alGet s.c.pkginfos pk = some info)
    (hrem : removeProviders s.c.providers pk info = .ok prov') :
    pkgUnregister pk s =
      (if (children t1 packagesP).isEmpty then liftRaw (fun t => rawDel t packagesP) else pure ())
        ⟨t1, { s.c with pkginfos := alErase s.c.pkginfos pk, providers := prov' }, s.next⟩ := by
  simp [pkgUnregister, run_liftRaw, h1, hinfo, hrem]

/-- caches after the first half of `TOCSchemas._unregister` -/
def unregCaches (c : Caches) (ref : SRef) (par chi : List (SRef × List SRef)) (pk : PkgId) (cur : List SRef) : Caches :=
  { c with schemas := setRemove c.schemas ref, parents := par, children := chi,
           used := alSet c.used pk (setRemove cur ref) }

theorem schemaUnregister_run (ref : SRef) (s : St) (t1 : Tree) (ps cur : List SRef)
    (par chi : List (SRef × List SRef)) (pk : PkgId) (s3 : St)
    (h1 : rawDel s.raw (schemaDir ref) = .ok t1)
    (hmem : ref ∈ s.c.schemas)
    (hps : alGet s.c.parents ref = some ps)
    (hupc : upcRemove ref (setRemove s.c.schemas ref) s.c.parents s.c.children ps = .ok (par, chi))
    (hprov : alGet s.c.providers ref = some [pk])
    (hcur : alGet s.c.used pk = some cur)
    (h3 : (if (setRemove cur ref).isEmpty then pkgUnregister pk else pure ())
      ⟨t1, unregCaches s.c ref par chi pk cur, s.next⟩ = (.ok (), s3)) :
    schemaUnregister ref s =
      (if (children s3.raw schemasP).isEmpty then liftRaw (fun t => rawDel t schemasP) else pure ()) s3 := by
  simp only [unregCaches] at h3
  simp [schemaUnregister, run_liftRaw, h1, hmem, hps, hupc, hprov, hcur]
  by_cases hc : setRemove cur ref = []
  · simp only [hc, List.isEmpty_nil, if_true] at h3
    simp [hc, h3]
  · have : (setRemove cur ref).isEmpty = false := by simpa using hc
    simp only [this, Bool.false_eq_true, if_false, run_pure, Prod.mk.injEq, true_and] at h3
    subst h3
    simp [hc]

/-- paths removed by `TOCSchemas._unregister(ref)` (`U'`: schemas still in use, `pk`: provider of `ref`) -/
def UnregDel (e : Env) (U' : SRef → Prop) (ref : SRef) (pk : PkgId) (q : Path) : Prop :=
  schemaDir ref <+: q ∨ (¬ RegP e U' pk ∧ pkgPath pk <+: q) ∨ ((¬ ∃ r, U' r) ∧ (packagesP <+: q ∨ schemasP <+: q))

theorem RegP_remove {e : Env} {U : SRef → Prop} {ref : SRef} {i : SInfo} (hi : e.info ref = some i)
    (pk : PkgId) (hpk : pk ≠ i.pkg) :
    RegP e (fun r => U r ∧ r ≠ ref) pk ↔ RegP e U pk := by
  constructor
  · rintro ⟨r, j, ⟨hU, -⟩, hj, rfl⟩; exact ⟨r, j, hU, hj, rfl⟩
  · rintro ⟨r, j, hU, hj, rfl⟩
    refine ⟨r, j, ⟨hU, ?_⟩, hj, rfl⟩
    rintro rfl
    rw [hi] at hj; cases hj; exact hpk rfl

theorem tocSch_unregister {e : Env} {U : SRef → Prop} {t t' : Tree} {ref : SRef} {i : SInfo}
    (hi : e.info ref = some i) (hUenv : ∀ r, U r → ∃ i, e.info r = some i)
    (hs : TocSch e U t)
    (hget : ∀ q, q ≠ [] →
      (UnregDel e (fun r => U r ∧ r ≠ ref) ref i.pkg q → get? t' q = none) ∧
      (¬ UnregDel e (fun r => U r ∧ r ≠ ref) ref i.pkg q → get? t' q = get? t q)) :
    TocSch e (fun r => U r ∧ r ≠ ref) t' := by
  have hreg_of : ∀ r, (U r ∧ r ≠ ref) → ∃ pk, RegP e (fun r => U r ∧ r ≠ ref) pk := by
    intro r hr
    obtain ⟨j, hj⟩ := hUenv r hr.1
    exact ⟨j.pkg, r, j, hr, hj, rfl⟩
  constructor
  · -- schemas group
    by_cases hex : ∃ r, U r ∧ r ≠ ref
    · refine Holds.intro_some ?_ hex
      rw [(hget schemasP (by simp [schemasP])).2 ?_]
      · obtain ⟨r, hr, -⟩ := hex; exact hs.schemas.1 ⟨r, hr⟩
      · simp [UnregDel, hex, schemaDir, schemasP, pkgPath, List.cons_prefix_cons]
    · refine ⟨fun h => absurd h hex, fun _ => ?_⟩
      exact (hget schemasP (by simp [schemasP])).1 (Or.inr (Or.inr ⟨hex, Or.inr (List.prefix_refl _)⟩))
  · intro r
    by_cases hr : U r ∧ r ≠ ref
    · refine Holds.intro_some ?_ hr
      rw [(hget (schemaDir r) (by simp [schemaDir])).2 ?_]
      · exact (hs.sdir r).1 hr.1
      · have : ¬ ref = r := fun h => hr.2 h.symm
        simp [UnregDel, schemaDir, schemasP, pkgPath, packagesP, List.cons_prefix_cons, this]
        exact ⟨r, hr⟩
    · refine ⟨fun h => absurd h hr, fun _ => ?_⟩
      by_cases hd : UnregDel e (fun r => U r ∧ r ≠ ref) ref i.pkg (schemaDir r)
      · exact (hget _ (by simp [schemaDir])).1 hd
      · rw [(hget _ (by simp [schemaDir])).2 hd]
        by_cases hrr : r = ref
        · subst hrr; exact absurd (Or.inl (List.prefix_refl _)) hd
        · exact (hs.sdir r).2 (fun h => hr ⟨h, hrr⟩)
  · intro r
    by_cases hr : U r ∧ r ≠ ref
    · refine Holds.intro_some ?_ hr
      rw [(hget (schemaDir r ++ [Key.jsonschema]) (by simp [schemaDir])).2 ?_]
      · exact (hs.json r).1 hr.1
      · have : ¬ ref = r := fun h => hr.2 h.symm
        simp [UnregDel, schemaDir, schemasP, pkgPath, packagesP, List.cons_prefix_cons, this]
        exact ⟨r, hr⟩
    · refine ⟨fun h => absurd h hr, fun _ => ?_⟩
      by_cases hd : UnregDel e (fun r => U r ∧ r ≠ ref) ref i.pkg (schemaDir r ++ [Key.jsonschema])
      · exact (hget _ (by simp [schemaDir])).1 hd
      · rw [(hget _ (by simp [schemaDir])).2 hd]
        by_cases hrr : r = ref
        · subst hrr; exact absurd (Or.inl ⟨[Key.jsonschema], rfl⟩) hd
        · exact (hs.json r).2 (fun h => hr ⟨h, hrr⟩)
  · intro r
    have hpp : r ≠ ref → True := fun _ => trivial
    by_cases hr : U r ∧ r ≠ ref
    · refine Holds.intro_some ?_ hr
      rw [(hget (schemaDir r ++ [Key.compat]) (by simp [schemaDir])).2 ?_]
      · exact (hs.compat r).1 hr.1
      · have : ¬ ref = r := fun h => hr.2 h.symm
        simp [UnregDel, schemaDir, schemasP, pkgPath, packagesP, List.cons_prefix_cons, this]
        exact ⟨r, hr⟩
    · refine ⟨fun h => absurd h hr, fun _ => ?_⟩
      by_cases hd : UnregDel e (fun r => U r ∧ r ≠ ref) ref i.pkg (schemaDir r ++ [Key.compat])
      · exact (hget _ (by simp [schemaDir])).1 hd
      · rw [(hget _ (by simp [schemaDir])).2 hd]
        by_cases hrr : r = ref
        · subst hrr; exact absurd (Or.inl ⟨[Key.compat], rfl⟩) hd
        · exact (hs.compat r).2 (fun h => hr ⟨h, hrr⟩)
  · -- packages group
    by_cases hex : ∃ r, U r ∧ r ≠ ref
    · refine Holds.intro_some ?_ hex
      rw [(hget packagesP (by simp [packagesP])).2 ?_]
      · obtain ⟨r, hr, -⟩ := hex; exact hs.packages.1 ⟨r, hr⟩
      · simp [UnregDel, hex, schemaDir, schemasP, pkgPath, packagesP, List.cons_prefix_cons]
    · refine ⟨fun h => absurd h hex, fun _ => ?_⟩
      exact (hget packagesP (by simp [packagesP])).1 (Or.inr (Or.inr ⟨hex, Or.inl (List.prefix_refl _)⟩))
  · intro pk
    by_cases hr : RegP e (fun r => U r ∧ r ≠ ref) pk
    · refine Holds.intro_some ?_ hr
      have hex : ∃ r, U r ∧ r ≠ ref := by obtain ⟨r, _, h, _⟩ := hr; exact ⟨r, h⟩
      rw [(hget (pkgPath pk) (by simp [pkgPath])).2 ?_]
      · obtain ⟨r, j, ⟨hU, -⟩, hj, hjp⟩ := hr
        exact (hs.pkg pk).1 ⟨r, j, hU, hj, hjp⟩
      · simp only [UnregDel, schemaDir, schemasP, pkgPath, packagesP, List.cons_prefix_cons, hex, not_true_eq_false, false_and, or_false]
        simp only [reduceCtorEq, false_and, and_false, false_or, true_and, not_and, List.nil_prefix, and_true, Key.pkg.injEq]
        intro h1 h2; exact h1 (h2 ▸ hr)
    · refine ⟨fun h => absurd h hr, fun _ => ?_⟩
      by_cases hd : UnregDel e (fun r => U r ∧ r ≠ ref) ref i.pkg (pkgPath pk)
      · exact (hget _ (by simp [pkgPath])).1 hd
      · rw [(hget _ (by simp [pkgPath])).2 hd]
        by_cases hpk : pk = i.pkg
        · subst hpk
          exact absurd (Or.inr (Or.inl ⟨hr, List.prefix_refl _⟩)) hd
        · exact (hs.pkg pk).2 (fun h => hr ((RegP_remove hi pk hpk).mpr h))

/-- caches after `TOCSchemas._unregister(ref)`; `b`: the providing package was unregistered too -/
theorem schemaCache_unreg {e : Env} (he : WFEnv e) {U : SRef → Prop} {c : Caches} {ref : SRef} {i : SInfo}
    {cur : List SRef} {par chi : List (SRef × List SRef)} {prov' : List (SRef × List PkgId)}
    (hi : e.info ref = some i) (hs : SchemaCache e U c) (hU : U ref)
    (hu : alGet c.used i.pkg = some cur)
    (hidx : IndexOK e (fun r => U r ∧ r ≠ ref) par chi)
    (b : Bool) (hb : b = true ↔ ¬ RegP e (fun r => U r ∧ r ≠ ref) i.pkg)
    (hprov : b = true → ∀ r ps, alGet prov' r = some ps ↔
      (∃ pk', ps = [pk'] ∧ RegP e U pk' ∧ pk' ≠ i.pkg ∧ r ∈ e.pkgPlugins pk')) :
    SchemaCache e (fun r => U r ∧ r ≠ ref)
      (if b then { unregCaches c ref par chi i.pkg cur with
                    pkginfos := alErase c.pkginfos i.pkg, providers := prov' }
       else unregCaches c ref par chi i.pkg cur) := by
  have hregU : RegP e U i.pkg := ⟨ref, i, hU, hi, rfl⟩
  have hreg_ne : ∀ pk, pk ≠ i.pkg → (RegP e (fun r => U r ∧ r ≠ ref) pk ↔ RegP e U pk) :=
    fun pk hpk => RegP_remove hi pk hpk
  -- the parts that do not depend on `b`
  have hsch : ∀ r, r ∈ setRemove c.schemas ref ↔ (U r ∧ r ≠ ref) := by
    intro r; rw [mem_setRemove, hs.schemas r]
  have hused_dom : ∀ pk, RegP e (fun r => U r ∧ r ≠ ref) pk →
      (alGet (alSet c.used i.pkg (setRemove cur ref)) pk).isSome := by
    intro pk hpk
    rw [alGet_alSet]
    by_cases h : pk = i.pkg
    · simp [h]
    · simp only [h, if_false]; exact hs.used_dom pk ((hreg_ne pk h).mp hpk)
  have hused_val : ∀ pk rs, alGet (alSet c.used i.pkg (setRemove cur ref)) pk = some rs → rs.Nodup ∧
      ∀ r, r ∈ rs ↔ ((U r ∧ r ≠ ref) ∧ ∃ j, e.info r = some j ∧ j.pkg = pk) := by
    intro pk rs hrs
    rw [alGet_alSet] at hrs
    by_cases h : pk = i.pkg
    · subst h
      simp only [if_true, Option.some.injEq] at hrs
      subst hrs
      obtain ⟨hnd, hmem⟩ := hs.used_val _ _ hu
      refine ⟨nodup_setRemove hnd _, fun r => ?_⟩
      rw [mem_setRemove, hmem r]
      tauto
    · simp only [h, if_false] at hrs
      obtain ⟨hnd, hmem⟩ := hs.used_val _ _ hrs
      refine ⟨hnd, fun r => ?_⟩
      rw [hmem r]
      constructor
      · rintro ⟨hUr, j, hj, hjp⟩
        refine ⟨⟨hUr, ?_⟩, j, hj, hjp⟩
        rintro rfl
        rw [hi] at hj; cases hj; exact h hjp.symm
      · rintro ⟨⟨hUr, -⟩, hex⟩; exact ⟨hUr, hex⟩
  cases b with
  | false =>
    have hreg : RegP e (fun r => U r ∧ r ≠ ref) i.pkg := by
      by_contra h; exact absurd (hb.mpr h) (by simp)
    have hreg_all : ∀ pk, RegP e (fun r => U r ∧ r ≠ ref) pk ↔ RegP e U pk := by
      intro pk
      by_cases h : pk = i.pkg
      · subst h; exact ⟨fun _ => hregU, fun _ => hreg⟩
      · exact hreg_ne pk h
    simp only [Bool.false_eq_true, if_false]
    refine ⟨hsch, nodup_setRemove hs.schemas_nodup _, hidx, ?_, ?_, hused_dom, hused_val⟩
    · intro pk pl; simp only [unregCaches, hreg_all]; exact hs.pkginfos pk pl
    · intro r ps; simp only [unregCaches, hreg_all]; exact hs.providers r ps
  | true =>
    have hnreg : ¬ RegP e (fun r => U r ∧ r ≠ ref) i.pkg := hb.mp rfl
    simp only [if_true]
    refine ⟨hsch, nodup_setRemove hs.schemas_nodup _, hidx, ?_, ?_, hused_dom, hused_val⟩
    · intro pk pl
      show alGet (alErase c.pkginfos i.pkg) pk = some pl ↔ _
      rw [alGet_alErase]
      by_cases h : pk = i.pkg
      · subst h; simp [hnreg]
      · simp only [h, if_false, hreg_ne pk h]; exact hs.pkginfos pk pl
    · intro r ps
      show alGet prov' r = some ps ↔ _
      rw [hprov rfl r ps]
      constructor
      · rintro ⟨pk', rfl, hreg', hne, hmem⟩
        exact ⟨pk', rfl, (hreg_ne pk' hne).mpr hreg', hmem⟩
      · rintro ⟨pk', rfl, hreg', hmem⟩
        have hne : pk' ≠ i.pkg := by rintro rfl; exact hnreg hreg'
        exact ⟨pk', rfl, (hreg_ne pk' hne).mp hreg', hne, hmem⟩

theorem under_false_of_not_prefix {p q : Path} (h : ¬ p <+: q) : under p q = false := by
  cases hu : under p q
  · rfl
  · exact absurd (under_iff.mp hu) h

theorem under_true_of_prefix {p q : Path} (h : p <+: q) : under p q = true := under_iff.mpr h

/-- a child of `/metador_container/packages` is a package record -/
theorem TocBase.pkg_child {t : Tree} (hb : TocBase t) {k : Key} (h : get? t (packagesP ++ [k]) ≠ none) :
    ∃ pk, k = .pkg pk := by
  have := hb.shape [.packages, k] (by simpa [packagesP] using h)
  cases this; exact ⟨_, rfl⟩

theorem TocBase.schema_child {t : Tree} (hb : TocBase t) {k : Key} (h : get? t (schemasP ++ [k]) ≠ none) :
    ∃ r, k = .ep r := by
  have := hb.shape [.schemas, k] (by simpa [schemasP] using h)
  cases this; exact ⟨_, rfl⟩

theorem TocBase.link_child {t : Tree} (hb : TocBase t) {k : Key} (h : get? t (linksP ++ [k]) ≠ none) :
    ∃ r, k = .ep r := by
  have := hb.shape [.links, k] (by simpa [linksP] using h)
  cases this; exact ⟨_, rfl⟩

theorem TocBase.linkDir_child {t : Tree} (hb : TocBase t) {r : SRef} {k : Key}
    (h : get? t (linkDir r ++ [k]) ≠ none) : ∃ u, k = .link u := by
  have := hb.shape [.links, .ep r, k] (by simpa [linkDir] using h)
  cases this; exact ⟨_, rfl⟩

/-- `TOCSchemas._unregister(ref)` -/
theorem schemaUnregister_spec {e : Env} (he : WFEnv e) {U : SRef → Prop} {s : St} {ref : SRef} {i : SInfo}
    (hi : e.info ref = some i) (hUenv : ∀ r, U r → ∃ i, e.info r = some i)
    (hk : KeysOK s.raw) (hb : TocBase s.raw) (hsch : TocSch e U s.raw) (hs : SchemaCache e U s.c)
    (hU : U ref) :
    ∃ s', schemaUnregister ref s = (.ok (), s') ∧
      (∀ q, q ≠ [] →
        (UnregDel e (fun r => U r ∧ r ≠ ref) ref i.pkg q → get? s'.raw q = none) ∧
        (¬ UnregDel e (fun r => U r ∧ r ≠ ref) ref i.pkg q → get? s'.raw q = get? s.raw q)) ∧
      SchemaCache e (fun r => U r ∧ r ≠ ref) s'.c ∧ s'.c.tocPath = s.c.tocPath ∧ TocStep s s' := by
  -- the schema directory goes first
  have hsd : get? s.raw (schemaDir ref) ≠ none := by rw [(hsch.sdir ref).1 hU]; simp
  have h1 := rawDel_ok (t := s.raw) (p := schemaDir ref) (by simp [schemaDir]) hsd
  set t1 := s.raw.filter (fun e => !under (schemaDir ref) e.1) with ht1
  have hk1 : KeysOK t1 := rawDel_keys h1 hk
  have g1 : ∀ q, q ≠ [] → get? t1 q = if under (schemaDir ref) q then none else get? s.raw q :=
    fun q hq => rawDel_get? h1 q hq
  -- caches
  have hmem : ref ∈ s.c.schemas := (hs.schemas ref).mpr hU
  have hps : alGet s.c.parents ref = some i.parents := by
    have h1 : (alGet s.c.children ref).isSome := (hs.index.dom ref).mpr ⟨ref, hU, mem_ppath_self he hi⟩
    obtain ⟨l, hl⟩ := alGet_some_of_isSome ((hs.index.domp ref).mpr h1)
    rw [hl, hs.index.par_val ref l hl, ppath_eq hi]
  obtain ⟨par, chi, hupc, hidx⟩ := upcRemove_index he hi hUenv hs.index hU (setRemove s.c.schemas ref)
    (fun r => by rw [mem_setRemove, hs.schemas r])
  have hregU : RegP e U i.pkg := ⟨ref, i, hU, hi, rfl⟩
  have hprov : alGet s.c.providers ref = some [i.pkg] :=
    (hs.providers ref [i.pkg]).mpr ⟨i.pkg, rfl, hregU, he.prov ref i hi⟩
  obtain ⟨cur, hcur⟩ := alGet_some_of_isSome (hs.used_dom i.pkg hregU)
  obtain ⟨hcurnd, hcurmem⟩ := hs.used_val _ _ hcur
  have hcur' : ∀ r, r ∈ setRemove cur ref ↔ ((U r ∧ r ≠ ref) ∧ ∃ j, e.info r = some j ∧ j.pkg = i.pkg) := by
    intro r; rw [mem_setRemove, hcurmem r]; tauto
  have hcur_nil : setRemove cur ref = [] ↔ ¬ RegP e (fun r => U r ∧ r ≠ ref) i.pkg := by
    rw [List.eq_nil_iff_forall_not_mem]
    constructor
    · rintro h ⟨r, j, hr, hj, hjp⟩; exact h r ((hcur' r).mpr ⟨hr, j, hj, hjp⟩)
    · intro h r hr
      obtain ⟨hr', j, hj, hjp⟩ := (hcur' r).mp hr
      exact h ⟨r, j, hr', hj, hjp⟩
  set s2 : St := ⟨t1, unregCaches s.c ref par chi i.pkg cur, s.next⟩ with hs2
  have step1 : TocStep s s2 := TocStep.of_del h1 (by simp [schemaDir]) _
  -- used schemas keep their directory
  have hkeep : ∀ r, U r ∧ r ≠ ref → get? t1 (schemaDir r) = some .grp := by
    intro r hr
    rw [g1 _ (by simp [schemaDir]), under_false_of_not_prefix, (hsch.sdir r).1 hr.1]
    · simp
    · have : ¬ ref = r := fun h => hr.2 h.symm
      simp [schemaDir, List.cons_prefix_cons, this]
  by_cases hreg' : RegP e (fun r => U r ∧ r ≠ ref) i.pkg
  · -- (A) the package is still needed
    have hne : (setRemove cur ref).isEmpty = false := by
      cases hx : (setRemove cur ref).isEmpty
      · rfl
      · exact absurd hreg' (hcur_nil.mp (List.isEmpty_iff.mp hx))
    obtain ⟨r0, _, hr0, _, _⟩ := hreg'
    have hchild : (children s2.raw schemasP).isEmpty = false := by
      cases hx : (children s2.raw schemasP).isEmpty
      · rfl
      · have := (children_isEmpty_iff hk1 schemasP).mp hx (.ep r0)
        have h2 := hkeep r0 hr0
        simp only [schemaDir, schemasP, List.cons_append, List.nil_append] at this h2
        rw [this] at h2; cases h2
    refine ⟨s2, ?_, ?_, ?_, rfl, step1⟩
    · rw [schemaUnregister_run ref s t1 i.parents cur par chi i.pkg s2 h1 hmem hps hupc hprov hcur (by simp [hne, hs2])]
      simp [hchild]
    · intro q hq
      have hex : ∃ r, U r ∧ r ≠ ref := ⟨r0, hr0⟩
      have hreg'' : RegP e (fun r => U r ∧ r ≠ ref) i.pkg := ⟨r0, _, hr0, ‹_›, ‹_›⟩
      have : UnregDel e (fun r => U r ∧ r ≠ ref) ref i.pkg q ↔ schemaDir ref <+: q := by
        simp [UnregDel, hex, hreg'']
      rw [this]
      constructor
      · intro h; show get? t1 q = none; rw [g1 q hq, under_true_of_prefix h]; simp
      · intro h; show get? t1 q = get? s.raw q; rw [g1 q hq, under_false_of_not_prefix h]; simp
    · have := schemaCache_unreg he hi hs hU hcur hidx false (by simp; exact ⟨r0, _, hr0, ‹_›, ‹_›⟩)
        (prov' := []) (by simp)
      simpa using this
  · -- the package record goes as well
    have hempty : (setRemove cur ref).isEmpty = true := List.isEmpty_iff.mpr (hcur_nil.mpr hreg')
    have hpk1 : get? t1 (pkgPath i.pkg) ≠ none := by
      rw [g1 _ (by simp [pkgPath]), under_false_of_not_prefix (by simp [schemaDir, pkgPath, List.cons_prefix_cons]),
        (hsch.pkg i.pkg).1 hregU]
      simp
    have h2 := rawDel_ok (t := t1) (p := pkgPath i.pkg) (by simp [pkgPath]) hpk1
    set t2 := t1.filter (fun e => !under (pkgPath i.pkg) e.1) with ht2
    have hk2 : KeysOK t2 := rawDel_keys h2 hk1
    have g2 : ∀ q, q ≠ [] → get? t2 q =
        if under (pkgPath i.pkg) q then none else if under (schemaDir ref) q then none else get? s.raw q := by
      intro q hq; rw [rawDel_get? h2 q hq, g1 q hq]
    have hinfo : alGet s2.c.pkginfos i.pkg = some (e.pkgPlugins i.pkg) :=
      (hs.pkginfos i.pkg _).mpr ⟨hregU, rfl⟩
    obtain ⟨prov', hrem, hprov'⟩ := removeProviders_spec he (RegP e U) i.pkg (e.pkgPlugins i.pkg) s.c.providers
      (he.plugins_nodup i.pkg) (fun _ h => h) (by
        intro r ps
        rw [hs.providers r ps]
        constructor
        · rintro ⟨pk', rfl, hpk', hm⟩
          by_cases h : pk' = i.pkg
          · subst h; exact Or.inr ⟨rfl, hm⟩
          · exact Or.inl ⟨pk', rfl, hpk', h, hm⟩
        · rintro (⟨pk', rfl, hpk', -, hm⟩ | ⟨rfl, hm⟩)
          · exact ⟨pk', rfl, hpk', hm⟩
          · exact ⟨i.pkg, rfl, hregU, hm⟩)
    set c3 : Caches := { unregCaches s.c ref par chi i.pkg cur with
      pkginfos := alErase s.c.pkginfos i.pkg, providers := prov' } with hc3
    have hcache : SchemaCache e (fun r => U r ∧ r ≠ ref) c3 := by
      have := schemaCache_unreg he hi hs hU hcur hidx true (by simp [hreg']) (prov' := prov') (fun _ => hprov')
      simpa using this
    have hpkrun : pkgUnregister i.pkg s2 =
        (if (children t2 packagesP).isEmpty then liftRaw (fun t => rawDel t packagesP) else pure ())
          ⟨t2, c3, s.next⟩ :=
      pkgUnregister_run i.pkg s2 t2 _ prov' h2 hinfo hrem
    have step2 : TocStep s ⟨t2, c3, s.next⟩ :=
      step1.trans (TocStep.of_del (s := s2) h2 (by simp [pkgPath]) c3)
    -- which package records are left
    have hpkchild : ∀ k, get? t2 (packagesP ++ [k]) ≠ none ↔
        ∃ pk, k = .pkg pk ∧ RegP e (fun r => U r ∧ r ≠ ref) pk := by
      intro k
      rw [g2 _ (by simp [packagesP])]
      constructor
      · intro h
        split_ifs at h with hu1 hu2
        · exact absurd rfl h
        · exact absurd rfl h
        · obtain ⟨pk, rfl⟩ := hb.pkg_child h
          have hne : pk ≠ i.pkg := by
            rintro rfl
            exact hu1 (under_true_of_prefix (by simp [pkgPath, packagesP]))
          refine ⟨pk, rfl, (RegP_remove hi pk hne).mpr ?_⟩
          by_contra hc
          exact h ((hsch.pkg pk).2 hc)
      · rintro ⟨pk, rfl, hpk⟩
        have hne : pk ≠ i.pkg := by rintro rfl; exact hreg' hpk
        have hne' : ¬ i.pkg = pk := fun h => hne h.symm
        rw [under_false_of_not_prefix (by simp [pkgPath, packagesP, List.cons_prefix_cons, hne']),
          under_false_of_not_prefix (by simp [schemaDir, packagesP, List.cons_prefix_cons])]
        simp only [Bool.false_eq_true, if_false]
        have := (hsch.pkg pk).1 ((RegP_remove hi pk hne).mp hpk)
        simp only [pkgPath, packagesP, List.cons_append, List.nil_append] at this ⊢
        rw [this]; simp
    by_cases hex : ∃ r, U r ∧ r ≠ ref
    · -- (B) other schemas (of other packages) are still in use
      obtain ⟨r0, hr0⟩ := hex
      obtain ⟨j0, hj0⟩ := hUenv r0 hr0.1
      have hreg0 : RegP e (fun r => U r ∧ r ≠ ref) j0.pkg := ⟨r0, j0, hr0, hj0, rfl⟩
      have hpkne : (children t2 packagesP).isEmpty = false := by
        cases hx : (children t2 packagesP).isEmpty
        · rfl
        · have := (children_isEmpty_iff hk2 packagesP).mp hx (.pkg j0.pkg)
          exact absurd this ((hpkchild _).mpr ⟨_, rfl, hreg0⟩)
      have hschne : (children t2 schemasP).isEmpty = false := by
        cases hx : (children t2 schemasP).isEmpty
        · rfl
        · have := (children_isEmpty_iff hk2 schemasP).mp hx (.ep r0)
          have h3 : get? t2 (schemaDir r0) = some .grp := by
            rw [rawDel_get? h2 _ (by simp [schemaDir]),
              under_false_of_not_prefix (by simp [schemaDir, pkgPath, List.cons_prefix_cons])]
            simpa using hkeep r0 hr0
          simp only [schemaDir, schemasP, List.cons_append, List.nil_append] at this h3
          rw [this] at h3; cases h3
      refine ⟨⟨t2, c3, s.next⟩, ?_, ?_, hcache, rfl, step2⟩
      · rw [schemaUnregister_run ref s t1 i.parents cur par chi i.pkg ⟨t2, c3, s.next⟩ h1 hmem hps hupc hprov hcur
          (by simp only [hempty, if_true]; rw [← hs2, hpkrun]; simp [hpkne])]
        simp [hschne]
      · intro q hq
        have : UnregDel e (fun r => U r ∧ r ≠ ref) ref i.pkg q ↔ (schemaDir ref <+: q ∨ pkgPath i.pkg <+: q) := by
          simp only [UnregDel, hreg', not_false_eq_true, true_and]
          have : ¬ ¬ ∃ r, U r ∧ r ≠ ref := fun h => h ⟨r0, hr0⟩
          simp [this]
        rw [this]
        show (_ → get? t2 q = none) ∧ (_ → get? t2 q = get? s.raw q)
        rw [g2 q hq]
        constructor
        · rintro (h | h)
          · rw [under_true_of_prefix h]; simp
          · rw [under_true_of_prefix h]; simp
        · intro h
          rw [under_false_of_not_prefix (fun h' => h (Or.inr h')), under_false_of_not_prefix (fun h' => h (Or.inl h'))]
          simp
    · -- (C) nothing is left: the bookkeeping groups go
      have hpke : (children t2 packagesP).isEmpty = true := by
        rw [children_isEmpty_iff hk2]
        intro k
        by_contra hc
        obtain ⟨pk, -, r, _, hr, -, -⟩ := (hpkchild k).mp hc
        exact hex ⟨r, hr⟩
      have hpkg2 : get? t2 packagesP ≠ none := by
        rw [g2 _ (by simp [packagesP]),
          under_false_of_not_prefix (by simp [pkgPath, packagesP, List.cons_prefix_cons]),
          under_false_of_not_prefix (by simp [schemaDir, packagesP, List.cons_prefix_cons]),
          hsch.packages.1 ⟨ref, hU⟩]
        simp
      have h3 := rawDel_ok (t := t2) (p := packagesP) (by simp [packagesP]) hpkg2
      set t3 := t2.filter (fun e => !under packagesP e.1) with ht3
      have hk3 : KeysOK t3 := rawDel_keys h3 hk2
      have g3 : ∀ q, q ≠ [] → get? t3 q = if under packagesP q then none else get? t2 q :=
        fun q hq => rawDel_get? h3 q hq
      have hsche : (children t3 schemasP).isEmpty = true := by
        rw [children_isEmpty_iff hk3]
        intro k
        rw [g3 _ (by simp [schemasP]), under_false_of_not_prefix (by simp [schemasP, packagesP, List.cons_prefix_cons]),
          g2 _ (by simp [schemasP]), under_false_of_not_prefix (by simp [schemasP, pkgPath, List.cons_prefix_cons])]
        simp only [Bool.false_eq_true, if_false]
        split_ifs with hu
        · rfl
        · by_contra hc
          obtain ⟨r, rfl⟩ := hb.schema_child hc
          have hUr : U r := by
            by_contra hn
            have := (hsch.sdir r).2 hn
            simp only [schemaDir, schemasP, List.cons_append, List.nil_append] at this hc
            exact hc this
          have hne : r ≠ ref := by
            rintro rfl
            exact hu (under_true_of_prefix (by simp [schemaDir, schemasP]))
          exact hex ⟨r, hUr, hne⟩
      have hsch3 : get? t3 schemasP ≠ none := by
        rw [g3 _ (by simp [schemasP]), under_false_of_not_prefix (by simp [schemasP, packagesP, List.cons_prefix_cons]),
          g2 _ (by simp [schemasP]), under_false_of_not_prefix (by simp [schemasP, pkgPath, List.cons_prefix_cons]),
          under_false_of_not_prefix (by simp [schemasP, schemaDir, List.cons_prefix_cons]),
          hsch.schemas.1 ⟨ref, hU⟩]
        simp
      have h4 := rawDel_ok (t := t3) (p := schemasP) (by simp [schemasP]) hsch3
      set t4 := t3.filter (fun e => !under schemasP e.1) with ht4
      have step4 : TocStep s ⟨t4, c3, s.next⟩ :=
        (step2.trans (TocStep.of_del (s := ⟨t2, c3, s.next⟩) h3 (by simp [packagesP]) c3)).trans
          (TocStep.of_del (s := ⟨t3, c3, s.next⟩) h4 (by simp [schemasP]) c3)
      refine ⟨⟨t4, c3, s.next⟩, ?_, ?_, hcache, rfl, step4⟩
      · rw [schemaUnregister_run ref s t1 i.parents cur par chi i.pkg ⟨t3, c3, s.next⟩ h1 hmem hps hupc hprov hcur
          (by simp only [hempty, if_true]; rw [← hs2, hpkrun]; simp [hpke, run_liftRaw, h3])]
        simp [hsche, run_liftRaw, h4]
      · intro q hq
        have : UnregDel e (fun r => U r ∧ r ≠ ref) ref i.pkg q ↔
            (schemaDir ref <+: q ∨ pkgPath i.pkg <+: q ∨ packagesP <+: q ∨ schemasP <+: q) := by
          simp only [UnregDel, hreg', not_false_eq_true, true_and, hex]
        rw [this]
        show (_ → get? t4 q = none) ∧ (_ → get? t4 q = get? s.raw q)
        rw [rawDel_get? h4 q hq, g3 q hq, g2 q hq]
        constructor
        · rintro (h | h | h | h)
          · rw [under_true_of_prefix h]; simp
          · rw [under_true_of_prefix h]; simp
          · rw [under_true_of_prefix h]; simp
          · rw [under_true_of_prefix h]; simp
        · intro h
          rw [under_false_of_not_prefix (fun h' => h (Or.inr (Or.inr (Or.inr h')))),
            under_false_of_not_prefix (fun h' => h (Or.inr (Or.inr (Or.inl h')))),
            under_false_of_not_prefix (fun h' => h (Or.inr (Or.inl h'))),
            under_false_of_not_prefix (fun h' => h (Or.inl h'))]
          simp

theorem TocSch.frame {e : Env} {U : SRef → Prop} {t t' : Tree} (h : TocSch e U t)
    (hf : ∀ q, (schemasP <+: q ∨ packagesP <+: q) → get? t' q = get? t q) : TocSch e U t' := by
  refine ⟨?_, fun r => ?_, fun r => ?_, fun r => ?_, ?_, fun pk => ?_⟩
  · exact h.schemas.congr (hf _ (Or.inl (List.prefix_refl _))) Iff.rfl
  · exact (h.sdir r).congr (hf _ (Or.inl (by simp [schemasP, schemaDir]))) Iff.rfl
  · exact (h.json r).congr (hf _ (Or.inl (by simp [schemasP, schemaDir]))) Iff.rfl
  · exact (h.compat r).congr (hf _ (Or.inl (by simp [schemasP, schemaDir]))) Iff.rfl
  · exact h.packages.congr (hf _ (Or.inr (List.prefix_refl _))) Iff.rfl
  · exact (h.pkg pk).congr (hf _ (Or.inr (by simp [packagesP, pkgPath]))) Iff.rfl

theorem TocSch.congr {e : Env} {U U' : SRef → Prop} {t : Tree} (h : TocSch e U t) (hU : ∀ r, U' r ↔ U r) :
    TocSch e U' t := by
  have : U' = U := funext fun r => propext (hU r)
  rw [this]; exact h

theorem TocBase.sub {t t' : Tree} (h : TocBase t)
    (hsub : ∀ q, get? t' q = none ∨ get? t' q = get? t q)
    (hkeep : ∀ q, q = tocP ∨ q = versionP ∨ q = uuidP → get? t' q = get? t q) : TocBase t' := by
  refine ⟨?_, ?_, ?_, fun rest hne => ?_⟩
  · rw [hkeep _ (Or.inl rfl)]; exact h.root
  · rw [hkeep _ (Or.inr (Or.inl rfl))]; exact h.ver
  · rw [hkeep _ (Or.inr (Or.inr rfl))]; exact h.uid
  · rcases hsub (.toc :: rest) with h' | h'
    · exact absurd h' hne
    · exact h.shape rest (h' ▸ hne)

theorem unregDel_toc {e : Env} {U' : SRef → Prop} {ref : SRef} {pk : PkgId} {q : Path}
    (h : UnregDel e U' ref pk q) : schemasP <+: q ∨ packagesP <+: q := by
  rcases h with h | ⟨-, h⟩ | ⟨-, h | h⟩
  · exact Or.inl (List.IsPrefix.trans (by simp [schemasP, schemaDir]) h)
  · exact Or.inr (List.IsPrefix.trans (by simp [packagesP, pkgPath]) h)
  · exact Or.inr h
  · exact Or.inl h

theorem linkUnregister_run1 (u : Nat) (s : St) (r : SRef) (t1 : Tree)
    (htp : alGet s.c.tocPath u = some (linkPath r u))
    (h1 : rawDel s.raw (linkPath r u) = .ok t1)
    (hne : (children t1 (linkDir r)).isEmpty = false) :
    linkUnregister u s = (.ok (), ⟨t1, { s.c with tocPath := alErase s.c.tocPath u }, s.next⟩) := by
  have hhas : has s.raw (linkPath r u) = true := has_iff.mpr (rawDel_inv h1).2.1
  have hd : (linkPath r u).dropLast = linkDir r := by simp [linkPath, linkDir]
  have hd2 : (linkDir r).dropLast = linksP := by simp [linkDir, linksP]
  have hne' : children t1 (linkDir r) ≠ [] := by simpa using hne
  simp [linkUnregister, htp, hhas, hd, hd2, run_liftRaw, h1, hne']

theorem linkUnregister_run2 (u : Nat) (s : St) (r : SRef) (t1 t2 : Tree) (s3 : St)
    (htp : alGet s.c.tocPath u = some (linkPath r u))
    (h1 : rawDel s.raw (linkPath r u) = .ok t1)
    (he : (children t1 (linkDir r)).isEmpty = true)
    (h2 : rawDel t1 (linkDir r) = .ok t2)
    (h3 : schemaUnregister r ⟨t2, { s.c with tocPath := alErase s.c.tocPath u }, s.next⟩ = (.ok (), s3)) :
    linkUnregister u s =
      (if (children s3.raw linksP).isEmpty then liftRaw (fun t => rawDel t linksP) else pure ()) s3 := by
  have hhas : has s.raw (linkPath r u) = true := has_iff.mpr (rawDel_inv h1).2.1
  have hd : (linkPath r u).dropLast = linkDir r := by simp [linkPath, linkDir]
  have hd2 : (linkDir r).dropLast = linksP := by simp [linkDir, linksP]
  have hl : (linkDir r).getLast? = some (.ep r) := by simp [linkDir]
  have he' : children t1 (linkDir r) = [] := by simpa using he
  simp only [] at h3
  simp [linkUnregister, htp, hhas, hd, hd2, hl, run_liftRaw, h1, he', h2, h3]

/-- `TOCLinks.unregister(uuid)` -/
theorem linkUnregister_spec {e : Env} (he : WFEnv e) {L : Path → SRef → Nat → Prop} {U : SRef → Prop}
    {s : St} {p0 : Path} {r : SRef} {u : Nat}
    (hk : KeysOK s.raw) (hr : TocRaw e L U s.raw) (hs : SchemaCache e U s.c) (hl : LinkCache L s.c)
    (huniq : LUniq L) (hL : L p0 r u) (hUL : ∀ r, U r ↔ ∃ p u, L p r u)
    (hUenv : ∀ r, U r → ∃ i, e.info r = some i) :
    ∃ s', linkUnregister u s = (.ok (), s') ∧
      TocRaw e (fun p r' u' => L p r' u' ∧ u' ≠ u) (fun r' => ∃ p u', L p r' u' ∧ u' ≠ u) s'.raw ∧
      SchemaCache e (fun r' => ∃ p u', L p r' u' ∧ u' ≠ u) s'.c ∧
      LinkCache (fun p r' u' => L p r' u' ∧ u' ≠ u) s'.c ∧ TocStep s s' := by
  obtain ⟨hb, hlnk, hsch⟩ := tocRaw_iff.mp hr
  have hUr : U r := (hUL r).mpr ⟨p0, u, hL⟩
  obtain ⟨i, hi⟩ := hUenv r hUr
  have htp : alGet s.c.tocPath u = some (linkPath r u) := (hl u _).mpr ⟨p0, r, hL, rfl⟩
  have hlink : get? s.raw (linkPath r u) = some (.ds (.target p0)) := hlnk.link_some p0 r u hL
  have h1 := rawDel_ok (t := s.raw) (p := linkPath r u) (by simp [linkPath]) (by rw [hlink]; simp)
  set t1 := s.raw.filter (fun e => !under (linkPath r u) e.1) with ht1
  have hk1 : KeysOK t1 := rawDel_keys h1 hk
  have g1 : ∀ q, q ≠ [] → get? t1 q = if under (linkPath r u) q then none else get? s.raw q :=
    fun q hq => rawDel_get? h1 q hq
  -- nothing but the link itself lives at or below the link path
  have hleaf : ∀ q, linkPath r u <+: q → q ≠ linkPath r u → get? s.raw q = none := by
    intro q hpre hne
    by_contra hc
    obtain ⟨b, rfl⟩ := hpre
    have := hb.shape ([.links, .ep r, .link u] ++ b) (by simpa [linkPath] using hc)
    cases b with
    | nil => simp at hne
    | cons x b => cases this
  have g1' : ∀ q, q ≠ [] → get? t1 q = if q = linkPath r u then none else get? s.raw q := by
    intro q hq
    rw [g1 q hq]
    by_cases hqe : q = linkPath r u
    · subst hqe; simp [under]
    · rw [if_neg hqe]
      by_cases hu : linkPath r u <+: q
      · rw [under_true_of_prefix hu, hleaf q hu hqe]; simp
      · rw [under_false_of_not_prefix hu]; simp
  set c1 : Caches := { s.c with tocPath := alErase s.c.tocPath u } with hc1
  have hlc : LinkCache (fun p r' u' => L p r' u' ∧ u' ≠ u) c1 := by
    intro u' tp
    show alGet (alErase s.c.tocPath u) u' = some tp ↔ _
    rw [alGet_alErase]
    by_cases hu : u' = u
    · subst hu
      simp only [if_true]
      constructor
      · intro h; cases h
      · rintro ⟨p, r', ⟨-, hne⟩, -⟩; exact absurd rfl hne
    · simp only [hu, if_false, hl u' tp]
      constructor
      · rintro ⟨p, r', hL', rfl⟩; exact ⟨p, r', ⟨hL', hu⟩, rfl⟩
      · rintro ⟨p, r', ⟨hL', -⟩, rfl⟩; exact ⟨p, r', hL', rfl⟩
  have hsc1 : SchemaCache e U c1 :=
    ⟨hs.schemas, hs.schemas_nodup, hs.index, hs.pkginfos, hs.providers, hs.used_dom, hs.used_val⟩
  -- remaining links of the schema
  have hchild1 : ∀ k, get? t1 (linkDir r ++ [k]) ≠ none ↔ ∃ p u', k = .link u' ∧ L p r u' ∧ u' ≠ u := by
    intro k
    rw [g1' _ (by simp [linkDir])]
    constructor
    · intro h
      split_ifs at h with hq
      · exact absurd rfl h
      · obtain ⟨u', rfl⟩ := hb.linkDir_child h
        have hne : u' ≠ u := by rintro rfl; exact hq (by simp [linkDir, linkPath])
        by_contra hc
        apply h
        have := hlnk.link_none r u' (fun ⟨p, hp⟩ => hc ⟨p, u', rfl, hp, hne⟩)
        simpa [linkDir, linkPath] using this
    · rintro ⟨p, u', rfl, hL', hne⟩
      have hq : ¬ (linkDir r ++ [Key.link u'] = linkPath r u) := by simp [linkDir, linkPath, hne]
      rw [if_neg hq]
      have := hlnk.link_some p r u' hL'
      simp only [linkDir, linkPath, List.cons_append, List.nil_append] at this ⊢
      rw [this]; simp
  have step1 : TocStep s ⟨t1, c1, s.next⟩ := TocStep.of_del h1 (by simp [linkPath]) c1
  by_cases hother : ∃ p u', L p r u' ∧ u' ≠ u
  · -- (i) another object of this schema is linked: only the link goes
    obtain ⟨p1, u1, hL1, hne1⟩ := hother
    have hne : (children t1 (linkDir r)).isEmpty = false := by
      cases hx : (children t1 (linkDir r)).isEmpty
      · rfl
      · exact absurd ((children_isEmpty_iff hk1 _).mp hx (.link u1)) ((hchild1 _).mpr ⟨p1, u1, rfl, hL1, hne1⟩)
    have hUiff : ∀ r', (∃ p u', L p r' u' ∧ u' ≠ u) ↔ U r' := by
      intro r'
      rw [hUL r']
      constructor
      · rintro ⟨p, u', h, -⟩; exact ⟨p, u', h⟩
      · rintro ⟨p, u', h⟩
        by_cases hu : u' = u
        · subst hu
          obtain ⟨-, rfl⟩ := huniq _ _ _ _ _ h hL
          exact ⟨p1, u1, hL1, hne1⟩
        · exact ⟨p, u', h, hu⟩
    refine ⟨⟨t1, c1, s.next⟩, linkUnregister_run1 u s r t1 htp h1 hne, ?_, hsc1.congr hUiff, hlc, step1⟩
    apply tocRaw_iff.mpr
    refine ⟨hb.sub (fun q => ?_) (fun q hq => ?_), ?_, (hsch.frame (fun q hq => ?_)).congr hUiff⟩
    · by_cases hq : q = []
      · subst hq; right; simp
      · rw [g1' q hq]; split_ifs <;> simp
    · have hq0 : q ≠ [] := by rcases hq with rfl | rfl | rfl <;> simp [tocP, versionP, uuidP]
      rw [g1' q hq0, if_neg]
      rcases hq with rfl | rfl | rfl <;> simp [tocP, versionP, uuidP, linkPath]
    · -- links part
      refine ⟨?_, fun r' => ?_, ?_, ?_⟩
      · refine Holds.intro_some ?_ ⟨p1, r, u1, hL1, hne1⟩
        rw [g1' _ (by simp [linksP]), if_neg (by simp [linksP, linkPath])]
        exact hlnk.links.1 ⟨p0, r, u, hL⟩
      · refine (hlnk.ldir r').congr ?_ ?_
        · rw [g1' _ (by simp [linkDir]), if_neg (by simp [linkDir, linkPath])]
        · constructor
          · rintro ⟨p, u', h, -⟩; exact ⟨p, u', h⟩
          · rintro ⟨p, u', h⟩
            by_cases hu : u' = u
            · subst hu
              obtain ⟨-, rfl⟩ := huniq _ _ _ _ _ h hL
              exact ⟨p1, u1, hL1, hne1⟩
            · exact ⟨p, u', h, hu⟩
      · rintro p r' u' ⟨hL', hne'⟩
        rw [g1' _ (by simp [linkPath]), if_neg (by simp [linkPath, hne'])]
        exact hlnk.link_some p r' u' hL'
      · intro r' u' hno
        rw [g1' _ (by simp [linkPath])]
        split_ifs with hq
        · rfl
        · apply hlnk.link_none r' u'
          rintro ⟨p, hp⟩
          by_cases hu : u' = u
          · subst hu
            obtain ⟨-, rfl⟩ := huniq _ _ _ _ _ hp hL
            exact hq rfl
          · exact hno ⟨p, hp, hu⟩
    · rw [g1' q (by rcases hq with ⟨b, rfl⟩ | ⟨b, rfl⟩ <;> simp [schemasP, packagesP]), if_neg]
      rcases hq with ⟨b, rfl⟩ | ⟨b, rfl⟩ <;> simp [schemasP, packagesP, linkPath]
  · -- (ii) the schema is not in use any more
    have he1 : (children t1 (linkDir r)).isEmpty = true := by
      rw [children_isEmpty_iff hk1]
      intro k
      by_contra hc
      obtain ⟨p, u', -, hL', hne⟩ := (hchild1 k).mp hc
      exact hother ⟨p, u', hL', hne⟩
    have hld1 : get? t1 (linkDir r) ≠ none := by
      rw [g1' _ (by simp [linkDir]), if_neg (by simp [linkDir, linkPath]), (hlnk.ldir r).1 ⟨p0, u, hL⟩]; simp
    have h2 := rawDel_ok (t := t1) (p := linkDir r) (by simp [linkDir]) hld1
    set t2 := t1.filter (fun e => !under (linkDir r) e.1) with ht2
    have hk2 : KeysOK t2 := rawDel_keys h2 hk1
    have g2 : ∀ q, q ≠ [] → get? t2 q = if under (linkDir r) q then none else get? s.raw q := by
      intro q hq
      rw [rawDel_get? h2 q hq, g1' q hq]
      by_cases hu : linkDir r <+: q
      · rw [under_true_of_prefix hu]; simp
      · rw [under_false_of_not_prefix hu]
        have : q ≠ linkPath r u := by
          rintro rfl; exact hu (by simp [linkDir, linkPath])
        simp [this]
    have step2 : TocStep s ⟨t2, c1, s.next⟩ :=
      step1.trans (TocStep.of_del (s := ⟨t1, c1, s.next⟩) h2 (by simp [linkDir]) c1)
    have hnot_toc : ∀ q, (schemasP <+: q ∨ packagesP <+: q) → ¬ linkDir r <+: q := by
      rintro q (⟨b, rfl⟩ | ⟨b, rfl⟩) <;> simp [schemasP, packagesP, linkDir, List.cons_prefix_cons]
    have hb2 : TocBase t2 := by
      refine hb.sub (fun q => ?_) (fun q hq => ?_)
      · by_cases hq : q = []
        · subst hq; right; simp
        · rw [g2 q hq]; split_ifs <;> simp
      · have hq0 : q ≠ [] := by rcases hq with rfl | rfl | rfl <;> simp [tocP, versionP, uuidP]
        rw [g2 q hq0, under_false_of_not_prefix]
        · simp
        · rcases hq with rfl | rfl | rfl <;> simp [tocP, versionP, uuidP, linkDir, List.cons_prefix_cons]
    have hsch2 : TocSch e U t2 := by
      refine hsch.frame (fun q hq => ?_)
      have hq0 : q ≠ [] := by rcases hq with ⟨b, rfl⟩ | ⟨b, rfl⟩ <;> simp [schemasP, packagesP]
      rw [g2 q hq0, under_false_of_not_prefix (hnot_toc q hq)]; simp
    obtain ⟨s3, hrun3, hget3, hcache3, htp3, step3⟩ :=
      schemaUnregister_spec he hi hUenv (s := ⟨t2, c1, s.next⟩) hk2 hb2 hsch2 hsc1 hUr
    have hUiff : ∀ r', (∃ p u', L p r' u' ∧ u' ≠ u) ↔ (U r' ∧ r' ≠ r) := by
      intro r'
      constructor
      · rintro ⟨p, u', h, hne⟩
        refine ⟨(hUL r').mpr ⟨p, u', h⟩, ?_⟩
        rintro rfl; exact hother ⟨p, u', h, hne⟩
      · rintro ⟨hU', hne⟩
        obtain ⟨p, u', h⟩ := (hUL r').mp hU'
        refine ⟨p, u', h, ?_⟩
        rintro rfl
        obtain ⟨-, rfl⟩ := huniq _ _ _ _ _ h hL
        exact hne rfl
    have hsch3 : TocSch e (fun r' => ∃ p u', L p r' u' ∧ u' ≠ u) s3.raw :=
      (tocSch_unregister hi hUenv hsch2 hget3).congr hUiff
    have hcache3' : SchemaCache e (fun r' => ∃ p u', L p r' u' ∧ u' ≠ u) s3.c := hcache3.congr hUiff
    have hk3 : KeysOK s3.raw := step3.keys hk2
    -- lookups below `links/` after the schema part was cleaned up
    have g3 : ∀ q, linksP <+: q → get? s3.raw q = if under (linkDir r) q then none else get? s.raw q := by
      intro q hq
      have hq0 : q ≠ [] := by obtain ⟨b, rfl⟩ := hq; simp [linksP]
      rw [(hget3 q hq0).2 ?_]
      · exact g2 q hq0
      · intro hd
        obtain ⟨b, rfl⟩ := hq
        rcases unregDel_toc hd with h | h <;> simp [schemasP, packagesP, linksP, List.cons_prefix_cons] at h
    have hsub3 : ∀ q, get? s3.raw q = none ∨ get? s3.raw q = get? s.raw q := by
      intro q
      by_cases hq : q = []
      · subst hq; right; simp
      · by_cases hd : UnregDel e (fun r' => U r' ∧ r' ≠ r) r i.pkg q
        · left; exact (hget3 q hq).1 hd
        · rw [(hget3 q hq).2 hd, g2 q hq]; split_ifs <;> simp
    have hkeep3 : ∀ q, q = tocP ∨ q = versionP ∨ q = uuidP → get? s3.raw q = get? s.raw q := by
      intro q hq
      have hq0 : q ≠ [] := by rcases hq with rfl | rfl | rfl <;> simp [tocP, versionP, uuidP]
      rw [(hget3 q hq0).2 ?_, g2 q hq0, under_false_of_not_prefix]
      · simp
      · rcases hq with rfl | rfl | rfl <;> simp [tocP, versionP, uuidP, linkDir, List.cons_prefix_cons]
      · intro hd
        rcases unregDel_toc hd with h | h <;>
          rcases hq with rfl | rfl | rfl <;>
          simp [schemasP, packagesP, tocP, versionP, uuidP, List.cons_prefix_cons] at h
    have hlc3 : LinkCache (fun p r' u' => L p r' u' ∧ u' ≠ u) s3.c := by
      intro u' tp; rw [htp3]; exact hlc u' tp
    -- the links part, as long as the `links` group itself is kept
    have hldir3 : ∀ r', Holds (get? s3.raw (linkDir r')) (∃ p u', L p r' u' ∧ u' ≠ u) .grp := by
      intro r'
      rw [g3 _ (by simp [linksP, linkDir])]
      by_cases hrr : r' = r
      · subst hrr
        rw [under_true_of_prefix (List.prefix_refl _)]
        exact ⟨fun h => absurd h hother, fun _ => rfl⟩
      · have hrr' : ¬ r = r' := fun h => hrr h.symm
        rw [under_false_of_not_prefix (by simp [linkDir, List.cons_prefix_cons, hrr'])]
        refine (hlnk.ldir r').congr (by simp) ?_
        constructor
        · rintro ⟨p, u', h, -⟩; exact ⟨p, u', h⟩
        · rintro ⟨p, u', h⟩
          refine ⟨p, u', h, ?_⟩
          rintro rfl
          obtain ⟨-, rfl⟩ := huniq _ _ _ _ _ h hL
          exact hrr rfl
    have hlsome3 : ∀ p r' u', L p r' u' ∧ u' ≠ u → get? s3.raw (linkPath r' u') = some (.ds (.target p)) := by
      rintro p r' u' ⟨hL', hne⟩
      have hrr : ¬ r = r' := by rintro rfl; exact hother ⟨p, u', hL', hne⟩
      rw [g3 _ (by simp [linksP, linkPath]), under_false_of_not_prefix (by simp [linkDir, linkPath, List.cons_prefix_cons, hrr])]
      simpa using hlnk.link_some p r' u' hL'
    have hlnone3 : ∀ r' u', (¬ ∃ p, L p r' u' ∧ u' ≠ u) → get? s3.raw (linkPath r' u') = none := by
      intro r' u' hno
      rw [g3 _ (by simp [linksP, linkPath])]
      split_ifs with hu
      · rfl
      · apply hlnk.link_none r' u'
        rintro ⟨p, hp⟩
        by_cases huu : u' = u
        · subst huu
          obtain ⟨-, rfl⟩ := huniq _ _ _ _ _ hp hL
          exact hu (under_true_of_prefix (by simp [linkDir, linkPath]))
        · exact hno ⟨p, hp, huu⟩
    have hlinks3 : get? s3.raw linksP = some .grp := by
      rw [g3 _ (List.prefix_refl _), under_false_of_not_prefix (by simp [linkDir, linksP, List.cons_prefix_cons])]
      simpa using hlnk.links.1 ⟨p0, r, u, hL⟩
    have hlchild3 : ∀ k, get? s3.raw (linksP ++ [k]) ≠ none ↔ ∃ r', k = .ep r' ∧ ∃ p u', L p r' u' ∧ u' ≠ u := by
      intro k
      constructor
      · intro h
        have h' : get? s.raw (linksP ++ [k]) ≠ none := by
          rcases hsub3 (linksP ++ [k]) with hx | hx
          · exact absurd hx h
          · rw [← hx]; exact h
        obtain ⟨r', rfl⟩ := hb.link_child h'
        refine ⟨r', rfl, ?_⟩
        by_contra hc
        have := (hldir3 r').2 hc
        simp only [linkDir, linksP, List.cons_append, List.nil_append] at this h
        exact h this
      · rintro ⟨r', rfl, hex⟩
        have := (hldir3 r').1 hex
        simp only [linkDir, linksP, List.cons_append, List.nil_append] at this ⊢
        rw [this]; simp
    have hrun : linkUnregister u s =
        (if (children s3.raw linksP).isEmpty then liftRaw (fun t => rawDel t linksP) else pure ()) s3 :=
      linkUnregister_run2 u s r t1 t2 s3 htp h1 he1 h2 hrun3
    by_cases hex : ∃ p r' u', L p r' u' ∧ u' ≠ u
    · -- other schemas are still linked
      obtain ⟨p1, r1, u1, hL1⟩ := hex
      have hne : (children s3.raw linksP).isEmpty = false := by
        cases hx : (children s3.raw linksP).isEmpty
        · rfl
        · exact absurd ((children_isEmpty_iff hk3 _).mp hx (.ep r1)) ((hlchild3 _).mpr ⟨r1, rfl, p1, u1, hL1⟩)
      refine ⟨s3, by rw [hrun]; simp [hne], ?_, hcache3', hlc3, step2.trans step3⟩
      apply tocRaw_iff.mpr
      exact ⟨hb.sub hsub3 hkeep3, ⟨Holds.intro_some hlinks3 ⟨p1, r1, u1, hL1⟩, hldir3, hlsome3, hlnone3⟩, hsch3⟩
    · -- nothing is linked any more: the `links` group goes
      have hemp : (children s3.raw linksP).isEmpty = true := by
        rw [children_isEmpty_iff hk3]
        intro k
        by_contra hc
        obtain ⟨r', -, p, u', h⟩ := (hlchild3 k).mp hc
        exact hex ⟨p, r', u', h⟩
      have h4 := rawDel_ok (t := s3.raw) (p := linksP) (by simp [linksP]) (by rw [hlinks3]; simp)
      set t4 := s3.raw.filter (fun e => !under linksP e.1) with ht4
      have g4 : ∀ q, q ≠ [] → get? t4 q = if under linksP q then none else get? s3.raw q :=
        fun q hq => rawDel_get? h4 q hq
      refine ⟨⟨t4, s3.c, s3.next⟩, by rw [hrun]; simp [hemp, run_liftRaw, h4], ?_, hcache3', hlc3,
        (step2.trans step3).trans (TocStep.of_del (s := s3) h4 (by simp [linksP]) s3.c)⟩
      apply tocRaw_iff.mpr
      refine ⟨(hb.sub hsub3 hkeep3).sub (fun q => ?_) (fun q hq => ?_), ?_, hsch3.frame (fun q hq => ?_)⟩
      · by_cases hq : q = []
        · subst hq; right; simp
        · rw [g4 q hq]; split_ifs <;> simp
      · have hq0 : q ≠ [] := by rcases hq with rfl | rfl | rfl <;> simp [tocP, versionP, uuidP]
        rw [g4 q hq0, under_false_of_not_prefix]
        · simp
        · rcases hq with rfl | rfl | rfl <;> simp [tocP, versionP, uuidP, linksP, List.cons_prefix_cons]
      · refine ⟨⟨fun h => absurd h hex, fun _ => ?_⟩, fun r' => ⟨fun ⟨p, u', h⟩ => absurd ⟨p, r', u', h⟩ hex, fun _ => ?_⟩,
          fun p r' u' h => absurd ⟨p, r', u', h⟩ hex, fun r' u' _ => ?_⟩
        · rw [g4 _ (by simp [linksP]), under_true_of_prefix (List.prefix_refl _)]; simp
        · rw [g4 _ (by simp [linkDir]), under_true_of_prefix (by simp [linksP, linkDir])]; simp
        · rw [g4 _ (by simp [linkPath]), under_true_of_prefix (by simp [linksP, linkPath])]; simp
      · have hq0 : q ≠ [] := by rcases hq with ⟨b, rfl⟩ | ⟨b, rfl⟩ <;> simp [schemasP, packagesP]
        rw [g4 q hq0, under_false_of_not_prefix]
        · simp
        · rcases hq with ⟨b, rfl⟩ | ⟨b, rfl⟩ <;> simp [schemasP, packagesP, linksP, List.cons_prefix_cons]

end MetadorModel.Container
