import MetadorModel.Proofs.ContainerTree
/-!
# TOC bookkeeping of the container model: specification of the `/metador_container` subtree and
of the in-memory caches as a function of the linked objects / used schemas, and its
preservation by `TOCSchemas._register/_unregister`, `TOCLinks.register/unregister/update`.
-/
namespace MetadorModel.Container

/-! ### running the state-and-exception monad -/
section Run
variable {α β : Type}
@[simp] theorem run_pure (a : α) (s : St) : (pure a : M α) s = (.ok a, s) := rfl
@[simp] theorem run_bind (m : M α) (f : α → M β) (s : St) :
    (m >>= f) s = match m s with
      | (.ok a, s') => f a s'
      | (.error e, s') => (.error e, s') := rfl
@[simp] theorem run_raise (e : Err) (s : St) : (raise e : M α) s = (.error e, s) := rfl
@[simp] theorem run_getSt (s : St) : getSt s = (.ok s, s) := rfl
@[simp] theorem run_modifySt (f : St → St) (s : St) : modifySt f s = (.ok (), f s) := rfl
@[simp] theorem run_modC (f : Caches → Caches) (s : St) : modC f s = (.ok (), { s with c := f s.c }) := rfl
theorem run_liftRaw (f : Tree → Except Err Tree) (s : St) :
    liftRaw f s = match f s.raw with
      | .ok t => (.ok (), { s with raw := t })
      | .error e => (.error e, s) := rfl
@[simp] theorem run_ofOpt_some (e : Err) (a : α) (s : St) : ofOpt e (some a) s = (.ok a, s) := rfl
@[simp] theorem run_ofOpt_none (e : Err) (s : St) : (ofOpt e (none : Option α)) s = (.error e, s) := rfl
end Run

/-! ### schema environment -/

/-- `schemas.parent_path(r)` of the environment (`[]` for a reference that is not installed) -/
def ppath (e : Env) (r : SRef) : List SRef :=
  match e.info r with
  | some i => i.parents
  | none => []

/-- requirements on the schema environment (checked on the real plugin system by the harness) -/
structure WFEnv (e : Env) : Prop where
  /-- parent paths end in the schema itself -/
  last : ∀ r i, e.info r = some i → i.parents.getLast? = some r
  /-- no schema occurs twice in a parent path -/
  nodup : ∀ r i, e.info r = some i → i.parents.Nodup
  /-- every non-empty prefix of a parent path is the parent path of its last element -/
  closed : ∀ r i a b, e.info r = some i → i.parents = a ++ b → a ≠ [] →
    ∃ p, a.getLast? = some p ∧ ppath e p = a
  /-- the providing package lists the schema -/
  prov : ∀ r i, e.info r = some i → r ∈ e.pkgPlugins i.pkg
  /-- a schema is listed by one package only -/
  disj : ∀ pk pk' r, r ∈ e.pkgPlugins pk → r ∈ e.pkgPlugins pk' → pk = pk'

theorem info_ref {e : Env} {r : SRef} {i : SInfo} (h : e.info r = some i) : i.ref = r := by
  unfold Env.info at h
  have := List.find?_some h
  simpa using this

/-! ### the schema index `_parents` / `_children` -/

/-- the container-local schema index is exactly what the set `U` of used schemas determines -/
structure IndexOK (e : Env) (U : SRef → Prop) (par chi : List (SRef × List SRef)) : Prop where
  dom : ∀ P, (alGet chi P).isSome ↔ ∃ S, U S ∧ P ∈ ppath e S
  domp : ∀ P, (alGet par P).isSome ↔ (alGet chi P).isSome
  par_val : ∀ P l, alGet par P = some l → l = ppath e P
  chi_val : ∀ P cs, alGet chi P = some cs → cs.Nodup ∧ ∀ S, S ∈ cs ↔ (U S ∧ P ∈ ppath e S ∧ S ≠ P)

/-- loop invariant of `upcAdd`: `ref` already counts for the ancestors in `done` -/
structure IndexMid (e : Env) (U : SRef → Prop) (ref : SRef) (done : List SRef)
    (par chi : List (SRef × List SRef)) : Prop where
  dom : ∀ P, (alGet chi P).isSome ↔ ((∃ S, U S ∧ P ∈ ppath e S) ∨ P ∈ done)
  domp : ∀ P, (alGet par P).isSome ↔ (alGet chi P).isSome
  par_val : ∀ P l, alGet par P = some l → l = ppath e P
  chi_val : ∀ P cs, alGet chi P = some cs → cs.Nodup ∧
    ∀ S, S ∈ cs ↔ ((U S ∧ P ∈ ppath e S ∧ S ≠ P) ∨ (S = ref ∧ P ∈ done ∧ P ≠ ref))

theorem upcAdd_mid (e : Env) (he : WFEnv e) (U : SRef → Prop) (ref : SRef) (i : SInfo)
    (hi : e.info ref = some i) :
    ∀ (rest done : List SRef) (par chi : List (SRef × List SRef)),
      i.parents = done ++ rest → IndexMid e U ref done par chi →
      IndexMid e U ref i.parents (upcAdd ref par chi done rest).1 (upcAdd ref par chi done rest).2
  | [], done, par, chi, hl, hm => by
    simp only [List.append_nil] at hl
    simp only [upcAdd]
    rw [hl]; exact hm
  | p :: rest, done, par, chi, hl, hm => by
    simp only [upcAdd]
    apply upcAdd_mid e he U ref i hi rest (done ++ [p])
    · simp [hl]
    · -- one iteration of the loop
      have hpp : ppath e p = done ++ [p] := by
        obtain ⟨p', hp', hpp⟩ := he.closed ref i (done ++ [p]) rest hi (by simp [hl]) (by simp)
        simp at hp'; subst hp'; exact hpp
      have hpdone : p ∉ done := by
        have := he.nodup ref i hi
        rw [hl] at this
        intro hmem
        have := (List.nodup_append.mp this).2.2 p hmem p (by simp)
        exact this rfl
      set par1 := if (alGet par p).isNone then alSet par p (done ++ [p]) else par with hpar1
      set chi1 := if (alGet chi p).isNone then alSet chi p [] else chi with hchi1
      have hchi1_get : ∀ x, alGet chi1 x = if x = p then some ((alGet chi p).getD []) else alGet chi x := by
        intro x
        rw [hchi1]
        cases hc : alGet chi p with
        | none =>
          simp only [Option.isNone_none, if_true, alGet_alSet, Option.getD_none]
        | some cs =>
          simp only [Option.isNone_some, Bool.false_eq_true, if_false, Option.getD_some]
          by_cases hx : x = p
          · subst hx; simp [hc]
          · simp [hx]
      have hpar1_get : ∀ x, alGet par1 x = if x = p then some ((alGet par p).getD (done ++ [p])) else alGet par x := by
        intro x
        rw [hpar1]
        cases hc : alGet par p with
        | none => simp only [Option.isNone_none, if_true, alGet_alSet, Option.getD_none]
        | some cs =>
          simp only [Option.isNone_some, Bool.false_eq_true, if_false, Option.getD_some]
          by_cases hx : x = p
          · subst hx; simp [hc]
          · simp [hx]
      constructor
      · intro P
        by_cases hp : p ≠ ref
        · simp only [hp, ne_eq, not_false_eq_true, if_true, alGet_alSet, hchi1_get]
          by_cases hP : P = p
          · subst hP; simp
          · simp [hP, hm.dom P]
        · simp only [hp, if_false, hchi1_get]
          by_cases hP : P = p
          · subst hP; simp
          · simp [hP, hm.dom P]
      · intro P
        rw [hpar1_get]
        by_cases hp : p ≠ ref
        · simp only [hp, ne_eq, not_false_eq_true, if_true, alGet_alSet, hchi1_get]
          by_cases hP : P = p
          · subst hP; simp
          · simp [hP, hm.domp P]
        · simp only [hp, if_false, hchi1_get]
          by_cases hP : P = p
          · subst hP; simp
          · simp [hP, hm.domp P]
      · intro P l hl'
        rw [hpar1_get] at hl'
        by_cases hP : P = p
        · subst hP
          simp only [if_true, Option.some.injEq] at hl'
          cases hc : alGet par P with
          | none => rw [hc] at hl'; simp at hl'; rw [← hl', hpp]
          | some l0 => rw [hc] at hl'; simp at hl'; subst hl'; exact hm.par_val P l0 hc
        · simp only [hP, if_false] at hl'
          exact hm.par_val P l hl'
      · intro P cs hcs
        -- value of children[P] after the iteration
        have hold : ∀ cs0, alGet chi P = some cs0 → cs0.Nodup ∧
            ∀ S, S ∈ cs0 ↔ ((U S ∧ P ∈ ppath e S ∧ S ≠ P) ∨ (S = ref ∧ P ∈ done ∧ P ≠ ref)) := hm.chi_val P
        by_cases hp : p ≠ ref
        · simp only [hp, ne_eq, not_false_eq_true, if_true, alGet_alSet, hchi1_get] at hcs
          by_cases hP : P = p
          · subst hP
            simp only [if_true, Option.some.injEq] at hcs
            subst hcs
            cases hc : alGet chi P with
            | none =>
              have hnd : ¬ ((∃ S, U S ∧ P ∈ ppath e S) ∨ P ∈ done) := by
                rw [← hm.dom P, hc]; simp
              simp only [Option.getD_none, Option.getD_some]
              refine ⟨by simp [setAdd], fun S => ?_⟩
              simp only [mem_setAdd, List.not_mem_nil, false_or, List.mem_append, List.mem_singleton, or_true, true_and]
              constructor
              · rintro rfl; exact Or.inr ⟨rfl, hp⟩
              · rintro (⟨hU, hmem, -⟩ | ⟨rfl, -⟩)
                · exact absurd (Or.inl ⟨S, hU, hmem⟩) hnd
                · rfl
            | some cs0 =>
              obtain ⟨hnd, hmem⟩ := hold cs0 hc
              simp only [Option.getD_some]
              refine ⟨nodup_setAdd hnd _, fun S => ?_⟩
              simp only [mem_setAdd, hmem, List.mem_append, List.mem_singleton, or_true, true_and]
              constructor
              · rintro ((h | ⟨rfl, hd, -⟩) | rfl)
                · exact Or.inl h
                · exact absurd hd hpdone
                · exact Or.inr ⟨rfl, hp⟩
              · rintro (h | ⟨rfl, -⟩)
                · exact Or.inl (Or.inl h)
                · exact Or.inr rfl
          · simp only [hP, if_false] at hcs
            obtain ⟨hnd, hmem⟩ := hold cs hcs
            refine ⟨hnd, fun S => ?_⟩
            simp only [hmem, List.mem_append, List.mem_singleton, hP, or_false]
        · have hp' : p = ref := by simpa using hp
          simp only [hp, if_false, hchi1_get] at hcs
          by_cases hP : P = p
          · subst hP
            simp only [if_true, Option.some.injEq] at hcs
            subst hcs
            cases hc : alGet chi P with
            | none =>
              have hnd : ¬ ((∃ S, U S ∧ P ∈ ppath e S) ∨ P ∈ done) := by
                rw [← hm.dom P, hc]; simp
              simp only [Option.getD_none]
              refine ⟨List.nodup_nil, fun S => ?_⟩
              simp only [List.not_mem_nil, false_iff, not_or, not_and]
              refine ⟨fun hU hmem _ => hnd (Or.inl ⟨S, hU, hmem⟩), fun _ _ => fun h => h hp'⟩
            | some cs0 =>
              obtain ⟨hnd, hmem⟩ := hold cs0 hc
              simp only [Option.getD_some]
              refine ⟨hnd, fun S => ?_⟩
              simp only [hmem, List.mem_append, List.mem_singleton, or_true, true_and]
              constructor
              · rintro (h | ⟨rfl, hd, hne⟩)
                · exact Or.inl h
                · exact absurd hp' hne
              · rintro (h | ⟨rfl, hne⟩)
                · exact Or.inl h
                · exact absurd hp' hne
          · simp only [hP, if_false] at hcs
            obtain ⟨hnd, hmem⟩ := hold cs hcs
            refine ⟨hnd, fun S => ?_⟩
            simp only [hmem, List.mem_append, List.mem_singleton, hP, or_false]

end MetadorModel.Container
