import MetadorModel.Proofs.ContainerTree
/-!
# TOC bookkeeping of the container model: specification of the `/metador_container` subtree and
of the in-memory caches as a function of the linked objects / used schemas, and its
preservation by `TOCSchemas._register/_unregister`, `TOCLinks.register/unregister/update`.
-/
namespace MetadorModel.Container

/-! ### running the state-and-exception monad -/
section Run
variable {α β : Type}
@[simp] theorem run_pure (a : α) (s : St) : (pure a : M α) s = (.ok a, s) := rfl
@[simp] theorem run_bind (m : M α) (f : α → M β) (s : St) :
    (m >>= f) s = match m s with
      | (.ok a, s') => f a s'
      | (.error e, s') => (.error e, s') := rfl
@[simp] theorem run_raise (e : Err) (s : St) : (raise e : M α) s = (.error e, s) := rfl
@[simp] theorem run_getSt (s : St) : getSt s = (.ok s, s) := rfl
@[simp] theorem run_modifySt (f : St → St) (s : St) : modifySt f s = (.ok (), f s) := rfl
@[simp] theorem run_modC (f : Caches → Caches) (s : St) : modC f s = (.ok (), { s with c := f s.c }) := rfl
theorem run_liftRaw (f : Tree → Except Err Tree) (s : St) :
    liftRaw f s = match f s.raw with
      | .ok t => (.ok (), { s with raw := t })
      | .error e => (.error e, s) := rfl
@[simp] theorem run_ofOpt_some (e : Err) (a : α) (s : St) : ofOpt e (some a) s = (.ok a, s) := rfl
@[simp] theorem run_ofOpt_none (e : Err) (s : St) : (ofOpt e (none : Option α)) s = (.error e, s) := rfl
end Run

/-! ### schema environment -/

/-- `schemas.parent_path(r)` of the environment (`[]` for a reference that is not installed) -/
def ppath (e : Env) (r : SRef) : List SRef :=
  match e.info r with
  | some i => i.parents
  | none => []

/-- requirements on the schema environment (checked on the real plugin system by the harness) -/
structure WFEnv (e : Env) : Prop where
  /-- parent paths end in the schema itself -/
  last : ∀ r i, e.info r = some i → i.parents.getLast? = some r
  /-- no schema occurs twice in a parent path -/
  nodup : ∀ r i, e.info r = some i → i.parents.Nodup
  /-- every non-empty prefix of a parent path is the parent path of its last element -/
  closed : ∀ r i a b, e.info r = some i → i.parents = a ++ b → a ≠ [] →
    ∃ p, a.getLast? = some p ∧ ppath e p = a
  /-- the providing package lists the schema -/
  prov : ∀ r i, e.info r = some i → r ∈ e.pkgPlugins i.pkg
  /-- a schema is listed by one package only -/
  disj : ∀ pk pk' r, r ∈ e.pkgPlugins pk → r ∈ e.pkgPlugins pk' → pk = pk'

theorem info_ref {e : Env} {r : SRef} {i : SInfo} (h : e.info r = some i) : i.ref = r := by
  unfold Env.info at h
  have := List.find?_some h
  simpa using this

/-! ### the schema index `_parents` / `_children` -/

/-- the container-local schema index is exactly what the set `U` of used schemas determines -/
structure IndexOK (e : Env) (U : SRef → Prop) (par chi : List (SRef × List SRef)) : Prop where
  dom : ∀ P, (alGet chi P).isSome ↔ ∃ S, U S ∧ P ∈ ppath e S
  domp : ∀ P, (alGet par P).isSome ↔ (alGet chi P).isSome
  par_val : ∀ P l, alGet par P = some l → l = ppath e P
  chi_val : ∀ P cs, alGet chi P = some cs → cs.Nodup ∧ ∀ S, S ∈ cs ↔ (U S ∧ P ∈ ppath e S ∧ S ≠ P)

/-- loop invariant of `upcAdd`: `ref` already counts for the ancestors in `done` -/
structure IndexMid (e : Env) (U : SRef → Prop) (ref : SRef) (done : List SRef)
    (par chi : List (SRef × List SRef)) : Prop where
  dom : ∀ P, (alGet chi P).isSome ↔ ((∃ S, U S ∧ P ∈ ppath e S) ∨ P ∈ done)
  domp : ∀ P, (alGet par P).isSome ↔ (alGet chi P).isSome
  par_val : ∀ P l, alGet par P = some l → l = ppath e P
  chi_val : ∀ P cs, alGet chi P = some cs → cs.Nodup ∧
    ∀ S, S ∈ cs ↔ ((U S ∧ P ∈ ppath e S ∧ S ≠ P) ∨ (S = ref ∧ P ∈ done ∧ P ≠ ref))

theorem upcAdd_mid (e : Env) (he : WFEnv e) (U : SRef → Prop) (ref : SRef) (i : SInfo)
    (hi : e.info ref = some i) :
    ∀ (rest done : List SRef) (par chi : List (SRef × List SRef)),
      i.parents = done ++ rest → IndexMid e U ref done par chi →
      IndexMid e U ref i.parents (upcAdd ref par chi done rest).1 (upcAdd ref par chi done rest).2
  | [], done, par, chi, hl, hm => by
    simp only [List.append_nil] at hl
    simp only [upcAdd]
    rw [hl]; exact hm
  | p :: rest, done, par, chi, hl, hm => by
    simp only [upcAdd]
    apply upcAdd_mid e he U ref i hi rest (done ++ [p])
    · simp [hl]
    · -- one iteration of the loop
      have hpp : ppath e p = done ++ [p] := by
        obtain ⟨p', hp', hpp⟩ := he.closed ref i (done ++ [p]) rest hi (by simp [hl]) (by simp)
        simp at hp'; subst hp'; exact hpp
      have hpdone : p ∉ done := by
        have := he.nodup ref i hi
        rw [hl] at this
        intro hmem
        have := (List.nodup_append.mp this).2.2 p hmem p (by simp)
        exact this rfl
      set par1 := if (alGet par p).isNone then alSet par p (done ++ [p]) else par with hpar1
      set chi1 := if (alGet chi p).isNone then alSet chi p [] else chi with hchi1
      have hchi1_get : ∀ x, alGet chi1 x = if x = p then some ((alGet chi p).getD []) else alGet chi x := by
        intro x
        rw [hchi1]
        cases hc : alGet chi p with
        | none =>
          simp only [Option.isNone_none, if_true, alGet_alSet, Option.getD_none]
        | some cs =>
          simp only [Option.isNone_some, Bool.false_eq_true, if_false, Option.getD_some]
          by_cases hx : x = p
          · subst hx; simp [hc]
          · simp [hx]
      have hpar1_get : ∀ x, alGet par1 x = if x = p then some ((alGet par p).getD (done ++ [p])) else alGet par x := by
        intro x
        rw [hpar1]
        cases hc : alGet par p with
        | none => simp only [Option.isNone_none, if_true, alGet_alSet, Option.getD_none]
        | some cs =>
          simp only [Option.isNone_some, Bool.false_eq_true, if_false, Option.getD_some]
          by_cases hx : x = p
          · subst hx; simp [hc]
          · simp [hx]
      constructor
      · intro P
        by_cases hp : p ≠ ref
        · simp only [hp, ne_eq, not_false_eq_true, if_true, alGet_alSet, hchi1_get]
          by_cases hP : P = p
          · subst hP; simp
          · simp [hP, hm.dom P]
        · simp only [hp, if_false, hchi1_get]
          by_cases hP : P = p
          · subst hP; simp
          · simp [hP, hm.dom P]
      · intro P
        rw [hpar1_get]
        by_cases hp : p ≠ ref
        · simp only [hp, ne_eq, not_false_eq_true, if_true, alGet_alSet, hchi1_get]
          by_cases hP : P = p
          · subst hP; simp
          · simp [hP, hm.domp P]
        · simp only [hp, if_false, hchi1_get]
          by_cases hP : P = p
          · subst hP; simp
          · simp [hP, hm.domp P]
      · intro P l hl'
        rw [hpar1_get] at hl'
        by_cases hP : P = p
        · subst hP
          simp only [if_true, Option.some.injEq] at hl'
          cases hc : alGet par P with
          | none => rw [hc] at hl'; simp at hl'; rw [← hl', hpp]
          | some l0 => rw [hc] at hl'; simp at hl'; subst hl'; exact hm.par_val P l0 hc
        · simp only [hP, if_false] at hl'
          exact hm.par_val P l hl'
      · intro P cs hcs
        -- value of children[P] after the iteration
        have hold : ∀ cs0, alGet chi P = some cs0 → cs0.Nodup ∧
            ∀ S, S ∈ cs0 ↔ ((U S ∧ P ∈ ppath e S ∧ S ≠ P) ∨ (S = ref ∧ P ∈ done ∧ P ≠ ref)) := hm.chi_val P
        by_cases hp : p ≠ ref
        · simp only [hp, ne_eq, not_false_eq_true, if_true, alGet_alSet, hchi1_get] at hcs
          by_cases hP : P = p
          · subst hP
            simp only [if_true, Option.some.injEq] at hcs
            subst hcs
            cases hc : alGet chi P with
            | none =>
              have hnd : ¬ ((∃ S, U S ∧ P ∈ ppath e S) ∨ P ∈ done) := by
                rw [← hm.dom P, hc]; simp
              simp only [Option.getD_none, Option.getD_some]
              refine ⟨by simp [setAdd], fun S => ?_⟩
              simp only [mem_setAdd, List.not_mem_nil, false_or, List.mem_append, List.mem_singleton, or_true, true_and]
              constructor
              · rintro rfl; exact Or.inr ⟨rfl, hp⟩
              · rintro (⟨hU, hmem, -⟩ | ⟨rfl, -⟩)
                · exact absurd (Or.inl ⟨S, hU, hmem⟩) hnd
                · rfl
            | some cs0 =>
              obtain ⟨hnd, hmem⟩ := hold cs0 hc
              simp only [Option.getD_some]
              refine ⟨nodup_setAdd hnd _, fun S => ?_⟩
              simp only [mem_setAdd, hmem, List.mem_append, List.mem_singleton, or_true, true_and]
              constructor
              · rintro ((h | ⟨rfl, hd, -⟩) | rfl)
                · exact Or.inl h
                · exact absurd hd hpdone
                · exact Or.inr ⟨rfl, hp⟩
              · rintro (h | ⟨rfl, -⟩)
                · exact Or.inl (Or.inl h)
                · exact Or.inr rfl
          · simp only [hP, if_false] at hcs
            obtain ⟨hnd, hmem⟩ := hold cs hcs
            refine ⟨hnd, fun S => ?_⟩
            simp only [hmem, List.mem_append, List.mem_singleton, hP, or_false]
        · have hp' : p = ref := by simpa using hp
          simp only [hp, if_false, hchi1_get] at hcs
          by_cases hP : P = p
          · subst hP
            simp only [if_true, Option.some.injEq] at hcs
            subst hcs
            cases hc : alGet chi P with
            | none =>
              have hnd : ¬ ((∃ S, U S ∧ P ∈ ppath e S) ∨ P ∈ done) := by
                rw [← hm.dom P, hc]; simp
              simp only [Option.getD_none]
              refine ⟨List.nodup_nil, fun S => ?_⟩
              simp only [List.not_mem_nil, false_iff, not_or, not_and]
              refine ⟨fun hU hmem _ => hnd (Or.inl ⟨S, hU, hmem⟩), fun _ _ => fun h => h hp'⟩
            | some cs0 =>
              obtain ⟨hnd, hmem⟩ := hold cs0 hc
              simp only [Option.getD_some]
              refine ⟨hnd, fun S => ?_⟩
              simp only [hmem, List.mem_append, List.mem_singleton, or_true, true_and]
              constructor
              · rintro (h | ⟨rfl, hd, hne⟩)
                · exact Or.inl h
                · exact absurd hp' hne
              · rintro (h | ⟨rfl, hne⟩)
                · exact Or.inl h
                · exact absurd hp' hne
          · simp only [hP, if_false] at hcs
            obtain ⟨hnd, hmem⟩ := hold cs hcs
            refine ⟨hnd, fun S => ?_⟩
            simp only [hmem, List.mem_append, List.mem_singleton, hP, or_false]

theorem ppath_eq {e : Env} {r : SRef} {i : SInfo} (h : e.info r = some i) : ppath e r = i.parents := by
  simp [ppath, h]

theorem mem_ppath_self {e : Env} (he : WFEnv e) {r : SRef} {i : SInfo} (h : e.info r = some i) :
    r ∈ ppath e r := by
  rw [ppath_eq h]
  exact List.mem_of_getLast? (he.last r i h)

/-- `_update_parents_children(ref, parents)` turns the index for `U` into the index for `U ∪ {ref}` -/
theorem upcAdd_index {e : Env} (he : WFEnv e) {U : SRef → Prop} {ref : SRef} {i : SInfo}
    (hi : e.info ref = some i) {par chi : List (SRef × List SRef)} (h : IndexOK e U par chi) :
    IndexOK e (fun S => U S ∨ S = ref) (upcAdd ref par chi [] i.parents).1 (upcAdd ref par chi [] i.parents).2 := by
  have hm : IndexMid e U ref [] par chi :=
    ⟨fun P => by simpa using h.dom P, h.domp, h.par_val, fun P cs hcs => by
      obtain ⟨h1, h2⟩ := h.chi_val P cs hcs
      exact ⟨h1, fun S => by simpa using h2 S⟩⟩
  have := upcAdd_mid e he U ref i hi i.parents [] par chi (by simp) hm
  have hpp := ppath_eq hi
  have hself : ref ∈ i.parents := hpp ▸ mem_ppath_self he hi
  refine ⟨fun P => ?_, this.domp, this.par_val, fun P cs hcs => ?_⟩
  · rw [this.dom P]
    constructor
    · rintro (⟨S, hS, hx⟩ | hx)
      · exact ⟨S, Or.inl hS, hx⟩
      · exact ⟨ref, Or.inr rfl, hpp ▸ hx⟩
    · rintro ⟨S, hS | rfl, hx⟩
      · exact Or.inl ⟨S, hS, hx⟩
      · exact Or.inr (hpp ▸ hx)
  · obtain ⟨h1, h2⟩ := this.chi_val P cs hcs
    refine ⟨h1, fun S => ?_⟩
    rw [h2 S]
    constructor
    · rintro (⟨hS, hx, hne⟩ | ⟨rfl, hx, hne⟩)
      · exact ⟨Or.inl hS, hx, hne⟩
      · exact ⟨Or.inr rfl, hpp ▸ hx, fun h => hne h.symm⟩
    · rintro ⟨hS | rfl, hx, hne⟩
      · exact Or.inl ⟨hS, hx, hne⟩
      · by_cases hU : U S
        · exact Or.inl ⟨hU, hx, hne⟩
        · exact Or.inr ⟨rfl, hpp ▸ hx, fun h => hne h.symm⟩

/-! ### specification of the `/metador_container` subtree -/

/-- `o` is `some n` when `P` holds and `none` otherwise -/
def Holds (o : Option Node) (P : Prop) (n : Node) : Prop := (P → o = some n) ∧ (¬ P → o = none)

theorem Holds.congr {o o' : Option Node} {P P' : Prop} {n : Node} (h : Holds o P n) (ho : o' = o)
    (hp : P' ↔ P) : Holds o' P' n :=
  ⟨fun hp' => ho ▸ h.1 (hp.mp hp'), fun hp' => ho ▸ h.2 (fun x => hp' (hp.mpr x))⟩

theorem Holds.intro_some {o : Option Node} {P : Prop} {n : Node} (ho : o = some n) (hp : P) : Holds o P n :=
  ⟨fun _ => ho, fun h => absurd hp h⟩

inductive TocShape : Path → Prop
  | root : TocShape []
  | version : TocShape [.version]
  | uuid : TocShape [.uuid]
  | links : TocShape [.links]
  | linkDir (r) : TocShape [.links, .ep r]
  | link (r u) : TocShape [.links, .ep r, .link u]
  | schemas : TocShape [.schemas]
  | schemaDir (r) : TocShape [.schemas, .ep r]
  | json (r) : TocShape [.schemas, .ep r, .jsonschema]
  | compat (r) : TocShape [.schemas, .ep r, .compat]
  | packages : TocShape [.packages]
  | pkg (p) : TocShape [.packages, .pkg p]

/-- the package `pk` provides a registered schema -/
def RegP (e : Env) (U : SRef → Prop) (pk : PkgId) : Prop := ∃ r i, U r ∧ e.info r = some i ∧ i.pkg = pk

/-- The `/metador_container` subtree of `t` is exactly what the linked objects `L`
(`L p r u`: object at path `p`, schema `r`, uuid `u`) and the registered schemas `U` demand. -/
structure TocRaw (e : Env) (L : Path → SRef → Nat → Prop) (U : SRef → Prop) (t : Tree) : Prop where
  root : get? t tocP = some .grp
  ver : get? t versionP = some (.ds (.text "1.0"))
  uid : get? t uuidP = some (.ds (.text "uuid"))
  links : Holds (get? t linksP) (∃ p r u, L p r u) .grp
  ldir : ∀ r, Holds (get? t (linkDir r)) (∃ p u, L p r u) .grp
  link_some : ∀ p r u, L p r u → get? t (linkPath r u) = some (.ds (.target p))
  link_none : ∀ r u, (¬ ∃ p, L p r u) → get? t (linkPath r u) = none
  schemas : Holds (get? t schemasP) (∃ r, U r) .grp
  sdir : ∀ r, Holds (get? t (schemaDir r)) (U r) .grp
  json : ∀ r, Holds (get? t (schemaDir r ++ [.jsonschema])) (U r) (.ds (.jsonschema r))
  compat : ∀ r, Holds (get? t (schemaDir r ++ [.compat])) (U r) (.ds (.compat (ppath e r)))
  packages : Holds (get? t packagesP) (∃ r, U r) .grp
  pkg : ∀ pk, Holds (get? t (pkgPath pk)) (RegP e U pk) (.ds (.pkginfo pk (e.pkgPlugins pk)))
  shape : ∀ rest, get? t (.toc :: rest) ≠ none → TocShape rest

/-- The caches of `TOCSchemas` / `TOCPackages` are what the registered schemas `U` demand. -/
structure SchemaCache (e : Env) (U : SRef → Prop) (c : Caches) : Prop where
  schemas : ∀ r, r ∈ c.schemas ↔ U r
  schemas_nodup : c.schemas.Nodup
  index : IndexOK e U c.parents c.children
  pkginfos : ∀ pk pl, alGet c.pkginfos pk = some pl ↔ (RegP e U pk ∧ pl = e.pkgPlugins pk)
  providers : ∀ r ps, alGet c.providers r = some ps ↔ ∃ pk, ps = [pk] ∧ RegP e U pk ∧ r ∈ e.pkgPlugins pk
  used_dom : ∀ pk, (alGet c.used pk).isSome ↔ RegP e U pk
  used_val : ∀ pk rs, alGet c.used pk = some rs → rs.Nodup ∧
    ∀ r, r ∈ rs ↔ (U r ∧ ∃ i, e.info r = some i ∧ i.pkg = pk)

/-- The cache of `TOCLinks` is what the linked objects demand. -/
def LinkCache (L : Path → SRef → Nat → Prop) (c : Caches) : Prop :=
  ∀ u tp, alGet c.tocPath u = some tp ↔ ∃ p r, L p r u ∧ tp = linkPath r u

/-- uuids identify linked objects -/
def LUniq (L : Path → SRef → Nat → Prop) : Prop :=
  ∀ p p' r r' u, L p r u → L p' r' u → p = p' ∧ r = r'

/-- loop of `_add_providers` for a package `pk` that no registered package shares schemas with -/
theorem addProviders_spec {e : Env} (he : WFEnv e) (Q : PkgId → Prop) (pk : PkgId) :
    ∀ (l done : List SRef) (prov : List (SRef × List PkgId)),
      (∀ r ∈ l, r ∈ e.pkgPlugins pk) →
      (∀ r ps, alGet prov r = some ps ↔
        ((∃ pk', ps = [pk'] ∧ Q pk' ∧ pk' ≠ pk ∧ r ∈ e.pkgPlugins pk') ∨ (ps = [pk] ∧ r ∈ done))) →
      ∀ r ps, alGet (addProviders prov pk l) r = some ps ↔
        ((∃ pk', ps = [pk'] ∧ Q pk' ∧ pk' ≠ pk ∧ r ∈ e.pkgPlugins pk') ∨ (ps = [pk] ∧ r ∈ done ++ l))
  | [], done, prov, _, h => by simpa [addProviders] using h
  | x :: l, done, prov, hl, h => by
    simp only [addProviders]
    have hx : x ∈ e.pkgPlugins pk := hl x (by simp)
    have := addProviders_spec he Q pk l (done ++ [x])
      (alSet prov x (setAdd ((alGet prov x).getD []) pk)) (fun r hr => hl r (by simp [hr])) (by
        intro r ps
        rw [alGet_alSet]
        by_cases hr : r = x
        · subst hr
          simp only [if_true, Option.some.injEq, List.mem_append, List.mem_singleton, or_true, and_true]
          have hval : setAdd ((alGet prov r).getD []) pk = [pk] := by
            cases hg : alGet prov r with
            | none => simp [setAdd]
            | some ps0 =>
              rcases (h r ps0).mp hg with ⟨pk', -, -, hne, hmem⟩ | ⟨rfl, -⟩
              · exact absurd (he.disj _ _ _ hmem hx) hne
              · simp [setAdd]
          rw [hval]
          constructor
          · intro h'; exact Or.inr h'.symm
          · rintro (⟨pk', -, -, hne, hmem⟩ | h')
            · exact absurd (he.disj _ _ _ hmem hx) hne
            · exact h'.symm
        · simp only [hr, if_false, h r ps, List.mem_append, List.mem_singleton, or_false])
    intro r ps
    rw [this r ps]
    simp [List.append_assoc]

theorem isMid_head {p q : Path} (h : isMid [] p q = true) : q.head? = p.head? := by
  obtain ⟨hq, ⟨b, rfl⟩, -⟩ := isMid_nil_iff.mp h
  cases q with
  | nil => exact absurd rfl hq
  | cons x q => rfl

/-- creating a node below `/metador_container` leaves everything else alone -/
theorem rawCreate_frame {t t' : Tree} {p : Path} {n : Node} (h : rawCreate t p n = .ok t')
    (q : Path) (hq : q.head? ≠ p.head?) : get? t' q = get? t q := by
  by_cases hq0 : q = []
  · subst hq0; simp
  · rw [rawCreate_get? h q hq0]
    have : q ≠ p := by rintro rfl; exact hq rfl
    rw [if_neg this]
    cases hg : get? t q with
    | some x => rfl
    | none =>
      have : isMid [] p q = false := by
        cases hm : isMid [] p q
        · rfl
        · exact absurd (isMid_head hm) hq
      simp [this]

theorem rawDel_frame {t t' : Tree} {p : Path} (h : rawDel t p = .ok t')
    (q : Path) (hq : q.head? ≠ p.head?) : get? t' q = get? t q := by
  by_cases hq0 : q = []
  · subst hq0; simp
  · rw [rawDel_get? h q hq0]
    have : under p q = false := by
      cases hu : under p q
      · rfl
      · exfalso
        obtain ⟨hp, -, -⟩ := rawDel_inv h
        obtain ⟨b, rfl⟩ := under_iff.mp hu
        cases p with
        | nil => exact hp rfl
        | cons x p => exact hq rfl
    simp [this]

theorem TocRaw.congr {e : Env} {L L' : Path → SRef → Nat → Prop} {U U' : SRef → Prop} {t : Tree}
    (h : TocRaw e L U t) (hL : ∀ p r u, L' p r u ↔ L p r u) (hU : ∀ r, U' r ↔ U r) : TocRaw e L' U' t := by
  have e1 : L' = L := by funext p r u; exact propext (hL p r u)
  have e2 : U' = U := by funext r; exact propext (hU r)
  rw [e1, e2]; exact h

theorem SchemaCache.congr {e : Env} {U U' : SRef → Prop} {c : Caches}
    (h : SchemaCache e U c) (hU : ∀ r, U' r ↔ U r) : SchemaCache e U' c := by
  have e2 : U' = U := by funext r; exact propext (hU r)
  rw [e2]; exact h

theorem Holds.not_ds {o : Option Node} {P : Prop} (h : Holds o P .grp) (v : Val) : o ≠ some (.ds v) := by
  by_cases hp : P
  · rw [h.1 hp]; exact fun h => by cases h
  · rw [h.2 hp]; exact fun h => by cases h

@[simp] theorem forEachM_nil {α} (f : α → M Unit) : forEachM [] f = pure () := rfl
@[simp] theorem forEachM_cons {α} (a : α) (l : List α) (f : α → M Unit) :
    forEachM (a :: l) f = (do f a; forEachM l f) := rfl

/-- caches after `TOCSchemas._register(ref)` when the providing package is already registered -/
def regCachesOld (c : Caches) (ref : SRef) (i : SInfo) (cur : List SRef) : Caches :=
  { c with schemas := setAdd c.schemas ref,
           parents := (upcAdd ref c.parents c.children [] i.parents).1,
           children := (upcAdd ref c.parents c.children [] i.parents).2,
           used := alSet c.used i.pkg (setAdd cur ref) }

theorem schemaRegister_old (e : Env) (ref : SRef) (s : St) (i : SInfo) (t1 t2 : Tree) (cur : List SRef)
    (hnew : ref ∉ s.c.schemas) (hi : e.info ref = some i)
    (h1 : rawCreate s.raw (schemaDir ref ++ [.jsonschema]) (.ds (.jsonschema ref)) = .ok t1)
    (h2 : rawCreate t1 (schemaDir ref ++ [.compat]) (.ds (.compat i.parents)) = .ok t2)
    (hp : alGet s.c.providers ref = some [i.pkg])
    (hu : alGet s.c.used i.pkg = some cur) :
    schemaRegister e ref s = (.ok (), ⟨t2, regCachesOld s.c ref i cur, s.next⟩) := by
  simp [schemaRegister, hnew, hi, run_liftRaw, h1, h2, hp, hu, regCachesOld]

/-- caches after `TOCSchemas._register(ref)` when the providing package gets registered too -/
def regCachesNew (e : Env) (c : Caches) (ref : SRef) (i : SInfo) : Caches :=
  { c with schemas := setAdd c.schemas ref,
           parents := (upcAdd ref c.parents c.children [] i.parents).1,
           children := (upcAdd ref c.parents c.children [] i.parents).2,
           pkginfos := alSet c.pkginfos i.pkg (e.pkgPlugins i.pkg),
           providers := addProviders c.providers i.pkg (e.pkgPlugins i.pkg),
           used := alSet (alSet c.used i.pkg []) i.pkg (setAdd [] ref) }

theorem schemaRegister_new (e : Env) (ref : SRef) (s : St) (i : SInfo) (t1 t2 t3 : Tree)
    (hnew : ref ∉ s.c.schemas) (hi : e.info ref = some i)
    (h1 : rawCreate s.raw (schemaDir ref ++ [.jsonschema]) (.ds (.jsonschema ref)) = .ok t1)
    (h2 : rawCreate t1 (schemaDir ref ++ [.compat]) (.ds (.compat i.parents)) = .ok t2)
    (hp : alGet s.c.providers ref = none)
    (h3 : rawCreate t2 (pkgPath i.pkg) (.ds (.pkginfo i.pkg (e.pkgPlugins i.pkg))) = .ok t3)
    (hp' : alGet (addProviders s.c.providers i.pkg (e.pkgPlugins i.pkg)) ref = some [i.pkg]) :
    schemaRegister e ref s = (.ok (), ⟨t3, regCachesNew e s.c ref i, s.next⟩) := by
  simp [schemaRegister, hnew, hi, run_liftRaw, h1, h2, hp, h3, hp', pkgRegister, regCachesNew, alGet_alSet]

theorem RegP_add {e : Env} {U : SRef → Prop} {ref : SRef} {i : SInfo} (hi : e.info ref = some i) (pk : PkgId) :
    RegP e (fun r => U r ∨ r = ref) pk ↔ (RegP e U pk ∨ pk = i.pkg) := by
  constructor
  · rintro ⟨r, j, hU | rfl, hj, rfl⟩
    · exact Or.inl ⟨r, j, hU, hj, rfl⟩
    · rw [hi] at hj; cases hj; exact Or.inr rfl
  · rintro (⟨r, j, hU, hj, rfl⟩ | rfl)
    · exact ⟨r, j, Or.inl hU, hj, rfl⟩
    · exact ⟨ref, i, Or.inr rfl, hi, rfl⟩

/-- the two datasets written by `TOCSchemas._register` for a schema that was not in use -/
theorem tocRaw_addSchema {e : Env} {L : Path → SRef → Nat → Prop} {U : SRef → Prop} {t t1 t2 : Tree}
    {ref : SRef} {i : SInfo} (hi : e.info ref = some i) (hr : TocRaw e L U t) (hnew : ¬ U ref)
    (h1 : rawCreate t (schemaDir ref ++ [.jsonschema]) (.ds (.jsonschema ref)) = .ok t1)
    (h2 : rawCreate t1 (schemaDir ref ++ [.compat]) (.ds (.compat i.parents)) = .ok t2) :
    (∀ q, q ≠ [] → get? t2 q =
      if q = schemaDir ref ++ [.compat] then some (.ds (.compat i.parents))
      else if q = schemaDir ref ++ [.jsonschema] then some (.ds (.jsonschema ref))
      else match get? t q with
        | some x => some x
        | none => if q = schemasP ∨ q = schemaDir ref then some .grp else none) := by
  intro q hq
  rw [rawCreate_get? h2 q hq, rawCreate_get? h1 q hq]
  have hroot := hr.root
  by_cases hc : q = schemaDir ref ++ [.compat]
  · simp [hc]
  · by_cases hj : q = schemaDir ref ++ [.jsonschema]
    · simp [hj, schemaDir]
    · simp only [hc, hj, if_false]
      cases hg : get? t q with
      | some x => rfl
      | none =>
        have hq1 : q ≠ tocP := by rintro rfl; rw [hroot] at hg; cases hg
        simp only [schemaDir, List.cons_append, List.nil_append, isMid, List.nil_append, Bool.or_false,
          Bool.or_eq_true, beq_iff_eq, schemasP, tocP] at hq1 ⊢
        by_cases ha : q = [.toc, .schemas]
        · simp [ha]
        · by_cases hb : q = [.toc, .schemas, .ep ref]
          · simp [hb]
          · simp [hq1, ha, hb]

theorem match_id (o : Option Node) : (match o with | some x => some x | none => none) = o := by
  cases o <;> rfl

/-- lookups after `TOCSchemas._register` of a new schema; `b`: the package record was written too -/
def RegGet (e : Env) (t t' : Tree) (ref : SRef) (i : SInfo) (b : Bool) : Prop :=
  ∀ q, q ≠ [] → get? t' q =
    if b = true ∧ q = pkgPath i.pkg then some (.ds (.pkginfo i.pkg (e.pkgPlugins i.pkg)))
    else if q = schemaDir ref ++ [.compat] then some (.ds (.compat i.parents))
    else if q = schemaDir ref ++ [.jsonschema] then some (.ds (.jsonschema ref))
    else match get? t q with
      | some x => some x
      | none => if q = schemasP ∨ q = schemaDir ref ∨ (b = true ∧ q = packagesP) then some .grp else none

theorem tocRaw_register {e : Env} {L : Path → SRef → Nat → Prop} {U : SRef → Prop} {t t' : Tree}
    {ref : SRef} {i : SInfo} {b : Bool} (hi : e.info ref = some i) (hr : TocRaw e L U t) (hnew : ¬ U ref)
    (hb : b = true ↔ ¬ RegP e U i.pkg) (hg : RegGet e t t' ref i b) :
    TocRaw e L (fun r => U r ∨ r = ref) t' := by
  have hU' : ∃ r, U r ∨ r = ref := ⟨ref, Or.inr rfl⟩
  have hpp : ppath e ref = i.parents := ppath_eq hi
  constructor
  · rw [hg _ (by simp [tocP])]; simp [tocP, pkgPath, schemaDir, hr.root, schemasP, packagesP]
    have := hr.root; simp only [tocP] at this; simp [this]
  · rw [hg _ (by simp [versionP])]
    have := hr.ver; simp only [versionP] at this
    simp [versionP, pkgPath, schemaDir, this]
  · rw [hg _ (by simp [uuidP])]
    have := hr.uid; simp only [uuidP] at this
    simp [uuidP, pkgPath, schemaDir, this]
  · refine hr.links.congr ?_ Iff.rfl
    rw [hg _ (by simp [linksP])]
    simp only [linksP, pkgPath, schemaDir, schemasP, packagesP]
    cases get? t [.toc, .links] <;> simp
  · intro r
    refine (hr.ldir r).congr ?_ Iff.rfl
    rw [hg _ (by simp [linkDir])]
    simp only [linkDir, pkgPath, schemaDir, schemasP, packagesP]
    cases get? t [.toc, .links, .ep r] <;> simp
  · intro p r u hL
    rw [hg _ (by simp [linkPath])]
    have := hr.link_some p r u hL
    simp only [linkPath] at this
    simp [linkPath, pkgPath, schemaDir, this]
  · intro r u hL
    rw [hg _ (by simp [linkPath])]
    have := hr.link_none r u hL
    simp only [linkPath] at this
    simp [linkPath, pkgPath, schemaDir, this, schemasP, packagesP]
  · refine Holds.intro_some ?_ hU'
    rw [hg _ (by simp [schemasP])]
    simp only [schemasP, pkgPath, schemaDir]
    rcases h : get? t [.toc, .schemas] with _ | x
    · simp
    · have := hr.schemas.not_ds
      simp only [schemasP, h] at this
      cases x with
      | grp => simp
      | ds v => exact absurd rfl (this v)
  · intro r
    by_cases hrr : r = ref
    · subst hrr
      refine Holds.intro_some ?_ (Or.inr rfl)
      rw [hg _ (by simp [schemaDir])]
      have := (hr.sdir r).2 hnew
      simp only [schemaDir] at this
      simp [schemaDir, pkgPath, this]
    · refine (hr.sdir r).congr ?_ (by simp [hrr])
      rw [hg _ (by simp [schemaDir])]
      simp only [schemaDir, pkgPath, schemasP, packagesP]
      cases get? t [.toc, .schemas, .ep r] <;> simp [hrr]
  · intro r
    by_cases hrr : r = ref
    · subst hrr
      refine Holds.intro_some ?_ (Or.inr rfl)
      rw [hg _ (by simp [schemaDir])]
      simp [schemaDir, pkgPath]
    · refine (hr.json r).congr ?_ (by simp [hrr])
      rw [hg _ (by simp [schemaDir])]
      simp only [schemaDir, pkgPath, schemasP, packagesP]
      simp [hrr, match_id]
  · intro r
    by_cases hrr : r = ref
    · subst hrr
      refine Holds.intro_some ?_ (Or.inr rfl)
      rw [hg _ (by simp [schemaDir])]
      simp [schemaDir, pkgPath, hpp]
    · refine (hr.compat r).congr ?_ (by simp [hrr])
      rw [hg _ (by simp [schemaDir])]
      simp only [schemaDir, pkgPath, schemasP, packagesP]
      simp [hrr, match_id]
  · refine Holds.intro_some ?_ hU'
    rw [hg _ (by simp [packagesP])]
    simp only [packagesP, pkgPath, schemaDir, schemasP]
    by_cases hreg : RegP e U i.pkg
    · obtain ⟨r, _, hUr, _, _⟩ := hreg
      have := hr.packages.1 ⟨r, hUr⟩
      simp only [packagesP] at this
      simp [this]
    · have hbt : b = true := hb.mpr hreg
      rcases h : get? t [.toc, .packages] with _ | x
      · simp [hbt]
      · have := hr.packages.not_ds
        simp only [packagesP, h] at this
        cases x with
        | grp => simp
        | ds v => exact absurd rfl (this v)
  · intro pk
    by_cases hpk : pk = i.pkg
    · subst hpk
      refine Holds.intro_some ?_ ((RegP_add hi _).mpr (Or.inr rfl))
      rw [hg _ (by simp [pkgPath])]
      by_cases hreg : RegP e U i.pkg
      · have := (hr.pkg i.pkg).1 hreg
        simp only [pkgPath] at this
        have hbf : b = false := by
          cases hbb : b
          · rfl
          · exact absurd hreg (hb.mp hbb)
        simp [pkgPath, schemaDir, this, hbf]
      · simp [hb.mpr hreg]
    · refine (hr.pkg pk).congr ?_ (by rw [RegP_add hi]; simp [hpk])
      rw [hg _ (by simp [pkgPath])]
      simp only [pkgPath, schemaDir, schemasP, packagesP]
      have hpk' : ¬ i.pkg = pk := fun h => hpk h.symm
      cases get? t [.toc, .packages, .pkg pk] <;> simp [hpk, hpk']
  · intro rest hne
    rw [hg _ (by simp)] at hne
    by_cases h1 : b = true ∧ Key.toc :: rest = pkgPath i.pkg
    · simp only [pkgPath, List.cons.injEq, true_and] at h1
      rw [h1.2]; exact .pkg _
    · by_cases h2 : Key.toc :: rest = schemaDir ref ++ [.compat]
      · simp only [schemaDir, List.cons_append, List.nil_append, List.cons.injEq, true_and] at h2
        rw [h2]; exact .compat _
      · by_cases h3 : Key.toc :: rest = schemaDir ref ++ [.jsonschema]
        · simp only [schemaDir, List.cons_append, List.nil_append, List.cons.injEq, true_and] at h3
          rw [h3]; exact .json _
        · simp only [h1, h2, h3, if_false] at hne
          cases hq : get? t (Key.toc :: rest) with
          | some x => exact hr.shape rest (by rw [hq]; simp)
          | none =>
            rw [hq] at hne
            simp only at hne
            split_ifs at hne with h4
            · simp only [schemasP, schemaDir, packagesP, List.cons.injEq, true_and] at h4
              rcases h4 with h4 | h4 | ⟨-, h4⟩ <;> rw [h4]
              · exact .schemas
              · exact .schemaDir _
              · exact .packages
            · exact absurd rfl hne

theorem alGet_some_of_isSome {α β : Type} [DecidableEq α] {l : List (α × β)} {a : α}
    (h : (alGet l a).isSome) : ∃ b, alGet l a = some b := by
  cases hg : alGet l a with
  | none => simp [hg] at h
  | some b => exact ⟨b, rfl⟩

theorem schemaCache_regOld {e : Env} (he : WFEnv e) {U : SRef → Prop} {c : Caches} {ref : SRef} {i : SInfo}
    {cur : List SRef} (hi : e.info ref = some i) (hs : SchemaCache e U c) (hreg : RegP e U i.pkg)
    (hu : alGet c.used i.pkg = some cur) :
    SchemaCache e (fun r => U r ∨ r = ref) (regCachesOld c ref i cur) := by
  have hregiff : ∀ pk, RegP e (fun r => U r ∨ r = ref) pk ↔ RegP e U pk := by
    intro pk
    rw [RegP_add hi]
    constructor
    · rintro (h | rfl)
      · exact h
      · exact hreg
    · exact Or.inl
  constructor
  · intro r; simp [regCachesOld, mem_setAdd, hs.schemas r]
  · exact nodup_setAdd hs.schemas_nodup _
  · exact upcAdd_index he hi hs.index
  · intro pk pl; simp only [regCachesOld, hregiff]; exact hs.pkginfos pk pl
  · intro r ps; simp only [regCachesOld, hregiff]; exact hs.providers r ps
  · intro pk
    simp only [regCachesOld, hregiff, alGet_alSet]
    by_cases hpk : pk = i.pkg
    · subst hpk; simp [hreg]
    · simp [hpk, hs.used_dom pk]
  · intro pk rs hrs
    simp only [regCachesOld, alGet_alSet] at hrs
    by_cases hpk : pk = i.pkg
    · subst hpk
      simp only [if_true, Option.some.injEq] at hrs
      subst hrs
      obtain ⟨hnd, hmem⟩ := hs.used_val _ _ hu
      refine ⟨nodup_setAdd hnd _, fun r => ?_⟩
      rw [mem_setAdd, hmem r]
      constructor
      · rintro (⟨hU, hex⟩ | rfl)
        · exact ⟨Or.inl hU, hex⟩
        · exact ⟨Or.inr rfl, i, hi, rfl⟩
      · rintro ⟨hU | rfl, hex⟩
        · exact Or.inl ⟨hU, hex⟩
        · exact Or.inr rfl
    · simp only [hpk, if_false] at hrs
      obtain ⟨hnd, hmem⟩ := hs.used_val _ _ hrs
      refine ⟨hnd, fun r => ?_⟩
      rw [hmem r]
      constructor
      · rintro ⟨hU, hex⟩; exact ⟨Or.inl hU, hex⟩
      · rintro ⟨hU | rfl, j, hj, hjp⟩
        · exact ⟨hU, j, hj, hjp⟩
        · rw [hi] at hj; cases hj; exact absurd hjp.symm hpk

theorem schemaCache_regNew {e : Env} (he : WFEnv e) {U : SRef → Prop} {c : Caches} {ref : SRef} {i : SInfo}
    (hi : e.info ref = some i) (hs : SchemaCache e U c) (hreg : ¬ RegP e U i.pkg) :
    SchemaCache e (fun r => U r ∨ r = ref) (regCachesNew e c ref i) := by
  have hprov : ∀ r ps, alGet (addProviders c.providers i.pkg (e.pkgPlugins i.pkg)) r = some ps ↔
      ∃ pk, ps = [pk] ∧ RegP e (fun r => U r ∨ r = ref) pk ∧ r ∈ e.pkgPlugins pk := by
    intro r ps
    have := addProviders_spec he (RegP e U) i.pkg (e.pkgPlugins i.pkg) [] c.providers (fun _ h => h) (by
      intro r ps
      rw [hs.providers r ps]
      constructor
      · rintro ⟨pk, rfl, hpk, hmem⟩
        exact Or.inl ⟨pk, rfl, hpk, fun h => hreg (h ▸ hpk), hmem⟩
      · rintro (⟨pk, rfl, hpk, -, hmem⟩ | ⟨-, hmem⟩)
        · exact ⟨pk, rfl, hpk, hmem⟩
        · simp at hmem) r ps
    rw [this]
    simp only [List.nil_append]
    constructor
    · rintro (⟨pk, rfl, hpk, -, hmem⟩ | ⟨rfl, hmem⟩)
      · exact ⟨pk, rfl, (RegP_add hi pk).mpr (Or.inl hpk), hmem⟩
      · exact ⟨i.pkg, rfl, (RegP_add hi _).mpr (Or.inr rfl), hmem⟩
    · rintro ⟨pk, rfl, hpk, hmem⟩
      rcases (RegP_add hi pk).mp hpk with h | rfl
      · exact Or.inl ⟨pk, rfl, h, fun h' => hreg (h' ▸ h), hmem⟩
      · exact Or.inr ⟨rfl, hmem⟩
  constructor
  · intro r; simp [regCachesNew, mem_setAdd, hs.schemas r]
  · exact nodup_setAdd hs.schemas_nodup _
  · exact upcAdd_index he hi hs.index
  · intro pk pl
    simp only [regCachesNew, alGet_alSet, RegP_add hi]
    by_cases hpk : pk = i.pkg
    · subst hpk
      simp only [if_true, Option.some.injEq, or_true, true_and]
      exact eq_comm
    · simp only [hpk, if_false, or_false]; exact hs.pkginfos pk pl
  · exact hprov
  · intro pk
    simp only [regCachesNew, alGet_alSet, RegP_add hi]
    by_cases hpk : pk = i.pkg
    · subst hpk; simp
    · simp [hpk, hs.used_dom pk]
  · intro pk rs hrs
    simp only [regCachesNew, alGet_alSet] at hrs
    by_cases hpk : pk = i.pkg
    · subst hpk
      simp only [if_true, Option.some.injEq] at hrs
      subst hrs
      refine ⟨by simp [setAdd], fun r => ?_⟩
      simp only [setAdd, List.not_mem_nil, if_false, List.nil_append, List.mem_singleton]
      constructor
      · rintro rfl; exact ⟨Or.inr rfl, i, hi, rfl⟩
      · rintro ⟨hU | rfl, j, hj, hjp⟩
        · exact absurd ⟨r, j, hU, hj, hjp⟩ hreg
        · rfl
    · simp only [hpk, if_false] at hrs
      obtain ⟨hnd, hmem⟩ := hs.used_val _ _ hrs
      refine ⟨hnd, fun r => ?_⟩
      rw [hmem r]
      constructor
      · rintro ⟨hU, hex⟩; exact ⟨Or.inl hU, hex⟩
      · rintro ⟨hU | rfl, j, hj, hjp⟩
        · exact ⟨hU, j, hj, hjp⟩
        · rw [hi] at hj; cases hj; exact absurd hjp.symm hpk

/-- what an operation on the TOC part guarantees for the rest of the state -/
structure TocStep (s s' : St) : Prop where
  keys : KeysOK s.raw → KeysOK s'.raw
  pclosed : PClosed s.raw → PClosed s'.raw
  frame : ∀ q, q.head? ≠ some .toc → get? s'.raw q = get? s.raw q
  next : s'.next = s.next

theorem TocStep.refl (s : St) : TocStep s s := ⟨id, id, fun _ _ => rfl, rfl⟩

theorem TocStep.trans {s1 s2 s3 : St} (h1 : TocStep s1 s2) (h2 : TocStep s2 s3) : TocStep s1 s3 :=
  ⟨fun h => h2.keys (h1.keys h), fun h => h2.pclosed (h1.pclosed h),
   fun q hq => (h2.frame q hq).trans (h1.frame q hq), h2.next.trans h1.next⟩

theorem TocStep.of_create {s : St} {p : Path} {n : Node} {t' : Tree} (h : rawCreate s.raw p n = .ok t')
    (hp : p.head? = some .toc) (c' : Caches) : TocStep s ⟨t', c', s.next⟩ :=
  ⟨rawCreate_keys h, rawCreate_pclosed h, fun q hq => rawCreate_frame h q (by rw [hp]; exact hq), rfl⟩

theorem TocStep.of_del {s : St} {p : Path} {t' : Tree} (h : rawDel s.raw p = .ok t')
    (hp : p.head? = some .toc) (c' : Caches) : TocStep s ⟨t', c', s.next⟩ :=
  ⟨rawDel_keys h, rawDel_pclosed h, fun q hq => rawDel_frame h q (by rw [hp]; exact hq), rfl⟩

/-- `TOCSchemas._register(ref)` -/
theorem schemaRegister_spec {e : Env} (he : WFEnv e) {L : Path → SRef → Nat → Prop} {U : SRef → Prop}
    {s : St} {ref : SRef} {i : SInfo} (hi : e.info ref = some i)
    (hr : TocRaw e L U s.raw) (hs : SchemaCache e U s.c) :
    ∃ s', schemaRegister e ref s = (.ok (), s') ∧
      TocRaw e L (fun r => U r ∨ r = ref) s'.raw ∧ SchemaCache e (fun r => U r ∨ r = ref) s'.c ∧
      s'.c.tocPath = s.c.tocPath ∧ TocStep s s' := by
  by_cases hU : U ref
  · -- already in use: nothing happens
    have hmem : ref ∈ s.c.schemas := (hs.schemas ref).mpr hU
    refine ⟨s, by simp [schemaRegister, hmem], hr.congr (fun _ _ _ => Iff.rfl) ?_, hs.congr ?_, rfl, TocStep.refl s⟩
    · intro r; constructor
      · rintro (h | rfl); exacts [h, hU]
      · exact Or.inl
    · intro r; constructor
      · rintro (h | rfl); exacts [h, hU]
      · exact Or.inl
  · have hnmem : ref ∉ s.c.schemas := fun h => hU ((hs.schemas ref).mp h)
    -- the two schema datasets
    have hjson_none : get? s.raw (schemaDir ref ++ [.jsonschema]) = none := (hr.json ref).2 hU
    obtain ⟨t1, h1⟩ := rawCreate_ok (t := s.raw) (p := schemaDir ref ++ [.jsonschema]) (n := .ds (.jsonschema ref))
      (by simp [schemaDir]) hjson_none (by
        intro q v hm
        simp only [schemaDir, List.cons_append, List.nil_append, isMid, Bool.or_false, Bool.or_eq_true, beq_iff_eq] at hm
        rcases hm with rfl | rfl | rfl
        · have := hr.root; simp only [tocP] at this; rw [this]; exact fun h => by cases h
        · exact hr.schemas.not_ds v
        · exact (hr.sdir ref).not_ds v)
    have hcompat_none : get? t1 (schemaDir ref ++ [.compat]) = none := by
      rw [rawCreate_get? h1 _ (by simp [schemaDir]), (hr.compat ref).2 hU]
      simp [schemaDir, isMid]
    obtain ⟨t2, h2⟩ := rawCreate_ok (t := t1) (p := schemaDir ref ++ [.compat]) (n := .ds (.compat i.parents))
      (by simp [schemaDir]) hcompat_none (by
        intro q v hm
        have hq := isMid_ne_nil hm
        rw [rawCreate_get? h1 q hq]
        simp only [schemaDir, List.cons_append, List.nil_append, isMid, Bool.or_false, Bool.or_eq_true, beq_iff_eq] at hm ⊢
        rcases hm with rfl | rfl | rfl
        · have := hr.root; simp only [tocP] at this; simp [this]
        · have := hr.schemas.not_ds v
          simp only [schemasP] at this
          cases hx : get? s.raw [.toc, .schemas] with
          | none => simp [isMid]
          | some x => rw [hx] at this; simpa using this
        · have := (hr.sdir ref).2 hU
          simp only [schemaDir] at this
          simp [this, isMid])
    have hget2 := tocRaw_addSchema hi hr hU h1 h2
    have step12 : TocStep s ⟨t2, s.c, s.next⟩ :=
      (TocStep.of_create h1 (by simp [schemaDir]) s.c).trans
        (TocStep.of_create (s := ⟨t1, s.c, s.next⟩) h2 (by simp [schemaDir]) s.c)
    by_cases hreg : RegP e U i.pkg
    · -- the providing package is registered already
      have hp : alGet s.c.providers ref = some [i.pkg] :=
        (hs.providers ref [i.pkg]).mpr ⟨i.pkg, rfl, hreg, he.prov ref i hi⟩
      obtain ⟨cur, hu⟩ := alGet_some_of_isSome ((hs.used_dom i.pkg).mpr hreg)
      refine ⟨⟨t2, regCachesOld s.c ref i cur, s.next⟩, schemaRegister_old e ref s i t1 t2 cur hnmem hi h1 h2 hp hu,
        ?_, schemaCache_regOld he hi hs hreg hu, rfl, ?_⟩
      · refine tocRaw_register (b := false) hi hr hU (by simp [hreg]) ?_
        intro q hq
        rw [hget2 q hq]
        simp
      · exact ⟨step12.keys, step12.pclosed, step12.frame, rfl⟩
    · -- the package record is written as well
      have hp : alGet s.c.providers ref = none := by
        cases hg : alGet s.c.providers ref with
        | none => rfl
        | some ps =>
          obtain ⟨pk, -, hpk, hmem⟩ := (hs.providers ref ps).mp hg
          have := he.disj _ _ _ hmem (he.prov ref i hi)
          exact absurd (this ▸ hpk) hreg
      have hpkg_none : get? t2 (pkgPath i.pkg) = none := by
        rw [hget2 _ (by simp [pkgPath]), (hr.pkg i.pkg).2 hreg]
        simp [pkgPath, schemaDir, schemasP]
      obtain ⟨t3, h3⟩ := rawCreate_ok (t := t2) (p := pkgPath i.pkg)
        (n := .ds (.pkginfo i.pkg (e.pkgPlugins i.pkg))) (by simp [pkgPath]) hpkg_none (by
          intro q v hm
          have hq := isMid_ne_nil hm
          rw [hget2 q hq]
          simp only [pkgPath, isMid, List.nil_append, Bool.or_false, Bool.or_eq_true, beq_iff_eq] at hm
          rcases hm with rfl | rfl
          · have := hr.root; simp only [tocP] at this; simp [this, schemaDir]
          · have := hr.packages.not_ds v
            simp only [packagesP] at this
            intro hcontra
            cases hx : get? s.raw [.toc, .packages] with
            | none =>
              simp only [List.cons_append, List.nil_append] at hcontra
              rw [hx] at hcontra; simp [schemaDir, schemasP] at hcontra
            | some x =>
              simp only [List.cons_append, List.nil_append] at hcontra
              rw [hx] at hcontra this; simp [schemaDir] at hcontra; exact this (by rw [hcontra]))
      have hcache := schemaCache_regNew he hi hs hreg
      have hp' : alGet (addProviders s.c.providers i.pkg (e.pkgPlugins i.pkg)) ref = some [i.pkg] :=
        (hcache.providers ref [i.pkg]).mpr ⟨i.pkg, rfl, (RegP_add hi _).mpr (Or.inr rfl), he.prov ref i hi⟩
      refine ⟨⟨t3, regCachesNew e s.c ref i, s.next⟩, schemaRegister_new e ref s i t1 t2 t3 hnmem hi h1 h2 hp h3 hp',
        ?_, hcache, rfl, ?_⟩
      · refine tocRaw_register (b := true) hi hr hU (by simp [hreg]) ?_
        intro q hq
        rw [rawCreate_get? h3 q hq, hget2 q hq]
        by_cases hq1 : q = pkgPath i.pkg
        · simp [hq1]
        · simp only [hq1, if_false, and_false, true_and]
          by_cases hq2 : q = schemaDir ref ++ [.compat]
          · simp [hq2]
          · by_cases hq3 : q = schemaDir ref ++ [.jsonschema]
            · simp [hq2, hq3]
            · simp only [hq2, hq3, if_false]
              cases hx : get? s.raw q with
              | some x => rfl
              | none =>
                simp only [pkgPath, isMid, List.nil_append, Bool.or_false, Bool.or_eq_true, beq_iff_eq, packagesP]
                have hroot := hr.root
                have hq0 : q ≠ [.toc] := by rintro rfl; simp only [tocP] at hroot; rw [hroot] at hx; cases hx
                by_cases ha : q = schemasP ∨ q = schemaDir ref
                · rcases ha with ha | ha <;> simp [ha]
                · have ha' := not_or.mp ha
                  simp only [ha, if_false, false_or, hq0]
                  by_cases hb : q = [.toc, .packages]
                  · simp [hb]
                  · simp [hb, ha'.1, ha'.2]
      · have step3 := step12.trans (TocStep.of_create (s := ⟨t2, s.c, s.next⟩) h3 (by simp [pkgPath]) (regCachesNew e s.c ref i))
        exact ⟨step3.keys, step3.pclosed, step3.frame, rfl⟩

end MetadorModel.Container
