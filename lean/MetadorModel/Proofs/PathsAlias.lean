import MetadorModel.Model.PathsAlias
import MetadorModel.Proofs.Paths
/-!
Helper lemmas about `Model/PathsAlias.lean` (typed path values, link-valued assignments, the raw
tree with links) used by `Props/C08.lean`.
-/
namespace MetadorModel.Paths

theorem guardPathV_str (loc : Bool) (s : Str) :
    guardPathV loc (.str s) =
      match guardPath loc s with
      | .ok u => .ok u
      | .error e => .error (.guard e) := by
  cases h : isInternalPath s
  · cases loc
    · simp [guardPathV, guardPath, isInternalPathV, h]
    · cases s with
      | nil => simp [guardPathV, guardPath, isInternalPathV, h]
      | cons c s =>
        by_cases hc : c = '/'
        · subst hc
          simp [guardPathV, guardPath, isInternalPathV, h]
        · simp [guardPathV, guardPath, isInternalPathV, h, hc]
  · simp [guardPathV, guardPath, isInternalPathV, h]

theorem guardPathV_nonstr (loc : Bool) (v : PathVal) (h : v.isStr = false) :
    guardPathV loc v = .error .notStr := by
  cases v with
  | str s => simp [PathVal.isStr] at h
  | bytes s => rfl
  | other => rfl

theorem guardPathV_reserved (loc : Bool) (s : Str) (h : isInternalPath s = true) :
    guardPathV loc (.str s) = .error (.guard .internalPath) := by
  simp [guardPathV, isInternalPathV, h]

/-- consistency with the `str`-only model -/
theorem runGuardsV_str (loc ro : Bool) (ss : List Str) (gs : List Guard) :
    runGuardsV loc ro (ss.map PathVal.str) gs =
      match runGuards loc ro ss gs with
      | .ok u => .ok u
      | .error e => .error (.guard e) := by
  induction gs with
  | nil => rfl
  | cons g gs ih =>
    cases g with
    | readOnly =>
      simp only [runGuardsV, runGuards]
      split_ifs
      · rfl
      · exact ih
    | path j =>
      simp only [runGuardsV, runGuards, List.getElem?_map]
      cases hj : ss[j]? with
      | none => rfl
      | some q =>
        simp only [Option.map_some, guardPathV_str]
        cases hq : guardPath loc q with
        | error e => rfl
        | ok u => exact ih

theorem runGuardsV_rejects (loc ro : Bool) (args : List PathVal) (i : Nat) (v : PathVal)
    (hp : args[i]? = some v) (hv : ∃ e, guardPathV loc v = .error e) (gs : List Guard)
    (hg : Guard.path i ∈ gs) : ∃ e, runGuardsV loc ro args gs = .error e := by
  induction gs with
  | nil => cases hg
  | cons g gs ih =>
    cases g with
    | readOnly =>
      have hg' : Guard.path i ∈ gs := by
        rcases List.mem_cons.mp hg with h | h
        · cases h
        · exact h
      simp only [runGuardsV]
      split_ifs
      · exact ⟨_, rfl⟩
      · exact ih hg'
    | path j =>
      simp only [runGuardsV]
      cases hj : args[j]? with
      | none => exact ⟨_, rfl⟩
      | some q =>
        simp only
        cases hq : guardPathV loc q with
        | error e => exact ⟨e, rfl⟩
        | ok u =>
          simp only
          rcases List.mem_cons.mp hg with h | h
          · injection h with h
            subst h
            rw [hp] at hj
            injection hj with hj
            subst hj
            obtain ⟨e, he⟩ := hv
            rw [he] at hq
            cases hq
          · exact ih h

/-! links -/
theorem resolve_nil (fuel : Nat) (p : Str) : resolve [] fuel p = p := by
  cases fuel <;> rfl

theorem valueRefused_of_link (refused : List String) (h : ∀ ty ∈ linkTypes, ty ∈ refused)
    (v : SetVal) (hv : v.isLink = true) : valueRefused refused v = true := by
  cases v <;> simp [SetVal.isLink] at hv <;>
    simp [valueRefused, SetVal.h5Type] <;> apply h <;> simp [linkTypes]

theorem valueRefused_of_type (refused : List String) (h : ∀ ty ∈ typeTypes, ty ∈ refused)
    (v : SetVal) (hv : v.isType = true) : valueRefused refused v = true := by
  cases v <;> simp [SetVal.isType] at hv <;>
    simp [valueRefused, SetVal.h5Type] <;> apply h <;> simp [typeTypes]

/-- an accepted assignment stores no link when the link classes are refused … -/
theorem stepSet_links (refused : List String) (h : ∀ ty ∈ linkTypes, ty ∈ refused)
    (t : LRaw) (c : SetCall) : (stepSet refused t c).links = t.links := by
  unfold stepSet setitemV
  by_cases hr : valueRefused refused c.value = true
  · simp [hr, stateAfterV]
  · simp only [hr, Bool.false_eq_true, ↓reduceIte]
    cases hg : runGuardsV false false [c.name] [Guard.path 0, Guard.readOnly] with
    | error e => rfl
    | ok u =>
      simp only
      have hnl : c.value.isLink = false := by
        cases hh : c.value.isLink with
        | false => rfl
        | true => exact absurd (valueRefused_of_link refused h c.value hh) hr
      unfold rawSetitem
      cases c.name.text with
      | none => rfl
      | some n =>
        cases hv : c.value <;> simp [hv, SetVal.isLink] at hnl <;> rfl

/-- … and commits no datatype when the datatype classes are refused -/
theorem stepSet_types (refused : List String) (h : ∀ ty ∈ typeTypes, ty ∈ refused)
    (t : LRaw) (c : SetCall) : (stepSet refused t c).types = t.types := by
  unfold stepSet setitemV
  by_cases hr : valueRefused refused c.value = true
  · simp [hr, stateAfterV]
  · simp only [hr, Bool.false_eq_true, ↓reduceIte]
    cases hg : runGuardsV false false [c.name] [Guard.path 0, Guard.readOnly] with
    | error e => rfl
    | ok u =>
      simp only
      have hnt : c.value.isType = false := by
        cases hh : c.value.isType with
        | false => rfl
        | true => exact absurd (valueRefused_of_type refused h c.value hh) hr
      unfold rawSetitem
      cases c.name.text with
      | none => rfl
      | some n =>
        cases hv : c.value <;> simp [hv, SetVal.isType] at hnt <;> rfl

theorem runSets_links (refused : List String) (h : ∀ ty ∈ linkTypes, ty ∈ refused)
    (t : LRaw) (cs : List SetCall) : (runSets refused t cs).links = t.links := by
  induction cs generalizing t with
  | nil => rfl
  | cons c cs ih =>
    simp only [runSets, List.foldl_cons] at ih ⊢
    rw [ih, stepSet_links refused h]

theorem runSets_types (refused : List String) (h : ∀ ty ∈ typeTypes, ty ∈ refused)
    (t : LRaw) (cs : List SetCall) : (runSets refused t cs).types = t.types := by
  induction cs generalizing t with
  | nil => rfl
  | cons c cs ih =>
    simp only [runSets, List.foldl_cons] at ih ⊢
    rw [ih, stepSet_types refused h]

theorem rawBelow_name (raw : Raw) (g r : Str) (nd : RawNode) (h : (r, nd) ∈ rawBelow raw g) :
    nd.name = childName g r := by
  simp only [rawBelow, List.mem_filterMap, Option.map_eq_some_iff, Prod.mk.injEq] at h
  obtain ⟨nd', _, r', hrel, hr', hnd⟩ := h
  subst hr' hnd
  unfold relName at hrel
  unfold childName
  generalize (if g == ['/'] then ['/'] else g ++ ['/']) = pre at hrel ⊢
  cases hs : stripPrefix pre nd'.name with
  | none => simp [hs] at hrel
  | some x =>
    have := stripPrefix_eq pre nd'.name x hs
    cases x with
    | nil => simp [hs] at hrel
    | cons a x =>
      simp [hs] at hrel
      rw [this, ← hrel]

theorem keysL_nolinks (t : LRaw) (hl : t.links = []) (fuel : Nat) (g : Str) :
    keysL t fuel g = keys t.nodes g := by
  unfold keysL keys items
  simp only [hl, resolve_nil, linkChildren, List.filterMap_nil, List.append_nil]
  rw [List.filter_map]
  congr 1
  apply List.filter_congr
  intro p hp
  have hb : p ∈ rawBelow t.nodes g := (List.mem_filter.mp hp).1
  simp [Function.comp, rawBelow_name t.nodes g p.1 p.2 hb]

end MetadorModel.Paths
